(* CGenRefineBits.v -- C04, data refinement, layer 1: the bit arrays of the emitted machine (CGen.v part 3: byte arrays,
   BIT_HAS / BIT_SET_AT / BIT_CLEAR, bit_or / bit_and / bit_and_not / bit_copy / bit_clear_all / bit_has_and / bit_has_any)
   as the ascending lists of the set level (CGen.v part 2, Chart.v: set_union, set_inter, set_diff, mem, intersects,
   insert_sorted, set_remove).
     abstraction:  of_bytes W a = the ascending list of the positions below W whose bit is set in a  (CGen.of_bytes)
     [okp r P]   = the byte-level operation returned normally (no Oob, no Diverge, no OutOfFuel) with a result satisfying P
   Every operation on the [nb] low bytes of an array is the set operation on the abstraction at width 8 * nb; the other
   arrays of the memory are untouched ([frame]).  Whole-byte tests (bit_has_and, bit_has_any) need one operand whose bytes
   are below 256 ([small]): the rows of the emitted tables are (to_bytes), and so is everything computed from zeroed bytes.
   Proofs only. *)
From V Require Import Base NameMatch Chart Exec Large Fast GenCGen CGen CGenLemmas SetLemmas SerializeCodecLemmas.
From Coq Require Import Lia Sorted ZifyBool.
Local Open Scope nat_scope.

(* ------------------------------------------------------------------ normal termination with a postcondition *)

Definition okp {A} (r : res A) (P : A -> Prop) : Prop := match r with Ok a => P a | _ => False end.

Lemma okp_ok A (a : A) (P : A -> Prop) : P a -> okp (Ok a) P.
Proof. exact (fun h => h). Qed.

Lemma okp_bind A B (r : res A) (k : A -> res B) (Q : A -> Prop) (P : B -> Prop) :
  okp r Q -> (forall a, Q a -> okp (k a) P) -> okp (bind r k) P.
Proof. intros H K. destruct r; cbn in *; auto. Qed.

Lemma okp_weaken A (r : res A) (P Q : A -> Prop) : okp r P -> (forall a, P a -> Q a) -> okp r Q.
Proof. intros H W. destruct r; cbn in *; auto. Qed.

Lemma okp_inv A (r : res A) (P : A -> Prop) : okp r P -> exists a, r = Ok a /\ P a.
Proof. destruct r; cbn; intros H; try contradiction. eauto. Qed.

Lemma okp_eq A (r : res A) (a : A) (P : A -> Prop) : r = Ok a -> P a -> okp r P.
Proof. intros -> H. exact H. Qed.

Lemma okp_forM S (I : S -> Prop) (l : list nat) (body : nat -> S -> res S) (s : S) :
  I s -> (forall i s, In i l -> I s -> okp (body i s) I) -> okp (forM l body s) I.
Proof.
  revert s. induction l as [|i r IH]; intros s Hs Hb; cbn [forM]; [exact Hs|].
  eapply okp_bind; [apply Hb; [now left | exact Hs]|].
  intros s' Hs'. apply IH; [exact Hs'|]. intros j t Hj Ht. apply Hb; [now right | exact Ht].
Qed.

(* a byte-level loop against a set-level fold over the same indices *)
Lemma okp_forM_fold S T (R : S -> T -> Prop) (l : list nat) (body : nat -> S -> res S) (g : T -> nat -> T) :
  forall s t, R s t ->
  (forall i s t, In i l -> R s t -> okp (body i s) (fun s' => R s' (g t i))) ->
  okp (forM l body s) (fun s' => R s' (fold_left g l t)).
Proof.
  induction l as [|i r IH]; intros s t Hs Hb; cbn [forM fold_left]; [exact Hs|].
  eapply okp_bind; [apply Hb; [now left | exact Hs]|].
  intros s' Hs'. apply IH; [exact Hs'|]. intros j u v Hj Hu. apply Hb; [now right | exact Hu].
Qed.

(* a loop without `break` written with forB *)
Lemma okp_forB_fold S T (R : S -> T -> Prop) (l : list nat) (body : nat -> S -> res (bool * S)) (g : T -> nat -> T) :
  forall s t, R s t ->
  (forall i s t, In i l -> R s t -> okp (body i s) (fun bs => fst bs = false /\ R (snd bs) (g t i))) ->
  okp (forB l body s) (fun s' => R s' (fold_left g l t)).
Proof.
  induction l as [|i r IH]; intros s t Hs Hb; cbn [forB fold_left]; [exact Hs|].
  eapply okp_bind; [apply Hb; [now left | exact Hs]|].
  intros [b s'] [Hb' Hs']. cbn [fst snd] in *. subst b. apply IH; [exact Hs'|].
  intros j u v Hj Hu. apply Hb; [now right | exact Hu].
Qed.

Lemma bool_eq_iff (a b : bool) : (a = true <-> b = true) -> a = b.
Proof. destruct a, b; intros [H1 H2]; try reflexivity; [symmetry; now apply H1 | now apply H2]. Qed.

(* ------------------------------------------------------------------ strictly ascending lists *)

Lemma ssorted_cons_inv x l : ssorted (x :: l) -> ssorted l /\ Forall (fun y => x < y) l.
Proof. intros H. inversion H; subst. split; assumption. Qed.

Lemma ssorted_ext_in : forall a b, ssorted a -> ssorted b -> (forall x, In x a <-> In x b) -> a = b.
Proof.
  induction a as [|x a IH]; intros b Sa Sb E.
  - destruct b as [|y b]; [reflexivity|]. exfalso. apply (E y). now left.
  - destruct b as [|y b]; [exfalso; apply (E x); now left|].
    apply ssorted_cons_inv in Sa as [Sa Fa]. apply ssorted_cons_inv in Sb as [Sb Fb].
    rewrite Forall_forall in Fa, Fb.
    assert (x = y).
    { destruct (proj1 (E x) (or_introl eq_refl)) as [Hy|Hy]; [now symmetry|].
      destruct (proj2 (E y) (or_introl eq_refl)) as [Hx|Hx]; [exact Hx|].
      specialize (Fa y Hx). specialize (Fb x Hy). lia. }
    subst y. f_equal. apply IH; [exact Sa | exact Sb|].
    intros z. split; intros Hz.
    + destruct (proj1 (E z) (or_intror Hz)) as [->|H]; [specialize (Fa z Hz); lia | exact H].
    + destruct (proj2 (E z) (or_intror Hz)) as [->|H]; [specialize (Fb z Hz); lia | exact H].
Qed.

Lemma seq_ssorted n : forall a, ssorted (seq a n).
Proof.
  induction n as [|n IH]; intros a; cbn [seq]; [constructor|].
  constructor; [apply IH|]. apply Forall_forall. intros y Hy. apply in_seq in Hy. lia.
Qed.

Lemma ssorted_app_last l x : ssorted l -> (forall y, In y l -> y < x) -> ssorted (l ++ [x]).
Proof.
  induction l as [|z l IH]; intros Sl H; cbn [app]; [repeat constructor|].
  apply ssorted_cons_inv in Sl as [Sl F]. constructor.
  - apply IH; [exact Sl|]. intros y Hy. apply H. now right.
  - apply Forall_forall. intros y Hy. apply in_app_or in Hy as [Hy|[<-|[]]].
    + rewrite Forall_forall in F. now apply F.
    + apply H. now left.
Qed.

Lemma bounded_in n l x : bounded n l -> In x l -> x < n.
Proof. unfold bounded. rewrite Forall_forall. auto. Qed.
Lemma bounded_intro n l : (forall x, In x l -> x < n) -> bounded n l.
Proof. unfold bounded. rewrite Forall_forall. auto. Qed.

Lemma fold_left_ext_in {T} (f g : T -> nat -> T) (l : list nat) :
  (forall i, In i l -> forall u, f u i = g u i) -> forall t, fold_left f l t = fold_left g l t.
Proof.
  induction l as [|i r IH]; intros H t; cbn [fold_left]; [reflexivity|].
  rewrite (H i (or_introl eq_refl)). apply IH. intros j Hj. apply H. now right.
Qed.

(* a fold over an ascending list of indices below n is the fold over 0 .. n-1 that skips the others *)
Lemma fold_sorted_seq {T} (g : T -> nat -> T) (l : list nat) (n : nat) :
  ssorted l -> bounded n l ->
  forall t, fold_left g l t = fold_left (fun t i => if mem i l then g t i else t) (seq 0 n) t.
Proof.
  intros Sl B.
  assert (G : forall k a l, ssorted l -> (forall x, In x l -> a <= x < a + k) ->
              forall t, fold_left g l t = fold_left (fun t i => if mem i l then g t i else t) (seq a k) t).
  { clear. induction k as [|k IH]; intros a l Sl B t; cbn [seq fold_left].
    - destruct l as [|x l]; [reflexivity|]. specialize (B x (or_introl eq_refl)). lia.
    - destruct l as [|x l].
      + cbn [fold_left mem]. clear. generalize (S a). induction k as [|k IH]; intros b; cbn [seq fold_left]; auto.
      + apply ssorted_cons_inv in Sl as [Sl F]. rewrite Forall_forall in F.
        destruct (Nat.eq_dec x a) as [->|Hne].
        * cbn [mem fold_left]. rewrite Nat.eqb_refl. cbn [orb].
          rewrite (IH (S a) l Sl); [|intros y Hy; specialize (F y Hy); specialize (B y (or_intror Hy)); lia].
          apply fold_left_ext_in. intros i Hi u. cbn [mem].
          destruct (i =? a) eqn:E; [apply Nat.eqb_eq in E; apply in_seq in Hi; lia | reflexivity].
        * assert (Hx : a < x) by (specialize (B x (or_introl eq_refl)); lia).
          assert (Hm : mem a (x :: l) = false).
          { apply mem_false_In. intros [H|H]; [lia | specialize (F a H); lia]. }
          rewrite Hm. apply (IH (S a) (x :: l)).
          -- constructor; [exact Sl | now apply Forall_forall].
          -- intros y [<-|Hy]; [specialize (B x (or_introl eq_refl)); lia | specialize (F y Hy); specialize (B y (or_intror Hy)); lia]. }
  intros t. apply G; [exact Sl|]. intros x Hx. pose proof (bounded_in _ _ _ B Hx). lia.
Qed.

(* ------------------------------------------------------------------ bits of byte arrays *)

(* bit i of the array: bitset[i >> 3] & (1 << (i & 7)) *)
Definition tbit (a : barr) (i : nat) : bool := N.testbit (nth (i / 8) a 0%N) (N.of_nat (i mod 8)).

(* no bits above the eighth: an unsigned char *)
Definition small (a : barr) : Prop := forall k p, (8 <= p)%N -> N.testbit (nth k a 0%N) p = false.

Lemma mask_test b i : negb (N.land b (bitmask i) =? 0)%N = N.testbit b (N.of_nat (i mod 8)).
Proof.
  unfold bitmask. set (k := N.of_nat (i mod 8)). destruct (N.testbit b k) eqn:T.
  - destruct (N.land b (2 ^ k) =? 0)%N eqn:E; [|reflexivity]. apply N.eqb_eq in E.
    assert (X : N.testbit (N.land b (2 ^ k)) k = true) by (rewrite N.land_spec, T, N.pow2_bits_true; reflexivity).
    rewrite E, N.bits_0 in X. discriminate.
  - replace (N.land b (2 ^ k)) with 0%N; [reflexivity|]. symmetry. apply N.bits_inj. intros j.
    rewrite N.land_spec, N.bits_0, N.pow2_bits_eqb. destruct (k =? j)%N eqn:E; [|apply andb_false_r].
    apply N.eqb_eq in E. subst j. rewrite T. reflexivity.
Qed.

Lemma of_bytes_filter n a : of_bytes n a = filter (tbit a) (seq 0 n).
Proof. unfold of_bytes. apply filter_ext. intros i. apply mask_test. Qed.

Lemma In_of_bytes n a j : In j (of_bytes n a) <-> j < n /\ tbit a j = true.
Proof. rewrite of_bytes_filter, filter_In, in_seq. intuition lia. Qed.

Lemma of_bytes_ssorted n a : ssorted (of_bytes n a).
Proof. rewrite of_bytes_filter. apply filter_ssorted, seq_ssorted. Qed.

Lemma of_bytes_bounded n a : bounded n (of_bytes n a).
Proof. apply bounded_intro. intros x Hx. apply In_of_bytes in Hx. tauto. Qed.

(* how an abstraction is established *)
Lemma of_bytes_ext W a l : ssorted l -> (forall j, In j l <-> j < W /\ tbit a j = true) -> l = of_bytes W a.
Proof.
  intros Sl H. apply ssorted_ext_in; [exact Sl | apply of_bytes_ssorted|]. intros x. rewrite In_of_bytes. apply H.
Qed.

Lemma of_bytes_narrow n W a : n <= W -> bounded n (of_bytes W a) -> of_bytes n a = of_bytes W a.
Proof.
  intros Hn B. apply of_bytes_ext; [apply of_bytes_ssorted|]. intros j. rewrite In_of_bytes. split.
  - intros [H1 H2]. split; [lia | exact H2].
  - intros [H1 H2]. split; [|exact H2]. apply (bounded_in _ _ _ B). apply In_of_bytes. tauto.
Qed.

Lemma mem_of_bytes W a j : mem j (of_bytes W a) = (j <? W) && tbit a j.
Proof.
  apply bool_eq_iff. rewrite mem_In, In_of_bytes, andb_true_iff, Nat.ltb_lt. tauto.
Qed.

Lemma split8 j i : (j =? i) = (j / 8 =? i / 8) && (j mod 8 =? i mod 8).
Proof.
  pose proof (Nat.div_mod j 8 ltac:(lia)). pose proof (Nat.div_mod i 8 ltac:(lia)).
  apply bool_eq_iff. rewrite andb_true_iff, !Nat.eqb_eq. split; [intros ->; auto | intros [A B]; lia].
Qed.

Lemma div8_lt_iff j nb : j / 8 < nb <-> j < 8 * nb.
Proof.
  split; intros H.
  - pose proof (Nat.div_mod j 8 ltac:(lia)). pose proof (Nat.mod_upper_bound j 8 ltac:(lia)). lia.
  - apply Nat.div_lt_upper_bound; lia.
Qed.

Lemma Nof_nat_eqb a b : (N.of_nat a =? N.of_nat b)%N = (a =? b).
Proof. apply bool_eq_iff. rewrite N.eqb_eq, Nat.eqb_eq. lia. Qed.

(* ------------------------------------------------------------------ memory: reads, writes, frames *)

Lemma rd_spec site a i : i < length a -> rd site a i = Ok (nth i a 0%N).
Proof.
  intros H. unfold rd. destruct (nth_error a i) eqn:E.
  - f_equal. symmetry. now apply nth_error_nth.
  - apply nth_error_None in E. lia.
Qed.

Lemma nth_upd_same {A} (l : list A) i v d : i < length l -> nth i (upd l i v) d = v.
Proof. revert i. induction l as [|x r IH]; intros [|i] H; cbn in *; try lia; [reflexivity|]. apply IH. lia. Qed.

Lemma nth_upd_other {A} (l : list A) i k v d : k <> i -> nth k (upd l i v) d = nth k l d.
Proof.
  revert i k. induction l as [|x r IH]; intros [|i] [|k] H; cbn; try reflexivity; try lia. apply IH. lia.
Qed.

Lemma get_upd_same m a v : a < length m -> get (upd m a v) a = v.
Proof. unfold get. apply nth_upd_same. Qed.
Lemma get_upd_other m a b v : b <> a -> get (upd m a v) b = get m b.
Proof. unfold get. apply nth_upd_other. Qed.

Lemma get_nonempty m a : 0 < length (get m a) -> a < length m.
Proof.
  intros H. destruct (Nat.lt_ge_cases a (length m)) as [L|G]; [exact L|].
  unfold get in H. rewrite nth_overflow in H by exact G. cbn in H. lia.
Qed.

(* everything but array [dst] is as before, and no array changed its length *)
Definition frame (m m' : bmem) (dst : nat) : Prop := lens m' = lens m /\ forall a, a <> dst -> get m' a = get m a.

Lemma frame_refl m dst : frame m m dst.
Proof. split; auto. Qed.
Lemma frame_trans m1 m2 m3 dst : frame m1 m2 dst -> frame m2 m3 dst -> frame m1 m3 dst.
Proof. intros [A B] [C D]. split; [congruence|]. intros a Ha. rewrite D, B by exact Ha. reflexivity. Qed.
Lemma frame_len m m' dst a : frame m m' dst -> length (get m' a) = length (get m a).
Proof. intros [A _]. rewrite !get_len, A. reflexivity. Qed.

Lemma wr_spec site m a i v : i < length (get m a) ->
  okp (wr site m a i v)
      (fun m' => frame m m' a /\ forall k, nth k (get m' a) 0%N = if k =? i then v else nth k (get m a) 0%N).
Proof.
  intros H. unfold wr. assert (L : (i <? length (get m a)) = true) by (apply Nat.ltb_lt; exact H). rewrite L. cbn [okp].
  assert (Ha : a < length m) by (apply get_nonempty; lia).
  split; [split|].
  - apply lens_upd, upd_length.
  - intros b Hb. now apply get_upd_other.
  - intros k. rewrite get_upd_same by exact Ha. destruct (k =? i) eqn:E.
    + apply Nat.eqb_eq in E. subst k. now apply nth_upd_same.
    + apply Nat.eqb_neq in E. now apply nth_upd_other.
Qed.

(* ------------------------------------------------------------------ BIT_HAS, BIT_SET_AT, BIT_CLEAR *)

Lemma bit_has_spec site a idx : idx / 8 < length a -> bit_has site a idx = Ok (tbit a idx).
Proof. intros H. unfold bit_has. rewrite rd_spec by exact H. cbn [bind]. rewrite mask_test. reflexivity. Qed.

Lemma tbit_upd_byte (a a' : barr) i v :
  (forall k, nth k a' 0%N = if k =? i / 8 then v else nth k a 0%N) ->
  forall j, tbit a' j = if j / 8 =? i / 8 then N.testbit v (N.of_nat (j mod 8)) else tbit a j.
Proof. intros H j. unfold tbit. rewrite H. destruct (j / 8 =? i / 8); reflexivity. Qed.

Lemma small_upd_byte (a a' : barr) i v :
  (forall k, nth k a' 0%N = if k =? i then v else nth k a 0%N) ->
  small a -> (forall p, (8 <= p)%N -> N.testbit v p = false) -> small a'.
Proof. intros H Sa Sv k p Hp. rewrite H. destruct (k =? i); [now apply Sv | now apply Sa]. Qed.

Lemma bit_set_at_spec site m a idx : idx / 8 < length (get m a) ->
  okp (bit_set_at site m a idx)
      (fun m' => frame m m' a /\ (forall j, tbit (get m' a) j = (j =? idx) || tbit (get m a) j) /\
                 (small (get m a) -> small (get m' a))).
Proof.
  intros H. unfold bit_set_at. rewrite rd_spec by exact H. cbn [bind].
  eapply okp_weaken; [apply wr_spec; exact H|]. intros m' [F E]. split; [exact F|]. split.
  - intros j. rewrite (tbit_upd_byte _ _ idx _ E). rewrite (split8 j idx). destruct (j / 8 =? idx / 8) eqn:D; cbn [andb orb]; [|reflexivity].
    apply Nat.eqb_eq in D. unfold tbit, bitmask. rewrite N.lor_spec, N.pow2_bits_eqb, Nof_nat_eqb, D.
    rewrite (Nat.eqb_sym (idx mod 8)). apply orb_comm.
  - intros Sa. eapply small_upd_byte; [exact E | exact Sa|]. intros p Hp.
    rewrite N.lor_spec, Sa by exact Hp. unfold bitmask. rewrite N.pow2_bits_eqb. cbn [orb].
    apply N.eqb_neq. pose proof (Nat.mod_upper_bound idx 8 ltac:(lia)). lia.
Qed.

Lemma bit_clear_spec site m a idx : idx / 8 < length (get m a) ->
  okp (bit_clear site m a idx)
      (fun m' => frame m m' a /\ forall j, tbit (get m' a) j = negb (j =? idx) && tbit (get m a) j).
Proof.
  intros H. unfold bit_clear. rewrite rd_spec by exact H. cbn [bind].
  eapply okp_weaken; [apply wr_spec; exact H|]. intros m' [F E]. split; [exact F|].
  intros j. rewrite (tbit_upd_byte _ _ idx _ E). rewrite (split8 j idx). destruct (j / 8 =? idx / 8) eqn:D; cbn [andb negb]; [|reflexivity].
  apply Nat.eqb_eq in D. unfold tbit, bitmask. rewrite N.land_spec, N.lxor_spec, N.pow2_bits_eqb, Nof_nat_eqb, D.
  change 255%N with (N.ones 8). rewrite N.ones_spec_low by (pose proof (Nat.mod_upper_bound j 8 ltac:(lia)); lia).
  rewrite (Nat.eqb_sym (idx mod 8)). rewrite xorb_true_r. apply andb_comm.
Qed.

(* ------------------------------------------------------------------ bit_or, bit_and, bit_and_not, bit_copy, bit_clear_all *)

Lemma map2_bytes_nth site f dst src : forall nb m,
  nb <= length (get m dst) -> nb <= length src ->
  okp (map2_bytes site f m dst src nb)
      (fun m' => frame m m' dst /\
                 forall k, nth k (get m' dst) 0%N =
                           if k <? nb then f (nth k (get m dst) 0%N) (nth k src 0%N) else nth k (get m dst) 0%N).
Proof.
  induction nb as [|nb IH]; intros m Hd Hs.
  - cbn. split; [apply frame_refl | reflexivity].
  - unfold map2_bytes. rewrite bytes_desc_S. cbn [forM].
    rewrite rd_spec by lia. cbn [bind]. rewrite rd_spec by lia. cbn [bind].
    eapply okp_bind; [apply wr_spec; lia|]. intros m1 [F1 E1].
    eapply okp_weaken; [apply IH; [rewrite (frame_len _ _ _ _ F1); lia | lia]|].
    intros m2 [F2 E2]. split; [eapply frame_trans; eassumption|].
    intros k. rewrite E2, !E1.
    destruct (k <? nb) eqn:A; destruct (k =? nb) eqn:B; destruct (k <? S nb) eqn:C; try reflexivity; try lia;
      apply Nat.eqb_eq in B; subst k; reflexivity.
Qed.

Section Map2.
Variable f : N -> N -> N.
Variable fb : bool -> bool -> bool.
Hypothesis Hf : forall x y p, N.testbit (f x y) p = fb (N.testbit x p) (N.testbit y p).

Lemma map2_bytes_spec site m dst src nb :
  nb <= length (get m dst) -> nb <= length src ->
  okp (map2_bytes site f m dst src nb)
      (fun m' => frame m m' dst /\
                 forall j, tbit (get m' dst) j = if j <? 8 * nb then fb (tbit (get m dst) j) (tbit src j) else tbit (get m dst) j).
Proof.
  intros Hd Hs. eapply okp_weaken; [apply map2_bytes_nth; assumption|]. intros m' [F E]. split; [exact F|].
  intros j. unfold tbit. rewrite E.
  destruct (j <? 8 * nb) eqn:A.
  - apply Nat.ltb_lt, div8_lt_iff in A. apply Nat.ltb_lt in A. rewrite A. apply Hf.
  - apply Nat.ltb_ge in A. assert (B : (j / 8 <? nb) = false) by (apply Nat.ltb_ge; pose proof (div8_lt_iff j nb); lia).
    rewrite B. reflexivity.
Qed.
End Map2.

Definition bit_or_spec := map2_bytes_spec N.lor orb N.lor_spec.
Definition bit_and_spec := map2_bytes_spec N.land andb N.land_spec.
Definition bit_and_not_spec := map2_bytes_spec N.ldiff (fun x y => x && negb y) N.ldiff_spec.
Definition bit_copy_spec := map2_bytes_spec (fun _ s => s) (fun _ y => y) (fun _ _ _ => eq_refl).

Lemma and_not_small site m dst src nb :
  nb <= length (get m dst) -> nb <= length src -> small (get m dst) ->
  okp (bit_and_not site m dst src nb) (fun m' => small (get m' dst)).
Proof.
  intros Hd Hs Sm. eapply okp_weaken; [apply map2_bytes_nth; assumption|]. intros m' [F E] k p Hp. rewrite E.
  destruct (k <? nb); [|now apply Sm]. rewrite N.ldiff_spec, Sm by exact Hp. reflexivity.
Qed.

Lemma bit_clear_all_spec site dst : forall nb m, nb <= length (get m dst) ->
  okp (bit_clear_all site m dst nb)
      (fun m' => frame m m' dst /\
                 (forall k, nth k (get m' dst) 0%N = if k <? nb then 0%N else nth k (get m dst) 0%N) /\
                 (forall j, tbit (get m' dst) j = if j <? 8 * nb then false else tbit (get m dst) j)).
Proof.
  assert (G : forall nb m, nb <= length (get m dst) ->
    okp (bit_clear_all site m dst nb)
        (fun m' => frame m m' dst /\ forall k, nth k (get m' dst) 0%N = if k <? nb then 0%N else nth k (get m dst) 0%N)).
  { induction nb as [|nb IH]; intros m Hd.
    - cbn. split; [apply frame_refl | reflexivity].
    - unfold bit_clear_all. rewrite bytes_desc_S. cbn [forM].
      eapply okp_bind; [apply wr_spec; lia|]. intros m1 [F1 E1].
      eapply okp_weaken; [apply IH; rewrite (frame_len _ _ _ _ F1); lia|].
      intros m2 [F2 E2]. split; [eapply frame_trans; eassumption|].
      intros k. rewrite E2, !E1.
      destruct (k <? nb) eqn:A; destruct (k =? nb) eqn:B; destruct (k <? S nb) eqn:C; try reflexivity; try lia;
      apply Nat.eqb_eq in B; subst k; reflexivity. }
  intros nb m Hd. eapply okp_weaken; [apply G; exact Hd|]. intros m' [F E]. split; [exact F|]. split; [exact E|].
  intros j. unfold tbit. rewrite E. destruct (j <? 8 * nb) eqn:A.
  - apply Nat.ltb_lt, div8_lt_iff in A. apply Nat.ltb_lt in A. rewrite A. apply N.bits_0.
  - apply Nat.ltb_ge in A. assert (B : (j / 8 <? nb) = false) by (apply Nat.ltb_ge; pose proof (div8_lt_iff j nb); lia).
    rewrite B. reflexivity.
Qed.

(* ------------------------------------------------------------------ bit_has_and, bit_has_any *)

Lemma byte_nonzero x : (forall p, (8 <= p)%N -> N.testbit x p = false) ->
  x <> 0%N <-> exists q, q < 8 /\ N.testbit x (N.of_nat q) = true.
Proof.
  intros Sx. split.
  - intros Hx. pose proof (N.bit_log2 x Hx) as T.
    assert (L : (N.log2 x < 8)%N).
    { destruct (N.lt_ge_cases (N.log2 x) 8) as [L|G]; [exact L|]. rewrite Sx in T by exact G. discriminate. }
    exists (N.to_nat (N.log2 x)). split; [lia|]. rewrite N2Nat.id. exact T.
  - intros (q & _ & T) ->. rewrite N.bits_0 in T. discriminate.
Qed.

Lemma has_and_loop_spec site a b ks :
  (forall k, In k ks -> k < length a /\ k < length b) ->
  okp (has_and_loop site a b ks)
      (fun r => r = true <-> exists k, In k ks /\ N.land (nth k a 0%N) (nth k b 0%N) <> 0%N).
Proof.
  induction ks as [|k r IH]; intros H; cbn [has_and_loop].
  - cbn. split; [discriminate | intros (k & [] & _)].
  - destruct (H k (or_introl eq_refl)) as [Ha Hb]. rewrite !rd_spec by assumption. cbn [bind].
    destruct (N.land (nth k a 0%N) (nth k b 0%N) =? 0)%N eqn:E.
    + apply N.eqb_eq in E. eapply okp_weaken; [apply IH; intros j Hj; apply H; now right|].
      intros x [X1 X2]. split.
      * intros Hx. destruct (X1 Hx) as (j & Hj & Hn). exists j. split; [now right | exact Hn].
      * intros (j & [<-|Hj] & Hn); [congruence|]. apply X2. eauto.
    + apply N.eqb_neq in E. cbn. split; [|reflexivity]. intros _. exists k. split; [now left | exact E].
Qed.

Lemma bit_has_and_spec site a b nb : nb <= length a -> nb <= length b -> small a \/ small b ->
  okp (bit_has_and site a b nb)
      (fun r => r = true <-> exists j, j < 8 * nb /\ tbit a j = true /\ tbit b j = true).
Proof.
  intros Ha Hb Sm. unfold bit_has_and.
  eapply okp_weaken; [apply has_and_loop_spec; intros k Hk; apply in_bytes_desc in Hk; lia|].
  intros r [R1 R2]. split.
  - intros Hr. destruct (R1 Hr) as (k & Hk & Hn). apply in_bytes_desc in Hk.
    assert (Sl : forall p, (8 <= p)%N -> N.testbit (N.land (nth k a 0%N) (nth k b 0%N)) p = false).
    { intros p Hp. rewrite N.land_spec. destruct Sm as [Sm|Sm]; rewrite (Sm k p Hp); [reflexivity | apply andb_false_r]. }
    apply (byte_nonzero _ Sl) in Hn. destruct Hn as (q & Hq & T). rewrite N.land_spec in T. apply andb_true_iff in T.
    exists (8 * k + q). unfold tbit.
    replace ((8 * k + q) / 8) with k by (apply (Nat.div_unique (8 * k + q) 8 k q); lia).
    replace ((8 * k + q) mod 8) with q by (apply (Nat.mod_unique (8 * k + q) 8 k q); lia).
    split; [lia | exact T].
  - intros (j & Hj & Ta & Tb). apply R2. exists (j / 8). split.
    + unfold bytes_desc. apply in_rev. rewrite rev_involutive. apply in_seq. apply div8_lt_iff in Hj. lia.
    + intros E. unfold tbit in Ta, Tb.
      assert (X : N.testbit (N.land (nth (j / 8) a 0%N) (nth (j / 8) b 0%N)) (N.of_nat (j mod 8)) = true)
        by (rewrite N.land_spec, Ta, Tb; reflexivity).
      rewrite E, N.bits_0 in X. discriminate.
Qed.

Lemma has_any_loop_spec site a ks :
  (forall k, In k ks -> k < length a) ->
  okp (has_any_loop site a ks) (fun r => r = true <-> exists k, In k ks /\ nth k a 0%N <> 0%N).
Proof.
  induction ks as [|k r IH]; intros H; cbn [has_any_loop].
  - cbn. split; [discriminate | intros (k & [] & _)].
  - rewrite rd_spec by (apply H; now left). cbn [bind].
    destruct (nth k a 0%N =? 0)%N eqn:E.
    + apply N.eqb_eq in E. eapply okp_weaken; [apply IH; intros j Hj; apply H; now right|].
      intros x [X1 X2]. split.
      * intros Hx. destruct (X1 Hx) as (j & Hj & Hn). exists j. split; [now right | exact Hn].
      * intros (j & [<-|Hj] & Hn); [congruence|]. apply X2. eauto.
    + apply N.eqb_neq in E. cbn. split; [|reflexivity]. intros _. exists k. split; [now left | exact E].
Qed.

Lemma bit_has_any_spec site a nb : nb <= length a -> small a ->
  okp (bit_has_any site a nb) (fun r => r = true <-> exists j, j < 8 * nb /\ tbit a j = true).
Proof.
  intros Ha Sm. unfold bit_has_any.
  eapply okp_weaken; [apply has_any_loop_spec; intros k Hk; apply in_bytes_desc in Hk; lia|].
  intros r [R1 R2]. split.
  - intros Hr. destruct (R1 Hr) as (k & Hk & Hn). apply in_bytes_desc in Hk.
    apply (byte_nonzero _ (Sm k)) in Hn. destruct Hn as (q & Hq & T).
    exists (8 * k + q). unfold tbit.
    replace ((8 * k + q) / 8) with k by (apply (Nat.div_unique (8 * k + q) 8 k q); lia).
    replace ((8 * k + q) mod 8) with q by (apply (Nat.mod_unique (8 * k + q) 8 k q); lia).
    split; [lia | exact T].
  - intros (j & Hj & Ta). apply R2. exists (j / 8). split.
    + unfold bytes_desc. apply in_rev. rewrite rev_involutive. apply in_seq. apply div8_lt_iff in Hj. lia.
    + intros E. unfold tbit in Ta. rewrite E, N.bits_0 in Ta. discriminate.
Qed.

(* ------------------------------------------------------------------ the rows of the emitted tables *)

Lemma byte_of_testbit set k p :
  N.testbit (byte_of set k) p = (p <? 8)%N && mem (8 * k + N.to_nat p) set.
Proof.
  unfold byte_of.
  assert (G : forall l acc, N.testbit (fold_left (fun a b => if mem (8 * k + b) set then N.lor a (2 ^ N.of_nat b)%N else a) l acc) p =
                            N.testbit acc p || existsb (fun b => (N.of_nat b =? p)%N && mem (8 * k + b) set) l).
  { induction l as [|b l IH]; intros acc; cbn [fold_left existsb]; [now rewrite orb_false_r|].
    rewrite IH. destruct (mem (8 * k + b) set); [|rewrite andb_false_r; reflexivity].
    rewrite N.lor_spec, N.pow2_bits_eqb, andb_true_r, orb_assoc. reflexivity. }
  rewrite G, N.bits_0. cbn [orb].
  apply bool_eq_iff. rewrite existsb_exists, andb_true_iff. split.
  - intros (b & Hb & E). apply andb_true_iff in E as [E1 E2]. apply N.eqb_eq in E1. apply in_seq in Hb. subst p.
    rewrite Nat2N.id. split; [apply N.ltb_lt; lia | exact E2].
  - intros [A B]. apply N.ltb_lt in A. exists (N.to_nat p). split; [apply in_seq; lia|].
    rewrite N2Nat.id, N.eqb_refl. exact B.
Qed.

Lemma tbit_to_bytes nb set j : tbit (to_bytes nb set) j = (j <? 8 * nb) && mem j set.
Proof.
  unfold tbit, to_bytes. destruct (j <? 8 * nb) eqn:A.
  - apply Nat.ltb_lt in A. pose proof (proj2 (div8_lt_iff j nb) A) as D.
    rewrite (nth_indep _ 0%N (byte_of set 0)) by (rewrite map_length, seq_length; exact D).
    rewrite map_nth, seq_nth by exact D. cbn [Nat.add]. rewrite byte_of_testbit, Nat2N.id.
    pose proof (Nat.mod_upper_bound j 8 ltac:(lia)) as M.
    assert (L : (N.of_nat (j mod 8) <? 8)%N = true) by (apply N.ltb_lt; lia). rewrite L.
    rewrite <- (Nat.div_mod j 8) by lia. reflexivity.
  - apply Nat.ltb_ge in A. rewrite nth_overflow; [apply N.bits_0|].
    rewrite map_length, seq_length. pose proof (div8_lt_iff j nb). lia.
Qed.

Lemma small_to_bytes nb set : small (to_bytes nb set).
Proof.
  intros k p Hp. unfold to_bytes. destruct (Nat.lt_ge_cases k nb) as [L|G].
  - rewrite (nth_indep _ 0%N (byte_of set 0)) by (rewrite map_length, seq_length; exact L).
    rewrite map_nth, byte_of_testbit. assert (X : (p <? 8)%N = false) by (apply N.ltb_ge; exact Hp). rewrite X. reflexivity.
  - rewrite nth_overflow; [apply N.bits_0|]. rewrite map_length, seq_length. exact G.
Qed.

Lemma In_of_to_bytes nb set j : In j (of_bytes (8 * nb) (to_bytes nb set)) <-> j < 8 * nb /\ In j set.
Proof.
  rewrite In_of_bytes, tbit_to_bytes, andb_true_iff, Nat.ltb_lt, mem_In. tauto.
Qed.

(* a table row whose entries are indices below the width stands for its own (sorted) list of entries *)
Lemma of_to_bytes nb set : ssorted set -> bounded (8 * nb) set -> of_bytes (8 * nb) (to_bytes nb set) = set.
Proof.
  intros Sl B. symmetry. apply of_bytes_ext; [exact Sl|]. intros j. rewrite tbit_to_bytes, andb_true_iff, Nat.ltb_lt, mem_In.
  split; [intros H; split; [|split; [|exact H]]; eapply bounded_in; eassumption | tauto].
Qed.

(* ------------------------------------------------------------------ membership in the set operations, as booleans *)

Lemma memb_insert x y l : mem x (insert_sorted y l) = (x =? y) || mem x l.
Proof. apply bool_eq_iff. rewrite orb_true_iff, !mem_In, In_insert_sorted', Nat.eqb_eq. tauto. Qed.
Lemma memb_union x a b : mem x (set_union a b) = mem x a || mem x b.
Proof. apply bool_eq_iff. rewrite orb_true_iff, !mem_In, In_set_union. tauto. Qed.
Lemma memb_inter x a b : mem x (set_inter a b) = mem x a && mem x b.
Proof. apply bool_eq_iff. rewrite andb_true_iff, !mem_In, In_set_inter. tauto. Qed.
Lemma memb_diff x a b : mem x (set_diff a b) = mem x a && negb (mem x b).
Proof.
  apply bool_eq_iff. rewrite andb_true_iff, negb_true_iff, !mem_In, In_set_diff, mem_false_In. tauto.
Qed.
Lemma memb_remove x y l : mem x (set_remove y l) = negb (x =? y) && mem x l.
Proof.
  apply bool_eq_iff. rewrite andb_true_iff, negb_true_iff, !mem_In, In_set_remove, Nat.eqb_neq. tauto.
Qed.
Lemma memb_app x a b : mem x (a ++ b) = mem x a || mem x b.
Proof. apply bool_eq_iff. rewrite orb_true_iff, !mem_In, in_app_iff. tauto. Qed.
Lemma memb_filter x f l : mem x (filter f l) = mem x l && f x.
Proof. apply bool_eq_iff. rewrite andb_true_iff, !mem_In, filter_In. tauto. Qed.
Lemma memb_seq x a n : mem x (seq a n) = (a <=? x) && (x <? a + n).
Proof. apply bool_eq_iff. rewrite andb_true_iff, mem_In, in_seq, Nat.leb_le, Nat.ltb_lt. tauto. Qed.
Lemma memb_fold_union {A} (f : A -> list nat) x (l : list A) acc :
  mem x (fold_left (fun a y => set_union a (f y)) l acc) = mem x acc || existsb (fun y => mem x (f y)) l.
Proof.
  revert acc. induction l as [|y r IH]; intros acc; cbn [fold_left existsb]; [now rewrite orb_false_r|].
  rewrite IH, memb_union, orb_assoc. reflexivity.
Qed.
Lemma intersects_existsb a b : intersects a b = existsb (fun x => mem x a && mem x b) a.
Proof.
  unfold intersects. apply bool_eq_iff. rewrite !existsb_exists. split; intros (x & Hx & E); exists x; (split; [exact Hx|]).
  - apply mem_In in Hx. rewrite Hx, E. reflexivity.
  - apply andb_true_iff in E. tauto.
Qed.
Lemma intersects_iff a b : intersects a b = true <-> exists x, mem x a = true /\ mem x b = true.
Proof. rewrite intersects_spec. split; intros (x & A & B); exists x; rewrite ?mem_In in *; tauto. Qed.

Lemma set_union_ssorted' a b : ssorted a -> ssorted (set_union a b).
Proof. apply set_union_ssorted. Qed.
Lemma set_inter_ssorted a b : ssorted a -> ssorted (set_inter a b).
Proof. apply filter_ssorted. Qed.
Lemma set_diff_ssorted a b : ssorted a -> ssorted (set_diff a b).
Proof. apply filter_ssorted. Qed.

(* ------------------------------------------------------------------ representation of a set by an array, at width W *)

Definition rep (W : nat) (a : barr) (l : list nat) : Prop := l = of_bytes W a.

Lemma rep_mem W a l : rep W a l -> forall j, mem j l = (j <? W) && tbit a j.
Proof. intros -> j. apply mem_of_bytes. Qed.
Lemma rep_ssorted W a l : rep W a l -> ssorted l.
Proof. intros ->. apply of_bytes_ssorted. Qed.
Lemma rep_bounded W a l : rep W a l -> bounded W l.
Proof. intros ->. apply of_bytes_bounded. Qed.
Lemma rep_intro W a l : ssorted l -> (forall j, mem j l = (j <? W) && tbit a j) -> rep W a l.
Proof.
  intros Sl H. apply of_bytes_ext; [exact Sl|]. intros j. rewrite <- mem_In, H, andb_true_iff, Nat.ltb_lt. tauto.
Qed.
Lemma rep_tbit W a l j : rep W a l -> j < W -> tbit a j = mem j l.
Proof. intros R Hj. rewrite (rep_mem _ _ _ R). apply Nat.ltb_lt in Hj. rewrite Hj. reflexivity. Qed.
Lemma rep_frame W m m' dst a l : frame m m' dst -> a <> dst -> rep W (get m a) l -> rep W (get m' a) l.
Proof. intros [_ F] Ha R. rewrite F by exact Ha. exact R. Qed.

(* boolean goals over tbit / mem atoms *)
Ltac batoms :=
  repeat match goal with
         | |- context [tbit ?a ?j] => destruct (tbit a j)
         | |- context [mem ?j ?l] => destruct (mem j l)
         | |- context [?j <? ?W] => destruct (j <? W)
         | |- context [?j =? ?i] => destruct (j =? i)
         end; try reflexivity; try discriminate.

(* a looser representation: the same members below W, the list in any order (the rows of the emitted tables, the
   scratch array) *)
Definition srep (W : nat) (a : barr) (l : list nat) : Prop := bounded W l /\ forall j, j < W -> tbit a j = mem j l.

Lemma srep_of_rep W a l : rep W a l -> srep W a l.
Proof. intros R. split; [apply (rep_bounded _ _ _ R)|]. intros j Hj. now apply (rep_tbit W). Qed.
Lemma srep_mem W a l : srep W a l -> forall j, mem j l = (j <? W) && tbit a j.
Proof.
  intros [B T] j. destruct (j <? W) eqn:E; cbn [andb].
  - apply Nat.ltb_lt in E. symmetry. now apply T.
  - apply mem_false_In. intros H. apply (bounded_in _ _ _ B) in H. apply Nat.ltb_ge in E. lia.
Qed.
Lemma srep_intro W a l : (forall j, mem j l = (j <? W) && tbit a j) -> srep W a l.
Proof.
  intros H. split.
  - apply bounded_intro. intros x Hx. apply mem_In in Hx. rewrite H in Hx. apply andb_true_iff in Hx as [Hx _]. now apply Nat.ltb_lt.
  - intros j Hj. rewrite H. apply Nat.ltb_lt in Hj. rewrite Hj. reflexivity.
Qed.
Lemma rep_of_srep W a l : ssorted l -> srep W a l -> rep W a l.
Proof. intros Sl R. apply rep_intro; [exact Sl | apply (srep_mem _ _ _ R)]. Qed.
Lemma srep_frame W m m' dst a l : frame m m' dst -> a <> dst -> srep W (get m a) l -> srep W (get m' a) l.
Proof. intros [_ F] Ha R. rewrite F by exact Ha. exact R. Qed.

(* ------------------------------------------------------------------ the algebra: operations on the nb low bytes of an array
   whose abstraction at width 8 * nb is l; the source operand may be loosely represented *)
Section Algebra.
Variable site : N.
Variable nb : nat.
Notation W := (8 * nb).

Lemma srep_row row : bounded W row -> srep W (to_bytes nb row) row.
Proof.
  intros B. split; [exact B|]. intros j Hj. rewrite tbit_to_bytes. apply Nat.ltb_lt in Hj. rewrite Hj. reflexivity.
Qed.

Lemma rep_row_sorted row : ssorted row -> bounded W row -> rep W (to_bytes nb row) row.
Proof. intros Sl B. apply rep_of_srep; [exact Sl | now apply srep_row]. Qed.

Lemma srep_bit_has a l idx : srep W a l -> idx < W -> nb <= length a -> bit_has site a idx = Ok (mem idx l).
Proof.
  intros [_ T] Hi Hl. rewrite bit_has_spec by (pose proof (proj2 (div8_lt_iff idx nb) Hi); lia).
  rewrite (T _ Hi). reflexivity.
Qed.

Lemma srep_bit_set_at m dst l idx : srep W (get m dst) l -> idx < W -> nb <= length (get m dst) ->
  okp (bit_set_at site m dst idx) (fun m' => frame m m' dst /\ srep W (get m' dst) (insert_sorted idx l)).
Proof.
  intros R Hi Hl. eapply okp_weaken; [apply bit_set_at_spec; pose proof (proj2 (div8_lt_iff idx nb) Hi); lia|].
  intros m' (F & E & _). split; [exact F|]. apply srep_intro.
  intros j. rewrite memb_insert, E, (srep_mem _ _ _ R). destruct (j =? idx) eqn:D; [|reflexivity].
  apply Nat.eqb_eq in D. subst j. apply Nat.ltb_lt in Hi. rewrite Hi. reflexivity.
Qed.

Lemma srep_bit_clear m dst l idx : srep W (get m dst) l -> idx < W -> nb <= length (get m dst) ->
  okp (bit_clear site m dst idx) (fun m' => frame m m' dst /\ srep W (get m' dst) (set_remove idx l)).
Proof.
  intros R Hi Hl. eapply okp_weaken; [apply bit_clear_spec; pose proof (proj2 (div8_lt_iff idx nb) Hi); lia|].
  intros m' (F & E). split; [exact F|]. apply srep_intro.
  intros j. rewrite memb_remove, E, (srep_mem _ _ _ R). batoms.
Qed.

Lemma srep_bit_or m dst src l r : srep W (get m dst) l -> srep W src r -> nb <= length (get m dst) -> nb <= length src ->
  okp (bit_or site m dst src nb) (fun m' => frame m m' dst /\ srep W (get m' dst) (set_union l r)).
Proof.
  intros R Rs Hd Hs. eapply okp_weaken; [apply bit_or_spec; assumption|].
  intros m' (F & E). split; [exact F|]. apply srep_intro.
  intros j. rewrite memb_union, E, (srep_mem _ _ _ R), (srep_mem _ _ _ Rs). batoms.
Qed.

Lemma srep_bit_and m dst src l r : srep W (get m dst) l -> srep W src r -> nb <= length (get m dst) -> nb <= length src ->
  okp (bit_and site m dst src nb) (fun m' => frame m m' dst /\ srep W (get m' dst) (set_inter l r)).
Proof.
  intros R Rs Hd Hs. eapply okp_weaken; [apply bit_and_spec; assumption|].
  intros m' (F & E). split; [exact F|]. apply srep_intro.
  intros j. rewrite memb_inter, E, (srep_mem _ _ _ R), (srep_mem _ _ _ Rs). batoms.
Qed.

Lemma srep_bit_and_not m dst src l r : srep W (get m dst) l -> srep W src r -> nb <= length (get m dst) -> nb <= length src ->
  okp (bit_and_not site m dst src nb) (fun m' => frame m m' dst /\ srep W (get m' dst) (set_diff l r)).
Proof.
  intros R Rs Hd Hs. eapply okp_weaken; [apply bit_and_not_spec; assumption|].
  intros m' (F & E). split; [exact F|]. apply srep_intro.
  intros j. rewrite memb_diff, E, (srep_mem _ _ _ R), (srep_mem _ _ _ Rs). batoms.
Qed.

Lemma srep_bit_copy m dst src r : srep W src r -> nb <= length (get m dst) -> nb <= length src ->
  okp (bit_copy site m dst src nb) (fun m' => frame m m' dst /\ srep W (get m' dst) r).
Proof.
  intros Rs Hd Hs. eapply okp_weaken; [apply bit_copy_spec; assumption|].
  intros m' (F & E). split; [exact F|]. apply srep_intro.
  intros j. rewrite E, (srep_mem _ _ _ Rs). batoms.
Qed.

Lemma srep_bit_clear_all m dst : nb <= length (get m dst) ->
  okp (bit_clear_all site m dst nb) (fun m' => frame m m' dst /\ srep W (get m' dst) [] /\ (nb = length (get m dst) -> small (get m' dst))).
Proof.
  intros Hd. eapply okp_weaken; [apply bit_clear_all_spec; assumption|].
  intros m' (F & En & E). split; [exact F|]. split.
  - apply srep_intro. intros j. rewrite E. cbn [mem]. batoms.
  - intros Hn k p Hp. rewrite En. destruct (k <? nb) eqn:A; [apply N.bits_0|].
    apply Nat.ltb_ge in A. rewrite nth_overflow; [apply N.bits_0 | lia].
Qed.

Lemma srep_bit_has_and a b l r : srep W a l -> srep W b r -> nb <= length a -> nb <= length b -> small a \/ small b ->
  bit_has_and site a b nb = Ok (intersects l r).
Proof.
  intros Ra Rb Ha Hb Sm. pose proof (bit_has_and_spec site a b nb Ha Hb Sm) as P.
  apply okp_inv in P as (x & -> & Hx). f_equal. apply bool_eq_iff. rewrite Hx, intersects_iff. split.
  - intros (j & Hj & Ta & Tb). exists j. rewrite (srep_mem _ _ _ Ra), (srep_mem _ _ _ Rb), Ta, Tb.
    apply Nat.ltb_lt in Hj. rewrite Hj. auto.
  - intros (j & Ma & Mb). rewrite (srep_mem _ _ _ Ra) in Ma. rewrite (srep_mem _ _ _ Rb) in Mb.
    apply andb_true_iff in Ma as [Hj Ta]. apply andb_true_iff in Mb as [_ Tb]. apply Nat.ltb_lt in Hj. eauto.
Qed.

Lemma srep_bit_has_any a l : srep W a l -> nb <= length a -> small a ->
  bit_has_any site a nb = Ok (match l with [] => false | _ => true end).
Proof.
  intros Ra Ha Sm. pose proof (bit_has_any_spec site a nb Ha Sm) as P.
  apply okp_inv in P as (x & -> & Hx). f_equal. apply bool_eq_iff. rewrite Hx. split.
  - intros (j & Hj & Ta). assert (M : mem j l = true).
    { rewrite (srep_mem _ _ _ Ra), Ta. apply Nat.ltb_lt in Hj. rewrite Hj. reflexivity. }
    destruct l; [discriminate | reflexivity].
  - destruct l as [|j l]; [discriminate|]. intros _. exists j.
    assert (M : mem j (j :: l) = true) by (cbn; rewrite Nat.eqb_refl; reflexivity).
    rewrite (srep_mem _ _ _ Ra) in M. apply andb_true_iff in M as [Hj Ta]. apply Nat.ltb_lt in Hj. auto.
Qed.

(* the same with the destination holding an ascending list: the result is the set-level operation, as a list *)
Lemma rep_bit_set_at m dst l idx : rep W (get m dst) l -> idx < W -> nb <= length (get m dst) ->
  okp (bit_set_at site m dst idx) (fun m' => frame m m' dst /\ rep W (get m' dst) (insert_sorted idx l)).
Proof.
  intros R Hi Hl. eapply okp_weaken; [apply srep_bit_set_at; [apply srep_of_rep; exact R | exact Hi | exact Hl]|].
  intros m' [F S']. split; [exact F|]. apply rep_of_srep; [apply insert_sorted_ssorted, (rep_ssorted _ _ _ R) | exact S'].
Qed.
Lemma rep_bit_clear m dst l idx : rep W (get m dst) l -> idx < W -> nb <= length (get m dst) ->
  okp (bit_clear site m dst idx) (fun m' => frame m m' dst /\ rep W (get m' dst) (set_remove idx l)).
Proof.
  intros R Hi Hl. eapply okp_weaken; [apply srep_bit_clear; [apply srep_of_rep; exact R | exact Hi | exact Hl]|].
  intros m' [F S']. split; [exact F|]. apply rep_of_srep; [apply set_remove_ssorted, (rep_ssorted _ _ _ R) | exact S'].
Qed.
Lemma rep_bit_or m dst src l r : rep W (get m dst) l -> srep W src r -> nb <= length (get m dst) -> nb <= length src ->
  okp (bit_or site m dst src nb) (fun m' => frame m m' dst /\ rep W (get m' dst) (set_union l r)).
Proof.
  intros R Rs Hd Hs. eapply okp_weaken; [apply srep_bit_or; [apply srep_of_rep; exact R | exact Rs | exact Hd | exact Hs]|].
  intros m' [F S']. split; [exact F|]. apply rep_of_srep; [apply set_union_ssorted, (rep_ssorted _ _ _ R) | exact S'].
Qed.
Lemma rep_bit_and m dst src l r : rep W (get m dst) l -> srep W src r -> nb <= length (get m dst) -> nb <= length src ->
  okp (bit_and site m dst src nb) (fun m' => frame m m' dst /\ rep W (get m' dst) (set_inter l r)).
Proof.
  intros R Rs Hd Hs. eapply okp_weaken; [apply srep_bit_and; [apply srep_of_rep; exact R | exact Rs | exact Hd | exact Hs]|].
  intros m' [F S']. split; [exact F|]. apply rep_of_srep; [apply set_inter_ssorted, (rep_ssorted _ _ _ R) | exact S'].
Qed.
Lemma rep_bit_and_not m dst src l r : rep W (get m dst) l -> srep W src r -> nb <= length (get m dst) -> nb <= length src ->
  okp (bit_and_not site m dst src nb) (fun m' => frame m m' dst /\ rep W (get m' dst) (set_diff l r)).
Proof.
  intros R Rs Hd Hs. eapply okp_weaken; [apply srep_bit_and_not; [apply srep_of_rep; exact R | exact Rs | exact Hd | exact Hs]|].
  intros m' [F S']. split; [exact F|]. apply rep_of_srep; [apply set_diff_ssorted, (rep_ssorted _ _ _ R) | exact S'].
Qed.
Lemma rep_bit_copy m dst src r : rep W src r -> nb <= length (get m dst) -> nb <= length src ->
  okp (bit_copy site m dst src nb) (fun m' => frame m m' dst /\ rep W (get m' dst) r).
Proof.
  intros Rs Hd Hs. eapply okp_weaken; [apply srep_bit_copy; [apply srep_of_rep; exact Rs | exact Hd | exact Hs]|].
  intros m' [F S']. split; [exact F|]. apply rep_of_srep; [apply (rep_ssorted _ _ _ Rs) | exact S'].
Qed.
Lemma rep_bit_clear_all m dst : nb <= length (get m dst) ->
  okp (bit_clear_all site m dst nb) (fun m' => frame m m' dst /\ rep W (get m' dst) []).
Proof.
  intros Hd. eapply okp_weaken; [apply srep_bit_clear_all; exact Hd|].
  intros m' (F & S' & _). split; [exact F|]. apply rep_of_srep; [constructor | exact S'].
Qed.

End Algebra.
