(* PmlEquivView.v -- C06: PmlStep.pview and PmlStep.fview over a stretch of lines / tokens that lies inside a
   microstep (or inside TERMINATE_MACHINE / the completion bracket): both show exactly the exits, transitions,
   entries and log output of the stretch (PmlEquivBase.pobs / fobs), pview moreover replays the configuration.
   And the token stretches FastMicroStep's model writes in a step that takes a microstep, enters the initial
   configuration, or completes.  Proofs only. *)
From V Require Import Base NameMatch Chart Exec Large Interp Trace TraceLemmas Fast FastTraceLemmas Trie PmlStep PmlStepLemmas
                      PmlEquivBase PmlEquivFastTok PmlEquivPmlTok.
Local Open Scope nat_scope.

Section View.
Variable c : fchart.

Lemma pobs_list_cons t l : pobs_list c (t :: l) = match pobs c t with Some v => v :: pobs_list c l | None => pobs_list c l end.
Proof. reflexivity. Qed.
Lemma fobs_list_cons t l : fobs_list (t :: l) = match fobs t with Some v => v :: fobs_list l | None => fobs_list l end.
Proof. reflexivity. Qed.
Lemma pobs_list_app a b : pobs_list c (a ++ b) = pobs_list c a ++ pobs_list c b.
Proof. induction a as [|t r IH]; [reflexivity|]. cbn [app]. rewrite !pobs_list_cons, IH. destruct (pobs c t); reflexivity. Qed.
Lemma fobs_list_app a b : fobs_list (a ++ b) = fobs_list a ++ fobs_list b.
Proof. induction a as [|t r IH]; [reflexivity|]. cbn [app]. rewrite !fobs_list_cons, IH. destruct (fobs t); reflexivity. Qed.

(* pview over the lines of a stretch inside a microstep, oldest first *)
Lemma pview_inner_seg seg : forallb inner_p seg = true -> forall l2 o g,
  pview_aux c (rev seg ++ l2) o g = rev (pobs_list c seg) ++ pview_aux c l2 o (rcfg_from seg g).
Proof.
  induction seg as [|t r IH]; intros Hin l2 o g; [reflexivity|].
  cbn [forallb] in Hin. apply andb_true_iff in Hin as [Ht Hr].
  cbn [rev]. rewrite <- app_assoc. cbn [app]. rewrite (IH Hr).
  rewrite pobs_list_cons.
  destruct t; try discriminate Ht; cbn [pobs rcfg_from rev pview_aux]; rewrite <- ?app_assoc; reflexivity.
Qed.

Lemma fview_inner_seg new : forallb inner_tok new = true -> forall l2 w,
  fview_aux (rev new ++ l2) w = rev (fobs_list new) ++ fview_aux l2 w.
Proof.
  induction new as [|t r IH]; intros Hin l2 w; [reflexivity|].
  cbn [forallb] in Hin. apply andb_true_iff in Hin as [Ht Hr].
  cbn [rev]. rewrite <- app_assoc. cbn [app]. rewrite (IH Hr).
  rewrite fobs_list_cons.
  destruct t; try discriminate Ht; cbn [fobs rev fview_aux]; rewrite <- ?app_assoc; reflexivity.
Qed.

(* ---- the tokens of the engine's steps ---- *)
Notation inner_all := (fun t => inner_tok t = true).

Lemma forall_inner new : Forall inner_all new -> forallb inner_tok new = true.
Proof. intros F. apply forallb_forall. rewrite Forall_forall in F. exact F. Qed.

Lemma select_step_tokens l x ev sel x1 :
  fselect c (l_cfg l) ev (seq 0 (ntrans c)) [] x = (sel, x1) -> sel <> [] ->
  exists new, x_out (snd (fst (fselect_and_step ex_fixed c l x ev))) = TMsE :: new ++ TMsB :: x_out x /\
              forallb inner_tok new = true.
Proof.
  intros Es Hne. unfold fselect_and_step. cbn [upd_flags l_cfg]. rewrite Es.
  pose proof (fselect_out c (l_cfg l) ev (seq 0 (ntrans c)) [] x) as So. rewrite Es in So. cbn [snd] in So.
  destruct sel as [|t0 r]; [contradiction|].
  match goal with |- context [fmicrostep ex_fixed c ?a ?b ?d ?e ?f ?g] =>
    destruct (fmicrostep_tokens inner_all (fun t E => E) c a b d e f g) as (new & E & F); destruct (fmicrostep ex_fixed c a b d e f g) as [l1 x2] end.
  cbn [fst snd] in *. exists new. split; [|now apply forall_inner].
  rewrite E. cbn [emit x_out]. now rewrite So.
Qed.

Lemma pristine_step_tokens l x : l_fin l = false -> l_tlf l = false -> is_pristine l = true ->
  exists new, x_out (snd (fst (fast_step ex_fixed c l x))) = TMsE :: new ++ TMsB :: x_out x /\ forallb inner_tok new = true.
Proof.
  intros B1 B2 B3. unfold fast_step. rewrite B1, B2, B3.
  destruct (fmicrostep_tokens inner_all (fun t E => E) c l (emit TMsB x) (fs_completion (st c 0)) [] [] true) as (new & E & F).
  destruct (fmicrostep ex_fixed c l (emit TMsB x) (fs_completion (st c 0)) [] [] true) as [l1 x1]. cbn [fst snd] in *.
  exists new. split; [exact E|now apply forall_inner].
Qed.

Lemma completion_step_tokens l x : l_fin l = false -> l_tlf l = true ->
  exists new, x_out (snd (fst (fast_step ex_fixed c l x))) = TComplE :: new ++ TComplB :: x_out x /\ forallb inner_tok new = true.
Proof.
  intros B1 B2. unfold fast_step. rewrite B1, B2. cbn [fst snd emit x_out].
  assert (A : adds inner_all (emit TComplB x)
                (fold_left (fun x i => exec_blocks ex_fixed (inst_of c (l_cfg l)) (fs_onexit (st c i)) x) (rev (l_cfg l)) (emit TComplB x))).
  { apply adds_fold. intros y i. apply adds_blocks. intros t E. exact E. }
  destruct A as (new & E & F). exists new. split; [now rewrite E|now apply forall_inner].
Qed.

End View.
