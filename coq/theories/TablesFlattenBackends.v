(* TablesFlattenBackends.v -- C05: the tables the Promela and VHDL behaviour models read (PmlStep.exit_static,
   conflict_static, has_hist, pcompl; Vhdl.vh_exit_tab, vh_conflict), all computed from Chart.flatten, are the
   tables of Tables.Impl_tables -- up to the source convention for transitions of <initial> elements
   (CGen.eff_source), which these two models do not apply.  Proofs only. *)
From V Require Import Base Chart Large Fast GenCGen CGen Legal PmlStep Vhdl Tables TreeLemmas TablesLemmas SetLemmas
  LargeCacheLemmas FlattenWfTree FlattenWfStruct TablesFlatten TablesFlattenLemmas TablesFlattenTrans TablesFlattenMain.
Local Open Scope nat_scope.

(* ------------------------------------------------------------------ the three exit-set tables are one function *)

Lemma pml_exit_static_is_cexit c t : exit_static c t = cexit_table c t.
Proof.
  unfold exit_static, cexit_table, exit_interval. destruct (domain c t) as [d|]; [|reflexivity].
  cbn [lg_exit_overreach lg_fixed andb Nat.eqb]. unfold ptype.
  replace (S (d + fs_size (st c d) - 1) - S d) with (fs_size (st c d) - 1) by lia. reflexivity.
Qed.

Lemma vh_exit_tab_is_cexit c t : vh_exit_tab c t = cexit_table c t.
Proof.
  unfold vh_exit_tab, cexit_table. destruct (domain c t) as [d|]; [|reflexivity]. unfold desc.
  apply filter_ext. intros j. destruct (fs_type (st c j)); reflexivity.
Qed.

Lemma vh_conflict_is_pml c t1 t2 : vh_conflict c t1 t2 = conflict_static c t1 t2.
Proof. unfold vh_conflict, conflict_static. rewrite !vh_exit_tab_is_cexit, !pml_exit_static_is_cexit. reflexivity. Qed.

Section Backends.
Variable late : bool.
Variable t0 : tree.
Local Notation root := (resort t0).
Local Notation c := (flatten late t0).
Local Notation n := (tsize (resort t0)).
Local Notation nodes := (nodes_of (resort t0)).
Local Notation trs := (postfix_trans nodes root).
Variable chains : list (list nat).
Hypothesis Hch : chains_of nodes = Some chains.
Hypothesis Hwf : wf_doc root = true.
Hypothesis Hrefs : tf_refs_ok root = true.
Hypothesis Hnt : tf_root_no_trans root = true.
Hypothesis Hni : tf_root_no_initial root = true.

Lemma tf_cexit_mem x j : In x trs ->
  mem j (cexit_table c (eff_source c (ftr t0 x))) = mem j (impl_exit_list nodes chains (fst (fst x)) (snd x)).
Proof.
  intros Hx. pose proof (tf_source_not_root t0 x Hwf Hnt Hni Hx) as Hs0. destruct (tf_trans_in t0 x Hx) as [He _].
  unfold cexit_table. destruct (Nat.lt_ge_cases j n) as [Hj|Hj].
  - rewrite (tf_exit_mem late t0 chains Hch Hwf Hrefs x j Hx Hs0 Hj).
    destruct (domain c (eff_source c (ftr t0 x))) as [d|] eqn:Hd; [|reflexivity].
    destruct (tf_domain_facts late t0 chains Hch x d Hx Hd) as [Hdn _].
    destruct (tree_interval_flatten late t0) as (_ & Hsz & _). specialize (Hsz d Hdn).
    apply bool_eq_iff. rewrite mem_In, filter_In, in_seq, !andb_true_iff, !Nat.ltb_lt. intuition lia.
  - transitivity false; [|symmetry].
    + apply mem_false_iff. intros Hin. destruct (domain c (eff_source c (ftr t0 x))) as [d|] eqn:Hd; [|destruct Hin].
      destruct (tf_domain_facts late t0 chains Hch x d Hx Hd) as [Hdn _].
      destruct (tree_interval_flatten late t0) as (_ & Hsz & _). specialize (Hsz d Hdn).
      apply filter_In in Hin. destruct Hin as [Hin _]. apply in_seq in Hin. lia.
    + apply mem_false_iff. intros Hin. pose proof (impl_exit_in_range root chains Hch Hwf _ _ j He Hin). lia.
Qed.

Lemma tf_cexit_bits x : In x trs ->
  bools_of nodes (impl_exit_list nodes chains (fst (fst x)) (snd x)) =
  bits_of_set (nstates c) (cexit_table c (eff_source c (ftr t0 x))).
Proof.
  intros Hx. unfold bools_of, bits_of_set. rewrite (br_idx root), (tf_nstates late t0). apply map_ext. intros j.
  symmetry. apply (tf_cexit_mem x j Hx).
Qed.

Lemma tf_conflict_static_bit x y : In x trs -> In y trs ->
  intersects (impl_exit_list nodes chains (fst (fst x)) (snd x)) (impl_exit_list nodes chains (fst (fst y)) (snd y)) ||
  (source_state nodes (fst (fst x)) =? source_state nodes (fst (fst y))) ||
  is_desc chains (source_state nodes (fst (fst x))) (source_state nodes (fst (fst y))) ||
  is_desc chains (source_state nodes (fst (fst y))) (source_state nodes (fst (fst x))) =
  conflict_static c (eff_source c (ftr t0 x)) (eff_source c (ftr t0 y)).
Proof.
  intros Hx Hy. destruct (tf_trans_in t0 x Hx) as [Hex _]. destruct (tf_trans_in t0 y Hy) as [Hey _].
  unfold conflict_static. rewrite !pml_exit_static_is_cexit.
  destruct (tf_eff_source late t0 x Hex) as (-> & _ & _). destruct (tf_eff_source late t0 y Hey) as (-> & _ & _).
  rewrite !(tf_anc late t0 chains Hch) by (apply source_state_lt; assumption).
  f_equal. f_equal. f_equal.
  assert (Hlt : forall z, In z trs -> forall j, In j (cexit_table c (eff_source c (ftr t0 z))) -> j < n).
  { intros z Hz j Hj. destruct (Nat.lt_ge_cases j n) as [|Hge]; [assumption|]. exfalso.
    destruct (tf_trans_in t0 z Hz) as [Hez _].
    apply mem_In in Hj. rewrite (tf_cexit_mem z j Hz) in Hj. apply mem_In in Hj.
    pose proof (impl_exit_in_range root chains Hch Hwf _ _ j Hez Hj). lia. }
  apply (intersects_ext _ _ _ _ n).
  - intros j _. symmetry. apply (tf_cexit_mem x j Hx).
  - intros j _. symmetry. apply (tf_cexit_mem y j Hy).
  - intros j Hj. apply (impl_exit_in_range root chains Hch Hwf _ _ j Hex Hj).
  - apply (Hlt x Hx).
Qed.

(* type[USCXML_STATE_HAS_HISTORY] of the Promela model *)
Lemma tf_pml_has_hist i : i < n ->
  has_hist c i =
  impl_hashist_prepare nodes i || (is_history nodes i && snd (hist_result (impl_hist_results nodes chains tv_fixed root) i)).
Proof.
  intros Hi. unfold has_hist, ptype, pn. rewrite (tf_nstates late t0), (tf_hist late t0 i Hi). f_equal.
  - rewrite (tf_children late t0 i Hi). unfold impl_hashist_prepare, kidx. rewrite existsb_filter, (br_idx root).
    apply existsb_ext_in. intros j Hj. apply in_seq in Hj. rewrite (tf_hist late t0 j) by lia. reflexivity.
  - destruct (is_history nodes i) eqn:Hk; [|reflexivity]. cbn [andb].
    rewrite (hist_result_fixed root chains i Hi Hk). cbn [hist_entry_fixed fst snd]. rewrite (br_idx root).
    apply existsb_ext_in. intros j Hj. apply in_seq in Hj. assert (Hjn : j < n) by lia.
    rewrite (tf_hist late t0 j Hjn), (tf_anc late t0 chains Hch _ j Hjn). unfold pparent. rewrite (tf_parent late t0 i Hi).
    destruct (npar nodes i) as [p|] eqn:Hp; [destruct (negb (j =? i)), (is_history nodes j), (is_desc chains j p); reflexivity|].
    (* a <history> without parent would be the root, which is the <scxml> element *)
    exfalso. assert (i = 0).
    { rewrite <- (tf_parent late t0 i Hi) in Hp. destruct (tree_interval_flatten late t0) as (_ & _ & _ & _ & H0 & _).
      apply (H0 i Hi). exact Hp. }
    subst i. pose proof (proj2 (wf_root_kind root Hwf 0 Hi) eq_refl) as Hk0. unfold is_history in Hk. rewrite Hk0 in Hk. discriminate.
Qed.

End Backends.

(* ------------------------------------------------------------------ table-level statements *)

Lemma backend_tables_are_impl_tables_lemma : forall late pv t0 T,
  pv_hist_covered pv = false -> tf_doc_ok (resort t0) = true -> Impl_tables tv_fixed t0 = Tables.Ok T ->
  let c := flatten late t0 in
  let ns := nstates c in
  (* Promela: exit_set, conflicts, completion, HAS_HISTORY *)
  map tb_exit (tbl_trans T) = map (fun t => bits_of_set ns (exit_static c (eff_source c t))) (fc_trans c) /\
  map tb_confl (tbl_trans T) =
    map (fun t1 => map (fun t2 => conflict_static c (eff_source c t1) (eff_source c t2)) (fc_trans c)) (fc_trans c) /\
  map sb_compl (tbl_states T) = map (fun i => bits_of_set ns (pcompl pv c i)) (seq 0 ns) /\
  map sb_hashist (tbl_states T) = map (has_hist c) (seq 0 ns) /\
  (* VHDL: exitSetBools, conflictBools *)
  map tb_exit (tbl_trans T) = map (fun t => bits_of_set ns (vh_exit_tab c (eff_source c t))) (fc_trans c) /\
  map tb_confl (tbl_trans T) =
    map (fun t1 => map (fun t2 => vh_conflict c (eff_source c t1) (eff_source c t2)) (fc_trans c)) (fc_trans c).
Proof.
  intros late pv t0 T Hpv Hok HT. cbn zeta.
  destruct (tf_doc_ok_parts t0 Hok) as (Hwf & Hrefs & Hnt & Hni & Hrc).
  assert (E1 : map tb_exit (tbl_trans T) =
               map (fun t => bits_of_set (nstates (flatten late t0)) (exit_static (flatten late t0) (eff_source (flatten late t0) t)))
                   (fc_trans (flatten late t0))).
  { apply (tf_trans_field late t0 _ _ _ T HT). intros chains x Hch Hx. cbn [impl_ttab tb_exit].
    rewrite pml_exit_static_is_cexit. apply (tf_cexit_bits late t0 chains Hch Hwf Hrefs Hnt Hni x Hx). }
  assert (E2 : map tb_confl (tbl_trans T) =
               map (fun t1 => map (fun t2 => conflict_static (flatten late t0) (eff_source (flatten late t0) t1)
                                                             (eff_source (flatten late t0) t2))
                                  (fc_trans (flatten late t0))) (fc_trans (flatten late t0))).
  { apply (tf_trans_field late t0 _ _ _ T HT). intros chains x Hch Hx. cbn [impl_ttab tb_confl].
    rewrite (tf_fc_trans late t0), map_map. apply map_ext_in. intros y Hy.
    apply (tf_conflict_static_bit late t0 chains Hch Hwf Hrefs Hnt Hni x y Hx Hy). }
  split; [exact E1|]. split; [exact E2|]. split; [|split; [|split]].
  - rewrite (tables_completion_agree_lemma late t0 T Hrefs HT), (tf_fc_states late t0), (tf_nstates late t0).
    apply map_ext. intros i. unfold pcompl. rewrite Hpv, andb_false_r. reflexivity.
  - rewrite (tf_nstates late t0). apply (tf_states_field t0 _ _ tv_fixed T HT). intros chains i Hch Hi.
    cbn [impl_stab sb_hashist]. symmetry. apply (tf_pml_has_hist late t0 chains Hch Hwf i Hi).
  - rewrite E1. apply map_ext. intros t. rewrite vh_exit_tab_is_cexit, pml_exit_static_is_cexit. reflexivity.
  - rewrite E2. apply map_ext. intros t1. apply map_ext. intros t2. symmetry. apply vh_conflict_is_pml.
Qed.

(* WELL-FORMED document: the Promela / VHDL models compute exit set and conflicts of the transition of an
   <initial> element with the element itself as source; the generators write the row for the state around it.
   The rows differ (they are never read: such a transition is never a candidate of a selection). *)
Lemma backend_initial_rows_refuted_lemma :
  exists t0 T, tf_doc_ok (resort t0) = true /\ Impl_tables tv_fixed t0 = Tables.Ok T /\
    let c := flatten false t0 in
    map tb_exit (tbl_trans T) <> map (fun t => bits_of_set (nstates c) (exit_static c t)) (fc_trans c) /\
    map tb_confl (tbl_trans T) <> map (fun t1 => map (fun t2 => conflict_static c t1 t2) (fc_trans c)) (fc_trans c) /\
    map tb_confl (tbl_trans T) <> map (fun t1 => map (fun t2 => vh_conflict c t1 t2) (fc_trans c)) (fc_trans c).
Proof.
  exists w_initial_elem. eexists. split; [vm_compute; reflexivity|]. split; [vm_compute; reflexivity|].
  split; [|split]; vm_compute; discriminate.
Qed.
