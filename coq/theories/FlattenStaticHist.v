(* FlattenStaticHist.v -- every document of FlattenStaticTree.hist_treeb is turned by Chart.flatten
   (LargeMicroStep::init) into flat tables that pass LegalHistWf.wf_histb, with a compound root:
     flatten_wf_hist_lemma : hist_treeb t = true -> wf_histb (flatten late t) = true /\ root compound.
   Route: hist_treeb t gives the facts ValidateBridge.VTree t (what a clean validation says), unique numbers,
   vb_docb and vb_sideb directly from the tree (no validator involved); ValidateBridgeResort.flat_hyp_resort moves
   them to the resorted tree and ValidateBridgePseudo.flat_wf_hist derives the clauses of wf_histb.  Proofs only. *)
From V Require Import Base NameMatch Chart Exec Large Legal SetLemmas Tables TreeLemmas LargeCacheLemmas WfCore LegalHistWf
     FlattenWf FlattenWfTree FlattenWfStruct FlattenWfKinds FlattenWfLemmas FlattenWfSideLemmas
     ValidateBridge ValidateBridgeRows ValidateBridgeFlat ValidateBridgePos ValidateBridgePseudo ValidateBridgeResort
     FlattenStaticTree.
Local Open Scope nat_scope.

(* ------------------------------------------------------------------ the clauses, unfolded *)

Lemma hist_treeb_parts t : hist_treeb t = true ->
  ht_rootb t = true /\ ht_nestb t = true /\ ct_uniqueb t = true /\ ht_targetsb t = true /\ ht_initattrb t = true /\
  ht_initialb t = true /\ ht_historyb t = true /\ vb_hist_disjointb t = true.
Proof. unfold hist_treeb. intros H. repeat (apply andb_true_iff in H as [H ?]). repeat split; assumption. Qed.

Lemma ht_nest_spec t : ht_nestb t = true ->
  forall u k, In u (subtrees t) -> In k (t_kids u) -> ht_kid_okb (t_kind u) (t_kind k) = true.
Proof.
  unfold ht_nestb. intros H u k Hu Hk. rewrite forallb_forall in H. specialize (H u Hu). rewrite forallb_forall in H. now apply H.
Qed.

Lemma ht_kid_ok_schema p k : ht_kid_okb p k = true -> kid_okb p k = true.
Proof. destruct p, k; cbn; intros H; try discriminate; reflexivity. Qed.

Lemma ids_inb_spec l pool : ids_inb l pool = true -> forall s, In s l -> In s pool.
Proof. unfold ids_inb. intros H s Hs. rewrite forallb_forall in H. apply memN_In. now apply H. Qed.

Lemma nonemptyN_spec l : nonemptyN l = true -> l <> [].
Proof. destruct l; [discriminate | intros _ E; discriminate]. Qed.

(* every element strictly below t is a child of an element of t *)
Lemma tbelow_parent : forall t w, In w (tbelow t) -> exists u, In u (subtrees t) /\ In w (t_kids u).
Proof.
  induction t as [k s i tr en ex d kids IH] using tree_ind'. intros w Hw. unfold tbelow in Hw. cbn [t_kids] in Hw.
  apply in_flat_map in Hw as (kid & Hkid & Hw). rewrite Forall_forall in IH.
  destruct (subtrees_cases kid w Hw) as [->|Hb].
  - exists (TNode k s i tr en ex d kids). split; [apply subtrees_self | exact Hkid].
  - destruct (IH kid Hkid w Hb) as (u & Hu & Hk). exists u. split; [|exact Hk].
    eapply subtrees_kid; [|exact Hu]. exact Hkid.
Qed.

Lemma NoDup_map_filter {A B} (f : A -> B) (p : A -> bool) l : NoDup (map f l) -> NoDup (map f (filter p l)).
Proof.
  induction l as [|x r IH]; cbn [map filter]; intros H; [constructor|]. inversion H as [|? ? Hx Hr]; subst.
  destruct (p x); [|now apply IH]. cbn [map]. constructor; [|now apply IH].
  intros Hin. apply Hx. apply in_map_iff in Hin as (y & E & Hy). apply filter_In in Hy as [Hy _]. apply in_map_iff. eauto.
Qed.

Section Tree.
Variable t : tree.
Hypothesis HT : hist_treeb t = true.

Let P := hist_treeb_parts t HT.

Lemma hs_root_kind : t_kind t = KScxml.
Proof. destruct P as (R & _). unfold ht_rootb in R. destruct (t_kind t); try discriminate; reflexivity. Qed.

Lemma hs_nest u k : In u (subtrees t) -> In k (t_kids u) -> ht_kid_okb (t_kind u) (t_kind k) = true.
Proof. destruct P as (_ & N & _). now apply ht_nest_spec. Qed.

Lemma hs_no_scxml_below w : In w (tbelow t) -> t_kind w <> KScxml.
Proof.
  intros Hw E. destruct (tbelow_parent t w Hw) as (u & Hu & Hk). pose proof (hs_nest u w Hu Hk) as N. rewrite E in N.
  destruct (t_kind u); discriminate.
Qed.

Lemma hs_doc : vb_docb t = true.
Proof. apply vb_docb_intro; [exact hs_root_kind | exact hs_no_scxml_below]. Qed.

Lemma hs_unique : NoDup (sids t).
Proof. destruct P as (_ & _ & U & _). now apply nodupNb_NoDup. Qed.

(* elements strictly below an element of t lie strictly below t *)
Lemma hs_below p w : In p (subtrees t) -> In w (tbelow p) -> In w (tbelow t).
Proof.
  intros Hp Hw. destruct (subtrees_cases t p Hp) as [->|Hb]; [exact Hw|].
  eapply tbelow_trans; [exact Hb|]. now apply tbelow_subtrees.
Qed.

(* a proper state below t carries an id *)
Lemma hs_prop_vis w : In w (tbelow t) -> tprop w = true -> tvis w = true.
Proof.
  intros Hw Pw. pose proof (hs_no_scxml_below w Hw) as Hs. unfold tprop, is_proper_kind in Pw. unfold tvis.
  destruct (t_kind w); try reflexivity; try discriminate. congruence.
Qed.

Lemma hs_psids_vsids p s : In p (subtrees t) -> In s (psids_below p) -> In s (vsids_below p).
Proof.
  intros Hp Hs. unfold psids_below in Hs. apply in_map_iff in Hs as (w & <- & Hw). apply filter_In in Hw as [Hw Pw].
  unfold vsids_below. apply in_map. apply filter_In. split; [exact Hw|]. apply hs_prop_vis; [now apply (hs_below p) | exact Pw].
Qed.

Lemma hs_pksids p s : In p (subtrees t) -> In s (pksids p) -> In s (vsids_kids p) /\ In s (psids_below p).
Proof.
  intros Hp Hs. unfold pksids in Hs. apply in_map_iff in Hs as (w & <- & Hw). apply filter_In in Hw as [Hw Pw].
  pose proof (tbelow_kid p w Hw) as Hb. split.
  - unfold vsids_kids. apply in_map. apply filter_In. split; [exact Hw|]. apply hs_prop_vis; [now apply (hs_below p) | exact Pw].
  - unfold psids_below. apply in_map. apply filter_In. split; assumption.
Qed.

Lemma pseudo_trans_spec scope h : pseudo_trans_okb scope h = true ->
  exists x l, t_trans h = [x] /\ tt_targets x = Some l /\ tt_cond x = None /\ tt_event x = None /\ forall s, In s l -> In s scope.
Proof.
  unfold pseudo_trans_okb. destruct (t_trans h) as [|x [|y r]]; try discriminate.
  destruct (tt_targets x) as [l|] eqn:El; [|discriminate]. destruct (tt_cond x) eqn:Ec; [discriminate|].
  destruct (tt_event x) eqn:Ee; [discriminate|]. intros H. exists x, l. repeat split; try assumption; try reflexivity.
  now apply ids_inb_spec.
Qed.

Lemma hs_initial p h : In p (subtrees t) -> In h (t_kids p) -> t_kind h = KInitial ->
  exists x l, t_trans h = [x] /\ tt_targets x = Some l /\ tt_cond x = None /\ tt_event x = None /\ forall s, In s l -> In s (psids_below p).
Proof.
  intros Hp Hh Hk. destruct P as (_ & _ & _ & _ & _ & I & _). unfold ht_initialb in I. rewrite forallb_forall in I.
  specialize (I p Hp). rewrite forallb_forall in I. specialize (I h Hh). rewrite Hk in I. cbn [is_initial_kind] in I.
  now apply pseudo_trans_spec.
Qed.

Lemma hs_history p h : In p (subtrees t) -> In h (t_kids p) -> is_hist_kind (t_kind h) = true ->
  exists x l, t_trans h = [x] /\ tt_targets x = Some l /\ tt_cond x = None /\ tt_event x = None /\
    forall s, In s l -> In s (if is_deep_kind (t_kind h) then psids_below p else pksids p).
Proof.
  intros Hp Hh Hk. destruct P as (_ & _ & _ & _ & _ & _ & Hi & _). unfold ht_historyb in Hi. rewrite forallb_forall in Hi.
  specialize (Hi p Hp). rewrite forallb_forall in Hi. specialize (Hi h Hh).
  destruct (t_kind h); try discriminate; cbn [is_deep_kind]; now apply pseudo_trans_spec.
Qed.

Theorem hs_vtree : VTree t.
Proof.
  constructor.
  - intros u k Hu Hk. apply ht_kid_ok_schema. now apply hs_nest.
  - pose proof hs_unique as U. unfold sids in U. rewrite subtrees_unfold in U. cbn [map] in U. inversion U as [|? ? _ U']; subst.
    unfold vsids_below. apply NoDup_map_filter. exact U'.
  - intros u x l Hu Hx El. destruct P as (_ & _ & _ & T & _). unfold ht_targetsb in T. rewrite forallb_forall in T.
    specialize (T u Hu). rewrite forallb_forall in T. specialize (T x Hx). rewrite El in T.
    apply andb_true_iff in T as [T T3]. apply andb_true_iff in T as [T1 T2].
    split; [now apply nonemptyN_spec|]. split; [now apply ids_inb_spec | exact T3].
  - intros u l Hu Hk El. destruct P as (_ & _ & _ & _ & A & _). unfold ht_initattrb in A. rewrite forallb_forall in A.
    specialize (A u Hu). rewrite El in A. apply orb_true_iff in A as [A|A].
    + exfalso. apply Hk. unfold is_initial_kind in A. destruct (t_kind u); try discriminate; reflexivity.
    + apply andb_true_iff in A as [A A3]. apply andb_true_iff in A as [A1 A2].
      split; [now apply nonemptyN_spec|]. split; [now apply ids_inb_spec | exact A3].
  - intros p u Hp Hu Hk. destruct (hs_initial p u Hp Hu Hk) as (x & l & E1 & E2 & E3 & E4 & Hs). exists x, l.
    repeat split; try assumption. intros s Hsl. apply hs_psids_vsids; [exact Hp | now apply Hs].
  - intros p h Hp Hh Hk. destruct (hs_history p h Hp Hh Hk) as (x & l & E1 & E2 & E3 & E4 & Hs). exists x, l.
    repeat split; try assumption.
    + intros s Hsl. specialize (Hs s Hsl). destruct (is_deep_kind (t_kind h)).
      * now apply hs_psids_vsids.
      * now apply (hs_pksids p s Hp).
    + intros s Hsl. specialize (Hs s Hsl). destruct (is_deep_kind (t_kind h)); [exact Hs | now apply (hs_pksids p s Hp)].
Qed.

Theorem hs_side : vb_sideb t = true.
Proof.
  destruct P as (R & _ & _ & _ & _ & _ & _ & D). unfold vb_sideb.
  assert (A : ct_rootb t = true).
  { unfold ct_rootb, compound_node. unfold ht_rootb in R. destruct (t_kind t); try discriminate; exact R. }
  assert (B : vb_hist_parentb t = true).
  { unfold vb_hist_parentb. apply forallb_forall. intros u Hu. destruct (t_kind u) eqn:Ek; try reflexivity.
    apply forallb_forall. intros k Hk. pose proof (hs_nest u k Hu Hk) as N. rewrite Ek in N. destruct (t_kind k); try discriminate; reflexivity. }
  assert (C : vb_initial_properb t = true).
  { unfold vb_initial_properb, vb_pseudo_properb. apply forallb_forall. intros p Hp. apply forallb_forall. intros h Hh.
    destruct (is_initial_kind (t_kind h)) eqn:Ei; [|reflexivity].
    assert (Hk : t_kind h = KInitial) by (unfold is_initial_kind in Ei; destruct (t_kind h); try discriminate; reflexivity).
    destruct (hs_initial p h Hp Hh Hk) as (x & l & E1 & E2 & _ & _ & Hs). rewrite E1. cbn [forallb]. rewrite E2, andb_true_r.
    apply forallb_forall. intros s Hsl. apply memN_In. now apply Hs. }
  now rewrite A, B, C, D.
Qed.

End Tree.

(* ------------------------------------------------------------------ the tables *)

Theorem hist_tree_flat_hyp t : hist_treeb t = true -> FlatHyp (resort t).
Proof.
  intros H. apply flat_hyp_resort; [now apply hs_vtree | now apply hs_unique | now apply hs_doc | now apply hs_side].
Qed.

Theorem flatten_wf_hist_lemma late t : hist_treeb t = true ->
  wf_histb (flatten late t) = true /\ fs_type (st (flatten late t) 0) = FCompound.
Proof. intros H. apply flat_wf_hist. now apply hist_tree_flat_hyp. Qed.
