(* RunConformInitialSel.v -- C01, positive half of the selection comparison, for charts WITH <initial> pseudo-states and
   deep / multiple initial attributes (wf_initb of LegalHistWf.v; no <history>): LargeMicroStep's SELECT_TRANSITIONS
   (Large.select_loop) selects exactly what Appendix D's selectTransitions + removeConflictingTransitions
   (Spec.select_transitions) select, under the same boolean guards as for the history-free core
   (SelectConformFlatten.v).  Route: selection never looks at fs_completion nor at the type of a pseudo-state, so
   both sides agree with themselves on the erased chart (RunConformInitialSelCong.v), which is a chart of the core
   (RunConformInitialSelErase.v), where SelectConformLemmas.selection_conforms_sec applies; the exit-set premise is
   ExitSetLemmas.exit_set_agrees_t on the chart itself.  Proofs only. *)
From V Require Import Base NameMatch NameMatchLemmas Chart Exec Large LargeLemmas Spec Legal SetLemmas
  LegalAbstract LegalLarge LegalRun WfCore Interp LegalOracle LargeCacheLemmas ExitSetLemmas SelectConform SelectConformLemmas
  SelectConformOrder SelectConformRoot LegalHistBase LegalHistEntry LegalHistStep LegalHistWf LegalHistOracle
  RunConformInitialSelLegal RunConformInitialSelErase RunConformInitialSelCong.
Local Open Scope nat_scope.

(* (H1) in the form in which it is used, on a chart with pseudo-states *)
Lemma unrelated_enabledb_sound_h c cfg ev x : WFH c -> unrelated_enabledb c cfg ev x = true ->
  (forall s t1 t2, In s cfg -> In t1 (fs_trans (st c s)) -> In t2 (fs_trans (st c s)) ->
     enabledb c cfg ev x t1 = true -> enabledb c cfg ev x t2 = true -> t1 = t2) /\
  (forall s1 s2 t1 t2, In s1 cfg -> In s2 cfg -> LegalAbstract.Anc (fun i => fs_parent (st c i)) s1 s2 ->
     In t1 (fs_trans (st c s1)) -> In t2 (fs_trans (st c s2)) ->
     enabledb c cfg ev x t1 = true -> enabledb c cfg ev x t2 = true -> False).
Proof.
  intros W H. unfold unrelated_enabledb in H. rewrite forallb_forall in H.
  assert (Hk : forall s1 s2 t1 t2, In s1 cfg -> In s2 cfg ->
            (s1 =? s2) || mem s1 (fs_ancestors (st c s2)) = true ->
            In t1 (fs_trans (st c s1)) -> In t2 (fs_trans (st c s2)) ->
            enabledb c cfg ev x t1 = true -> enabledb c cfg ev x t2 = true -> s1 = s2 /\ t1 = t2).
  { intros s1 s2 t1 t2 Hs1 Hs2 Hrel Ht1 Ht2 E1 E2. specialize (H s1 Hs1). rewrite forallb_forall in H. specialize (H s2 Hs2).
    rewrite Hrel in H. rewrite forallb_forall in H. specialize (H t1 Ht1). rewrite forallb_forall in H. specialize (H t2 Ht2).
    rewrite E1, E2 in H. cbn [andb negb orb] in H. apply andb_true_iff in H as [A B].
    apply Nat.eqb_eq in A, B. tauto. }
  split.
  - intros s t1 t2 Hs Ht1 Ht2 E1 E2. apply (Hk s s t1 t2 Hs Hs); try assumption. now rewrite Nat.eqb_refl.
  - intros s1 s2 t1 t2 Hs1 Hs2 Ha Ht1 Ht2 E1 E2.
    destruct (Hk s1 s2 t1 t2 Hs1 Hs2) as [-> _]; try assumption.
    + apply orb_true_iff. right. apply mem_In. now apply (wh_anc c W).
    + exact (hanc_irrefl c W s2 Ha).
Qed.

Section Main.
Variable late : bool.
Variable t0 : tree.
Notation c := (flatten late t0).
Notation c' := (erase (flatten late t0)).
Variable cfg : list nat.
Variable ev : option event.
Variable x : xstate.
Hypothesis Hwf : wf_initb c = true.
Hypothesis Hroot : fs_type (st c 0) = FCompound.
Hypothesis Hpar : par_nonemptyb c = true.
Hypothesis Hlegal : legal_configb c cfg = true.
Hypothesis Hasc : ascb cfg = true.
Hypothesis H1 : unrelated_enabledb c cfg ev x = true.
Hypothesis H2 : conds_pureb c cfg x = true.
Hypothesis H3 : descs_okb c cfg ev = true.

Let W : WFH c := wf_histb_sound c (wf_initb_histb c Hwf).
Let NH : forall i, is_hist (fs_type (st c i)) = false := wf_initb_no_hist c Hwf.
Let W' : WF c' := erase_WF c W NH.
Let HLH : LegalCfgH c cfg := legal_configb_sound_h c W cfg Hlegal.
Let HL' : LegalCfg c' cfg := erase_LegalCfg c W cfg HLH.

Lemma e_root : fs_type (st c' 0) = FCompound.
Proof. rewrite type_erase, Hroot. reflexivity. Qed.

Lemma e_H1a : forall s t1 t2, In s cfg -> In t1 (fs_trans (st c' s)) -> In t2 (fs_trans (st c' s)) ->
  enabledb c' cfg ev x t1 = true -> enabledb c' cfg ev x t2 = true -> t1 = t2.
Proof.
  intros s t1 t2. rewrite trans_erase, !enabledb_erase.
  exact (proj1 (unrelated_enabledb_sound_h c cfg ev x W H1) s t1 t2).
Qed.

Lemma e_H1b : forall s1 s2 t1 t2, In s1 cfg -> In s2 cfg -> LegalAbstract.Anc (fun i => fs_parent (st c' i)) s1 s2 ->
  In t1 (fs_trans (st c' s1)) -> In t2 (fs_trans (st c' s2)) ->
  enabledb c' cfg ev x t1 = true -> enabledb c' cfg ev x t2 = true -> False.
Proof.
  intros s1 s2 t1 t2. rewrite Anc_erase, !trans_erase, !enabledb_erase.
  exact (proj2 (unrelated_enabledb_sound_h c cfg ev x W H1) s1 s2 t1 t2).
Qed.

Lemma e_H2 : forall s ti cnd, In s cfg -> In ti (fs_trans (st c' s)) -> ft_cond (tr c' ti) = Some cnd ->
  snd (is_true (inst_of c' cfg) cnd x) = x.
Proof.
  intros s ti cnd. rewrite trans_erase, tr_erase, is_true_erase. exact (conds_pureb_sound c cfg x H2 s ti cnd).
Qed.

Lemma e_H3 : forall s ti e, In s cfg -> In ti (fs_trans (st c' s)) -> ev = Some e -> ft_spontaneous (tr c' ti) = false ->
  name_match_impl nm_fixed (ft_event (tr c' ti)) (ev_name e) = name_match_spec (ft_event (tr c' ti)) (ev_name e).
Proof. intros s ti e. rewrite trans_erase, tr_erase. exact (descs_okb_sound c cfg ev H3 s ti e). Qed.

Lemma e_ORD : forall s1 s2 t1 t2, s1 < nstates c' -> s2 < nstates c' -> s1 + fs_size (st c' s1) <= s2 ->
  In t1 (fs_trans (st c' s1)) -> In t2 (fs_trans (st c' s2)) -> t1 < t2.
Proof.
  intros s1 s2 t1 t2. rewrite nstates_erase, size_erase, !trans_erase.
  exact (trans_orderb_sound c (trans_order_flatten late t0) s1 s2 t1 t2).
Qed.

Lemma e_PAR : forall s, In s cfg -> fs_type (st c' s) = FParallel -> fs_children (st c' s) <> [].
Proof.
  intros s Hs. rewrite type_erase, ch_erase. intros Hk. apply er_type_parallel in Hk.
  apply (par_nonemptyb_sound c Hpar s); [|exact Hk]. pose proof HLH as [_ Hb]. now apply Hb.
Qed.

Lemma e_exit h : forall s ti, In s cfg -> In ti (fs_trans (st c' s)) ->
  forall z, In z (exit_states_of lg_fixed c' cfg (tr c' ti)) <-> In z (compute_exit_set c' cfg h [tr c' ti]).
Proof.
  intros s ti _ _. rewrite tr_erase, exit_states_of_erase, compute_exit_set_erase. apply exit_set_agrees_t.
  - unfold targets_plain_t. apply forallb_forall. intros g _. apply negb_true_iff. exact (NH g).
  - intros s' Hs'. pose proof HLH as [_ Hb]. now apply Hb.
Qed.

Lemma cfg_no_initial : forall s, In s cfg -> fs_type (st c s) <> FInitial.
Proof.
  intros s Hs E. pose proof HLH as [_ Hb]. destruct (Hb s Hs) as [_ Hps]. unfold pseudoS in Hps. rewrite E in Hps. discriminate.
Qed.

Lemma selection_conforms_initial_sec h :
  select_loop lg_fixed c cfg ev (cfg_postfix c cfg) None [] x = select_transitions c cfg h ev x.
Proof.
  rewrite <- (select_transitions_erase c cfg h ev x cfg_no_initial), <- select_loop_erase, <- cfg_postfix_erase.
  exact (selection_conforms_sec c' W' e_root cfg ev x h HL' (ascb_ssorted cfg Hasc) e_H1a e_H1b e_H2 e_H3 e_ORD e_PAR (e_exit h)).
Qed.

Lemma selection_pure_initial_sec :
  snd (select_loop lg_fixed c cfg ev (cfg_postfix c cfg) None [] x) = x.
Proof.
  rewrite <- select_loop_erase, <- cfg_postfix_erase.
  destruct (enabled_transitions_conform_sec c' W' cfg ev x HL' (ascb_ssorted cfg Hasc) e_H1a e_H1b e_H2 e_H3 e_ORD e_PAR)
    as (_ & E & _).
  rewrite E. reflexivity.
Qed.

End Main.

(* ------------------------------------------------------------------ the theorems *)

(* the engine selects what Appendix D selects, on every chart LargeMicroStep::init builds from a document with
   <initial> elements and deep / multiple initial attributes (no <history>) *)
Theorem selection_conforms_initial_lemma : forall late t0 cfg ev x h,
  let c := flatten late t0 in
  wf_initb c = true -> fs_type (st c 0) = FCompound -> par_nonemptyb c = true ->
  legal_configb c cfg = true -> ascb cfg = true ->
  unrelated_enabledb c cfg ev x = true -> conds_pureb c cfg x = true -> descs_okb c cfg ev = true ->
  select_loop lg_fixed c cfg ev (cfg_postfix c cfg) None [] x = Spec.select_transitions c cfg h ev x.
Proof.
  intros late t0 cfg ev x h c Hwf Hroot Hpar Hleg Hasc H1 H2 H3.
  exact (selection_conforms_initial_sec late t0 cfg ev x Hwf Hroot Hpar Hleg Hasc H1 H2 H3 h).
Qed.

(* ... with the engine's configuration 0 :: cfg' against Appendix D's cfg' (which has no <scxml> element), and the
   selection leaves the execution state alone *)
Theorem selection_conforms_spec_cfg_initial_lemma : forall late t0 cfg' ev x h,
  let c := flatten late t0 in let cfg := 0 :: cfg' in
  wf_initb c = true -> fs_type (st c 0) = FCompound -> par_nonemptyb c = true -> root_unmentionedb c = true ->
  legal_configb c cfg = true -> ascb cfg = true ->
  unrelated_enabledb c cfg ev x = true -> conds_pureb c cfg x = true -> descs_okb c cfg ev = true ->
  select_loop lg_fixed c cfg ev (cfg_postfix c cfg) None [] x = Spec.select_transitions c cfg' h ev x
  /\ snd (select_loop lg_fixed c cfg ev (cfg_postfix c cfg) None [] x) = x.
Proof.
  intros late t0 cfg' ev x h c cfg Hwf Hroot Hpar Hun Hleg Hasc H1 H2 H3. split.
  - rewrite <- (select_transitions_root c cfg').
    + exact (selection_conforms_initial_sec late t0 cfg ev x Hwf Hroot Hpar Hleg Hasc H1 H2 H3 h).
    + exact (wh_root_par c (wf_histb_sound c (wf_initb_histb c Hwf))).
    + unfold is_atomic_state, sty. now rewrite Hroot.
    + exact Hun.
  - exact (selection_pure_initial_sec late t0 cfg ev x Hwf Hpar Hleg Hasc H1 H2 H3).
Qed.

Print Assumptions selection_conforms_initial_lemma.
Print Assumptions selection_conforms_spec_cfg_initial_lemma.
