(* RunConformInitialEngine.v -- C01 on charts with <initial> elements and deep / multiple initial attributes:
   LargeMicroStep's "iterate for descendants" loop (Large.descend_one / entry_set) computes the set described by
   RunConformInitialBase.D (below the base roots), adds the <initial> pseudo-state of exactly the compound states
   entered by default, and collects exactly their transitions.  A second loop invariant KInv next to HInv of
   LegalHistEntry.v.  Proofs only. *)
From V Require Import Base NameMatch Chart Exec Large LargeLemmas Spec Legal SetLemmas LegalAbstract LegalLarge
  LegalHistBase LegalHistEntry LegalHistStep RunConformInitialBase.
Local Open Scope nat_scope.

Section IEngine.
Variable c : fchart.
Let n := nstates c.
Let par (i : nat) := fs_parent (st c i).
Let ch (i : nat) := fs_children (st c i).
Let kd (i : nat) := fs_type (st c i).
Let cpl (i : nat) := fs_completion (st c i).
Notation Anc := (LegalAbstract.Anc par).
Notation pseudo := (pseudoS c).

Hypothesis W : WFH c.
Hypothesis Hnh : forall i, histS c i = false.
Hypothesis HcplOK : CplOK c.
Hypothesis HcplAnti : CplAnti c.
Hypothesis HtgAnti : TgAnti c.
Variable B : nat -> list nat -> Prop.
Hypothesis HB1 : forall r G, B r G -> GoodCtx c r G.
Hypothesis HB2 : forall r G r' G', B r G -> B r' G' -> (r = r' /\ G = G') \/ (r <> r' /\ ~ Anc r r' /\ ~ Anc r' r).

Variable cfg exitset hist tg ts0 : list nat.
Hypothesis tg_bound : forall g, In g tg -> 0 < g /\ g < n.
Hypothesis HH : HistOK c hist.
Hypothesis HE0_uniq : forall i k1 k2, kd i = FCompound -> par k1 = Some i -> par k2 = Some i ->
  In k1 (HE0 c tg) -> In k2 (HE0 c tg) -> k1 = k2.
Variable Q : nat -> Prop.
Hypothesis Q0 : forall x, In x (HE0 c tg) -> Q x.
Hypothesis Qpar : forall j x, Q j -> kd j = FParallel -> par x = Some j -> Q x.
Hypothesis Qcomp : forall j x, Q j -> kd j = FCompound -> (forall k, par k = Some j -> ~ surv cfg exitset k) -> Anc j x -> Q x.
Hypothesis Qpseudo : forall j q x, Q j -> pseudo j = true -> par j = Some q -> Anc q x -> Q x.

Notation Dr := (D c B).
Notation itg := (itg c).
Notation NTG := (NTG c).
Notation IC := (LegalHistBase.IC c).
Notation E0 := (HE0 c tg).
Notation HI := (HInv c cfg exitset tg Q).
Notation blocked := (hblocked c cfg exitset).

(* strictly below a base root *)
Definition Low (x : nat) : Prop := exists r0 G0, B r0 G0 /\ Anc r0 x.

(* the link between the base contexts and the loop's start set *)
Hypothesis E1 : forall r G y, B r G -> IC r G y -> In y E0.
Hypothesis E2 : forall x, In x E0 -> Low x -> exists r G, B r G /\ IC r G x.
Hypothesis E3 : forall x, In x E0 -> pseudo x = false.
Hypothesis E4 : forall k, surv cfg exitset k -> ~ Low k.
Hypothesis E6 : forall j, Q j -> kd j = FCompound -> ~ Low j -> blocked E0 j.
Hypothesis HLdec : forall x, Low x \/ ~ Low x.

Lemma Low_D r G x : Dr r G x -> Low x.
Proof.
  intros HD. destruct (D_root c B r G x HD) as (r0 & G0 & Hb & Hr). exists r0, G0. split; [exact Hb|].
  pose proof (D_below c B r G x HD) as Hrx. destruct Hr as [->|Hr]; [exact Hrx | eapply hanc_trans; eauto].
Qed.

Lemma Low_down p x : Low p -> Anc p x -> Low x.
Proof. intros (r0 & G0 & Hb & Ha) Hpx. exists r0, G0. split; [exact Hb | eapply hanc_trans; eauto]. Qed.

Lemma Low_up_par j k : kd j = FParallel -> par k = Some j -> Low k -> Low j.
Proof.
  intros Hk Hp (r0 & G0 & Hb & Ha). exists r0, G0. split; [exact Hb|].
  destruct (anc_child par _ _ _ Hp Ha) as [->|H]; [|exact H]. exfalso.
  pose proof (gc_kind c j G0 (HB1 j G0 Hb)) as Hc. unfold kd in Hk. congruence.
Qed.

Record KInv (j : nat) (es ts : list nat) : Prop := {
  k_sound : forall x, In x es -> pseudo x = false -> Low x -> exists r G, Dr r G x;
  k_ctx : forall r G x, Dr r G x -> In x es -> forall y, IC r G y -> In y es;
  k_root : forall r G x, Dr r G x -> In x es -> B r G \/ r < j;
  k_pseudo : forall x, In x es -> pseudo x = true ->
     exists q r G, par x = Some q /\ cpl q = [x] /\ kd x = FInitial /\ Dr r G q /\ NTG q G /\ kd q = FCompound /\
                   (x < j -> forall y, IC q (itg q) y -> In y es);
  k_dflt : forall q r G x0, q < j -> In q es -> Dr r G q -> kd q = FCompound -> NTG q G -> cpl q = [x0] -> pseudo x0 = true -> In x0 es;
  k_ts : forall ti, In ti ts <-> In ti ts0 \/ exists x, x < j /\ In x es /\ kd x = FInitial /\ In ti (fs_trans (st c x))
}.

Lemma KInv_0 : KInv 0 E0 ts0.
Proof.
  assert (Hctx : forall r G x, Dr r G x -> In x E0 -> B r G).
  { intros r G x HD Hx. destruct (E2 x Hx (Low_D r G x HD)) as (r1 & G1 & Hb & Hic).
    destruct (D_unique c W B HB2 x r G r1 G1 HD (D_IC_base c B r1 G1 x Hb Hic)) as [-> ->]. exact Hb. }
  constructor.
  - intros x Hx _ HL. destruct (E2 x Hx HL) as (r & G & Hb & Hic). exists r, G. exact (D_IC_base c B r G x Hb Hic).
  - intros r G x HD Hx y Hy. exact (E1 r G y (Hctx r G x HD Hx) Hy).
  - intros r G x HD Hx. left. exact (Hctx r G x HD Hx).
  - intros x Hx Hp. rewrite (E3 x Hx) in Hp. discriminate.
  - intros q r G x0 Hq. lia.
  - intros ti. split; [tauto|]. intros [H|(x & Hx & _)]; [exact H | lia].
Qed.

(* the generic step: [Snew] is added *)
Lemma KInv_grow j es ts es' ts' (Snew : nat -> Prop) : KInv j es ts ->
  (forall x, In x es' <-> In x es \/ Snew x) ->
  (forall x, Snew x -> j < x) ->
  (forall x, Snew x -> pseudo x = false -> Low x -> exists r G, Dr r G x) ->
  (forall x, Snew x -> forall r G, Dr r G x -> (forall y, IC r G y -> In y es') /\ (B r G \/ r < S j)) ->
  (forall x, Snew x -> pseudo x = true ->
     exists q r G, par x = Some q /\ cpl q = [x] /\ kd x = FInitial /\ Dr r G q /\ NTG q G /\ kd q = FCompound) ->
  (In j es -> pseudo j = true -> forall q, par j = Some q -> forall y, IC q (itg q) y -> In y es') ->
  (In j es -> kd j = FCompound -> forall r G x0, Dr r G j -> NTG j G -> cpl j = [x0] -> pseudo x0 = true -> In x0 es') ->
  (forall ti, In ti ts' <-> In ti ts \/ (In j es /\ kd j = FInitial /\ In ti (fs_trans (st c j)))) ->
  KInv (S j) es' ts'.
Proof.
  intros [Ks Kc Kr Kp Kd Kt] Hes Hgt Hsn Hcn Hpn Hpj Hdj Hts.
  assert (Hold : forall x, In x es' -> x <= j -> In x es).
  { intros x Hx Hle. apply Hes in Hx as [Hx|Hx]; [exact Hx | specialize (Hgt x Hx); lia]. }
  constructor.
  - intros x Hx Hp HL. apply Hes in Hx as [Hx|Hx]; [now apply Ks | now apply Hsn].
  - intros r G x HD Hx y Hy. apply Hes in Hx as [Hx|Hx]; [apply Hes; left; exact (Kc r G x HD Hx y Hy) | exact (proj1 (Hcn x Hx r G HD) y Hy)].
  - intros r G x HD Hx. apply Hes in Hx as [Hx|Hx]; [destruct (Kr r G x HD Hx) as [H|H]; [now left | right; lia] | exact (proj2 (Hcn x Hx r G HD))].
  - intros x Hx Hp. apply Hes in Hx as [Hx|Hx].
    + destruct (Kp x Hx Hp) as (q & r & G & A1 & A2 & A3 & A4 & A5 & A6 & A7). exists q, r, G. repeat split; auto.
      intros Hlt y Hy. destruct (Nat.eq_dec x j) as [->|Hne]; [exact (Hpj Hx Hp q A1 y Hy) | apply Hes; left; apply A7; [lia | exact Hy]].
    + destruct (Hpn x Hx Hp) as (q & r & G & A1 & A2 & A3 & A4 & A5 & A6). exists q, r, G. repeat split; auto.
      intros Hlt. specialize (Hgt x Hx). lia.
  - intros q r G x0 Hq Hqe HD Hk Hn Hc Hp. pose proof (Hold q Hqe ltac:(lia)) as Hqe0.
    destruct (Nat.eq_dec q j) as [->|Hne]; [exact (Hdj Hqe0 Hk r G x0 HD Hn Hc Hp) | apply Hes; left; apply (Kd q r G x0); auto; lia].
  - intros ti. rewrite Hts, Kt. split.
    + intros [[H|(x & Hx & He & Hk & Hin)]|(He & Hk & Hin)]; [now left | right; exists x | right; exists j].
      * split; [lia|]. split; [apply Hes; now left | auto].
      * split; [lia|]. split; [apply Hes; now left | auto].
    + intros [H|(x & Hx & He & Hk & Hin)]; [left; now left|]. pose proof (Hold x He ltac:(lia)) as He0.
      destruct (Nat.eq_dec x j) as [->|Hne]; [right; auto | left; right; exists x; repeat split; auto; lia].
Qed.

Lemma KInv_keep j es ts : KInv j es ts ->
  (In j es -> pseudo j = false /\ kd j <> FInitial) ->
  (In j es -> kd j = FCompound -> forall r G x0, Dr r G j -> NTG j G -> cpl j = [x0] -> pseudo x0 = true -> In x0 es) ->
  KInv (S j) es ts.
Proof.
  intros HK Hj Hd. apply (KInv_grow j es ts es ts (fun _ => False) HK); try tauto;
    try (intros He Hp; destruct (Hj He) as [A _]; congruence);
    try (intros ti; split; [tauto|]; intros [H|(He & Hk & _)]; [exact H|]; destruct (Hj He) as [_ A]; congruence).
Qed.

(* ---- facts about the state the loop is visiting ---- *)

Lemma blocked_default j es ts : HI j es -> KInv j es ts -> In j es -> kd j = FCompound -> blocked es j ->
  forall r G x0, Dr r G j -> NTG j G -> cpl j = [x0] -> pseudo x0 = true -> In x0 es.
Proof.
  intros HInv HK Hje Hkj (k & Hkin & Hb) r G x0 HD Hn Hc Hp.
  assert (Hpk : par k = Some j) by now apply (wh_children c W).
  assert (HLk : Low k) by (apply (Low_down j k (Low_D r G j HD)); now apply anc_parent).
  destruct Hb as [Hke|Hs]; [|exfalso; exact (E4 k Hs HLk)].
  destruct (pseudo k) eqn:Hpsk.
  - destruct (k_pseudo _ _ _ HK k Hke Hpsk) as (q & _ & _ & A1 & A2 & _). rewrite Hpk in A1. injection A1 as <-.
    rewrite Hc in A2. injection A2 as ->. exact Hke.
  - exfalso. destruct (k_sound _ _ _ HK k Hke Hpsk HLk) as (r' & G' & HDk).
    destruct (D_inv c B r' G' k HDk) as (p & Hp' & C). unfold par in Hpk. rewrite Hpk in Hp'. injection Hp' as <-.
    destruct C as [(Hb & E & _)|[(_ & Hk')|[(HDj & _ & Ho)|(r1 & G1 & HDj & _ & _ & E1' & E2' & _)]]].
    + subst r'. exact (root_not_entered c W B HB2 j G' r G Hb HD).
    + unfold kd in Hkj. congruence.
    + destruct (D_unique c W B HB2 j r' G' r G HDj HD) as [-> ->].
      destruct (onp_below c j k G Hpk Ho) as (g & Hg & Ha). exact (Hn g Hg Ha).
    + subst r' G'. destruct (k_root _ _ _ HK j (itg j) k HDk Hke) as [Hb|Hlt]; [|lia].
      exact (root_not_entered c W B HB2 j (itg j) r G Hb HD).
Qed.

Lemma unblocked_ctx j es ts : HI j es -> KInv j es ts -> In j es -> kd j = FCompound -> ~ blocked es j ->
  exists r G, Dr r G j /\ NTG j G.
Proof.
  intros HInv HK Hje Hkj Hnb.
  assert (HL : Low j).
  { destruct (HLdec j) as [H|H]; [exact H|]. exfalso. apply Hnb.
    destruct (E6 j (hi_Q _ _ _ _ _ _ _ HInv j Hje) Hkj H) as (k & Hkin & [Hk0|Hs]); exists k; (split; [exact Hkin|]); [left | now right].
    exact (hi_base _ _ _ _ _ _ _ HInv k Hk0 (E3 k Hk0)). }
  destruct (k_sound _ _ _ HK j Hje (compound_not_pseudo c j Hkj) HL) as (r & G & HD). exists r, G. split; [exact HD|].
  intros g Hg Ha. apply Hnb. destruct (hanc_child_on_path c j g Ha) as (k & Hpk & Hon). exists k.
  split; [now apply (wh_children c W)|]. left. apply (k_ctx _ _ _ HK r G j HD Hje). split.
  - eapply anc_step; [exact Hpk | exact (D_below c B r G j HD)].
  - exists g. auto.
Qed.


(* ---- one step of the loop ---- *)

Lemma KInv_step j es ts : j < n -> HI j es -> KInv j es ts ->
  KInv (S j) (fst (descend_one lg_fixed c cfg exitset hist (es, ts) j)) (snd (descend_one lg_fixed c cfg exitset hist (es, ts) j)).
Proof.
  intros Hj HInv HK. unfold descend_one. destruct (mem j es) eqn:Hm; cbn [negb].
  2: { cbn [fst snd]. apply mem_false_In in Hm. apply (KInv_keep j es ts HK); intros H; contradiction. }
  apply mem_In in Hm.
  destruct (fs_type (st c j)) eqn:Hk.
  - (* atomic *) cbn [fst snd]. apply (KInv_keep j es ts HK).
    + intros _. unfold pseudoS, kd. rewrite Hk. split; [reflexivity | discriminate].
    + intros _ E. unfold kd in E. congruence.
  - (* compound *)
    fold (ch j). destruct (existsb _ (ch j)) eqn:Hb.
    + cbn [fst snd]. apply (existsb_hblocked c) in Hb. apply (KInv_keep j es ts HK).
      * intros _. unfold pseudoS, kd. rewrite Hk. split; [reflexivity | discriminate].
      * intros _ _. exact (blocked_default j es ts HInv HK Hm Hk Hb).
    + assert (Hnb : ~ blocked es j) by (intros Hbl; apply (existsb_hblocked c) in Hbl; unfold ch in Hb; rewrite Hb in Hbl; discriminate).
      cbn [fst snd]. destruct (wh_compound c W j Hk) as [Hne Hbelow]. fold (cpl j) in *.
      destruct (unblocked_ctx j es ts HInv HK Hm Hk Hnb) as (r & G & HD & Hn).
      assert (Hes : forall x, In x (fold_left (fun a cm => if mem cm (ch j) then a else set_union a (fs_ancestors (st c cm)))
                                       (cpl j) (set_union es (cpl j))) <-> In x es \/ IC j (cpl j) x).
      { intros x. rewrite (In_fold_cond_union c), In_set_union.
        rewrite <- (full_closed_IC c es j (cpl j) x (hi_closed _ _ _ _ _ _ _ HInv) Hm Hne Hbelow). split.
        - intros [[H|H]|(g & Hg & Hp & Hx)]; [tauto | right; exists x; split; [exact H | now left]|].
          right. exists g. split; [exact Hg|]. right. now apply (wh_anc c W).
        - intros [H|(g & Hg & [->|Ha])]; [tauto | tauto|].
          destruct (mem g (ch j)) eqn:Hgc.
          + left. left. apply mem_In, (wh_children c W) in Hgc.
            destruct (anc_child par _ _ _ Hgc Ha) as [->|Hxj]; [exact Hm | exact (closed_anc c (fun y => In y es) j x (hi_closed _ _ _ _ _ _ _ HInv) Hm Hxj)].
          + right. exists g. split; [exact Hg|]. split; [exact Hgc|]. now apply (wh_anc c W). }
      assert (Hgt : forall x, IC j (cpl j) x -> j < x) by (intros x [Hjx _]; now destruct (hanc_lt c W _ _ Hjx)).
      destruct (initial_of_snd c W HcplOK j Hk) as [(x0 & ti & Hc & Hkx & Hpx & Htr & _ & Hitg)|(Hprop & _ & Hitg)].
      * (* the completion is the <initial> child *)
        fold (cpl j) in Hc.
        assert (Hnew : forall x, IC j (cpl j) x <-> x = x0).
        { intros x. rewrite Hc. rewrite (IC_children c W j [x0] x); [cbn; intuition|]. intros g [<-|[]]. exact Hpx. }
        assert (Hpsx : pseudo x0 = true) by (unfold pseudoS; fold (kd x0); unfold kd in *; now rewrite Hkx).
        apply (KInv_grow j es ts _ ts (IC j (cpl j)) HK Hes Hgt).
        -- intros x Hx Hp. apply Hnew in Hx. subst x. congruence.
        -- intros x Hx r' G' HD'. apply Hnew in Hx. subst x.
           pose proof (D_proper c W HcplOK HcplAnti HtgAnti B HB1 r' G' x0 HD'). congruence.
        -- intros x Hx _. apply Hnew in Hx. subst x. exists j, r, G. fold (cpl j). auto 10.
        -- intros _ Hp. unfold pseudoS in Hp. fold (kd j) in Hp. unfold kd in *. rewrite Hk in Hp. discriminate.
        -- intros _ _ r' G' x1 _ _ Hc' _. rewrite Hc in Hc'. injection Hc' as <-. apply Hes. right. now apply Hnew.
        -- intros ti'. split; [tauto|]. intros [H|(_ & E & _)]; [exact H|]. unfold kd in E. congruence.
      * (* the completion as written *)
        fold (cpl j) in Hprop, Hitg.
        assert (HDnew : forall x, IC j (cpl j) x -> Dr j (itg j) x).
        { intros x Hx. apply (D_IC_default c B r G j x HD Hk Hn). now rewrite Hitg. }
        apply (KInv_grow j es ts _ ts (IC j (cpl j)) HK Hes Hgt).
        -- intros x Hx _ _. exists j, (itg j). now apply HDnew.
        -- intros x Hx r' G' HD'. destruct (D_unique c W B HB2 x r' G' j (itg j) HD' (HDnew x Hx)) as [-> ->].
           split; [|right; lia]. intros y Hy. apply Hes. right. now rewrite <- Hitg.
        -- intros x Hx Hp. pose proof (D_proper c W HcplOK HcplAnti HtgAnti B HB1 _ _ x (HDnew x Hx)). congruence.
        -- intros _ Hp. unfold pseudoS in Hp. fold (kd j) in Hp. unfold kd in *. rewrite Hk in Hp. discriminate.
        -- intros _ _ r' G' x1 _ _ Hc' Hp1. rewrite (Hprop x1) in Hp1; [discriminate | rewrite Hc'; now left].
        -- intros ti'. split; [tauto|]. intros [H|(_ & E & _)]; [exact H|]. unfold kd in E. congruence.
  - (* parallel *)
    cbn [fst snd].
    assert (Hes : forall x, In x (set_union es (fs_completion (st c j))) <-> In x es \/ par x = Some j).
    { intros x. rewrite In_set_union, (wh_parallel c W j x Hk), (wh_children c W). tauto. }
    assert (Hinv : forall k r' G', par k = Some j -> Dr r' G' k -> Dr r' G' j).
    { intros k r' G' Hpk HDk. destruct (D_inv c B r' G' k HDk) as (p & Hp' & C). unfold par in Hpk. rewrite Hpk in Hp'. injection Hp' as <-.
      destruct C as [(Hb & E & _)|[(HDj & _)|[(_ & Hk' & _)|(r1 & G1 & _ & Hk' & _)]]]; [|exact HDj|congruence|congruence].
      subst r'. pose proof (gc_kind c j G' (HB1 j G' Hb)). congruence. }
    apply (KInv_grow j es ts _ ts (fun x => par x = Some j) HK Hes).
    + intros x Hx. now destruct (wh_par_lt c W _ _ Hx).
    + intros x Hx Hp HL. pose proof (Low_up_par j x Hk Hx HL) as HLj.
      assert (Hpj : pseudo j = false) by (unfold pseudoS, kd; now rewrite Hk).
      destruct (k_sound _ _ _ HK j Hm Hpj HLj) as (r & G & HD). exists r, G. exact (D_par c B r G j x HD Hk Hx).
    + intros x Hx r' G' HD'. pose proof (Hinv x r' G' Hx HD') as HDj. split.
      * intros y Hy. apply Hes. left. exact (k_ctx _ _ _ HK r' G' j HDj Hm y Hy).
      * destruct (k_root _ _ _ HK r' G' j HDj Hm) as [H|H]; [now left | right; lia].
    + intros x Hx Hp. exfalso. destruct (wh_pseudo_parent c W x Hp) as (q & Hq & Hkq). fold (par x) in Hq. rewrite Hx in Hq. injection Hq as <-. congruence.
    + intros _ Hp. unfold pseudoS, kd in Hp. rewrite Hk in Hp. discriminate.
    + intros _ E. unfold kd in E. congruence.
    + intros ti'. split; [tauto|]. intros [H|(_ & E & _)]; [exact H|]. unfold kd in E. congruence.
  - (* final *) cbn [fst snd]. apply (KInv_keep j es ts HK).
    + intros _. unfold pseudoS, kd. rewrite Hk. split; [reflexivity | discriminate].
    + intros _ E. unfold kd in E. congruence.
  - exfalso. pose proof (Hnh j) as H. unfold histS in H. rewrite Hk in H. discriminate.
  - exfalso. pose proof (Hnh j) as H. unfold histS in H. rewrite Hk in H. discriminate.
  - (* initial *)
    assert (Hps : pseudo j = true) by (unfold pseudoS, kd; now rewrite Hk).
    destruct (k_pseudo _ _ _ HK j Hm Hps) as (q & r & G & Hpq & Hcq & _ & HD & Hn & Hkq & _).
    destruct (wh_initial c W j q Hk Hpq) as (ti & Htr & Htne & Htg). rewrite Htr. cbn [fold_left fst snd].
    assert (Hbelow : forall g, In g (ft_targets (tr c ti)) -> Anc q g) by (intros g Hg; now destruct (Htg g Hg) as (H & _)).
    assert (Hqe : In q es) by exact (hi_closed _ _ _ _ _ _ _ HInv j q Hm Hpq).
    assert (Hitg : itg q = ft_targets (tr c ti)).
    { unfold RunConformInitialBase.itg. rewrite (initial_of_elem c q j ti Hcq Hk Htr). reflexivity. }
    assert (Hes : forall x, In x (fold_left (fun e x0 => set_union (insert_sorted x0 e) (fs_ancestors (st c x0))) (ft_targets (tr c ti)) es)
                            <-> In x es \/ IC q (itg q) x).
    { intros x. rewrite Hitg, (In_fold_ins_union c).
      rewrite <- (full_closed_IC c es q _ x (hi_closed _ _ _ _ _ _ _ HInv) Hqe Htne Hbelow). split.
      - intros [H|(g & Hg & [->|Hx])]; [tauto | right; exists g; split; [exact Hg | now left]|].
        right. exists g. split; [exact Hg|]. right. now apply (wh_anc c W).
      - intros [H|(g & Hg & [->|Ha])]; [tauto | right; exists g; tauto|]. right. exists g. split; [exact Hg|]. right. now apply (wh_anc c W). }
    assert (HDnew : forall x, IC q (itg q) x -> Dr q (itg q) x) by (intros x Hx; exact (D_IC_default c B r G q x HD Hkq Hn Hx)).
    destruct (wh_par_lt c W _ _ Hpq) as [Hqj _].
    apply (KInv_grow j es ts _ (insert_sorted ti ts) (IC q (itg q)) HK Hes).
    + intros x [Hqx (g & Hg & Hon)]. rewrite Hitg in Hg. destruct (Htg g Hg) as (_ & A & _).
      exact (inner_gt_leaf c W q j x g Hpq Hps Hqx Hon A).
    + intros x Hx _ _. exists q, (itg q). now apply HDnew.
    + intros x Hx r' G' HD'. destruct (D_unique c W B HB2 x r' G' q (itg q) HD' (HDnew x Hx)) as [-> ->].
      split; [|right; lia]. intros y Hy. apply Hes. now right.
    + intros x Hx Hp. pose proof (D_proper c W HcplOK HcplAnti HtgAnti B HB1 _ _ x (HDnew x Hx)). congruence.
    + intros _ _ q' Hq' y Hy. rewrite Hpq in Hq'. injection Hq' as <-. apply Hes. now right.
    + intros _ E. unfold kd in E. congruence.
    + intros ti'. rewrite In_insert_sorted'. rewrite Htr. cbn [In]. split.
      * intros [->|H]; [right; auto | now left].
      * intros [H|(_ & _ & [<-|[]])]; [now right | now left].
Qed.

Definition Efin : list nat := fst (entry_set lg_fixed c cfg exitset hist tg ts0).
Definition Tfin : list nat := snd (entry_set lg_fixed c cfg exitset hist tg ts0).

Lemma inv_fin : HI n Efin /\ KInv n Efin Tfin.
Proof.
  unfold Efin, Tfin, entry_set.
  pose proof (fold_seq_inv c (descend_one lg_fixed c cfg exitset hist)
                           (fun j acc => HI j (fst acc) /\ KInv j (fst acc) (snd acc)) n 0 (E0, ts0)) as H.
  cbn [Nat.add] in H. apply H.
  - split; [exact (HInv_0 c W cfg exitset tg tg_bound HE0_uniq Q Q0) | exact KInv_0].
  - intros j [es ts] _ Hj [HI0 HK0]. cbn [fst snd] in HI0, HK0. split.
    + exact (HInv_step c W cfg exitset hist tg HH Q Qpar Qcomp Qpseudo j es ts Hj HI0).
    + exact (KInv_step j es ts Hj HI0 HK0).
Qed.

(* ---- the result ---- *)

Theorem engine_sound x : In x Efin -> pseudo x = false -> Low x -> exists r G, Dr r G x.
Proof. exact (k_sound _ _ _ (proj2 inv_fin) x). Qed.

Theorem engine_complete r G x : Dr r G x -> In x Efin.
Proof.
  destruct inv_fin as [HF KF].
  induction 1 as [r G k Hb Hp Ho|r G p k HD IH Hk Hp|r G p k HD IH Hk Hp Ho|r G p k HD IH Hk Hn Hp Ho].
  - assert (Hic : IC r G k) by (destruct Ho as (g & Hg & Hon); split; [now apply anc_parent | exists g; auto]).
    apply (hi_base _ _ _ _ _ _ _ HF); [exact (E1 r G k Hb Hic) | exact (E3 k (E1 r G k Hb Hic))].
  - apply (hgE2 c cfg exitset tg Q Efin HF p k IH Hk). now apply (wh_children c W).
  - apply (k_ctx _ _ _ KF r G p HD IH). destruct Ho as (g & Hg & Hon).
    split; [eapply anc_step; [exact Hp | exact (D_below c B r G p HD)] | exists g; auto].
  - destruct (hgE3 c cfg exitset tg Q Efin HF p IH Hk) as (k' & Hpk' & [Hs|[Hke Hps]]).
    { exfalso. apply (E4 k' Hs). apply (Low_down p k' (Low_D r G p HD)). now apply anc_parent. }
    assert (HLk : Low k') by (apply (Low_down p k' (Low_D r G p HD)); now apply anc_parent).
    destruct (k_sound _ _ _ KF k' Hke Hps HLk) as (r' & G' & HDk).
    assert (E : r' = p /\ G' = itg p).
    { destruct (D_inv c B r' G' k' HDk) as (p' & Hp' & C). rewrite Hpk' in Hp'. injection Hp' as <-.
      destruct C as [(Hb & E & _)|[(_ & Hk')|[(HDp & _ & Ho')|(r1 & G1 & _ & _ & _ & E1' & E2' & _)]]]; [| |exfalso|auto].
      - exfalso. subst r'. exact (root_not_entered c W B HB2 p G' r G Hb HD).
      - exfalso. congruence.
      - destruct (D_unique c W B HB2 p r' G' r G HDp HD) as [-> ->].
        destruct (onp_below c p k' G Hpk' Ho') as (g & Hg & Ha). exact (Hn g Hg Ha). }
    destruct E as [-> ->]. apply (k_ctx _ _ _ KF p (itg p) k' HDk Hke). destruct Ho as (g & Hg & Hon).
    split; [now apply anc_parent | exists g; auto].
Qed.

(* the <initial> pseudo-states in the entry set *)
Theorem engine_pseudo x : In x Efin /\ pseudo x = true <->
  exists q r G, par x = Some q /\ cpl q = [x] /\ kd x = FInitial /\ Dr r G q /\ NTG q G /\ kd q = FCompound.
Proof.
  destruct inv_fin as [HF KF]. split.
  - intros [Hx Hp]. destruct (k_pseudo _ _ _ KF x Hx Hp) as (q & r & G & A1 & A2 & A3 & A4 & A5 & A6 & _). exists q, r, G. auto 8.
  - intros (q & r & G & A1 & A2 & A3 & A4 & A5 & A6).
    assert (Hp : pseudo x = true) by (unfold pseudoS; fold (kd x); now rewrite A3).
    split; [|exact Hp]. apply (k_dflt _ _ _ KF q r G x); auto. exact (D_lt c W B r G q A4). exact (engine_complete r G q A4).
Qed.

Theorem engine_ts ti : In ti Tfin <-> In ti ts0 \/ exists x, In x Efin /\ kd x = FInitial /\ In ti (fs_trans (st c x)).
Proof.
  destruct inv_fin as [HF KF]. rewrite (k_ts _ _ _ KF ti). split.
  - intros [H|(x & _ & A)]; [now left | right; exists x; exact A].
  - intros [H|(x & Hx & A)]; [now left | right; exists x; split; [exact (hi_bound _ _ _ _ _ _ _ HF x Hx) | auto]].
Qed.

End IEngine.
