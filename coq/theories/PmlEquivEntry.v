(* PmlEquivEntry.v -- C06: ESTABLISH_ENTRY_SET of the emitted step process (PmlStep.p_entry_set: ancestor closure,
   then the loop "iterate for descendants" with `children` = direct children) computes the entry set of
   FastMicroStep (Fast.fentry_set, where `children` holds ALL descendants), on the history-free core
   (wf_coreb c = true), for EVERY variant of the template: in the core the completion of a compound state is one
   direct child, whose ancestors are in the entry set already, so neither the un-negated test nor the guarded
   variant of "deep completion" changes the set.
   The two tests "a child is in the entry set / in the configuration / in the exit set" (direct children against
   all descendants) agree because the entry set and the configuration are closed under ancestors and an exited
   state lies below a state of the entry set (the transition's domain) all of whose active descendants are exited;
   these are hypotheses here and are discharged for the sets of a microstep in PmlEquivMicro.v.  Proofs only. *)
From V Require Import Base NameMatch Chart Exec Large Legal SetLemmas LegalAbstract LegalLarge WfCore Fast Trie PmlStep
                      SerializeCodecLemmas PmlEquivBase PmlEquivCore.
From Coq Require Import Sorted.
Local Open Scope nat_scope.

Section Entry.
Variable pv : pml_variant.
Variable c : fchart.
Hypothesis H : wf_coreb c = true.
Let W : WF c := wf_coreb_sound c H.
Notation n := (nstates c).
Notation Anc := (LegalAbstract.Anc (fun i => fs_parent (st c i))).

Variable cfg exitset hist targets : list nat.
Hypothesis Htg_sorted : ssorted targets.
Hypothesis Htg_bound : forall g, In g targets -> g < n.
Hypothesis Hcfg_bound : forall x, In x cfg -> x < n.
Hypothesis Hcfg_closed : forall x a, In x cfg -> Anc a x -> In a cfg.
Hypothesis Hexit : forall x, In x exitset ->
  In x cfg /\ exists d, In d (add_ancestors c targets) /\ Anc d x /\ forall y, In y cfg -> Anc d y -> In y exitset.

Record es_inv (es : list nat) : Prop := {
  ei_sorted : ssorted es;
  ei_bound : forall x, In x es -> x < n;
  ei_closed : forall x a, In x es -> Anc a x -> In a es;
  ei_base : forall x, In x (add_ancestors c targets) -> In x es
}.

Lemma es_inv_0 : es_inv (add_ancestors c targets).
Proof.
  constructor.
  - now apply add_ancestors_sorted.
  - intros x Hx. apply (In_add_ancestors c H) in Hx as [Hx|(g & Hg & Ha)]; [now apply Htg_bound|].
    apply (anc_below c H) in Ha. lia.
  - intros x a Hx Ha. apply (In_add_ancestors c H). apply (In_add_ancestors c H) in Hx as [Hx|(g & Hg & Hxg)].
    + right. now exists x.
    + right. exists g. split; [exact Hg|]. eapply anc_trans; eauto.
  - auto.
Qed.

(* the three tests of the compound case *)
Lemma compound_tests es i : es_inv es -> fs_type (st c i) = FCompound ->
  negb (intersects es (fs_children (st c i))) &&
    (negb (intersects cfg (fs_children (st c i))) || intersects exitset (fs_children (st c i))) =
  negb (intersects es (desc c i)) && (negb (intersects cfg (desc c i)) || intersects exitset (desc c i)).
Proof.
  intros [_ Eb Ec E0] Ht. pose proof (compound_lt c i Ht) as Hi.
  rewrite (meets_children_desc c H es i Hi Eb Ec), (meets_children_desc c H cfg i Hi Hcfg_bound Hcfg_closed).
  destruct (intersects es (desc c i)) eqn:A; [reflexivity|]. cbn [negb andb].
  destruct (intersects cfg (desc c i)) eqn:B; [|reflexivity]. cbn [negb orb].
  apply Bool.eq_iff_eq_true. rewrite !intersects_spec. split.
  - intros (x & Hx & Hc). exists x. split; [exact Hx|]. apply (In_desc c H); [exact Hi| |].
    + apply Hcfg_bound. now apply Hexit.
    + apply anc_parent. now apply (In_children c H).
  - intros (x & Hx & Hd). destruct (Hexit x Hx) as (Hxc & d & Hd0 & Hdx & Hall).
    apply (In_desc c H) in Hd; [|exact Hi|now apply Hcfg_bound].
    assert (Hnot : ~ Anc i d).
    { intros Hid. rewrite intersects_false in A. apply (A d); [now apply E0|].
      apply (In_desc c H); [exact Hi| |exact Hid]. apply (anc_below c H) in Hdx. lia. }
    destruct (child_towards c i x Hd) as (k & Hk & Hkx).
    exists k. split; [|now apply (In_children c H)].
    assert (Hkc : In k cfg) by (destruct Hkx as [->|Hkx]; [exact Hxc | now apply (Hcfg_closed x)]).
    apply Hall; [exact Hkc|].
    destruct (anc_chain c _ _ _ Hdx Hd) as [->|[Hdi|Hid]]; [now apply anc_parent | | contradiction].
    eapply anc_step; eauto.
Qed.

(* in the core the ancestors of a compound state's completion are in the entry set already *)
Lemma completion_ancestors_known es i : es_inv es -> In i es -> fs_type (st c i) = FCompound ->
  exists k, fs_completion (st c i) = [k] /\ fs_parent (st c k) = Some i /\ i < k /\ k < n /\
            forall a, In a (fs_ancestors (st c k)) -> In a es.
Proof.
  intros [_ _ Ec _] Hi Ht. destruct (compound_spec c H i Ht) as (k & Ek & Hk).
  apply (In_children c H) in Hk. destruct (par_lt c H _ _ Hk) as [L1 L2].
  exists k. repeat split; try assumption. intros a Ha. apply (In_anc c H) in Ha.
  destruct (anc_of_parent c k i a Hk Ha) as [->|Hai]; [exact Hi | now apply (Ec i)].
Qed.

Lemma same_members_union es k l : ssorted es -> ssorted l ->
  (forall x, In x l <-> In x (set_union es [k])) -> l = set_union es [k].
Proof. intros Hs Hl E. apply ssorted_ext; [exact Hl | now apply set_union_ssorted | exact E]. Qed.

(* one visit of the loop "iterate for descendants" *)
Lemma descend_core es ts s i : es_inv es ->
  p_descend_one pv c cfg exitset hist (es, ts, s) i =
    (fst (fdescend_one c cfg exitset hist (es, ts) i), snd (fdescend_one c cfg exitset hist (es, ts) i), s) /\
  es_inv (fst (fdescend_one c cfg exitset hist (es, ts) i)).
Proof.
  intros I. unfold p_descend_one, fdescend_one.
  destruct (mem i es) eqn:M; cbn [negb]; [|split; [reflexivity|exact I]].
  apply mem_true_In in M.
  destruct (wf_types c W i) as [E|[E|[E|E]]]; rewrite E.
  - split; [reflexivity|exact I].
  - (* compound *)
    rewrite (compound_tests es i I E).
    destruct (negb (intersects es (desc c i)) && _); [|split; [reflexivity|exact I]].
    destruct (completion_ancestors_known es i I M E) as (k & Ek & Hk & L1 & L2 & Hanc).
    destruct I as [Es Eb Ec E0]. rewrite Ek.
    assert (Hf : fold_left (fun a j => if i <? j then set_union a (fs_ancestors (st c j)) else a) [k] (set_union es [k])
                 = set_union es [k]).
    { apply same_members_union; [exact Es| |].
      - apply (fold_cond_union_ssorted (fun j => i <? j)). now apply set_union_ssorted.
      - intros x. rewrite (In_fold_cond_union (fun j => i <? j)). split; [|now left].
        intros [Hx|(j & [<-|[]] & _ & Hx)]; [exact Hx|]. apply In_set_union. left. now apply Hanc. }
    rewrite Hf. cbn [fst snd].
    assert (Inv' : es_inv (set_union es [k])).
    { constructor.
      - now apply set_union_ssorted.
      - intros x Hx. apply In_set_union in Hx as [Hx|[<-|[]]]; [now apply Eb|exact L2].
      - intros x a Hx Ha. apply In_set_union. left. apply In_set_union in Hx as [Hx|[<-|[]]]; [now apply (Ec x)|].
        apply Hanc. now apply (In_anc c H).
      - intros x Hx. apply In_set_union. left. now apply E0. }
    split; [|exact Inv'].
    assert (Hp : forall l, ssorted l -> (forall x, In x l <-> In x (set_union es [k])) ->
                 (l, ts, s) = (set_union es [k], ts, s)).
    { intros l Hl Hm. f_equal. f_equal. now apply same_members_union. }
    assert (Hk_anc : forall x j, In j [k] -> In x (fs_ancestors (st c j)) -> In x (set_union es [k])).
    { intros x j [<-|[]] Hx. apply In_set_union. left. now apply Hanc. }
    destruct (pv_deep_unnegated pv).
    + destruct (intersects [k] (fs_children (st c i))); [|reflexivity].
      destruct (filter (fun j => mem j [k]) (seq (i + 2) (pn c - (i + 2)))) as [|j r] eqn:F; [reflexivity|].
      assert (Hj : In j [k]).
      { assert (Hin : In j (filter (fun j => mem j [k]) (seq (i + 2) (pn c - (i + 2))))) by (rewrite F; now left).
        apply filter_In in Hin as [_ Hin]. now apply mem_true_In. }
      apply Hp.
      * apply set_union_ssorted. now apply set_union_ssorted.
      * intros x. rewrite In_set_union. split; [|now left]. intros [Hx|Hx]; [exact Hx | now apply (Hk_anc x j)].
    + destruct (negb (pv_completion_guarded pv) || negb (intersects [k] (fs_children (st c i)))); [|reflexivity].
      apply Hp.
      * apply (fold_cond_union_ssorted (fun j => mem j [k])). now apply set_union_ssorted.
      * intros x. rewrite (In_fold_cond_union (fun j => mem j [k])). split; [|now left].
        intros [Hx|(j & _ & Hj & Hx)]; [exact Hx|]. apply (Hk_anc x j); [now apply mem_true_In | exact Hx].
  - (* parallel *)
    cbn [fst snd]. split; [reflexivity|]. destruct I as [Es Eb Ec E0]. constructor.
    + now apply set_union_ssorted.
    + intros x Hx. apply In_set_union in Hx as [Hx|Hx]; [now apply Eb|].
      apply (parallel_spec c H i x E), (In_children c H) in Hx. now destruct (par_lt c H _ _ Hx).
    + intros x a Hx Ha. apply In_set_union. left. apply In_set_union in Hx as [Hx|Hx]; [now apply (Ec x)|].
      apply (parallel_spec c H i x E), (In_children c H) in Hx.
      destruct (anc_of_parent c x i a Hx Ha) as [->|Hai]; [exact M | now apply (Ec i)].
    + intros x Hx. apply In_set_union. left. now apply E0.
  - split; [reflexivity|exact I].
Qed.

Lemma descend_fold l : forall es ts s, es_inv es ->
  fold_left (p_descend_one pv c cfg exitset hist) l (es, ts, s) =
    (fst (fold_left (fdescend_one c cfg exitset hist) l (es, ts)),
     snd (fold_left (fdescend_one c cfg exitset hist) l (es, ts)), s) /\
  es_inv (fst (fold_left (fdescend_one c cfg exitset hist) l (es, ts))).
Proof.
  induction l as [|i r IH]; intros es ts s I; cbn [fold_left]; [split; [reflexivity|exact I]|].
  destruct (descend_core es ts s i I) as [E I'].
  rewrite E. destruct (fdescend_one c cfg exitset hist (es, ts) i) as [es' ts']. cbn [fst snd] in *.
  now apply IH.
Qed.

Theorem pml_entry_set_lemma ts s :
  p_entry_set pv c cfg exitset hist targets ts s =
    (fst (fentry_set c cfg exitset hist targets ts), snd (fentry_set c cfg exitset hist targets ts),
     out (PEntrySet (fst (fentry_set c cfg exitset hist targets ts))) s) /\
  es_inv (fst (fentry_set c cfg exitset hist targets ts)).
Proof.
  unfold p_entry_set, fentry_set, pn, fn.
  rewrite (p_anc_close_eq c H targets Htg_sorted Htg_bound).
  destruct (descend_fold (seq 0 n) (add_ancestors c targets) ts s es_inv_0) as [E I].
  rewrite E. split; [reflexivity|exact I].
Qed.

(* in the core no history or initial transition is added to the transition set *)
Lemma fdescend_ts es ts i : snd (fdescend_one c cfg exitset hist (es, ts) i) = ts.
Proof.
  unfold fdescend_one. destruct (negb (mem i es)); [reflexivity|].
  destruct (wf_types c W i) as [E|[E|[E|E]]]; rewrite E; try reflexivity.
  destruct (_ && _); reflexivity.
Qed.

Lemma fentry_set_ts ts : snd (fentry_set c cfg exitset hist targets ts) = ts.
Proof.
  unfold fentry_set. generalize (add_ancestors c targets). generalize (seq 0 (fn c)).
  induction l as [|i r IH]; intros es; cbn [fold_left]; [reflexivity|].
  pose proof (fdescend_ts es ts i) as E. destruct (fdescend_one c cfg exitset hist (es, ts) i) as [es' ts']. cbn [snd] in E.
  subst ts'. apply IH.
Qed.

End Entry.
