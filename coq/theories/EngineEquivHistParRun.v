(* EngineEquivHistParRun.v -- C03 with <history> directly below <parallel> (wf_histpb): SELECT_TRANSITIONS, step()
   and whole runs of FastMicroStep against LargeMicroStep.  EngineEquivHistRun.v re-proved from WFHP.  The dynamic
   guards are THE SAME functions (sel_guardb, ms_guardb_hist, step_guardb_hist, eq_guard_run_hist of
   EngineEquivHistRun.v): they never looked at pseudo-states; only the static condition changes
   (eq_chartb_histp: wf_histpb instead of wf_histb).  Definitions and proofs. *)
From V Require Import Base NameMatch Chart Exec Large LargeLemmas Fast Interp Legal SetLemmas LegalAbstract LegalLarge
  LegalRun WfCore LegalOracle LargeCacheLemmas SelectConform SelectConformLemmas MicroConform MicroConformLemmas
  LegalHistBase LegalHistEntry LegalHistStep LegalHistRun LegalHistWf LegalHistFast LegalHistFastRun
  LegalHistParBase LegalHistParEntry LegalHistParStep LegalHistParRun LegalHistParWf LegalHistParFast LegalHistParFastRun
  EngineEquivBase EngineEquivDone EngineEquivStep EngineEquivSelect EngineEquivRun
  EngineEquivHistEntry EngineEquivHistDone EngineEquivHistEnter EngineEquivHistMicro EngineEquivHistRun
  EngineEquivHistParEntry EngineEquivHistParDone EngineEquivHistParEnter EngineEquivHistParMicro.
Local Open Scope nat_scope.

(* ------------------------------------------------------------------ SELECT_TRANSITIONS (EngineEquivSelect.v on WFHP) *)

Section SelectP.
Variable c : fchart.
Hypothesis W : WFHP c.
Variable cfg : list nat.
Variable ev : option event.
Notation Anc := (LegalAbstract.Anc (fun i => fs_parent (st c i))).

Definition hpskip_ok (skip : option nat) (sel : list nat) : Prop :=
  match skip with
  | Some cur => exists si, In si sel /\ (ft_source (tr c si) = cur \/ Anc cur (ft_source (tr c si)))
  | None => True
  end.

Lemma ehps_select_sim : forall order skip sel x,
  NoDup order -> (forall s, In s order -> In s cfg) ->
  (forall si s, In si sel -> In s order -> ft_source (tr c si) <> s) ->
  (forall si tj, In si sel -> In tj (cands c order) -> si < tj) ->
  ssorted (cands c order) ->
  hpskip_ok skip sel ->
  sel_guardb c cfg ev order skip sel x = true ->
  fselect c cfg ev (cands c order) sel x = select_loop lg_fixed c cfg ev order skip sel x.
Proof.
  induction order as [|s r IH]; intros skip sel x Hnd Hin Hsrc Hlt Hso Hskip Hg; [reflexivity|].
  inversion Hnd as [|? ? Hns Hnd']; subst.
  unfold cands in *. cbn [flat_map] in *. fold (cands c r) in *. cbn [select_loop]. cbn [sel_guardb] in Hg.
  apply ee_ssorted_app_inv in Hso as (So1 & So2 & So3).
  assert (Hs : In s cfg) by (apply Hin; now left).
  assert (Hblock : forall ti, In ti (block_of c s) -> ft_source (tr c ti) = s) by (intros ti Hti; exact (whp_tr_src c W s ti Hti)).
  assert (Hin' : forall z, In z r -> In z cfg) by (intros z Hz; apply Hin; now right).
  assert (Hsrc' : forall si z, In si sel -> In z r -> ft_source (tr c si) <> z) by (intros si z Hsi Hz; apply Hsrc; [exact Hsi | now right]).
  assert (Hlt' : forall si tj, In si sel -> In tj (cands c r) -> si < tj).
  { intros si tj Hsi Htj. apply Hlt; [exact Hsi|]. apply in_app_iff. now right. }
  (* a selected transition whose source lies below s rules out the whole block in the fast engine *)
  assert (Hanc_rej : forall si, In si sel -> anc_related c (ft_source (tr c si)) s = true ->
                     forall ti, In ti (block_of c s) -> frej c cfg ev sel ti = true).
  { intros si Hsi Hrel ti Hti. unfold frej. cbn zeta.
    replace (existsb (fun sj => fconflicts c (tr c sj) (tr c ti)) sel) with true; [now rewrite !orb_true_r|].
    symmetry. apply existsb_exists. exists si. split; [exact Hsi|]. unfold fconflicts. rewrite (Hblock ti Hti).
    unfold anc_related in Hrel. apply orb_true_iff in Hrel as [R|R]; rewrite R; now rewrite ?orb_true_r. }
  destruct (match skip with
            | Some cur => match fs_parent (st c cur) with Some p => p =? s | None => false end
            | None => false end) eqn:Hsk.
  - (* the large engine skips s as the parent of the state before *)
    destruct skip as [cur|]; [|discriminate].
    destruct (fs_parent (st c cur)) as [p|] eqn:Hp; [|discriminate]. apply Nat.eqb_eq in Hsk. subst p.
    destruct Hskip as (si & Hsi & Hrel).
    assert (Ha : Anc s (ft_source (tr c si))).
    { destruct Hrel as [->|Hrel]; [now apply anc_parent | eapply (hanc_trans_p c); [apply anc_parent; exact Hp | exact Hrel]]. }
    rewrite ee_fselect_rejected.
    + apply IH; try assumption. exists si. split; [exact Hsi | now right].
    + apply (Hanc_rej si Hsi). unfold anc_related. apply orb_true_iff. left. apply mem_In. now apply (whp_anc c W).
  - apply andb_true_iff in Hg as [G1 G2].
    destruct (existsb (fun si => anc_related c (ft_source (tr c si)) s) sel) eqn:Hrel.
    + (* related to a selected source: nothing of s gets as far as its condition, in either engine *)
      cbn [negb orb] in G1. rewrite forallb_forall in G1.
      rewrite (ee_pick_rejected c cfg ev sel (fs_trans (st c s)) x G1) in *.
      apply existsb_exists in Hrel as (si & Hsi & Hrel).
      rewrite ee_fselect_rejected by (exact (Hanc_rej si Hsi Hrel)).
      apply IH; try assumption. exact I.
    + assert (Hnr : forall si, In si sel -> ft_source (tr c si) <> s /\ anc_related c (ft_source (tr c si)) s = false).
      { intros si Hsi. split; [apply Hsrc; [exact Hsi | now left]|].
        destruct (anc_related c (ft_source (tr c si)) s) eqn:E; [|reflexivity].
        assert (existsb (fun si => anc_related c (ft_source (tr c si)) s) sel = true); [|congruence].
        apply existsb_exists. exists si. tauto. }
      rewrite (ee_block c cfg ev s sel (block_of c s) (cands c r) Hs Hblock Hnr x). unfold block_of in *.
      destruct (pick_trans lg_fixed c cfg ev sel (fs_trans (st c s)) x) as [o x'] eqn:Hpick.
      destruct o as [ti|].
      * apply (pick_trans_sound lg_fixed c) in Hpick as [Hti _].
        assert (Hins : insert_sorted ti sel = sel ++ [ti]).
        { apply sc_insert_sorted_last. intros a Ha. apply Hlt; [exact Ha|]. apply in_app_iff. now left. }
        rewrite Hins in *. apply IH; try assumption.
        -- intros si z Hsi Hz. apply in_app_iff in Hsi as [Hsi|[<-|[]]]; [now apply Hsrc'|].
           rewrite (Hblock ti Hti). intros ->. contradiction.
        -- intros si tj Hsi Htj. apply in_app_iff in Hsi as [Hsi|[<-|[]]]; [now apply Hlt' | now apply So3].
        -- exists ti. split; [apply in_app_iff; right; now left | left; exact (Hblock ti Hti)].
      * apply IH; try assumption. exact I.
Qed.

Lemma ehps_cfg_postfix_in s : In s (cfg_postfix c cfg) -> In s cfg.
Proof. apply cfg_postfix_sub. Qed.

Theorem ehps_select_eq x : NoDup cfg -> cand_okb c cfg = true ->
  sel_guardb c cfg ev (cfg_postfix c cfg) None [] x = true ->
  fselect c cfg ev (seq 0 (ntrans c)) [] x = select_loop lg_fixed c cfg ev (cfg_postfix c cfg) None [] x.
Proof.
  intros Hnd Hc Hg. unfold cand_okb in Hc. apply list_eqb_eq in Hc.
  rewrite ee_fselect_filter, <- Hc. apply ehps_select_sim; try assumption.
  - now apply cfg_postfix_NoDup.
  - exact ehps_cfg_postfix_in.
  - intros si s [].
  - intros si tj [].
  - rewrite Hc. apply ssorted_filter. apply ee_ssorted_seq.
  - exact I.
Qed.


End SelectP.

(* the static side conditions *)
Definition eq_chartb_histp (c : fchart) : bool :=
  wf_histpb c && match fs_type (st c 0) with FCompound => true | _ => false end && ascb (fs_completion (st c 0)) &&
  leaf_okb c && par_nonemptyb c && trans_tableb c.

(* ------------------------------------------------------------------ proofs *)

Section StepsP.
Variable xv : ex_variant.
Variable c : fchart.
Hypothesis Hwf : wf_histpb c = true.
Hypothesis Hroot : fs_type (st c 0) = FCompound.
Hypothesis Hroot_sorted : ssorted (fs_completion (st c 0)).
Hypothesis Hleaf : leaf_okb c = true.
Hypothesis Hpar : par_nonemptyb c = true.
Hypothesis Htab : trans_tableb c = true.
Let W : WFHP c := wf_histpb_sound c Hwf.

(* what is kept along the large engine's run: legal configuration of proper states, usable history record,
   both as ascending lists *)
Definition RunOKP (l : lstate) : Prop := CfgOKH c l /\ ssorted (l_cfg l) /\ ssorted (l_hist l).

Lemma ehp_pristine_ok : RunOKP l_pristine.
Proof. split; [apply pristine_ok_h | split; exact I]. Qed.

Lemma ehp_sas_hist_sorted l x ev : ssorted (l_hist l) -> ssorted (l_hist (fst (fst (select_and_step lg_fixed xv c l x ev)))).
Proof.
  intros Hs. unfold select_and_step. cbn zeta.
  destruct (select_loop lg_fixed c _ ev _ None [] x) as [sel x1]. destruct sel as [|t r]; [exact Hs|].
  match goal with |- context [microstep lg_fixed xv c ?l0 ?x0 ?tg ?ex ?ts false] =>
    pose proof (microstep_hist c xv l0 x0 tg ex ts false) as H; destruct (microstep lg_fixed xv c l0 x0 tg ex ts false) as [l1 x2] end.
  cbn [fst] in *. rewrite H. unfold hist_after. exact (proj2 (eh_remember_eq c _ _ _ Hs)).
Qed.

Lemma ehp_large_step_hist_sorted l x : ssorted (l_hist l) -> ssorted (l_hist (fst (fst (large_step lg_fixed xv c l x)))).
Proof.
  intros Hs. unfold large_step.
  destruct (l_fin l); [exact Hs|]. destruct (l_tlf l); [exact Hs|].
  destruct (is_pristine l).
  { pose proof (microstep_hist c xv l (emit TMsB x) (fs_completion (st c 0)) [] [] true) as H.
    destruct (microstep lg_fixed xv c l (emit TMsB x) (fs_completion (st c 0)) [] [] true) as [l1 x1]. cbn [fst] in *. rewrite H. exact Hs. }
  destruct (l_spont l); [now apply ehp_sas_hist_sorted|].
  destruct (x_iq x) as [|e r].
  - destruct (l_stable l); cbn [negb]; [|exact Hs].
    destruct (x_eq x) as [|e r]; [destruct (l_cancelled l); exact Hs|].
    destruct (ev_name e); [destruct (l_cancelled l); exact Hs | now apply ehp_sas_hist_sorted].
  - destruct (ev_name e); [exact Hs | now apply ehp_sas_hist_sorted].
Qed.

Lemma ehp_large_step_ok l x : RunOKP l -> RunOKP (fst (fst (large_step lg_fixed xv c l x))).
Proof.
  intros (H1 & H2 & H3). split; [exact (large_step_legal_h_p c xv W Hroot l x H1)|].
  split; [exact (large_step_ssorted lg_fixed xv c l x H2) | exact (ehp_large_step_hist_sorted l x H3)].
Qed.

(* selection equality as a hypothesis *)
Lemma ehp_sas_given_selection lf ll x ev :
  lstate_eqv c lf ll -> StOK c ll -> ssorted (l_cfg ll) -> ssorted (l_hist ll) ->
  fselect c (l_cfg ll) ev (seq 0 (ntrans c)) [] x = select_loop lg_fixed c (l_cfg ll) ev (cfg_postfix c (l_cfg ll)) None [] x ->
  (let '(sel, x1) := select_loop lg_fixed c (l_cfg ll) ev (cfg_postfix c (l_cfg ll)) None [] x in
   match sel with [] => true | _ => ms_guardb_hist c ll (sel_targets c sel) (sel_exitset c (l_cfg ll) sel) sel false end) = true ->
  res_eqv c (fselect_and_step xv c lf x ev) (select_and_step lg_fixed xv c ll x ev).
Proof.
  intros Hrel [HL HH] Hs Hhs Hsel Hms. pose proof Hrel as (Rc & _).
  unfold fselect_and_step, select_and_step. cbn zeta.
  change (l_cfg (upd_flags lf (l_spont lf) false)) with (l_cfg lf).
  change (l_cfg (upd_flags ll (l_spont ll) false)) with (l_cfg ll).
  rewrite Rc, Hsel.
  assert (Hspont : l_spont lf = l_spont ll) by (destruct Hrel as (_ & _ & _ & H & _); exact H).
  pose proof (select_loop_pairwise lg_fixed c (l_cfg ll) ev (cfg_postfix c (l_cfg ll)) None [] x (nil_pairwise _ _)) as Hok.
  pose proof (select_loop_sources_h_p c W (l_cfg ll) ev (cfg_postfix c (l_cfg ll)) None [] x (cfg_postfix_sub c (l_cfg ll)) (fun ti (H : In ti []) => match H with end)) as Hsrc.
  pose proof (ee_select_plain c (l_cfg ll) ev (cfg_postfix c (l_cfg ll)) None [] x eq_refl) as Hplain.
  pose proof (eh_select_sorted c (l_cfg ll) ev (cfg_postfix c (l_cfg ll)) None [] x I) as Hsso.
  destruct (select_loop lg_fixed c (l_cfg ll) ev (cfg_postfix c (l_cfg ll)) None [] x) as [sel x1]. cbn [fst] in *.
  destruct sel as [|t r] eqn:Esel.
  - unfold res_eqv. cbn [fst snd]. rewrite Hspont. split; [|split; reflexivity].
    apply upd_flags_eqv. now apply upd_flags_eqv.
  - rewrite <- Esel in *. clear Esel.
    assert (Hrel0 : lstate_eqv c (upd_flags lf (l_spont lf) false) (upd_flags ll (l_spont ll) false)).
    { rewrite Hspont. now apply upd_flags_eqv. }
    pose proof (ehp_microstep_sel xv c Hwf Hleaf Hpar Htab (upd_flags lf (l_spont lf) false) (upd_flags ll (l_spont ll) false)
                  (emit TMsB x1) sel Hrel0 HL HH Hs Hhs Hsrc Hok Hsso Hplain Hms) as [M1 M2].
    change (l_cfg (upd_flags ll (l_spont ll) false)) with (l_cfg ll) in M1, M2.
    change (fold_left (fun a ti => set_union a (ft_targets (tr c ti))) sel []) with (sel_targets c sel).
    change (fold_left (fun a ti => set_union a (exit_states_of lg_fixed c (l_cfg ll) (tr c ti))) sel []) with (sel_exitset c (l_cfg ll) sel).
    destruct (fmicrostep xv c _ _ _ _ _ _) as [l1f x2f]. destruct (microstep lg_fixed xv c _ _ _ _ _ _) as [l1l x2l].
    unfold res_eqv. cbn [fst snd] in *. tauto.
Qed.

Lemma ehp_sas_rel lf ll x ev :
  lstate_eqv c lf ll -> StOK c ll -> ssorted (l_cfg ll) -> ssorted (l_hist ll) -> sas_guardb_hist c ll x ev = true ->
  res_eqv c (fselect_and_step xv c lf x ev) (select_and_step lg_fixed xv c ll x ev).
Proof.
  intros Hrel HL Hs Hhs Hg. unfold sas_guardb_hist in Hg. cbn zeta in Hg.
  apply andb_true_iff in Hg as [G2 G3].
  apply ehp_sas_given_selection; try assumption.
  apply (ehps_select_eq c W); [now apply ssorted_NoDup | | exact G2].
  apply (ee_cand_ok c Htab); [now apply ssorted_NoDup|]. intros s Hs'. exact (proj1 (proj2 (proj1 HL) s Hs')).
Qed.

Theorem ehp_step_rel lf ll x :
  lstate_eqv c lf ll -> RunOKP ll -> step_guardb_hist c ll x = true ->
  res_eqv c (fast_step xv c lf x) (large_step lg_fixed xv c ll x).
Proof.
  intros Hrel (HOK & Hs & Hhs) Hg. pose proof Hrel as (Rc & Rh & Ri & Rs & Rin & Rt & Rf & Rst & Rca).
  assert (Hpr : is_pristine lf = is_pristine ll) by (unfold is_pristine; now rewrite Rs, Rin, Rt, Rf, Rst).
  unfold fast_step, large_step, step_guardb_hist in *. rewrite Rf, Rt, Hpr, Rs, Rst, Rca, Rc.
  destruct (l_fin ll) eqn:Hfin.
  { unfold res_eqv. cbn [fst snd]. tauto. }
  destruct (l_tlf ll) eqn:Htlf.
  { unfold res_eqv. cbn [fst snd]. split; [|split; reflexivity].
    unfold lstate_eqv. cbn [l_cfg l_hist l_initd l_spont l_init l_tlf l_fin l_stable l_cancelled]. repeat split; assumption. }
  destruct (is_pristine ll) eqn:Hp.
  { destruct HOK as [(_ & Hnil & HH)|[Hi _]]; [|rewrite (init_not_pristine ll Hi) in Hp; discriminate].
    pose proof (ehp_microstep_init xv c Hwf Hleaf Hpar Htab Hroot Hroot_sorted lf ll (emit TMsB x) Hrel Hnil HH Hhs Hg) as [M1 M2].
    destruct (fmicrostep xv c _ _ _ _ _ _) as [l1f x2f]. destruct (microstep lg_fixed xv c _ _ _ _ _ _) as [l1l x2l].
    unfold res_eqv. cbn [fst snd] in *. tauto. }
  assert (HL : StOK c ll) by (destruct HOK as [[Hp' _]|[_ H]]; [congruence | exact H]).
  destruct (l_spont ll) eqn:Hsp; [now apply ehp_sas_rel|].
  destruct (x_iq x) as [|e r].
  - destruct (l_stable ll) eqn:Hst; cbn [negb] in *.
    + destruct (x_eq x) as [|e r].
      * destruct (l_cancelled ll); unfold res_eqv; cbn [fst snd]; (split; [|split; reflexivity]); [|exact Hrel].
        unfold lstate_eqv. cbn [l_cfg l_hist l_initd l_spont l_init l_tlf l_fin l_stable l_cancelled]. repeat split; assumption.
      * destruct (ev_name e) eqn:He.
        -- destruct (l_cancelled ll); unfold res_eqv; cbn [fst snd]; (split; [|split; reflexivity]); [|exact Hrel].
           unfold lstate_eqv. cbn [l_cfg l_hist l_initd l_spont l_init l_tlf l_fin l_stable l_cancelled]. repeat split; assumption.
        -- now apply ehp_sas_rel.
    + unfold res_eqv. cbn [fst snd]. split; [|split; reflexivity]. now apply upd_flags_eqv.
  - destruct (ev_name e) eqn:He.
    + unfold res_eqv. cbn [fst snd]. tauto.
    + now apply ehp_sas_rel.
Qed.

(* ---- whole runs ---- *)

Theorem ehp_run_rel : forall fuel lf ll x evs,
  lstate_eqv c lf ll -> RunOKP ll -> eq_guard_run_hist xv c fuel ll x evs = true ->
  lstate_eqv c (fst (run_loop c lstate (fast_step xv c) l_cfg fuel lf x evs))
               (fst (run_loop c lstate (large_step lg_fixed xv c) l_cfg fuel ll x evs)) /\
  snd (run_loop c lstate (fast_step xv c) l_cfg fuel lf x evs) =
  snd (run_loop c lstate (large_step lg_fixed xv c) l_cfg fuel ll x evs).
Proof.
  induction fuel as [|f IH]; intros lf ll x evs Hrel HOK Hg; cbn [run_loop]; [cbn [fst snd]; tauto|].
  cbn [eq_guard_run_hist] in Hg. apply andb_true_iff in Hg as [G1 G2].
  pose proof (ehp_step_rel lf ll x Hrel HOK G1) as (S1 & S2 & S3).
  pose proof (ehp_large_step_ok ll x HOK) as HOK1.
  destruct (fast_step xv c lf x) as [[lf1 xf1] rcf]. destruct (large_step lg_fixed xv c ll x) as [[ll1 xl1] rcl].
  cbn [fst snd] in *. subst xf1 rcf.
  assert (Htok : cfg_tok c lstate l_cfg lf1 = cfg_tok c lstate l_cfg ll1) by (unfold cfg_tok; destruct S1 as (E & _); now rewrite E).
  rewrite Htok.
  destruct (N.eqb rcl RC_FINISHED); [cbn [fst snd]; tauto|].
  destruct (N.eqb rcl RC_IDLE).
  - destruct evs as [|e r]; [cbn [fst snd]; tauto|]. now apply IH.
  - now apply IH.
Qed.

End StepsP.
