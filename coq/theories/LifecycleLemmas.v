(* LifecycleLemmas.v -- proofs about the life-cycle model (C10). *)
From V Require Import Base GenFlags Lifecycle.
Local Open Scope N_scope.

(* ------------------------------------------------------------------------------------------ *)
(** * The generated constants                                                                   *)

(* every flag name and every enumerator was found in the source *)
Lemma flags_all_present :
  forallb (fun b => b) large_ctx_present = true /\ forallb (fun b => b) fast_ctx_present = true
  /\ forallb (fun b => b) ist_present = true.
Proof. vm_compute. repeat split; reflexivity. Qed.

Fixpoint pairwise_disjoint (l : list N) : bool :=
  match l with
  | [] => true
  | x :: t => forallb (fun y => N.land x y =? 0) t && pairwise_disjoint t
  end.

(* the flag bits are non-zero (except PRISTINE, the empty word) and pairwise disjoint *)
Lemma ctx_flags_disjoint :
  pairwise_disjoint large_ctx = true /\ pairwise_disjoint fast_ctx = true
  /\ forallb (fun x => negb (x =? 0)) (tl large_ctx) = true /\ hd 1 large_ctx = 0.
Proof. vm_compute. repeat split; reflexivity. Qed.

Lemma ctx_flags_same_in_both_engines :
  large_ctx = fast_ctx /\ large_state_table = fast_state_table /\ large_trans_table = fast_trans_table.
Proof. vm_compute. repeat split; reflexivity. Qed.

Lemma model_uses_the_generated_flags :
  [CTX_PRISTINE; CTX_SPONTANEOUS; CTX_INITIALIZED; CTX_TOP_LEVEL_FINAL; CTX_TRANSITION_FOUND; CTX_FINISHED; CTX_STABLE]
  = large_ctx.
Proof. reflexivity. Qed.

Fixpoint z_nodup (l : list Z) : bool :=
  match l with
  | [] => true
  | x :: t => forallb (fun y => negb (Z.eqb x y)) t && z_nodup t
  end.

(* the result codes are pairwise distinct, so step()'s return value determines the constructor *)
Lemma sres_codes_distinct : z_nodup (map sres_code all_sres) = true /\ map sres_code all_sres = ist_codes.
Proof. vm_compute. split; reflexivity. Qed.

Lemma sres_code_inj : forall a b, sres_code a = sres_code b -> a = b.
Proof. intros a b; destruct a, b; vm_compute; intro H; try reflexivity; discriminate H. Qed.

(* the word and the record of booleans determine each other *)
Lemma fl_encode_inj : forall f g, fl_encode f = fl_encode g -> f = g.
Proof.
  intros [a b c d e h] [a' b' c' d' e' h'].
  destruct a, b, c, d, e, h, a', b', c', d', e', h'; vm_compute; intro H; try reflexivity; discriminate H.
Qed.

Lemma fl_is_pristine_iff : forall f, fl_is_pristine f = true <-> f = fl_pristine.
Proof.
  intros [a b c d e h]; split.
  - destruct a, b, c, d, e, h; vm_compute; intro H; try reflexivity; discriminate H.
  - intro H; rewrite H; reflexivity.
Qed.

(* ------------------------------------------------------------------------------------------ *)
(** * (a) The sequential model                                                                  *)

Section Sequential.
  Variable C : Type.
  Variable ch : chart C.

  Notation stepper := (stepper C).
  Notation istate := (istate C).

  Definition cfg_of (s : istate) : option C :=
    match i_stepper s with Some m => m_cfg m | None => None end.

  (* the four results of one micro-stepper step *)
  Definition st_m (x : stepper * queues * sres * list logitem) : stepper := fst (fst (fst x)).
  Definition st_q (x : stepper * queues * sres * list logitem) : queues := snd (fst (fst x)).
  Definition st_r (x : stepper * queues * sres * list logitem) : sres := snd (fst x).
  Definition st_l (x : stepper * queues * sres * list logitem) : list logitem := snd x.

  Lemma has_marker_map_LLog : forall l, has_marker (map LLog l) = false.
  Proof. induction l as [|x l IH]; simpl; auto. Qed.

  Lemma log_eqb_refl : forall l, log_eqb l l = true.
  Proof.
    induction l as [|x l IH]; simpl; auto.
    rewrite IH, andb_true_r. destruct x; simpl; auto. apply N.eqb_refl.
  Qed.

  Lemma log_eqb_eq : forall a b, log_eqb a b = true -> a = b.
  Proof.
    induction a as [|x a IH]; destruct b as [|y b]; simpl; intro H; try discriminate; auto.
    apply andb_true_iff in H. destruct H as [H1 H2]. f_equal; auto.
    destruct x, y; simpl in H1; try discriminate; auto. apply N.eqb_eq in H1. subst; auto.
  Qed.

  (* apply_micro / select: result and effect on the flags that matter to the life-cycle *)
  Lemma apply_micro_spec : forall m q f r,
    let x := apply_micro m q f r in
    st_r x = R_MICROSTEPPED /\ st_l x = map LLog (ms_log r)
    /\ fl_fin (m_flags (st_m x)) = fl_fin f
    /\ fl_tlf (m_flags (st_m x)) = (ms_tlf r || fl_tlf f)
    /\ m_cancelled (st_m x) = m_cancelled m
    /\ m_cfg (st_m x) = Some (ms_cfg r)
    /\ q_ext (st_q x) = q_ext q.
  Proof.
    intros m q f r. unfold apply_micro, st_r, st_l, st_m, st_q; simpl.
    destruct (ms_tlf r); simpl; repeat split; auto.
  Qed.

  Lemma select_spec : forall m q e,
    let x := select ch m q e in
    st_r x = R_MICROSTEPPED /\ has_marker (st_l x) = false
    /\ fl_fin (m_flags (st_m x)) = fl_fin (m_flags m)
    /\ (fl_tlf (m_flags m) = true -> fl_tlf (m_flags (st_m x)) = true)
    /\ m_cancelled (st_m x) = m_cancelled m
    /\ q_ext (st_q x) = q_ext q.
  Proof.
    intros m q e. unfold select.
    destruct (match m_cfg m with Some c => ch_select ch c e | None => None end) as [r|].
    - pose proof (apply_micro_spec m q (set_found (set_spont (set_stable (m_flags m) false) true) false) r) as H.
      cbv zeta in H. destruct H as (H1 & H2 & H3 & H4 & H5 & H6 & H7).
      repeat split; auto.
      + rewrite H2. apply has_marker_map_LLog.
      + intro Ht. rewrite H4. simpl. rewrite Ht. apply orb_true_r.
    - unfold st_r, st_l, st_m, st_q; simpl. repeat split; auto.
  Qed.

  Definition running_result (r : sres) : Prop :=
    r = R_MICROSTEPPED \/ r = R_MACROSTEPPED \/ r = R_IDLE.

  (* the case analysis of {Large,Fast}MicroStep::step the life-cycle rests on *)
  Lemma ms_step_cases : forall m q,
    let x := ms_step ch m q in
    m_cancelled (st_m x) = m_cancelled m /\
    ( (fl_fin (m_flags m) = true /\ x = (m, q, R_FINISHED, []))
   \/ (fl_fin (m_flags m) = false /\ fl_tlf (m_flags m) = true /\ st_r x = R_FINISHED
       /\ fl_fin (m_flags (st_m x)) = true /\ m_cfg (st_m x) = m_cfg m
       /\ st_l x = LBefore :: map LLog (rev (exits_of ch (m_cfg m))) ++ [LAfter])
   \/ (fl_fin (m_flags m) = false /\ fl_tlf (m_flags m) = false /\ running_result (st_r x)
       /\ fl_fin (m_flags (st_m x)) = false /\ has_marker (st_l x) = false
       /\ (st_r x = R_IDLE -> m_cancelled m = false))
   \/ (fl_fin (m_flags m) = false /\ fl_tlf (m_flags m) = false /\ st_r x = R_CANCELLED
       /\ fl_fin (m_flags (st_m x)) = false /\ fl_tlf (m_flags (st_m x)) = true
       /\ m_cancelled m = true /\ m_cfg (st_m x) = m_cfg m /\ st_l x = [] )).
  Proof.
    intros m q. unfold ms_step.
    destruct (fl_fin (m_flags m)) eqn:Hfin.
    { split; [reflexivity|]. left. split; reflexivity. }
    destruct (fl_tlf (m_flags m)) eqn:Htlf.
    { split; [reflexivity|]. right; left. unfold st_r, st_l, st_m; simpl. repeat split; auto. }
    assert (Hsel : forall q0 e, let x := select ch m q0 e in
              m_cancelled (st_m x) = m_cancelled m /\
              (False \/ False \/
               (false = false /\ false = false /\ running_result (st_r x)
                /\ fl_fin (m_flags (st_m x)) = false /\ has_marker (st_l x) = false
                /\ (st_r x = R_IDLE -> m_cancelled m = false)) \/ False)).
    { intros q0 e. pose proof (select_spec m q0 e) as H. cbv zeta in H.
      destruct H as (H1 & H2 & H3 & H4 & H5 & H6). cbv zeta. split; [exact H5|].
      right; right; left. repeat split; auto.
      - left; exact H1.
      - rewrite H3; exact Hfin.
      - intro Hc; rewrite H1 in Hc; discriminate Hc. }
    assert (Hadq : forall q0, let x := after_dequeue m q0 in
              m_cancelled (st_m x) = m_cancelled m /\
              ( False \/ False
             \/ (false = false /\ false = false /\ running_result (st_r x)
                 /\ fl_fin (m_flags (st_m x)) = false /\ has_marker (st_l x) = false
                 /\ (st_r x = R_IDLE -> m_cancelled m = false))
             \/ (false = false /\ false = false /\ st_r x = R_CANCELLED
                 /\ fl_fin (m_flags (st_m x)) = false /\ fl_tlf (m_flags (st_m x)) = true
                 /\ m_cancelled m = true /\ m_cfg (st_m x) = m_cfg m /\ st_l x = []))).
    { intro q0. unfold after_dequeue. destruct (m_cancelled m) eqn:Hc; cbv zeta.
      - split; [reflexivity|]. right; right; right. unfold st_r, st_l, st_m; simpl. repeat split; auto.
      - split; [unfold st_m; simpl; auto|]. right; right; left. unfold st_r, st_l, st_m; simpl.
        repeat split; auto. right; right; reflexivity. }
    destruct (fl_is_pristine (m_flags m)) eqn:Hp.
    { pose proof (apply_micro_spec m q (set_init (set_spont (m_flags m) true) true) (ch_initial ch)) as H.
      cbv zeta in H. destruct H as (H1 & H2 & H3 & H4 & H5 & H6 & H7).
      split; [exact H5|]. right; right; left. repeat split; auto.
      - left; exact H1.
      - rewrite H3. simpl. exact Hfin.
      - rewrite H2. apply has_marker_map_LLog.
      - intro Hc; rewrite H1 in Hc; discriminate Hc. }
    destruct (fl_spont (m_flags m)) eqn:Hsp.
    { destruct (Hsel q None) as [Ha Hb]. split; [exact Ha|].
      destruct Hb as [[]|[[]|[Hb|[]]]]. right; right; left. exact Hb. }
    destruct (q_int q) as [|e iq] eqn:Hqi.
    2:{ destruct (Hsel {| q_ext := q_ext q; q_int := iq |} (Some e)) as [Ha Hb]. split; [exact Ha|].
        destruct Hb as [[]|[[]|[Hb|[]]]]. right; right; left. exact Hb. }
    destruct (fl_stable (m_flags m)) eqn:Hst; simpl.
    2:{ split; [reflexivity|]. right; right; left. unfold st_r, st_l, st_m; simpl. repeat split; auto.
        - right; left; reflexivity.
        - intro Hc; discriminate Hc. }
    destruct (q_ext q) as [|e eq] eqn:Hqe.
    { destruct (Hadq q) as [Ha Hb]. split; [exact Ha|].
      destruct Hb as [[]|[[]|[Hb|Hb]]]; [right; right; left; exact Hb | right; right; right; exact Hb]. }
    destruct (e =? 0).
    { destruct (Hadq {| q_ext := eq; q_int := [] |}) as [Ha Hb]. split; [exact Ha|].
      destruct Hb as [[]|[[]|[Hb|Hb]]]; [right; right; left; exact Hb | right; right; right; exact Hb]. }
    destruct (Hsel {| q_ext := eq; q_int := [] |} (Some e)) as [Ha Hb]. split; [exact Ha|].
    destruct Hb as [[]|[[]|[Hb|[]]]]. right; right; left. exact Hb.
  Qed.
End Sequential.

Section Traces.
  Variable C : Type.
  Variable ch : chart C.
  Variable v : lc_variant.

  Notation istate := (istate C).
  Notation cfg_of := (cfg_of C).

  (* lc_step through the eyes of ms_step_cases *)
  Lemma lc_step_uninit : forall s, i_init s = false ->
    exists m q, lc_step ch s = Ok ({| i_init := true; i_state := R_INITIALIZED; i_stepper := Some m; i_queues := Some q |}, R_INITIALIZED, [])
      /\ m = match i_stepper s with Some m => m | None => new_stepper end
      /\ q = match i_queues s with Some q => q | None => new_queues end.
  Proof. intros s H. unfold lc_step. rewrite H. simpl. eauto. Qed.

  Lemma lc_step_init : forall s m q, i_init s = true -> i_stepper s = Some m -> i_queues s = Some q ->
    lc_step ch s = Ok ({| i_init := true; i_state := st_r C (ms_step ch m q); i_stepper := Some (st_m C (ms_step ch m q));
                          i_queues := Some (st_q C (ms_step ch m q)) |}, st_r C (ms_step ch m q), st_l C (ms_step ch m q)).
  Proof.
    intros s m q H1 H2 H3. unfold lc_step. rewrite H1, H2, H3. simpl.
    destruct (ms_step ch m q) as [[[m' q'] r] l]. reflexivity.
  Qed.

  (* ---- the invariant tying the automaton state to the model state ---- *)
  Definition alive (s : istate) (P : stepper C -> Prop) : Prop :=
    i_init s = true /\ exists m q, i_stepper s = Some m /\ i_queues s = Some q /\ P m.

  Definition linv (q : lstate) (s : istate) : Prop :=
    match q with
    | L_START => False
    | L_INSTANTIATED => i_init s = false /\ i_state s = R_INSTANTIATED
                        /\ (forall m, i_stepper s = Some m -> m_flags m = fl_pristine)
    | L_RUNNING => alive s (fun m => fl_fin (m_flags m) = false)
    | L_CANCELLED => alive s (fun m => fl_fin (m_flags m) = false /\ fl_tlf (m_flags m) = true)
    | L_FINISHED => alive s (fun m => fl_fin (m_flags m) = true)
    end.

  Lemma linv_fresh : linv L_INSTANTIATED (fresh v).
  Proof.
    unfold fresh. destruct (lv_lazy_queues v); simpl; repeat split; auto.
    - intros m H; discriminate H.
    - intros m H; inversion H; reflexivity.
  Qed.

  Lemma linv_reset : forall s, linv L_INSTANTIATED (lc_reset v s).
  Proof.
    intro s. simpl. repeat split; auto.
    intros m H. destruct (i_stepper s); inversion H; reflexivity.
  Qed.

  Lemma linv_receive : forall q s e s', linv q s -> lc_receive e s = Ok s' -> linv q s'.
  Proof.
    intros q s e s' Hi Hr. unfold lc_receive in Hr. destruct (i_queues s) as [qq|] eqn:Hq; [|discriminate Hr].
    inversion Hr; subst; clear Hr.
    destruct q; simpl in *; auto;
      try (destruct Hi as (Hi1 & m & q0 & Hm & Hq0 & HP); split; [exact Hi1|]; exists m; eexists; repeat split; eauto; apply HP).
  Qed.

  Lemma linv_cancel : forall q s s', linv q s -> lc_cancel s = Ok s' -> linv q s'.
  Proof.
    intros q s s' Hi Hr. unfold lc_cancel in Hr. destruct (i_stepper s) as [m|] eqn:Hm; [|discriminate Hr].
    unfold lc_receive in Hr; simpl in Hr. destruct (i_queues s) as [qq|] eqn:Hq; [|discriminate Hr].
    inversion Hr; subst; clear Hr.
    destruct q; simpl in *; auto.
    - destruct Hi as (H1 & H2 & H3). repeat split; auto. intros m0 H0. inversion H0; subst; simpl. apply H3; exact Hm.
    - destruct Hi as (Hi1 & m1 & q0 & Hm1 & Hq0 & HP). rewrite Hm in Hm1. inversion Hm1; subst m1. split; [exact Hi1|]. eexists; eexists; repeat split; eauto.
    - destruct Hi as (Hi1 & m1 & q0 & Hm1 & Hq0 & HP). rewrite Hm in Hm1. inversion Hm1; subst m1. split; [exact Hi1|]. eexists; eexists; repeat split; eauto; apply HP.
    - destruct Hi as (Hi1 & m1 & q0 & Hm1 & Hq0 & HP). rewrite Hm in Hm1. inversion Hm1; subst m1. split; [exact Hi1|]. eexists; eexists; repeat split; eauto.
  Qed.

  (* one step() moves the automaton along an edge and re-establishes the invariant *)
  Lemma linv_step : forall q s s' r l, linv q s -> lc_step ch s = Ok (s', r, l) ->
    exists q', l_next q r = Some q' /\ linv q' s'.
  Proof.
    intros q s s' r l Hi Hs.
    destruct q; simpl in Hi; try contradiction.
    - (* not initialised: init() *)
      destruct Hi as (H1 & H2 & H3).
      destruct (lc_step_uninit s H1) as (m & q0 & Heq & Hm & Hq). rewrite Heq in Hs. inversion Hs; subst s' r l; clear Hs.
      exists L_RUNNING. split; [reflexivity|]. simpl. split; [reflexivity|]. exists m, q0. repeat split; auto.
      subst m. destruct (i_stepper s) as [m0|] eqn:Hm0; [rewrite (H3 m0 eq_refl)|]; reflexivity.
    - (* running *)
      destruct Hi as (H1 & m & q0 & Hm & Hq & Hfin).
      rewrite (lc_step_init s m q0 H1 Hm Hq) in Hs. inversion Hs; subst s' r l; clear Hs.
      destruct (ms_step_cases C ch m q0) as [_ Hc].
      destruct Hc as [[Hf _]|[(_ & Ht & Hr & Hf' & _)|[(_ & Ht & Hr & Hf' & _)|(_ & Ht & Hr & Hf' & Ht' & _)]]].
      + rewrite Hf in Hfin; discriminate Hfin.
      + rewrite Hr. exists L_FINISHED. split; [reflexivity|]. split; [reflexivity|]. eexists; eexists; repeat split; eauto.
      + exists L_RUNNING. split.
        * destruct Hr as [Hr|[Hr|Hr]]; rewrite Hr; reflexivity.
        * split; [reflexivity|]. eexists; eexists; repeat split; eauto.
      + rewrite Hr. exists L_CANCELLED. split; [reflexivity|]. split; [reflexivity|]. eexists; eexists; repeat split; eauto.
    - (* cancelled: the finalising step *)
      destruct Hi as (H1 & m & q0 & Hm & Hq & Hfin & Htlf).
      rewrite (lc_step_init s m q0 H1 Hm Hq) in Hs. inversion Hs; subst s' r l; clear Hs.
      destruct (ms_step_cases C ch m q0) as [_ Hc].
      destruct Hc as [[Hf _]|[(_ & Ht & Hr & Hf' & _)|[(_ & Ht & _)|(_ & Ht & _)]]].
      + rewrite Hf in Hfin; discriminate Hfin.
      + rewrite Hr. exists L_FINISHED. split; [reflexivity|]. split; [reflexivity|]. eexists; eexists; repeat split; eauto.
      + rewrite Ht in Htlf; discriminate Htlf.
      + rewrite Ht in Htlf; discriminate Htlf.
    - (* finished *)
      destruct Hi as (H1 & m & q0 & Hm & Hq & Hfin).
      rewrite (lc_step_init s m q0 H1 Hm Hq) in Hs. inversion Hs; subst s' r l; clear Hs.
      destruct (ms_step_cases C ch m q0) as [_ Hc].
      destruct Hc as [[Hf Hx]|[(Hf & _)|[(Hf & _)|(Hf & _)]]]; try (rewrite Hf in Hfin; discriminate Hfin).
      rewrite Hx. unfold st_r, st_m, st_q; simpl. exists L_FINISHED. split; [reflexivity|]. split; [reflexivity|].
      eexists; eexists; repeat split; eauto.
  Qed.

  (* ---- step_results_regular ---- *)
  Lemma regex_from_inv : forall ops q s, linv q s -> lifecycle_regex_from q (lc_run v ch s ops) = true.
  Proof.
    induction ops as [|o ops IH]; intros q s Hi; simpl; auto.
    destruct o.
    - destruct (lc_step ch s) as [[[s' r] l]|w] eqn:Hs; simpl; auto.
      destruct (linv_step q s s' r l Hi Hs) as (q' & Hn & Hi'). rewrite Hn. apply IH; exact Hi'.
    - destruct (lc_receive e s) as [s'|w] eqn:Hs; simpl; auto. apply IH. eapply linv_receive; eauto.
    - destruct (lc_cancel s) as [s'|w] eqn:Hs; simpl; auto. apply IH. eapply linv_cancel; eauto.
    - simpl. apply IH. apply linv_reset.
    - reflexivity.
  Qed.

  Theorem step_results_regular_lemma : forall ops, lifecycle_regexb (lc_observe v ch ops) = true.
  Proof.
    intro ops. unfold lifecycle_regexb, lc_observe. simpl.
    assert (H : i_state (@fresh C v) = R_INSTANTIATED) by (unfold fresh; destruct (lv_lazy_queues v); reflexivity).
    rewrite H. simpl. apply regex_from_inv. apply linv_fresh.
  Qed.

  (* the bare sequence of step() results, as a word of the automaton *)
  Fixpoint step_results (obs : list ob) : list sres :=
    match obs with
    | [] => []
    | ObStep r _ _ :: t => r :: step_results t
    | _ :: t => step_results t
    end.

  Lemma regex_no_reset : forall obs q,
    (forall st, ~ In (ObState st) obs) -> lifecycle_regex_from q obs = l_accepts q (step_results obs).
  Proof.
    induction obs as [|o obs IH]; intros q Hn; simpl; auto.
    assert (Hn' : forall st, ~ In (ObState st) obs) by (intros st Hin; apply (Hn st); right; exact Hin).
    destruct o; simpl; auto.
    - destruct (l_next q r); auto.
    - exfalso. apply (Hn st). left; reflexivity.
  Qed.

  Lemma run_no_reset : forall ops s, ~ In OpReset ops -> forall st, ~ In (ObState st) (lc_run v ch s ops).
  Proof.
    induction ops as [|o ops IH]; intros s Hn st Hin; simpl in Hin; auto.
    assert (Hn' : ~ In OpReset ops) by (intro H; apply Hn; right; exact H).
    destruct o.
    - destruct (lc_step ch s) as [[[s' r] l]|w]; simpl in Hin.
      + destruct Hin as [Hin|Hin]; [discriminate Hin|]. eapply IH; eauto.
      + destruct Hin as [Hin|[]]; discriminate Hin.
    - destruct (lc_receive e s) as [s'|w]; simpl in Hin.
      + destruct Hin as [Hin|Hin]; [discriminate Hin|]. eapply IH; eauto.
      + destruct Hin as [Hin|[]]; discriminate Hin.
    - destruct (lc_cancel s) as [s'|w]; simpl in Hin.
      + destruct Hin as [Hin|Hin]; [discriminate Hin|]. eapply IH; eauto.
      + destruct Hin as [Hin|[]]; discriminate Hin.
    - apply Hn. left; reflexivity.
    - destruct Hin as [Hin|[]]; discriminate Hin.
  Qed.

  (* without reset(): the results of step(), preceded by the INSTANTIATED of getState(), are a
     word (prefix) of INSTANTIATED? INITIALIZED (MICRO|MACRO|IDLE)* CANCELLED? FINISHED^omega *)
  Corollary step_results_word : forall ops, ~ In OpReset ops ->
    l_accepts L_START (R_INSTANTIATED :: step_results (lc_run v ch (fresh v) ops)) = true.
  Proof.
    intros ops Hn. simpl.
    rewrite <- regex_no_reset by (apply run_no_reset; exact Hn).
    apply regex_from_inv. apply linv_fresh.
  Qed.

  (* ---- finished_absorbing ---- *)
  Lemma step_finished_inv : forall s s' l, lc_step ch s = Ok (s', R_FINISHED, l) -> linv L_FINISHED s'.
  Proof.
    intros s s' l Hs. destruct (i_init s) eqn:Hi.
    2:{ destruct (lc_step_uninit s Hi) as (m & q & Heq & _). rewrite Heq in Hs. inversion Hs. }
    unfold lc_step in Hs. rewrite Hi in Hs. simpl in Hs.
    destruct (i_stepper s) as [m|] eqn:Hm; [|discriminate Hs].
    destruct (i_queues s) as [q|] eqn:Hq; [|discriminate Hs].
    pose proof (ms_step_cases C ch m q) as Hc. cbv zeta in Hc. destruct Hc as [_ Hc].
    destruct (ms_step ch m q) as [[[m' q'] r] l'] eqn:Hx. inversion Hs; subst s' r l'; clear Hs.
    unfold st_r, st_m, st_l in Hc; simpl in Hc.
    simpl. split; [reflexivity|]. exists m', q'. repeat split; auto.
    destruct Hc as [[Hf Hx']|[(_ & _ & _ & Hf' & _)|[(_ & _ & Hr & _)|(_ & _ & Hr & _)]]].
    - inversion Hx'; subst; exact Hf.
    - exact Hf'.
    - destruct Hr as [Hr|[Hr|Hr]]; discriminate Hr.
    - discriminate Hr.
  Qed.

  Lemma step_from_finished : forall s s' r l, linv L_FINISHED s -> lc_step ch s = Ok (s', r, l) ->
    r = R_FINISHED /\ l = [] /\ linv L_FINISHED s' /\ cfg_of s' = cfg_of s.
  Proof.
    intros s s' r l (H1 & m & q & Hm & Hq & Hfin) Hs.
    rewrite (lc_step_init s m q H1 Hm Hq) in Hs.
    destruct (ms_step_cases C ch m q) as [_ Hc].
    destruct Hc as [[Hf Hx]|[(Hf & _)|[(Hf & _)|(Hf & _)]]]; try (rewrite Hf in Hfin; discriminate Hfin).
    rewrite Hx in Hs. unfold st_r, st_m, st_q, st_l in Hs; simpl in Hs. inversion Hs; subst s' r l; clear Hs.
    repeat split; auto.
    - exists m, q. repeat split; auto.
    - unfold cfg_of; simpl. rewrite Hm. reflexivity.
  Qed.

  Lemma finished_quiet_inv : forall ops fin s, (fin = true -> linv L_FINISHED s) ->
    finished_quietb fin (lc_run v ch s ops) = true.
  Proof.
    induction ops as [|o ops IH]; intros fin s Hi; simpl; auto.
    destruct o.
    - destruct (lc_step ch s) as [[[s' r] l]|w] eqn:Hs; simpl; auto.
      destruct fin.
      + destruct (step_from_finished s s' r l (Hi eq_refl) Hs) as (Hr & Hl & Hi' & _). subst r l. simpl.
        apply IH. intros _. exact Hi'.
      + apply IH. intro Hf. destruct r; simpl in Hf; try discriminate Hf.
        eapply step_finished_inv; eauto.
    - destruct (lc_receive e s) as [s'|w] eqn:Hs; simpl; auto. apply IH. intro Hf. eapply linv_receive; eauto.
    - destruct (lc_cancel s) as [s'|w] eqn:Hs; simpl; auto. apply IH. intro Hf. eapply linv_cancel; eauto.
    - simpl. apply IH. intro Hf; discriminate Hf.
    - reflexivity.
  Qed.

  Theorem finished_absorbing_lemma : forall ops, finished_quietb false (lc_observe v ch ops) = true.
  Proof. intro ops. unfold lc_observe. simpl. apply finished_quiet_inv. intro H; discriminate H. Qed.

  (* ---- completion: the remaining exit handlers, once, innermost first ---- *)
  Definition cinv (fin : bool) (prev : list N) (s : istate) : Prop :=
    prev = exits_of ch (cfg_of s)
    /\ (fin = true -> linv L_FINISHED s)
    /\ (fin = false -> forall m, i_stepper s = Some m -> fl_fin (m_flags m) = false).

  Lemma cinv_step : forall fin prev s s' r l, cinv fin prev s -> lc_step ch s = Ok (s', r, l) ->
    (if sres_eqb r R_FINISHED && negb fin
     then log_eqb l (LBefore :: map LLog (rev prev) ++ [LAfter])
     else negb (has_marker l)) = true
    /\ cinv (fin || sres_eqb r R_FINISHED) (exits_of ch (cfg_of s')) s'.
  Proof.
    intros fin prev s s' r l (Hp & Hft & Hff) Hs.
    destruct fin.
    { destruct (step_from_finished s s' r l (Hft eq_refl) Hs) as (Hr & Hl & Hi' & Hc). subst r l. simpl.
      split; [reflexivity|]. split; [reflexivity|]. split; [intros _; exact Hi'|intro H; discriminate H]. }
    specialize (Hff eq_refl). clear Hft. rewrite andb_true_r. simpl (false || _).
    destruct (i_init s) eqn:Hi.
    2:{ destruct (lc_step_uninit s Hi) as (m & q & Heq & Hm & Hq). rewrite Heq in Hs. inversion Hs; subst s' r l; clear Hs.
        simpl. split; [reflexivity|]. split; [reflexivity|]. split; [intro H; discriminate H|].
        intros _ m0 H0. simpl in H0. inversion H0; subst m0 m.
        destruct (i_stepper s) as [m1|] eqn:Hm1; [apply Hff; reflexivity|reflexivity]. }
    unfold lc_step in Hs. rewrite Hi in Hs. simpl in Hs.
    destruct (i_stepper s) as [m|] eqn:Hm; [|discriminate Hs].
    destruct (i_queues s) as [q|] eqn:Hq; [|discriminate Hs].
    pose proof (ms_step_cases C ch m q) as Hc. cbv zeta in Hc. destruct Hc as [_ Hc].
    destruct (ms_step ch m q) as [[[m' q'] r'] l'] eqn:Hx. inversion Hs; subst s' r' l'; clear Hs.
    unfold st_r, st_m, st_l in Hc; simpl in Hc.
    assert (Hprev : prev = exits_of ch (m_cfg m)) by (rewrite Hp; unfold cfg_of; rewrite Hm; reflexivity).
    pose proof (Hff m eq_refl) as Hfm.
    destruct Hc as [[Hf _]|[(_ & _ & Hr & Hf' & Hcfg & Hl)|[(_ & _ & Hr & Hf' & Hmk & _)|(_ & _ & Hr & Hf' & _ & _ & _ & Hl)]]].
    - rewrite Hf in Hfm; discriminate Hfm.
    - subst r l. simpl. split.
      + rewrite Hprev. apply log_eqb_refl.
      + split; [reflexivity|]. split; [|intro H; discriminate H].
        intros _. simpl. split; [reflexivity|]. exists m', q'. repeat split; auto.
    - assert (Hnf : sres_eqb r R_FINISHED = false) by (destruct Hr as [Hr|[Hr|Hr]]; rewrite Hr; reflexivity).
      rewrite Hnf. rewrite Hmk. split; [reflexivity|]. split; [reflexivity|]. split; [intro H; discriminate H|].
      intros _ m0 H0. simpl in H0. inversion H0; subst m0. exact Hf'.
    - subst r l. simpl. split; [reflexivity|]. split; [reflexivity|]. split; [intro H; discriminate H|].
      intros _ m0 H0. simpl in H0. inversion H0; subst m0. exact Hf'.
  Qed.

  Lemma cinv_receive : forall fin prev s e s', cinv fin prev s -> lc_receive e s = Ok s' -> cinv fin prev s'.
  Proof.
    intros fin prev s e s' (Hp & Hft & Hff) Hr. split; [|split].
    - unfold lc_receive in Hr. destruct (i_queues s); [|discriminate Hr]. inversion Hr; subst s'. exact Hp.
    - intro Hf. eapply linv_receive; eauto.
    - intros Hf m Hm. unfold lc_receive in Hr. destruct (i_queues s); [|discriminate Hr]. inversion Hr; subst s'. simpl in Hm. eauto.
  Qed.

  Lemma cinv_cancel : forall fin prev s s', cinv fin prev s -> lc_cancel s = Ok s' -> cinv fin prev s'.
  Proof.
    intros fin prev s s' (Hp & Hft & Hff) Hr. split; [|split].
    - unfold lc_cancel, lc_receive in Hr. destruct (i_stepper s) as [m|] eqn:Hm; [|discriminate Hr]. simpl in Hr.
      destruct (i_queues s); [|discriminate Hr]. inversion Hr; subst s'. rewrite Hp. unfold cfg_of; simpl. rewrite Hm. reflexivity.
    - intro Hf. eapply linv_cancel; eauto.
    - intros Hf m0 Hm0. unfold lc_cancel, lc_receive in Hr. destruct (i_stepper s) as [m|] eqn:Hm; [|discriminate Hr]. simpl in Hr.
      destruct (i_queues s); [|discriminate Hr]. inversion Hr; subst s'. simpl in Hm0. inversion Hm0; subst; simpl. eauto.
  Qed.

  Lemma completion_inv : forall ops fin prev s, cinv fin prev s -> completion_okb fin prev (lc_run v ch s ops) = true.
  Proof.
    induction ops as [|o ops IH]; intros fin prev s Hi; simpl; auto.
    destruct o.
    - destruct (lc_step ch s) as [[[s' r] l]|w] eqn:Hs; simpl; auto.
      destruct (cinv_step fin prev s s' r l Hi Hs) as (H1 & H2). rewrite H1. simpl.
      assert (Hcfg : match i_stepper s' with Some m => m_cfg m | None => None end = cfg_of s') by reflexivity.
      rewrite Hcfg. apply IH. exact H2.
    - destruct (lc_receive e s) as [s'|w] eqn:Hs; simpl; auto. apply IH. eapply cinv_receive; eauto.
    - destruct (lc_cancel s) as [s'|w] eqn:Hs; simpl; auto. apply IH. eapply cinv_cancel; eauto.
    - simpl. apply IH. split; [|split].
      + unfold cfg_of, lc_reset; simpl. destruct (i_stepper s); reflexivity.
      + intro H; discriminate H.
      + intros _ m Hm. simpl in Hm. destruct (i_stepper s); inversion Hm; reflexivity.
    - reflexivity.
  Qed.

  Theorem completion_once_lemma : forall ops, completion_okb false [] (lc_observe v ch ops) = true.
  Proof.
    intro ops. unfold lc_observe. simpl. apply completion_inv. split; [|split].
    - unfold cfg_of, fresh. destruct (lv_lazy_queues v); reflexivity.
    - intro H; discriminate H.
    - intros _ m Hm. unfold fresh in Hm. destruct (lv_lazy_queues v); simpl in Hm; inversion Hm; reflexivity.
  Qed.

  (* ---- cancel(): no IDLE afterwards, CANCELLED at most once ---- *)
  Definition kinv (cancelled seen : bool) (s : istate) : Prop :=
    (cancelled = true -> exists m, i_stepper s = Some m /\ m_cancelled m = true)
    /\ (seen = true -> exists m, i_stepper s = Some m /\ (fl_tlf (m_flags m) = true \/ fl_fin (m_flags m) = true)).

  Lemma kinv_step : forall cancelled seen s s' r l, kinv cancelled seen s -> lc_step ch s = Ok (s', r, l) ->
    negb (cancelled && sres_eqb r R_IDLE) && negb (seen && sres_eqb r R_CANCELLED) = true
    /\ kinv cancelled (seen || sres_eqb r R_CANCELLED) s'.
  Proof.
    intros cancelled seen s s' r l (Hc & Hsn) Hs.
    destruct (i_init s) eqn:Hi.
    2:{ destruct (lc_step_uninit s Hi) as (m & q & Heq & Hm & Hq). rewrite Heq in Hs. inversion Hs; subst s' r l; clear Hs.
        simpl. rewrite !andb_false_r. simpl. split; [reflexivity|]. rewrite orb_false_r. split.
        - intro H. destruct (Hc H) as (m0 & Hm0 & Hcm). exists m0. rewrite Hm0 in Hm. subst m. split; auto.
        - intro H. destruct (Hsn H) as (m0 & Hm0 & Hcm). exists m0. rewrite Hm0 in Hm. subst m. split; auto. }
    unfold lc_step in Hs. rewrite Hi in Hs. simpl in Hs.
    destruct (i_stepper s) as [m|] eqn:Hm; [|discriminate Hs].
    destruct (i_queues s) as [q|] eqn:Hq; [|discriminate Hs].
    pose proof (ms_step_cases C ch m q) as Hcs. cbv zeta in Hcs. destruct Hcs as [Hcan Hcs].
    destruct (ms_step ch m q) as [[[m' q'] r'] l'] eqn:Hx. inversion Hs; subst s' r' l'; clear Hs.
    unfold st_r, st_m, st_l in Hcs, Hcan; simpl in Hcs, Hcan.
    assert (Hc' : cancelled = true -> exists m0, Some m' = Some m0 /\ m_cancelled m0 = true).
    { intro H. destruct (Hc H) as (m0 & Hm0 & Hcm). inversion Hm0; subst m0. exists m'. split; auto. rewrite Hcan; exact Hcm. }
    destruct Hcs as [[Hf Hx']|[(_ & _ & Hr & Hf' & _)|[(Hf & Ht & Hr & _ & _ & Hidle)|(Hf & Ht & Hr & _ & Ht' & _)]]].
    - inversion Hx'; subst m' q' r l. simpl. rewrite !andb_false_r. simpl. split; [reflexivity|]. rewrite orb_false_r.
      split; [exact Hc'|]. intros _. exists m. split; auto.
    - subst r. simpl. rewrite !andb_false_r. simpl. split; [reflexivity|]. rewrite orb_false_r.
      split; [exact Hc'|]. intros _. exists m'. split; auto.
    - assert (Hseen : seen = false).
      { destruct seen; auto. destruct (Hsn eq_refl) as (m0 & Hm0 & [Hx1|Hx1]); inversion Hm0; subst m0;
          [rewrite Ht in Hx1|rewrite Hf in Hx1]; discriminate Hx1. }
      subst seen. simpl.
      assert (Hnc : sres_eqb r R_CANCELLED = false) by (destruct Hr as [Hr|[Hr|Hr]]; rewrite Hr; reflexivity).
      rewrite Hnc. rewrite andb_true_r. split.
      + destruct cancelled; simpl; auto. destruct (sres_eqb r R_IDLE) eqn:Hri; auto.
        destruct r; try discriminate Hri. rewrite (Hidle eq_refl) in *. destruct (Hc eq_refl) as (m0 & Hm0 & Hcm).
        inversion Hm0; subst m0. rewrite (Hidle eq_refl) in Hcm. discriminate Hcm.
      + split; [exact Hc'|]. intro H; discriminate H.
    - assert (Hseen : seen = false).
      { destruct seen; auto. destruct (Hsn eq_refl) as (m0 & Hm0 & [Hx1|Hx1]); inversion Hm0; subst m0;
          [rewrite Ht in Hx1|rewrite Hf in Hx1]; discriminate Hx1. }
      subst seen r. simpl. rewrite andb_false_r. simpl. split; [reflexivity|].
      split; [exact Hc'|]. intros _. exists m'. split; auto.
  Qed.

  Lemma cancel_inv : forall ops cancelled seen s, kinv cancelled seen s ->
    cancel_okb cancelled seen ops (lc_run v ch s ops) = true.
  Proof.
    induction ops as [|o ops IH]; intros cancelled seen s Hi; simpl; auto.
    destruct o.
    - destruct (lc_step ch s) as [[[s' r] l]|w] eqn:Hs; simpl.
      + destruct (kinv_step cancelled seen s s' r l Hi Hs) as (H1 & H2). rewrite H1. simpl. apply IH. exact H2.
      + destruct ops; reflexivity.
    - destruct (lc_receive e s) as [s'|w] eqn:Hs; simpl.
      + apply IH. unfold lc_receive in Hs. destruct (i_queues s); [|discriminate Hs]. inversion Hs; subst. exact Hi.
      + destruct ops; reflexivity.
    - destruct (lc_cancel s) as [s'|w] eqn:Hs; simpl.
      + apply IH. destruct Hi as (Hc & Hsn). unfold lc_cancel, lc_receive in Hs.
        destruct (i_stepper s) as [m|] eqn:Hm; [|discriminate Hs]. simpl in Hs.
        destruct (i_queues s); [|discriminate Hs]. inversion Hs; subst; clear Hs. split.
        * intros _. eexists; split; [reflexivity|reflexivity].
        * intro H. destruct (Hsn H) as (m0 & Hm0 & Hx). inversion Hm0; subst m0. eexists; split; [reflexivity|exact Hx].
      + destruct ops; reflexivity.
    - apply IH. split; intro H; discriminate H.
    - destruct ops; reflexivity.
  Qed.

  Theorem cancel_never_idle_lemma : forall ops, cancel_okb false false ops (lc_run v ch (fresh v) ops) = true.
  Proof. intro ops. apply cancel_inv. split; intro H; discriminate H. Qed.

  (* ---- no crash when the queues exist from construction on ---- *)
  Definition equipped (s : istate) : Prop := (exists m, i_stepper s = Some m) /\ (exists q, i_queues s = Some q).

  Lemma equipped_step : forall s, equipped s -> exists s' r l, lc_step ch s = Ok (s', r, l) /\ equipped s'.
  Proof.
    intros s ((m & Hm) & (q & Hq)). unfold lc_step. rewrite Hm, Hq. destruct (i_init s); simpl.
    - destruct (ms_step ch m q) as [[[m' q'] r] l]. do 3 eexists. split; [reflexivity|]. split; eexists; reflexivity.
    - do 3 eexists. split; [reflexivity|]. split; eexists; reflexivity.
  Qed.
  Lemma equipped_receive : forall s e, equipped s -> exists s', lc_receive e s = Ok s' /\ equipped s'.
  Proof.
    intros s e ((m & Hm) & (q & Hq)). unfold lc_receive. rewrite Hq. eexists. split; [reflexivity|].
    split; eexists; simpl; eauto.
  Qed.
  Lemma equipped_cancel : forall s, equipped s -> exists s', lc_cancel s = Ok s' /\ equipped s'.
  Proof.
    intros s ((m & Hm) & (q & Hq)). unfold lc_cancel, lc_receive. rewrite Hm. simpl. rewrite Hq. eexists. split; [reflexivity|].
    split; eexists; simpl; eauto.
  Qed.
  Lemma equipped_reset : forall s, equipped s -> equipped (lc_reset v s).
  Proof.
    intros s ((m & Hm) & (q & Hq)). unfold lc_reset, equipped; simpl. rewrite Hm, Hq.
    split; [eexists; reflexivity|]. destruct (lv_reset_keeps_queue v); eexists; reflexivity.
  Qed.

  Lemma no_crash_inv : forall ops s, equipped s -> no_crashb (lc_run v ch s ops) = true.
  Proof.
    induction ops as [|o ops IH]; intros s He; simpl; auto.
    destruct o.
    - destruct (equipped_step s He) as (s' & r & l & Hs & He'). rewrite Hs. simpl. apply IH; exact He'.
    - destruct (equipped_receive s e He) as (s' & Hs & He'). rewrite Hs. simpl. apply IH; exact He'.
    - destruct (equipped_cancel s He) as (s' & Hs & He'). rewrite Hs. simpl. apply IH; exact He'.
    - simpl. apply IH. apply equipped_reset; exact He.
    - reflexivity.
  Qed.

  Lemma equipped_exec : forall ops s s', equipped s -> lc_exec v ch s ops = Some s' -> equipped s'.
  Proof.
    induction ops as [|o ops IH]; intros s s' He Hx; simpl in Hx.
    - inversion Hx; subst; exact He.
    - destruct o.
      + destruct (equipped_step s He) as (s1 & r & l & Hs & He'). rewrite Hs in Hx. eapply IH; eauto.
      + destruct (equipped_receive s e He) as (s1 & Hs & He'). rewrite Hs in Hx. eapply IH; eauto.
      + destruct (equipped_cancel s He) as (s1 & Hs & He'). rewrite Hs in Hx. eapply IH; eauto.
      + eapply IH; [|exact Hx]. apply equipped_reset; exact He.
      + discriminate Hx.
  Qed.
End Traces.

(* ------------------------------------------------------------------------------------------ *)
(** * receive()/cancel() everywhere, reset() like fresh                                         *)

Section Safety.
  Variable C : Type.
  Variable ch : chart C.

  Lemma equipped_fresh : forall v, lv_lazy_queues v = false -> equipped C (fresh v).
  Proof. intros v H. unfold fresh. rewrite H. split; eexists; reflexivity. Qed.

  (* U, repaired variant: after any crash-free... in fact after any sequence of calls, receive()
     and cancel() succeed; and no call of any sequence crashes *)
  Theorem receive_safe_everywhere_lemma : forall v, lv_lazy_queues v = false ->
    forall ops, no_crashb (lc_observe v ch ops) = true
    /\ (forall s, lc_exec v ch (fresh v) ops = Some s ->
          (forall e, exists s', lc_receive e s = Ok s') /\ (exists s', lc_cancel s = Ok s')).
  Proof.
    intros v Hv ops. split.
    - unfold lc_observe. simpl. apply no_crash_inv. apply equipped_fresh; exact Hv.
    - intros s Hx. pose proof (equipped_exec C ch v ops _ s (equipped_fresh v Hv) Hx) as He. split.
      + intro e. destruct (equipped_receive C s e He) as (s' & Hs & _). eauto.
      + destruct (equipped_cancel C s He) as (s' & Hs & _). eauto.
  Qed.

  (* U, repaired variant: reset() yields the state of a fresh interpreter, hence every continuation
     is observed alike *)
  Theorem reset_like_fresh_lemma : forall v, lv_lazy_queues v = false -> lv_reset_keeps_queue v = false ->
    forall ops s, lc_exec v ch (fresh v) ops = Some s ->
      lc_reset v s = fresh v
      /\ forall cont, lc_run v ch (lc_reset v s) cont = lc_run v ch (fresh v) cont.
  Proof.
    intros v Hl Hk ops s Hx.
    pose proof (equipped_exec C ch v ops _ s (equipped_fresh v Hl) Hx) as ((m & Hm) & (q & Hq)).
    assert (H : lc_reset v s = fresh v).
    { unfold lc_reset, fresh. rewrite Hl, Hk, Hm, Hq. reflexivity. }
    split; [exact H|]. intro cont. rewrite H. reflexivity.
  Qed.
End Safety.

(* ---- witnesses on a concrete chart: two states toggled by event 1, event 2 leads to a top-level
   final state (corpus chart "flat") ---- *)
Definition demo_chart : chart N :=
  table_chart {| ms_cfg := 0; ms_log := []; ms_raised := []; ms_tlf := false |}
    [ {| tr_cfg := 0; tr_ev := Some 1; tr_res := {| ms_cfg := 1; ms_log := [10]; ms_raised := []; ms_tlf := false |} |};
      {| tr_cfg := 1; tr_ev := Some 1; tr_res := {| ms_cfg := 0; ms_log := [11]; ms_raised := []; ms_tlf := false |} |};
      {| tr_cfg := 0; tr_ev := Some 2; tr_res := {| ms_cfg := 2; ms_log := [10]; ms_raised := []; ms_tlf := true |} |} ]
    [ (0, [10]); (1, [11]); (2, [12]) ].

(* pinned: receive() (and cancel()) before the first step() dereference the null queue *)
Lemma receive_safe_everywhere_refuted_lemma :
  exists ops, no_crashb (lc_observe lc_pinned demo_chart ops) = false
  /\ exists s e, lc_exec lc_pinned demo_chart (fresh lc_pinned) [] = Some s /\ lc_receive e s = Crash crash_null_queue.
Proof.
  exists [OpReceive 1]. split; [reflexivity|]. exists (fresh lc_pinned), 1. split; reflexivity.
Qed.

Lemma cancel_before_first_step_refuted_lemma :
  lc_observe lc_pinned demo_chart [OpCancel] = [ObState R_INSTANTIATED; ObCrash].
Proof. reflexivity. Qed.

(* pinned: an event queued before reset() is processed after it *)
Definition stale_prefix : list op := [OpStep; OpStep; OpStep; OpStep; OpReceive 1].
Definition stale_cont : list op := [OpStep; OpStep; OpStep; OpStep; OpStep; OpStep].

Lemma reset_like_fresh_refuted_lemma :
  exists ops s cont,
    lc_exec lc_pinned demo_chart (fresh lc_pinned) ops = Some s
    /\ obs_eqb (lc_run lc_pinned demo_chart (lc_reset lc_pinned s) cont)
               (lc_run lc_pinned demo_chart (fresh lc_pinned) cont) = false.
Proof.
  exists stale_prefix.
  destruct (lc_exec lc_pinned demo_chart (fresh lc_pinned) stale_prefix) as [s|] eqn:Hs; [|vm_compute in Hs; discriminate Hs].
  exists s, stale_cont. split; [reflexivity|].
  vm_compute in Hs. inversion Hs; subst s. vm_compute. reflexivity.
Qed.

(* ... and the same holds if only the lazily created queues are repaired *)
Lemma reset_keeps_queue_refuted_lemma :
  let v := {| lv_lazy_queues := false; lv_reset_keeps_queue := true |} in
  exists ops s cont,
    lc_exec v demo_chart (fresh v) ops = Some s
    /\ obs_eqb (lc_run v demo_chart (lc_reset v s) cont) (lc_run v demo_chart (fresh v) cont) = false.
Proof.
  intro v. exists stale_prefix.
  destruct (lc_exec v demo_chart (fresh v) stale_prefix) as [s|] eqn:Hs; [|vm_compute in Hs; discriminate Hs].
  exists s, stale_cont. split; [reflexivity|].
  vm_compute in Hs. inversion Hs; subst s. vm_compute. reflexivity.
Qed.

(* the hypotheses of the theorems are satisfiable and the runs are not trivial: on the demo chart a
   cancelled run passes through MICROSTEPPED, MACROSTEPPED, IDLE, CANCELLED and FINISHED *)
Example demo_run :
  lc_observe lc_fixed demo_chart
    [OpStep; OpStep; OpStep; OpStep; OpStep; OpReceive 1; OpStep; OpStep; OpStep; OpCancel; OpStep; OpStep; OpStep]
  = [ObState R_INSTANTIATED; ObStep R_INITIALIZED [] []; ObStep R_MICROSTEPPED [] [10]; ObStep R_MICROSTEPPED [] [10];
     ObStep R_MACROSTEPPED [] [10]; ObStep R_IDLE [] [10]; ObOk; ObStep R_MICROSTEPPED [LLog 10] [11];
     ObStep R_MICROSTEPPED [] [11]; ObStep R_MACROSTEPPED [] [11]; ObOk; ObStep R_CANCELLED [] [11];
     ObStep R_FINISHED [LBefore; LLog 11; LAfter] [11]; ObStep R_FINISHED [] [11]].
Proof. vm_compute. reflexivity. Qed.

(* ------------------------------------------------------------------------------------------ *)
(** * (c) cancel() unblocks a blocked step()                                                     *)

Definition cu_inv (s : cu) : Prop :=
  (u_c s <> CP1 -> u_flag s = true)
  /\ (u_c s = CDone -> u_p s = PDone \/ u_p s = PCheck \/ In 0 (u_q s)).

Lemma cu_inv_step : forall s t s', cu_inv s -> cu_step cu_code s t = Some s' -> cu_inv s'.
Proof.
  intros s t s' (H1 & H2) Hs. destruct t; simpl in Hs.
  - (* stepper *)
    destruct (u_p s) eqn:Hp.
    + destruct (u_q s) as [|e q] eqn:Hq; [discriminate Hs|]. inversion Hs; subst s'; clear Hs. split; simpl; auto.
      intro Hc. destruct (H2 Hc) as [Hx|[Hx|Hx]]; try discriminate Hx.
      destruct (e =? 0) eqn:He; auto. right; right. destruct Hx as [Hx|Hx]; auto.
      subst e. discriminate He.
    + inversion Hs; subst s'; clear Hs. split; simpl; auto. intro Hc.
      rewrite (H1 ltac:(rewrite Hc; discriminate)). auto.
    + inversion Hs; subst s'; clear Hs. split; simpl; auto. intro Hc.
      destruct (H2 Hc) as [Hx|[Hx|Hx]]; try discriminate Hx. auto.
    + discriminate Hs.
  - (* canceller *)
    destruct (u_c s) eqn:Hc; simpl in Hs.
    + inversion Hs; subst s'; clear Hs. split; simpl; auto. intro H; discriminate H.
    + inversion Hs; subst s'; clear Hs. split; simpl.
      * intros _. apply H1. discriminate.
      * intros _. right; right. apply in_or_app. right; left; reflexivity.
    + discriminate Hs.
  - (* another thread enqueues *)
    inversion Hs; subst s'; clear Hs. split; simpl; auto. intro Hc.
    destruct (H2 Hc) as [Hx|[Hx|Hx]]; auto. right; right. apply in_or_app; left; exact Hx.
Qed.

Lemma cu_inv_run : forall sched s, cu_inv s -> cu_inv (cu_run cu_code s sched).
Proof.
  induction sched as [|t r IH]; intros s Hi; simpl; auto.
  destruct (cu_step cu_code s t) as [s'|] eqn:Hs; auto. apply IH. eapply cu_inv_step; eauto.
Qed.

(* U: for every initial queue content, every position of the stepper and every interleaving of the
   stepper, cancel() and enqueues of other threads: once cancel() has returned, the stepper is not
   waiting on an empty queue; and it has seen the flag whenever it reads it after the unblock event *)
Theorem cancel_unblocks_lemma : forall q p sched,
  let s := cu_run cu_code (cu_init q p) sched in
  cu_lost s = false /\ (u_c s = CDone -> u_flag s = true).
Proof.
  intros q p sched s.
  assert (Hi : cu_inv s).
  { apply cu_inv_run. split; simpl; [intro H; contradiction H; reflexivity | intro H; discriminate H]. }
  destruct Hi as (H1 & H2). split.
  - unfold cu_lost. destruct (u_c s) eqn:Hc; auto. destruct (u_p s) eqn:Hp; auto. destruct (u_q s) eqn:Hq; auto.
    destruct (H2 eq_refl) as [Hx|[Hx|Hx]]; try discriminate Hx. contradiction Hx.
  - intro Hc. apply H1. rewrite Hc. discriminate.
Qed.

(* once cancel() returned and nobody else enqueues, the stepper reaches CANCELLED within
   2*|queue|+2 of its own steps *)
Fixpoint cu_steps (s : cu) (n : nat) : cu :=
  match n with O => s | S k => match cu_step cu_code s UStep with Some s' => cu_steps s' k | None => s end end.

Lemma cu_reaches_done : forall n s, cu_inv s -> u_c s = CDone ->
  (2 * length (u_q s) + match u_p s with PBusy => 2 | PWait => 1 | _ => 0 end < n)%nat ->
  u_p (cu_steps s n) = PDone.
Proof.
  induction n as [|n IH]; intros s Hi Hc Hn; [inversion Hn|].
  simpl. destruct (cu_step cu_code s UStep) as [s'|] eqn:Hs.
  - pose proof (cu_inv_step s UStep s' Hi Hs) as Hi'.
    simpl in Hs. destruct (u_p s) eqn:Hp.
    + destruct (u_q s) as [|e q] eqn:Hq; [discriminate Hs|]. inversion Hs; subst s'; clear Hs.
      apply IH; auto. simpl in *. destruct (e =? 0); lia.
    + inversion Hs; subst s'; clear Hs. destruct Hi as (H1 & _).
      rewrite (H1 ltac:(rewrite Hc; discriminate)) in *. simpl.
      destruct n; reflexivity.
    + inversion Hs; subst s'; clear Hs. apply IH; auto. simpl in *. lia.
    + discriminate Hs.
  - simpl in Hs. destruct (u_p s) eqn:Hp; try discriminate Hs; auto.
    destruct (u_q s) eqn:Hq; [|discriminate Hs].
    destruct Hi as (_ & H2). destruct (H2 Hc) as [Hx|[Hx|Hx]]; try (rewrite Hp in Hx; discriminate Hx).
    rewrite Hq in Hx. contradiction Hx.
Qed.

(* had cancel() enqueued the unblock event before setting the flag, the cancellation could be lost *)
Lemma cancel_unblocks_order_matters :
  exists sched, cu_lost (cu_run {| cv_enqueue_first := true |} (cu_init [] PWait) sched) = true.
Proof. exists [UCancel; UStep; UStep; UCancel]. reflexivity. Qed.

(* ------------------------------------------------------------------------------------------ *)
(** * (b) Tear-down of the timer thread                                                         *)

(* genuine executions: every choice of the schedule is enabled *)
Fixpoint td_exec (v : td_variant) (s : td) (sched : list tid) : option td :=
  match sched with
  | [] => Some s
  | t :: r => match td_step v s t with Some s' => td_exec v s' r | None => None end
  end.

Definition b2n (b : bool) : nat := if b then 1 else 0.
Definition spc_rem (p : spc) : nat :=
  match p with SP0 => 5 | SP1 => 4 | SP2 => 3 | SP3 => 2 | SP4 => 1 | SDone => 0 end.
Definition rpc_pos (p : rpc) : nat :=
  match p with RP1 => 3 | RP2 => 2 | RP3 => 1 | RP4 => 4 | RDone => 0 end.
Definition td_measure (s : td) : nat :=
  5 * (2 * t_timers s + b2n (negb (Nat.eqb (t_due s) 0)) + b2n (t_kick s)
       + b2n (t_break s && match t_r s with RP3 => true | _ => false end) + 3 * spc_rem (t_s s))
  + rpc_pos (t_r s).

(* every step of either thread or of the environment decreases the measure: every execution is
   finite, in both variants (the pinned code dead-locks, it does not live-lock) *)
Lemma td_step_decreases : forall v s t s', td_step v s t = Some s' -> (td_measure s' < td_measure s)%nat.
Proof.
  intros v [st br ki ti du r sp] t s' Hs. destruct t; simpl in Hs.
  - destruct r; try discriminate Hs.
    + inversion Hs; subst s'; clear Hs. unfold td_measure; simpl. destruct st; simpl; destruct br; simpl; lia.
    + inversion Hs; subst s'; clear Hs. unfold td_measure; simpl. destruct br; simpl; lia.
    + destruct br; simpl in Hs.
      * inversion Hs; subst s'; clear Hs. unfold td_measure; simpl. lia.
      * destruct ki; simpl in Hs.
        { inversion Hs; subst s'; clear Hs. unfold td_measure; simpl. destruct (Nat.eqb du 0); simpl; lia. }
        destruct (Nat.eqb du 0) eqn:Hd; simpl in Hs; [discriminate Hs|].
        inversion Hs; subst s'; clear Hs. unfold td_measure; simpl. rewrite Hd. simpl. lia.
    + inversion Hs; subst s'; clear Hs. unfold td_measure; simpl. destruct br; simpl; lia.
  - destruct sp; try discriminate Hs.
    + inversion Hs; subst s'; clear Hs. unfold td_measure; simpl. destruct (Nat.eqb du 0); simpl; lia.
    + inversion Hs; subst s'; clear Hs. unfold td_measure; simpl. destruct st; simpl; lia.
    + inversion Hs; subst s'; clear Hs. unfold td_measure; simpl.
      destruct (tv_sticky_wakeup v), ki, br, r; simpl; lia.
    + inversion Hs; subst s'; clear Hs. unfold td_measure; simpl. destruct (Nat.eqb du 0); simpl; lia.
    + destruct r; try discriminate Hs. inversion Hs; subst s'; clear Hs. unfold td_measure; simpl. lia.
  - destruct ti as [|n]; [discriminate Hs|]. inversion Hs; subst s'; clear Hs. unfold td_measure; simpl.
    destruct (Nat.eqb du 0); simpl; lia.
Qed.

Lemma td_exec_bounded : forall v sched s s', td_exec v s sched = Some s' ->
  (length sched + td_measure s' <= td_measure s)%nat.
Proof.
  induction sched as [|t r IH]; intros s s' Hx; simpl in Hx.
  - inversion Hx; subst; simpl; lia.
  - destruct (td_step v s t) as [s1|] eqn:Hs; [|discriminate Hx].
    pose proof (td_step_decreases v s t s1 Hs). pose proof (IH s1 s' Hx). simpl. lia.
Qed.

(* the invariant of the repaired stop() *)
Definition td_inv (s : td) : Prop :=
  (match t_s s with SP0 | SP1 => t_started s = true | _ => t_started s = false end)
  /\ (match t_s s with SP3 | SP4 => (match t_r s with RP2 | RP3 => t_kick s = true | _ => True end) | _ => True end)
  /\ (t_s s = SDone -> t_r s = RDone).

Lemma td_inv_init : forall n sp, sp = SP0 \/ sp = SP1 -> td_inv (td_init n sp).
Proof. intros n sp [H|H]; subst sp; repeat split; simpl; auto; intro H; discriminate H. Qed.

Lemma td_inv_step : forall s t s', td_inv s -> td_step td_fixed s t = Some s' -> td_inv s'.
Proof.
  intros [st br ki ti du r sp] t s' (H1 & H2 & H3) Hs. simpl in *.
  destruct t.
  - destruct r, sp, st, br, ki; simpl in *; try discriminate H1; try discriminate H2; try discriminate Hs;
      try (specialize (H3 eq_refl); discriminate H3);
      try (destruct (Nat.eqb du 0); simpl in Hs; try discriminate Hs);
      inversion Hs; subst s'; simpl; repeat split; auto; intro Hd; discriminate Hd.
  - destruct r, sp, st, br, ki; simpl in *; try discriminate H1; try discriminate H2; try discriminate Hs;
      try (specialize (H3 eq_refl); discriminate H3);
      inversion Hs; subst s'; simpl; repeat split; auto; intro Hd; discriminate Hd.
  - simpl in Hs. destruct ti as [|n]; [discriminate Hs|]. inversion Hs; subst s'; clear Hs. repeat split; simpl; auto.
Qed.

Lemma td_inv_exec : forall sched s s', td_inv s -> td_exec td_fixed s sched = Some s' -> td_inv s'.
Proof.
  induction sched as [|t r IH]; intros s s' Hi Hx; simpl in Hx.
  - inversion Hx; subst; exact Hi.
  - destruct (td_step td_fixed s t) as [s1|] eqn:Hs; [|discriminate Hx]. eapply IH; [|exact Hx]. eapply td_inv_step; eauto.
Qed.

Lemma td_inv_not_deadlocked : forall s, td_inv s -> td_deadlocked td_fixed s = false.
Proof.
  intros [st br ki ti du r sp] (H1 & H2 & H3). simpl in *. unfold td_deadlocked, td_final, td_enabled. simpl.
  destruct sp, r, br, ki, ti; simpl in *; try reflexivity; try discriminate H2;
    try (specialize (H3 eq_refl); discriminate H3); destruct (Nat.eqb du 0); reflexivity.
Qed.

(* U (repaired stop()): from the creation of the queue with any number of pending timers, whether the
   interpreter's destructor (s0) or the queue's own (s1) starts the tear-down, under EVERY
   interleaving of the timer thread, stop() and timer expiry: the execution has at most
   td_measure(initial) steps, and whenever nobody can move any more the join has returned *)
Theorem teardown_terminates_lemma : forall n sp sched s',
  sp = SP0 \/ sp = SP1 ->
  td_exec td_fixed (td_init n sp) sched = Some s' ->
  (length sched <= td_measure (td_init n sp))%nat
  /\ td_deadlocked td_fixed s' = false
  /\ (td_enabled td_fixed s' = false -> td_final s' = true).
Proof.
  intros n sp sched s' Hsp Hx. split; [|split].
  - pose proof (td_exec_bounded _ _ _ _ Hx). lia.
  - apply td_inv_not_deadlocked. eapply td_inv_exec; [|exact Hx]. apply td_inv_init; exact Hsp.
  - intro He. assert (Hd : td_deadlocked td_fixed s' = false).
    { apply td_inv_not_deadlocked. eapply td_inv_exec; [|exact Hx]. apply td_inv_init; exact Hsp. }
    unfold td_deadlocked in Hd. rewrite He in Hd. simpl in Hd. rewrite andb_true_r in Hd.
    destruct (td_final s'); auto.
Qed.

(* pinned: stop() between the _isStarted test and event_base_loop loses the wake-up: r1 s1 s2 r2 s3 *)
Definition lost_wakeup_schedule : list tid := [TRun; TStop; TStop; TRun; TStop].

Lemma teardown_terminates_refuted_lemma :
  exists sched s', td_exec td_pinned (td_init 0 SP1) sched = Some s'
    /\ td_deadlocked td_pinned s' = true /\ td_final s' = false /\ td_enabled td_pinned s' = false.
Proof. exists lost_wakeup_schedule. eexists. split; [reflexivity|]. repeat split; reflexivity. Qed.

(* ... also when the interpreter's destructor runs first, and with a timer that was cancelled *)
Lemma teardown_terminates_refuted_interp :
  exists sched s', td_exec td_pinned (td_init 1 SP0) sched = Some s' /\ td_deadlocked td_pinned s' = true.
Proof. exists [TRun; TStop; TStop; TStop; TRun; TStop]. eexists. split; reflexivity. Qed.

(* the same schedule is harmless for the repaired stop() *)
Example lost_wakeup_schedule_fixed :
  exists s', td_exec td_fixed (td_init 0 SP1) (lost_wakeup_schedule ++ [TRun; TRun; TRun; TStop]) = Some s'
    /\ td_final s' = true.
Proof. eexists. split; reflexivity. Qed.

(* ------------------------------------------------------------------------------------------ *)
(** * cancel() leads to FINISHED                                                                *)

Section Progress.
  Variable C : Type.
  Variable ch : chart C.


  Definition sel_some (m : stepper C) (e : option ev) : bool :=
    match m_cfg m with
    | Some c => match ch_select ch c e with Some _ => true | None => false end
    | None => false
    end.

  (* does step() apply a micro-step of the chart (initial entry or a transition set)? *)
  Definition ms_takes (m : stepper C) (q : queues) : bool :=
    let f := m_flags m in
    if fl_fin f then false else if fl_tlf f then false
    else if fl_is_pristine f then true
    else if fl_spont f then sel_some m None
    else match q_int q with
         | e :: _ => sel_some m (Some e)
         | [] => if negb (fl_stable f) then false
                 else match q_ext q with
                      | e :: _ => if e =? 0 then false else sel_some m (Some e)
                      | [] => false
                      end
         end.

  Fixpoint ms_run (n : nat) (m : stepper C) (q : queues) : stepper C * queues :=
    match n with
    | O => (m, q)
    | S k => ms_run k (st_m C (ms_step ch m q)) (st_q C (ms_step ch m q))
    end.

  (* number of chart micro-steps among the next n calls of step() *)
  Fixpoint ms_taken (n : nat) (m : stepper C) (q : queues) : nat :=
    match n with
    | O => 0
    | S k => b2n (ms_takes m q) + ms_taken k (st_m C (ms_step ch m q)) (st_q C (ms_step ch m q))
    end.

  Lemma ms_run_add : forall a b m q, ms_run (a + b) m q = ms_run b (fst (ms_run a m q)) (snd (ms_run a m q)).
  Proof. induction a as [|a IH]; intros b m q; simpl; auto. Qed.

  Lemma ms_taken_add : forall a b m q,
    ms_taken (a + b) m q = (ms_taken a m q + ms_taken b (fst (ms_run a m q)) (snd (ms_run a m q)))%nat.
  Proof. induction a as [|a IH]; intros b m q; simpl; auto. rewrite IH. lia. Qed.

  Lemma ms_run_cancelled : forall n m q, m_cancelled (fst (ms_run n m q)) = m_cancelled m.
  Proof.
    induction n as [|n IH]; intros m q; simpl; auto. rewrite IH.
    destruct (ms_step_cases C ch m q) as [H _]. exact H.
  Qed.

  (* what is left to do without help from the chart *)
  Definition phi (m : stepper C) (q : queues) : nat :=
    let f := m_flags m in
    if fl_fin f then 0 else if fl_tlf f then 1
    else 2 + 4 * (length (q_int q) + length (q_ext q)) + 2 * b2n (fl_spont f) + b2n (negb (fl_stable f)).

  Lemma select_none : forall m q e, sel_some m e = false ->
    select ch m q e = ({| m_flags := set_spont (set_stable (m_flags m) false) (match e with Some _ => true | None => false end); m_cancelled := m_cancelled m; m_cfg := m_cfg m |},
                       q, R_MICROSTEPPED, []).
  Proof.
    intros m q e H. unfold select, sel_some in *. destruct (m_cfg m) as [c|]; auto.
    destruct (ch_select ch c e); [discriminate H|reflexivity].
  Qed.

  (* a cancelled interpreter that takes no micro-step gets strictly closer to FINISHED *)
  Lemma phi_step : forall m q, m_cancelled m = true -> fl_fin (m_flags m) = false -> ms_takes m q = false ->
    (phi (st_m C (ms_step ch m q)) (st_q C (ms_step ch m q)) < phi m q)%nat.
  Proof.
    intros m q Hc Hf Ht. unfold ms_takes in Ht. unfold ms_step, phi. rewrite Hf in *.
    destruct (fl_tlf (m_flags m)) eqn:Htlf.
    { unfold st_m, st_q. simpl. lia. }
    destruct (fl_is_pristine (m_flags m)); [discriminate Ht|].
    destruct (fl_spont (m_flags m)) eqn:Hsp.
    { rewrite (select_none m q None Ht). unfold st_m, st_q; simpl. rewrite ?Hf, ?Htlf. simpl.
      destruct (fl_stable (m_flags m)); simpl; lia. }
    destruct (q_int q) as [|e iq] eqn:Hqi.
    2:{ rewrite (select_none m _ (Some e) Ht). unfold st_m, st_q; simpl. rewrite ?Hf, ?Htlf, ?Hsp. simpl.
        destruct (fl_stable (m_flags m)); simpl; lia. }
    destruct (fl_stable (m_flags m)) eqn:Hst; simpl in Ht |- *.
    2:{ unfold st_m, st_q; simpl. rewrite ?Hf, ?Htlf, ?Hsp, ?Hqi. simpl. lia. }
    unfold after_dequeue. rewrite Hc.
    destruct (q_ext q) as [|e eq] eqn:Hqe.
    { unfold st_m, st_q; simpl. rewrite ?Hf. simpl. lia. }
    destruct (e =? 0).
    { unfold st_m, st_q; simpl. rewrite ?Hf. simpl. lia. }
    rewrite (select_none m _ (Some e) Ht). unfold st_m, st_q; simpl. rewrite ?Hf, ?Htlf, ?Hsp, ?Hqi. simpl. lia.
  Qed.

  Lemma within_phi : forall p m q, (phi m q <= p)%nat -> m_cancelled m = true ->
    exists k, fl_fin (m_flags (fst (ms_run k m q))) = true \/ (1 <= ms_taken k m q)%nat.
  Proof.
    induction p as [|p IH]; intros m q Hp Hc.
    - exists 0%nat. left. simpl. unfold phi in Hp. destruct (fl_fin (m_flags m)); auto.
      destruct (fl_tlf (m_flags m)); lia.
    - destruct (fl_fin (m_flags m)) eqn:Hf; [exists 0%nat; left; exact Hf|].
      destruct (ms_takes m q) eqn:Ht.
      + exists 1%nat. right. simpl. rewrite Ht. simpl. lia.
      + pose proof (phi_step m q Hc Hf Ht) as Hlt.
        destruct (IH (st_m C (ms_step ch m q)) (st_q C (ms_step ch m q))) as (k & Hk).
        * lia.
        * destruct (ms_step_cases C ch m q) as [H _]. rewrite H. exact Hc.
        * exists (S k). simpl. rewrite Ht. simpl. exact Hk.
  Qed.

  (* U, every chart: a cancelled interpreter that keeps being stepped reaches FINISHED, or else the
     chart itself takes micro-steps without end (more than any N) *)
  Lemma ms_progress : forall N m q, m_cancelled m = true ->
    exists n, fl_fin (m_flags (fst (ms_run n m q))) = true \/ (N <= ms_taken n m q)%nat.
  Proof.
    induction N as [|N IH]; intros m q Hc.
    - exists 0%nat. right. simpl. lia.
    - destruct (IH m q Hc) as (n & [Hn|Hn]); [exists n; left; exact Hn|].
      destruct (within_phi (phi (fst (ms_run n m q)) (snd (ms_run n m q))) (fst (ms_run n m q)) (snd (ms_run n m q)))
        as (k & Hk); [lia| rewrite ms_run_cancelled; exact Hc |].
      exists (n + k)%nat. rewrite ms_run_add, ms_taken_add. destruct Hk as [Hk|Hk]; [left; exact Hk|right; lia].
  Qed.

  (* bridge to the API model *)
  Variable v : lc_variant.

  Lemma exec_steps : forall n s m q, i_init s = true -> i_stepper s = Some m -> i_queues s = Some q ->
    exists s2, lc_exec v ch s (repeat OpStep n) = Some s2 /\ i_init s2 = true
      /\ i_stepper s2 = Some (fst (ms_run n m q)) /\ i_queues s2 = Some (snd (ms_run n m q)).
  Proof.
    induction n as [|n IH]; intros s m q Hi Hm Hq; simpl.
    - exists s. repeat split; auto.
    - rewrite (lc_step_init C ch s m q Hi Hm Hq). apply IH; reflexivity.
  Qed.

  Lemma repeat_snoc : forall (A : Type) (a : A) n, repeat a n ++ [a] = repeat a (S n).
  Proof. induction n as [|n IH]; simpl; auto. rewrite IH. reflexivity. Qed.

  Lemma lc_exec_app : forall a b s, lc_exec v ch s (a ++ b) =
    match lc_exec v ch s a with Some s' => lc_exec v ch s' b | None => None end.
  Proof.
    induction a as [|o a IH]; intros b s; simpl; auto.
    destruct o; auto.
    - destruct (lc_step ch s) as [[[s' r] l]|]; auto.
    - destruct (lc_receive e s); auto.
    - destruct (lc_cancel s); auto.
  Qed.

  Theorem cancel_leads_to_finished_lemma : forall s m q,
    i_init s = true -> i_stepper s = Some m -> i_queues s = Some q -> m_cancelled m = true ->
    forall N, exists n s2, lc_exec v ch s (repeat OpStep n) = Some s2
      /\ (i_state s2 = R_FINISHED \/ (N <= ms_taken n m q)%nat).
  Proof.
    intros s m q Hi Hm Hq Hc N.
    destruct (ms_progress N m q Hc) as (n & Hn).
    destruct (exec_steps n s m q Hi Hm Hq) as (s2 & Hx & Hi2 & Hm2 & Hq2).
    destruct Hn as [Hn|Hn].
    - (* the flag is set: the next step returns FINISHED *)
      exists (S n). rewrite <- repeat_snoc. rewrite lc_exec_app, Hx. simpl.
      rewrite (lc_step_init C ch s2 _ _ Hi2 Hm2 Hq2).
      destruct (ms_step_cases C ch (fst (ms_run n m q)) (snd (ms_run n m q))) as [_ Hcs].
      destruct Hcs as [[_ Hx']|[(Hf & _)|[(Hf & _)|(Hf & _)]]]; try (rewrite Hf in Hn; discriminate Hn).
      eexists. split; [reflexivity|]. left. simpl. rewrite Hx'. reflexivity.
    - exists n, s2. split; [exact Hx|]. right; exact Hn.
  Qed.

  (* if the chart takes at most K micro-steps, FINISHED is reached *)
  Corollary cancel_leads_to_finished_bounded : forall s m q K,
    i_init s = true -> i_stepper s = Some m -> i_queues s = Some q -> m_cancelled m = true ->
    (forall n, ms_taken n m q <= K)%nat ->
    exists n s2, lc_exec v ch s (repeat OpStep n) = Some s2 /\ i_state s2 = R_FINISHED.
  Proof.
    intros s m q K Hi Hm Hq Hc HK.
    destruct (cancel_leads_to_finished_lemma s m q Hi Hm Hq Hc (S K)) as (n & s2 & Hx & [Hf|Hf]).
    - exists n, s2. split; assumption.
    - specialize (HK n). lia.
  Qed.

  (* cancel() itself establishes the hypotheses *)
  Lemma cancel_establishes : forall (s s1 : istate C), i_init s = true -> lc_cancel s = Ok s1 ->
    i_init s1 = true /\ exists m q, i_stepper s1 = Some m /\ i_queues s1 = Some q /\ m_cancelled m = true /\ In 0 (q_ext q).
  Proof.
    intros s s1 Hi Hc. unfold lc_cancel, lc_receive in Hc.
    destruct (i_stepper s) as [m|]; [|discriminate Hc]. simpl in Hc.
    destruct (i_queues s) as [q|]; [|discriminate Hc]. inversion Hc; subst s1; clear Hc. simpl.
    split; [exact Hi|]. eexists; eexists. repeat split; simpl. apply in_or_app. right; left; reflexivity.
  Qed.
End Progress.

(* ------------------------------------------------------------------------------------------ *)
(** * A blocking step() after cancel() does not block                                            *)

Section Blocking.
  Variable C : Type.
  Variable ch : chart C.
  Variable v : lc_variant.

  (* step(forever) reaches dequeueExternal and finds the external queue empty *)
  Definition would_block (m : stepper C) (q : queues) : bool :=
    let f := m_flags m in
    negb (fl_fin f) && negb (fl_tlf f) && negb (fl_is_pristine f) && negb (fl_spont f)
    && match q_int q with [] => true | _ => false end
    && fl_stable f
    && match q_ext q with [] => true | _ => false end.

  (* a cancellation is pending: the flag is set and the unblock event is still queued, unless the
     interpreter is already finalising *)
  Definition pending (m : stepper C) (q : queues) : Prop :=
    m_cancelled m = true /\ (In 0 (q_ext q) \/ fl_tlf (m_flags m) = true \/ fl_fin (m_flags m) = true).

  Lemma pending_not_blocked : forall m q, pending m q -> would_block m q = false.
  Proof.
    intros m q (Hc & [Hq|[Ht|Hf]]); unfold would_block.
    - destruct (q_ext q); [contradiction Hq|]. rewrite !andb_false_r. reflexivity.
    - rewrite Ht. simpl. rewrite andb_false_r. reflexivity.
    - rewrite Hf. reflexivity.
  Qed.

  Lemma pending_step : forall m q, pending m q ->
    pending (st_m C (ms_step ch m q)) (st_q C (ms_step ch m q)).
  Proof.
    intros m q (Hc & Hp). unfold ms_step.
    destruct (fl_fin (m_flags m)) eqn:Hfin.
    { unfold st_m, st_q; simpl. split; auto. }
    destruct (fl_tlf (m_flags m)) eqn:Htlf.
    { unfold st_m, st_q; simpl. split; auto. }
    assert (Hq : In 0 (q_ext q)) by (destruct Hp as [Hp|[Hp|Hp]]; [exact Hp|discriminate Hp|discriminate Hp]).
    assert (Hsel : forall q0 e, In 0 (q_ext q0) -> pending (st_m C (select ch m q0 e)) (st_q C (select ch m q0 e))).
    { intros q0 e H0. pose proof (select_spec C ch m q0 e) as H. cbv zeta in H.
      destruct H as (_ & _ & _ & _ & H5 & H6). split; [rewrite H5; exact Hc|]. left. rewrite H6. exact H0. }
    destruct (fl_is_pristine (m_flags m)).
    { pose proof (apply_micro_spec C m q (set_init (set_spont (m_flags m) true) true) (ch_initial ch)) as H.
      cbv zeta in H. destruct H as (_ & _ & _ & _ & H5 & _ & H7). split; [rewrite H5; exact Hc|]. left. rewrite H7. exact Hq. }
    destruct (fl_spont (m_flags m)); [apply Hsel; exact Hq|].
    destruct (q_int q) as [|e iq]; [|apply Hsel; exact Hq].
    destruct (fl_stable (m_flags m)); simpl.
    2:{ unfold st_m, st_q; simpl. split; auto. }
    destruct (q_ext q) as [|e eq] eqn:Hqe; [contradiction Hq|].
    destruct (e =? 0) eqn:He.
    - unfold after_dequeue. rewrite Hc. unfold st_m, st_q; simpl. split; auto.
    - apply Hsel. simpl. destruct Hq as [Hq|Hq]; [subst e; discriminate He|exact Hq].
  Qed.

  Definition lpending (s : istate C) : Prop :=
    exists m q, i_stepper s = Some m /\ i_queues s = Some q /\ pending m q.

  Lemma lpending_exec : forall ops s s', ~ In OpReset ops -> lpending s -> lc_exec v ch s ops = Some s' -> lpending s'.
  Proof.
    induction ops as [|o ops IH]; intros s s' Hn (m & q & Hm & Hq & Hp) Hx; simpl in Hx.
    - inversion Hx; subst. exists m, q. auto.
    - assert (Hn' : ~ In OpReset ops) by (intro H; apply Hn; right; exact H).
      destruct o.
      + unfold lc_step in Hx. rewrite Hm, Hq in Hx. destruct (i_init s); simpl in Hx.
        * pose proof (pending_step m q Hp) as Hp'.
          destruct (ms_step ch m q) as [[[m' q'] r] l]. unfold st_m, st_q in Hp'; simpl in Hp'.
          eapply IH; [exact Hn'| |exact Hx]. exists m', q'. auto.
        * eapply IH; [exact Hn'| |exact Hx]. exists m, q. auto.
      + unfold lc_receive in Hx. rewrite Hq in Hx. eapply IH; [exact Hn'| |exact Hx].
        eexists; eexists. split; [exact Hm|]. split; [reflexivity|]. destruct Hp as (Hc & Hp). split; [exact Hc|]. simpl.
        destruct Hp as [Hp|Hp]; [left; apply in_or_app; left; exact Hp|right; exact Hp].
      + unfold lc_cancel, lc_receive in Hx. rewrite Hm in Hx. simpl in Hx. rewrite Hq in Hx.
        eapply IH; [exact Hn'| |exact Hx]. eexists; eexists. split; [reflexivity|]. split; [reflexivity|].
        split; [reflexivity|]. left. simpl. apply in_or_app. right; left; reflexivity.
      + exfalso. apply Hn. left; reflexivity.
      + discriminate Hx.
  Qed.

  (* U, every chart, both variants: from a successful cancel() on -- whatever is stepped, received
     or cancelled afterwards, until a reset() -- a blocking step() would not block *)
  Theorem cancel_never_blocks_lemma : forall s s1 ops s2,
    lc_cancel s = Ok s1 -> ~ In OpReset ops -> lc_exec v ch s1 ops = Some s2 ->
    exists m q, i_stepper s2 = Some m /\ i_queues s2 = Some q /\ would_block m q = false.
  Proof.
    intros s s1 ops s2 Hc Hn Hx.
    assert (H1 : lpending s1).
    { unfold lc_cancel, lc_receive in Hc. destruct (i_stepper s) as [m|]; [|discriminate Hc]. simpl in Hc.
      destruct (i_queues s) as [q|]; [|discriminate Hc]. inversion Hc; subst s1; clear Hc.
      eexists; eexists. split; [reflexivity|]. split; [reflexivity|]. split; [reflexivity|].
      left. simpl. apply in_or_app. right; left; reflexivity. }
    destruct (lpending_exec ops s1 s2 Hn H1 Hx) as (m & q & Hm & Hq & Hp).
    exists m, q. split; [exact Hm|]. split; [exact Hq|]. apply pending_not_blocked; exact Hp.
  Qed.
End Blocking.

(* the hypotheses of cancel_leads_to_finished / cancel_never_blocks are satisfiable, and on the demo
   chart the bound is concrete: cancelled in its first idle configuration it is FINISHED after 2 steps *)
Example cancel_hypotheses_satisfiable :
  exists s s1 s2, lc_exec lc_pinned demo_chart (fresh lc_pinned) [OpStep; OpStep; OpStep; OpStep] = Some s
    /\ i_init s = true /\ lc_cancel s = Ok s1
    /\ lc_exec lc_pinned demo_chart s1 (repeat OpStep 2) = Some s2 /\ i_state s2 = R_FINISHED.
Proof. do 3 eexists. split; [reflexivity|]. split; [reflexivity|]. split; [reflexivity|]. split; reflexivity. Qed.

(* ------------------------------------------------------------------------------------------ *)
(** * The combined oracle                                                                       *)

Theorem lifecycle_safe_lemma : forall (C : Type) (ch : chart C) v, lv_lazy_queues v = false ->
  forall ops, lifecycle_okb ops (lc_observe v ch ops) = true.
Proof.
  intros C ch v Hv ops. unfold lifecycle_okb.
  destruct (receive_safe_everywhere_lemma C ch v Hv ops) as [Hn _]. rewrite Hn.
  rewrite (step_results_regular_lemma C ch v ops).
  rewrite (finished_absorbing_lemma C ch v ops).
  rewrite (completion_once_lemma C ch v ops).
  unfold lc_observe. rewrite (cancel_never_idle_lemma C ch v ops). reflexivity.
Qed.

(* everything but crash-freedom also holds of the pinned variant *)
Theorem lifecycle_safe_but_crash_lemma : forall (C : Type) (ch : chart C) v ops,
  lifecycle_regexb (lc_observe v ch ops) = true /\ finished_quietb false (lc_observe v ch ops) = true
  /\ completion_okb false [] (lc_observe v ch ops) = true
  /\ cancel_okb false false ops (lc_run v ch (fresh v) ops) = true.
Proof.
  intros. repeat split.
  - apply step_results_regular_lemma.
  - apply finished_absorbing_lemma.
  - apply completion_once_lemma.
  - apply cancel_never_idle_lemma.
Qed.

(* ------------------------------------------------------------------------------------------ *)
(** * The automaton is the life-cycle language                                                   *)

Definition is_running (r : sres) : bool :=
  match r with R_MICROSTEPPED | R_MACROSTEPPED | R_IDLE => true | _ => false end.

(* INSTANTIATED? INITIALIZED (MICROSTEPPED|MACROSTEPPED|IDLE)* CANCELLED? FINISHED^k *)
Definition lifecycle_word (w : list sres) : Prop :=
  exists i r c k, (i = [] \/ i = [R_INSTANTIATED]) /\ forallb is_running r = true
    /\ (c = [] \/ c = [R_CANCELLED]) /\ w = i ++ [R_INITIALIZED] ++ r ++ c ++ repeat R_FINISHED k.

(* finite observations are prefixes of words *)
Definition lifecycle_prefix (w : list sres) : Prop := exists t, lifecycle_word (w ++ t).

Lemma acc_finished : forall w, l_accepts L_FINISHED w = true -> w = repeat R_FINISHED (length w).
Proof.
  induction w as [|r w IH]; simpl; intro H; auto.
  destruct r; simpl in H; try discriminate H. f_equal. apply IH; exact H.
Qed.

Lemma acc_cancelled : forall w, l_accepts L_CANCELLED w = true -> w = repeat R_FINISHED (length w).
Proof.
  destruct w as [|r w]; simpl; intro H; auto.
  destruct r; simpl in H; try discriminate H. f_equal. apply acc_finished; exact H.
Qed.

Lemma acc_running : forall w, l_accepts L_RUNNING w = true ->
  exists r c k, forallb is_running r = true /\ (c = [] \/ c = [R_CANCELLED]) /\ w = r ++ c ++ repeat R_FINISHED k.
Proof.
  induction w as [|x w IH]; simpl; intro H.
  - exists [], [], 0%nat. repeat split; auto.
  - destruct x; simpl in H; try discriminate H.
    + exists [], [], (S (length w)). repeat split; auto. simpl. f_equal. apply acc_finished; exact H.
    + destruct (IH H) as (r & c & k & H1 & H2 & H3). exists (R_IDLE :: r), c, k. repeat split; auto. simpl. rewrite H3; reflexivity.
    + destruct (IH H) as (r & c & k & H1 & H2 & H3). exists (R_MICROSTEPPED :: r), c, k. repeat split; auto. simpl. rewrite H3; reflexivity.
    + destruct (IH H) as (r & c & k & H1 & H2 & H3). exists (R_MACROSTEPPED :: r), c, k. repeat split; auto. simpl. rewrite H3; reflexivity.
    + exists [], [R_CANCELLED], (length w). repeat split; auto. simpl. f_equal. apply acc_cancelled; exact H.
Qed.

Lemma acc_prefix_closed : forall w t q, l_accepts q (w ++ t) = true -> l_accepts q w = true.
Proof.
  induction w as [|x w IH]; intros t q H; simpl in *; auto.
  destruct (l_next q x); [eapply IH; eauto|discriminate H].
Qed.

Lemma acc_fin_repeat : forall k, l_accepts L_FINISHED (repeat R_FINISHED k) = true.
Proof. induction k; simpl; auto. Qed.

Lemma acc_running_word : forall r c k, forallb is_running r = true -> (c = [] \/ c = [R_CANCELLED]) ->
  l_accepts L_RUNNING (r ++ c ++ repeat R_FINISHED k) = true.
Proof.
  induction r as [|x r IH]; intros c k Hr Hc; simpl.
  - destruct Hc as [Hc|Hc]; subst c; simpl.
    + destruct k; simpl; auto. apply acc_fin_repeat.
    + destruct k; simpl; auto. apply acc_fin_repeat.
  - simpl in Hr. apply andb_true_iff in Hr. destruct Hr as [Hx Hr].
    destruct x; simpl in Hx; try discriminate Hx; simpl; apply IH; auto.
Qed.

(* the acceptor of the theorems decides the regular language of the property text *)
Theorem l_accepts_iff_language : forall w, l_accepts L_START w = true <-> lifecycle_prefix w.
Proof.
  intro w. split.
  - intro H. destruct w as [|x w].
    + exists [R_INITIALIZED]. exists [], [], [], 0%nat. repeat split; auto.
    + simpl in H. destruct x; simpl in H; try discriminate H.
      * destruct (acc_running w H) as (r & c & k & H1 & H2 & H3).
        exists []. exists [], r, c, k. repeat split; auto. rewrite app_nil_r. simpl. rewrite H3. reflexivity.
      * destruct w as [|y w].
        { exists [R_INITIALIZED]. exists [R_INSTANTIATED], [], [], 0%nat. repeat split; auto. }
        simpl in H. destruct y; simpl in H; try discriminate H.
        destruct (acc_running w H) as (r & c & k & H1 & H2 & H3).
        exists []. exists [R_INSTANTIATED], r, c, k. repeat split; auto. rewrite app_nil_r. simpl. rewrite H3. reflexivity.
  - intros (t & i & r & c & k & Hi & Hr & Hc & Hw).
    apply (acc_prefix_closed w t). rewrite Hw.
    destruct Hi as [Hi|Hi]; subst i; simpl; apply acc_running_word; auto.
Qed.
