(* EngineEquivHistEnter.v -- C03 beyond the history-free core: ENTER_STATES of FastMicroStep (Fast.fenter_one)
   against LargeMicroStep's (Large.enter_one) on charts WITH pseudo-states (wf_histb).
   New against EngineEquivStep.v:
   - both engines skip pseudo-states of the entry set; the large entry set still holds the <initial> pseudo-states
     the fast one has dropped (EngineEquivHistEntry.v);
   - the default transitions of <history> / <initial> children are executed when their parent is entered: the fast
     engine walks the transition set in index order and takes those whose source's parent is the entered state,
     the large engine walks the children of the entered state and their transition lists.  The two lists are equal
     because AT MOST ONE pseudo-state child of a state has its default transition in the transition set of one
     microstep (invariant hi_uniq of the descendant loop) -- so no order between several of them is ever observed;
   - the dynamic done-event guard is evaluated on the PROPER states entered (ms_guardb_hist).
   Definitions of the guard and proofs. *)
From V Require Import Base NameMatch Chart Exec Large LargeLemmas Fast Legal SetLemmas LegalAbstract LegalLarge
  LegalRun WfCore LegalOracle LargeCacheLemmas SelectConform SelectConformLemmas MicroConform MicroConformLemmas
  LegalHistBase LegalHistEntry LegalHistStep LegalHistWf
  EngineEquivBase EngineEquivDone EngineEquivStep EngineEquivSelect EngineEquivHistEntry EngineEquivHistDone.
Local Open Scope nat_scope.

Definition properb (c : fchart) (i : nat) : bool := negb (is_pseudo (fs_type (st c i))).

(* the dynamic side condition of a microstep: done_guardb of EngineEquivStep.v on the proper states entered *)
Definition ms_guardb_hist (c : fchart) (l : lstate) (targets exitset transset : list nat) (initial_step : bool) : bool :=
  let cfg := l_cfg l in
  let hist := if initial_step then l_hist l else remember_history c cfg exitset (l_hist l) in
  let es := fst (entry_set lg_fixed c cfg exitset hist targets transset) in
  let cfg1 := set_diff cfg exitset in
  let E := filter (properb c) (set_diff es cfg1) in
  done_guardb c (ins_all E cfg1) E.

(* ------------------------------------------------------------------ default transitions run when entering *)

Definition is_dflt (c : fchart) (ti : nat) : bool := ft_history (tr c ti) || ft_initial (tr c ti).

Definition dflt_run (xv : ex_variant) (c : fchart) (cfg1 : list nat) (x : xstate) (ti : nat) : xstate :=
  let t := tr c ti in
  let y1 := emit (TTb (ft_vid t)) x in
  let y2 := if ft_has_body t then exec_block xv (inst_of c cfg1) (ft_body t) y1 else y1 in
  emit (TTe (ft_vid t)) y2.

(* the default transitions the fast / the large engine executes when state i is entered, in execution order *)
Definition dflt_fast (c : fchart) (ts : list nat) (i : nat) : list nat :=
  filter (fun ti => is_dflt c ti && match fs_parent (st c (ft_source (tr c ti))) with Some p => p =? i | None => false end) ts.
Definition dflt_large (c : fchart) (ts : list nat) (i : nat) : list nat :=
  flat_map (fun k => if is_pseudo (fs_type (st c k)) then filter (fun ti => is_dflt c ti && mem ti ts) (fs_trans (st c k)) else [])
           (fs_children (st c i)).

Lemma eh_fold_filter {A B} (p : B -> bool) (f : A -> B -> A) l : forall x,
  fold_left (fun x y => if p y then f x y else x) l x = fold_left f (filter p l) x.
Proof. induction l as [|y r IH]; intros x; cbn [fold_left filter]; [reflexivity|]. destruct (p y); cbn [fold_left]; apply IH. Qed.

Lemma eh_fold_flat_map {A B C} (g : B -> list C) (f : A -> C -> A) l : forall x,
  fold_left (fun x y => fold_left f (g y) x) l x = fold_left f (flat_map g l) x.
Proof. induction l as [|y r IH]; intros x; cbn [fold_left flat_map]; [reflexivity|]. rewrite fold_left_app. apply IH. Qed.

Section Dflt.
Variable xv : ex_variant.
Variable c : fchart.

Lemma eh_fast_x5 ts cfg1 i x4 :
  fold_left (fun x ti =>
               let t := tr c ti in
               if (ft_history t || ft_initial t) &&
                  match fs_parent (st c (ft_source t)) with Some p => p =? i | None => false end then
                 let y1 := emit (TTb (ft_vid t)) x in
                 let y2 := if ft_has_body t then exec_block xv (inst_of c cfg1) (ft_body t) y1 else y1 in
                 emit (TTe (ft_vid t)) y2
               else x) ts x4 =
  fold_left (dflt_run xv c cfg1) (dflt_fast c ts i) x4.
Proof. unfold dflt_fast. rewrite <- eh_fold_filter. reflexivity. Qed.

Lemma eh_large_x5 ts cfg1 i x4 :
  fold_left
    (fun x k =>
       if is_pseudo (fs_type (st c k)) then
         fold_left (fun x ti =>
                      let t := tr c ti in
                      if (ft_history t || ft_initial t) && mem ti ts then
                        let y1 := emit (TTb (ft_vid t)) x in
                        let y2 := if ft_has_body t then exec_block xv (inst_of c cfg1) (ft_body t) y1 else y1 in
                        emit (TTe (ft_vid t)) y2
                      else x)
                   (fs_trans (st c k)) x
       else x)
    (fs_children (st c i)) x4 =
  fold_left (dflt_run xv c cfg1) (dflt_large c ts i) x4.
Proof.
  unfold dflt_large. rewrite <- eh_fold_flat_map. generalize (fs_children (st c i)) as l. intros l. revert x4.
  induction l as [|k r IH]; intros x4; cbn [fold_left]; [reflexivity|]. rewrite <- IH. f_equal.
  destruct (is_pseudo (fs_type (st c k))); [|reflexivity]. rewrite <- eh_fold_filter. reflexivity.
Qed.

End Dflt.

(* two duplicate-free lists with the same members, at most one of them *)
Lemma eh_single_eq (l1 l2 : list nat) : NoDup l1 -> NoDup l2 ->
  (forall x y, In x l1 -> In y l1 -> x = y) -> (forall x, In x l1 <-> In x l2) -> l1 = l2.
Proof.
  intros N1 N2 H1 Hm.
  assert (Hone : forall l : list nat, NoDup l -> (forall x y, In x l -> In y l -> x = y) -> l = [] \/ exists a, l = [a]).
  { intros l N H. destruct l as [|a [|b r]]; [now left | right; now exists a|]. exfalso.
    assert (a = b) by (apply H; cbn; tauto). subst b. inversion N as [|? ? Hn _]. apply Hn. now left. }
  assert (H2 : forall x y, In x l2 -> In y l2 -> x = y) by (intros x y Hx Hy; apply H1; now apply Hm).
  destruct (Hone l1 N1 H1) as [->|(a & ->)], (Hone l2 N2 H2) as [->|(b & ->)]; [reflexivity | | |].
  - exfalso. exact (proj2 (Hm b) (or_introl eq_refl)).
  - exfalso. exact (proj1 (Hm a) (or_introl eq_refl)).
  - f_equal. destruct (proj1 (Hm a) (or_introl eq_refl)) as [E|[]]. now symmetry.
Qed.

Lemma eh_NoDup_app (a b : list nat) : NoDup a -> NoDup b -> (forall x, In x a -> ~ In x b) -> NoDup (a ++ b).
Proof.
  induction 1 as [|x r Hx Hr IH]; intros Hb Hd; cbn [app]; [exact Hb|]. constructor.
  - intros H. apply in_app_iff in H as [H|H]; [contradiction | exact (Hd x (or_introl eq_refl) H)].
  - apply IH; [exact Hb | intros y Hy; apply Hd; now right].
Qed.

Lemma eh_NoDup_flat_map {A} (g : A -> list nat) (l : list A) : NoDup l -> (forall a, In a l -> NoDup (g a)) ->
  (forall a b x, In a l -> In b l -> In x (g a) -> In x (g b) -> a = b) -> NoDup (flat_map g l).
Proof.
  induction 1 as [|a r Ha Hnd IH]; intros Hg Hd; cbn [flat_map]; [constructor|].
  apply eh_NoDup_app.
  - apply Hg. now left.
  - apply IH; [intros b Hb; apply Hg; now right | intros b1 b2 x H1 H2; apply Hd; now right].
  - intros x Hx Hx2. apply in_flat_map in Hx2 as (b & Hb & Hxb).
    assert (a = b) by (apply (Hd a b x); [now left | now right | exact Hx | exact Hxb]). subst b. contradiction.
Qed.

Section DfltEq.
Variable c : fchart.
Hypothesis W : WFH c.
Let n := nstates c.
Let par (i : nat) := fs_parent (st c i).
Let kd (i : nat) := fs_type (st c i).
Notation pseudo := (pseudoS c).

Hypothesis Htrans_nodup : forall s, NoDup (fs_trans (st c s)).

Variable cfg exitset tg : list nat.
Variable ts0 el ts : list nat.
Hypothesis Hplain : plain_transb c ts0 = true.
Hypothesis HL : HInv c cfg exitset tg ETrue n el.
Hypothesis HT : TsOK c ts0 el ts.

(* a default transition in the transition set is the first transition of a pseudo-state of the entry set *)
Lemma eh_dflt_origin ti : In ti ts -> is_dflt c ti = true ->
  exists s r, In s el /\ pseudo s = true /\ fs_trans (st c s) = ti :: r /\ ft_source (tr c ti) = s.
Proof.
  intros Hti Hd. destruct (proj2 HT ti Hti) as [H0|(s & r & A & B & C)].
  - exfalso. unfold plain_transb in Hplain. rewrite forallb_forall in Hplain. specialize (Hplain ti H0).
    unfold is_dflt in Hd. rewrite Hd in Hplain. discriminate.
  - exists s, r. repeat split; try assumption. apply (wh_tr_src c W s ti). rewrite C. now left.
Qed.

Lemma eh_pseudo_child_uniq i s1 s2 : In s1 el -> In s2 el -> pseudo s1 = true -> pseudo s2 = true ->
  par s1 = Some i -> par s2 = Some i -> s1 = s2.
Proof.
  intros E1 E2 P1 P2 H1 H2. destruct (Nat.eq_dec s1 s2) as [E|Hne]; [exact E|]. exfalso.
  destruct (wh_pseudo_parent c W s1 P1) as (q & Hq & Hkq). pose proof (eq_trans (eq_sym H1) Hq) as E. injection E as <-.
  destruct (hi_uniq _ _ _ _ _ _ _ HL i s1 s2 Hkq H1 H2 E1 E2 Hne) as [(_ & _ & A)|(_ & _ & A)]; congruence.
Qed.

(* at most one default transition is executed when a state is entered *)
Lemma eh_dflt_fast_uniq i x y : In x (dflt_fast c ts i) -> In y (dflt_fast c ts i) -> x = y.
Proof.
  intros Hx Hy. unfold dflt_fast in Hx, Hy. apply filter_In in Hx as [Hx Hcx]. apply filter_In in Hy as [Hy Hcy].
  apply andb_true_iff in Hcx as [Dx Px]. apply andb_true_iff in Hcy as [Dy Py].
  destruct (eh_dflt_origin x Hx Dx) as (sx & rx & Ex & Psx & Tx & Sx).
  destruct (eh_dflt_origin y Hy Dy) as (sy & ry & Ey & Psy & Ty & Sy).
  rewrite Sx in Px. rewrite Sy in Py.
  assert (Hpx : par sx = Some i) by (unfold par; destruct (fs_parent (st c sx)); [apply Nat.eqb_eq in Px; now subst | discriminate]).
  assert (Hpy : par sy = Some i) by (unfold par; destruct (fs_parent (st c sy)); [apply Nat.eqb_eq in Py; now subst | discriminate]).
  pose proof (eh_pseudo_child_uniq i sx sy Ex Ey Psx Psy Hpx Hpy) as E. rewrite E in Tx. rewrite Tx in Ty. now injection Ty.
Qed.

Lemma eh_dflt_fast_le1 i : length (dflt_fast c ts i) <= 1.
Proof.
  assert (Hnd : NoDup (dflt_fast c ts i)) by (unfold dflt_fast; apply NoDup_filter; exact (ssorted_NoDup _ (proj1 HT))).
  pose proof (eh_dflt_fast_uniq i) as Hu.
  destruct (dflt_fast c ts i) as [|a [|b r]]; cbn [length]; [lia | lia|]. exfalso.
  assert (a = b) by (apply Hu; cbn; tauto). subst b. inversion Hnd as [|? ? Hn _]. apply Hn. now left.
Qed.

Theorem eh_dflt_eq i : dflt_fast c ts i = dflt_large c ts i.
Proof.
  apply eh_single_eq.
  - unfold dflt_fast. apply NoDup_filter. exact (ssorted_NoDup _ (proj1 HT)).
  - unfold dflt_large. apply eh_NoDup_flat_map.
    + exact (wh_children_nodup c W i).
    + intros k _. destruct (is_pseudo (fs_type (st c k))); [apply NoDup_filter, Htrans_nodup | constructor].
    + intros a b x _ _ Ha Hb.
      destruct (is_pseudo (fs_type (st c a))); [|destruct Ha]. destruct (is_pseudo (fs_type (st c b))); [|destruct Hb].
      apply filter_In in Ha as [Ha _]. apply filter_In in Hb as [Hb _].
      rewrite <- (wh_tr_src c W a x Ha). exact (wh_tr_src c W b x Hb).
  - exact (eh_dflt_fast_uniq i).
  - intros x. unfold dflt_fast, dflt_large. rewrite filter_In, in_flat_map. split.
    + intros [Hx Hc]. apply andb_true_iff in Hc as [Dx Px].
      destruct (eh_dflt_origin x Hx Dx) as (s & r & Es & Ps & Tx & Sx). rewrite Sx in Px.
      assert (Hp : par s = Some i) by (unfold par; destruct (fs_parent (st c s)); [apply Nat.eqb_eq in Px; now subst | discriminate]).
      exists s. split; [now apply (wh_children c W)|]. unfold pseudoS in Ps. rewrite Ps. apply filter_In. split; [rewrite Tx; now left|].
      rewrite Dx. cbn [andb]. now apply mem_In.
    + intros (k & Hk & Hx). destruct (is_pseudo (fs_type (st c k))); [|destruct Hx].
      apply filter_In in Hx as [Hx Hc]. apply andb_true_iff in Hc as [Dx Mx]. apply mem_In in Mx. split; [exact Mx|].
      rewrite Dx. cbn [andb]. rewrite (wh_tr_src c W k x Hx). apply (wh_children c W) in Hk. rewrite Hk. apply Nat.eqb_refl.
Qed.

End DfltEq.

(* ------------------------------------------------------------------ entering one state *)

Section Enter.
Variable xv : ex_variant.
Variable c : fchart.
Hypothesis Hwf : wf_histb c = true.
Let W : WFH c := wf_histb_sound c Hwf.
Let n := nstates c.
Let par (i : nat) := fs_parent (st c i).
Let ch (i : nat) := fs_children (st c i).
Let kd (i : nat) := fs_type (st c i).

Variable ts : list nat.

(* "the parent is the <scxml> element", the two ways of asking *)
Lemma eh_top_eq i :
  match fs_ancestors (st c i) with [0] => true | _ => false end =
  match fs_parent (st c i) with Some 0 => true | _ => false end.
Proof.
  destruct (fs_parent (st c i)) as [p|] eqn:Hp.
  - rewrite (ehd_anc_app c Hwf i p Hp).
    destruct p as [|p].
    + rewrite (ehd_anc_nil c Hwf 0 (wh_root_par c W)). reflexivity.
    + destruct (fs_ancestors (st c (S p))) as [|a r]; cbn [app]; [reflexivity|].
      destruct a; [destruct r; reflexivity | reflexivity].
  - rewrite (ehd_anc_nil c Hwf i Hp). reflexivity.
Qed.

Lemma eh_tail_eq cfg1 initd_f initd_l tlf x2 i :
  dflt_fast c ts i = dflt_large c ts i ->
  (fs_type (st c i) = FFinal -> forall x, done_fast c cfg1 i x = done_large c cfg1 i x) ->
  initd_eqv c initd_f initd_l ->
  acc_eqv c (tail_f xv c ts cfg1 initd_f tlf x2 i) (tail_l xv c ts cfg1 initd_l tlf x2 i).
Proof.
  intros Hd Hdone Hin. unfold tail_f, tail_l. cbn zeta.
  set (x4 := emit (TEe (fs_sid (st c i))) _).
  pose proof (eh_fast_x5 xv c ts cfg1 i x4) as E5f. pose proof (eh_large_x5 xv c ts cfg1 i x4) as E5l.
  cbn zeta in E5f, E5l. rewrite E5f, E5l, Hd. rewrite eh_top_eq.
  destruct (fs_type (st c i)) eqn:Ht; unfold acc_eqv; cbn [ea_cfg ea_initd ea_tlf ea_x]; try (repeat split; [exact Hin]).
  split; [reflexivity|]. split; [exact Hin|]. split; [reflexivity|]. apply Hdone. reflexivity.
Qed.

(* entering a proper state that is not active yet *)
Lemma eh_enter_one_rel af al i :
  acc_eqv c af al -> mem i (ea_cfg al) = false -> properb c i = true ->
  dflt_fast c ts i = dflt_large c ts i ->
  (fs_type (st c i) = FFinal -> forall x, done_fast c (insert_sorted i (ea_cfg al)) i x = done_large c (insert_sorted i (ea_cfg al)) i x) ->
  acc_eqv c (fenter_one xv c ts af i) (enter_one xv c ts al i).
Proof.
  intros (Hc & Hi & Ht & Hx) Hm Hp Hd Hdone. rewrite fenter_one_tail, enter_one_tail.
  unfold properb in Hp. apply negb_true_iff in Hp.
  rewrite Hc, Hm, Hp, Ht, Hx.
  destruct (fs_data (st c i)) as [|d ds] eqn:Hdt.
  - cbn [fold_left]. destruct (mem i (ea_initd af)).
    + now apply eh_tail_eq.
    + apply eh_tail_eq; [exact Hd | exact Hdone|]. now apply ee_initd_insert_nodata.
  - rewrite (Hi i) by (rewrite Hdt; discriminate). destruct (mem i (ea_initd al)).
    + now apply eh_tail_eq.
    + apply eh_tail_eq; [exact Hd | exact Hdone|]. now apply ee_initd_insert.
Qed.

Lemma eh_enter_one_cfg al i : properb c i = true -> ea_cfg (enter_one xv c ts al i) = insert_sorted i (ea_cfg al).
Proof.
  intros Hp. unfold properb in Hp. apply negb_true_iff in Hp. rewrite enter_one_tail, Hp.
  match goal with |- context [let '(initd1, x2) := ?e in _] => destruct e as [initd1 x2] end.
  unfold tail_l. cbn zeta. destruct (fs_type (st c i)); reflexivity.
Qed.

Lemma eh_fenter_one_cfg af i : mem i (ea_cfg af) = false -> properb c i = true ->
  ea_cfg (fenter_one xv c ts af i) = insert_sorted i (ea_cfg af).
Proof.
  intros Hm Hp. unfold properb in Hp. apply negb_true_iff in Hp. rewrite fenter_one_tail, Hm, Hp.
  match goal with |- context [let '(initd1, x2) := ?e in _] => destruct e as [initd1 x2] end.
  unfold tail_f. cbn zeta. destruct (fs_type (st c i)); reflexivity.
Qed.

Lemma eh_enter_fold_rel : forall E af al,
  acc_eqv c af al -> NoDup E -> (forall i, In i E -> ~ In i (ea_cfg al)) -> (forall i, In i E -> properb c i = true) ->
  (forall i, In i E -> dflt_fast c ts i = dflt_large c ts i) ->
  (forall pre f post, E = pre ++ f :: post -> fs_type (st c f) = FFinal ->
     forall x, done_fast c (insert_sorted f (ins_all pre (ea_cfg al))) f x = done_large c (insert_sorted f (ins_all pre (ea_cfg al))) f x) ->
  acc_eqv c (fold_left (fenter_one xv c ts) E af) (fold_left (enter_one xv c ts) E al).
Proof.
  induction E as [|i r IH]; intros af al Hrel Hnd Hdis Hprop Hdf Hdone; cbn [fold_left]; [exact Hrel|].
  inversion Hnd as [|? ? Hni Hnd']; subst.
  assert (Hm : mem i (ea_cfg al) = false) by (apply mem_false_In; apply Hdis; now left).
  assert (Hp : properb c i = true) by (apply Hprop; now left).
  apply IH.
  - apply eh_enter_one_rel; [exact Hrel | exact Hm | exact Hp | apply Hdf; now left|]. intros Hf x. exact (Hdone [] i r eq_refl Hf x).
  - exact Hnd'.
  - intros j Hj. rewrite (eh_enter_one_cfg al i Hp), In_insert_sorted'. intros [->|H]; [contradiction|]. apply (Hdis j); [now right | exact H].
  - intros j Hj. apply Hprop. now right.
  - intros j Hj. apply Hdf. now right.
  - intros pre f post E Hf x. rewrite (eh_enter_one_cfg al i Hp). apply (Hdone (i :: pre) f post); [now rewrite E | exact Hf].
Qed.

(* the large engine skips pseudo-states *)
Lemma eh_enter_skip : forall es al,
  fold_left (enter_one xv c ts) es al = fold_left (enter_one xv c ts) (filter (properb c) es) al.
Proof.
  induction es as [|i r IH]; intros al; cbn [fold_left filter]; [reflexivity|].
  unfold properb at 1. destruct (is_pseudo (fs_type (st c i))) eqn:Hp; cbn [negb].
  - replace (enter_one xv c ts al i) with al by (rewrite enter_one_tail, Hp; reflexivity). apply IH.
  - cbn [fold_left]. apply IH.
Qed.

(* the fast engine walks the whole entry set and skips what is active or a pseudo-state *)
Lemma eh_fenter_skip : forall es af, NoDup es ->
  fold_left (fenter_one xv c ts) es af =
  fold_left (fenter_one xv c ts) (filter (fun i => negb (mem i (ea_cfg af)) && properb c i) es) af.
Proof.
  induction es as [|i r IH]; intros af Hnd; cbn [fold_left filter]; [reflexivity|].
  inversion Hnd as [|? ? Hni Hnd']; subst.
  destruct (mem i (ea_cfg af)) eqn:Hm; cbn [negb andb].
  - replace (fenter_one xv c ts af i) with af by (rewrite fenter_one_tail, Hm; reflexivity). now apply IH.
  - destruct (properb c i) eqn:Hp.
    + cbn [fold_left]. rewrite (IH _ Hnd'). f_equal. apply ee_filter_ext_in. intros j Hj.
      rewrite (eh_fenter_one_cfg af i Hm Hp), mem_insert_sorted.
      replace (j =? i) with false; [reflexivity|]. symmetry. apply Nat.eqb_neq. intros ->. contradiction.
    + replace (fenter_one xv c ts af i) with af.
      2: { rewrite fenter_one_tail, Hm. unfold properb in Hp. apply negb_false_iff in Hp. now rewrite Hp. }
      now apply IH.
Qed.

End Enter.

(* ------------------------------------------------------------------ from the guard to the done events *)

Section Guard.
Variable c : fchart.
Hypothesis Hwf : wf_histb c = true.
Hypothesis Hleaf : leaf_okb c = true.
Hypothesis Hpar : par_nonemptyb c = true.
Let W : WFH c := wf_histb_sound c Hwf.
Let n := nstates c.
Let par (i : nat) := fs_parent (st c i).
Let ch (i : nat) := fs_children (st c i).
Let kd (i : nat) := fs_type (st c i).
Notation Anc := (LegalAbstract.Anc par).

Variable cfg1 E : list nat.
Hypothesis cfg1_sorted : ssorted cfg1.
Hypothesis E_sorted : ssorted E.
Hypothesis cfg1_bound : forall y, In y cfg1 -> y < n.
Hypothesis E_bound : forall y, In y E -> y < n.
Hypothesis Hlegal : Legal par ch kd (fun y => In y (ins_all E cfg1)).
Hypothesis Hproper : forall y, In y (ins_all E cfg1) -> pseudoS c y = false.
Hypothesis Hguard : done_guardb c (ins_all E cfg1) E = true.

Lemma eh_guard_done pre f post : E = pre ++ f :: post -> fs_type (st c f) = FFinal ->
  forall x, done_fast c (insert_sorted f (ins_all pre cfg1)) f x = done_large c (insert_sorted f (ins_all pre cfg1)) f x.
Proof.
  intros HE Hf x.
  set (L := insert_sorted f (ins_all pre cfg1)). set (after := ins_all E cfg1) in *.
  assert (HfE : In f E) by (rewrite HE; apply in_app_iff; right; now left).
  unfold done_guardb in Hguard. rewrite forallb_forall in Hguard. pose proof (Hguard f HfE) as G.
  unfold is_finalb in G. rewrite Hf in G. cbn [negb orb] in G. apply andb_true_iff in G as [G1 G2].
  unfold no_later_entryb in G1. unfold single_doneb in G2.
  rewrite forallb_forall in G1. apply Nat.leb_le in G2.
  assert (HL : forall y, In y L <-> In y cfg1 \/ In y pre \/ y = f).
  { intros y. unfold L. rewrite In_insert_sorted', ee_In_ins_all. tauto. }
  assert (HA : forall y, In y after <-> In y cfg1 \/ In y pre \/ y = f \/ In y post).
  { intros y. unfold after. rewrite ee_In_ins_all, HE, in_app_iff. cbn [In]. intuition. }
  assert (Hpost : forall y, In y post -> f < y).
  { intros y Hy. rewrite HE in E_sorted. apply ee_ssorted_app_inv in E_sorted as (_ & S2 & _). cbn [ssorted] in S2. now apply S2. }
  assert (Hag : forall a y, Anc a f -> kd a = FParallel -> y = a \/ Anc a y -> (In y L <-> In y after)).
  { intros a y Haf Hk Hrel. rewrite HL, HA. split; [tauto|]. intros [H|[H|[H|H]]]; try tauto. exfalso.
    assert (Ha : In a (fs_ancestors (st c f))) by now apply (wh_anc c W).
    pose proof (G1 a Ha) as Ga. unfold is_parb in Ga. unfold kd in Hk. rewrite Hk in Ga. cbn [negb orb] in Ga.
    apply negb_true_iff in Ga.
    destruct Hrel as [->|Hrel].
    - destruct (hanc_lt c W _ _ Haf). specialize (Hpost a H). lia.
    - assert (existsb (fun e => (f <? e) && mem a (fs_ancestors (st c e))) E = true); [|congruence].
      apply existsb_exists. exists y. split; [rewrite HE; apply in_app_iff; right; now right|].
      apply andb_true_iff. split; [apply Nat.ltb_lt; now apply Hpost | apply mem_In; now apply (wh_anc c W)]. }
  apply (ehd_done_eq c Hwf Hleaf Hpar L (fun y => In y after)).
  - exact Hlegal.
  - exact Hproper.
  - unfold L. apply ssorted_insert. now apply ee_ins_all_sorted.
  - intros y Hy. apply HL in Hy as [H|[H| ->]]; [now apply cfg1_bound | apply E_bound; rewrite HE; apply in_app_iff; now left | now apply E_bound].
  - exact Hag.
  - apply HA. tauto.
  - replace (done_pars c L f) with (done_pars c after f); [exact G2|].
    unfold done_pars. apply ee_filter_ext_in. intros a Ha. destruct (is_parb c a) eqn:Hp; [|reflexivity]. cbn [andb].
    apply (wh_anc c W) in Ha. apply ee_is_parb in Hp. symmetry.
    apply (ehd_in_final_ext c Hwf). intros y Hy. apply ee_mem_iff. apply (Hag a y Ha Hp). now right.
Qed.

End Guard.
