(* RunConformInitialCompose.v -- C01 on charts with <initial> elements and deep / multiple initial attributes: one
   microstep of LargeMicroStep (Large.microstep as select_and_step calls it) against Appendix D's microstep
   (Spec.spec_microstep), for any flat chart with the structural well-formedness WFH and no history state.  The
   chart-specific premises (Appendix D's exit set and transition domain are the engine's) are hypotheses here and
   are discharged for flatten in RunConformInitialFlat.v.  Proofs only. *)
From V Require Import Base NameMatch Chart Exec Large LargeLemmas Spec Legal SetLemmas LegalAbstract LegalLarge
  Interp LegalRun LargeCacheLemmas SelectConform SelectConformLemmas SelectConformRoot MicroConform MicroConformLemmas MicroConformCompose
  LegalHistBase LegalHistEntry LegalHistStep LegalHistRun ExitSetLemmas SelectConformOrder SelectConformFlatten MicroConformEntry MicroConformFlatten RunConformMicro
  RunConformInitialBase RunConformInitialSpec RunConformInitialEngine RunConformInitialEntry RunConformInitialMicro.
Local Open Scope nat_scope.

Section ComposeH.
Variable c : fchart.
Hypothesis W : WFH c.
Hypothesis Hnh : forall i, histS c i = false.
Hypothesis HcplOK : CplOK c.
Hypothesis HcplAnti : CplAnti c.
Hypothesis HtgAnti : TgAnti c.
Hypothesis HtgProper : TgProper c.
Hypothesis root_compound : fs_type (st c 0) = FCompound.
Notation Anc := (LegalAbstract.Anc (fun i => fs_parent (st c i))).
Notation pseudo := (pseudoS c).

Variable sel : list nat.
Variable l : lstate.
Variable s : sstate.
Variable x0 : xstate.
Let cfg := l_cfg l.

Hypothesis Hcorr : corr c l s.
Hypothesis Hlegal : LegalCfgH c cfg.
Hypothesis HH : HistOK c (l_hist l).
Hypothesis Hsel_src : forall ti, In ti sel -> In (ft_source (tr c ti)) cfg.
Hypothesis Hsel_ok : pairwise_ok lg_fixed c sel.
Hypothesis Hsel_np : forall ti, In ti sel -> ft_history (tr c ti) || ft_initial (tr c ti) = false.
Hypothesis Hbody : forall ti, ft_has_body (tr c ti) = false -> ft_body (tr c ti) = [].
Hypothesis Hsilent : root_silentb c = true.
Hypothesis Hdata : fc_late c = false -> forall i, i <> 0 -> fs_data (st c i) = [].
Hypothesis HPAR : forall s, s < nstates c -> fs_type (st c s) = FParallel -> fs_children (st c s) <> [].
Hypothesis Hfin_par : forall i p, fs_type (st c i) = FFinal -> fs_parent (st c i) = Some p -> fs_type (st c p) <> FParallel.
Hypothesis Hfin_up : forall i p a, fs_type (st c i) = FFinal -> fs_parent (st c i) = Some p -> Anc a p ->
  fs_parent (st c p) = Some a \/ fs_type (st c a) <> FParallel.
Hypothesis Hflags : forall x ti, is_pseudo (fs_type (st c x)) = true -> In ti (fs_trans (st c x)) ->
  ft_history (tr c ti) || ft_initial (tr c ti) = true.
(* PREMISES discharged for flatten (ExitSetLemmas) *)
Hypothesis Hdom : forall ti, In ti sel -> transition_domain c (s_hv s) (tr c ti) = domain c (tr c ti).
Hypothesis Hexit : forall z, In z (compute_exit_set c (s_cfg s) (s_hv s) (map (tr c) sel)) <-> In z (sel_exitset c cfg sel).

Theorem body_conforms_initial_sec :
  let r := microstep lg_fixed ex_fixed c l x0 (sel_targets c sel) (sel_exitset c cfg sel) sel false in
  let q := spec_body c sel s x0 in
  corr c (fst r) (fst q) /\ snd q = emit (spec_cfg_tok c (fst q)) (snd r) /\ s_hv (fst q) = s_hv s.
Proof.
  destruct Hcorr as (Hc & Ht & Hd). destruct Hlegal as [Hleg Hbp]. fold cfg in Hc.
  assert (Hbound : forall y, In y cfg -> y < nstates c) by (intros y Hy; exact (proj1 (Hbp y Hy))).
  assert (Hprop : forall y, In y cfg -> pseudo y = false) by (intros y Hy; exact (proj2 (Hbp y Hy))).
  destruct (root_silent_parts c Hsilent) as (Sen & Sex & Sbody).
  assert (Hcore : forall i, match fs_type (st c i) with FHistShallow | FHistDeep => False | _ => True end).
  { intros i. pose proof (Hnh i) as Hh. unfold histS, is_hist in Hh. destruct (fs_type (st c i)); try exact I; discriminate. }
  set (X := sel_exitset c cfg sel).
  assert (HXs : ssorted X) by (unfold X, sel_exitset; apply ssorted_fold_union; exact I).
  assert (HXeq : sort_doc (compute_exit_set c (s_cfg s) (s_hv s) (map (tr c) sel)) = X).
  { apply ssorted_ext; [apply ssorted_set_of_list | exact HXs|]. intros z. unfold sort_doc. rewrite In_set_of_list. apply Hexit. }
  assert (HXin : forall z, In z X <-> In z cfg /\ exists d, HDm c sel d /\ Anc d z).
  { intros z. exact (hIn_exitset c W cfg sel Hleg Hbound Hprop Hsel_src z). }
  assert (H0X : ~ In 0 (rev X)).
  { intros H. apply in_rev in H. apply HXin in H as [_ (d & _ & Ha)]. exact (no_anc_root _ (wh_root_par c W) _ Ha). }
  cbn zeta. unfold microstep, spec_body. cbn zeta. fold cfg. fold X.
  set (hist := remember_history c cfg X (l_hist l)).
  assert (HHr : HistOK c hist).
  { apply (remember_HistOK c W cfg X Hleg Hprop); [|exact HH]. intros z Hz. now apply HXin in Hz. }
  destruct (entry_set_sets c cfg X hist Hflags (sel_targets c sel) sel) as [Hes Hts].
  { unfold sel_targets. apply ssorted_fold_union. exact I. }
  pose proof (entry_set_conforms_initial_sec c W Hnh HcplOK HcplAnti HtgAnti HtgProper root_compound cfg sel (s_hv s) hist
                Hleg Hbound Hprop Hsel_src Hsel_ok HHr Hdom) as Hset.
  pose proof (trans_set_conforms_initial_sec c W Hnh HcplOK HcplAnti HtgAnti HtgProper root_compound cfg sel (s_hv s) hist
                Hleg Hbound Hprop Hsel_src Hsel_ok HHr Hdom) as Htset.
  pose proof (spec_hc c W Hnh HcplOK HcplAnti HtgAnti HtgProper root_compound cfg sel (s_hv s) Hleg Hbound Hprop Hsel_src Hsel_ok Hdom) as Hhc.
  pose proof (spec_default c W Hnh HcplOK HcplAnti HtgAnti HtgProper root_compound cfg sel (s_hv s) Hleg Hbound Hprop Hsel_src Hsel_ok Hdom) as Hdf.
  pose proof (spec_set c W Hnh HcplOK HcplAnti HtgAnti HtgProper root_compound cfg sel (s_hv s) Hleg Hbound Hprop Hsel_src Hsel_ok Hdom) as Hss.
  unfold RunConformInitialEngine.Efin, RunConformInitialEngine.Tfin, Surv in Hset, Htset.
  change (LegalLarge.exitset c cfg sel) with X in Hset, Htset. change (LegalLarge.targets c sel) with (sel_targets c sel) in Hset, Htset.
  destruct (entry_set lg_fixed c cfg X hist (sel_targets c sel) sel) as [es ts] eqn:Ees. cbn [fst snd] in Hts, Hes, Hset, Htset.
  (* exit *)
  rewrite (exit_states_core c sel s x0 Hcore). cbn zeta. rewrite HXeq.
  rewrite Hc, (exit_fold_conforms c (rev X) (s_cfg s) x0 Sex H0X).
  set (rx := fold_left (spec_exit_one c) (rev X) (s_cfg s, x0)).
  (* transitions *)
  rewrite (take_fold_filter c (0 :: fst rx) ts), Hts, <- (take_fold_filter c (0 :: fst rx) sel).
  rewrite (take_fold_conforms c (fst rx) sel (snd rx) Sbody Hsel_np (fun ti _ => Hbody ti)).
  cbn [s_cfg].
  set (x2 := fold_left (fun x0 ti => exec_trans_content c (fst rx) ti x0) sel (snd rx)).
  (* entry set *)
  unfold enter_states. cbn [s_hv]. rewrite enter_states_e_fold.
  set (e := compute_entry_set c (s_hv s) sel) in *.
  assert (Hcfg1 : forall y, In y (0 :: fst rx) <-> In y cfg /\ ~ In y X).
  { intros y. pose proof (exit_fold_cfg c ex_fixed (rev X) cfg x0 y) as H.
    rewrite Hc, (exit_fold_conforms c (rev X) (s_cfg s) x0 Sex H0X) in H. cbn [fst] in H. fold rx in H.
    rewrite <- Hc in H. rewrite H, <- in_rev. tauto. }
  rewrite enter_fold_proper.
  assert (Hes1 : filter (fun i => negb (is_pseudo (fs_type (st c i)))) (set_diff es (0 :: fst rx)) = sort_doc (e_enter e)).
  { apply ssorted_ext; [apply ssorted_filter; unfold set_diff; now apply ssorted_filter | apply ssorted_set_of_list|].
    intros z. unfold sort_doc. rewrite filter_In, In_set_diff, In_set_of_list, Hset, Hcfg1. unfold pseudoS.
    rewrite negb_true_iff. tauto. }
  rewrite Hes1.
  (* entering *)
  assert (Hb : forall i, In i (sort_doc (e_enter e)) -> 0 < i /\ i < nstates c).
  { intros i Hi. unfold sort_doc in Hi. rewrite In_set_of_list in Hi. apply Hss in Hi as (r0 & G0 & HD).
    pose proof (D_below c (Bm c sel) r0 G0 i HD) as Ha. destruct (hanc_lt c W _ _ Ha). split; lia. }
  set (CF := fun y => (In y cfg /\ ~ In y X) \/ (In y es /\ pseudo y = false)).
  pose proof (microstep_sets_legal_h c W cfg sel Hleg Hbound Hprop Hsel_src Hsel_ok hist HHr) as HCF.
  unfold HEfs, HEfin in HCF. change (LegalLarge.exitset c cfg sel) with X in HCF.
  change (LegalLarge.targets c sel) with (sel_targets c sel) in HCF. rewrite Ees in HCF. cbn [fst] in HCF. fold CF in HCF.
  assert (HCFp : forall y, CF y -> pseudo y = false) by (intros y [[Hy _]|[_ Hy]]; [now apply Hprop | exact Hy]).
  assert (Huniq : forall q k1 k2, fs_type (st c q) = FCompound -> In k1 (fs_children (st c q)) -> In k2 (fs_children (st c q)) ->
                  CF k1 -> CF k2 -> k1 = k2).
  { intros q k1 k2 Hq Hk1 Hk2 C1 C2. apply (wh_children c W) in Hk1, Hk2.
    pose proof (par_ppar c k1 q (HCFp k1 C1) Hk1) as P1. pose proof (par_ppar c k2 q (HCFp k2 C2) Hk2) as P2.
    apply (lg_compound_uniq _ _ _ _ HCF q k1 k2); try assumption.
    - exact (lg_parent _ _ _ _ HCF k1 q C1 P1).
    - now apply (pch_spec c W).
    - now apply (pch_spec c W). }
  pose proof (enter_fold_conforms_h c W Hnh HcplOK ts e CF (fun i => In i (e_enter e)) Hhc Sen Sbody Hbody Hdata HPAR Hfin_par Hfin_up
                Huniq HCFp Hflags (fun i Hi => proj1 (proj1 (Hdf i) Hi)) Htset (sort_doc (e_enter e))
                {| ea_cfg := 0 :: fst rx; ea_initd := l_initd l; ea_tlf := l_tlf l; ea_x := x2 |}
                ({| s_cfg := fst rx; s_hv := s_hv s; s_running := s_running s; s_entered := s_entered s |}, x2)) as HE.
  destruct HE as [(E1 & E2 & E3 & E4) _].
  { split; [unfold erel; cbn [fst snd ea_cfg ea_tlf ea_initd ea_x s_cfg s_running s_entered]; auto|].
    cbn [fst s_cfg]. intros y Hy. left. apply Hcfg1. now right. }
  { intros i Hi. destruct (Hb i Hi) as [A B']. split; [exact A|]. split; [exact B'|].
    unfold sort_doc in Hi. rewrite In_set_of_list in Hi. split; [|exact Hi]. right. apply Hset in Hi. tauto. }
  set (a := fold_left (enter_one ex_fixed c ts) (sort_doc (e_enter e)) _) in *.
  set (sx := fold_left (spec_enter_one c e) (sort_doc (e_enter e)) _) in *.
  destruct sx as [s2 x3] eqn:Esx. cbn [fst snd] in *.
  split; [unfold corr; cbn [l_cfg l_tlf l_initd]; auto|]. split; [rewrite E4; reflexivity|].
  assert (Hhv : forall es0 sx0, s_hv (fst (fold_left (spec_enter_one c e) es0 sx0)) = s_hv (fst sx0)).
  { induction es0 as [|i r IH]; intros [s0 y0]; cbn [fold_left]; [reflexivity|]. rewrite IH.
    rewrite spec_enter_one_staged. destruct (fc_late c && negb (mem i (s_entered s0))); unfold s_tail; cbn zeta;
      (destruct (is_final_state c i); [destruct (fs_parent (st c i)) as [[|p]|]|]); reflexivity. }
  specialize (Hhv (sort_doc (e_enter e)) ({| s_cfg := fst rx; s_hv := s_hv s; s_running := s_running s; s_entered := s_entered s |}, x2)).
  fold sx in Hhv. rewrite Esx in Hhv. exact Hhv.
Qed.

End ComposeH.

Theorem microstep_conforms_initial_sec c sel l s x :
  WFH c -> (forall i, histS c i = false) -> CplOK c -> CplAnti c -> TgAnti c -> TgProper c -> fs_type (st c 0) = FCompound ->
  corr c l s -> LegalCfgH c (l_cfg l) -> HistOK c (l_hist l) ->
  (forall ti, In ti sel -> In (ft_source (tr c ti)) (l_cfg l)) -> pairwise_ok lg_fixed c sel ->
  (forall ti, In ti sel -> ft_history (tr c ti) || ft_initial (tr c ti) = false) ->
  (forall ti, ft_has_body (tr c ti) = false -> ft_body (tr c ti) = []) -> root_silentb c = true ->
  (fc_late c = false -> forall i, i <> 0 -> fs_data (st c i) = []) ->
  (forall s, s < nstates c -> fs_type (st c s) = FParallel -> fs_children (st c s) <> []) ->
  (forall i p, fs_type (st c i) = FFinal -> fs_parent (st c i) = Some p -> fs_type (st c p) <> FParallel) ->
  (forall i p a, fs_type (st c i) = FFinal -> fs_parent (st c i) = Some p -> LegalAbstract.Anc (fun i => fs_parent (st c i)) a p ->
     fs_parent (st c p) = Some a \/ fs_type (st c a) <> FParallel) ->
  (forall x ti, is_pseudo (fs_type (st c x)) = true -> In ti (fs_trans (st c x)) -> ft_history (tr c ti) || ft_initial (tr c ti) = true) ->
  (forall ti, In ti sel -> transition_domain c (s_hv s) (tr c ti) = domain c (tr c ti)) ->
  (forall z, In z (compute_exit_set c (s_cfg s) (s_hv s) (map (tr c) sel)) <-> In z (sel_exitset c (l_cfg l) sel)) ->
  let r := microstep lg_fixed ex_fixed c l (emit TMsB x) (sel_targets c sel) (sel_exitset c (l_cfg l) sel) sel false in
  let q := spec_microstep c sel s x in
  corr c (fst r) (fst q) /\ snd q = emit (spec_cfg_tok c (fst q)) (snd r) /\ s_hv (fst q) = s_hv s.
Proof.
  intros. subst r q. rewrite spec_microstep_body. now apply body_conforms_initial_sec.
Qed.
