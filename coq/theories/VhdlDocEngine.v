(* VhdlDocEngine.v -- C18: the reference step Vhdl.next_config IS the configuration part of one
   FastMicroStep selection-and-microstep (Fast.fselect_and_step), for every chart of the fragment, every ascending
   configuration within range, every event and every datamodel state; the condition inputs are the values
   InterpreterImpl::isTrue gives the conditions (VhdlDoc.val_of).  For an ARBITRARY valuation of the inputs the
   same holds on the chart whose conditions are frozen to the constants of the valuation (VhdlDoc.set_conds).
   This composes the four layer lemmas of VhdlLemmas.v (conflict, selection, exit set, entry set) with the
   membership characterisation of Fast.fmicrostep (LegalHistFastRun.fmicrostep_cfg).  Proofs only. *)
From V Require Import Base NameMatch NameMatchLemmas Chart Exec Large LargeLemmas Legal Fast Vhdl SetLemmas
     LargeCacheLemmas SelectConform LegalHistBase LegalHistFast LegalHistFastRun FlattenWfStruct VhdlDoc.
From V Require VhdlLemmas.
Local Open Scope nat_scope.

(* ------------------------------------------------------------------ lists *)

Lemma vd_ascb_ssorted l : ascb l = true -> ssorted l.
Proof.
  induction l as [|x r IH]; [intros _; exact I|]. intros H. cbn [ssorted].
  destruct r as [|y r'].
  - split; [intros ? [] | exact I].
  - cbn [ascb] in H. apply andb_true_iff in H as [H1 H2]. apply Nat.ltb_lt in H1. specialize (IH H2).
    split; [|exact IH]. intros z [<-|Hz]; [exact H1|]. cbn [ssorted] in IH. destruct IH as [IH _]. specialize (IH z Hz). lia.
Qed.

Lemma vd_ssorted_ascb l : ssorted l -> ascb l = true.
Proof.
  induction l as [|x r IH]; [reflexivity|]. cbn [ssorted]. intros [H1 H2]. destruct r as [|y r']; [reflexivity|].
  cbn [ascb]. apply andb_true_iff. split; [apply Nat.ltb_lt, H1; now left | now apply IH].
Qed.

Lemma vd_filter_seq_id cfg n : ssorted cfg -> (forall i, In i cfg -> i < n) ->
  filter (fun i => mem i cfg) (seq 0 n) = cfg.
Proof.
  intros Hs Hr. apply ssorted_ext; [apply ssorted_filter, ssorted_seq | exact Hs|].
  intros x. rewrite filter_In, in_seq, SetLemmas.mem_In. split; [tauto|]. intros H. specialize (Hr x H). split; [lia | exact H].
Qed.

(* ------------------------------------------------------------------ fast engine: ascending configurations *)

Lemma fenter_one_ssorted xv c ts a i : ssorted (ea_cfg a) -> ssorted (ea_cfg (fenter_one xv c ts a i)).
Proof.
  intros H. unfold fenter_one. destruct (mem i (ea_cfg a)); [exact H|].
  destruct (is_pseudo (fs_type (st c i))); [exact H|]. cbn zeta.
  match goal with |- context [let '(initd1, x2) := ?e in _] => destruct e as [initd1 x2] end.
  destruct (fs_type (st c i)); cbn [ea_cfg]; now apply ssorted_insert.
Qed.

Lemma fenter_fold_ssorted xv c ts es : forall a,
  ssorted (ea_cfg a) -> ssorted (ea_cfg (fold_left (fenter_one xv c ts) es a)).
Proof. induction es as [|i r IH]; intros a H; cbn [fold_left]; [exact H|]. apply IH. now apply fenter_one_ssorted. Qed.

Lemma fmicrostep_ssorted xv c l x tg ex ts ini :
  ssorted (l_cfg l) -> ssorted (l_cfg (fst (fmicrostep xv c l x tg ex ts ini))).
Proof.
  intros H. unfold fmicrostep. cbn zeta.
  destruct (fentry_set c (l_cfg l) ex _ tg ts) as [es ts'].
  pose proof (exit_fold_ssorted xv c (rev ex) (l_cfg l) x H) as H1.
  destruct (fold_left (exit_one xv c) (rev ex) (l_cfg l, x)) as [cfg1 x1]. cbn [fst] in H1.
  cbn [fst l_cfg]. apply fenter_fold_ssorted. exact H1.
Qed.

(* ------------------------------------------------------------------ the reference step, unfolded *)

Lemma vd_next_config_eq c cfg ev val :
  next_config c cfg ev val =
  filter (fun i => (mem i cfg && negb (mem i (vh_exitset c cfg (vh_selected c cfg ev val)))) ||
                   mem i (vh_entryset c cfg (vh_exitset c cfg (vh_selected c cfg ev val))
                                      (vh_targets c (vh_selected c cfg ev val))))
         (seq 0 (nstates c)).
Proof. reflexivity. Qed.

Lemma vd_descend_nil c cfg X : forall l, fold_left (vdescend_one c cfg X) l [] = [].
Proof. induction l as [|i l IH]; [reflexivity|]. cbn [fold_left]. unfold vdescend_one at 2. cbn [mem negb]. exact IH. Qed.

Lemma vd_next_config_nil c cfg ev val : vh_selected c cfg ev val = [] ->
  next_config c cfg ev val = filter (fun i => mem i cfg) (seq 0 (nstates c)).
Proof.
  intros E. rewrite vd_next_config_eq, E. unfold vh_exitset, vh_targets, vh_entryset, add_ancestors. cbn [fold_left].
  rewrite vd_descend_nil. apply filter_ext. intros i. cbn [mem negb]. now rewrite andb_true_r, orb_false_r.
Qed.

Section Eng.
Variable c : fchart.
Hypothesis Hwf : vh_wfb c = true.
Let n := nstates c.
Let T := ntrans c.

(* ---------------------------------------------------------------- selection, with conditions *)

Lemma vd_select cfg (ev : option event) (s : store) : forall ts sel x,
  x_store x = s -> (forall t, In t ts -> t < T) -> (forall t, In t sel -> t < T) ->
  exists x', fselect c cfg ev ts sel x = (vselect c cfg (option_map ev_name ev) (val_of c cfg s) ts sel, x') /\
             x_store x' = s.
Proof.
  induction ts as [|t ts IH]; intros sel x Hx Hts Hsel; cbn [fselect vselect]; [exists x; now split|].
  assert (HtT : t < T) by (apply Hts; now left).
  assert (Hts' : forall t', In t' ts -> t' < T) by (intros; apply Hts; now right).
  destruct (ft_history (tr c t) || ft_initial (tr c t)); [now apply IH|].
  assert (Hconf : existsb (fun si => fconflicts c (tr c si) (tr c t)) sel =
                  existsb (fun si => vh_conflict c (tr c si) (tr c t)) sel).
  { apply VhdlLemmas.existsb_ext_in. intros si Hs. symmetry. apply (VhdlLemmas.conflict_is_fast c Hwf); [now apply Hsel | exact HtT]. }
  rewrite Hconf. unfold vh_enabled.
  destruct (mem (ft_source (tr c t)) cfg); cbn [negb andb]; [|now apply IH].
  assert (Hsel' : forall t', In t' (sel ++ [t]) -> t' < T).
  { intros t' Ht'. apply in_app_or in Ht'. destruct Ht' as [Ht'|[<-|[]]]; [now apply Hsel | exact HtT]. }
  destruct (existsb (fun si => vh_conflict c (tr c si) (tr c t)) sel) eqn:Ec.
  - (* conflicting with an earlier selection: both pass over it, no condition is evaluated *)
    match goal with |- context [if negb ?b then _ else _] => destruct b end; cbn [negb]; now apply IH.
  - assert (Hcond : forall (b0 : bool), b0 = true ->
        exists x', match ft_cond (tr c t) with
                   | None => fselect c cfg ev ts (sel ++ [t]) x
                   | Some cnd => let '(b, x'0) := is_true (inst_of c cfg) cnd x in
                                 if b then fselect c cfg ev ts (sel ++ [t]) x'0 else fselect c cfg ev ts sel x'0
                   end =
                   ((if negb (b0 && match ft_cond (tr c t) with Some _ => val_of c cfg s t | None => true end)
                     then vselect c cfg (option_map ev_name ev) (val_of c cfg s) ts sel
                     else vselect c cfg (option_map ev_name ev) (val_of c cfg s) ts (sel ++ [t])), x') /\ x_store x' = s).
    { intros b0 ->. cbn [andb]. unfold val_of at 1. destruct (ft_cond (tr c t)) as [cnd|] eqn:Econd.
      - unfold is_true. rewrite Hx. destruct (Exec.beval (inst_of c cfg) s cnd) as [[|]|]; cbn [negb].
        + now apply IH.
        + now apply IH.
        + apply IH; [exact Hx | exact Hts' | exact Hsel].
      - cbn [negb]. now apply IH. }
    destruct ev as [e|]; cbn [option_map]; destruct (ft_spontaneous (tr c t)); cbn [negb andb].
    + now apply IH.
    + destruct (name_match_impl nm_fixed (ft_event (tr c t)) (ev_name e)); cbn [negb andb]; [|now apply IH].
      exact (Hcond true eq_refl).
    + exact (Hcond true eq_refl).
    + now apply IH.
Qed.

Lemma vd_vselect_sub cfg ev val : forall ts sel t, In t (vselect c cfg ev val ts sel) -> In t ts \/ In t sel.
Proof.
  induction ts as [|a ts IH]; intros sel t Ht; cbn [vselect] in Ht; [now right|].
  destruct (ft_history (tr c a) || ft_initial (tr c a)); [destruct (IH _ _ Ht); [left; now right | now right]|].
  destruct (negb (vh_enabled c cfg ev val a)); [destruct (IH _ _ Ht); [left; now right | now right]|].
  destruct (existsb _ sel); [destruct (IH _ _ Ht); [left; now right | now right]|].
  destruct (IH _ _ Ht) as [H|H]; [left; now right|]. apply in_app_or in H. destruct H as [H|[<-|[]]]; [now right | left; now left].
Qed.

Lemma vd_selected_lt cfg ev val t : In t (vh_selected c cfg ev val) -> t < T.
Proof. intros H. apply vd_vselect_sub in H. destruct H as [H|[]]. apply in_seq in H. fold T in H. lia. Qed.

(* ---------------------------------------------------------------- entry set: any history value, any transition set *)

Lemma vd_entryset_fast cfg exitset hist targets ts :
  fst (fentry_set c cfg exitset hist targets ts) = vh_entryset c cfg exitset targets.
Proof.
  unfold vh_entryset, fentry_set, fn.
  assert (H : forall l es, (forall i, In i l -> i < nstates c) ->
            fold_left (fdescend_one c cfg exitset hist) l (es, ts) = (fold_left (vdescend_one c cfg exitset) l es, ts)).
  { induction l as [|i l IH]; intros es Hl; cbn [fold_left]; [reflexivity|].
    assert (Hs : fdescend_one c cfg exitset hist (es, ts) i = (vdescend_one c cfg exitset es i, ts)).
    { unfold fdescend_one, vdescend_one. destruct (mem i es); cbn [negb]; [|reflexivity].
      pose proof (VhdlLemmas.typ_proper c Hwf i (Hl i (or_introl eq_refl))) as Hp.
      destruct (fs_type (st c i)); try discriminate; try reflexivity.
      destruct (negb (intersects es (desc c i)) && (negb (intersects cfg (desc c i)) || intersects exitset (desc c i))); reflexivity. }
    rewrite Hs. apply IH. intros j Hj. apply Hl. now right. }
  rewrite H; [reflexivity|]. intros i Hi. apply in_seq in Hi. lia.
Qed.

(* ---------------------------------------------------------------- entry set: within the chart *)

Definition inrange (es : list nat) : Prop := forall y, mem y es = true -> y < n.

Lemma vd_anc_range j a : j < n -> mem a (fs_ancestors (st c j)) = true -> a < n.
Proof. intros Hj Ha. apply (VhdlLemmas.anc_lt c Hwf) in Ha. lia. Qed.

Lemma vd_descend_range cfg X es i : i < n -> inrange es -> inrange (vdescend_one c cfg X es i).
Proof.
  intros Hi Hes. unfold vdescend_one. destruct (negb (mem i es)); [exact Hes|].
  destruct (fs_type (st c i)) eqn:Ety; try exact Hes.
  - (* compound *)
    match goal with |- context [if ?b then _ else _] => destruct b end; [|exact Hes].
    destruct (VhdlLemmas.typ_comp c Hwf i Hi Ety) as (j & Ej & Hj). rewrite Ej. cbn [fold_left].
    apply (VhdlLemmas.child_iff c Hwf i j Hi) in Hj. destruct Hj as [Hjn _].
    intros y Hy. destruct (i <? j).
    + rewrite VhdlLemmas.mem_set_union, VhdlLemmas.mem_set_union in Hy. cbn [mem] in Hy.
      apply orb_true_iff in Hy as [Hy|Hy]; [apply orb_true_iff in Hy as [Hy|Hy]|].
      * now apply Hes.
      * rewrite orb_false_r in Hy. apply Nat.eqb_eq in Hy. now subst.
      * now apply (vd_anc_range j).
    + rewrite VhdlLemmas.mem_set_union in Hy. cbn [mem] in Hy. apply orb_true_iff in Hy as [Hy|Hy]; [now apply Hes|].
      rewrite orb_false_r in Hy. apply Nat.eqb_eq in Hy. now subst.
  - (* parallel *)
    intros y Hy. rewrite VhdlLemmas.mem_set_union in Hy. apply orb_true_iff in Hy as [Hy|Hy]; [now apply Hes|].
    rewrite (VhdlLemmas.typ_par c Hwf i Hi Ety) in Hy. now apply (VhdlLemmas.child_iff c Hwf i y Hi) in Hy.
Qed.

Lemma vd_entryset_range cfg X tg : (forall x, In x tg -> x < n) -> inrange (vh_entryset c cfg X tg).
Proof.
  intros Htg. unfold vh_entryset.
  assert (H0 : inrange (add_ancestors c tg)).
  { intros y Hy. unfold add_ancestors in Hy. rewrite VhdlLemmas.mem_fold_union in Hy.
    apply orb_true_iff in Hy as [Hy|Hy]; [apply Htg; now apply SetLemmas.mem_In|].
    apply existsb_exists in Hy. destruct Hy as (x & Hx & Hy). now apply (vd_anc_range x); [apply Htg|]. }
  assert (H : forall l es, (forall i, In i l -> i < n) -> inrange es -> inrange (fold_left (vdescend_one c cfg X) l es)).
  { induction l as [|i l IH]; intros es Hl Hes; cbn [fold_left]; [exact Hes|].
    apply IH; [intros; apply Hl; now right|]. apply vd_descend_range; [apply Hl; now left | exact Hes]. }
  apply H; [|exact H0]. intros i Hi. apply in_seq in Hi. fold n in Hi. lia.
Qed.

Lemma vd_targets_range sel : (forall t, In t sel -> t < T) -> forall x, In x (vh_targets c sel) -> x < n.
Proof.
  intros Hsel x Hx. apply SetLemmas.mem_In in Hx. unfold vh_targets in Hx. rewrite VhdlLemmas.mem_fold_union in Hx.
  cbn [mem orb] in Hx. apply existsb_exists in Hx. destruct Hx as (t & Ht & Hx).
  destruct (VhdlLemmas.trans_parts c Hwf t (Hsel t Ht)) as (_ & _ & Htg & _). apply SetLemmas.mem_In in Hx. now apply Htg.
Qed.

Lemma vd_not_pseudo y : pseudoS c y = false.
Proof.
  unfold pseudoS. destruct (Nat.lt_ge_cases y n) as [Hy|Hy].
  - pose proof (VhdlLemmas.typ_proper c Hwf y Hy) as Hp. destruct (fs_type (st c y)); try discriminate; reflexivity.
  - unfold st. rewrite nth_overflow by exact Hy. reflexivity.
Qed.

(* ---------------------------------------------------------------- the step *)

Theorem ref_step_is_fast xv l x ev :
  ascb (l_cfg l) = true -> (forall i, In i (l_cfg l) -> i < n) ->
  l_cfg (fst (fst (fselect_and_step xv c l x ev))) =
  next_config c (l_cfg l) (option_map ev_name ev) (val_of c (l_cfg l) (x_store x)).
Proof.
  intros Hasc Hrange. apply vd_ascb_ssorted in Hasc.
  unfold fselect_and_step. cbn zeta. change (l_cfg (upd_flags l (l_spont l) false)) with (l_cfg l).
  destruct (vd_select (l_cfg l) ev (x_store x) (seq 0 (ntrans c)) [] x eq_refl) as (x' & E & _).
  { intros t Ht. apply in_seq in Ht. fold T in Ht. lia. }
  { intros t []. }
  rewrite E. fold (vh_selected c (l_cfg l) (option_map ev_name ev) (val_of c (l_cfg l) (x_store x))).
  set (ev' := option_map ev_name ev). set (val := val_of c (l_cfg l) (x_store x)).
  pose proof (vd_selected_lt (l_cfg l) ev' val) as Hlt.
  destruct (vh_selected c (l_cfg l) ev' val) as [|t0 r0] eqn:Esel.
  - (* nothing selected *)
    cbn [fst l_cfg upd_flags]. rewrite (vd_next_config_nil c _ _ _ Esel). symmetry. now apply vd_filter_seq_id.
  - rewrite <- Esel in *. set (sel := vh_selected c (l_cfg l) ev' val) in *.
    set (l0 := upd_flags l (l_spont l) false).
    set (tg := fold_left (fun a ti => set_union a (ft_targets (tr c ti))) sel []).
    set (ex := fold_left (fun a ti => set_union a (exit_states_of lg_fixed c (l_cfg l) (tr c ti))) sel []).
    assert (Eex : ex = vh_exitset c (l_cfg l) sel).
    { unfold ex. symmetry. now apply (VhdlLemmas.exitset_is_fast c Hwf). }
    pose proof (fun y => fmicrostep_cfg c xv l0 (emit TMsB x') tg ex sel false y) as Hm.
    pose proof (fmicrostep_ssorted xv c l0 (emit TMsB x') tg ex sel false Hasc) as Hs1.
    destruct (fmicrostep xv c l0 (emit TMsB x') tg ex sel false) as [l1 x2]. cbn [fst] in *.
    change (l_cfg l0) with (l_cfg l) in Hm.
    apply ssorted_ext; [exact Hs1 | rewrite vd_next_config_eq; apply ssorted_filter, ssorted_seq|].
    intros y. rewrite Hm, vd_next_config_eq, filter_In, in_seq. fold sel. fold n.
    unfold FEfin. rewrite vd_entryset_fast, vd_not_pseudo. change tg with (vh_targets c sel). rewrite Eex.
    set (X := vh_exitset c (l_cfg l) sel). set (ES := vh_entryset c (l_cfg l) X (vh_targets c sel)).
    assert (HES : inrange ES) by (apply vd_entryset_range; now apply vd_targets_range).
    rewrite orb_true_iff, andb_true_iff, negb_true_iff, !SetLemmas.mem_In, SetLemmas.mem_false_In.
    split.
    + intros [[H1 H2]|[H1 _]].
      * split; [specialize (Hrange y H1); lia | left; tauto].
      * split; [apply SetLemmas.mem_In in H1; specialize (HES y H1); lia | now right].
    + intros [_ [[H1 H2]|H1]]; [left; tauto | right; tauto].
Qed.

End Eng.

(* ------------------------------------------------------------------ conditions frozen to constants *)

Section Frozen.
Variable val : nat -> bool.
Variable c : fchart.
Local Notation c' := (set_conds val c).

Lemma set_conds_from_length : forall l k, length (set_conds_from val k l) = length l.
Proof. induction l as [|t l IH]; intros k; cbn [set_conds_from length]; [reflexivity | now rewrite IH]. Qed.

Lemma set_conds_from_nth : forall l k i, nth i (set_conds_from val k l) dummy_trans = set_cond val (k + i) (nth i l dummy_trans).
Proof.
  induction l as [|t l IH]; intros k i; cbn [set_conds_from].
  - destruct i; reflexivity.
  - destruct i as [|i]; cbn [nth]; [now rewrite Nat.add_0_r|]. rewrite IH. f_equal. lia.
Qed.

Lemma frozen_ntrans : ntrans c' = ntrans c.
Proof. unfold ntrans. cbn [set_conds fc_trans]. apply set_conds_from_length. Qed.

Lemma frozen_tr ti : tr c' ti = set_cond val ti (tr c ti).
Proof. unfold tr. cbn [set_conds fc_trans]. now rewrite set_conds_from_nth. Qed.

Lemma frozen_flat_map {B} (f : ftrans -> list B) : (forall k t, f (set_cond val k t) = f t) ->
  forall l k, flat_map f (set_conds_from val k l) = flat_map f l.
Proof. intros Hf. induction l as [|t l IH]; intros k; cbn [set_conds_from flat_map]; [reflexivity | now rewrite Hf, IH]. Qed.

Lemma frozen_doc_events : doc_events c' = doc_events c.
Proof.
  unfold doc_events, chart_event_attrs. cbn [set_conds fc_trans fc_states]. rewrite frozen_flat_map; [reflexivity|].
  intros k t. reflexivity.
Qed.

(* the inputs a frozen condition reads are the valuation *)
Lemma frozen_val cfg s ti :
  match ft_cond (tr c' ti) with Some _ => val_of c' cfg s ti | None => true end =
  match ft_cond (tr c ti) with Some _ => val ti | None => true end.
Proof.
  unfold val_of. rewrite frozen_tr. cbn [set_cond ft_cond]. destruct (ft_cond (tr c ti)); [|reflexivity].
  unfold const_cond. destruct (val ti); reflexivity.
Qed.

Lemma frozen_conflict t1 t2 a b : vh_conflict c' (set_cond val a t1) (set_cond val b t2) = vh_conflict c t1 t2.
Proof. reflexivity. Qed.

Lemma frozen_vselect cfg ev s : forall ts sel,
  vselect c' cfg ev (val_of c' cfg s) ts sel = vselect c cfg ev val ts sel.
Proof.
  induction ts as [|t ts IH]; intros sel; cbn [vselect]; [reflexivity|].
  assert (E1 : ft_history (tr c' t) || ft_initial (tr c' t) = ft_history (tr c t) || ft_initial (tr c t)) by (now rewrite frozen_tr).
  assert (E2 : vh_enabled c' cfg ev (val_of c' cfg s) t = vh_enabled c cfg ev val t).
  { unfold vh_enabled. rewrite (frozen_val cfg s t). now rewrite frozen_tr. }
  assert (E3 : existsb (fun si => vh_conflict c' (tr c' si) (tr c' t)) sel = existsb (fun si => vh_conflict c (tr c si) (tr c t)) sel).
  { apply VhdlLemmas.existsb_ext_in. intros si _. rewrite !frozen_tr. apply frozen_conflict. }
  rewrite E1, E2, E3, !IH. reflexivity.
Qed.

Lemma frozen_exitset cfg : forall sel acc,
  fold_left (fun a ti => set_union a (filter (fun i => mem i (vh_exit_tab c' (tr c' ti))) cfg)) sel acc =
  fold_left (fun a ti => set_union a (filter (fun i => mem i (vh_exit_tab c (tr c ti))) cfg)) sel acc.
Proof.
  induction sel as [|t sel IH]; intros acc; cbn [fold_left]; [reflexivity|]. rewrite IH. rewrite frozen_tr. reflexivity.
Qed.

Lemma frozen_targets : forall sel acc,
  fold_left (fun a ti => set_union a (ft_targets (tr c' ti))) sel acc =
  fold_left (fun a ti => set_union a (ft_targets (tr c ti))) sel acc.
Proof.
  induction sel as [|t sel IH]; intros acc; cbn [fold_left]; [reflexivity|]. rewrite IH. rewrite frozen_tr. reflexivity.
Qed.

(* the reference step does not see the difference *)
Theorem frozen_next_config cfg ev s :
  next_config c' cfg ev (val_of c' cfg s) = next_config c cfg ev val.
Proof.
  rewrite !vd_next_config_eq. unfold vh_selected. rewrite frozen_ntrans, frozen_vselect.
  unfold vh_exitset, vh_targets. rewrite frozen_exitset, frozen_targets. reflexivity.
Qed.

Lemma frozen_vh_wfb : vh_wfb c' = vh_wfb c.
Proof.
  unfold vh_wfb. rewrite frozen_doc_events, frozen_ntrans. f_equal. f_equal.
  apply VhdlLemmas.forallb_ext_in. intros ti _. unfold vh_trans_ok. rewrite frozen_tr. reflexivity.
Qed.

Lemma frozen_legal cfg : legal_configb c' cfg = legal_configb c cfg.
Proof. reflexivity. Qed.

End Frozen.

(* ------------------------------------------------------------------ the theorems *)

(* conditions read from the datamodel *)
Theorem reference_step_is_fast_microstep_lemma : forall xv c l x ev,
  vh_wfb c = true -> ascb (l_cfg l) = true -> (forall i, In i (l_cfg l) -> i < nstates c) ->
  next_config c (l_cfg l) (option_map ev_name ev) (val_of c (l_cfg l) (x_store x)) =
  l_cfg (fst (fst (fselect_and_step xv c l x ev))).
Proof. intros. symmetry. now apply ref_step_is_fast. Qed.

(* arbitrary condition inputs: the engine runs the chart with the conditions frozen to the input values *)
Theorem reference_step_is_fast_microstep_inputs_lemma : forall xv c val l x ev,
  vh_wfb c = true -> ascb (l_cfg l) = true -> (forall i, In i (l_cfg l) -> i < nstates c) ->
  next_config c (l_cfg l) (option_map ev_name ev) val =
  l_cfg (fst (fst (fselect_and_step xv (set_conds val c) l x ev))).
Proof.
  intros xv c val l x ev Hwf Ha Hr.
  rewrite <- (frozen_next_config val c (l_cfg l) (option_map ev_name ev) (x_store x)).
  apply reference_step_is_fast_microstep_lemma; [now rewrite frozen_vh_wfb | exact Ha | exact Hr].
Qed.
