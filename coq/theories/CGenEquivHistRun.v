(* CGenEquivHistRun.v -- C04 beyond the history-free core: the hypotheses of the generic sections of CGenEquivMicro.v /
   CGenEquivRun.v discharged for charts with pseudo-states (wf_histb: <initial>, deep / multiple initial attributes,
   shallow and deep <history>), the repaired template (cg_repaired and every variant that agrees with it) and the
   chart conditions of CGenEquivHist.v -- and with them the behaviour theorems: one call of uscxml_step() that takes
   transitions, every call, whole runs, against FastMicroStep.  The legality of the engine's configurations and of
   the recorded history values comes from LegalHistFastRun.v (C02 for the fast engine).  Proofs only. *)
From V Require Import Base NameMatch Chart Exec Large LargeLemmas Fast Interp Legal SetLemmas LegalAbstract LegalLarge LegalRun
                      WfCore CGen CGenLemmas SerializeCodecLemmas
                      LegalHistBase LegalHistEntry LegalHistStep LegalHistRun LegalHistWf LegalHistFast LegalHistFastRun
                      PmlEquivBase CGenEquivContent CGenEquivStep CGenEquivMicro CGenEquivRun CGenEquivHist.
From Coq Require Import Sorted.
Local Open Scope nat_scope.

Fixpoint sortedb (l : list nat) : bool :=
  match l with
  | [] => true
  | x :: r => match r with [] => true | y :: _ => (x <? y) && sortedb r end
  end.

Lemma sortedb_sound l : sortedb l = true -> ssorted l.
Proof.
  induction l as [|x r IH]; intros Hs; [constructor|]. cbn [sortedb] in Hs.
  destruct r as [|y r']; [constructor; constructor|].
  apply andb_true_iff in Hs as [Hxy Hr]. apply Nat.ltb_lt in Hxy. specialize (IH Hr).
  constructor; [exact IH|]. rewrite Forall_forall. intros z [<-|Hz]; [exact Hxy|].
  inversion IH as [|? ? _ Hall]; subst. rewrite Forall_forall in Hall. specialize (Hall z Hz). lia.
Qed.

(* the conditions on a chart with pseudo-states, in one *)
Definition chart_h (c : fchart) : bool :=
  deep_alone c && cpl_plain c && trans_lists c && sortedb (fs_completion (st c 0)).

Section HistRun.
Variable cv : cg_variant.
Variable xv : ex_variant.
Variable c : fchart.
Hypothesis Htlf : cg_tlf_first_byte cv = false.
Hypothesis Hact : cg_hist_active_parent cv = false.
Hypothesis Hcov : cg_cover cv = CoverNone.
Hypothesis H : wf_histb c = true.
Hypothesis Hroot : fs_type (st c 0) = FCompound.
Hypothesis Hc : chart_c c = true.
Hypothesis Hh : chart_h c = true.

Let W : WFH c := wf_histb_sound c H.
Notation n := (nstates c).
Notation Anc := (LegalAbstract.Anc (fun i => fs_parent (st c i))).

Lemma chart_h_parts : deep_alone c = true /\ cpl_plain c = true /\ trans_lists c = true /\ ssorted (fs_completion (st c 0)).
Proof.
  unfold chart_h in Hh. apply andb_true_iff in Hh as [Hh1 S0]. apply andb_true_iff in Hh1 as [Hh2 T].
  apply andb_true_iff in Hh2 as [D P]. repeat split; auto. now apply sortedb_sound.
Qed.

(* ---- ancestor lists ---- *)
Lemma hist_anc_sorted : forall i, ssorted (fs_ancestors (st c i)).
Proof.
  induction i as [i IH] using lt_wf_ind.
  destruct (Nat.lt_ge_cases i n) as [Hi|Hi].
  - rewrite (hanc_in c H i Hi). destruct (fs_parent (st c i)) as [p|] eqn:Hp; [|constructor].
    apply insert_sorted_ssorted. apply IH. now destruct (hpar_lt c H _ _ Hp).
  - rewrite (hst_out c i Hi). constructor.
Qed.

Lemma hist_anc_bounded i : bounded n (fs_ancestors (st c i)).
Proof.
  apply bounded_intro. intros a Ha. apply (wh_anc c W) in Ha. destruct (hanc_lt c W _ _ Ha). lia.
Qed.

(* ---- the history and entry-set passes on legal states ---- *)
Lemma hist_rem cfg exitset hist : cremember cv c cfg exitset hist = fremember c cfg exitset hist.
Proof. now apply cremember_h. Qed.

Lemma hist_entry l evn : StOK c l ->
  let sel := cselect_all c (l_cfg l) evn in
  let ex := cexitset c (l_cfg l) sel in
  centry_set cv c (l_cfg l) ex (fremember c (l_cfg l) ex (l_hist l)) (ctargets c sel) sel =
  fentry_set c (l_cfg l) ex (fremember c (l_cfg l) ex (l_hist l)) (ctargets c sel) sel.
Proof.
  intros [[HL HB] HH]. cbv zeta. destruct chart_h_parts as (D & P & T & _).
  set (cfg := l_cfg l) in *. set (sel := cselect_all c cfg evn).
  destruct (selection_facts c Hc cfg evn) as [Hok Hsrc]. fold sel in Hok, Hsrc.
  assert (HBn : forall y, In y cfg -> y < n) by (intros y Hy; now destruct (HB y Hy)).
  assert (HBp : forall y, In y cfg -> pseudoS c y = false) by (intros y Hy; now destruct (HB y Hy)).
  change (cexitset c cfg sel) with (exitset c cfg sel). change (ctargets c sel) with (targets c sel).
  assert (Hex : forall y, In y (exitset c cfg sel) -> In y cfg).
  { intros y Hy. exact (proj1 (proj1 (hIn_exitset c W cfg sel HL HBn HBp Hsrc y) Hy)). }
  apply (centry_set_h cv c W Hact Hcov D P T cfg (exitset c cfg sel) (fremember c cfg (exitset c cfg sel) (l_hist l)) (targets c sel)
           (htargets_bound c W sel)
           ltac:(unfold targets; apply fold_union_ssorted; constructor)
           (fremember_HistOK c W cfg (exitset c cfg sel) HL HBp Hex (l_hist l) HH)
           (HE0_uniq_step c W cfg sel HL HBn HBp Hsrc Hok)
           (QE5 c cfg sel)
           (QE5_0 c W cfg sel HL HBn HBp Hsrc Hok)
           (QE5_par c W cfg sel HL HBn HBp Hsrc)
           (QE5_comp c W cfg sel HL HBn HBp Hsrc)
           (QE5_pseudo c cfg sel HBp)
           HBn
           (fun y p Hy Hp => hcfg_parent c cfg HL HBp y p Hy Hp)
           Hex
           (fexit_dom c W cfg sel HL HBn HBp Hsrc)).
Qed.

Lemma hist_entry0 hist : HistOK c hist ->
  centry_set cv c [] [] hist (fs_completion (st c 0)) [] = fentry_set c [] [] hist (fs_completion (st c 0)) [].
Proof.
  intros HH. destruct chart_h_parts as (D & P & T & S0).
  apply (centry_set_h cv c W Hact Hcov D P T [] [] hist (fs_completion (st c 0))
           (hinit_tg_bound c W Hroot) S0 HH (hinit_E0_uniq c W Hroot) QT); unfold QT; auto.
  all: first [ intros x p [] | intros x [] ].
Qed.

(* ---- the behaviour theorems ---- *)
Theorem cfire_hist lc lf x y ev :
  lsame lc lf -> csim x y -> StOK c lf ->
  cselect_all c (l_cfg lc) (option_map ev_name ev) <> [] ->
  let r1 := cfire cv c lc x (cselect_all c (l_cfg lc) (option_map ev_name ev)) in
  let r2 := fselect_and_step xv c lf y ev in
  lsame (fst (fst r1)) (fst (fst r2)) /\ csim (snd (fst r1)) (snd (fst r2)) /\ snd r1 = C_ERR_OK /\ snd r2 = RC_MICROSTEPPED.
Proof.
  intros L R Ok Hne. cbv zeta.
  destruct (cfire_sim cv xv c Htlf hist_anc_sorted hist_anc_bounded Hc hist_rem (StOK c) hist_entry
              lc lf x y ev L R Ok Hne) as (A & B & C & D & _). auto.
Qed.

Theorem step_sync_hist lc x lf y : sync c lc x lf y ->
  let r := cgen_step cv c lc x in step_rel xv c (fst (fst r)) (snd (fst r)) (snd r) lf y.
Proof.
  apply (step_sync cv xv c Htlf H Hroot Hc hist_anc_sorted hist_anc_bounded hist_rem (StOK c) (fun l h => h) hist_entry hist_entry0).
Qed.

Theorem crun_hist n evs : Forall (fun e => e <> []) evs ->
  exists m, final_rel (crun_loop cv c n l_pristine cx_init evs)
                      (run_loop c lstate (fast_step xv c) l_cfg m l_pristine x_init evs).
Proof.
  apply (crun_generic cv xv c Htlf H Hroot Hc hist_anc_sorted hist_anc_bounded hist_rem (StOK c) (fun l h => h) hist_entry hist_entry0).
Qed.

End HistRun.
