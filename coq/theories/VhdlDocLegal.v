(* VhdlDocLegal.v -- C18: the hardware step preserves legality, so the hypotheses of vhdl_next_correct are
   re-established at every clock edge and the theorem extends to runs of the emitted register from the initial
   configuration (any number of edges, any events of the document, any values of the condition ports).
   Route: next_config = configuration part of Fast.fselect_and_step on the chart with frozen conditions
   (VhdlDocEngine), whose steps preserve legality on charts of wf_histb >= wf_coreb (LegalHistFastRun).
   Needs the target-set clause of wf_coreb, which the fragment check vh_wfb does not contain.  Proofs only. *)
From V Require Import Base NameMatch Chart Exec Large Fast LargeLemmas Interp Legal SetLemmas LegalAbstract LegalLarge LegalRun
     WfCore LegalOracle LegalHistBase LegalHistCore LegalHistEntry LegalHistStep LegalHistRun LegalHistWf LegalHistOracle
     LegalHistFast LegalHistFastRun RunConformInitialSelLegal LargeCacheLemmas SelectConform FlattenWf FlattenWfStruct
     FlattenWfLemmas Vhdl VhdlDoc VhdlDocFlat VhdlDocLemmas VhdlDocEngine.
From V Require VhdlLemmas.
Local Open Scope nat_scope.

(* ------------------------------------------------------------------ wf_coreb of the frozen chart *)

Section FrozenWf.
Variable val : nat -> bool.
Variable c : fchart.
Local Notation c' := (set_conds val c).

Lemma frozen_wfb_src : wfb_src c' = wfb_src c.
Proof.
  unfold wfb_src. apply VhdlLemmas.forallb_ext_in. intros s _. apply VhdlLemmas.forallb_ext_in. intros ti _.
  now rewrite frozen_tr.
Qed.

Lemma frozen_wfb_targets : wfb_targets c' = wfb_targets c.
Proof.
  unfold wfb_targets. rewrite frozen_ntrans. apply VhdlLemmas.forallb_ext_in. intros ti _. now rewrite frozen_tr.
Qed.

Lemma frozen_wfb_target_sets : wfb_target_sets c' = wfb_target_sets c.
Proof.
  unfold wfb_target_sets. rewrite frozen_ntrans. apply VhdlLemmas.forallb_ext_in. intros ti _.
  apply VhdlLemmas.forallb_ext_in. intros i _. now rewrite frozen_tr.
Qed.

Lemma frozen_wf_coreb : wf_coreb c' = wf_coreb c.
Proof.
  unfold wf_coreb. rewrite frozen_wfb_src, frozen_wfb_targets, frozen_wfb_target_sets. reflexivity.
Qed.

End FrozenWf.

Lemma wf_coreb_WFH c : wf_coreb c = true -> WFH c.
Proof. intros H. apply wf_histb_sound, wf_initb_histb, wf_coreb_initb, H. Qed.

(* ------------------------------------------------------------------ one step *)

Definition ext_event (e : bytes) : event := {| ev_name := e; ev_kind := EvExternal |}.

Definition cfg_state (cfg : list nat) : lstate :=
  {| l_cfg := cfg; l_hist := []; l_initd := []; l_spont := true; l_init := true; l_tlf := false;
     l_fin := false; l_stable := false; l_cancelled := false |}.

Lemma next_config_ssorted c cfg ev val : ssorted (next_config c cfg ev val).
Proof. rewrite vd_next_config_eq. apply ssorted_filter, ssorted_seq. Qed.

Lemma next_config_ascb c cfg ev val : ascb (next_config c cfg ev val) = true.
Proof. apply vd_ssorted_ascb, next_config_ssorted. Qed.

Lemma legal_range c cfg : legal_configb c cfg = true -> forall i, In i cfg -> i < nstates c.
Proof.
  unfold legal_configb. intros H i Hi. apply andb_true_iff in H as [_ H]. rewrite forallb_forall in H.
  specialize (H i Hi). unfold state_ok in H. repeat (apply andb_true_iff in H as [H _]). now apply Nat.ltb_lt.
Qed.

(* the hardware step from an ascending legal configuration yields a legal configuration *)
Theorem vhdl_next_legal_asc : forall c cfg ev val,
  vh_wfb c = true -> wf_coreb c = true -> legal_configb c cfg = true -> ascb cfg = true ->
  legal_configb c (next_config c cfg ev val) = true.
Proof.
  intros c cfg ev val Hv Hc HL Ha.
  set (c' := set_conds val c). set (l := cfg_state cfg). set (ev' := option_map ext_event ev).
  assert (Eev : option_map ev_name ev' = ev) by (unfold ev'; destruct ev; reflexivity).
  pose proof (reference_step_is_fast_microstep_inputs_lemma ex_fixed c val l x_init ev' Hv Ha (legal_range c cfg HL)) as E.
  rewrite Eev in E. change (l_cfg l) with cfg in E.
  assert (W : WFH c') by (apply wf_coreb_WFH; unfold c'; now rewrite frozen_wf_coreb).
  assert (HS : StOK c' l).
  { split; [|apply HistOK_nil]. apply (legal_configb_sound_h c' W). exact HL. }
  pose proof (fselect_and_step_legal c' ex_fixed W l x_init ev' HS) as [HL1 _].
  fold c' in E. rewrite <- E in HL1.
  change (legal_configb c' (next_config c cfg ev val) = true).
  apply (legal_configb_complete_h c' _ W HL1). apply ssorted_NoDup, next_config_ssorted.
Qed.

(* ------------------------------------------------------------------ the initial configuration *)

Lemma init_config_ssorted c : ssorted (init_config c).
Proof. unfold init_config. apply ssorted_filter, ssorted_seq. Qed.

Theorem init_config_legal : forall c,
  vh_wfb c = true -> wf_coreb c = true -> fs_type (st c 0) = FCompound ->
  legal_configb c (init_config c) = true.
Proof.
  intros c Hv Hc Hroot. pose proof (wf_coreb_WFH c Hc) as W.
  pose proof (finitial_step_legal c ex_fixed W Hroot l_pristine x_init eq_refl (HistOK_nil c)) as [HL1 _].
  pose proof (fun y => fmicrostep_cfg c ex_fixed l_pristine x_init (fs_completion (st c 0)) [] [] true y) as Hm.
  pose proof (fmicrostep_ssorted ex_fixed c l_pristine x_init (fs_completion (st c 0)) [] [] true I) as Hs.
  destruct (fmicrostep ex_fixed c l_pristine x_init (fs_completion (st c 0)) [] [] true) as [l1 x1]. cbn [fst] in *.
  assert (E : init_config c = l_cfg l1).
  { apply ssorted_ext; [apply init_config_ssorted | exact Hs|]. intros y. rewrite Hm. unfold init_config.
    rewrite filter_In, in_seq. unfold FEfin. rewrite (vd_entryset_fast c Hv), (vd_not_pseudo c Hv).
    cbn [l_cfg l_pristine In]. rewrite SetLemmas.mem_In.
    assert (HR : inrange c (vh_entryset c [] [] (fs_completion (st c 0)))).
    { apply (vd_entryset_range c Hv). intros g Hg.
      destruct (VhdlLemmas.typ_comp c Hv 0 (VhdlLemmas.n_pos c Hv) Hroot) as (j & Ej & Hj). rewrite Ej in Hg.
      destruct Hg as [<-|[]]. now apply (VhdlLemmas.child_iff c Hv 0 j (VhdlLemmas.n_pos c Hv)) in Hj. }
    split.
    - intros [_ H]. right. tauto.
    - intros [[[] _]|[H _]]. split; [|exact H]. apply SetLemmas.mem_In in H. specialize (HR y H). lia. }
  rewrite E. apply (legal_configb_complete_h c _ W HL1). now apply ssorted_NoDup.
Qed.

(* ------------------------------------------------------------------ runs *)

Lemma inputs_okb_cons c i r : inputs_okb c (i :: r) = true -> vh_event_ok c (fst i) = true /\ inputs_okb c r = true.
Proof. unfold inputs_okb. cbn [forallb]. intros H. now apply andb_true_iff in H. Qed.

(* from any ascending legal configuration: at every clock edge, as long as the design runs, the register holds the
   reference configuration, and that configuration is legal *)
Theorem vhdl_run_from_correct : forall c, vh_wfb c = true -> wf_coreb c = true ->
  forall ins cfg, legal_configb c cfg = true -> ascb cfg = true -> inputs_okb c ins = true ->
  vh_run c (gen_eqs vh_fixed c) cfg ins = Some (ref_run_stop c cfg ins) /\
  legal_configb c (ref_run_stop c cfg ins) = true /\ ascb (ref_run_stop c cfg ins) = true.
Proof.
  intros c Hv Hc. induction ins as [|[ev val] r IH]; intros cfg HL Ha Hin; cbn [vh_run ref_run_stop].
  - auto.
  - destruct (inputs_okb_cons c _ _ Hin) as [Hev Hr]. cbn [fst] in Hev.
    destruct (vh_running c cfg) eqn:Hrun; [|auto].
    rewrite (VhdlLemmas.vhdl_next_correct_lemma c cfg ev val Hv HL Hrun Hev).
    apply IH; [now apply vhdl_next_legal_asc | apply next_config_ascb | exact Hr].
Qed.

Theorem vhdl_run_correct_lemma : forall c ins,
  vh_wfb c = true -> wf_coreb c = true -> fs_type (st c 0) = FCompound -> inputs_okb c ins = true ->
  vh_run c (gen_eqs vh_fixed c) (init_config c) ins = Some (ref_run_stop c (init_config c) ins) /\
  legal_configb c (ref_run_stop c (init_config c) ins) = true.
Proof.
  intros c ins Hv Hc Hroot Hin.
  destruct (vhdl_run_from_correct c Hv Hc ins (init_config c) (init_config_legal c Hv Hc Hroot)
              (vd_ssorted_ascb _ (init_config_ssorted c)) Hin) as (H1 & H2 & _).
  now split.
Qed.

(* while the design is never stopped the reference run is the plain iteration of next_config *)
Lemma ref_run_stop_running c : forall ins cfg,
  (forall k, k < length ins -> vh_running c (ref_run c cfg (firstn k ins)) = true) ->
  ref_run_stop c cfg ins = ref_run c cfg ins.
Proof.
  induction ins as [|[ev val] r IH]; intros cfg H; cbn [ref_run_stop ref_run]; [reflexivity|].
  pose proof (H 0 ltac:(cbn; lia)) as H0. cbn [firstn ref_run] in H0. rewrite H0.
  apply IH. intros k Hk. pose proof (H (S k) ltac:(cbn [length]; lia)) as HS. cbn [firstn ref_run] in HS. exact HS.
Qed.

(* documents *)
Theorem document_vhdl_run_correct_lemma : forall t ins,
  let c := flatten false t in
  vh_tree_runb t = true -> inputs_okb c ins = true ->
  vh_run c (gen_eqs vh_fixed c) (init_config c) ins = Some (ref_run_stop c (init_config c) ins) /\
  legal_configb c (ref_run_stop c (init_config c) ins) = true.
Proof.
  intros t ins c Ht Hin. pose proof (vh_tree_runb_core t Ht) as Hcore.
  assert (Hvt : vh_treeb t = true) by (unfold vh_tree_runb in Ht; now apply andb_true_iff in Ht as [Ht _]).
  destruct (flatten_wf_core_lemma false t Hcore) as [Hc Hroot].
  apply vhdl_run_correct_lemma; [now apply flatten_vh_wf_lemma | exact Hc | exact Hroot | exact Hin].
Qed.

Theorem document_vhdl_next_legal_lemma : forall t cfg ev val,
  let c := flatten false t in
  vh_tree_runb t = true -> legal_configb c cfg = true -> ascb cfg = true ->
  legal_configb c (next_config c cfg ev val) = true.
Proof.
  intros t cfg ev val c Ht HL Ha. pose proof (vh_tree_runb_core t Ht) as Hcore.
  assert (Hvt : vh_treeb t = true) by (unfold vh_tree_runb in Ht; now apply andb_true_iff in Ht as [Ht _]).
  destruct (flatten_wf_core_lemma false t Hcore) as [Hc _].
  apply vhdl_next_legal_asc; [now apply flatten_vh_wf_lemma | exact Hc | exact HL | exact Ha].
Qed.
