(* NameMatchLemmas.v -- proofs about NameMatch.v *)
From V Require Import Base NameMatch.
Local Open Scope N_scope.

Lemma beq_bytes_refl a : beq_bytes a a = true.
Proof. induction a as [|x a IH]; cbn; [reflexivity|]. now rewrite N.eqb_refl, IH. Qed.

Lemma beq_bytes_eq a b : beq_bytes a b = true <-> a = b.
Proof.
  revert b; induction a as [|x a IH]; intros [|y b]; cbn; split; intro H; try easy.
  - apply andb_true_iff in H as [H1 H2]. apply N.eqb_eq in H1. apply IH in H2. now subst.
  - inversion H; subst. now rewrite N.eqb_refl, beq_bytes_refl.
Qed.

Lemma is_prefix_app p l : is_prefix p (p ++ l) = true.
Proof. induction p as [|x p IH]; cbn; [reflexivity|]. now rewrite N.eqb_refl. Qed.

Lemma is_prefix_spec p l : is_prefix p l = true <-> exists s, l = p ++ s.
Proof.
  revert l; induction p as [|x p IH]; intros l; cbn.
  - split; [intros _; now exists l | reflexivity].
  - destruct l as [|y l]; [split; [easy | intros [s Hs]; easy]|].
    rewrite andb_true_iff, N.eqb_eq, IH. split.
    + intros [-> [s ->]]. now exists s.
    + intros [s Hs]. inversion Hs; subst. split; [reflexivity | now exists s].
Qed.

Lemma is_prefix_length p l : is_prefix p l = true -> (length p <= length l)%nat.
Proof. intros H. apply is_prefix_spec in H as [s ->]. rewrite app_length. lia. Qed.

(* prefix d ++ [c] of n  <->  prefix d of n and n[|d|] = c *)
Lemma is_prefix_snoc d c n :
  is_prefix (d ++ [c]) n = is_prefix d n && opt_is (nth_byte n (length d)) c.
Proof.
  revert n; induction d as [|x d IH]; intros [|y n]; cbn [app is_prefix length nth_byte opt_is andb].
  - reflexivity.
  - now rewrite andb_true_r, N.eqb_sym.
  - reflexivity.
  - rewrite IH. now rewrite andb_assoc.
Qed.

(* ---------------- the scanner visits exactly the whitespace-separated tokens ------------- *)

Section Scan.
Variable name : bytes.
Let P := fun d => nm_process_opt nm_fixed d name.

Lemma process_opt_nonempty d : d <> [] -> nm_process_opt nm_fixed d name = nm_process nm_fixed d name.
Proof. destruct d; [congruence | reflexivity]. Qed.

Lemma rev_cons_nonempty (c : N) cur : rev (c :: cur) <> [].
Proof. cbn. destruct (rev cur); discriminate. Qed.

Lemma scan_tokens l :
  (forall cur, (l = [] -> cur = []) ->
     nm_scan nm_fixed name false cur l = existsb P (tokens_aux cur l)) /\
  nm_scan nm_fixed name true [] l = existsb P (tokens_aux [] l).
Proof.
  induction l as [|c r IH].
  - split; [intros cur H; rewrite (H eq_refl)|]; reflexivity.
  - destruct IH as [IHn IHs]. split.
    + intros cur _. cbn [nm_scan tokens_aux nm_short_desc_bug nm_fixed].
      destruct (isspace c) eqn:Hsp.
      * destruct cur as [|x cur].
        -- cbn [rev nm_process_opt]. exact IHs.
        -- rewrite IHs. cbn [existsb]. unfold P at 2.
           destruct (nm_process_opt nm_fixed (rev (x :: cur)) name); reflexivity.
      * destruct r as [|c' r'].
        -- cbn [tokens_aux existsb]. unfold P.
           rewrite process_opt_nonempty by apply rev_cons_nonempty.
           now rewrite orb_false_r.
        -- apply IHn. discriminate.
    + cbn [nm_scan tokens_aux nm_short_desc_bug nm_fixed].
      destruct (isspace c) eqn:Hsp; [exact IHs|].
      destruct r as [|c' r'].
      * cbn. unfold P. cbn. now rewrite orb_false_r.
      * apply IHn. discriminate.
Qed.

Lemma scan_is_exists descs :
  nm_scan nm_fixed name false [] descs = existsb P (tokens descs).
Proof. apply (proj1 (scan_tokens descs)). reflexivity. Qed.

End Scan.

(* ---------------- one descriptor: code = Recommendation, for well-formed descriptors ------ *)

Lemma tokens_aux_nonempty l : forall cur d, In d (tokens_aux cur l) -> d <> [].
Proof.
  induction l as [|c r IH]; intros cur d H; cbn in H.
  - destruct cur as [|x cur]; [easy|]. destruct H as [<-|[]]. apply rev_cons_nonempty.
  - destruct (isspace c).
    + destruct cur as [|x cur]; [now apply IH in H|].
      destruct H as [<-|H]; [apply rev_cons_nonempty | now apply IH in H].
    + now apply IH in H.
Qed.

Lemma rev_eq_nil {A} (l : list A) : rev l = [] -> l = [].
Proof. intros H. apply (f_equal (@rev A)) in H. now rewrite rev_involutive in H. Qed.

Lemma tail_by_length (d2 name : bytes) :
  d2 <> [] ->
  (if (length name <? length d2)%nat then false
   else if beq_bytes d2 name then true
   else is_prefix d2 name && opt_is (nth_byte name (length d2)) c_dot)
  = beq_bytes d2 name || is_prefix (d2 ++ [c_dot]) name.
Proof.
  intros Hne. rewrite is_prefix_snoc.
  destruct (Nat.ltb_spec (length name) (length d2)) as [Hlt|Hge].
  - destruct (beq_bytes d2 name) eqn:He.
    + apply beq_bytes_eq in He; subst; lia.
    + destruct (is_prefix d2 name) eqn:Hp; [|reflexivity].
      apply is_prefix_length in Hp. lia.
  - destruct (beq_bytes d2 name); reflexivity.
Qed.

Definition impl_strip (d : bytes) : bytes :=
  let r  := rev d in
  let r1 := match r with c :: t => if c =? c_star then t else r | [] => r end in
  let r2 := match r1 with c :: t => if c =? c_dot then t else r1 | [] => r1 end in
  rev r2.

Lemma rev_inj_eq (d l : bytes) : rev d = l -> d = rev l.
Proof. intros <-. now rewrite rev_involutive. Qed.

Lemma impl_strip_wf d :
  beq_bytes d [c_star] = false -> wf_desc d = true ->
  impl_strip d = strip_suffix d /\ strip_suffix d <> [].
Proof.
  intros Hstar. unfold wf_desc, impl_strip, strip_suffix. rewrite Hstar. cbn [orb].
  destruct (rev d) as [|c1 [|c2 r]] eqn:Hrev.
  - intros H. apply andb_true_iff in H as [_ H]. discriminate.
  - apply rev_inj_eq in Hrev. cbn in Hrev. subst d.
    destruct (c1 =? c_star) eqn:H1.
    + apply N.eqb_eq in H1. subst c1. vm_compute in Hstar. discriminate.
    + destruct (c1 =? c_dot) eqn:H2; cbn; [discriminate|].
      intros _. split; [reflexivity | discriminate].
  - destruct (c1 =? c_star) eqn:H1; cbn [andb negb orb].
    + intros H. apply andb_true_iff in H as [Hne H2]. rewrite H2 in *.
      split; [reflexivity|]. destruct (rev r); [discriminate Hne | discriminate].
    + destruct (c1 =? c_dot) eqn:H2.
      * intros H. apply andb_true_iff in H as [Hne _].
        split; [reflexivity|]. destruct (rev (c2 :: r)); [discriminate Hne | discriminate].
      * intros H. apply andb_true_iff in H as [Hne _].
        apply rev_inj_eq in Hrev. rewrite <- Hrev.
        split; [reflexivity|]. destruct d; [discriminate Hne | discriminate].
Qed.

Lemma process_is_spec d name :
  wf_desc d = true -> nm_process nm_fixed d name = desc_match_spec d name.
Proof.
  intros Hwf. unfold desc_match_spec.
  destruct (beq_bytes d [c_star]) eqn:Hstar.
  - apply beq_bytes_eq in Hstar; subst. reflexivity.
  - cbn [orb]. destruct (impl_strip_wf d Hstar Hwf) as [Heq Hne].
    change (nm_process nm_fixed d name) with
      (match impl_strip d with
       | [] => true
       | _ => if (length name <? length (impl_strip d))%nat then false
              else if beq_bytes (impl_strip d) name then true
              else is_prefix (impl_strip d) name && opt_is (nth_byte name (length (impl_strip d))) c_dot
       end).
    rewrite Heq. destruct (strip_suffix d) as [|y t] eqn:Hs; [congruence|].
    apply tail_by_length. discriminate.
Qed.

Lemma desc_match_self d : d <> [] -> desc_match_spec d d = true.
Proof.
  intros Hne. unfold desc_match_spec, strip_suffix.
  destruct (beq_bytes d [c_star]); [reflexivity|]. cbn [orb].
  destruct (rev d) as [|c1 [|c2 r]] eqn:Hrev.
  - now rewrite beq_bytes_refl.
  - destruct (c1 =? c_dot) eqn:H2; [|now rewrite beq_bytes_refl].
    apply N.eqb_eq in H2; subst.
    assert (d = [c_dot]) by (rewrite <- (rev_involutive d), Hrev; reflexivity). subst. reflexivity.
  - assert (Hd : d = rev r ++ [c2] ++ [c1]).
    { rewrite <- (rev_involutive d), Hrev. cbn. now rewrite <- app_assoc. }
    destruct ((c1 =? c_star) && (c2 =? c_dot)) eqn:H12.
    + apply andb_true_iff in H12 as [H1 H2]. apply N.eqb_eq in H1, H2. subst c1 c2.
      rewrite Hd at 2. rewrite app_assoc. rewrite is_prefix_app. apply orb_true_r.
    + destruct (c1 =? c_dot) eqn:H1; [|now rewrite beq_bytes_refl].
      apply N.eqb_eq in H1. subst c1.
      rewrite Hd at 2. cbn [rev]. rewrite <- app_assoc. cbn [app].
      replace (rev r ++ [c2; c_dot]) with ((rev r ++ [c2]) ++ [c_dot]) by (now rewrite <- app_assoc).
      replace ((rev r ++ [c2]) ++ [c_dot]) with (((rev r ++ [c2]) ++ [c_dot]) ++ []) at 2 by apply app_nil_r.
      rewrite is_prefix_app. apply orb_true_r.
Qed.

Lemma tokens_aux_single l : forall cur,
  forallb (fun c => negb (isspace c)) l = true ->
  tokens_aux cur l = match rev cur ++ l with [] => [] | t => [t] end.
Proof.
  induction l as [|c r IH]; intros cur H; cbn in *.
  - rewrite app_nil_r. destruct cur as [|x cur]; [reflexivity|].
    cbn. destruct (rev cur ++ [x]) eqn:E; [now destruct (rev cur)|reflexivity].
  - apply andb_true_iff in H as [H1 H2]. apply negb_true_iff in H1. rewrite H1.
    rewrite IH by assumption. cbn [rev]. now rewrite <- app_assoc.
Qed.

(* ------------------------------ the theorem for the repaired code ------------------------ *)

Lemma name_match_correct_lemma descs name :
  wf_descs descs = true -> no_space name = true ->
  name_match_impl nm_fixed descs name = name_match_spec descs name.
Proof.
  intros Hwf Hns. unfold name_match_impl, name_match_spec.
  destruct descs as [|dc dr] eqn:Hd; [destruct name; reflexivity|].
  destruct name as [|nc nr] eqn:Hn; [reflexivity|].
  rewrite <- Hd, <- Hn in *. unfold nm_eq. cbn [nm_case_insensitive nm_fixed].
  assert (Hex : existsb (fun d => nm_process_opt nm_fixed d name) (tokens descs)
              = existsb (fun d => desc_match_spec d name) (tokens descs)).
  { unfold wf_descs in Hwf. rewrite forallb_forall in Hwf.
    assert (Hall : forall d, In d (tokens descs) ->
             nm_process_opt nm_fixed d name = desc_match_spec d name).
    { intros d Hin. rewrite process_opt_nonempty by (eapply tokens_aux_nonempty; exact Hin).
      apply process_is_spec. now apply Hwf. }
    clear Hwf. induction (tokens descs) as [|t ts IH]; [reflexivity|].
    cbn [existsb]. rewrite Hall by now left. rewrite IH; [reflexivity|].
    intros d Hin. apply Hall. now right. }
  destruct (beq_bytes descs name) eqn:Heq.
  - apply beq_bytes_eq in Heq. rewrite Heq.
    unfold tokens. rewrite tokens_aux_single by exact Hns. cbn [rev app].
    rewrite Hn. rewrite <- Hn. cbn [existsb]. rewrite desc_match_self; [reflexivity|].
    rewrite Hn; discriminate.
  - rewrite scan_is_exists. exact Hex.
Qed.

(* ------------------------------ the pinned code is refuted ------------------------------- *)

Definition s_a : N := 97.  Definition s_b : N := 98.
Definition s_F : N := 70.  Definition s_f : N := 102.  Definition s_o : N := 111.

Lemma pinned_one_char_first_refuted :
  exists descs name, wf_descs descs = true /\ no_space name = true /\
    name_match_impl nm_pinned descs name <> name_match_spec descs name.
Proof. exists [s_a; c_space; s_b], [s_a]. vm_compute. repeat split; discriminate. Qed.

Lemma pinned_one_char_last_refuted :
  exists descs name, wf_descs descs = true /\ no_space name = true /\
    name_match_impl nm_pinned descs name <> name_match_spec descs name.
Proof. exists [s_a; s_a; c_space; s_b], [s_b]. vm_compute. repeat split; discriminate. Qed.

Lemma case_insensitive_refuted :
  exists descs name, wf_descs descs = true /\ no_space name = true /\
    name_match_impl {| nm_case_insensitive := true; nm_short_desc_bug := false |} descs name
      <> name_match_spec descs name.
Proof. exists [s_F; s_o; s_o], [s_f; s_o; s_o]. vm_compute. repeat split; discriminate. Qed.

(* non-vacuity: a descriptor list with several shapes meets the hypotheses *)
Example wf_example :
  wf_descs [s_a; c_dot; s_b; c_dot; c_star; c_space; c_star; c_space; s_b; c_dot; c_space; s_f] = true
  /\ no_space [s_a; c_dot; s_b; c_dot; s_f] = true.
Proof. vm_compute. split; reflexivity. Qed.
