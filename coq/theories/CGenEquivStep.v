(* CGenEquivStep.v -- C04: EXIT_STATES, TAKE_TRANSITIONS and ENTER_STATES of the emitted uscxml_step() (CGen.cexit_one,
   ctake_one, center_one) against FastMicroStep (Large.exit_one, take_one, Fast.fenter_one), state by state and
   transition by transition: the same configuration and top-level-final flag, the same handler blocks run in the same
   order against the same configuration (CGenEquivContent.v), the same done.state events raised at the same places
   (parent of a final state; the enclosing <parallel> states, with the fast engine's and-not test over the
   configuration built so far -- the emitted loop `for j < nr_states: if parallel and ancestor` visits the ancestors
   in the engine's order) -- and from them one microstep (CGen.cmicrostep against Fast.fmicrostep), given equal
   history and entry sets (CGenEquivEntry.v).  Proofs only. *)
From V Require Import Base NameMatch Chart Exec Large Legal SetLemmas LegalAbstract LegalLarge WfCore Fast CGen CGenLemmas
                      SerializeCodecLemmas PmlEquivBase PmlEquivCore CGenEquivContent.
Local Open Scope nat_scope.

Definition is_parT (t : ftype) : bool := match t with FParallel => true | _ => false end.

(* the parts of an engine state the emitted machine has as well *)
Definition lsame (lc lf : lstate) : Prop :=
  l_cfg lc = l_cfg lf /\ l_hist lc = l_hist lf /\ l_tlf lc = l_tlf lf /\ l_fin lc = l_fin lf.

Section Step.
Variable cv : cg_variant.
Variable xv : ex_variant.
Variable c : fchart.
Hypothesis Htlf : cg_tlf_first_byte cv = false.
(* ancestor lists are strictly ascending and inside the state table (every checked chart: wfb_anc) *)
Hypothesis Hanc_sorted : forall i, ssorted (fs_ancestors (st c i)).
Hypothesis Hanc_bounded : forall i, bounded (nstates c) (fs_ancestors (st c i)).
Hypothesis Hc : chart_c c = true.
Notation n := (nstates c).

(* ---- EXIT_STATES ---- *)
Lemma exit_phase l : forall cfg x y, csim x y ->
  fst (fold_left (cexit_one c) l (cfg, x)) = fst (fold_left (exit_one xv c) l (cfg, y)) /\
  csim (snd (fold_left (cexit_one c) l (cfg, x))) (snd (fold_left (exit_one xv c) l (cfg, y))).
Proof.
  induction l as [|i r IH]; intros cfg x y R; cbn [fold_left]; [auto|].
  unfold cexit_one at 2 4. unfold exit_one at 2 4. apply IH.
  apply csim_emit; [reflexivity|]. apply sim_blocks; [apply (st_c c i Hc)|]. now apply csim_emit.
Qed.

(* ---- TAKE_TRANSITIONS ---- *)
Lemma take_phase cfg ts : forall x y, csim x y ->
  csim (fold_left (ctake_one c cfg) ts x) (fold_left (take_one xv c cfg) ts y).
Proof.
  induction ts as [|ti r IH]; intros x y R; cbn [fold_left]; [exact R|]. apply IH.
  unfold ctake_one, take_one. destruct (ft_history (tr c ti) || ft_initial (tr c ti)); [exact R|].
  apply csim_emit; [reflexivity|]. destruct (ft_has_body (tr c ti)).
  - apply sim_block; [apply (tr_c c ti Hc)|]. now apply csim_emit.
  - now apply csim_emit.
Qed.

(* ---- ENTER_STATES ---- *)
Record esim (a : center_acc) (b : enter_acc) : Prop := {
  es_cfg : ca_cfg a = ea_cfg b;
  es_tlf : ca_tlf a = ea_tlf b;
  es_x : csim (ca_x a) (ea_x b)
}.

Lemma done_name_ne i : ev_name (done_event c i) <> [].
Proof. unfold done_event, s_done_state. cbn. discriminate. Qed.

Lemma csim_done i x y : csim x y -> csim (craise_done c i x) (raise_int (done_event c i) y).
Proof.
  intros R. unfold craise_done. apply csim_out_c; [reflexivity|].
  replace (done_event c i) with {| ev_name := ev_name (done_event c i); ev_kind := EvInternal |} by reflexivity.
  apply csim_raise; [apply done_name_ne|exact R].
Qed.

(* the transitions of <initial> / <history> elements run with the state they lead into *)
Lemma init_trans_phase cfg1 i ts : forall x y, csim x y ->
  csim (fold_left (fun x ti =>
                     let t := tr c ti in
                     if (ft_history t || ft_initial t) &&
                        match fs_parent (st c (ft_source t)) with Some p => p =? i | None => false end then
                       if ft_has_body t then cexec_block (inst_of c cfg1) (ft_body t) x else x
                     else x) ts x)
       (fold_left (fun x ti =>
                     let t := tr c ti in
                     if (ft_history t || ft_initial t) &&
                        match fs_parent (st c (ft_source t)) with Some p => p =? i | None => false end then
                       let y1 := emit (TTb (ft_vid t)) x in
                       let y2 := if ft_has_body t then exec_block xv (inst_of c cfg1) (ft_body t) y1 else y1 in
                       emit (TTe (ft_vid t)) y2
                     else x) ts y).
Proof.
  induction ts as [|ti r IH]; intros x y R; cbn [fold_left]; [exact R|]. apply IH. cbv zeta.
  destruct ((ft_history (tr c ti) || ft_initial (tr c ti)) && _); [|exact R].
  apply csim_emit; [reflexivity|]. destruct (ft_has_body (tr c ti)).
  - apply sim_block; [apply (tr_c c ti Hc)|]. now apply csim_emit.
  - now apply csim_emit.
Qed.

(* "all regions final": the emitted loop over all states visits the ancestors, in ascending order *)
Lemma pardone_loop_c cfg1 (L : list nat) x : ssorted L -> bounded n L ->
  fold_left (fun x j => match fs_type (st c j) with
                        | FParallel => if mem j L && fpar_done c cfg1 j then craise_done c j x else x
                        | _ => x
                        end) (seq 0 (cn c)) x =
  fold_left (fun x j => match fs_type (st c j) with
                        | FParallel => if fpar_done c cfg1 j then craise_done c j x else x
                        | _ => x
                        end) L x.
Proof.
  intros Hs Hb.
  rewrite (fold_ext _ (fun x j => if mem j L && (is_parT (fs_type (st c j)) && fpar_done c cfg1 j) then craise_done c j x else x)).
  2:{ intros s a _. destruct (fs_type (st c a)); cbn [is_parT andb]; try (now rewrite andb_false_r).
      reflexivity. }
  unfold cn. rewrite (fold_seq_as_set L n (fun _ j => is_parT (fs_type (st c j)) && fpar_done c cfg1 j) (fun x j => craise_done c j x) x Hs Hb).
  apply fold_ext. intros s a _. destruct (fs_type (st c a)); reflexivity.
Qed.

Lemma pardone_sim cfg1 (L : list nat) : forall x y, csim x y ->
  csim (fold_left (fun x j => match fs_type (st c j) with
                              | FParallel => if fpar_done c cfg1 j then craise_done c j x else x
                              | _ => x
                              end) L x)
       (fold_left (fun x j => match fs_type (st c j) with
                              | FParallel => if fpar_done c cfg1 j then raise_int (done_event c j) x else x
                              | _ => x
                              end) L y).
Proof.
  induction L as [|j r IH]; intros x y R; cbn [fold_left]; [exact R|]. apply IH.
  destruct (fs_type (st c j)); try exact R. destruct (fpar_done c cfg1 j); [now apply csim_done|exact R].
Qed.

Lemma enter_one_sim ts a b i : esim a b -> esim (center_one cv c ts a i) (fenter_one xv c ts b i).
Proof.
  intros [E1 E2 E3]. unfold center_one, fenter_one. rewrite <- E1.
  destruct (mem i (ca_cfg a)); [now constructor|].
  destruct (is_pseudo (fs_type (st c i))); [now constructor|].
  destruct (st_c c i Hc) as (Cen & _ & Cda).
  set (cfg1 := insert_sorted i (ca_cfg a)).
  (* <data>, <onentry> *)
  assert (R2 : csim (ca_x a) (snd (if mem i (ea_initd b) then (ea_initd b, emit (TEb (fs_sid (st c i))) (ea_x b))
                                   else (insert_sorted i (ea_initd b),
                                         fold_left (fun x d => init_data d x) (fs_data (st c i)) (emit (TEb (fs_sid (st c i))) (ea_x b)))))).
  { destruct (mem i (ea_initd b)); cbn [snd].
    - now apply csim_emit.
    - apply sim_data; [exact Cda|]. now apply csim_emit. }
  destruct (if mem i (ea_initd b) then _ else _) as [initd1 x2]. cbn [snd] in R2.
  assert (R4 : csim (cexec_blocks (inst_of c cfg1) (fs_onentry (st c i)) (ca_x a))
                    (emit (TEe (fs_sid (st c i))) (exec_blocks xv (inst_of c cfg1) (fs_onentry (st c i)) x2))).
  { apply csim_emit; [reflexivity|]. now apply sim_blocks. }
  pose proof (init_trans_phase cfg1 i ts _ _ R4) as R5. cbv zeta in R5.
  set (x5 := fold_left _ ts (cexec_blocks _ _ _)) in *.
  set (y5 := fold_left _ ts (emit (TEe _) _)) in *.
  destruct (fs_type (st c i)) eqn:Et; try (constructor; cbn [ca_cfg ca_tlf ca_x ea_cfg ea_tlf ea_x]; auto; fail).
  (* a final state *)
  assert (Etop : top_level_final cv (st c i) = match fs_ancestors (st c i) with [0] => true | _ => false end)
    by (unfold top_level_final; now rewrite Htlf).
  rewrite Etop. set (top := match fs_ancestors (st c i) with [0] => true | _ => false end).
  constructor; cbn [ca_cfg ca_tlf ca_x ea_cfg ea_tlf ea_x]; [reflexivity|now rewrite E2|].
  rewrite (pardone_loop_c cfg1 (fs_ancestors (st c i)) _ (Hanc_sorted i) (Hanc_bounded i)).
  apply pardone_sim. destruct top; [exact R5|].
  destruct (fs_parent (st c i)); [now apply csim_done|exact R5].
Qed.

Lemma enter_phase ts es : forall a b, esim a b ->
  esim (fold_left (center_one cv c ts) es a) (fold_left (fenter_one xv c ts) es b).
Proof.
  induction es as [|i r IH]; intros a b E; cbn [fold_left]; [exact E|]. apply IH. now apply enter_one_sim.
Qed.

(* ---- one microstep, given equal history and entry sets ---- *)
Theorem microstep_sim lc lf x y targets exitset sel (initial : bool) :
  lsame lc lf -> csim x y ->
  (initial = false -> cremember cv c (l_cfg lc) exitset (l_hist lc) = fremember c (l_cfg lc) exitset (l_hist lc)) ->
  centry_set cv c (l_cfg lc) exitset (if initial then l_hist lc else fremember c (l_cfg lc) exitset (l_hist lc)) targets sel =
  fentry_set c (l_cfg lc) exitset (if initial then l_hist lc else fremember c (l_cfg lc) exitset (l_hist lc)) targets sel ->
  let r1 := cmicrostep cv c lc x targets exitset sel initial in
  let r2 := fmicrostep xv c lf y targets exitset sel initial in
  lsame (fst r1) (fst r2) /\ csim (snd r1) (snd r2) /\
  l_spont (fst r1) = true /\ l_init (fst r1) = true /\ l_cancelled (fst r1) = l_cancelled lc /\ l_stable (fst r1) = l_stable lc.
Proof.
  intros (L1 & L2 & L3 & L4) R Hrem Hent. cbv zeta. unfold cmicrostep, fmicrostep. rewrite <- L1, <- L2.
  assert (Hh : (if initial then l_hist lc else cremember cv c (l_cfg lc) exitset (l_hist lc)) =
               (if initial then l_hist lc else fremember c (l_cfg lc) exitset (l_hist lc)))
    by (destruct initial; [reflexivity|now apply Hrem]).
  rewrite Hh, Hent.
  destruct (fentry_set c (l_cfg lc) exitset _ targets sel) as [es ts].
  destruct (exit_phase (rev exitset) (l_cfg lc) x y R) as [Ec Ex].
  destruct (fold_left (cexit_one c) (rev exitset) (l_cfg lc, x)) as [cfg1 x1].
  destruct (fold_left (exit_one xv c) (rev exitset) (l_cfg lc, y)) as [cfg1' y1]. cbn [fst snd] in Ec, Ex. subst cfg1'.
  pose proof (take_phase cfg1 ts x1 y1 Ex) as Et.
  assert (E0 : esim {| ca_cfg := cfg1; ca_tlf := l_tlf lc; ca_x := fold_left (ctake_one c cfg1) ts x1 |}
                    {| ea_cfg := cfg1; ea_initd := l_initd lf; ea_tlf := l_tlf lf; ea_x := fold_left (take_one xv c cfg1) ts y1 |})
    by (constructor; cbn; auto).
  destruct (enter_phase ts es _ _ E0) as [F1 F2 F3].
  cbn [fst snd l_cfg l_hist l_tlf l_fin l_spont l_init l_cancelled l_stable].
  split; [unfold lsame; cbn [l_cfg l_hist l_tlf l_fin]; auto|].
  split; [now apply csim_emit|]. auto.
Qed.

End Step.
