(* TablesFlattenCGen.v -- C05: the tables CGen.bmachine_of embeds (the model of the emitted C arrays, built from
   Chart.flatten) are the byte-packed bit rows of Tables.Impl_tables (what ChartToC::prepare annotates and
   writeStates / writeTransitions pack).  Proofs only. *)
From V Require Import Base Chart Large Fast GenCGen CGen Tables TreeLemmas TablesLemmas SetLemmas LargeCacheLemmas
  FlattenWfTree FlattenWfStruct TablesFlatten TablesFlattenLemmas TablesFlattenTrans TablesFlattenMain.
Local Open Scope nat_scope.

(* the state and transition rows of the emitted machine, computed from the transpilers' tables alone *)
Definition bstate_of_tab (maxs : nat) (T : tables) (s : stab) : bstate :=
  {| bs_parent := match sb_parent s with Some p => p | None => 0 end;
     bs_children := to_bytes maxs (set_of_bits (sb_child s));
     bs_completion := to_bytes maxs (set_of_bits (sb_compl s));
     bs_ancestors := to_bytes maxs (set_of_bits (sb_anc s));
     bs_type := N.lor (kind_code (ftype_of_stab T s)) (if sb_hashist s then CG_STATE_HAS_HISTORY else 0%N) |}.

(* source, target, conflicts, exit_set of a transition row (the flags `type', the event and the condition are
   no structural tables) *)
Definition btrans_tables (b : btrans) : nat * barr * barr * barr :=
  (bt_source b, bt_target b, bt_conflicts b, bt_exit b).
Definition btrans_tables_of_tab (maxs maxt : nat) (t : ttab) : nat * barr * barr * barr :=
  (tb_source t,
   to_bytes maxs (match tb_target t with Some b => set_of_bits b | None => [] end),
   to_bytes maxt (set_of_bits (tb_confl t)),
   to_bytes maxs (set_of_bits (tb_exit t))).

(* ------------------------------------------------------------------ bit rows and byte packing *)

Lemma tf_set_of_bits_map (f : nat -> bool) m : set_of_bits (map f (seq 0 m)) = filter f (seq 0 m).
Proof.
  unfold set_of_bits. rewrite map_length, seq_length. apply filter_ext_in'. intros j Hj. apply in_seq in Hj.
  rewrite (map_nth' f false 0) by (rewrite seq_length; lia). rewrite seq_nth by lia. reflexivity.
Qed.

Lemma tf_mem_filter_seq0 (f : nat -> bool) m j : mem j (filter f (seq 0 m)) = (j <? m) && f j.
Proof.
  apply bool_eq_iff. rewrite mem_In, filter_In, in_seq, andb_true_iff, Nat.ltb_lt. intuition lia.
Qed.

Lemma tf_fold_ext {A B} (f g : A -> B -> A) l : (forall a b, f a b = g a b) -> forall a, fold_left f l a = fold_left g l a.
Proof. intros H. induction l as [|x l IH]; intros a; [reflexivity|]. cbn [fold_left]. rewrite H. apply IH. Qed.

Lemma tf_to_bytes_ext nb s1 s2 : (forall j, mem j s1 = mem j s2) -> to_bytes nb s1 = to_bytes nb s2.
Proof.
  intros H. unfold to_bytes. apply map_ext. intros k. unfold byte_of. apply tf_fold_ext. intros a b. rewrite H. reflexivity.
Qed.

Lemma tf_map_nth_seq {A B} (h : A -> B) (l : list A) d : map h l = map (fun i => h (nth i l d)) (seq 0 (length l)).
Proof. rewrite <- (map_nth_seq' l d) at 1. rewrite map_map. reflexivity. Qed.

Lemma tf_find_eqb i l : In i l -> find (fun h => h =? i) l = Some i.
Proof.
  intros Hin. destruct (find (fun h => h =? i) l) as [h|] eqn:Hf.
  - apply find_some in Hf. destruct Hf as [_ Hf]. apply Nat.eqb_eq in Hf. congruence.
  - pose proof (find_none _ _ Hf i Hin) as Hn. cbv beta in Hn. rewrite Nat.eqb_refl in Hn. discriminate.
Qed.

Section Machine.
Variable late : bool.
Variable t0 : tree.
Local Notation root := (resort t0).
Local Notation c := (flatten late t0).
Local Notation n := (tsize (resort t0)).
Local Notation nodes := (nodes_of (resort t0)).
Local Notation trs := (postfix_trans nodes root).
Local Notation ids := (fl_ids t0).

(* every number in a flat table row is the number of a node *)
Lemma tf_nat_of_sid_lt s j : nat_of_sid ids s = Some j -> j < n.
Proof.
  unfold nat_of_sid. rewrite (tf_ids_map t0), tf_find_map. cbn [fst snd].
  destruct (find _ (seq 0 n)) as [x|] eqn:Hf; [|discriminate]. intros E. inversion E; subst j.
  apply find_some in Hf. destruct Hf as [Hin _]. apply in_seq in Hin. lia.
Qed.

Lemma tf_completion_lt i j : i < n -> In j (fs_completion (st c i)) -> j < n.
Proof.
  intros Hi. rewrite (fl_completion late t0 i Hi). unfold completion_of. rewrite (tf_kids_combine late t0 i Hi).
  assert (Hk : forall b, In b (kidx t0 i) -> b < n).
  { intros b Hb. unfold kidx in Hb. apply filter_In in Hb. destruct Hb as [Hb _]. apply in_seq in Hb. lia. }
  assert (Hfind : forall (P : tree * nat -> bool) p,
            find P (map (fun b => (ntree nodes b, b)) (kidx t0 i)) = Some p -> snd p < n).
  { intros P p Hf. apply find_some in Hf. destruct Hf as [Hin _]. apply in_map_iff in Hin.
    destruct Hin as (b & <- & Hb). apply Hk. exact Hb. }
  assert (Hrest : In j match t_initattr (ntree nodes i) with
                       | Some l => set_of_list (filter_map (nat_of_sid ids) l)
                       | None =>
                         match find (fun p : tree * nat => match t_kind (fst p) with KInitial => true | _ => false end)
                                    (map (fun b => (ntree nodes b, b)) (kidx t0 i)) with
                         | Some p => [snd p]
                         | None => match find (fun p : tree * nat => is_proper_kind (t_kind (fst p)))
                                              (map (fun b => (ntree nodes b, b)) (kidx t0 i)) with
                                   | Some p => [snd p]
                                   | None => []
                                   end
                         end
                       end -> j < n).
  { destruct (t_initattr (ntree nodes i)) as [l|].
    - rewrite In_set_of_list, In_filter_map. intros (s & _ & Hs). apply (tf_nat_of_sid_lt s j Hs).
    - destruct (find _ _) as [p|] eqn:Hf1; [intros [<-|[]]; apply (Hfind _ p Hf1)|].
      match goal with |- context [find ?P ?L] => destruct (find P L) as [p|] eqn:Hf2 end;
        [intros [<-|[]]; apply (Hfind _ p Hf2) | intros []]. }
  destruct (t_kind (ntree nodes i)); try exact Hrest.
  - (* parallel *)
    rewrite In_filter_map. intros (p & Hp & Hs). apply in_map_iff in Hp. destruct Hp as (b & <- & Hb).
    cbn [fst snd] in Hs. destruct (is_proper_kind (t_kind (ntree nodes b))); [|discriminate]. inversion Hs; subst. apply Hk. exact Hb.
  - (* shallow history *)
    destruct (npar nodes i) as [p|]; [|intros []]. rewrite In_filter_map, doc_nodes_length. intros (x & Hx & Hs).
    apply in_seq in Hx. destruct (nth x (doc_nodes root 0 None) (ntree nodes i, None)) as [tj [pj|]]; [|discriminate].
    destruct (_ && _); [|discriminate]. inversion Hs; subst. lia.
  - (* deep history *)
    destruct (npar nodes i) as [p|] eqn:Hp; [|intros []].
    assert (Hpn : p < n) by (pose proof (br_npar_lt root i p Hi Hp); lia).
    rewrite (nth_indep _ _ (root, None)) by (rewrite doc_nodes_length; exact Hpn).
    rewrite (nth_nodes_ntree t0 p Hpn). cbn [fst]. rewrite filter_In, in_seq. intros [Hr _].
    destruct (tree_interval_flatten late t0) as (_ & Hsz & _). specialize (Hsz p Hpn). rewrite (tf_size late t0 p Hpn) in Hsz. lia.
Qed.

Variable chains : list (list nat).
Hypothesis Hch : chains_of nodes = Some chains.
Variable cv : cg_variant.
Hypothesis Hcover : cg_cover cv = CoverNone.

Lemma tf_ccompl i : i < n -> ccompl cv c i = fs_completion (st c i).
Proof.
  intros Hi. unfold ccompl, hist_table. rewrite Hcover. destruct (is_hist (fs_type (st c i))) eqn:Hk; [|reflexivity].
  rewrite tf_find_map. cbn [fst]. rewrite (tf_find_eqb i); [reflexivity|].
  unfold hists, cn. rewrite (tf_nstates late t0). apply filter_In. split; [apply in_seq; lia | exact Hk].
Qed.

Local Notation hres := (impl_hist_results nodes chains tv_fixed root).
Local Notation T := {| tbl_states := map (impl_stab nodes chains hres) (seq 0 n);
                       tbl_trans := map (impl_ttab root chains trs) trs |}.

Hypothesis Hwf : wf_doc root = true.
Hypothesis Hrefs : tf_refs_ok root = true.

Lemma tf_bstate i : i < n -> bstate_of cv c i = bstate_of_tab (m_maxs c) T (impl_stab nodes chains hres i).
Proof.
  intros Hi. unfold bstate_of, bstate_of_tab. cbn [impl_stab sb_parent sb_child sb_compl sb_anc sb_hashist].
  f_equal.
  - rewrite (tf_parent late t0 i Hi). reflexivity.
  - f_equal. unfold impl_child. rewrite (br_idx root), tf_set_of_bits_map. apply (tf_children late t0 i Hi).
  - rewrite (tf_ccompl i Hi). apply tf_to_bytes_ext. intros j. unfold bools_of.
    rewrite (br_idx root), tf_set_of_bits_map, tf_mem_filter_seq0.
    destruct (j <? n) eqn:Hj.
    + apply Nat.ltb_lt in Hj. cbn [andb]. destruct (is_history nodes i) eqn:Hk.
      * apply (tf_completion_hist late t0 chains Hch i j Hi Hj Hk).
      * apply (tf_completion_state late t0 Hrefs i j Hi Hk).
    + apply Nat.ltb_ge in Hj. cbn [andb]. apply mem_false_iff. intros Hin. pose proof (tf_completion_lt i j Hi Hin). lia.
  - apply tf_to_bytes_ext. intros j. unfold impl_anc. rewrite (br_idx root), tf_set_of_bits_map, tf_mem_filter_seq0.
    rewrite (tf_anc late t0 chains Hch j i Hi). destruct (j <? n) eqn:Hj; [reflexivity|]. apply Nat.ltb_ge in Hj. cbn [andb].
    apply not_true_is_false. intros Hd. pose proof (tf_anc_lt t0 chains Hch j i Hi Hd). lia.
  - f_equal.
    + f_equal. rewrite (tf_type late t0 i Hi). unfold ftype_of_stab, type_of. cbn [impl_stab sb_kind sb_child tbl_states].
      fold (nkind nodes i).
      assert (Hex : existsb (fun p : bool * stab => fst p && is_proper_kind (sb_kind (snd p)))
                      (combine (impl_child nodes i) (map (impl_stab nodes chains hres) (seq 0 n))) =
                    has_proper_child (ntree nodes i)).
      { unfold impl_child. rewrite (br_idx root), combine_map_map, tf_existsb_map.
        cbn [fst snd impl_stab sb_kind]. rewrite (tf_has_proper_child late t0 i Hi). unfold child_states. rewrite (br_idx root).
        apply tf_existsb_filter_ne. }
      rewrite Hex. destruct (nkind nodes i); reflexivity.
    + rewrite (tf_hashist late t0 chains Hch i (proj1 (wf_parts root Hwf)) Hi). reflexivity.
Qed.

Hypothesis Hnt : tf_root_no_trans root = true.
Hypothesis Hni : tf_root_no_initial root = true.
Hypothesis Hrc : tf_root_compound root = true.

Lemma tf_tr_nth j x0 : j < length trs -> tr c j = ftr t0 (nth j trs x0).
Proof.
  intros Hj. unfold tr. rewrite (tf_fc_trans late t0).
  rewrite (nth_indep _ dummy_trans (ftr t0 x0)) by (rewrite map_length; exact Hj). apply map_nth.
Qed.

Lemma tf_btrans x : In x trs ->
  let t := ftr t0 x in
  (ft_source t, to_bytes (m_maxs c) (ft_targets t),
   to_bytes (m_maxt c) (filter (fun j => fconflicts c (eff_source c t) (eff_source c (tr c j))) (seq 0 (ntrans c))),
   to_bytes (m_maxs c) (cexit_table c (eff_source c t))) =
  btrans_tables_of_tab (m_maxs c) (m_maxt c) (impl_ttab root chains trs x).
Proof.
  intros Hx t. unfold btrans_tables_of_tab. cbn [impl_ttab tb_source tb_target tb_confl tb_exit].
  pose proof (tf_source_not_root t0 x Hwf Hnt Hni Hx) as Hs0.
  f_equal; [f_equal; [f_equal|]|].
  - (* targets *)
    rewrite (tf_target_bools t0 Hwf Hrefs x Hx). fold t.
    assert (Hlt : forall j, In j (ft_targets t) -> j < n).
    { intros j Hj. unfold t in Hj. rewrite (tf_targets t0 Hrefs x Hx) in Hj. apply (target_states_lt root Hwf (snd x) j Hj). }
    destruct (ft_targetless t) eqn:Htl.
    + unfold t, ftr in *. cbn [mk_trans ft_targetless ft_targets] in *. destruct (tt_targets (snd x)); [discriminate | reflexivity].
    + apply tf_to_bytes_ext. intros j. unfold bits_of_set. rewrite tf_set_of_bits_map, tf_mem_filter_seq0.
      destruct (j <? n) eqn:Hj; [reflexivity|]. apply Nat.ltb_ge in Hj. cbn [andb]. apply mem_false_iff. intros Hin.
      specialize (Hlt j Hin). lia.
  - (* conflicts *)
    f_equal. unfold set_of_bits. rewrite map_length. unfold ntrans. rewrite (tf_fc_trans late t0), map_length.
    apply filter_ext_in'. intros j Hj. apply in_seq in Hj. cbn [Nat.add] in Hj. destruct Hj as [_ Hj].
    rewrite (map_nth' _ false x) by exact Hj. rewrite (tf_tr_nth j x Hj).
    assert (Hy : In (nth j trs x) trs) by (apply nth_In; exact Hj).
    symmetry. apply (tf_conflict_bit late t0 chains Hch Hwf Hrefs Hrc x (nth j trs x) Hx Hy Hs0).
    apply (tf_source_not_root t0 _ Hwf Hnt Hni Hy).
  - (* exit set *)
    apply tf_to_bytes_ext. intros j. unfold bools_of. rewrite (br_idx root), tf_set_of_bits_map, tf_mem_filter_seq0.
    unfold cexit_table. fold t.
    destruct (j <? n) eqn:Hj.
    + apply Nat.ltb_lt in Hj. cbn [andb]. rewrite (tf_exit_mem late t0 chains Hch Hwf Hrefs x j Hx Hs0 Hj). fold t.
      destruct (domain c (eff_source c t)) as [d|] eqn:Hd; [|reflexivity].
      destruct (tf_domain_facts late t0 chains Hch x d Hx Hd) as [Hdn _].
      destruct (tree_interval_flatten late t0) as (_ & Hsz & _). specialize (Hsz d Hdn).
      apply bool_eq_iff. rewrite mem_In, filter_In, in_seq, !andb_true_iff, !Nat.ltb_lt. intuition lia.
    + apply Nat.ltb_ge in Hj. cbn [andb]. apply mem_false_iff. intros Hin.
      destruct (domain c (eff_source c t)) as [d|] eqn:Hd; [|destruct Hin].
      destruct (tf_domain_facts late t0 chains Hch x d Hx Hd) as [Hdn _].
      destruct (tree_interval_flatten late t0) as (_ & Hsz & _). specialize (Hsz d Hdn).
      apply filter_In in Hin. destruct Hin as [Hin _]. apply in_seq in Hin. lia.
Qed.

End Machine.

(* the emitted machine's structural tables are the transpilers' tables, byte-packed *)
Lemma bmachine_tables_are_impl_tables_lemma : forall late cv t0 T,
  cg_cover cv = CoverNone -> tf_doc_ok (resort t0) = true -> Impl_tables tv_fixed t0 = Tables.Ok T ->
  let c := flatten late t0 in
  let bm := bmachine_of cv c in
  bm_ns bm = length (tbl_states T) /\ bm_nt bm = length (tbl_trans T) /\
  bm_states bm = map (bstate_of_tab (m_maxs c) T) (tbl_states T) /\
  map btrans_tables (bm_trans bm) = map (btrans_tables_of_tab (m_maxs c) (m_maxt c)) (tbl_trans T).
Proof.
  intros late cv t0 T Hcover Hok HT. cbn zeta.
  destruct (tf_doc_ok_parts t0 Hok) as (Hwf & Hrefs & Hnt & Hni & Hrc).
  destruct (tables_sizes_agree_lemma late t0 _ T HT) as [S1 S2].
  destruct (tf_closed t0 _ T HT) as (chains & Hch & ET).
  unfold bmachine_of. cbn [bm_ns bm_nt bm_states bm_trans]. split; [symmetry; exact S1|]. split; [symmetry; exact S2|]. split.
  - rewrite ET at 2. cbn [tbl_states]. rewrite map_map, (tf_nstates late t0). apply map_ext_in. intros i Hi. apply in_seq in Hi.
    rewrite ET. apply (tf_bstate late t0 chains Hch cv Hcover Hwf Hrefs i). lia.
  - rewrite ET. cbn [tbl_trans]. rewrite !map_map.
    transitivity (map (fun t => (ft_source t, to_bytes (m_maxs (flatten late t0)) (ft_targets t),
                                 to_bytes (m_maxt (flatten late t0))
                                   (filter (fun j => fconflicts (flatten late t0) (eff_source (flatten late t0) t)
                                                       (eff_source (flatten late t0) (tr (flatten late t0) j)))
                                           (seq 0 (ntrans (flatten late t0)))),
                                 to_bytes (m_maxs (flatten late t0)) (cexit_table (flatten late t0) (eff_source (flatten late t0) t))))
                      (fc_trans (flatten late t0))).
    + rewrite (tf_map_nth_seq _ (fc_trans (flatten late t0)) dummy_trans). reflexivity.
    + rewrite (tf_fc_trans late t0), map_map. apply map_ext_in. intros x Hx.
      apply (tf_btrans late t0 chains Hch Hwf Hrefs Hnt Hni Hrc x Hx).
Qed.

(* non-vacuity: the hypotheses hold for the rich document and the repaired generator *)
Example bmachine_tables_nonvacuous :
  cg_cover cg_repaired = CoverNone /\ tf_doc_ok (resort tf_rich) = true /\
  exists T, Impl_tables tv_fixed tf_rich = Tables.Ok T /\ length (tbl_trans T) = 8.
Proof. split; [reflexivity|]. split; [vm_compute; reflexivity|]. eexists. split; [vm_compute; reflexivity | reflexivity]. Qed.
