(* SelectConformOrder.v -- LargeMicroStep::init numbers the transitions in post-fix order of their source
   states: for every document, if the block of state s1 lies before state s2 in document order, every
   transition of s1 has a smaller index than every transition of s2 (SelectConform.trans_orderb holds of
   every chart that flatten builds).  Proofs only. *)
From V Require Import Base Chart Tables TreeLemmas LargeCacheLemmas SelectConform.
From Coq Require Import Sorted.
Local Open Scope nat_scope.

(* ------------------------------------------------------------------ post-order of occurrences *)

Definition splits {A} (l : list A) (p q : A) : Prop :=
  exists l1 l2, l = l1 ++ l2 /\ ~ In q l1 /\ ~ In p l2.

Lemma forest_head l : forall k0 p, In p (paths_post_forest l k0) -> exists k r, p = k :: r /\ k0 <= k.
Proof.
  intros k0 p H. apply In_paths_post_forest in H as (k & c & r & -> & _ & _). exists (k0 + k), r. split; [reflexivity | lia].
Qed.

Lemma in_map_cons k p (L : list (list nat)) : In (k :: p) (map (cons k) L) <-> In p L.
Proof.
  rewrite in_map_iff. split; [intros (r & E & H); inversion E; subst; exact H | intros H; exists p; auto].
Qed.

Lemma not_in_map_cons k j p (L : list (list nat)) : j <> k -> ~ In (j :: p) (map (cons k) L).
Proof. intros Hne H. apply in_map_iff in H as (r & E & _). inversion E. congruence. Qed.

Lemma forest_splits l :
  Forall (fun x => forall p q, In p (paths_post x) -> In q (paths_post x) -> lex_lt p q = true ->
                               proper_prefix p q = false -> splits (paths_post x) p q) l ->
  forall k0 i j p' q',
    In (i :: p') (paths_post_forest l k0) -> In (j :: q') (paths_post_forest l k0) ->
    (i < j \/ (i = j /\ lex_lt p' q' = true /\ proper_prefix p' q' = false)) ->
    splits (paths_post_forest l k0) (i :: p') (j :: q').
Proof.
  induction 1 as [|x r Hx Hr IH]; intros k0 i j p' q' Hp Hq Hrel; [destruct Hp|].
  cbn [paths_post_forest] in *.
  assert (Hrest : forall k z, In (k :: z) (paths_post_forest r (S k0)) -> S k0 <= k).
  { intros k z Hz. apply forest_head in Hz as (k' & r' & E & Hk). inversion E; subst. exact Hk. }
  assert (Hfirst : forall k z, In (k :: z) (map (cons k0) (paths_post x) ++ paths_post_forest r (S k0)) -> k = k0 \/ S k0 <= k).
  { intros k z Hz. apply in_app_iff in Hz as [Hz|Hz]; [left | right; now apply (Hrest k z)].
    apply in_map_iff in Hz as (z' & E & _). inversion E. reflexivity. }
  destruct (Hfirst _ _ Hp) as [->|Hi].
  - (* p in the first block *)
    assert (Hp' : In p' (paths_post x)).
    { apply in_app_iff in Hp as [Hp|Hp]; [now apply in_map_cons in Hp | apply Hrest in Hp; lia]. }
    destruct (Hfirst _ _ Hq) as [->|Hj].
    + assert (Hq' : In q' (paths_post x)).
      { apply in_app_iff in Hq as [Hq|Hq]; [now apply in_map_cons in Hq | apply Hrest in Hq; lia]. }
      destruct Hrel as [Hlt|(_ & Hl & Hpp)]; [lia|].
      destruct (Hx p' q' Hp' Hq' Hl Hpp) as (l1 & l2 & E & N1 & N2).
      exists (map (cons k0) l1), (map (cons k0) l2 ++ paths_post_forest r (S k0)).
      split; [rewrite E, map_app, <- app_assoc; reflexivity|]. split.
      * intros Hin. now apply in_map_cons in Hin.
      * intros Hin. apply in_app_iff in Hin as [Hin|Hin]; [now apply in_map_cons in Hin | apply Hrest in Hin; lia].
    + exists (map (cons k0) (paths_post x)), (paths_post_forest r (S k0)). split; [reflexivity|]. split.
      * apply not_in_map_cons. lia.
      * intros Hin. apply Hrest in Hin. lia.
  - (* p in a later block: so is q *)
    assert (Hj : S k0 <= j) by (destruct Hrel as [?|[? _]]; lia).
    assert (Hp2 : In (i :: p') (paths_post_forest r (S k0))).
    { apply in_app_iff in Hp as [Hp|Hp]; [|exact Hp]. exfalso. revert Hp. apply not_in_map_cons. lia. }
    assert (Hq2 : In (j :: q') (paths_post_forest r (S k0))).
    { apply in_app_iff in Hq as [Hq|Hq]; [|exact Hq]. exfalso. revert Hq. apply not_in_map_cons. lia. }
    destruct (IH (S k0) i j p' q' Hp2 Hq2 Hrel) as (l1 & l2 & E & N1 & N2).
    exists (map (cons k0) (paths_post x) ++ l1), l2. split; [rewrite E, app_assoc; reflexivity|]. split; [|exact N2].
    intros Hin. apply in_app_iff in Hin as [Hin|Hin]; [|contradiction]. revert Hin. apply not_in_map_cons. lia.
Qed.

(* in the post-order listing an occurrence p comes before an occurrence q that follows it in document
   order and does not lie below it *)
Lemma paths_post_splits : forall t p q, In p (paths_post t) -> In q (paths_post t) -> lex_lt p q = true ->
  proper_prefix p q = false -> splits (paths_post t) p q.
Proof.
  induction t using tree_ind'. intros p q Hp Hq Hl Hpp.
  rewrite paths_post_unfold in *. cbn [t_kids] in *.
  destruct p as [|i0 p']; [destruct q; discriminate|]. destruct q as [|j0 q']; [discriminate|].
  assert (Hp' : In (i0 :: p') (paths_post_forest kids 0)) by (apply in_app_iff in Hp as [Hp|[Hp|[]]]; [exact Hp | discriminate]).
  assert (Hq' : In (j0 :: q') (paths_post_forest kids 0)) by (apply in_app_iff in Hq as [Hq|[Hq|[]]]; [exact Hq | discriminate]).
  cbn [lex_lt proper_prefix] in Hl, Hpp.
  assert (Hrel : i0 < j0 \/ (i0 = j0 /\ lex_lt p' q' = true /\ proper_prefix p' q' = false)).
  { apply orb_true_iff in Hl as [Hl|Hl]; [left; now apply Nat.ltb_lt|]. right.
    apply andb_true_iff in Hl as [He Hl]. apply Nat.eqb_eq in He. subst j0. rewrite Nat.eqb_refl in Hpp. auto. }
  destruct (forest_splits kids H 0 i0 j0 p' q' Hp' Hq' Hrel) as (l1 & l2 & E & N1 & N2).
  exists l1, (l2 ++ [[]]). split; [rewrite E, app_assoc; reflexivity|]. split; [exact N1|].
  intros Hin. apply in_app_iff in Hin as [Hin|[Hin|[]]]; [contradiction | discriminate].
Qed.

(* ------------------------------------------------------------------ ... of state indices *)

Lemma sorted_nth {A} (R : A -> A -> Prop) (d : A) l : StronglySorted R l ->
  forall i j, i < j -> j < length l -> R (nth i l d) (nth j l d).
Proof.
  induction 1 as [|x l Hs IH Hall]; intros i j Hij Hj; [cbn in Hj; lia|].
  destruct j as [|j]; [lia|]. cbn [length] in Hj. destruct i as [|i]; cbn [nth].
  - rewrite Forall_forall in Hall. apply Hall. apply nth_In. lia.
  - apply IH; lia.
Qed.

Lemma pth_lex t a b : a < b -> b < tsize t -> lex_lt (pth_of t a) (pth_of t b) = true.
Proof.
  intros Hab Hb. unfold pth_of. apply (sorted_nth (fun a b => lex_lt a b = true) [] (paths t) (paths_sorted t)); [exact Hab|].
  rewrite paths_length. exact Hb.
Qed.

Lemma pth_in_post t a : a < tsize t -> In (pth_of t a) (paths_post t).
Proof. intros Ha. apply In_paths_post_iff. apply In_paths_iff. now apply pth_in. Qed.

Lemma postfix_splits t a b : a < b -> b < tsize t ->
  proper_prefix (pth_of t a) (pth_of t b) = false -> splits (postfix_states t 0) a b.
Proof.
  intros Hab Hb Hpp. assert (Ha : a < tsize t) by lia.
  destruct (paths_post_splits t _ _ (pth_in_post t a Ha) (pth_in_post t b Hb) (pth_lex t a b Hab Hb) Hpp) as (l1 & l2 & E & N1 & N2).
  pose proof (paths_post_idx t 0) as Hidx. rewrite E, map_app in Hidx. symmetry in Hidx.
  apply map_eq_app in Hidx as (P1 & P2 & EP & M1 & M2).
  exists P1, P2. split; [exact EP|]. split.
  - intros Hin. apply N1. assert (Hs : In (Some b) (map Some P1)) by now apply in_map.
    rewrite M1 in Hs. apply in_map_iff in Hs as (p & Hp & Hpl). apply pth_of_pidx in Hp as [_ <-]. exact Hpl.
  - intros Hin. apply N2. assert (Hs : In (Some a) (map Some P2)) by now apply in_map.
    rewrite M2 in Hs. apply in_map_iff in Hs as (p & Hp & Hpl). apply pth_of_pidx in Hp as [_ <-]. exact Hpl.
Qed.

(* ------------------------------------------------------------------ ... of the transitions listed per state *)

Lemma sc_index_where_lt {A} (f : A -> bool) : forall l b k, In k (index_where f l b) -> k < b + length l.
Proof.
  induction l as [|y r IH]; intros b k; cbn [index_where length]; [intros []|].
  destruct (f y); [intros [<-|H]; [lia | apply IH in H; lia] | intros H; apply IH in H; lia].
Qed.

Lemma flat_index_order {A} (src : A -> nat) (g : nat -> list A) (d : A) :
  (forall i e, In e (g i) -> src e = i) ->
  forall l1 l2 s1 s2, ~ In s2 l1 -> ~ In s1 l2 ->
  forall t1 t2,
    In t1 (index_where (fun e => src e =? s1) (flat_map g (l1 ++ l2)) 0) ->
    In t2 (index_where (fun e => src e =? s2) (flat_map g (l1 ++ l2)) 0) -> t1 < t2.
Proof.
  intros Hsrc l1 l2 s1 s2 N1 N2 t1 t2 H1 H2. rewrite flat_map_app in H1, H2.
  pose proof (sc_index_where_lt _ _ _ _ H1) as L1. pose proof (sc_index_where_lt _ _ _ _ H2) as L2.
  apply (index_where_spec _ d) in H1 as [_ F1]. apply (index_where_spec _ d) in H2 as [_ F2].
  rewrite Nat.sub_0_r in F1, F2. apply Nat.eqb_eq in F1, F2. rewrite app_length in L1, L2. cbn [plus] in L1, L2.
  assert (Hmem : forall l e, In e (flat_map g l) -> In (src e) l).
  { intros l e He. apply in_flat_map in He as (i & Hi & Hg). now rewrite (Hsrc i e Hg). }
  destruct (Nat.lt_ge_cases t1 (length (flat_map g l1))) as [A1|A1].
  - destruct (Nat.lt_ge_cases t2 (length (flat_map g l1))) as [A2|A2]; [|lia].
    exfalso. apply N1. rewrite <- F2. apply Hmem. rewrite app_nth1 by exact A2. now apply nth_In.
  - exfalso. apply N2. rewrite <- F1. apply Hmem. rewrite app_nth2 by exact A1. apply nth_In. lia.
Qed.

Theorem trans_order_flatten late t0 : trans_orderb (flatten late t0) = true.
Proof.
  unfold trans_orderb. rewrite (flatten_nstates late t0).
  apply forallb_forall. intros s1 Hs1. apply forallb_forall. intros s2 Hs2. apply in_seq in Hs1, Hs2.
  destruct (s1 + fs_size (st (flatten late t0) s1) <=? s2) eqn:Hb; [|reflexivity]. apply Nat.leb_le in Hb.
  apply forallb_forall. intros t1 Ht1. apply forallb_forall. intros t2 Ht2. apply Nat.ltb_lt.
  destruct (st_flatten late t0 s1 ltac:(lia)) as (_ & _ & _ & Hsz & _). rewrite Hsz in Hb.
  pose proof (tsize_pos (subd (resort t0) (pth_of (resort t0) s1))) as Hpos.
  assert (Hpp : proper_prefix (pth_of (resort t0) s1) (pth_of (resort t0) s2) = false).
  { destruct (proper_prefix (pth_of (resort t0) s1) (pth_of (resort t0) s2)) eqn:E; [|reflexivity].
    apply prefix_interval in E; lia. }
  destruct (postfix_splits (resort t0) s1 s2 ltac:(lia) ltac:(lia) Hpp) as (l1 & l2 & EP & N1 & N2).
  rewrite fs_trans_flatten in Ht1, Ht2 by (rewrite (flatten_nstates late t0); lia).
  unfold all_trans in Ht1, Ht2. rewrite EP in Ht1, Ht2.
  set (nodes := doc_nodes (resort t0) 0 None) in *.
  exact (flat_index_order (fun e : nat * ttrans * skind => fst (fst e))
           (fun i => let t := fst (nth i nodes (resort t0, None)) in map (fun x => (i, x, t_kind t)) (t_trans t))
           (0, {| tt_vid := 0; tt_event := None; tt_cond := None; tt_targets := None; tt_internal := false; tt_body := [] |}, KState)
           ltac:(intros i e He; cbn zeta in He; apply in_map_iff in He as (y & <- & _); reflexivity)
           l1 l2 s1 s2 N1 N2 t1 t2 Ht1 Ht2).
Qed.
