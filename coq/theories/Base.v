(* Base.v -- shared conventions: bytes are N (< 256), byte strings are list N. *)
From Coq Require Export List NArith ZArith Bool Arith Lia.
Export ListNotations.
Local Open Scope N_scope.

Definition byte := N.
Definition bytes := list N.

Fixpoint beq_bytes (a b : bytes) : bool :=
  match a, b with
  | [], [] => true
  | x :: a', y :: b' => (x =? y) && beq_bytes a' b'
  | _, _ => false
  end.

Fixpoint is_prefix (p l : bytes) : bool :=
  match p, l with
  | [], _ => true
  | x :: p', y :: l' => (x =? y) && is_prefix p' l'
  | _ :: _, [] => false
  end.

Definition c_space : N := 32.
Definition c_star : N := 42.
Definition c_dot : N := 46.

(* isspace in the "C" locale: 9..13 and 32 *)
Definition isspace (c : N) : bool := (c =? 32) || ((9 <=? c) && (c <=? 13)).

(* std::tolower in the "C" locale *)
Definition tolower (c : N) : N := if (65 <=? c) && (c <=? 90) then c + 32 else c.

Fixpoint ieq_bytes (a b : bytes) : bool :=
  match a, b with
  | [], [] => true
  | x :: a', y :: b' => (tolower x =? tolower y) && ieq_bytes a' b'
  | _, _ => false
  end.

Fixpoint nth_byte (l : bytes) (n : nat) : option N :=
  match l, n with
  | [], _ => None
  | x :: _, O => Some x
  | _ :: r, S k => nth_byte r k
  end.

Definition opt_is (o : option N) (c : N) : bool :=
  match o with Some x => x =? c | None => false end.
