(* VhdlDocWitness.v -- C18, document level: the clauses of VhdlDoc.vh_treeb that cannot be dropped (concrete
   documents on which the emitted equations and the reference step differ), the clause needed for legality only,
   the guard of the default-engine theorem, and non-vacuity of all hypotheses on a document with a <parallel>,
   nested compound states, a top-level <final>, condition inputs and three events.  vm_compute witnesses. *)
From V Require Import Base NameMatch Chart Exec Large LargeLemmas Fast Interp Legal LegalRun WfCore LegalOracle
     SelectConform MicroConform EngineEquivDone EngineEquivStep EngineEquivSelect EngineEquivRun EngineEquivMain
     EngineEquivWitness Vhdl VhdlLemmas FlattenWf VhdlDoc VhdlDocFlat VhdlDocLemmas VhdlDocEngine VhdlDocLarge
     VhdlDocLegal VhdlDocExt.
Local Open Scope nat_scope.

(* the clauses of vh_treeb in order, then the target-set clause of vh_tree_runb *)
Definition vh_tree_clauses (t : tree) : list bool :=
  [ct_kindsb t; ct_rootb t; ct_uniqueb t; ct_initialb t; ct_no_root_targetb t;
   vt_final_leafb t; vt_root_plainb t; vt_descsb t; vt_contentb t; ct_target_setsb t].

Lemma vh_tree_runb_clauses t : vh_tree_runb t = forallb (fun b => b) (vh_tree_clauses t).
Proof.
  unfold vh_tree_runb, vh_treeb, vh_tree_clauses. cbn [forallb].
  destruct (ct_kindsb t), (ct_rootb t), (ct_uniqueb t), (ct_initialb t), (ct_no_root_targetb t), (vt_final_leafb t),
    (vt_root_plainb t), (vt_descsb t), (vt_contentb t), (ct_target_setsb t); reflexivity.
Qed.

(* "the clauses are exactly [pat], and in a legal running situation of the document the emitted equations do not
   yield the reference configuration" *)
Definition doc_refuted (pat : list bool) : Prop :=
  exists t cfg ev val, let c := flatten false t in
    vh_tree_clauses t = pat /\ legal_configb c cfg = true /\ vh_running c cfg = true /\ vh_event_ok c ev = true /\
    eval_eqs c (gen_eqs vh_fixed c) cfg ev val <> Some (next_config c cfg ev val).

Definition st_i (sid : N) (ini : option (list N)) (trans : list ttrans) (kids : list tree) : tree :=
  TNode KState sid ini trans [] [] [] kids.
Definition ff : nat -> bool := fun _ => false.
Definition tt : nat -> bool := fun _ => true.

(* root: a <parallel> as root element.  <parallel><state s1><transition event="e" target="s2"/></state><state s2/>
   </parallel>: in {s1,s2} the equations drop s1 *)
Definition t_rpar : tree :=
  TNode KParallel 0 None [] [] [] [] [ mk_state 1 [mk_tr 101 (Some ev_e) None (Some [2%N]) false] []; mk_state 2 [] [] ].
Theorem doc_root_needed_refuted : doc_refuted [true; false; true; true; true; true; true; true; true; true].
Proof.
  exists t_rpar, [0; 1; 2], (Some ev_e), ff. cbv zeta. repeat (split; [vm_compute; reflexivity|]). vm_compute. discriminate.
Qed.

(* unique ids: the initial attribute of s1 names its child s3, but an earlier element carries the id s3 too *)
Definition t_dup : tree :=
  TNode KScxml 0 None [] [] [] []
    [ mk_state 5 [mk_tr 101 (Some ev_e) None (Some [1%N]) false] [ mk_state 3 [] [] ];
      st_i 1 (Some [3%N]) [] [ mk_state 2 [] []; mk_state 3 [] [] ] ].
Theorem doc_unique_needed_refuted : doc_refuted [true; true; false; true; true; true; true; true; true; true].
Proof.
  exists t_dup, [0; 1; 2], (Some ev_e), ff. cbv zeta. repeat (split; [vm_compute; reflexivity|]). vm_compute. discriminate.
Qed.

(* initial attribute naming a grandchild: the reference enters s5 and its parent s4, the equations know no default
   child of s2 *)
Definition t_ini : tree :=
  TNode KScxml 0 None [] [] [] []
    [ mk_state 1 [mk_tr 101 (Some ev_e) None (Some [2%N]) false] [];
      st_i 2 (Some [5%N]) [] [ mk_state 3 [] []; mk_state 4 [] [ mk_state 5 [] [] ] ] ].
Theorem doc_initial_needed_refuted : doc_refuted [true; true; true; false; true; true; true; true; true; true].
Proof.
  exists t_ini, [0; 1], (Some ev_e), ff. cbv zeta. repeat (split; [vm_compute; reflexivity|]). vm_compute. discriminate.
Qed.

(* a transition targeting the root: everything is exited; the reference re-enters the root's default child, the
   equations cannot (in_complete_entry_set_0_sig is the reset pulse) *)
Definition t_root : tree :=
  TNode KScxml 0 None [] [] [] []
    [ mk_state 1 [mk_tr 101 (Some ev_e) None (Some [0%N]) false] []; mk_state 2 [] [] ].
Theorem doc_no_root_target_needed_refuted : doc_refuted [true; true; true; true; false; true; true; true; true; true].
Proof.
  exists t_root, [0; 1], (Some ev_e), ff. cbv zeta. repeat (split; [vm_compute; reflexivity|]). vm_compute. discriminate.
Qed.

(* a <final> with a child state that is targeted: the equations enter the child without the <final> *)
Definition t_final : tree :=
  TNode KScxml 0 None [] [] [] []
    [ mk_state 1 [mk_tr 101 (Some ev_e) None (Some [3%N]) false] [];
      TNode KFinal 2 None [] [] [] [] [ mk_state 3 [] [] ] ].
Theorem doc_final_leaf_needed_refuted : doc_refuted [true; true; true; true; true; false; true; true; true; true].
Proof.
  exists t_final, [0; 1], (Some ev_e), ff. cbv zeta. repeat (split; [vm_compute; reflexivity|]). vm_compute. discriminate.
Qed.

(* descriptors: "a..b" is the token list [a; b] in the trie, so it fires on the event "a.b"; nameMatch says no *)
Definition s_ab : bytes := [97; 46; 98]%N.
Definition s_a__b : bytes := [97; 46; 46; 98]%N.
Definition t_desc : tree :=
  TNode KScxml 0 None [] [] [] []
    [ mk_state 1 [mk_tr 101 (Some s_a__b) None (Some [2%N]) false; mk_tr 102 (Some s_ab) None (Some [1%N]) false] [];
      mk_state 2 [] [] ].
Theorem doc_descs_needed_refuted : doc_refuted [true; true; true; true; true; true; true; false; true; true].
Proof.
  exists t_desc, [0; 1], (Some s_ab), ff. cbv zeta. repeat (split; [vm_compute; reflexivity|]). vm_compute. discriminate.
Qed.

(* executable content: <raise event=".a"/> makes ".a" a word of the trie with the token list [a]; the descriptor "a"
   fires on it in the equations, nameMatch says no *)
Definition s_dota : bytes := [46; 97]%N.
Definition t_cont : tree :=
  TNode KScxml 0 None [] [] [] []
    [ TNode KState 1 None [mk_tr 101 (Some [97%N]) None (Some [2%N]) false] [[IRaise 7 s_dota]] [] [] [];
      mk_state 2 [] [] ].
Theorem doc_content_needed_refuted : doc_refuted [true; true; true; true; true; true; true; true; false; true].
Proof.
  exists t_cont, [0; 1], (Some s_dota), ff. cbv zeta. repeat (split; [vm_compute; reflexivity|]). vm_compute. discriminate.
Qed.

(* element kinds: with a <history> the equations and the reference still agree with each other -- on a
   configuration that contains the pseudo-state and is not legal; FastMicroStep enters the history's default s5.
   (What fails without ct_kindsb is the tie of the reference to the SCXML step, not the tie of the equations to
   the reference.) *)
Definition t_hist : tree :=
  TNode KScxml 0 None [] [] [] []
    [ mk_state 1 [mk_tr 101 (Some ev_e) None (Some [3%N]) false] [];
      mk_state 2 [] [ TNode KHistShallow 3 None [mk_tr 102 None None (Some [5%N]) false] [] [] [] [];
                      mk_state 4 [] []; mk_state 5 [] [] ] ].
Theorem doc_kinds_needed_refuted :
  exists t cfg ev, let c := flatten false t in
    vh_tree_clauses t = [false; true; true; true; true; true; true; true; true; true] /\
    legal_configb c cfg = true /\ vh_running c cfg = true /\ vh_event_ok c (Some ev) = true /\
    eval_eqs c (gen_eqs vh_fixed c) cfg (Some ev) ff = Some (next_config c cfg (Some ev) ff) /\
    legal_configb c (next_config c cfg (Some ev) ff) = false /\
    next_config c cfg (Some ev) ff <> l_cfg (fst (fst (fselect_and_step ex_fixed c (cfg_state cfg) x_init (Some (ext_event ev))))) /\
    legal_configb c (l_cfg (fst (fst (fselect_and_step ex_fixed c (cfg_state cfg) x_init (Some (ext_event ev)))))) = true.
Proof.
  exists t_hist, [0; 1], ev_e. cbv zeta. repeat (split; [vm_compute; reflexivity|]).
  split; [vm_compute; discriminate | vm_compute; reflexivity].
Qed.

(* target sets: not needed for the equations = reference (vh_wfb holds), needed for legality of the result:
   <transition event="e" target="s3 s4"/> with s3, s4 children of one compound state *)
Definition t_ts : tree :=
  TNode KScxml 0 None [] [] [] []
    [ mk_state 1 [mk_tr 101 (Some ev_e) None (Some [3%N; 4%N]) false] [];
      mk_state 2 [] [ mk_state 3 [] []; mk_state 4 [] [] ] ].
Theorem vhdl_next_legal_needs_target_sets_refuted :
  exists t cfg ev val, let c := flatten false t in
    vh_treeb t = true /\ ct_target_setsb t = false /\ vh_wfb c = true /\ wf_core0b c = true /\ wfb_target_sets c = false /\
    legal_configb c cfg = true /\ vh_running c cfg = true /\ vh_event_ok c ev = true /\
    eval_eqs c (gen_eqs vh_fixed c) cfg ev val = Some (next_config c cfg ev val) /\
    legal_configb c (next_config c cfg ev val) = false.
Proof.
  exists t_ts, [0; 1], (Some ev_e), ff. cbv zeta. repeat (split; [vm_compute; reflexivity|]). vm_compute. reflexivity.
Qed.

(* the guard of the default-engine theorem: on C03-K1's document (inside the VHDL fragment, all static conditions
   hold) LargeMicroStep selects the target-less transition of s3 AND the transition of its grand-parent s1, the
   reference -- the transpilers' conflict relation: source ancestry conflicts -- and the emitted equations only the
   former.  sel_guardb is false there *)
Theorem reference_step_is_default_engine_unguarded_refuted_lemma :
  exists t l x ev, let c := flatten false t in
    vh_tree_runb t = true /\ ct_par_nonemptyb t = true /\ trans_tableb c = true /\
    legal_configb c (l_cfg l) = true /\ ascb (l_cfg l) = true /\ vh_running c (l_cfg l) = true /\
    vh_event_ok c (option_map ev_name ev) = true /\ sas_guardb c l x ev = false /\
    eval_eqs c (gen_eqs vh_fixed c) (l_cfg l) (option_map ev_name ev) (val_of c (l_cfg l) (x_store x)) =
      Some (next_config c (l_cfg l) (option_map ev_name ev) (val_of c (l_cfg l) (x_store x))) /\
    next_config c (l_cfg l) (option_map ev_name ev) (val_of c (l_cfg l) (x_store x)) <>
    l_cfg (fst (fst (select_and_step lg_fixed ex_fixed c l x ev))).
Proof.
  exists k1_tree, (cfg_state [0; 1; 2; 3]), x_init, (Some (ext_event ev_e)). cbv zeta.
  repeat (split; [vm_compute; reflexivity|]). vm_compute. discriminate.
Qed.

(* ------------------------------------------------------------------ non-vacuity *)

Definition ev_g : bytes := [103%N].

(* <parallel p> with regions a (internal transition on "e f"; a1 -e-> a2, a1 -[In(b2)]-> a2) and b (-g-> final;
   b1 -e-> b2, b1 -f-> final), top-level <final> *)
Definition vd_tree : tree :=
  TNode KScxml 0 None [] [] [] []
    [ TNode KParallel 1 None [] [] [] []
        [ mk_state 2 [mk_tr 105 (Some [101%N; 32%N; 102%N]) None (Some [4%N]) true]
            [ mk_state 3 [mk_tr 101 (Some ev_e) None (Some [4%N]) false;
                          mk_tr 102 None (Some (BIn 7)) (Some [4%N]) false] [];
              mk_state 4 [] [] ];
          mk_state 5 [mk_tr 106 (Some ev_g) None (Some [8%N]) false]
            [ mk_state 6 [mk_tr 103 (Some ev_e) None (Some [7%N]) false;
                          mk_tr 104 (Some ev_f) None (Some [8%N]) false] [];
              mk_state 7 [] [] ] ];
      TNode KFinal 8 None [] [] [] [] [] ].
Definition vd_chart : fchart := flatten false vd_tree.
Definition vd_ins : list vh_input :=
  [(None, ff); (Some ev_e, ff); (None, tt); (Some ev_f, tt); (Some ev_g, tt); (Some ev_e, tt)].

Example vd_tree_hypotheses :
  vh_treeb vd_tree = true /\ vh_tree_runb vd_tree = true /\ ct_par_nonemptyb vd_tree = true /\
  trans_tableb vd_chart = true /\ inputs_okb vd_chart vd_ins = true /\
  init_config vd_chart = [0; 1; 2; 3; 5; 6] /\
  doc_events vd_chart = [ev_e; ev_f; ev_g].
Proof. repeat split; vm_compute; reflexivity. Qed.

(* the register at the successive clock edges: nothing enabled (condition input low); e in both regions; the
   eventless transition is no longer enabled; f: the internal transition of a wins over b1 -f-> final (conflict,
   earlier in post-fix order); g: to the top-level <final>, the design stops *)
Example vd_tree_run :
  map (fun k => vh_run vd_chart (gen_eqs vh_fixed vd_chart) (init_config vd_chart) (firstn k vd_ins)) (seq 0 7) =
  map Some [[0; 1; 2; 3; 5; 6]; [0; 1; 2; 3; 5; 6]; [0; 1; 2; 4; 5; 7]; [0; 1; 2; 4; 5; 7]; [0; 1; 2; 4; 5; 7]; [0; 8]; [0; 8]] /\
  vh_run vd_chart (gen_eqs vh_fixed vd_chart) (init_config vd_chart) [(None, tt)] = Some [0; 1; 2; 4; 5; 6].
Proof. split; vm_compute; reflexivity. Qed.

(* the run theorem applied *)
Example vd_tree_run_by_theorem :
  vh_run vd_chart (gen_eqs vh_fixed vd_chart) (init_config vd_chart) vd_ins =
    Some (ref_run_stop vd_chart (init_config vd_chart) vd_ins) /\
  legal_configb vd_chart (ref_run_stop vd_chart (init_config vd_chart) vd_ins) = true.
Proof. apply document_vhdl_run_correct_lemma; vm_compute; reflexivity. Qed.

(* the default-engine theorem applied: event e in the initial configuration *)
Example vd_tree_default_engine :
  let l := cfg_state (init_config vd_chart) in
  sas_guardb vd_chart l x_init (Some (ext_event ev_e)) = true /\
  eval_eqs vd_chart (gen_eqs vh_fixed vd_chart) (l_cfg l) (Some ev_e) (val_of vd_chart (l_cfg l) []) =
    Some (l_cfg (fst (fst (select_and_step lg_fixed ex_fixed vd_chart l x_init (Some (ext_event ev_e)))))) /\
  l_cfg (fst (fst (select_and_step lg_fixed ex_fixed vd_chart l x_init (Some (ext_event ev_e))))) = [0; 1; 2; 4; 5; 7].
Proof.
  cbv zeta. split; [vm_compute; reflexivity|]. split; [|vm_compute; reflexivity].
  apply (document_step_is_default_engine_partial_lemma ex_fixed vd_tree (cfg_state (init_config vd_chart)) x_init
           (Some (ext_event ev_e))); vm_compute; reflexivity.
Qed.
