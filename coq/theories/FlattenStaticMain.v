(* FlattenStaticMain.v -- the static hypotheses of the engine-equivalence theorems (C03) and of the legality
   theorems with history (C02), discharged from DOCUMENT-level predicates for every chart Chart.flatten builds:
     leaf_ok_flatten / par_nonempty_flatten   leaf_okb, par_nonemptyb from ct_leafb, ct_par_nonemptyb (any tree);
     hist_tree_leaf                           hist_treeb t -> ct_leafb t;
     eq_tree_hist_chart                       eq_tree_histb t -> eq_chartb_hist (flatten late t);
     eq_tree_core_chart                       eq_tree_coreb t -> eq_chartb (flatten late t);
   and the run theorems restated for documents.  Proofs only. *)
From V Require Import Base NameMatch Chart Exec Large LargeLemmas Fast Interp Legal SetLemmas LegalAbstract LegalLarge LegalRun
     Tables TreeLemmas LargeCacheLemmas WfCore LegalHistBase LegalHistWf LegalHistRun LegalHistOracle LegalHistFastRun
     SelectConform SelectConformLemmas
     FlattenWf FlattenWfTree FlattenWfStruct FlattenWfKinds FlattenWfLemmas FlattenWfSideLemmas
     ValidateBridge ValidateBridgeRows ValidateBridgeFlat ValidateBridgePos ValidateBridgePseudo ValidateBridgeResort
     RunConformInitialFlags
     EngineEquivDone EngineEquivStep EngineEquivSelect EngineEquivRun EngineEquivMain EngineEquivHistRun EngineEquivHistMain
     FlattenStaticTree FlattenStaticTrans FlattenStaticHist.
Local Open Scope nat_scope.

Lemma fsm_ssorted_ascb : forall l, ssorted l -> ascb l = true.
Proof.
  induction l as [|x [|y r] IH]; intros H; try reflexivity. cbn [ssorted] in H. destruct H as [H1 H2].
  change (ascb (x :: y :: r)) with ((x <? y) && ascb (y :: r)). apply andb_true_iff. split.
  - apply Nat.ltb_lt. apply H1. now left.
  - now apply IH.
Qed.

Lemma has_proper_child_resort u : has_proper_child (resort u) = has_proper_child u.
Proof.
  unfold has_proper_child. apply eq_true_iff_eq. rewrite !existsb_exists. split.
  - intros (k & Hk & Pk). apply in_resort_kids in Hk as (k0 & Hk0 & ->). rewrite resort_kind in Pk. eauto.
  - intros (k & Hk & Pk). exists (resort k). split; [apply in_resort_kids; eauto | now rewrite resort_kind].
Qed.

(* ------------------------------------------------------------------ leaf_okb, par_nonemptyb of any document *)

Section Any.
Variable late : bool.
Variable t : tree.
Local Notation c := (flatten late t).
Local Notation n := (tsize (resort t)).
Local Notation nodes := (nodes_of (resort t)).

Lemma fsm_node i : i < n -> exists u0, In u0 (subtrees t) /\ ntree nodes i = resort u0.
Proof. intros Hi. apply in_resort_subtrees. now apply ntree_in. Qed.

Theorem leaf_ok_flatten : ct_leafb t = true -> leaf_okb c = true.
Proof.
  intros L. unfold leaf_okb. rewrite (g_nstates late t). apply fseq. intros i Hi.
  destruct (g_st late t i Hi) as (Ety & Ech & _). rewrite Ety, Ech.
  destruct (fsm_node i Hi) as (u0 & Hu0 & Eu). rewrite Eu.
  unfold ct_leafb in L. rewrite forallb_forall in L. specialize (L u0 Hu0).
  assert (Hk : type_of (resort u0) = FFinal \/ type_of (resort u0) = FAtomic -> t_kids (resort u0) = []).
  { intros Hty. pose proof (type_of_kind (resort u0)) as T. rewrite resort_kind in T.
    assert (Hnk : has_kids (resort u0) = false).
    { rewrite has_kids_resort.
      destruct (t_kind u0); rewrite T in Hty; try rewrite has_proper_child_resort in Hty;
        try (destruct (has_proper_child u0)); cbn [orb] in L;
        try (now apply negb_true_iff in L); destruct Hty; discriminate. }
    unfold has_kids in Hnk. destruct (t_kids (resort u0)); [reflexivity | discriminate]. }
  destruct (type_of (resort u0)) eqn:E; try reflexivity; rewrite Hk by auto; reflexivity.
Qed.

Theorem par_nonempty_flatten : ct_par_nonemptyb t = true -> par_nonemptyb c = true.
Proof.
  intros L. unfold par_nonemptyb. rewrite (g_nstates late t). apply fseq. intros i Hi.
  destruct (g_st late t i Hi) as (Ety & Ech & _). rewrite Ety, Ech.
  destruct (fsm_node i Hi) as (u0 & Hu0 & Eu). rewrite Eu.
  unfold ct_par_nonemptyb in L. rewrite forallb_forall in L. specialize (L u0 Hu0).
  destruct (type_of (resort u0)) eqn:E; try reflexivity.
  pose proof (type_of_kind (resort u0)) as T. rewrite resort_kind in T.
  destruct (t_kind u0); rewrite T in E; try discriminate; try (destruct (has_proper_child (resort u0)); discriminate).
  rewrite <- has_kids_resort in L. unfold has_kids in L. destruct (t_kids (resort u0)); [discriminate | reflexivity].
Qed.

End Any.

(* ------------------------------------------------------------------ hist_treeb gives ct_leafb *)

Theorem hist_tree_leaf t : hist_treeb t = true -> ct_leafb t = true.
Proof.
  intros H. pose proof (hs_vtree t H) as V. unfold ct_leafb. apply forallb_forall. intros u Hu.
  assert (Hpseudo : forall h, In h (t_kids u) -> is_pseudo_kind (t_kind h) = true -> has_proper_child u = true).
  { intros h Hh Hp.
    assert (Hx : exists x l, t_trans h = [x] /\ tt_targets x = Some l /\ forall s, In s l -> In s (psids_below u)).
    { destruct (is_hist_kind (t_kind h)) eqn:Eh.
      - destruct (vt_history t V u h Hu Hh Eh) as (x & l & E1 & E2 & _ & _ & _ & Hs). eauto.
      - assert (Hk : t_kind h = KInitial) by (destruct (t_kind h); try discriminate; reflexivity).
        destruct (hs_initial t H u h Hu Hh Hk) as (x & l & E1 & E2 & _ & _ & Hs). eauto. }
    destruct Hx as (x & l & E1 & E2 & Hs).
    assert (Hhs : In h (subtrees t)) by (eapply subtrees_trans; [exact Hu|]; eapply subtrees_kid; [exact Hh | apply subtrees_self]).
    destruct (vt_targets t V h x l Hhs ltac:(rewrite E1; now left) E2) as (Hne & _).
    destruct l as [|s r]; [congruence|]. specialize (Hs s (or_introl eq_refl)). unfold psids_below in Hs.
    apply in_map_iff in Hs as (w & _ & Hw). apply filter_In in Hw as [Hw Pw].
    exact (proper_below_child t V u w Hu Hw Pw). }
  assert (Hstate : has_proper_child u || negb (has_kids u) = true).
  { destruct (has_proper_child u) eqn:Ep; [reflexivity|]. cbn [orb]. apply negb_true_iff. unfold has_kids.
    destruct (t_kids u) as [|h r] eqn:Ek; [reflexivity|]. exfalso.
    destruct (is_pseudo_kind (t_kind h)) eqn:Eh.
    - specialize (Hpseudo h (or_introl eq_refl) Eh). discriminate.
    - unfold has_proper_child in Ep. rewrite Ek in Ep. cbn [existsb] in Ep. unfold is_proper_kind in Ep. rewrite Eh in Ep. discriminate. }
  destruct (t_kind u) eqn:Eku; try reflexivity; try exact Hstate.
  apply negb_true_iff. unfold has_kids. destruct (t_kids u) as [|k r] eqn:Ek; [reflexivity|]. exfalso.
  pose proof (hs_nest t H u k Hu ltac:(rewrite Ek; now left)) as N. rewrite Eku in N. destruct (t_kind k); discriminate.
Qed.

(* ------------------------------------------------------------------ the static hypotheses of C03 *)

Lemma eq_tree_histb_parts t : eq_tree_histb t = true -> hist_treeb t = true /\ ct_par_nonemptyb t = true.
Proof. unfold eq_tree_histb. intros H. now apply andb_true_iff in H. Qed.

Theorem eq_tree_hist_chart late t : eq_tree_histb t = true -> eq_chartb_hist (flatten late t) = true.
Proof.
  intros H. destruct (eq_tree_histb_parts t H) as [HT HP].
  destruct (flatten_wf_hist_lemma late t HT) as [W R]. unfold eq_chartb_hist.
  rewrite W, R, (fsm_ssorted_ascb _ (flatten_compound_completion_sorted late t 0 R)),
          (leaf_ok_flatten late t (hist_tree_leaf t HT)), (par_nonempty_flatten late t HP), (flatten_trans_table late t).
  reflexivity.
Qed.

Lemma eq_tree_coreb_parts t : eq_tree_coreb t = true -> core_treeb t = true /\ ct_par_nonemptyb t = true /\ ct_leafb t = true.
Proof. unfold eq_tree_coreb. intros H. apply andb_true_iff in H as [H H3]. apply andb_true_iff in H as [H1 H2]. auto. Qed.

Theorem eq_tree_core_chart late t : eq_tree_coreb t = true -> eq_chartb (flatten late t) = true.
Proof.
  intros H. destruct (eq_tree_coreb_parts t H) as (HC & HP & HL).
  destruct (flatten_wf_core_lemma late t HC) as [W R]. unfold eq_chartb.
  rewrite W, R, (leaf_ok_flatten late t HL), (par_nonempty_flatten late t HP), (flatten_trans_table late t). reflexivity.
Qed.

(* ------------------------------------------------------------------ C03 for documents *)

(* whole runs of the two engines on a document with <initial>, deep initial attributes and history: same trace and
   datamodel, under the dynamic guard only *)
Theorem document_fast_large_run_equiv_lemma xv late t evs fuel :
  eq_tree_histb t = true -> eq_guard_run_hist xv (flatten late t) fuel l_pristine x_init evs = true ->
  run_fast xv late t evs fuel = run_large lg_fixed xv late t evs fuel.
Proof. intros H G. apply fast_large_trace_equiv_hist_lemma; [now apply eq_tree_hist_chart | exact G]. Qed.

(* ... related engine states and equal execution states *)
Theorem document_fast_large_states_equiv_lemma xv late t evs fuel :
  let c := flatten late t in
  eq_tree_histb t = true -> eq_guard_run_hist xv c fuel l_pristine x_init evs = true ->
  lstate_eqv c (fst (run_loop c lstate (fast_step xv c) l_cfg fuel l_pristine x_init evs))
               (fst (run_loop c lstate (large_step lg_fixed xv c) l_cfg fuel l_pristine x_init evs)) /\
  snd (run_loop c lstate (fast_step xv c) l_cfg fuel l_pristine x_init evs) =
  snd (run_loop c lstate (large_step lg_fixed xv c) l_cfg fuel l_pristine x_init evs).
Proof. intros c H G. apply fast_large_run_equiv_hist_lemma; [now apply eq_tree_hist_chart | exact G]. Qed.

(* ... on the history-free core *)
Theorem document_fast_large_run_equiv_core_lemma xv late t evs fuel :
  eq_tree_coreb t = true -> eq_guard_run xv (flatten late t) fuel l_pristine x_init evs = true ->
  run_fast xv late t evs fuel = run_large lg_fixed xv late t evs fuel.
Proof. intros H G. apply fast_large_trace_equiv_lemma; [now apply eq_tree_core_chart | exact G]. Qed.

(* SELECT_TRANSITIONS of the two engines on any document of hist_treeb: no static hypothesis on the tables left *)
Theorem document_fast_large_select_equiv_lemma late t cfg ev x :
  let c := flatten late t in
  hist_treeb t = true -> ascb cfg = true -> (forall s, In s cfg -> s < nstates c) ->
  sel_guardb c cfg ev (cfg_postfix c cfg) None [] x = true ->
  fselect c cfg ev (seq 0 (ntrans c)) [] x = select_loop lg_fixed c cfg ev (cfg_postfix c cfg) None [] x.
Proof.
  intros c H A B G. destruct (flatten_wf_hist_lemma late t H) as [W _].
  exact (fast_large_select_equiv_hist_lemma c cfg ev x W (flatten_trans_table late t) A B G).
Qed.

(* ------------------------------------------------------------------ C02 for documents *)

Theorem document_run_legal_history_lemma t : hist_treeb t = true ->
  forall late xv fuel evs,
    let c := flatten late t in
    CfgOK c (fst (run_loop c lstate (large_step lg_fixed xv c) l_cfg fuel l_pristine x_init evs)) /\
    CfgOK c (fst (run_loop c lstate (fast_step xv c) l_cfg fuel l_pristine x_init evs)).
Proof.
  intros H late xv fuel evs c. destruct (flatten_wf_hist_lemma late t H) as [W R].
  split; [now apply run_legal_history | now apply fast_run_legal_history].
Qed.

Theorem document_run_legal_history_strong_lemma t : hist_treeb t = true ->
  forall late xv fuel evs,
    let c := flatten late t in
    CfgOKH c (fst (run_loop c lstate (large_step lg_fixed xv c) l_cfg fuel l_pristine x_init evs)) /\
    CfgOKH c (fst (run_loop c lstate (fast_step xv c) l_cfg fuel l_pristine x_init evs)).
Proof.
  intros H late xv fuel evs c. destruct (flatten_wf_hist_lemma late t H) as [W R].
  split; [now apply run_legal_history_strong | now apply fast_run_legal_history_strong].
Qed.

Theorem document_step_legal_history_lemma t : hist_treeb t = true ->
  forall late xv, let c := flatten late t in
    (forall l x, CfgOKH c l -> CfgOKH c (fst (fst (large_step lg_fixed xv c l x)))) /\
    (forall l x, CfgOKH c l -> CfgOKH c (fst (fst (fast_step xv c l x)))).
Proof.
  intros H late xv c. destruct (flatten_wf_hist_lemma late t H) as [W R].
  split; [now apply step_legal_history | now apply fast_step_legal_history].
Qed.
