(* Legal.v -- legal state configurations (SCXML 1.0, 3.11) over the flat chart, as a boolean
   predicate on the set of active state indices (including the <scxml> root, index 0). Model only. *)
From V Require Import Base Chart.
Local Open Scope nat_scope.

Section Legal.
Variable c : fchart.

Definition proper_type (t : ftype) : bool :=
  match t with FHistShallow | FHistDeep | FInitial => false | _ => true end.
Definition proper_children (i : nat) : list nat :=
  filter (fun ch => proper_type (fs_type (st c ch))) (fs_children (st c i)).

Fixpoint nodupb (l : list nat) : bool :=
  match l with [] => true | x :: r => negb (mem x r) && nodupb r end.

Definition state_ok (cfg : list nat) (i : nat) : bool :=
  (i <? nstates c) &&
  proper_type (fs_type (st c i)) &&
  match fs_parent (st c i) with Some p => mem p cfg | None => true end &&
  match fs_type (st c i) with
  | FCompound => length (filter (fun ch => mem ch cfg) (proper_children i)) =? 1
  | FParallel => forallb (fun ch => mem ch cfg) (proper_children i)
  | _ => true
  end.

Definition legal_configb (cfg : list nat) : bool :=
  mem 0 cfg && nodupb cfg && forallb (state_ok cfg) cfg.

(* remembered history names only states that can be simultaneously active below the history's
   parent: for each history state h, the remembered part of its completion, together with the
   ancestors up to the parent, has at most one child per compound *)
Definition history_okb (hist : list nat) : bool :=
  forallb (fun i => (i <? nstates c) && proper_type (fs_type (st c i))) hist &&
  forallb (fun i =>
             match fs_type (st c i) with
             | FCompound => length (filter (fun ch => mem ch hist) (proper_children i)) <=? 1
             | _ => true
             end) (seq 0 (nstates c)).
End Legal.

Definition index_of_sid (c : fchart) (s : N) : option nat :=
  match find (fun p => (fs_sid (fst p) =? s)%N) (combine (fc_states c) (seq 0 (nstates c))) with
  | Some p => Some (snd p) | None => None end.

Definition legal_sids (late : bool) (t : tree) (sids : list N) : bool :=
  let c := flatten late t in
  let idx := map (index_of_sid c) sids in
  forallb (fun o => match o with Some _ => true | None => false end) idx &&
  legal_configb c (filter_map (fun o => o) idx).
