(* CGenEquivHistWitness.v -- C04 beyond the history-free core: the hypotheses of the history theorems (CGenEquivHistMain.v,
   CGenEquivHistDefault.v) are satisfiable by a document with a deep and a shallow <history>, an <initial> element with
   executable content and handlers with <raise> / <send>; the condition cpl_plain cannot be dropped (the witness of
   cstep_outside_core_refuted fails exactly it); the condition deep_alone is a limit of the proof, not a known
   deviation (on the document that fails it the repaired template and the engine agree on the tested runs).
   Finite computations on concrete documents. *)
From V Require Import Base NameMatch Chart Exec Large Fast Interp WfCore CGen CGenLemmas LegalHistWf
                      EngineEquivRun EngineEquivHistRun
                      CGenEquivContent CGenEquivHist CGenEquivHistRun CGenEquivMain CGenEquivHistMain CGenEquivWitness.
Local Open Scope N_scope.

(* s1 --e(101)--> s5 { s6 --f(102)--> s8 (below s7), shallow h21 (default s6) } --e--> deep h20 of s1
   s1 { s2 { s3 --f--> s4 }, deep h20 (default s4, <raise>), <initial> -> s3 with <log> };  s9 --g(103)--> h21 *)
Definition hx_tree : tree :=
  TNode KScxml 0 None [] [] [] []
    [TNode KState 1 None [tr_ 101 (Some [101]) None (Some [5]) false [IRaise 301 [120]]] [] [[ISend 302 [121]]] []
       [TNode KState 2 None [] [] [] []
          [TNode KState 3 None [tr_ 102 (Some [102]) None (Some [4]) false []] [] [] [] []; TNode KState 4 None [] [] [] [] []];
        TNode KHistDeep 20 None [tr_ 103 None None (Some [4]) false [IRaise 303 [122]]] [] [] [] [];
        TNode KInitial 22 None [tr_ 107 None None (Some [3]) false [ILog 307 (INum 1)]] [] [] [] []];
     TNode KState 5 None [tr_ 104 (Some [101]) None (Some [20]) false []] [] [] []
       [TNode KState 6 None [tr_ 105 (Some [102]) None (Some [8]) false []] [] [] [] [];
        TNode KState 7 None [] [] [] [] [TNode KState 8 None [] [] [] [] []];
        TNode KHistShallow 21 None [tr_ 106 None None (Some [6]) false []] [] [] [] []];
     TNode KState 9 None [tr_ 108 (Some [103]) None (Some [21]) false []] [] [] [] []].
Definition hx_events : list bytes := [[102]; [101]; [102]; [101]; [103]; [101]].

Example cstep_history_hypotheses_satisfiable_lemma :
  let c := flatten false hx_tree in
  cv_repaired cg_repaired /\ hist_hyps c /\ wf_coreb c = false /\ doc_h c = true /\ eq_chartb_hist c = true /\
  Forall (fun e => e <> []) hx_events /\
  eq_guard_run_hist ex_fixed c 60 l_pristine x_init hx_events = true /\
  (* 13 calls of uscxml_step() = 35 steps of either engine: idle, no event left; s1 re-entered through its deep history *)
  related_b (c_run cg_repaired hx_tree 13 hx_events) (f_run hx_tree 35 hx_events) = true /\
  related_b (c_run cg_repaired hx_tree 13 hx_events) (l_run hx_tree 35 hx_events) = true /\
  related_b (c_run cg_repaired hx_tree 12 hx_events) (f_run hx_tree 30 hx_events) = true /\
  sids c (l_hist (fst (c_run cg_repaired hx_tree 13 hx_events))) = [2; 4; 7].
Proof.
  cbv zeta. split; [exact cg_repaired_is|]. split; [repeat split; vm_compute; reflexivity|].
  do 3 (split; [vm_compute; reflexivity|]). split; [repeat constructor; discriminate|].
  repeat (split; [vm_compute; reflexivity|]). vm_compute; reflexivity.
Qed.

(* the document on which the repaired template enters s7 instead of s3 passes every condition but cpl_plain *)
Lemma cstep_needs_plain_completion_refuted_lemma :
  let c := flatten false w_deep_initial in
  wf_histb c = true /\ fs_type (st c 0%nat) = FCompound /\ chart_c c = true /\
  deep_alone c = true /\ trans_lists c = true /\ sortedb (fs_completion (st c 0%nat)) = true /\ cpl_plain c = false /\
  never_related cg_repaired w_deep_initial 1 [].
Proof.
  cbv zeta. repeat (split; [vm_compute; reflexivity|]).
  exact (proj2 (proj2 (proj2 (proj2 (proj2 (proj2 cstep_outside_core_refuted_lemma)))))).
Qed.

(* deep_alone fails on the nested-history document of CGenLemmas.v; the repaired template agrees with the engine there *)
Example cstep_deep_alone_is_not_known_to_be_needed :
  deep_alone (flatten false w_nested_hist) = false /\
  cgen_cfgs cg_repaired w_nested_hist [ev_a; ev_out; ev_deep] = fast_cfgs w_nested_hist [ev_a; ev_out; ev_deep] /\
  cgen_cfgs cg_repaired w_nested_hist [ev_a; ev_out; ev_sh] = fast_cfgs w_nested_hist [ev_a; ev_out; ev_sh].
Proof. repeat split; vm_compute; reflexivity. Qed.
