(* RunConformInitialSelCong.v -- C01 selection on charts with <initial> pseudo-states, layer 2: congruence.
   Every function that takes part in transition selection -- the engine's (Large.select_loop, pick_trans, conflicts,
   exit_interval, domain, exit_states_of, cfg_postfix, inst_of), Appendix D's (Spec.select_transitions, first_in_chain,
   first_enabled, cond_match, ancs, remove_conflicting, compute_exit_set, transition_domain, eff_targets, find_lcca,
   is_descendant) and the guards' (SelectConform.enabledb) -- gives the same result on the erased chart
   (RunConformInitialSelErase.erase) as on the chart itself; for Spec.select_transitions provided the
   configuration has no <initial> state (is_atomic_state differs on those only).  Proofs only. *)
From Coq Require Import Morphisms Setoid.
From V Require Import Base NameMatch Chart Exec Large LargeLemmas Spec Legal SetLemmas LegalAbstract LegalLarge
  SelectConform RunConformInitialSelErase.
Local Open Scope nat_scope.

(* rewriting under the binders of the list combinators *)
#[local] Instance rcis_forallb_Proper A : Proper (pointwise_relation A eq ==> eq ==> eq) (@forallb A).
Proof. intros f g E l l' <-. induction l as [|a r IH]; cbn; [reflexivity|]. now rewrite E, IH. Qed.
#[local] Instance rcis_existsb_Proper A : Proper (pointwise_relation A eq ==> eq ==> eq) (@existsb A).
Proof. intros f g E l l' <-. induction l as [|a r IH]; cbn; [reflexivity|]. now rewrite E, IH. Qed.
#[local] Instance rcis_filter_Proper A : Proper (pointwise_relation A eq ==> eq ==> eq) (@filter A).
Proof. intros f g E l l' <-. induction l as [|a r IH]; cbn; [reflexivity|]. now rewrite E, IH. Qed.
#[local] Instance rcis_find_Proper A : Proper (pointwise_relation A eq ==> eq ==> eq) (@find A).
Proof. intros f g E l l' <-. induction l as [|a r IH]; cbn; [reflexivity|]. now rewrite E, IH. Qed.
#[local] Instance rcis_fold_left_Proper A B :
  Proper (pointwise_relation A (pointwise_relation B eq) ==> eq ==> eq ==> eq) (@fold_left A B).
Proof. intros f g E l l' <-. induction l as [|b r IH]; intros a a' <-; cbn; [reflexivity|]. rewrite E. now apply IH. Qed.

Lemma rcis_fold_left_ext {A B} (f g : A -> B -> A) l : (forall a b, f a b = g a b) -> forall a, fold_left f l a = fold_left g l a.
Proof. intros H. induction l as [|b r IH]; intros a; cbn [fold_left]; [reflexivity|]. rewrite H. apply IH. Qed.

Section Cong.
Variable c : fchart.
Notation c' := (erase c).

(* ------------------------------------------------------------------ the engine *)

Lemma inst_of_erase cfg sid : inst_of c' cfg sid = inst_of c cfg sid.
Proof. unfold inst_of. now setoid_rewrite sid_erase. Qed.

Lemma beval_inst_ext inst1 inst2 s e : (forall sid, inst1 sid = inst2 sid) -> beval inst1 s e = beval inst2 s e.
Proof.
  intros H. induction e as [| |sid|a b|a IHa|a IHa b IHb|a IHa b IHb|]; cbn [beval]; try reflexivity.
  - now rewrite H.
  - now rewrite IHa.
  - now rewrite IHa, IHb.
  - now rewrite IHa, IHb.
Qed.

Lemma is_true_erase cfg cnd x : is_true (inst_of c' cfg) cnd x = is_true (inst_of c cfg) cnd x.
Proof. unfold is_true. now rewrite (beval_inst_ext _ (inst_of c cfg) _ _ (inst_of_erase cfg)). Qed.

Lemma domain_erase t : domain c' t = domain c t.
Proof.
  unfold domain. destruct (ft_targets t) as [|g tg]; [reflexivity|].
  rewrite type_erase, er_type_comp, anc_erase.
  repeat setoid_rewrite anc_erase. repeat setoid_rewrite type_erase. repeat setoid_rewrite er_type_comp. reflexivity.
Qed.

Lemma is_last_child_erase d : is_last_child c' d = is_last_child c d.
Proof. unfold is_last_child. rewrite par_erase. destruct (fs_parent (st c d)); [|reflexivity]. now rewrite ch_erase. Qed.

Lemma exit_interval_erase v t : exit_interval v c' t = exit_interval v c t.
Proof.
  unfold exit_interval. rewrite domain_erase. destruct (domain c t) as [d|]; [|reflexivity].
  rewrite size_erase, is_last_child_erase. unfold n_states. now rewrite nstates_erase.
Qed.

Lemma conflicts_erase v t1 t2 : conflicts v c' t1 t2 = conflicts v c t1 t2.
Proof. unfold conflicts. now rewrite !exit_interval_erase. Qed.

Lemma exit_states_of_erase v cfg t : exit_states_of v c' cfg t = exit_states_of v c cfg t.
Proof. unfold exit_states_of. now rewrite exit_interval_erase. Qed.

Lemma cfg_postfix_erase cfg : cfg_postfix c' cfg = cfg_postfix c cfg.
Proof.
  unfold cfg_postfix. setoid_rewrite trans_erase. apply rcis_fold_left_ext. intros a s.
  induction a as [|y r IH]; cbn [insert_by]; [reflexivity|].
  unfold first_trans at 1 2 4 5. rewrite !trans_erase. now rewrite IH.
Qed.

Lemma pick_trans_erase v cfg ev sel ts : forall x, pick_trans v c' cfg ev sel ts x = pick_trans v c cfg ev sel ts x.
Proof.
  induction ts as [|ti r IH]; intros x; cbn [pick_trans]; [reflexivity|]. rewrite !tr_erase.
  setoid_rewrite conflicts_erase. rewrite !IH.
  destruct (ft_cond (tr c ti)) as [cnd|]; [|reflexivity].
  rewrite is_true_erase. destruct (is_true (inst_of c cfg) cnd x) as [b x']. now rewrite IH.
Qed.

Lemma select_loop_erase v cfg ev order : forall skip sel x,
  select_loop v c' cfg ev order skip sel x = select_loop v c cfg ev order skip sel x.
Proof.
  induction order as [|s r IH]; intros skip sel x; cbn [select_loop]; [reflexivity|].
  rewrite trans_erase, pick_trans_erase.
  assert (Hrest : (let '(o, x') := pick_trans v c cfg ev sel (fs_trans (st c s)) x in
                   match o with
                   | Some ti => select_loop v c' cfg ev r (Some s) (insert_sorted ti sel) x'
                   | None => select_loop v c' cfg ev r None sel x'
                   end) =
                  (let '(o, x') := pick_trans v c cfg ev sel (fs_trans (st c s)) x in
                   match o with
                   | Some ti => select_loop v c cfg ev r (Some s) (insert_sorted ti sel) x'
                   | None => select_loop v c cfg ev r None sel x'
                   end)).
  { destruct (pick_trans v c cfg ev sel (fs_trans (st c s)) x) as [[ti|] x']; apply IH. }
  destruct skip as [cur|]; [|exact Hrest].
  rewrite par_erase. destruct (fs_parent (st c cur)) as [p|]; [|exact Hrest].
  destruct (p =? s); [apply IH | exact Hrest].
Qed.

(* ------------------------------------------------------------------ Appendix D *)

Lemma proper_ancestors_erase fuel : forall i upto, proper_ancestors c' fuel i upto = proper_ancestors c fuel i upto.
Proof.
  induction fuel as [|f IH]; intros i upto; cbn [proper_ancestors]; [reflexivity|]. rewrite par_erase.
  destruct (fs_parent (st c i)) as [p|]; [|reflexivity]. now rewrite !IH.
Qed.

Lemma ancs_erase i upto : ancs c' i upto = ancs c i upto.
Proof. unfold ancs, Spec.n. rewrite nstates_erase. apply proper_ancestors_erase. Qed.

Lemma is_descendant_erase s a : is_descendant c' s a = is_descendant c s a.
Proof. unfold is_descendant. now rewrite ancs_erase. Qed.

Lemma sty_erase i : sty c' i = er_type (sty c i).
Proof. unfold sty. apply type_erase. Qed.

Lemma is_history_state_erase s : is_history_state c' s = is_history_state c s.
Proof. unfold is_history_state. rewrite sty_erase. now destruct (sty c s). Qed.

Lemma is_compound_state_erase s : is_compound_state c' s = is_compound_state c s.
Proof. unfold is_compound_state. rewrite sty_erase. now destruct (sty c s). Qed.

Lemma is_parallel_state_erase s : is_parallel_state c' s = is_parallel_state c s.
Proof. unfold is_parallel_state. rewrite sty_erase. now destruct (sty c s). Qed.

(* the only test that sees the erasure: an <initial> element has become an atomic state *)
Lemma is_atomic_state_erase s : fs_type (st c s) <> FInitial -> is_atomic_state c' s = is_atomic_state c s.
Proof. unfold is_atomic_state. rewrite sty_erase. unfold sty. destruct (fs_type (st c s)); cbn; congruence. Qed.

Lemma pseudo_trans_erase i : pseudo_trans c' i = pseudo_trans c i.
Proof. unfold pseudo_trans. now rewrite trans_erase. Qed.

Lemma eff_targets_erase fuel : forall h tg, eff_targets c' fuel h tg = eff_targets c fuel h tg.
Proof.
  induction fuel as [|f IH]; intros h tg; cbn [eff_targets]; [reflexivity|].
  apply rcis_fold_left_ext. intros acc s. rewrite is_history_state_erase, pseudo_trans_erase.
  destruct (is_history_state c s); [|reflexivity]. destruct (hv_get h s); [reflexivity|].
  destruct (pseudo_trans c s); [|reflexivity]. now rewrite IH.
Qed.

Lemma find_lcca_erase l : find_lcca c' l = find_lcca c l.
Proof.
  unfold find_lcca. destruct l as [|hd tl]; [reflexivity|]. rewrite ancs_erase.
  repeat setoid_rewrite is_compound_state_erase. repeat setoid_rewrite is_descendant_erase. reflexivity.
Qed.

Lemma transition_domain_erase h t : transition_domain c' h t = transition_domain c h t.
Proof.
  unfold transition_domain, Spec.n. rewrite nstates_erase, eff_targets_erase.
  destruct (eff_targets c (nstates c) h (ft_targets t)) as [|g r]; [reflexivity|].
  rewrite is_compound_state_erase, find_lcca_erase. repeat setoid_rewrite is_descendant_erase. reflexivity.
Qed.

Lemma compute_exit_set_erase cfg h ts : compute_exit_set c' cfg h ts = compute_exit_set c cfg h ts.
Proof.
  unfold compute_exit_set. apply rcis_fold_left_ext. intros acc t.
  destruct (ft_targets t); [reflexivity|]. rewrite transition_domain_erase.
  destruct (transition_domain c h t) as [d|]; [|reflexivity].
  apply rcis_fold_left_ext. intros a s. now rewrite is_descendant_erase.
Qed.

Lemma remove_conflicting_erase cfg h en : remove_conflicting c' cfg h en = remove_conflicting c cfg h en.
Proof.
  unfold remove_conflicting. apply rcis_fold_left_ext. intros filtered t1.
  match goal with
  | |- (let '(_, _) := fold_left ?F1 _ _ in _) = (let '(_, _) := fold_left ?F2 _ _ in _) =>
    rewrite (rcis_fold_left_ext F1 F2)
  end; [reflexivity|].
  intros [pre rem] t2. rewrite !tr_erase, !compute_exit_set_erase, is_descendant_erase. reflexivity.
Qed.

Lemma cond_match_erase cfg ti cc x : cond_match c' cfg ti cc x = cond_match c cfg ti cc x.
Proof.
  unfold cond_match. rewrite tr_erase. destruct (ft_cond (tr c ti)) as [cnd|]; [|reflexivity].
  destruct (find (fun p => fst p =? ti) cc); [reflexivity|]. now rewrite is_true_erase.
Qed.

Lemma first_enabled_erase cfg ev ts : forall cc x, first_enabled c' cfg ev ts cc x = first_enabled c cfg ev ts cc x.
Proof.
  induction ts as [|ti r IH]; intros cc x; cbn [first_enabled]; [reflexivity|]. rewrite !tr_erase.
  destruct (_ && negb (ft_history (tr c ti) || ft_initial (tr c ti))); [|apply IH].
  rewrite cond_match_erase. destruct (cond_match c cfg ti cc x) as [[b cc1] x1]. destruct b; [reflexivity | apply IH].
Qed.

Lemma first_in_chain_erase cfg ev chain : forall cc x,
  first_in_chain c' cfg ev chain cc x = first_in_chain c cfg ev chain cc x.
Proof.
  induction chain as [|s r IH]; intros cc x; cbn [first_in_chain]; [reflexivity|].
  rewrite trans_erase, first_enabled_erase.
  destruct (first_enabled c cfg ev (fs_trans (st c s)) cc x) as [[o cc1] x1]. destruct o; [reflexivity | apply IH].
Qed.

(* Appendix D's selection: the same on every configuration without <initial> states *)
Theorem select_transitions_erase cfg h ev x : (forall s, In s cfg -> fs_type (st c s) <> FInitial) ->
  select_transitions c' cfg h ev x = select_transitions c cfg h ev x.
Proof.
  intros Hcfg. unfold select_transitions. cbn zeta.
  rewrite (filter_ext_in (is_atomic_state c') (is_atomic_state c) cfg)
    by (intros s Hs; apply is_atomic_state_erase; now apply Hcfg).
  match goal with
  | |- (let '(_, _) := fold_left ?F1 _ _ in _) = (let '(_, _) := fold_left ?F2 _ _ in _) =>
    rewrite (rcis_fold_left_ext F1 F2)
  end.
  - destruct (fold_left _ _ _) as [[en cc] x']. now rewrite remove_conflicting_erase.
  - intros [[en cc] x0] s. now rewrite ancs_erase, first_in_chain_erase.
Qed.

(* ------------------------------------------------------------------ the guards *)

Lemma enabledb_erase cfg ev x ti : enabledb c' cfg ev x ti = enabledb c cfg ev x ti.
Proof.
  unfold enabledb, cond_val. rewrite tr_erase. destruct (ft_cond (tr c ti)); [|reflexivity]. now rewrite is_true_erase.
Qed.

End Cong.

Print Assumptions select_loop_erase.
Print Assumptions select_transitions_erase.
