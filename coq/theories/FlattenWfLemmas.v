(* FlattenWfLemmas.v -- LargeMicroStep::init (Chart.flatten) maps every well-formed core document
   (FlattenWf.core_treeb) to flat tables that pass WfCore.wf_coreb, with a compound root.  Proofs only. *)
From V Require Import Base Chart Tables TreeLemmas LargeCacheLemmas WfCore FlattenWf FlattenWfTree FlattenWfStruct FlattenWfKinds.
Local Open Scope nat_scope.

Lemma core_treeb_parts t : core_treeb t = true ->
  ct_kindsb t = true /\ ct_rootb t = true /\ ct_uniqueb t = true /\ ct_initialb t = true /\
  ct_no_root_targetb t = true /\ ct_target_setsb t = true.
Proof. unfold core_treeb. intros H. repeat (apply andb_true_iff in H as [H ?]). repeat split; assumption. Qed.

(* filter over the child numbers against filter over the child trees *)
Lemma filter_child_indices_le (P : nat -> bool) (Q : tree -> bool) : forall kids s,
  (forall j kid, nth_error kids j = Some kid -> P (s + tsize_list (firstn j kids)) = true -> Q kid = true) ->
  length (filter P (child_indices kids s)) <= length (filter Q kids).
Proof.
  induction kids as [|x r IH]; intros s H; [cbn; lia|]. cbn [child_indices filter].
  assert (Hr : length (filter P (child_indices r (s + tsize x))) <= length (filter Q r)).
  { apply IH. intros j kid Hj Hp. apply (H (S j) kid Hj). cbn [firstn]. rewrite tsize_list_cons.
    now rewrite Nat.add_assoc. }
  destruct (P s) eqn:Ps.
  - rewrite (H 0 x eq_refl) by (cbn [firstn tsize_list fold_right]; now rewrite Nat.add_0_r). cbn [length]. lia.
  - destruct (Q x); cbn [length]; lia.
Qed.

Lemma set_of_list_repeat k : forall l, l <> [] -> (forall x, In x l -> x = k) -> set_of_list l = [k].
Proof.
  intros l Hne Hall. unfold set_of_list.
  destruct l as [|x r]; [congruence|]. cbn [fold_left]. rewrite (Hall x (or_introl eq_refl)). cbn [insert_sorted].
  assert (Hr : forall y, In y r -> y = k) by (intros y Hy; apply Hall; now right). clear Hall Hne.
  induction r as [|y r IH]; [reflexivity|]. cbn [fold_left]. rewrite (Hr y (or_introl eq_refl)).
  cbn [insert_sorted]. rewrite Nat.ltb_irrefl, Nat.eqb_refl. apply IH. intros z Hz. apply Hr. now right.
Qed.

Section Core.
Variable late : bool.
Variable t : tree.
Hypothesis H : core_treeb t = true.
Local Notation c := (flatten late t).
Local Notation n := (tsize t).
Local Notation nodes := (nodes_of t).

Lemma core_kinds_ok : ct_kindsb t = true. Proof. now destruct (core_treeb_parts t H). Qed.
Let KK := core_kinds_ok.

Lemma root_compound : fs_type (st c 0) = FCompound.
Proof.
  pose proof (tsize_pos t) as Hp. destruct ((c_st late t KK) 0 Hp) as (E & _). rewrite E. rewrite ntree_root.
  apply ((type_of_core t KK) t (subtrees_self t)). now destruct (core_treeb_parts t H) as (_ & R & _).
Qed.

Lemma fl_root_type : wfb_root_type c = true.
Proof. unfold wfb_root_type. now rewrite root_compound. Qed.

(* ---------------------------------------------------------------- ids *)

Lemma sids_NoDup : NoDup (sids t).
Proof. apply nodupNb_NoDup. now destruct (core_treeb_parts t H) as (_ & _ & U & _). Qed.

Lemma resolve_node i : i < n -> nat_of_sid (fl_ids t) (t_sid (ntree nodes i)) = Some i.
Proof.
  intros Hi. unfold nat_of_sid. rewrite (ids_eq t KK), <- (sids_length t).
  pose proof (find_combine_seq (t_sid (ntree nodes i)) (sids t) 0) as F.
  destruct (find _ _) as [p|].
  - destruct F as (_ & F2 & F3 & _). rewrite Nat.sub_0_r in F3. f_equal.
    rewrite <- ((sid_nth t) i Hi) in F3.
    apply (proj1 (NoDup_nth (sids t) 0%N) sids_NoDup); [lia | rewrite (sids_length t); exact Hi | exact F3].
  - exfalso. apply F. rewrite <- ((sid_nth t) i Hi). apply nth_In. rewrite (sids_length t). exact Hi.
Qed.

(* ---------------------------------------------------------------- completion *)
Lemma fl_completion_ok : wfb_completion c = true.
Proof.
  unfold wfb_completion. rewrite (c_nstates late t KK). apply fseq. intros i Hi.
  destruct ((c_st late t KK) i Hi) as (Et & Ec & _ & Ecomp). set (u := ntree nodes i) in *.
  assert (Hu : In u (subtrees t)) by (now apply ntree_in).
  destruct ((type_of_core t KK) u Hu) as (_ & TC & TP).
  destruct (fs_type (st c i)) eqn:Ety; try reflexivity.
  - (* compound *)
    symmetry in Et. apply TC in Et. rewrite Ecomp, Ec. unfold completion_of.
    assert (Hkind : match t_kind u with KScxml | KState => True | _ => False end).
    { unfold compound_node in Et. destruct (t_kind u); try discriminate; exact I. }
    assert (Hkids : t_kids u <> []).
    { unfold compound_node, has_kids in Et. destruct (t_kind u); try discriminate; destruct (t_kids u); discriminate. }
    assert (Hini : initial_okb u = true).
    { destruct (core_treeb_parts t H) as (_ & _ & _ & I & _). unfold ct_initialb in I. rewrite forallb_forall in I.
      specialize (I u Hu). now rewrite Et in I. }
    assert (Hbody :
      match match t_initattr u with
            | Some l => set_of_list (filter_map (nat_of_sid (fl_ids t)) l)
            | None =>
              match find (fun p : tree * nat => match t_kind (fst p) with KInitial => true | _ => false end)
                         (combine (t_kids u) (child_indices (t_kids u) (S i))) with
              | Some p => [snd p]
              | None => match find (fun p : tree * nat => is_proper_kind (t_kind (fst p)))
                                   (combine (t_kids u) (child_indices (t_kids u) (S i))) with
                        | Some p => [snd p] | None => [] end
              end
            end with
      | [k] => mem k (child_indices (t_kids u) (S i))
      | _ => false end = true).
    { unfold initial_okb in Hini. destruct (t_initattr u) as [l|].
      - destruct l as [|s r]; [discriminate|]. apply andb_true_iff in Hini as [Hall Hmem].
        apply memN_In in Hmem. apply in_map_iff in Hmem. destruct Hmem as (kid & Hs & Hkid).
        destruct (In_nth_error _ _ Hkid) as [j Hj].
        destruct (ntree_kid t i j kid Hi Hj) as [Hb Hnb]. fold nodes u in Hb, Hnb.
        set (b := S i + tsize_list (firstn j (t_kids u))) in *.
        assert (Hres_s : nat_of_sid (fl_ids t) s = Some b).
        { rewrite <- Hs, <- Hnb. apply resolve_node. exact Hb. }
        rewrite (set_of_list_repeat b).
        + apply TreeLemmas.mem_In. apply child_indices_spec. exists j, kid. split; [exact Hj | reflexivity].
        + cbn [filter_map]. rewrite Hres_s. discriminate.
        + intros x Hx. cbn [filter_map] in Hx. rewrite Hres_s in Hx. destruct Hx as [<-|Hx]; [reflexivity|].
          rewrite forallb_forall in Hall. clear - Hall Hres_s Hx. induction r as [|y r IH]; [destruct Hx|].
          cbn [filter_map] in Hx. assert (y = s) by (symmetry; apply N.eqb_eq, Hall; now left). subst y.
          rewrite Hres_s in Hx. destruct Hx as [<-|Hx]; [reflexivity|]. apply IH; [|exact Hx].
          intros z Hz. apply Hall. now right.
      - rewrite find_none.
        2:{ intros [x k] Hx. apply in_combine_l in Hx. cbn [fst]. pose proof ((kid_kind t KK) u x Hu Hx) as K.
            destruct (t_kind x); try discriminate; reflexivity. }
        destruct (t_kids u) as [|x r] eqn:Ek; [congruence|]. cbn [child_indices combine find fst snd].
        assert (Hx : is_proper_kind (t_kind x) = true).
        { pose proof ((kid_kind t KK) u x Hu ltac:(rewrite Ek; now left)) as K. unfold is_proper_kind.
          destruct (t_kind x); try discriminate; reflexivity. }
        rewrite Hx. cbn [mem]. now rewrite Nat.eqb_refl. }
    destruct (t_kind u); try contradiction; exact Hbody.
  - (* parallel *)
    symmetry in Et. apply TP in Et. rewrite Ecomp, Ec. unfold completion_of. rewrite Et.
    apply list_eqb_eq. now apply (filter_map_proper_all t KK).
Qed.

Lemma fl_targets : wfb_targets c = true.
Proof.
  unfold wfb_targets. apply fseq. intros ti Hti. apply forallb_forall. intros g Hg.
  destruct ((c_tr late t KK) ti Hti) as (w & x & k & Hw & Hx & Et & _). rewrite Et in Hg.
  destruct (tt_targets x) as [l|] eqn:El; [|destruct Hg].
  apply In_filter_map in Hg. destruct Hg as (s & Hs & Hr). destruct ((resolve_some t KK) s g Hr) as [Hgn Hsid].
  rewrite (c_nstates late t KK). apply andb_true_iff. split; apply Nat.ltb_lt; [|exact Hgn].
  destruct g as [|g]; [|lia]. exfalso. rewrite ntree_root in Hsid.
  destruct (core_treeb_parts t H) as (_ & _ & _ & _ & R & _). unfold ct_no_root_targetb in R.
  rewrite forallb_forall in R. specialize (R w Hw). rewrite forallb_forall in R. specialize (R x Hx).
  rewrite El in R. apply negb_true_iff in R. rewrite Hsid in R.
  assert (memN s l = true) by (now apply memN_In). congruence.
Qed.

Lemma fl_target_sets : wfb_target_sets c = true.
Proof.
  destruct (tree_interval_flatten late t) as (_ & _ & Hanc & _). rewrite (core_resort_id t KK) in Hanc. fold c n in Hanc.
  unfold wfb_target_sets. apply fseq. intros ti Hti. rewrite (c_nstates late t KK). apply fseq. intros i Hi.
  destruct ((c_st late t KK) i Hi) as (Et & Ec & _). set (u := ntree nodes i) in *.
  assert (Hu : In u (subtrees t)) by (now apply ntree_in).
  destruct (fs_type (st c i)) eqn:Ety; try reflexivity.
  symmetry in Et. apply ((type_of_core t KK) u Hu) in Et.
  destruct ((c_tr late t KK) ti Hti) as (w & x & k & Hw & Hx & Etg & _). rewrite Etg, Ec.
  destruct (tt_targets x) as [l|] eqn:El.
  2:{ cbn [existsb]. rewrite filter_none by reflexivity. reflexivity. }
  destruct (core_treeb_parts t H) as (_ & _ & _ & _ & _ & TS). unfold ct_target_setsb in TS.
  rewrite forallb_forall in TS. specialize (TS w Hw). rewrite forallb_forall in TS. specialize (TS x Hx).
  rewrite El in TS. unfold target_set_okb in TS. rewrite forallb_forall in TS. specialize (TS u Hu).
  rewrite Et in TS. apply Nat.leb_le in TS. apply Nat.leb_le. etransitivity; [|exact TS].
  unfold kids_hit. apply filter_child_indices_le. intros j kid Hj Hp.
  destruct (ntree_kid t i j kid Hi Hj) as [Hb Hnb]. fold nodes u in Hb, Hnb.
  set (b := S i + tsize_list (firstn j (t_kids u))) in *.
  apply existsb_exists in Hp. destruct Hp as (g & Hg & Hon).
  apply In_filter_map in Hg. destruct Hg as (s & Hs & Hr). destruct ((resolve_some t KK) s g Hr) as [Hgn Hsid].
  apply existsb_exists. exists s. split; [exact Hs|]. apply memN_In. unfold sids. rewrite <- Hsid.
  apply in_map.
  assert (Hrange : b <= g /\ g < b + tsize kid).
  { unfold on_path in Hon. apply orb_true_iff in Hon. destruct Hon as [Hon|Hon].
    - apply Nat.eqb_eq in Hon. pose proof (tsize_pos kid). lia.
    - apply (Hanc b g Hb Hgn) in Hon. destruct ((c_st late t KK) b Hb) as (_ & _ & Es & _). rewrite Es in Hon.
      fold nodes in Hon. rewrite Hnb in Hon. lia. }
  destruct (ntree_block_in t b g Hb) as [_ Hin]; [lia | fold nodes; rewrite Hnb; lia|].
  fold nodes in Hin. now rewrite Hnb in Hin.
Qed.

Theorem flatten_wf_core_sec : wf_coreb c = true /\ fs_type (st c 0) = FCompound.
Proof.
  split; [|exact root_compound]. unfold wf_coreb.
  pose proof (fl_nonempty late t) as A1. pose proof (fl_root late t) as A2. pose proof (fl_parent late t) as A3.
  pose proof (fl_children late t) as A4. pose proof (fl_anc late t) as A5. pose proof (fl_interval late t) as A6.
  pose proof (fl_src late t) as A7. fold c in A1, A2, A3, A4, A5, A6, A7.
  rewrite A1, A2, A3, A4, A5, A6, A7.
  rewrite (fl_types late t KK), fl_root_type, fl_completion_ok, fl_targets, fl_target_sets. reflexivity.
Qed.

End Core.

(* the flat tables of a well-formed core document pass the check of the chart-core theorems, and the
   root is a compound state *)
Theorem flatten_wf_core_lemma : forall late t, core_treeb t = true ->
  wf_coreb (flatten late t) = true /\ fs_type (st (flatten late t) 0) = FCompound.
Proof. intros late t H. now apply flatten_wf_core_sec. Qed.
