(* LegalHistRun.v -- from the set-level theorems of LegalHistStep.v to the functions of Large.v on charts with
   pseudo-states (record WFH): REMEMBER_HISTORY keeps the recorded part of every history a fragment below
   the history's parent (HistOK), and every state of every run of the modelled large engine has a legal
   configuration (C02). *)
From V Require Import Base NameMatch Chart Exec Large LargeLemmas Interp Legal SetLemmas LegalAbstract LegalLarge LegalRun
     LegalHistBase LegalHistEntry LegalHistStep.
Local Open Scope nat_scope.

Section HRun.
Variable c : fchart.
Variable xv : ex_variant.
Hypothesis W : WFH c.
Hypothesis root_compound : fs_type (st c 0) = FCompound.

Let n := nstates c.
Let par (i : nat) := fs_parent (st c i).
Let ch (i : nat) := fs_children (st c i).
Let kd (i : nat) := fs_type (st c i).
Let cpl (i : nat) := fs_completion (st c i).
Notation Anc := (Anc par).
Notation pseudo := (pseudoS c).

(* ------------------------------------------------------------------ REMEMBER_HISTORY *)

Section Remember.
Variable cfg exitset : list nat.

Definition rec_inner (l : list nat) (acc : list nat) : list nat :=
  fold_left (fun h' cm => if mem cm cfg then insert_sorted cm h' else set_remove cm h') l acc.

Definition condb (h : nat) : bool :=
  is_hist (fs_type (st c h)) && match fs_parent (st c h) with Some p => mem p exitset | None => false end.

Definition rec_one (acc : list nat) (h : nat) : list nat := if condb h then rec_inner (cpl h) acc else acc.

Lemma remember_unfold hist : remember_history c cfg exitset hist = fold_left rec_one (seq 0 n) hist.
Proof. reflexivity. Qed.

Lemma rec_inner_spec l : forall acc x,
  In x (rec_inner l acc) <-> (In x l /\ In x cfg) \/ (~ In x l /\ In x acc).
Proof.
  unfold rec_inner. induction l as [|y r IH]; intros acc x; cbn [fold_left].
  - cbn. tauto.
  - rewrite IH. destruct (in_dec Nat.eq_dec x r) as [Hr|Hr]; [cbn [In]; tauto|].
    destruct (mem y cfg) eqn:Hy.
    + apply mem_In in Hy. rewrite In_insert_sorted'. cbn [In]. split.
      * intros [[H _]|[_ [->|H]]]; [contradiction | tauto|].
        destruct (Nat.eq_dec y x) as [->|Hne]; [tauto | right; tauto].
      * intros [[[->|H] Hc]|[Hn Ha]]; [right; tauto | contradiction | right; tauto].
    + apply mem_false_In in Hy. rewrite In_set_remove. cbn [In]. split.
      * intros [[H _]|[_ [Ha Hne]]]; [contradiction|]. right. split; [intros [E|E]; [congruence | contradiction] | exact Ha].
      * intros [[[->|H] Hc]|[Hn Ha]]; [contradiction | contradiction|]. right. split; [exact Hr|]. split; [exact Ha|]. intros ->. tauto.
Qed.

Lemma rec_one_spec acc h x :
  In x (rec_one acc h) <-> (if condb h then (In x (cpl h) /\ In x cfg) \/ (~ In x (cpl h) /\ In x acc) else In x acc).
Proof. unfold rec_one. destruct (condb h); [apply rec_inner_spec | tauto]. Qed.

(* any implementation of the per-history update with this specification (the fast engine has another one) *)
Variable one : list nat -> nat -> list nat.
Hypothesis one_spec : forall acc h x,
  In x (one acc h) <-> (if condb h then (In x (cpl h) /\ In x cfg) \/ (~ In x (cpl h) /\ In x acc) else In x acc).

Lemma rec_one_stay acc h x : (In x acc <-> In x cfg) -> (In x (one acc h) <-> In x cfg).
Proof.
  intros Hc. rewrite one_spec. destruct (condb h); [|exact Hc].
  destruct (in_dec Nat.eq_dec x (cpl h)); tauto.
Qed.

Lemma rec_one_untouched acc h x : ~ (condb h = true /\ In x (cpl h)) -> (In x (one acc h) <-> In x acc).
Proof.
  intros Hn. rewrite one_spec. destruct (condb h) eqn:E; [|tauto].
  destruct (in_dec Nat.eq_dec x (cpl h)); tauto.
Qed.

Lemma rec_one_touch acc h x : condb h = true -> In x (cpl h) -> (In x (one acc h) <-> In x cfg).
Proof. intros E Hx. rewrite one_spec, E. tauto. Qed.

Lemma rec_fold_stay L : forall acc x, (In x acc <-> In x cfg) -> (In x (fold_left one L acc) <-> In x cfg).
Proof. induction L as [|h r IH]; intros acc x Hc; cbn [fold_left]; [exact Hc | apply IH; now apply rec_one_stay]. Qed.

Definition touchedL (L : list nat) (x : nat) : Prop := exists h, In h L /\ condb h = true /\ In x (cpl h).

Lemma rec_fold_untouched L : forall acc x, ~ touchedL L x -> (In x (fold_left one L acc) <-> In x acc).
Proof.
  induction L as [|h r IH]; intros acc x Hn; cbn [fold_left]; [tauto|].
  rewrite IH.
  - apply rec_one_untouched. intros [E Hx]. apply Hn. exists h. cbn. tauto.
  - intros (h' & Hh & E & Hx). apply Hn. exists h'. cbn. tauto.
Qed.

Lemma rec_fold_touched L : forall acc x, touchedL L x -> (In x (fold_left one L acc) <-> In x cfg).
Proof.
  induction L as [|h r IH]; intros acc x (h' & Hh & E & Hx); cbn [fold_left]; [destruct Hh|].
  destruct Hh as [->|Hh].
  - apply rec_fold_stay. now apply rec_one_touch.
  - apply IH. exists h'. tauto.
Qed.

Lemma rec_fold_sub L : forall acc x, In x (fold_left one L acc) -> In x cfg \/ In x acc.
Proof.
  induction L as [|h r IH]; intros acc x Hx; cbn [fold_left] in Hx; [tauto|].
  apply IH in Hx as [Hx|Hx]; [tauto|]. apply one_spec in Hx. destruct (condb h); tauto.
Qed.

(* every state a history records lies below the history's parent *)
Lemma hist_cpl_below h q : histS c h = true -> par h = Some q -> forall x, In x (cpl h) -> Anc q x.
Proof.
  intros Hh Hp. destruct (wh_hist_cpl c W h q Hh Hp) as [Hc _].
  induction x as [x IH] using lt_wf_ind. intros Hx.
  destruct (Hc x Hx) as (_ & _ & [Hpx|(_ & p & Hpx & Hpc)]).
  - now apply anc_parent.
  - eapply anc_step; [exact Hpx|]. apply IH; [|exact Hpc]. now destruct (wh_par_lt c W _ _ Hpx).
Qed.

Lemma Frag_ext q (S S' : nat -> Prop) : (forall x, S x <-> S' x) -> Frag c q S -> Frag c q S'.
Proof.
  intros He [F1 F2 F3 F4]. constructor.
  - intros x Hx. apply F1. now apply He.
  - intros x p Hx Hp. destruct (F2 x p (proj2 (He x) Hx) Hp) as [->|H]; [now left | right; now apply He].
  - intros i k1 k2 Hi H1 H2 S1 S2. apply (F3 i k1 k2 Hi H1 H2); now apply He.
  - destruct F4 as (k & Hk & HS). exists k. split; [exact Hk | now apply He].
Qed.

Hypothesis Hleg : LegalH c (fun x => In x cfg).
Hypothesis Hprop : forall x, In x cfg -> pseudo x = false.
Hypothesis Hexit : forall x, In x exitset -> In x cfg.

Theorem remember_HistOK_gen hist : HistOK c hist -> HistOK c (fold_left one (seq 0 n) hist).
Proof.
  intros [Hp1 Hp2].
  set (hist' := fold_left one (seq 0 n) hist).
  assert (Hprop' : forall x, In x hist' -> pseudo x = false).
  { intros x Hx. apply rec_fold_sub in Hx as [Hx|Hx]; [now apply Hprop | now apply Hp1]. }
  split; [exact Hprop'|].
  intros h q Hh Hpq.
  assert (Hhn : In h (seq 0 n)) by (apply in_seq; destruct (wh_par_lt c W _ _ Hpq); lia).
  destruct (condb h) eqn:Ec.
  - (* the parent is exited: the record is what is active below it *)
    right.
    assert (Hq : In q cfg).
    { unfold condb in Ec. apply andb_true_iff in Ec as [_ Ec]. rewrite Hpq in Ec. apply Hexit. now apply mem_In. }
    assert (Hiff : forall x, In x (cpl h) -> (In x hist' <-> In x cfg)).
    { intros x Hx. apply rec_fold_touched. exists h. tauto. }
    assert (Hps : pseudo h = true) by (unfold histS in Hh; unfold pseudoS; destruct (fs_type (st c h)); try discriminate; reflexivity).
    destruct (wh_pseudo_parent c W h Hps) as (q' & Hq' & Hkq). pose proof (eq_trans (eq_sym Hpq) Hq') as E. injection E as <-.
    destruct (wh_hist_cpl c W h q Hh Hpq) as [Hc1 Hc2].
    constructor.
    + intros x [Hx _]. exact (hist_cpl_below h q Hh Hpq x Hx).
    + intros x p [Hx Hxh] Hpx. apply (Hiff x Hx) in Hxh.
      assert (Hpc : In p cfg) by exact (hcfg_parent c cfg Hleg Hprop x p Hxh Hpx).
      destruct (Hc1 x Hx) as (_ & _ & [Hpx'|(_ & p' & Hpx' & Hpc')]).
      * left. pose proof (eq_trans (eq_sym Hpx) Hpx') as E. now injection E.
      * right. pose proof (eq_trans (eq_sym Hpx) Hpx') as E. injection E as <-. split; [exact Hpc' | now apply Hiff].
    + intros i k1 k2 Hi H1 H2 [Hx1 Hh1] [Hx2 Hh2]. apply (Hiff _ Hx1) in Hh1. apply (Hiff _ Hx2) in Hh2.
      exact (hcfg_compound_uniq c W cfg Hleg Hprop i k1 k2 Hi H1 H2 Hh1 Hh2).
    + destruct (hcfg_compound_ex c W cfg Hleg q Hq Hkq) as (k & Hpk & Hkc). exists k. split; [exact Hpk|].
      assert (Hkx : In k (cpl h)) by (apply Hc2; [exact Hpk | now apply Hprop]).
      split; [exact Hkx | now apply Hiff].
  - (* not exited: no other history writes the proper states this one records *)
    assert (Hother : forall h2 x, condb h2 = true -> In x (cpl h) -> In x (cpl h2) -> pseudo x = false -> False).
    { intros h2 x E2 Hx Hx2 Epx. pose proof E2 as E2'. unfold condb in E2. apply andb_true_iff in E2 as [E2 E3].
      pose proof (wh_hist_disjoint c W h h2 x Hh E2 Hx Hx2 Epx) as Hpar.
      unfold condb in Ec. unfold histS in Hh. rewrite Hh in Ec. cbn [andb] in Ec. rewrite Hpar in Ec. congruence. }
    assert (Hsame : forall x, Rh c hist' h x <-> Rh c hist h x).
    { intros x. unfold Rh. destruct (pseudo x) eqn:Epx.
      - split; intros [_ Hx]; exfalso; [apply Hprop' in Hx | apply Hp1 in Hx]; congruence.
      - split; intros [Hx Hxh]; (split; [exact Hx|]).
        + apply (rec_fold_untouched (seq 0 n) hist x); [|exact Hxh].
          intros (h2 & _ & E2 & Hx2). exact (Hother h2 x E2 Hx Hx2 Epx).
        + apply (rec_fold_untouched (seq 0 n) hist x); [|exact Hxh].
          intros (h2 & _ & E2 & Hx2). exact (Hother h2 x E2 Hx Hx2 Epx). }
    destruct (Hp2 h q Hh Hpq) as [Hnone|HF].
    + left. intros x Hx. apply (Hnone x). now apply Hsame.
    + right. apply (Frag_ext q (Rh c hist h)); [intros x; symmetry; apply Hsame | exact HF].
Qed.

End Remember.

Theorem remember_HistOK cfg exitset :
  LegalH c (fun x => In x cfg) -> (forall x, In x cfg -> pseudo x = false) -> (forall x, In x exitset -> In x cfg) ->
  forall hist, HistOK c hist -> HistOK c (remember_history c cfg exitset hist).
Proof.
  intros HL HP HE hist HH. rewrite remember_unfold.
  exact (remember_HistOK_gen cfg exitset (rec_one cfg exitset) (rec_one_spec cfg exitset) HL HP HE hist HH).
Qed.

(* ------------------------------------------------------------------ the list-level effect of entering *)

Lemma enter_one_cfg_h ts a i y :
  In y (ea_cfg (enter_one xv c ts a i)) <-> In y (ea_cfg a) \/ (y = i /\ pseudo i = false).
Proof.
  unfold enter_one, pseudoS. destruct (is_pseudo (fs_type (st c i))) eqn:E.
  - split; [tauto | intros [H|[_ H]]; [exact H | discriminate]].
  - cbn zeta.
    match goal with |- context [let '(initd1, x2) := ?e in _] => destruct e as [initd1 x2] end.
    destruct (fs_type (st c i)); cbn [ea_cfg]; rewrite In_insert_sorted'; tauto.
Qed.

Lemma enter_fold_cfg_h ts es : forall a y,
  In y (ea_cfg (fold_left (enter_one xv c ts) es a)) <-> In y (ea_cfg a) \/ (In y es /\ pseudo y = false).
Proof.
  induction es as [|i r IH]; intros a y; cbn [fold_left].
  - cbn. tauto.
  - rewrite IH, enter_one_cfg_h. cbn [In]. split.
    + intros [[H|[-> H]]|H]; tauto.
    + intros [H|[[->|H] Hp]]; tauto.
Qed.

Definition hist_after (l : lstate) (exitset : list nat) (init : bool) : list nat :=
  if init then l_hist l else remember_history c (l_cfg l) exitset (l_hist l).

Lemma microstep_cfg_h l x tg exitset ts init y :
  In y (l_cfg (fst (microstep lg_fixed xv c l x tg exitset ts init))) <->
  (In y (l_cfg l) /\ ~ In y exitset) \/
  (In y (HEfin c (l_cfg l) exitset (hist_after l exitset init) tg ts) /\ pseudo y = false).
Proof.
  unfold microstep, HEfin, hist_after. cbn zeta.
  destruct (entry_set lg_fixed c (l_cfg l) exitset _ tg ts) as [es ts'] eqn:Ees.
  destruct (fold_left (exit_one xv c) (rev exitset) (l_cfg l, x)) as [cfg1 x1] eqn:Eex.
  cbn [fst l_cfg].
  rewrite enter_fold_cfg_h. cbn [ea_cfg].
  assert (Hc1 : forall z, In z cfg1 <-> In z (l_cfg l) /\ ~ In z exitset).
  { intros z. replace cfg1 with (fst (fold_left (exit_one xv c) (rev exitset) (l_cfg l, x))) by (now rewrite Eex).
    rewrite exit_fold_cfg, <- in_rev. tauto. }
  rewrite In_set_diff, Hc1. cbn [fst].
  destruct (in_dec Nat.eq_dec y cfg1) as [H|H]; [apply Hc1 in H; tauto|].
  rewrite Hc1 in H. tauto.
Qed.

Lemma microstep_hist l x tg exitset ts init :
  l_hist (fst (microstep lg_fixed xv c l x tg exitset ts init)) = hist_after l exitset init.
Proof.
  unfold microstep, hist_after. cbn zeta.
  destruct (entry_set lg_fixed c (l_cfg l) exitset _ tg ts) as [es ts'].
  destruct (fold_left (exit_one xv c) (rev exitset) (l_cfg l, x)) as [cfg1 x1]. reflexivity.
Qed.

Lemma microstep_init l x tg exitset ts init :
  l_init (fst (microstep lg_fixed xv c l x tg exitset ts init)) = true.
Proof.
  unfold microstep. cbn zeta.
  destruct (entry_set lg_fixed c (l_cfg l) exitset _ tg ts) as [es ts'].
  destruct (fold_left (exit_one xv c) (rev exitset) (l_cfg l, x)) as [cfg1 x1]. reflexivity.
Qed.

(* ---- the selected transitions have active sources ---- *)

Lemma select_loop_sources_h cfg ev order : forall skip sel x,
  (forall s, In s order -> In s cfg) ->
  (forall ti, In ti sel -> In (ft_source (tr c ti)) cfg) ->
  forall ti, In ti (fst (select_loop lg_fixed c cfg ev order skip sel x)) -> In (ft_source (tr c ti)) cfg.
Proof.
  induction order as [|s r IH]; intros skip sel x Hord Hsel; cbn [select_loop]; [exact Hsel|].
  destruct (match skip with Some cur => match fs_parent (st c cur) with Some p => p =? s | None => false end | None => false end).
  - apply IH; [intros; apply Hord; now right | exact Hsel].
  - destruct (pick_trans lg_fixed c cfg ev sel (fs_trans (st c s)) x) as [o x'] eqn:E. destruct o as [ti|].
    + apply IH; [intros; apply Hord; now right|].
      intros t Ht. apply In_insert_sorted' in Ht as [->|Ht]; [|now apply Hsel].
      apply (pick_trans_sound lg_fixed c) in E as [E _]. rewrite (wh_tr_src c W s ti E). apply Hord. now left.
    + apply IH; [intros; apply Hord; now right | exact Hsel].
Qed.

(* ---- one step ---- *)

(* legal configuration of proper states, and a usable history record *)
Definition StOK (l : lstate) : Prop := LegalCfgH c (l_cfg l) /\ HistOK c (l_hist l).

Definition CfgOKH (l : lstate) : Prop :=
  (is_pristine l = true /\ l_cfg l = [] /\ HistOK c (l_hist l)) \/ (l_init l = true /\ StOK l).

Lemma legal_ext (C C' : nat -> Prop) : (forall y, C' y <-> C y) -> LegalH c C -> LegalH c C'.
Proof.
  intros Hm [R1 R2 R3 R4 R5]. constructor.
  - apply Hm. exact R1.
  - intros i p Hi Hp. apply Hm. eapply R2; [apply Hm; exact Hi | exact Hp].
  - intros i Hi Hk. destruct (R3 i (proj1 (Hm i) Hi) Hk) as (k & Hin & Hk'). exists k. split; [exact Hin | now apply Hm].
  - intros i k1 k2 Hi Hk H1 H2 Hk1 Hk2.
    exact (R4 i k1 k2 (proj1 (Hm i) Hi) Hk H1 H2 (proj1 (Hm k1) Hk1) (proj1 (Hm k2) Hk2)).
  - intros i k Hi Hk Hin. apply Hm. exact (R5 i k (proj1 (Hm i) Hi) Hk Hin).
Qed.

Lemma select_and_step_legal_h l x ev : StOK l -> StOK (fst (fst (select_and_step lg_fixed xv c l x ev))).
Proof.
  intros [[HL HB] HH]. unfold select_and_step. cbn zeta.
  change (l_cfg (upd_flags l (l_spont l) false)) with (l_cfg l).
  destruct (select_loop lg_fixed c (l_cfg l) ev (cfg_postfix c (l_cfg l)) None [] x) as [sel x1] eqn:E.
  assert (Hok : pairwise_ok lg_fixed c sel).
  { replace sel with (fst (select_loop lg_fixed c (l_cfg l) ev (cfg_postfix c (l_cfg l)) None [] x)) by (now rewrite E).
    apply select_loop_pairwise. apply nil_pairwise. }
  assert (Hsrc : forall ti, In ti sel -> In (ft_source (tr c ti)) (l_cfg l)).
  { replace sel with (fst (select_loop lg_fixed c (l_cfg l) ev (cfg_postfix c (l_cfg l)) None [] x)) by (now rewrite E).
    apply select_loop_sources_h; [intros s; apply cfg_postfix_sub | intros ti []]. }
  destruct sel as [|t r] eqn:Esel; [cbn [fst]; split; [split|]; assumption|]. rewrite <- Esel in *.
  assert (HBn : forall y, In y (l_cfg l) -> y < n) by (intros y Hy; now destruct (HB y Hy)).
  assert (HBp : forall y, In y (l_cfg l) -> pseudo y = false) by (intros y Hy; now destruct (HB y Hy)).
  set (l0 := upd_flags l (l_spont l) false).
  set (tg := fold_left (fun a ti => set_union a (ft_targets (tr c ti))) sel []).
  set (ex := fold_left (fun a ti => set_union a (exit_states_of lg_fixed c (l_cfg l) (tr c ti))) sel []).
  assert (Hex : forall y, In y ex -> In y (l_cfg l)).
  { intros y Hy. exact (proj1 (proj1 (hIn_exitset c W (l_cfg l) sel HL HBn HBp Hsrc y) Hy)). }
  assert (HH' : HistOK c (hist_after l0 ex false)).
  { unfold hist_after. change (l_cfg l0) with (l_cfg l). change (l_hist l0) with (l_hist l).
    exact (remember_HistOK (l_cfg l) ex HL HBp Hex (l_hist l) HH). }
  pose proof (fun y => microstep_cfg_h l0 (emit TMsB x1) tg ex sel false y) as Hm.
  pose proof (microstep_hist l0 (emit TMsB x1) tg ex sel false) as Hh.
  destruct (microstep lg_fixed xv c l0 (emit TMsB x1) tg ex sel false) as [l1 x2].
  cbn [fst snd] in *. change (l_cfg l0) with (l_cfg l) in Hm.
  pose proof (microstep_sets_legal_h c W (l_cfg l) sel HL HBn HBp Hsrc Hok (hist_after l0 ex false) HH') as HR.
  split; [split|].
  - exact (legal_ext _ _ Hm HR).
  - intros y Hy. apply Hm in Hy as [[Hy _]|[Hy Hp]]; [now apply HB|]. split; [|exact Hp].
    exact (HEfs_bound c W (l_cfg l) sel HL HBn HBp Hsrc Hok (hist_after l0 ex false) HH' y Hy).
  - rewrite Hh. exact HH'.
Qed.

Lemma initial_step_legal_h l x : l_cfg l = [] -> HistOK c (l_hist l) ->
  StOK (fst (microstep lg_fixed xv c l x (fs_completion (st c 0)) [] [] true)).
Proof.
  intros Hnil HH.
  pose proof (fun y => microstep_cfg_h l x (fs_completion (st c 0)) [] [] true y) as Hm.
  pose proof (microstep_hist l x (fs_completion (st c 0)) [] [] true) as Hh.
  destruct (microstep lg_fixed xv c l x (fs_completion (st c 0)) [] [] true) as [l1 x1].
  cbn [fst] in *. rewrite Hnil in Hm. unfold hist_after in *.
  pose proof (initial_sets_legal_h c W (l_hist l) HH root_compound) as HR. unfold HEinit in HR.
  assert (Heq : forall y, In y (l_cfg l1) <-> (In y (HEfin c [] [] (l_hist l) (fs_completion (st c 0)) []) /\ pseudo y = false)).
  { intros y. rewrite Hm. cbn [In]. tauto. }
  split; [split|].
  - exact (legal_ext _ _ Heq HR).
  - intros y Hy. apply Heq in Hy as [Hy Hp]. split; [|exact Hp]. exact (HEinit_bound c W (l_hist l) HH root_compound y Hy).
  - rewrite Hh. exact HH.
Qed.

Lemma select_and_step_init_h l x ev : l_init l = true -> l_init (fst (fst (select_and_step lg_fixed xv c l x ev))) = true.
Proof.
  intros Hi. unfold select_and_step. cbn zeta.
  destruct (select_loop lg_fixed c _ ev _ None [] x) as [sel x1]. destruct sel as [|t r]; [exact Hi|].
  match goal with |- context [microstep lg_fixed xv c ?l0 ?x0 ?tg ?ex ?ts false] =>
    pose proof (microstep_init l0 x0 tg ex ts false) as H; destruct (microstep lg_fixed xv c l0 x0 tg ex ts false) as [l1 x2] end.
  exact H.
Qed.

Theorem large_step_legal_h l x : CfgOKH l -> CfgOKH (fst (fst (large_step lg_fixed xv c l x))).
Proof.
  intros HOK. unfold large_step.
  destruct (l_fin l) eqn:Hfin; [exact HOK|].
  destruct (l_tlf l) eqn:Htlf.
  { cbn [fst]. destruct HOK as [[Hp _]|H]; [|right; exact H].
    unfold is_pristine in Hp. rewrite Htlf in Hp. rewrite !orb_true_r in Hp. discriminate. }
  destruct (is_pristine l) eqn:Hpr.
  { destruct HOK as [(_ & Hnil & HH)|[Hi _]]; [|rewrite (init_not_pristine l Hi) in Hpr; discriminate].
    right. pose proof (initial_step_legal_h l (emit TMsB x) Hnil HH) as H.
    pose proof (microstep_init l (emit TMsB x) (fs_completion (st c 0)) [] [] true) as Hi.
    destruct (microstep lg_fixed xv c l (emit TMsB x) (fs_completion (st c 0)) [] [] true) as [l1 x1].
    cbn [fst] in *. split; assumption. }
  destruct HOK as [[Hp _]|[Hi HL]]; [congruence|].
  assert (Hsel : forall y ev, CfgOKH (fst (fst (select_and_step lg_fixed xv c l y ev)))).
  { intros y ev. right. split; [now apply select_and_step_init_h | now apply select_and_step_legal_h]. }
  destruct (l_spont l); [apply Hsel|].
  destruct (x_iq x) as [|e r].
  - destruct (l_stable l); cbn [negb].
    + destruct (x_eq x) as [|e r].
      * destruct (l_cancelled l); cbn [fst]; right; tauto.
      * destruct (ev_name e); [destruct (l_cancelled l); cbn [fst]; right; tauto | apply Hsel].
    + cbn [fst]. right. tauto.
  - destruct (ev_name e); [cbn [fst]; right; tauto | apply Hsel].
Qed.

(* every state of every run, for every event history and every bound on the number of steps *)
Theorem run_states_legal_h fuel : forall l x evs, CfgOKH l ->
  CfgOKH (fst (run_loop c lstate (large_step lg_fixed xv c) l_cfg fuel l x evs)).
Proof.
  induction fuel as [|f IH]; intros l x evs HOK; cbn [run_loop]; [exact HOK|].
  pose proof (large_step_legal_h l x HOK) as H1.
  destruct (large_step lg_fixed xv c l x) as [[l1 x1] rc]. cbn [fst] in H1.
  destruct (N.eqb rc RC_FINISHED); [exact H1|].
  destruct (N.eqb rc RC_IDLE); [|now apply IH].
  destruct evs as [|e r]; [exact H1 | now apply IH].
Qed.

Lemma pristine_ok_h : CfgOKH l_pristine.
Proof. left. split; [reflexivity|]. split; [reflexivity | apply HistOK_nil]. Qed.

(* ---- the legality notion of LegalRun.v (all children, as in run_always_legal) follows ---- *)

Lemma LegalCfgH_LegalCfg cfg : LegalCfgH c cfg -> LegalCfg c cfg.
Proof.
  intros [HL HB].
  assert (HBp : forall y, In y cfg -> pseudo y = false) by (intros y Hy; now destruct (HB y Hy)).
  split; [|intros y Hy; now destruct (HB y Hy)].
  constructor.
  - exact (lg_root _ _ _ _ HL).
  - intros i p Hi Hp. exact (hcfg_parent c cfg HL HBp i p Hi Hp).
  - intros i Hi Hk. destruct (hcfg_compound_ex c W cfg HL i Hi Hk) as (k & Hpk & Hkc). exists k.
    split; [now apply (wh_children c W) | exact Hkc].
  - intros i k1 k2 Hi Hk H1 H2 C1 C2. apply (wh_children c W) in H1, H2.
    exact (hcfg_compound_uniq c W cfg HL HBp i k1 k2 Hk H1 H2 C1 C2).
  - intros i k Hi Hk Hin. apply (wh_children c W) in Hin. exact (hcfg_parallel c W cfg HL i k Hi Hk Hin).
Qed.

Lemma CfgOKH_CfgOK l : CfgOKH l -> CfgOK c l.
Proof.
  intros [(A & B & _)|(A & [B _])]; [left; tauto | right]. split; [exact A | now apply LegalCfgH_LegalCfg].
Qed.

End HRun.
