(* ValidateBridgePos.v -- element pointers of the rendering against the tree: a pointer determines the sub-tree,
   "pointer p1 is below pointer p2" (DOMUtils::isDescendant) is "the sub-tree is strictly below", two state
   elements in different children of a non-parallel element are not compatible (hasLegalCompletion's pair test);
   and the two side conditions of validate_sound for renderings of documents.  Proofs only. *)
From V Require Import Base Chart Large Validate ValidateLemmas FlattenWf FlattenWfTree TreeLemmas
     ValidateBridge ValidateBridgeDoc.
Local Open Scope nat_scope.
Local Notation G := gdoc_of_tree.

Lemma At_det t : forall p anc u, At t p anc u -> forall anc' u', At t p anc' u' -> anc = anc' /\ u = u'.
Proof.
  induction 1 as [|p anc u j k HA IH Hj]; intros anc' u' H'.
  - inversion H'; subst. split; reflexivity.
  - inversion H' as [|p0 anc0 u0 j0 k0 HA0 Hj0]; subst.
    destruct (IH _ _ HA0) as [-> ->]. assert (j0 = j) by lia. subst j0.
    rewrite Hj in Hj0. inversion Hj0. split; reflexivity.
Qed.

Lemma tbelow_kid u k : In k (t_kids u) -> In k (tbelow u).
Proof. intros Hk. unfold tbelow. apply in_flat_map. exists k. split; [exact Hk | apply subtrees_self]. Qed.

Lemma tbelow_step u v w : In v (tbelow u) -> In w (t_kids v) -> In w (tbelow u).
Proof.
  unfold tbelow. rewrite !in_flat_map. intros (k & Hk & Hv) Hw. exists k. split; [exact Hk|].
  eapply subtrees_trans; [exact Hv|]. eapply subtrees_kid; [exact Hw | apply subtrees_self].
Qed.

Lemma tbelow_subtrees u w : In w (tbelow u) -> In w (subtrees u).
Proof. intros H. rewrite subtrees_unfold. now right. Qed.

Lemma subtrees_cases u w : In w (subtrees u) -> w = u \/ In w (tbelow u).
Proof. rewrite subtrees_unfold. intros [H|H]; [left; now symmetry | now right]. Qed.

Lemma tbelow_trans u v w : In v (tbelow u) -> In w (subtrees v) -> In w (tbelow u).
Proof.
  unfold tbelow. rewrite !in_flat_map. intros (k & Hk & Hv) Hw. exists k. split; [exact Hk|].
  eapply subtrees_trans; eauto.
Qed.

(* pointers below a position *)
Lemma At_below t p anc u : At t p anc u -> forall q anc' w, At t (q ++ p) anc' w ->
  (q = [] /\ w = u) \/ (q <> [] /\ In w (tbelow u)).
Proof.
  intros HA. induction q as [|a q IH]; intros anc' w Hw.
  - left. split; [reflexivity|]. cbn [app] in Hw. now destruct (At_det t _ _ _ HA _ _ Hw).
  - right. split; [discriminate|]. cbn [app] in Hw. inversion Hw as [|p0 anc0 v j k Hv Hj]; subst.
    apply nth_error_In in Hj. destruct (IH _ _ Hv) as [[_ ->]|[_ Hin]].
    + now apply tbelow_kid.
    + eapply tbelow_step; eauto.
Qed.

(* every sub-tree below a position has a position *)
Lemma At_subtree_pos t p anc u : At t p anc u -> forall w, In w (subtrees u) -> exists q anc', At t (q ++ p) anc' w.
Proof.
  revert p anc. induction u as [k s ini trl en ex d kids IH] using tree_ind'. intros p anc HA w Hw.
  set (u := TNode k s ini trl en ex d kids) in *.
  rewrite subtrees_unfold in Hw. destruct Hw as [<-|Hw]; [exists [], anc; exact HA|].
  apply in_flat_map in Hw as (kid & Hk & Hw). cbn [t_kids] in Hk. destruct (In_nth_error _ _ Hk) as [j Hj].
  rewrite Forall_forall in IH.
  destruct (IH kid Hk _ _ (At_kid t p anc u j kid HA Hj) w Hw) as (q & anc' & Hq).
  exists (q ++ [off u + j]), anc'. now rewrite <- app_assoc.
Qed.

Lemma At_kid_inv t p anc u a anc' w : At t p anc u -> At t (a :: p) anc' w ->
  exists j, a = off u + j /\ nth_error (t_kids u) j = Some w /\ anc' = G u :: anc.
Proof.
  intros HA Hw. inversion Hw as [|p0 anc0 v j k Hv Hj]; subst.
  destruct (At_det t _ _ _ HA _ _ Hv) as [-> ->]. exists j. repeat split; [exact Hj].
Qed.

(* ------------------------------------------------------------------ DOMUtils::isDescendant on pointers *)

Lemma is_desc_spec p1 p2 : is_desc p1 p2 = true <-> exists q, q <> [] /\ p1 = q ++ p2.
Proof.
  induction p1 as [|a r IH]; cbn [is_desc].
  - split; [discriminate|]. intros (q & Hq & E). destruct q; [congruence | discriminate].
  - rewrite orb_true_iff, ptr_eqb_eq, IH. split.
    + intros [->|(q & Hq & ->)]; [exists [a]; split; [discriminate | reflexivity]|].
      exists (a :: q). split; [discriminate | reflexivity].
    + intros (q & Hq & E). destruct q as [|b q]; [congruence|]. cbn [app] in E. inversion E; subst.
      destruct q as [|c q]; [now left|]. right. exists (c :: q). split; [discriminate | reflexivity].
Qed.

Lemma suffix_last {A} (q1 q2 r p : list A) a b : q1 ++ a :: p = r ++ q2 ++ b :: p -> a = b.
Proof.
  intros E. assert (E' : (q1 ++ [a]) ++ p = ((r ++ q2) ++ [b]) ++ p) by (rewrite <- !app_assoc; exact E).
  apply app_inv_tail in E'. apply app_inj_tail in E'. tauto.
Qed.

Lemma descendants_path_nonempty d e : In e (descendants (root_el d)) -> e_path e <> [].
Proof.
  unfold descendants. intros He. apply In_concat in He as (l & Hl & He).
  apply In_mapi_from in Hl as (n & k & _ & ->). apply desc_from_shape in He as (q & qa & E & _ & _).
  rewrite E. destruct q; discriminate.
Qed.

(* ------------------------------------------------------------------ hasLegalCompletion's pair test *)

Lemma ancestors_from_cons a p g anc :
  ancestors_from (a :: p) (g :: anc) = {| e_path := p; e_node := g; e_anc := anc |} :: ancestors_from p anc.
Proof. reflexivity. Qed.

(* the nearest ancestor of w1 that is an ancestor of w2, for w1, w2 in two different children of v, is v *)
Lemma lca_find t pv av v : At t pv av v -> forall q1 a1 w1 j1 p2, At t (q1 ++ (off v + j1) :: pv) a1 w1 ->
  (exists q2 j2, p2 = q2 ++ (off v + j2) :: pv /\ j2 <> j1) ->
  find (fun a => is_desc p2 (e_path a)) (ancestors_from (q1 ++ (off v + j1) :: pv) a1) = Some (el_at pv av v).
Proof.
  intros Hv. induction q1 as [|c q1 IH]; intros a1 w1 j1 p2 H1 (q2 & j2 & -> & Hne).
  - cbn [app] in *. inversion H1 as [|p0 anc0 u j k Hu Hj]; subst.
    destruct (At_det t _ _ _ Hv _ _ Hu) as [<- <-]. rewrite ancestors_from_cons. cbn [find e_path].
    assert (E : is_desc (q2 ++ off v + j2 :: pv) pv = true).
    { apply is_desc_spec. exists (q2 ++ [off v + j2]). split; [destruct q2; discriminate | now rewrite <- app_assoc]. }
    rewrite E. reflexivity.
  - cbn [app] in *. inversion H1 as [|p0 anc0 u j k Hu Hj]; subst. rewrite ancestors_from_cons. cbn [find e_path].
    assert (E : is_desc (q2 ++ off v + j2 :: pv) (q1 ++ off v + j1 :: pv) = false).
    { match goal with |- ?x = false => destruct x eqn:E end; [|reflexivity]. apply is_desc_spec in E as (r & _ & E).
      apply suffix_last in E. exfalso. apply Hne. lia. }
    rewrite E. eapply IH; [exact Hu|]. exists q2, j2. split; [reflexivity | exact Hne].
Qed.

Lemma not_compatible_in_two_kids t pv av v : At t pv av v -> t_kind v <> KParallel ->
  forall q1 a1 w1 j1 q2 a2 w2 j2,
    At t (q1 ++ (off v + j1) :: pv) a1 w1 -> At t (q2 ++ (off v + j2) :: pv) a2 w2 -> j1 <> j2 ->
    compatible (el_at (q1 ++ (off v + j1) :: pv) a1 w1) (el_at (q2 ++ (off v + j2) :: pv) a2 w2) = false.
Proof.
  intros Hv Hk q1 a1 w1 j1 q2 a2 w2 j2 H1 H2 Hne. unfold compatible. cbn [el_at e_path].
  assert (E1 : is_desc (q1 ++ off v + j1 :: pv) (q2 ++ off v + j2 :: pv) = false).
  { match goal with |- ?x = false => destruct x eqn:E end; [|reflexivity]. apply is_desc_spec in E as (r & _ & E). apply suffix_last in E. lia. }
  assert (E2 : is_desc (q2 ++ off v + j2 :: pv) (q1 ++ off v + j1 :: pv) = false).
  { match goal with |- ?x = false => destruct x eqn:E end; [|reflexivity]. apply is_desc_spec in E as (r & _ & E). apply suffix_last in E. lia. }
  rewrite E1, E2. cbn [orb]. unfold lca_is_parallel, ancestors_el. cbn [e_path e_anc].
  rewrite (lca_find t pv av v Hv q1 a1 w1 j1 _ H1) by (exists q2, j2; split; [reflexivity | lia]).
  unfold is_parallel, e_tag, el_at. cbn [e_node]. rewrite G_tag. destruct (t_kind v); try reflexivity. congruence.
Qed.

(* ------------------------------------------------------------------ the side conditions of validate_sound *)

Lemma vb_docb_spec t : vb_docb t = true ->
  t_kind t = KScxml /\ forall w, In w (tbelow t) -> t_kind w <> KScxml.
Proof.
  unfold vb_docb. rewrite andb_true_iff. intros [Hr Hk]. split; [destruct (t_kind t); try discriminate; reflexivity|].
  intros w Hw. unfold tbelow in Hw. apply in_flat_map in Hw as (k & Hk' & Hw). rewrite forallb_forall in Hk.
  specialize (Hk k Hk'). rewrite forallb_forall in Hk. specialize (Hk w Hw). intros E. rewrite E in Hk. discriminate.
Qed.

(* a state element of the rendering that is not the root: its position, strictly below the root *)
Lemma all_state_At t e : In e (descendants (root_el (G t))) -> is_state_tag (e_tag e) false = true ->
  exists w, At t (e_path e) (e_anc e) w /\ e_node e = G w /\ In w (tbelow t).
Proof.
  intros He Hs. destruct (universe_state_At t e (descendants_in_universe _ _ He) Hs) as (w & HA & En).
  exists w. split; [exact HA|]. split; [exact En|].
  pose proof (descendants_path_nonempty _ _ He) as Hne.
  assert (HA' : At t (e_path e ++ []) (e_anc e) w) by (now rewrite app_nil_r).
  destruct (At_below t [] [] t (At_root t) _ _ _ HA') as [[E _]|[_ Hin]]; [congruence | exact Hin].
Qed.

Lemma doc_single_machine t : vb_docb t = true -> single_machine (G t) = true.
Proof.
  intros Hd. destruct (vb_docb_spec t Hd) as [_ Hk]. unfold single_machine. apply forallb_forall. intros e He.
  destruct (gtag_eqb (e_tag e) GScxml) eqn:E; [|reflexivity]. exfalso.
  assert (Ht : e_tag e = GScxml) by (destruct (e_tag e); try discriminate; reflexivity).
  destruct (all_state_At t e He) as (w & _ & En & Hw); [now rewrite Ht|].
  apply (Hk w Hw). unfold e_tag in Ht. rewrite En, G_tag in Ht. destruct (t_kind w); try discriminate; reflexivity.
Qed.

Lemma doc_plain_ids t : vb_docb t = true -> plain_ids (G t) = true.
Proof.
  intros Hd. destruct (vb_docb_spec t Hd) as [Hr _]. unfold plain_ids. apply andb_true_iff. split.
  - rewrite G_attrs, Hr. reflexivity.
  - apply forallb_forall. intros e He. apply with_tag_In in He as [He Ht].
    assert (Ht' : e_tag e = GInitial) by (destruct (e_tag e); try discriminate; reflexivity).
    destruct (all_state_At t e He) as (w & _ & En & _); [now rewrite Ht'|].
    unfold e_attrs. rewrite En, G_attrs. unfold e_tag in Ht'. rewrite En, G_tag in Ht'.
    destruct (t_kind w); try discriminate; reflexivity.
Qed.
