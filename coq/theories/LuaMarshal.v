(* LuaMarshal.v -- model of the marshalling between uscxml::Data and Lua values in
   src/uscxml/plugins/datamodel/lua/LuaDataModel.cpp:
     getLuaAsData (89-157), getDataAsLua (159-225), LuaDataModel::setEvent (320-388),
     LuaDataModel::assign / ::init (493-535), with isNumeric / isInteger / strTo<long> / toStr<long>
     of src/uscxml/util/Convenience.{h,cpp}.
   Model only; lemmas are in LuaMarshalLemmas.v.

   What is inside the model: the control flow of those functions (which branch a Data takes, the
   array-vs-map decision, key coercions, the std::map ordering of the table items, nil filling, the
   merge of params and namelist into _event.data, the protected-name guards -- regenerated from the
   source into GenLuaProtected.v), decimal printing/parsing of integers.
   What is outside (Section variables, trusted): the IEEE doubles and their printing/parsing
   (C++ iostream, precision 16), the Lua VM's evaluation of an INTERPRETED atom (`luaEval`) and its
   execution of the chunk `<location>= __tmpAssign`.  Lua tables with keys other than integers and
   strings, functions, userdata and threads are not represented. *)
From V Require Import Base GenLuaProtected.
From Coq Require Import DecimalN DecimalZ DecimalPos.
Local Open Scope N_scope.

(* ------------------------------------------------------------------ defect switches *)
(* Points at which the pinned code violates the property; the repaired code has all switches off.
   The run-time check determines the vector of the implementation from witness inputs. *)
Record lm_variant := {
  lm_empty_atom_is_nil    : bool;  (* getDataAsLua enters the atom branch only `if (data.atom.size() > 0)`:
                                      the empty VERBATIM string becomes nil *)
  lm_keys_sorted_as_text  : bool;  (* getLuaAsData collects the items of an array-like table in a
                                      std::map<std::string,...>: "10" sorts before "2" *)
  lm_int_via_double       : bool;  (* getLuaAsData prints every number through cast<double> *)
  lm_empty_key_undefined  : bool;  (* getDataAsLua evaluates strTo<long>("") for the empty compound key:
                                      isInteger("") holds vacuously, `long v; istringstream("") >> v`
                                      fails in the sentry and leaves v uninitialised *)
  lm_sign_anywhere        : bool   (* isInteger / isNumeric (Convenience.cpp) accept '-' at any position
                                      and any number of '.': "1-2", "--1", "1.2.3" pass, and
                                      strTo<long>("1-2") = 1 *)
}.
Definition lm_pinned : lm_variant :=
  {| lm_empty_atom_is_nil := true; lm_keys_sorted_as_text := true; lm_int_via_double := true;
     lm_empty_key_undefined := true; lm_sign_anywhere := true |}.
Definition lm_fixed : lm_variant :=
  {| lm_empty_atom_is_nil := false; lm_keys_sorted_as_text := false; lm_int_via_double := false;
     lm_empty_key_undefined := false; lm_sign_anywhere := false |}.

(* outcome of the functions that can throw or run into undefined behaviour *)
Inductive mres (A : Type) :=
| MOk (a : A)
| MErr          (* an error.execution is thrown *)
| MUndef.       (* the C++ reads an uninitialised variable: the result is not determined *)
Arguments MOk {A} a.
Arguments MErr {A}.
Arguments MUndef {A}.

(* ------------------------------------------------------------------ byte-string helpers *)
Definition c_minus : N := 45.
Definition c_zero : N := 48.

Definition is_digit (c : N) : bool := (48 <=? c) && (c <=? 57).

(* isInteger(s, 10) as pinned: no character outside "-0123456789" (the empty string passes) *)
Definition is_integer_anywhere (s : bytes) : bool := forallb (fun c => (c =? c_minus) || is_digit c) s.
(* isNumeric(s, 10) as pinned: no character outside ".-0123456789" *)
Definition is_numeric_anywhere (s : bytes) : bool := forallb (fun c => (c =? c_dot) || (c =? c_minus) || is_digit c) s.

(* repaired: additionally `input.find('-', 1) == npos` -- a '-' only as the first character -- and for
   isNumeric `input.find('.') == input.rfind('.')` -- at most one '.'.  The empty string, "-" and "."
   still pass. *)
Definition digits_only (s : bytes) : bool := forallb is_digit s.
Definition is_integer_strict (s : bytes) : bool :=
  match s with
  | [] => true
  | c :: r => if c =? c_minus then digits_only r else digits_only s
  end.
Fixpoint num_body (dot_seen : bool) (s : bytes) : bool :=
  match s with
  | [] => true
  | c :: r => if c =? c_dot then negb dot_seen && num_body true r else is_digit c && num_body dot_seen r
  end.
Definition is_numeric_strict (s : bytes) : bool :=
  match s with
  | [] => true
  | c :: r => if c =? c_minus then num_body false r else num_body false s
  end.

Definition is_integer (sign_anywhere : bool) (s : bytes) : bool :=
  if sign_anywhere then is_integer_anywhere s else is_integer_strict s.
Definition is_numeric (sign_anywhere : bool) (s : bytes) : bool :=
  if sign_anywhere then is_numeric_anywhere s else is_numeric_strict s.
(* atom.find(".") != npos *)
Definition contains_dot (s : bytes) : bool := existsb (fun c => c =? c_dot) s.

Fixpoint bytes_of_uint (u : Decimal.uint) : bytes :=
  match u with
  | Decimal.Nil => []
  | Decimal.D0 r => 48 :: bytes_of_uint r | Decimal.D1 r => 49 :: bytes_of_uint r
  | Decimal.D2 r => 50 :: bytes_of_uint r | Decimal.D3 r => 51 :: bytes_of_uint r
  | Decimal.D4 r => 52 :: bytes_of_uint r | Decimal.D5 r => 53 :: bytes_of_uint r
  | Decimal.D6 r => 54 :: bytes_of_uint r | Decimal.D7 r => 55 :: bytes_of_uint r
  | Decimal.D8 r => 56 :: bytes_of_uint r | Decimal.D9 r => 57 :: bytes_of_uint r
  end.

(* "%ld" / lua_tostring of an integer / toStr<long> *)
Definition dec_of_Z (z : Z) : bytes :=
  match z with
  | Z0 => [c_zero]
  | Zpos p => bytes_of_uint (Pos.to_uint p)
  | Zneg p => c_minus :: bytes_of_uint (Pos.to_uint p)
  end.

Definition cons_digit (c : N) (u : Decimal.uint) : Decimal.uint :=
  if c =? 48 then Decimal.D0 u else if c =? 49 then Decimal.D1 u else if c =? 50 then Decimal.D2 u
  else if c =? 51 then Decimal.D3 u else if c =? 52 then Decimal.D4 u else if c =? 53 then Decimal.D5 u
  else if c =? 54 then Decimal.D6 u else if c =? 55 then Decimal.D7 u else if c =? 56 then Decimal.D8 u
  else Decimal.D9 u.

(* the maximal run of digits at the front of [s] *)
Fixpoint scan_uint (s : bytes) : Decimal.uint :=
  match s with
  | [] => Decimal.Nil
  | c :: r => if is_digit c then cons_digit c (scan_uint r) else Decimal.Nil
  end.

Definition LONG_MAX : Z := 9223372036854775807%Z.
Definition LONG_MIN : Z := (-9223372036854775808)%Z.
Definition clamp_long (z : Z) : Z :=
  if (z <? LONG_MIN)%Z then LONG_MIN else if (LONG_MAX <? z)%Z then LONG_MAX else z.
Definition in_long (z : Z) : bool := (LONG_MIN <=? z)%Z && (z <=? LONG_MAX)%Z.

(* strTo<long>(s) = `std::istringstream in(s); long v; in >> v;` (libstdc++, C++11) on strings that
   passed isInteger/isNumeric-without-dot: optional sign, then the longest run of digits; no digit at
   all stores 0; overflow stores LONG_MAX / LONG_MIN.  (Leading white space would be skipped by the
   stream; such strings do not pass the guards and are not modelled.)  On the EMPTY string the
   stream's sentry fails before num_get runs and the variable stays uninitialised: callers that can
   pass the empty string (key_of_compound) model that case as MUndef under lm_empty_key_undefined;
   the value 0 given here is the one the repaired code never asks for. *)
Definition str_to_long (s : bytes) : Z :=
  match s with
  | c :: r =>
      if c =? c_minus then
        match scan_uint r with
        | Decimal.Nil => 0%Z
        | u => clamp_long (- Z.of_N (N.of_uint u))
        end
      else
        match scan_uint s with
        | Decimal.Nil => 0%Z
        | u => clamp_long (Z.of_N (N.of_uint u))
        end
  | [] => 0%Z
  end.

(* std::string::compare / std::less<std::string>: lexicographic on unsigned bytes *)
Fixpoint bytes_cmp (a b : bytes) : comparison :=
  match a, b with
  | [], [] => Eq
  | [], _ :: _ => Lt
  | _ :: _, [] => Gt
  | x :: a', y :: b' => match N.compare x y with Eq => bytes_cmp a' b' | c => c end
  end.

(* ------------------------------------------------------------------ std::map<std::string, X> *)
Section SMap.
  Context {X : Type}.
  Definition smap := list (bytes * X).
  (* m[k] = x *)
  Fixpoint smap_set (k : bytes) (x : X) (m : smap) : smap :=
    match m with
    | [] => [(k, x)]
    | (k', x') :: r =>
        match bytes_cmp k k' with
        | Lt => (k, x) :: m
        | Eq => (k, x) :: r
        | Gt => (k', x') :: smap_set k x r
        end
    end.
  (* m.insert(make_pair(k, x)): an existing entry is kept *)
  Fixpoint smap_insert (k : bytes) (x : X) (m : smap) : smap :=
    match m with
    | [] => [(k, x)]
    | (k', x') :: r =>
        match bytes_cmp k k' with
        | Lt => (k, x) :: m
        | Eq => m
        | Gt => (k', x') :: smap_insert k x r
        end
    end.
  Fixpoint smap_get (k : bytes) (m : smap) : option X :=
    match m with
    | [] => None
    | (k', x') :: r => if beq_bytes k k' then Some x' else smap_get k r
    end.
  (* std::map<long, X>::insert for the repaired array branch *)
  Fixpoint zmap_insert (k : Z) (x : X) (m : list (Z * X)) : list (Z * X) :=
    match m with
    | [] => [(k, x)]
    | (k', x') :: r =>
        match Z.compare k k' with
        | Lt => (k, x) :: m
        | Eq => m
        | Gt => (k', x') :: zmap_insert k x r
        end
    end.
  (* a std::map filled by insert() from a list of pairs *)
  Definition smap_of_list (l : list (bytes * X)) : smap :=
    fold_left (fun m kx => smap_insert (fst kx) (snd kx) m) l [].
End SMap.
Arguments smap : clear implicits.

(* ------------------------------------------------------------------ uscxml::Data *)
Inductive dtype := VERBATIM | INTERPRETED.

(* the members atom, type, array, compound (node and binary are outside the model) *)
Inductive data := Data (atom : bytes) (ty : dtype) (arr : list data) (comp : smap data).

Definition d_atom (d : data) := match d with Data a _ _ _ => a end.
Definition d_type (d : data) := match d with Data _ t _ _ => t end.
Definition d_arr (d : data) := match d with Data _ _ a _ => a end.
Definition d_comp (d : data) := match d with Data _ _ _ c => c end.

Definition atomV (s : bytes) : data := Data s VERBATIM [] [].
Definition atomI (s : bytes) : data := Data s INTERPRETED [] [].
Definition data_default : data := Data [] INTERPRETED [] [].          (* Data() *)

Definition s_nil : bytes := [110; 105; 108].                          (* "nil" *)
Definition s_true : bytes := [116; 114; 117; 101].                    (* "true" *)
Definition s_false : bytes := [102; 97; 108; 115; 101].               (* "false" *)
Definition data_nil : data := atomI s_nil.                            (* Data("nil", INTERPRETED) *)

(* Data::empty() *)
Definition data_empty (d : data) : bool :=
  match d with
  | Data [] _ [] [] => true
  | _ => false
  end.

Definition dtype_eqb (a b : dtype) : bool :=
  match a, b with VERBATIM, VERBATIM => true | INTERPRETED, INTERPRETED => true | _, _ => false end.

(* structural equality of Data: the oracle of C16 ("denotes the same value") *)
Fixpoint data_eqb (a b : data) : bool :=
  match a, b with
  | Data aa at_ ar ac, Data ba bt br bc =>
      beq_bytes aa ba && dtype_eqb at_ bt &&
      (fix arr_eqb (x : list data) (y : list data) : bool :=
         match x, y with
         | [], [] => true
         | p :: x', q :: y' => data_eqb p q && arr_eqb x' y'
         | _, _ => false
         end) ar br &&
      (fix comp_eqb (x : smap data) (y : smap data) : bool :=
         match x, y with
         | [], [] => true
         | (k, p) :: x', (l, q) :: y' => beq_bytes k l && data_eqb p q && comp_eqb x' y'
         | _, _ => false
         end) ac bc
  end.

(* ------------------------------------------------------------------ events *)
Inductive evtype := EvInternal | EvExternal | EvPlatform | EvOtherType.

Record event := {
  ev_name : bytes; ev_raw : bytes; ev_origin : bytes; ev_origintype : bytes; ev_invokeid : bytes;
  ev_sendid : bytes; ev_hide_sendid : bool; ev_type : evtype;
  ev_data : data;
  ev_params : list (bytes * data);   (* std::multimap: equal names in insertion order *)
  ev_namelist : smap data
}.

(* `Data d = event.data; d.compound[p.first] = p.second ...; d.compound[n.first] = n.second ...` *)
Definition merge_event_data (d : data) (params : list (bytes * data)) (namelist : smap data) : data :=
  match d with
  | Data a t ar c =>
      let c1 := fold_left (fun c kv => smap_set (fst kv) (snd kv) c) params c in
      let c2 := fold_left (fun c kv => smap_set (fst kv) (snd kv) c) namelist c1 in
      Data a t ar c2
  end.

Definition s_name : bytes := [110; 97; 109; 101].
Definition s_raw : bytes := [114; 97; 119].
Definition s_origin : bytes := [111; 114; 105; 103; 105; 110].
Definition s_origintype : bytes := [111; 114; 105; 103; 105; 110; 116; 121; 112; 101].
Definition s_invokeid : bytes := [105; 110; 118; 111; 107; 101; 105; 100].
Definition s_sendid : bytes := [115; 101; 110; 100; 105; 100].
Definition s_type : bytes := [116; 121; 112; 101].
Definition s_data : bytes := [100; 97; 116; 97].
Definition s_internal : bytes := [105; 110; 116; 101; 114; 110; 97; 108].
Definition s_external : bytes := [101; 120; 116; 101; 114; 110; 97; 108].
Definition s_platform : bytes := [112; 108; 97; 116; 102; 111; 114; 109].
Definition s_tmpAssign : bytes := [95; 95; 116; 109; 112; 65; 115; 115; 105; 103; 110].   (* "__tmpAssign" *)
Definition s_sv_event : bytes := [95; 101; 118; 101; 110; 116].
Definition s_sv_sessionid : bytes := [95; 115; 101; 115; 115; 105; 111; 110; 105; 100].
Definition s_sv_name : bytes := [95; 110; 97; 109; 101].
Definition s_sv_ioprocessors : bytes := [95; 105; 111; 112; 114; 111; 99; 101; 115; 115; 111; 114; 115].
Definition s_sv_invokers : bytes := [95; 105; 110; 118; 111; 107; 101; 114; 115].

(* the system variables the property names *)
Definition system_vars : list bytes := [s_sv_event; s_sv_sessionid; s_sv_name; s_sv_ioprocessors; s_sv_invokers].

(* boost::trim_copy (classic locale) *)
Fixpoint drop_spaces (s : bytes) : bytes :=
  match s with
  | c :: r => if isspace c then drop_spaces r else s
  | [] => []
  end.
Fixpoint trim_right (s : bytes) : bytes :=
  match s with
  | [] => []
  | c :: r => match trim_right r with
              | [] => if isspace c then [] else [c]
              | r' => c :: r'
              end
  end.
Definition trim (s : bytes) : bytes := trim_right (drop_spaces s).

(* isalnum(c) || c == '_' *)
Definition is_ident_char (c : N) : bool :=
  ((48 <=? c) && (c <=? 57)) || ((65 <=? c) && (c <=? 90)) || ((97 <=? c) && (c <=? 122)) || (c =? 95).

(* the repaired guard: [p] is a prefix of the trimmed location and is followed by the end or by a
   character that cannot continue an identifier *)
Definition prefix_guard (loc p : bytes) : bool :=
  let l := trim loc in
  is_prefix p l &&
  match nth_byte l (length p) with
  | None => true
  | Some c => negb (is_ident_char c)
  end.

(* the guards of LuaDataModel::assign, as regenerated from the source: exact comparison with each
   name (pinned) or the prefix test (repaired), per lua_guard_prefix *)
Definition is_protected (loc : bytes) : bool :=
  lua_guard_first &&
  existsb (fun p => if lua_guard_prefix then prefix_guard loc p else beq_bytes loc p) lua_protected.

(* ------------------------------------------------------------------ abstract values (the property's class) *)
Section LuaMarshal.

  (* IEEE doubles as used by the Lua VM and by C++ (trusted, outside the model) *)
  Variable F : Type.
  Variable str_to_double : bytes -> F.      (* strTo<double>: `istringstream >> double`, "C" locale *)
  Variable long_to_double : Z -> F.         (* (double) of a long / lua_Integer *)
  Variable double_to_str : F -> bytes.      (* toStr<double>: `ostringstream << double`, precision 16 *)

  Inductive lnum := NInt (z : Z) | NFlt (f : F).           (* Lua 5.3 number subtypes *)
  Inductive lkey := KInt (z : Z) | KStr (s : bytes).
  Inductive lua :=
  | LNil
  | LBool (b : bool)
  | LNum (n : lnum)
  | LStr (s : bytes)
  | LTable (t : list (lkey * lua)).    (* items in the order lua_next enumerates them *)

  Definition ltable := list (lkey * lua).
  Definition store := list (bytes * lua).     (* the Lua globals *)

  (* the Lua VM (trusted, outside the model) *)
  Variable lua_eval : store -> bytes -> option (list lua).
     (* luaEval(L, "return(" + atom + ");"): None = Lua error (rethrown as error.execution),
        Some vs = the returned values *)
  Variable lua_exec_assign : bytes -> store -> option store.
     (* luaEval(L, location + "= __tmpAssign") in a store in which __tmpAssign is set *)

  Definition is_lnil (l : lua) : bool := match l with LNil => true | _ => false end.

  Definition lkey_eqb (a b : lkey) : bool :=
    match a, b with
    | KInt x, KInt y => (x =? y)%Z
    | KStr x, KStr y => beq_bytes x y
    | _, _ => false
    end.

  Fixpoint tbl_get (k : lkey) (t : ltable) : lua :=
    match t with
    | [] => LNil
    | (k', v) :: r => if lkey_eqb k k' then v else tbl_get k r
    end.
  Fixpoint tbl_remove (k : lkey) (t : ltable) : ltable :=
    match t with
    | [] => []
    | (k', v) :: r => if lkey_eqb k k' then r else (k', v) :: tbl_remove k r
    end.
  Fixpoint tbl_replace (k : lkey) (v : lua) (t : ltable) : ltable :=
    match t with
    | [] => [(k, v)]
    | (k', v') :: r => if lkey_eqb k k' then (k, v) :: r else (k', v') :: tbl_replace k v r
    end.
  (* t[k] = v *)
  Definition tbl_set (k : lkey) (v : lua) (t : ltable) : ltable :=
    if is_lnil v then tbl_remove k t else tbl_replace k v t.
  (* LuaRef::append = luaL_ref(L, t): nil is not stored; otherwise t[#t + 1] = v.  Only used on
     tables built by append alone, whose border is their number of items. *)
  Definition tbl_append (v : lua) (t : ltable) : ltable :=
    if is_lnil v then t else t ++ [(KInt (Z.of_nat (length t) + 1), v)].

  Fixpoint store_get (k : bytes) (g : store) : lua :=
    match g with
    | [] => LNil
    | (k', v) :: r => if beq_bytes k k' then v else store_get k r
    end.
  Fixpoint store_remove (k : bytes) (g : store) : store :=
    match g with
    | [] => []
    | (k', v) :: r => if beq_bytes k k' then store_remove k r else (k', v) :: store_remove k r
    end.
  (* luabridge::setGlobal *)
  Definition store_set (k : bytes) (v : lua) (g : store) : store :=
    if is_lnil v then store_remove k g else (k, v) :: store_remove k g.

  (* ---------------------------------------------------------------- getLuaAsData *)
  Definition num_to_str (vr : lm_variant) (n : lnum) : bytes :=
    match n with
    | NInt z => if lm_int_via_double vr then double_to_str (long_to_double z) else dec_of_Z z
    | NFlt f => double_to_str f
    end.

  (* luaKey.cast<std::string>() *)
  Definition key_tostring (k : lkey) : bytes :=
    match k with KInt z => dec_of_Z z | KStr s => s end.
  (* luaKey.isNumber() && luaKey.cast<long>() > 0 *)
  Definition key_is_pos (k : lkey) : bool :=
    match k with KInt z => (0 <? z)%Z | KStr _ => false end.
  Definition key_int (k : lkey) : Z := match k with KInt z => z | KStr s => str_to_long s end.

  (* the second loop of the table branch for isArray: `while (currIndex > lastIndex + 1) push nil` *)
  Fixpoint fill_array (last : Z) (items : list (Z * data)) : list data :=
    match items with
    | [] => []
    | (cur, d) :: r =>
        let pad := Z.to_nat (cur - (last + 1)) in
        repeat data_nil pad ++ d :: fill_array (last + Z.of_nat pad + 1) r
    end.

  Definition table_as_data (vr : lm_variant) (items : list (lkey * data)) : data :=
    let is_array := forallb (fun kd => key_is_pos (fst kd)) items in
    let by_text := fold_left (fun m kd => smap_insert (key_tostring (fst kd)) (snd kd) m) items [] in
    if is_array then
      if lm_keys_sorted_as_text vr then
        (* strTo<size_t>(item.first) on the text of a positive integer key *)
        Data [] INTERPRETED (fill_array 0 (map (fun kd => (str_to_long (fst kd), snd kd)) by_text)) []
      else
        let by_int := fold_left (fun m kd => zmap_insert (key_int (fst kd)) (snd kd) m) items [] in
        Data [] INTERPRETED (fill_array 0 by_int) []
    else Data [] INTERPRETED [] by_text.

  Fixpoint get_lua_as_data (vr : lm_variant) (l : lua) : data :=
    match l with
    | LNil => data_nil
    | LBool true => atomI s_true
    | LBool false => atomI s_false
    | LNum n => atomI (num_to_str vr n)
    | LStr s => atomV s
    | LTable t =>
        table_as_data vr
          ((fix conv (t : list (lkey * lua)) : list (lkey * data) :=
              match t with
              | [] => []
              | (k, v) :: r => (k, get_lua_as_data vr v) :: conv r
              end) t)
    end.

  (* ---------------------------------------------------------------- getDataAsLua *)
  (* `isInteger(key) && strTo<long>(key) > 0 ? luaData[strTo<long>(key)] : luaData[key]` *)
  Definition key_of_compound (vr : lm_variant) (k : bytes) : lkey :=
    if is_integer (lm_sign_anywhere vr) k && (0 <? str_to_long k)%Z then KInt (str_to_long k) else KStr k.
  (* the key for which that test reads an uninitialised long *)
  Definition key_undefined (vr : lm_variant) (k : bytes) : bool :=
    lm_empty_key_undefined vr && match k with [] => true | _ => false end.

  Definition atom_as_lua (vr : lm_variant) (g : store) (a : bytes) (t : dtype) : mres lua :=
    match t with
    | VERBATIM => MOk (LStr a)
    | INTERPRETED =>
        if is_numeric (lm_sign_anywhere vr) a then
          if contains_dot a then MOk (LNum (NFlt (str_to_double a)))
          else MOk (LNum (NInt (str_to_long a)))
        else
          match lua_eval g a with
          | None => MErr                        (* ERROR_EXECUTION_THROW(errMsg) *)
          | Some [v] => MOk v                   (* retVals == 1 *)
          | Some _ => MOk LNil
          end
    end.

  Definition atom_branch_taken (vr : lm_variant) (a : bytes) (t : dtype) : bool :=
    match a with
    | _ :: _ => true
    | [] => if lm_empty_atom_is_nil vr then false
            else match t with VERBATIM => true | INTERPRETED => false end
    end.

  Fixpoint get_data_as_lua (vr : lm_variant) (g : store) (d : data) : mres lua :=
    match d with
    | Data a t ar c =>
        match c with
        | _ :: _ =>
            (fix go (c : smap data) (acc : ltable) : mres lua :=
               match c with
               | [] => MOk (LTable acc)
               | (k, x) :: r =>
                   if key_undefined vr k then MUndef
                   else
                     match get_data_as_lua vr g x with
                     | MOk lx => go r (tbl_set (key_of_compound vr k) lx acc)
                     | MErr => MErr
                     | MUndef => MUndef
                     end
               end) c []
        | [] =>
            match ar with
            | _ :: _ =>
                (fix go (ar : list data) (acc : ltable) : mres lua :=
                   match ar with
                   | [] => MOk (LTable acc)
                   | x :: r =>
                       match get_data_as_lua vr g x with
                       | MOk lx => go r (tbl_append lx acc)
                       | MErr => MErr
                       | MUndef => MUndef
                       end
                   end) ar []
            | [] =>
                if atom_branch_taken vr a t then atom_as_lua vr g a t else MOk LNil
            end
        end
    end.

  (* ---------------------------------------------------------------- setEvent *)
  Definition set_if_nonempty (k : bytes) (s : bytes) (t : ltable) : ltable :=
    match s with [] => t | _ => tbl_set (KStr k) (LStr s) t end.

  (* `if (!d.empty())`; the repaired code also lets the empty VERBATIM string through *)
  Definition data_absent (vr : lm_variant) (d : data) : bool :=
    data_empty d &&
    (lm_empty_atom_is_nil vr || match d_type d with VERBATIM => false | INTERPRETED => true end).

  (* the members of _event other than data *)
  Definition event_header (e : event) : ltable :=
    let t0 := tbl_set (KStr s_name) (LStr (ev_name e)) [] in
    let t1 := set_if_nonempty s_raw (ev_raw e) t0 in
    let t2 := set_if_nonempty s_origin (ev_origin e) t1 in
    let t3 := set_if_nonempty s_origintype (ev_origintype e) t2 in
    let t4 := set_if_nonempty s_invokeid (ev_invokeid e) t3 in
    let t5 := if ev_hide_sendid e then t4 else tbl_set (KStr s_sendid) (LStr (ev_sendid e)) t4 in
    match ev_type e with
    | EvInternal => tbl_set (KStr s_type) (LStr s_internal) t5
    | EvExternal => tbl_set (KStr s_type) (LStr s_external) t5
    | EvPlatform => tbl_set (KStr s_type) (LStr s_platform) t5
    | EvOtherType => t5
    end.

  (* the table stored in the global _event *)
  Definition set_event (vr : lm_variant) (g : store) (e : event) : mres ltable :=
    let d := merge_event_data (ev_data e) (ev_params e) (ev_namelist e) in
    if data_absent vr d then MOk (event_header e)
    else match get_data_as_lua vr g d with
         | MOk l => MOk (tbl_set (KStr s_data) l (event_header e))
         | MErr => MErr
         | MUndef => MUndef
         end.

  (* ---------------------------------------------------------------- assign / init *)
  Inductive dm_result :=
  | DmOk (g : store)
  | DmError (g : store)       (* an error.execution was thrown; [g] is the store left behind *)
  | DmUndef.

  Definition dm_assign (vr : lm_variant) (loc : bytes) (d : data) (g : store) : dm_result :=
    match loc with
    | [] => DmError g
    | _ =>
        if is_protected loc then DmError g
        else
          match get_data_as_lua vr g d with
          | MErr => DmError g
          | MUndef => DmUndef
          | MOk l =>
              let g1 := store_set s_tmpAssign l g in
              match lua_exec_assign loc g1 with
              | None => DmError g1
              | Some g2 => DmOk g2
              end
          end
    end.

  (* `setGlobal(L, Nil(), location); assign(location, data);` -- lua_init_clears_first (regenerated
     from the source) says whether the global is cleared before any protected-name guard ran *)
  Definition dm_init (vr : lm_variant) (loc : bytes) (d : data) (g : store) : dm_result :=
    if lua_init_clears_first then dm_assign vr loc d (store_set loc LNil g)
    else if is_protected loc then DmError g
    else dm_assign vr loc d (store_set loc LNil g).

  (* ---------------------------------------------------------------- the property's value class *)
  Inductive value :=
  | VStr (s : bytes)
  | VNum (n : lnum)
  | VBool (b : bool)
  | VArr (l : list value)
  | VMap (kvs : list (bytes * value)).

  (* the Data a value is presented as (event payload, Data handed to assign) *)
  Fixpoint embed (v : value) : data :=
    match v with
    | VStr s => atomV s
    | VNum (NInt z) => atomI (dec_of_Z z)
    | VNum (NFlt f) => atomI (double_to_str f)
    | VBool true => atomI s_true
    | VBool false => atomI s_false
    | VArr l => Data [] INTERPRETED (map embed l) []
    | VMap kvs =>
        Data [] INTERPRETED []
          (smap_of_list
             ((fix emb (kvs : list (bytes * value)) : list (bytes * data) :=
                 match kvs with
                 | [] => []
                 | (k, x) :: r => (k, embed x) :: emb r
                 end) kvs))
    end.

  (* the Lua value a literal rendering of the value evaluates to (param / namelist / assign / data
     with an expression): arrays as sequences, maps with string keys *)
  Fixpoint lua_of_value (v : value) : lua :=
    match v with
    | VStr s => LStr s
    | VNum n => LNum n
    | VBool b => LBool b
    | VArr l =>
        LTable ((fix seqt (i : Z) (l : list value) : ltable :=
                   match l with
                   | [] => []
                   | x :: r => (KInt i, lua_of_value x) :: seqt (i + 1)%Z r
                   end) 1%Z l)
    | VMap kvs =>
        LTable ((fix mapt (kvs : list (bytes * value)) : ltable :=
                   match kvs with
                   | [] => []
                   | (k, x) :: r => (KStr k, lua_of_value x) :: mapt r
                   end) kvs)
    end.

  (* which doubles print and re-read stably (trusted classification of the oracle) *)
  Variable F_stable : F -> bool.

  (* a number-like key: a decimal numeral -- an optional leading '-', digits with at most one '.',
     at least one digit.  ("1-2", "--1", "1.2.3", "-", "." and the empty key are not numbers.) *)
  Definition key_numeric (k : bytes) : bool :=
    is_numeric_strict k && existsb is_digit k.
  (* the keys the pinned helpers take for numbers although they are not: made of the characters
     ".-0123456789" only *)
  Definition key_numeric_anywhere (k : bytes) : bool :=
    match k with [] => false | _ => is_numeric_anywhere k end.

  Fixpoint keys_distinct (ks : list bytes) : bool :=
    match ks with
    | [] => true
    | k :: r => negb (existsb (fun k' => beq_bytes k k') r) && keys_distinct r
    end.

  (* "any value that Lua can represent unambiguously - strings (including empty and number-like
     ones), numbers, booleans, arrays and maps with non-numeric keys, arbitrarily nested":
     integers of the lua_Integer range, doubles the oracle classifies as stable, non-empty arrays,
     non-empty maps with pairwise distinct keys none of which is number-like *)
  Fixpoint unambiguous (v : value) : bool :=
    match v with
    | VStr _ => true
    | VNum (NInt z) => in_long z
    | VNum (NFlt f) => F_stable f
    | VBool _ => true
    | VArr l =>
        match l with [] => false | _ => true end &&
        (fix all (l : list value) : bool :=
           match l with [] => true | x :: r => unambiguous x && all r end) l
    | VMap kvs =>
        match kvs with [] => false | _ => true end &&
        keys_distinct (map fst kvs) &&
        (fix all (kvs : list (bytes * value)) : bool :=
           match kvs with
           | [] => true
           | (k, x) :: r => negb (key_numeric k) && unambiguous x && all r
           end) kvs
    end.

  (* the restrictions under which the pinned code still satisfies the statement *)
  Definition TWO53 : Z := 9007199254740992%Z.
  Fixpoint variant_ok (vr : lm_variant) (v : value) : bool :=
    match v with
    | VStr s => negb (lm_empty_atom_is_nil vr) || match s with [] => false | _ => true end
    | VNum (NInt z) => negb (lm_int_via_double vr) || ((- TWO53 <=? z)%Z && (z <=? TWO53)%Z)
    | VNum (NFlt _) => true
    | VBool _ => true
    | VArr l =>
        (negb (lm_keys_sorted_as_text vr) || (length l <? 10)%nat) &&
        (fix all (l : list value) : bool :=
           match l with [] => true | x :: r => variant_ok vr x && all r end) l
    | VMap kvs =>
        (fix all (kvs : list (bytes * value)) : bool :=
           match kvs with
           | [] => true
           | (k, x) :: r =>
               negb (key_undefined vr k) &&
               (negb (lm_sign_anywhere vr) || negb (key_numeric_anywhere k)) &&
               variant_ok vr x && all r
           end) kvs
    end.

  (* ---------------------------------------------------------------- ways in and out *)
  (* The charts built by harness/vd_lua.cpp, as compositions of the functions above.
     A way in leaves a Lua value in the global `w`; a way out reads it back as Data. *)
  Inductive way_in :=
  | InPayload        (* external event carrying `embed v`; `<assign location="w" expr="_event.data"/>` *)
  | InParam          (* <send><param name="p" expr="LITERAL"/>; w = _event.data.p *)
  | InNamelist       (* <data id="nl" expr="LITERAL"/>, <send namelist="nl"/>; w = _event.data.nl *)
  | InAssign         (* <assign location="w" expr="LITERAL"/> *)
  | InData           (* <data id="w" expr="LITERAL"/> *)
  | InAssignData.    (* DataModel::assign("w", embed v) through the C++ interface *)
  Inductive way_out :=
  | OutExpr          (* evalAsData("w") *)
  | OutSend          (* <send><param name="q" expr="w"/>: the params of the event as sent *)
  | OutEventData     (* ... and evalAsData("_event.data.q") when it is processed *)
  | OutDoneSend      (* <donedata><param name="q" expr="w"/>: the params of done.state.* *)
  | OutDoneEventData.

  Definition s_p : bytes := [112].
  Definition s_q : bytes := [113].
  Definition s_nl : bytes := [110; 108].
  Definition s_in : bytes := [105; 110].
  Definition s_out : bytes := [111; 117; 116].

  Definition mk_event (name : bytes) (ty : evtype) (d : data) (ps : list (bytes * data)) (nl : smap data) : event :=
    {| ev_name := name; ev_raw := []; ev_origin := []; ev_origintype := []; ev_invokeid := [];
       ev_sendid := []; ev_hide_sendid := true; ev_type := ty; ev_data := d; ev_params := ps;
       ev_namelist := nl |}.

  Definition mbind {A B : Type} (m : mres A) (f : A -> mres B) : mres B :=
    match m with MOk a => f a | MErr => MErr | MUndef => MUndef end.

  (* the Lua value of `_event.data` after setEvent; `_event.data.<k>` (indexing a non-table: MErr) *)
  Definition event_data_of (vr : lm_variant) (g : store) (e : event) : mres lua :=
    mbind (set_event vr g e) (fun t => MOk (tbl_get (KStr s_data) t)).
  Definition field_of (l : lua) (k : bytes) : mres lua :=
    match l with
    | LTable t => MOk (tbl_get (KStr k) t)
    | _ => MErr
    end.

  (* [lit_text] = the Lua source text of the literal, [lit] = the Lua value it denotes (what
     luaEval("return(" + lit_text + ")") yields), [d] = the Data presented.
     evalAsData(expr) always goes through the Lua VM; <assign expr> and <data expr> hand
     Data(expr, INTERPRETED) to assign(), i.e. to getDataAsLua's atom branch, which by-passes the VM
     for texts that pass isNumeric. *)
  Definition run_way_in (vr : lm_variant) (g : store) (wi : way_in) (lit_text : bytes) (lit : lua) (d : data) : mres lua :=
    match wi with
    | InPayload => event_data_of vr g (mk_event s_in EvExternal d [] [])
    | InParam =>
        mbind (event_data_of vr g (mk_event s_in EvExternal data_default [(s_p, get_lua_as_data vr lit)] []))
              (fun l => field_of l s_p)
    | InNamelist =>
        mbind (get_data_as_lua vr g (atomI lit_text)) (fun l0 =>
        mbind (event_data_of vr g (mk_event s_in EvExternal data_default [] [(s_nl, get_lua_as_data vr l0)]))
              (fun l => field_of l s_nl))
    | InAssign => get_data_as_lua vr g (atomI lit_text)
    | InData => get_data_as_lua vr g (atomI lit_text)
    | InAssignData => get_data_as_lua vr g d
    end.

  Definition run_way_out (vr : lm_variant) (g : store) (wo : way_out) (w : lua) : mres data :=
    match wo with
    | OutExpr | OutSend | OutDoneSend => MOk (get_lua_as_data vr w)
    | OutEventData | OutDoneEventData =>
        mbind (event_data_of vr g (mk_event s_out EvExternal data_default [(s_q, get_lua_as_data vr w)] []))
              (fun l => mbind (field_of l s_q) (fun x => MOk (get_lua_as_data vr x)))
    end.

  Definition run_ways (vr : lm_variant) (g : store) (wi : way_in) (wo : way_out) (lit_text : bytes) (lit : lua) (d : data) : mres data :=
    mbind (run_way_in vr g wi lit_text lit d) (run_way_out vr g wo).

End LuaMarshal.
