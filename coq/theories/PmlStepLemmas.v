(* PmlStepLemmas.v -- proofs about PmlStep.v (the step process ChartToPromela emits):
   1. the process has one execution (pml_deterministic_lemma),
   2. an observation that ended before the step bound does not depend on the bound (pml_fuel_enough),
   3. the statement "the emitted model behaves as the interpreter" and its refutation by one witness chart
      per confirmed deviation of the template (corpus/c06.json holds the same charts),
   4. where the transcription coincides: SELECT_TRANSITIONS selects what FastMicroStep selects. *)
From V Require Import Base NameMatch NameMatchLemmas Chart Exec Large Interp Fast Trie TrieLemmas PmlStep.
Local Open Scope nat_scope.

(* ================================================================== 1. determinism ================== *)
(* The emitted process is `proctype ROOT_step() { atomic { do :: !flags[FINISHED] -> { <dequeue> d_step { ... } } :: else -> break od; ... } }`,
   started once by `init`.  Inside d_step spin takes the first executable option, so that part is the
   function pml_dstep.  Outside d_step an `if` may take ANY option whose guard holds (`else`: no other
   guard holds); the relation below gives every option of writeFSMDequeueEvent its guard as a premise. *)
Section Determinism.
Variable pv : pml_variant.
Variable c : fchart.
Variable iqcap eqcap : nat.

Inductive dequeue_rel (s : pstate) : option (option bytes * pstate) -> Prop :=
| DqSpont :                                   (* :: flags[SPONTANEOUS] -> *)
    p_spont s = true -> dequeue_rel s (Some (None, out PSpont s))
| DqInternal e r :                            (* :: else -> if :: len(iQ) != 0 -> iQ ? _event *)
    p_spont s = false -> p_iq s = e :: r -> dequeue_rel s (Some (Some e, out PDeqInt (set_iq r s)))
| DqExternal e r :                            (* :: else -> DEQUEUE_EXTERNAL; if :: len(eQ) != 0 -> eQ ? _event fi *)
    p_spont s = false -> p_iq s = [] -> p_eq s = e :: r -> dequeue_rel s (Some (Some e, out PDeqExt (set_eq r s)))
| DqBlocked :                                 (* no executable option: the process blocks *)
    p_spont s = false -> p_iq s = [] -> p_eq s = [] -> dequeue_rel s None.

Inductive iter_rel (s : pstate) : pstate * pstatus -> Prop :=
| ItBlocked : dequeue_rel (out PStep s) None -> iter_rel s (out PTimeout (out PStep s), PBlocked)
| ItStep ev s1 : dequeue_rel (out PStep s) (Some (ev, s1)) -> iter_rel s (pml_dstep pv c iqcap eqcap ev s1).

(* the `do` loop, observed for at most [fuel] iterations *)
Inductive exec_rel : nat -> pstate -> pstate * pstatus -> Prop :=
| ExFinished fuel s : p_fin s = true -> exec_rel fuel s (p_terminate pv c iqcap eqcap s, PTerminated)
| ExLimit s : p_fin s = false -> exec_rel 0 s (out PLimit s, POutOfFuel)
| ExStop fuel s s1 r : p_fin s = false -> iter_rel s (s1, r) -> r <> PRunning -> exec_rel (S fuel) s (s1, r)
| ExGo fuel s s1 res : p_fin s = false -> iter_rel s (s1, PRunning) -> exec_rel fuel s1 res -> exec_rel (S fuel) s res.

Lemma dequeue_rel_fun s r : dequeue_rel s r <-> r = pml_dequeue s.
Proof.
  unfold pml_dequeue. split.
  - intros H. destruct H as [H|e r H1 H2|e r H1 H2 H3|H1 H2 H3];
      try rewrite H; try rewrite H1; try rewrite H2; try rewrite H3; reflexivity.
  - intros ->. destruct (p_spont s) eqn:S1; [now constructor|].
    destruct (p_iq s) as [|e r] eqn:S2.
    + destruct (p_eq s) as [|e r] eqn:S3; [now apply DqBlocked|now apply DqExternal].
    + now apply DqInternal.
Qed.

Lemma iter_rel_fun s r : iter_rel s r <-> r = pml_iter pv c iqcap eqcap s.
Proof.
  unfold pml_iter. split.
  - intros H. destruct H as [H|ev s1 H]; apply dequeue_rel_fun in H; rewrite <- H; reflexivity.
  - intros ->. destruct (pml_dequeue (out PStep s)) as [[ev s1]|] eqn:E.
    + apply ItStep. apply dequeue_rel_fun. now symmetry.
    + apply ItBlocked. apply dequeue_rel_fun. now symmetry.
Qed.

Lemma exec_rel_fun fuel : forall s r, exec_rel fuel s r <-> r = pml_loop pv c iqcap eqcap fuel s.
Proof.
  induction fuel as [|f IH]; intros s r; split.
  - intros H. inversion H as [f' s' F|s' F| |]; subst; cbn [pml_loop]; rewrite F; reflexivity.
  - intros ->. cbn [pml_loop]. destruct (p_fin s) eqn:F; [now apply ExFinished|now apply ExLimit].
  - intros H. inversion H as [f' s' F| |f' s' s1 r1 F I N|f' s' s1 res F I E]; subst; cbn [pml_loop]; rewrite F.
    + reflexivity.
    + apply iter_rel_fun in I. rewrite <- I. destruct r1; try reflexivity. contradiction.
    + apply iter_rel_fun in I. rewrite <- I. now apply IH.
  - intros ->. cbn [pml_loop]. destruct (p_fin s) eqn:F; [now apply ExFinished|].
    destruct (pml_iter pv c iqcap eqcap s) as [s1 r1] eqn:E.
    assert (I : iter_rel s (s1, r1)) by (apply iter_rel_fun; now symmetry).
    destruct r1; try (apply ExStop; [exact F|exact I|discriminate]).
    eapply ExGo; [exact F|exact I|]. now apply IH.
Qed.

(* one execution: whatever options are chosen, the observation is the same, and it is the one pml_loop computes *)
Lemma pml_deterministic_lemma fuel s r1 r2 :
  exec_rel fuel s r1 -> exec_rel fuel s r2 -> r1 = r2.
Proof. intros H1 H2. apply exec_rel_fun in H1, H2. congruence. Qed.

Lemma pml_exec_exists fuel s : exec_rel fuel s (pml_loop pv c iqcap eqcap fuel s).
Proof. now apply exec_rel_fun. Qed.

(* ================================================================== 2. the step bound ================== *)
(* an observation that did not run into the bound is the same under every larger bound *)
Lemma pml_fuel_enough f1 : forall f2 s,
  f1 <= f2 -> snd (pml_loop pv c iqcap eqcap f1 s) <> POutOfFuel ->
  pml_loop pv c iqcap eqcap f2 s = pml_loop pv c iqcap eqcap f1 s.
Proof.
  induction f1 as [|f IH]; intros f2 s Hle Hne.
  - cbn [pml_loop] in *. destruct (p_fin s) eqn:F.
    + destruct f2; cbn [pml_loop]; rewrite F; reflexivity.
    + cbn in Hne. contradiction.
  - destruct f2 as [|g]; [lia|]. cbn [pml_loop] in *. destruct (p_fin s); [reflexivity|].
    destruct (pml_iter pv c iqcap eqcap s) as [s1 r1]. destruct r1; try reflexivity.
    apply IH; [lia|exact Hne].
Qed.
End Determinism.

(* ================================================================== 3. the statement and its refutation ========= *)
Definition vtok_eqb (a b : vtok) : bool :=
  match a, b with
  | VEv x, VEv y => beq_bytes x y
  | VMsB, VMsB | VMsE, VMsE | VFin, VFin => true
  | VCfg x, VCfg y => (length x =? length y) && forallb (fun p => (fst p =? snd p)%N) (combine x y)
  | VExit x, VExit y | VTrans x, VTrans y | VEnter x, VEnter y => (x =? y)%N
  | VLog x, VLog y => (x =? y)%Z
  | _, _ => false
  end.
Fixpoint vlist_eqb (a b : list vtok) : bool :=
  match a, b with
  | [], [] => true
  | x :: a', y :: b' => vtok_eqb x y && vlist_eqb a' b'
  | _, _ => false
  end.
Fixpoint vlist_prefixb (a b : list vtok) : bool :=
  match a, b with
  | [], _ => true
  | x :: a', y :: b' => vtok_eqb x y && vlist_prefixb a' b'
  | _ :: _, [] => false
  end.

Lemma vtok_eqb_refl a : vtok_eqb a a = true.
Proof.
  destruct a; cbn; try reflexivity; try apply beq_bytes_refl; try apply N.eqb_refl; try apply Z.eqb_refl.
  rewrite Nat.eqb_refl. cbn. induction sids as [|x l IH]; cbn; [reflexivity|]. now rewrite N.eqb_refl.
Qed.
Lemma vlist_eqb_refl a : vlist_eqb a a = true.
Proof. induction a as [|x a IH]; cbn; [reflexivity|]. now rewrite vtok_eqb_refl. Qed.

(* a run of the interpreter model is complete when it went idle with empty queues or finished *)
Definition fast_complete (l : list tok) : bool :=
  existsb (fun t => match t with TRet k => (k =? RC_IDLE)%N || (k =? RC_FINISHED)%N | _ => false end) l.
Definition pml_complete (r : pstatus) : bool := match r with PTerminated | PBlocked => true | _ => false end.

(* the emitted model, observed completely, shows the behaviour of the interpreter (fast engine model; C03 relates the engines) *)
Definition behaviour_preserved (pv : pml_variant) (t : tree) (iq eq fp ff : nat) : Prop :=
  let r := pml_run_tree pv t iq eq fp in
  let ft := fst (run_fast ex_fixed false t [] ff) in
  pml_complete (snd r) = true -> fast_complete ft = true ->
  vlist_eqb (pview (flatten false t) (fst r)) (fview ft) = true.

(* ... and an observation cut by the step bound is a prefix of it *)
Definition behaviour_prefix (pv : pml_variant) (t : tree) (iq eq fp ff : nat) : Prop :=
  let r := pml_run_tree pv t iq eq fp in
  let ft := fst (run_fast ex_fixed false t [] ff) in
  snd r = POutOfFuel -> fast_complete ft = true ->
  vlist_prefixb (pview (flatten false t) (fst r)) (fview ft) = true.

Local Open Scope N_scope.
(* in-predicate: cond="config[s2]" in s1: the interpreter stays in s1, the emitted model takes the transition *)
Definition w_in_predicate : tree :=
  TNode KScxml 0 None [] [] [] []
    [
      TNode KState 1 None [{| tt_vid := 101; tt_event := None; tt_cond := Some (BIn 2); tt_targets := Some [2]; tt_internal := false; tt_body := [] |}] [] [] []
        [];

      TNode KState 2 None [] [[(ILog 102 (INum (7)%Z))]] [] []
        []].

(* initial-deep-target: <initial> transition to a grand-child: the state in between is not entered *)
Definition w_initial_deep_target : tree :=
  TNode KScxml 0 None [] [] [] []
    [
      TNode KState 1 None [] [] [] []
        [
          TNode KInitial 9 None [{| tt_vid := 101; tt_event := None; tt_cond := None; tt_targets := Some [3]; tt_internal := false; tt_body := [] |}] [] [] []
            [];

          TNode KState 2 None [] [] [] []
            [
              TNode KState 3 None [] [] [] []
                []];

          TNode KState 4 None [] [] [] []
            []]].

(* initial-attribute-deep: initial="s4" with s4 a grand-child: s2 is not entered *)
Definition w_initial_attribute_deep : tree :=
  TNode KScxml 0 None [] [] [] []
    [
      TNode KState 1 (Some [4]) [] [] [] []
        [
          TNode KState 2 None [] [] [] []
            [
              TNode KState 3 None [] [] [] []
                [];

              TNode KState 4 None [{| tt_vid := 101; tt_event := Some [122; 122]; tt_cond := None; tt_targets := Some [3]; tt_internal := false; tt_body := [] |}] [] [] []
                []]]].

(* history-active-parent: a1 -> history of its active parent a, nothing recorded: the default transition is not taken, {scxml, a} remains *)
Definition w_history_active_parent : tree :=
  TNode KScxml 0 None [] [] [] []
    [
      TNode KState 1 None [] [] [] []
        [
          TNode KHistShallow 9 None [{| tt_vid := 103; tt_event := None; tt_cond := None; tt_targets := Some [3]; tt_internal := false; tt_body := [] |}] [] [] []
            [];

          TNode KState 2 None [{| tt_vid := 101; tt_event := Some [101]; tt_cond := None; tt_targets := Some [9]; tt_internal := false; tt_body := [] |}] [[(IRaise 104 [101])]] [] []
            [];

          TNode KState 3 None [] [] [] []
            []]].

(* shallow-history-nested: shallow history of a restores a1; a1 is then completed by its default, not by its own history *)
Definition w_shallow_history_nested : tree :=
  TNode KScxml 0 None [] [] [] []
    [
      TNode KState 7 None [{| tt_vid := 104; tt_event := None; tt_cond := None; tt_targets := Some [1]; tt_internal := false; tt_body := [] |}] [[(IRaise 120 [97]); (IRaise 121 [98]); (IRaise 122 [99])]] [] []
        [];

      TNode KState 1 None [] [] [] []
        [
          TNode KHistShallow 8 None [{| tt_vid := 110; tt_event := None; tt_cond := None; tt_targets := Some [2]; tt_internal := false; tt_body := [] |}] [] [] []
            [];

          TNode KState 2 None [] [] [] []
            [
              TNode KHistShallow 9 None [{| tt_vid := 111; tt_event := None; tt_cond := None; tt_targets := Some [3]; tt_internal := false; tt_body := [] |}] [] [] []
                [];

              TNode KState 3 None [{| tt_vid := 101; tt_event := Some [97]; tt_cond := None; tt_targets := Some [4]; tt_internal := false; tt_body := [] |}] [] [] []
                [];

              TNode KState 4 None [{| tt_vid := 102; tt_event := Some [98]; tt_cond := None; tt_targets := Some [6]; tt_internal := false; tt_body := [] |}] [] [] []
                []];

          TNode KState 5 None [] [] [] []
            []];

      TNode KState 6 None [{| tt_vid := 103; tt_event := Some [99]; tt_cond := None; tt_targets := Some [8]; tt_internal := false; tt_body := [] |}] [] [] []
        []].

(* star-in-descriptor-list: event="f *": the wildcard inside a list of descriptors is looked up as the name "*" *)
Definition w_star_in_descriptor_list : tree :=
  TNode KScxml 0 None [] [] [] []
    [
      TNode KState 1 None [{| tt_vid := 101; tt_event := Some [102; 32; 42]; tt_cond := None; tt_targets := Some [2]; tt_internal := false; tt_body := [] |}] [[(IRaise 102 [101])]] [] []
        [];

      TNode KState 2 None [] [] [] []
        []].

(* history-below-deep-history: history of a1 below the deep history of a: its completion is empty, it never restores *)
Definition w_history_below_deep_history : tree :=
  TNode KScxml 0 None [] [] [] []
    [
      TNode KState 7 None [{| tt_vid := 104; tt_event := None; tt_cond := None; tt_targets := Some [1]; tt_internal := false; tt_body := [] |}] [[(IRaise 120 [97]); (IRaise 121 [98]); (IRaise 122 [99])]] [] []
        [];

      TNode KState 1 None [] [] [] []
        [
          TNode KHistDeep 8 None [{| tt_vid := 110; tt_event := None; tt_cond := None; tt_targets := Some [2]; tt_internal := false; tt_body := [] |}] [] [] []
            [];

          TNode KState 2 None [] [] [] []
            [
              TNode KHistShallow 9 None [{| tt_vid := 111; tt_event := None; tt_cond := None; tt_targets := Some [3]; tt_internal := false; tt_body := [] |}] [] [] []
                [];

              TNode KState 3 None [{| tt_vid := 101; tt_event := Some [97]; tt_cond := None; tt_targets := Some [4]; tt_internal := false; tt_body := [] |}] [] [] []
                [];

              TNode KState 4 None [{| tt_vid := 102; tt_event := Some [98]; tt_cond := None; tt_targets := Some [6]; tt_internal := false; tt_body := [] |}] [] [] []
                []];

          TNode KState 5 None [] [] [] []
            []];

      TNode KState 6 None [{| tt_vid := 103; tt_event := Some [99]; tt_cond := None; tt_targets := Some [9]; tt_internal := false; tt_body := [] |}] [] [] []
        []].

(* no-transitions: document without transitions: TRANSITION_FOUND stays set, the model takes empty microsteps for ever *)
Definition w_no_transitions : tree :=
  TNode KScxml 0 None [] [] [] []
    [
      TNode KState 1 None [] [[(ILog 101 (INum (1)%Z))]] [] []
        []].

(* cond-top-level-or: cond="Var1 < 0 || 0 < Var2" on a transition for event e: event g takes it, because the cond is written into the && chain without parentheses *)
Definition w_cond_top_level_or : tree :=
  TNode KScxml 0 None [] [] [] [(1, (INum (0)%Z)); (2, (INum (1)%Z))]
    [
      TNode KState 1 None [{| tt_vid := 101; tt_event := Some [101]; tt_cond := Some (BOr (BLt (IVar 1) (INum (0)%Z)) (BLt (INum (0)%Z) (IVar 2))); tt_targets := Some [2]; tt_internal := false; tt_body := [] |}] [[(IRaise 102 [103])]] [] []
        [];

      TNode KState 2 None [] [] [] []
        []].

(* restored-without-ancestors: s4 -> deep history of its active ancestor s1: the shallow history of s2 has just recorded s3 into the shared history array, so the deep history looks recorded and restores s3 without s2; FastMicroStep adds the ancestors of s3's completion and so enters s2, the emitted model does not *)
Definition w_restored_without_ancestors : tree :=
  TNode KScxml 0 None [] [] [] []
    [
      TNode KState 1 None [] [[(IRaise 120 [101])]] [] []
        [
          TNode KHistDeep 8 None [{| tt_vid := 110; tt_event := None; tt_cond := None; tt_targets := Some [2]; tt_internal := false; tt_body := [] |}] [] [] []
            [];

          TNode KState 2 None [] [] [] []
            [
              TNode KHistShallow 9 None [{| tt_vid := 111; tt_event := None; tt_cond := None; tt_targets := Some [3]; tt_internal := false; tt_body := [] |}] [] [] []
                [];

              TNode KState 3 None [] [] [] []
                [
                  TNode KState 4 None [{| tt_vid := 101; tt_event := Some [101]; tt_cond := None; tt_targets := Some [8]; tt_internal := false; tt_body := [] |}] [] [] []
                    []]]]].

(* targetless: target-less transition *)
Definition w_targetless : tree :=
  TNode KScxml 0 None [] [] [] []
    [
      TNode KState 1 None [{| tt_vid := 101; tt_event := Some [101]; tt_cond := None; tt_targets := None; tt_internal := false; tt_body := [(ILog 102 (INum (3)%Z))] |}] [[(IRaise 103 [101])]] [] []
        []].

(* parallel-done: done.state of a parallel *)
Definition w_parallel_done : tree :=
  TNode KScxml 0 None [] [] [] []
    [
      TNode KParallel 1 None [{| tt_vid := 101; tt_event := Some [100; 111; 110; 101; 46; 115; 116; 97; 116; 101; 46; 115; 49]; tt_cond := None; tt_targets := Some [6]; tt_internal := false; tt_body := [] |}] [] [] []
        [
          TNode KState 2 None [] [] [] []
            [
              TNode KFinal 3 None [] [] [] []
                []];

          TNode KState 4 None [] [] [] []
            [
              TNode KFinal 5 None [] [] [] []
                []]];

      TNode KFinal 6 None [] [] [] []
        []].

(* exit-interval: exit set stays inside the domain *)
Definition w_exit_interval : tree :=
  TNode KScxml 0 None [] [] [] []
    [
      TNode KParallel 1 None [] [] [] []
        [
          TNode KState 2 None [] [[(IRaise 120 [103; 111]); (IRaise 121 [101])]] [] []
            [
              TNode KState 3 None [{| tt_vid := 101; tt_event := Some [103; 111]; tt_cond := None; tt_targets := Some [4]; tt_internal := false; tt_body := [] |}] [] [] []
                [];

              TNode KState 4 None [] [] [] []
                [
                  TNode KState 5 None [{| tt_vid := 102; tt_event := Some [101]; tt_cond := None; tt_targets := Some [6]; tt_internal := false; tt_body := [] |}] [] [] []
                    [];

                  TNode KState 6 None [] [] [] []
                    []]];

          TNode KState 7 None [] [[(ILog 110 (INum (1)%Z))]] [[(ILog 111 (INum (2)%Z))]] []
            [
              TNode KState 8 None [] [] [] []
                [];

              TNode KState 9 None [] [] [] []
                []]]].

(* queue-full: internal queue of 7 fills up *)
Definition w_queue_full : tree :=
  TNode KScxml 0 None [] [] [] []
    [
      TNode KState 1 None [{| tt_vid := 101; tt_event := None; tt_cond := None; tt_targets := Some [1]; tt_internal := false; tt_body := [(IRaise 102 [101]); (IRaise 103 [102])] |}] [] [] []
        []].


Local Close Scope N_scope.

Ltac refute := unfold behaviour_preserved; vm_compute; intros H; specialize (H eq_refl eq_refl); discriminate H.

(* each deviation: the template as written (all switches on) against the interpreter *)
Lemma in_predicate_refuted : exists t fp ff, ~ behaviour_preserved pml_as_written t 7 13 fp ff.
Proof. exists w_in_predicate, 20, 40. refute. Qed.
Lemma initial_deep_target_refuted : exists t fp ff, ~ behaviour_preserved pml_as_written t 7 13 fp ff.
Proof. exists w_initial_deep_target, 20, 40. refute. Qed.
Lemma initial_attribute_deep_refuted : exists t fp ff, ~ behaviour_preserved pml_as_written t 7 13 fp ff.
Proof. exists w_initial_attribute_deep, 20, 40. refute. Qed.
Lemma history_active_parent_refuted : exists t fp ff, ~ behaviour_preserved pml_as_written t 7 13 fp ff.
Proof. exists w_history_active_parent, 20, 40. refute. Qed.
Lemma shallow_history_nested_refuted : exists t fp ff, ~ behaviour_preserved pml_as_written t 7 13 fp ff.
Proof. exists w_shallow_history_nested, 30, 60. refute. Qed.
Lemma star_in_descriptor_list_refuted : exists t fp ff, ~ behaviour_preserved pml_as_written t 7 13 fp ff.
Proof. exists w_star_in_descriptor_list, 20, 40. refute. Qed.
Lemma history_below_deep_history_refuted : exists t fp ff, ~ behaviour_preserved pml_as_written t 7 13 fp ff.
Proof. exists w_history_below_deep_history, 30, 60. refute. Qed.
(* a condition with `||` at top level and no outer parentheses enables the transition for any event *)
Lemma cond_top_level_or_refuted : exists t fp ff, ~ behaviour_preserved pml_as_written t 7 13 fp ff.
Proof. exists w_cond_top_level_or, 20, 40. refute. Qed.
(* not a deviation from the interpreter's default engine (LargeMicroStep shows the same), but from the fast engine:
   a state restored by a history record is entered without its ancestors *)
Definition pml_guarded_only : pml_variant :=
  {| pv_in_reads_root := false; pv_initial_break := false; pv_deep_unnegated := false; pv_hist_parent_test := false;
     pv_hist_or := false; pv_hist_covered := false; pv_hist_inner_first := false; pv_found_stale := false;
     pv_cond_bare := false; pv_completion_guarded := true; pv_trie := tv_repaired |}.
Lemma restored_without_ancestors_refuted : exists t fp ff, ~ behaviour_preserved pml_guarded_only t 7 13 fp ff.
Proof. exists w_restored_without_ancestors, 20, 40. refute. Qed.
Lemma restored_without_ancestors_unguarded : behaviour_preserved pml_repaired w_restored_without_ancestors 7 13 20 40.
Proof. unfold behaviour_preserved; vm_compute; intros _ _; reflexivity. Qed.
(* a document without transitions: the model never comes to rest, the interpreter goes idle after the initial step *)
Lemma no_transitions_refuted : exists t fp ff, ~ behaviour_prefix pml_as_written t 7 13 fp ff.
Proof.
  exists w_no_transitions, 10, 40. unfold behaviour_prefix. vm_compute.
  intros H. specialize (H eq_refl eq_refl). discriminate H.
Qed.

(* each witness is repaired by its own switch alone: the model with that switch off behaves as the interpreter *)
Definition with_switch_off (k : nat) : pml_variant :=
  {| pv_in_reads_root := negb (k =? 0); pv_initial_break := negb (k =? 1); pv_deep_unnegated := negb (k =? 2);
     pv_hist_parent_test := negb (k =? 3); pv_hist_or := negb (k =? 4);
     pv_hist_covered := negb (k =? 6); pv_hist_inner_first := false; pv_found_stale := negb (k =? 7); pv_cond_bare := negb (k =? 9); pv_completion_guarded := negb (k =? 10);
     pv_trie := {| tv_star_in_list_ignored := negb (k =? 5) |} |}.

Ltac holds := unfold behaviour_preserved; vm_compute; intros _ _; reflexivity.
Lemma witnesses_repaired_by_their_switch :
  behaviour_preserved (with_switch_off 0) w_in_predicate 7 13 20 40 /\
  behaviour_preserved (with_switch_off 1) w_initial_deep_target 7 13 20 40 /\
  behaviour_preserved (with_switch_off 2) w_initial_attribute_deep 7 13 20 40 /\
  behaviour_preserved (with_switch_off 3) w_history_active_parent 7 13 20 40 /\
  behaviour_preserved (with_switch_off 4) w_shallow_history_nested 7 13 30 60 /\
  behaviour_preserved (with_switch_off 5) w_star_in_descriptor_list 7 13 20 40 /\
  behaviour_preserved (with_switch_off 6) w_history_below_deep_history 7 13 30 60 /\
  behaviour_preserved (with_switch_off 7) w_no_transitions 7 13 20 40 /\
  behaviour_preserved (with_switch_off 9) w_cond_top_level_or 7 13 20 40.
Proof. repeat split; holds. Qed.

(* the statement is not vacuous: charts on which the template as written already agrees, observed completely *)
Example as_written_agrees_on :
  behaviour_preserved pml_as_written w_targetless 7 13 20 40 /\
  behaviour_preserved pml_as_written w_exit_interval 7 13 30 60 /\
  pml_complete (snd (pml_run_tree pml_as_written w_exit_interval 7 13 30)) = true /\
  fast_complete (fst (run_fast ex_fixed false w_exit_interval [] 60)) = true.
Proof. repeat split; holds. Qed.

(* ================================================================== 4. where the transcription coincides ========= *)
(* SELECT_TRANSITIONS of the emitted model selects the transitions FastMicroStep selects, in the same order,
   and evaluates no condition differently -- provided In() is read correctly (the only switch this part of the
   template depends on besides the descriptor resolution), the static conflict table is the engine's, the
   literals of every guard decide the name matching for the event at hand (TrieLemmas.resolve_attr_correct with
   C12's name_match_correct give this for grammar-conformant descriptors and canonically spelled names), and no
   condition evaluates to an error (the emitted Promela has no error events). *)
Lemma mem_insert_sorted x y l : mem x (insert_sorted y l) = (x =? y) || mem x l.
Proof.
  induction l as [|z l IH]; cbn [insert_sorted mem]; [reflexivity|].
  destruct (y <? z) eqn:L; cbn [mem]; [reflexivity|].
  destruct (y =? z) eqn:E.
  - cbn [mem]. apply Nat.eqb_eq in E. subst z. destruct (x =? y); reflexivity.
  - cbn [mem]. rewrite IH. destruct (x =? y), (x =? z); reflexivity.
Qed.

Lemma mem_set_union x b : forall a, mem x (set_union a b) = mem x a || mem x b.
Proof.
  unfold set_union. induction b as [|y b IH]; intros a; cbn [fold_left mem].
  - now rewrite orb_false_r.
  - rewrite IH, mem_insert_sorted. destruct (x =? y), (mem x a), (mem x b); reflexivity.
Qed.

Lemma mem_In x l : mem x l = true <-> In x l.
Proof.
  induction l as [|y l IH]; cbn [mem In]; [split; [discriminate|tauto]|].
  rewrite orb_true_iff, IH, Nat.eqb_eq. split; intros [H|H]; auto.
Qed.

Lemma mem_filter_seq f x n : mem x (filter f (seq 0 n)) = (x <? n) && f x.
Proof.
  apply Bool.eq_iff_eq_true. rewrite mem_In, filter_In, in_seq, andb_true_iff, Nat.ltb_lt.
  split; intros H; intuition lia.
Qed.

Lemma insert_sorted_last x l : (forall y, In y l -> y < x) -> insert_sorted x l = l ++ [x].
Proof.
  induction l as [|z l IH]; intros H; cbn [insert_sorted app]; [reflexivity|].
  assert (z < x) by (apply H; now left).
  replace (x <? z) with false by (symmetry; apply Nat.ltb_ge; lia).
  replace (x =? z) with false by (symmetry; apply Nat.eqb_neq; lia).
  rewrite IH; [reflexivity|]. intros y Hy. apply H. now right.
Qed.

Lemma pml_ieval_sound s e : forall r, ieval s e = Some r -> pml_ieval s e = r.
Proof.
  induction e as [z0|v|e1 IH1 e2 IH2|e1 IH1 e2 IH2|]; intros r; cbn [ieval pml_ieval].
  - intros H. now inversion H.
  - intros H. now rewrite H.
  - destruct (ieval s e1) as [a|]; [|discriminate]. destruct (ieval s e2) as [b|]; [|discriminate].
    intros H. inversion H. now rewrite (IH1 a), (IH2 b).
  - destruct (ieval s e1) as [a|]; [|discriminate]. destruct (ieval s e2) as [b|]; [|discriminate].
    intros H. inversion H. now rewrite (IH1 a), (IH2 b).
  - discriminate.
Qed.

Lemma pml_beval_sound inst s e : forall r, beval inst s e = Some r -> pml_beval inst s e = r.
Proof.
  induction e as [| |sid|a b|e IH|e1 IH1 e2 IH2|e1 IH1 e2 IH2|]; intros r; cbn [beval pml_beval];
    try (intros H; now inversion H).
  - destruct (ieval s a) as [x|] eqn:A; [|discriminate]. destruct (ieval s b) as [y|] eqn:B; [|discriminate].
    intros H. inversion H. now rewrite (pml_ieval_sound _ _ _ A), (pml_ieval_sound _ _ _ B).
  - destruct (beval inst s e) as [x|]; [|discriminate]. intros H. inversion H. now rewrite (IH x).
  - destruct (beval inst s e1) as [x|]; [|discriminate]. destruct (beval inst s e2) as [y|]; [|discriminate].
    intros H. inversion H. now rewrite (IH1 x), (IH2 y).
  - destruct (beval inst s e1) as [x|]; [|discriminate]. destruct (beval inst s e2) as [y|]; [|discriminate].
    intros H. inversion H. now rewrite (IH1 x), (IH2 y).
Qed.

Section SelectEquiv.
Variable pv : pml_variant.
Variable c : fchart.
Variable cfg : list nat.
Variable evf : option event.
Variable x : xstate.
Hypothesis Hin : pv_in_reads_root pv = false.
Hypothesis Hbare : pv_cond_bare pv = false.
Hypothesis Hconf : forall i j, i < ntrans c -> j < ntrans c ->
  conflict_static c (tr c i) (tr c j) = fconflicts c (tr c i) (tr c j).
Hypothesis Hmatch : forall i e, i < ntrans c -> evf = Some e -> ft_spontaneous (tr c i) = false ->
  resolved_match (guard_literals pv c i) (ev_name e) = name_match_impl nm_fixed (ft_event (tr c i)) (ev_name e).
Hypothesis Hcond : forall i cnd, i < ntrans c -> ft_cond (tr c i) = Some cnd ->
  beval (inst_of c cfg) (x_store x) cnd <> None.

Let evp := option_map ev_name evf.

Definition sel_inv (k : nat) (a : psel) (selected : list nat) : Prop :=
  k_trans a = selected /\
  (forall s, In s selected -> s < k) /\
  (forall j, j < ntrans c -> mem j (k_conf a) = existsb (fun s => fconflicts c (tr c s) (tr c j)) selected) /\
  k_found a = nonempty selected.

Lemma pml_in_is_inst : pml_in pv c cfg = inst_of c cfg.
Proof. unfold pml_in. now rewrite Hin. Qed.

Lemma select_step m : forall k a selected,
  k + m = ntrans c -> sel_inv k a selected ->
  exists a', fold_left (psel_one pv c cfg evp (x_store x)) (seq k m) a = a' /\
             fselect c cfg evf (seq k m) selected x = (k_trans a', x) /\
             k_found a' = nonempty (k_trans a').
Proof.
  induction m as [|m IH]; intros k a selected Hk [It [Ilt [Ic If]]].
  - exists a. cbn. rewrite It. repeat split. now rewrite If.
  - cbn [seq fold_left fselect].
    assert (Lk : k < ntrans c) by lia.
    unfold psel_one at 2. unfold guard_value. rewrite Hbare.
    destruct (ft_history (tr c k) || ft_initial (tr c k)) eqn:HI.
    { apply IH; [lia|]. repeat split; auto. intros s Hs. specialize (Ilt s Hs). lia. }
    destruct (mem (ft_source (tr c k)) cfg) eqn:Src; cbn [negb andb].
    2:{ apply IH; [lia|]. repeat split; auto. intros s Hs. specialize (Ilt s Hs). lia. }
    rewrite (Ic k Lk).
    destruct (existsb (fun s => fconflicts c (tr c s) (tr c k)) selected) eqn:Cf; cbn [negb andb].
    { apply IH; [lia|]. repeat split; auto. intros s Hs. specialize (Ilt s Hs). lia. }
    assert (Skip : sel_inv (S k) a selected).
    { repeat split; auto. intros s Hs. specialize (Ilt s Hs). lia. }
    assert (Take : sel_inv (S k)
                     {| k_found := true; k_conf := set_union (k_conf a) (conflicts_of c k);
                        k_target := set_union (k_target a) (ft_targets (tr c k));
                        k_exit := set_union (k_exit a) (exit_static c (tr c k));
                        k_trans := insert_sorted k (k_trans a) |} (selected ++ [k])).
    { unfold sel_inv. cbn [k_trans k_conf k_found]. rewrite It. repeat split.
      - apply insert_sorted_last. exact Ilt.
      - intros s Hs. apply in_app_or in Hs as [Hs|[<-|[]]]; [specialize (Ilt s Hs)|]; lia.
      - intros j Lj. rewrite mem_set_union, (Ic j Lj), existsb_app. cbn [existsb]. rewrite orb_false_r.
        unfold conflicts_of. rewrite mem_filter_seq.
        replace (j <? pnt c) with true by (symmetry; apply Nat.ltb_lt; exact Lj). cbn [andb].
        now rewrite Hconf.
      - destruct selected; reflexivity. }
    unfold evp. destruct evf as [e|] eqn:Ev; cbn [option_map].
    + (* an event *)
      destruct (ft_spontaneous (tr c k)) eqn:Sp; cbn [negb andb].
      { apply IH; [lia|exact Skip]. }
      rewrite (Hmatch k e Lk eq_refl Sp).
      destruct (name_match_impl nm_fixed (ft_event (tr c k)) (ev_name e)) eqn:Nm; cbn [negb andb].
      2:{ apply IH; [lia|exact Skip]. }
      destruct (ft_cond (tr c k)) as [cnd|] eqn:Cd.
      * unfold is_true. specialize (Hcond k cnd Lk Cd).
        destruct (beval (inst_of c cfg) (x_store x) cnd) as [b|] eqn:B; [|contradiction].
        rewrite pml_in_is_inst, (pml_beval_sound _ _ _ _ B).
        destruct b; apply IH; try lia; [exact Take|exact Skip].
      * apply IH; [lia|exact Take].
    + (* the spontaneous round *)
      destruct (ft_spontaneous (tr c k)) eqn:Sp; cbn [negb andb].
      2:{ apply IH; [lia|exact Skip]. }
      destruct (ft_cond (tr c k)) as [cnd|] eqn:Cd.
      * unfold is_true. specialize (Hcond k cnd Lk Cd).
        destruct (beval (inst_of c cfg) (x_store x) cnd) as [b|] eqn:B; [|contradiction].
        rewrite pml_in_is_inst, (pml_beval_sound _ _ _ _ B).
        destruct b; apply IH; try lia; [exact Take|exact Skip].
      * apply IH; [lia|exact Take].
Qed.

Lemma pml_select_equiv_lemma :
  let a := fold_left (psel_one pv c cfg evp (x_store x)) (seq 0 (ntrans c))
                     {| k_found := false; k_conf := []; k_target := []; k_exit := []; k_trans := [] |} in
  fselect c cfg evf (seq 0 (ntrans c)) [] x = (k_trans a, x) /\ k_found a = nonempty (k_trans a).
Proof.
  cbn zeta.
  destruct (select_step (ntrans c) 0 {| k_found := false; k_conf := []; k_target := []; k_exit := []; k_trans := [] |} [])
    as [a' [E [F N]]].
  - reflexivity.
  - repeat split; cbn; auto. intros s [].
  - rewrite E. split; assumption.
Qed.
End SelectEquiv.

(* ================================================================== 5. a candidate deviation discarded ========= *)
(* The template detects the initial entry by "configuration empty" (`!STATES_HAS_ANY(config)`), the engines by a
   PRISTINE flag.  The two coincide: the <scxml> root, once active, is never exited by the emitted model (no
   static exit set contains it, as Predicates.cpp::getExitSet never does), so the configuration is empty only
   before the first microstep and the model cannot "restart". *)
Section RootStays.
Variable pv : pml_variant.
Variable c : fchart.
Variable iq eq : nat.

Lemma set_full_cfg s : p_cfg (set_full s) = p_cfg s.
Proof. unfold set_full. destruct (p_full s); reflexivity. Qed.
Lemma p_raise_cfg e s : p_cfg (p_raise iq e s) = p_cfg s.
Proof.
  unfold p_raise. destruct (negb (p_fin s) || p_tlf s); [|reflexivity].
  destruct (length (p_iq s) <? iq); [reflexivity|apply set_full_cfg].
Qed.
Lemma p_send_cfg e s : p_cfg (p_send eq e s) = p_cfg s.
Proof.
  unfold p_send. destruct (negb (p_fin s) || p_tlf s); [|reflexivity].
  destruct (length (p_eq s) <? eq); [reflexivity|apply set_full_cfg].
Qed.
Lemma p_raise_direct_cfg e s : p_cfg (p_raise_direct iq e s) = p_cfg s.
Proof. unfold p_raise_direct. destruct (length (p_iq s) <? iq); [reflexivity|apply set_full_cfg]. Qed.

(* executable content never touches the configuration *)
Lemma pexec_instr_cfg : forall i s, p_cfg (pexec_instr pv c iq eq i s) = p_cfg s.
Proof.
  fix IH 1. intros i s. destruct i as [v e|v e|v e|v e|v e|v x e|v cnd body]; cbn [pexec_instr].
  - apply p_raise_cfg.
  - apply p_send_cfg.
  - apply p_send_cfg.
  - reflexivity.
  - reflexivity.
  - reflexivity.
  - generalize (pml_beval (pml_in pv c (p_cfg s)) (p_store s) cnd). revert s.
    induction body as [|it r IHr]; intros s taken.
    + reflexivity.
    + destruct it as [c'|  |j].
      * destruct taken; [reflexivity|]. apply IHr.
      * destruct taken; [reflexivity|]. apply IHr.
      * destruct taken; [|apply IHr]. rewrite IHr. apply IH.
Qed.

Lemma pexec_block_cfg b : forall s, p_cfg (pexec_block pv c iq eq b s) = p_cfg s.
Proof.
  unfold pexec_block. induction b as [|i r IH]; intros s; cbn [fold_left]; [reflexivity|].
  rewrite IH. apply pexec_instr_cfg.
Qed.
Lemma pexec_blocks_cfg bs : forall s, p_cfg (pexec_blocks pv c iq eq bs s) = p_cfg s.
Proof.
  unfold pexec_blocks. induction bs as [|b r IH]; intros s; cbn [fold_left]; [reflexivity|].
  rewrite IH. apply pexec_block_cfg.
Qed.

Lemma fold_cfg {A} (f : pstate -> A -> pstate) (l : list A) :
  (forall s a, p_cfg (f s a) = p_cfg s) -> forall s, p_cfg (fold_left f l s) = p_cfg s.
Proof.
  intros H. induction l as [|a r IH]; intros s; cbn [fold_left]; [reflexivity|]. now rewrite IH, H.
Qed.

Lemma p_remember_cfg ex s : p_cfg (p_remember pv c ex s) = p_cfg s.
Proof.
  unfold p_remember. cbn [out p_cfg].
  destruct (nonempty (p_cfg s)); [|reflexivity]. cbn [out p_cfg].
  rewrite fold_cfg; [reflexivity|]. intros s' i. unfold p_history_one.
  destruct (is_hist (ptype c i) && mem (pparent c i) ex); reflexivity.
Qed.

Lemma p_descend_one_cfg cfg ex hist es ts s i :
  p_cfg (snd (p_descend_one pv c cfg ex hist (es, ts, s) i)) = p_cfg s.
Proof.
  unfold p_descend_one. destruct (negb (mem i es)); [reflexivity|].
  destruct (fs_type (st c i)); try reflexivity.
  - (* compound *)
    destruct (negb (intersects es (fs_children (st c i))) && _); [|reflexivity].
    destruct (pv_deep_unnegated pv).
    + destruct (intersects _ _); [|reflexivity]. destruct (filter _ _); reflexivity.
    + destruct (negb (pv_completion_guarded pv) || negb _); reflexivity.
  - (* shallow history *)
    destruct (negb (intersects (pcompl pv c i) hist) && _).
    + destruct (find _ _); reflexivity.
    + destruct (if pv_hist_or pv then _ else _); reflexivity.
  - (* deep history *)
    destruct (negb (intersects (pcompl pv c i) hist) && _).
    + destruct (find _ _); reflexivity.
    + destruct (if pv_hist_or pv then _ else _); reflexivity.
  - (* initial *)
    destruct (pnt c); [reflexivity|].
    match goal with |- p_cfg (snd (fold_left ?f ?l ?a0)) = _ =>
      assert (G : forall l' (a : list nat * list nat * pstate), p_cfg (snd (fold_left f l' a)) = p_cfg (snd a)) end.
    { induction l' as [|j r IH]; intros a; cbn [fold_left]; [reflexivity|].
      rewrite IH. destruct a as [[e tset] s']. cbn [snd]. destruct (ft_source (tr c j) =? i); reflexivity. }
    rewrite G. reflexivity.
Qed.

Lemma p_entry_set_cfg cfg ex hist tg tset s :
  p_cfg (snd (p_entry_set pv c cfg ex hist tg tset s)) = p_cfg s.
Proof.
  unfold p_entry_set.
  assert (G : forall l (a : list nat * list nat * pstate),
             p_cfg (snd (fold_left (p_descend_one pv c cfg ex hist) l a)) = p_cfg (snd a)).
  { induction l as [|i r IH]; intros a; cbn [fold_left]; [reflexivity|].
    rewrite IH. destruct a as [[e t] s']. apply p_descend_one_cfg. }
  specialize (G (seq 0 (pn c)) (p_anc_close c tg, tset, s)).
  destruct (fold_left _ _ _) as [[e t] s']. cbn [snd] in *. exact G.
Qed.

Lemma mem_filter f x l : mem x (filter f l) = mem x l && f x.
Proof.
  apply Bool.eq_iff_eq_true. rewrite andb_true_iff, !mem_In, filter_In. tauto.
Qed.

Lemma exit_static_no_root t : mem 0 (exit_static c t) = false.
Proof.
  unfold exit_static. destruct (exit_interval lg_fixed c t) as [f s]. destruct (f =? 0) eqn:E; [reflexivity|].
  apply Nat.eqb_neq in E. destruct (mem 0 (filter _ _)) eqn:M; [|reflexivity].
  apply mem_In in M. apply filter_In in M as [M _]. apply in_seq in M. lia.
Qed.

Lemma select_exit_no_root cfg ev sto l : forall a,
  mem 0 (k_exit a) = false -> mem 0 (k_exit (fold_left (psel_one pv c cfg ev sto) l a)) = false.
Proof.
  induction l as [|i r IH]; intros a H; cbn [fold_left]; [exact H|]. apply IH.
  unfold psel_one. destruct (ft_history (tr c i) || ft_initial (tr c i)); [exact H|].
  destruct (_ && _); [|exact H]. cbn [k_exit]. now rewrite mem_set_union, H, exit_static_no_root.
Qed.

Lemma p_select_facts ev s : 
  p_cfg (snd (p_select pv c ev s)) = p_cfg s /\ mem 0 (k_exit (fst (p_select pv c ev s))) = false.
Proof.
  unfold p_select. destruct (pnt c); [split; reflexivity|]. cbn [fst snd out p_cfg k_exit]. split; [reflexivity|].
  unfold set_inter. rewrite mem_filter. rewrite select_exit_no_root; reflexivity.
Qed.

Lemma p_exit_one_root ex s i :
  mem 0 ex = false -> mem 0 (p_cfg s) = true -> mem 0 (p_cfg (p_exit_one pv c iq eq ex s i)) = true.
Proof.
  intros Hex H. unfold p_exit_one. destruct (mem i ex && mem i (p_cfg s)) eqn:E; [|exact H].
  apply andb_true_iff in E as [E _]. cbn [set_cfg p_cfg]. unfold set_remove. rewrite mem_filter.
  assert (Hc : p_cfg (match fs_onexit (st c i) with
                      | [] => out (PExiting i) s
                      | b :: bs => pexec_blocks pv c iq eq (b :: bs) (out (PProcExit i) (out (PExiting i) s))
                      end) = p_cfg s).
  { destruct (fs_onexit (st c i)); [reflexivity|]. now rewrite pexec_blocks_cfg. }
  rewrite Hc, H. destruct i; [rewrite E in Hex; discriminate|reflexivity].
Qed.

Lemma p_take_one_cfg ts s j : p_cfg (p_take_one pv c iq eq ts s j) = p_cfg s.
Proof. unfold p_take_one. destruct (_ && _); [|reflexivity]. now rewrite pexec_block_cfg. Qed.

Lemma p_parallel_done_cfg i s j : p_cfg (p_parallel_done c iq i s j) = p_cfg s.
Proof.
  unfold p_parallel_done. destruct (_ && _); [|reflexivity].
  destruct (fold_left _ _ _); [apply p_raise_direct_cfg|reflexivity].
Qed.

Lemma p_enter_one_root es ts s i :
  mem 0 (p_cfg s) = true -> mem 0 (p_cfg (p_enter_one pv c iq eq es ts s i)) = true.
Proof.
  intros H. unfold p_enter_one. destruct (_ && _); [|exact H].
  set (s1 := set_cfg (insert_sorted i (p_cfg s)) (out (PEntering i) s)).
  assert (H1 : mem 0 (p_cfg s1) = true).
  { unfold s1. cbn [set_cfg p_cfg]. now rewrite mem_insert_sorted, H, orb_true_r. }
  set (s2 := match fs_onentry (st c i) with [] => s1 | b :: bs => pexec_blocks pv c iq eq (b :: bs) (out (PProcEntry i) s1) end).
  assert (H2 : p_cfg s2 = p_cfg s1).
  { unfold s2. destruct (fs_onentry (st c i)); [reflexivity|]. now rewrite pexec_blocks_cfg. }
  match goal with |- context [fold_left ?f (seq 0 (pnt c)) s2] => set (s3 := fold_left f (seq 0 (pnt c)) s2) end.
  assert (H3 : p_cfg s3 = p_cfg s2).
  { unfold s3. apply fold_cfg. intros s' j. destruct (_ && _); [|reflexivity]. now rewrite pexec_block_cfg. }
  destruct (is_fin (ptype c i)); [|now rewrite H3, H2].
  rewrite fold_cfg; [|intros; apply p_parallel_done_cfg].
  destruct (mem 1 (fs_children (st c (pparent c i)))).
  - cbn [set_flags p_cfg]. now rewrite H3, H2.
  - destruct (fs_parent (st c i)); [rewrite p_raise_direct_cfg|]; now rewrite H3, H2.
Qed.

Lemma fold_root {A} (f : pstate -> A -> pstate) (l : list A) :
  (forall s a, mem 0 (p_cfg s) = true -> mem 0 (p_cfg (f s a)) = true) ->
  forall s, mem 0 (p_cfg s) = true -> mem 0 (p_cfg (fold_left f l s)) = true.
Proof.
  intros H. induction l as [|a r IH]; intros s Hs; cbn [fold_left]; [exact Hs|]. apply IH. now apply H.
Qed.

Lemma p_microstep_root tg ex tset s :
  mem 0 ex = false -> mem 0 (p_cfg s) = true -> mem 0 (p_cfg (p_microstep pv c iq eq tg ex tset s)) = true.
Proof.
  intros Hex H. unfold p_microstep.
  pose proof (p_entry_set_cfg (p_cfg (p_remember pv c ex s)) ex (p_hist (p_remember pv c ex s)) tg tset (p_remember pv c ex s)) as E.
  destruct (p_entry_set _ _ _ _ _ _ _ _) as [[es ts] s2]. cbn [snd] in E. rewrite p_remember_cfg in E.
  apply fold_root; [intros; now apply p_enter_one_root|].
  rewrite fold_cfg; [|intros; apply p_take_one_cfg].
  apply fold_root; [intros; now apply p_exit_one_root|]. now rewrite E.
Qed.

Lemma pml_dstep_root ev s :
  mem 0 (p_cfg s) = true -> mem 0 (p_cfg (fst (pml_dstep pv c iq eq ev s))) = true.
Proof.
  intros H. unfold pml_dstep.
  destruct (p_select_facts ev s) as [Hc Hx].
  destruct (p_select pv c ev s) as [a s2]. cbn [fst snd] in Hc, Hx.
  set (s2' := set_flags (p_spont s2) (p_tlf s2) (k_found a) (p_fin s2) s2).
  assert (Hc' : p_cfg s2' = p_cfg s) by (unfold s2'; cbn [set_flags p_cfg]; exact Hc).
  assert (Hn : nonempty (p_cfg s2') = true).
  { rewrite Hc'. destruct (p_cfg s); [discriminate|reflexivity]. }
  rewrite Hn. cbn [negb].
  destruct (p_found s2') eqn:F; cbv beta iota zeta.
  - assert (F' : p_found (set_flags true (p_tlf s2') true (p_fin s2') (out PFound s2')) = true) by reflexivity.
    rewrite F'. cbn [fst]. apply p_microstep_root; [exact Hx|]. cbn [set_flags out p_cfg]. now rewrite Hc'.
  - assert (F' : p_found (out PNotFound (set_flags false (p_tlf s2') false (p_fin s2') s2')) = false) by reflexivity.
    rewrite F'. cbn [fst out set_flags p_cfg]. now rewrite Hc'.
Qed.

Lemma pml_iter_root s :
  mem 0 (p_cfg s) = true -> mem 0 (p_cfg (fst (pml_iter pv c iq eq s))) = true.
Proof.
  intros H. unfold pml_iter, pml_dequeue. cbn [out p_spont p_iq p_eq].
  destruct (p_spont s); [apply pml_dstep_root; exact H|].
  destruct (p_iq s); [destruct (p_eq s); [exact H|apply pml_dstep_root; exact H]|apply pml_dstep_root; exact H].
Qed.

Lemma p_terminate_cfg s : p_cfg (p_terminate pv c iq eq s) = p_cfg s.
Proof.
  unfold p_terminate. cbn [out p_cfg]. rewrite fold_cfg; [reflexivity|].
  intros s' i. destruct (_ && _); [|reflexivity]. destruct (fs_onexit (st c i)); [reflexivity|]. now rewrite pexec_blocks_cfg.
Qed.

Lemma pml_root_never_exited_lemma fuel : forall s,
  mem 0 (p_cfg s) = true -> mem 0 (p_cfg (fst (pml_loop pv c iq eq fuel s))) = true.
Proof.
  induction fuel as [|f IH]; intros s H; cbn [pml_loop].
  - destruct (p_fin s); cbn [fst]; [now rewrite p_terminate_cfg|exact H].
  - destruct (p_fin s); cbn [fst]; [now rewrite p_terminate_cfg|].
    pose proof (pml_iter_root s H) as R. destruct (pml_iter pv c iq eq s) as [s1 r]. cbn [fst] in R.
    destruct r; try exact R. now apply IH.
Qed.
End RootStays.

(* ================================================================== 6. declared widths ================== *)
(* `#define BIT_WIDTH(number) (number > 1 ? (int)ceil(log2((double)number)) : 1)` gives the width of every
   `unsigned x : n` of the emitted model.  With n bits for `number` distinct values the uses in the template are
   right also at powers of two: `_event : BIT_WIDTH(literals + 1)` (literal indices 1..literals),
   `source/parent : BIT_WIDTH(states)` (indices < states), `i, j, k : BIT_WIDTH(max(states, transitions) + 1)`
   (the loops leave them at states resp. transitions).  ChartToPromela::declForRange(nativeOnly = false) writes
   BIT_WIDTH(maxValue) for values 0..maxValue, which is one bit short exactly when maxValue is a power of two;
   that call only ever receives the range (0, 0) (top-level names have no tracked range), so no emitted model
   shows it. *)
Definition bit_width (n : N) : N := if (n <=? 1)%N then 1%N else N.log2_up n.

Lemma bit_width_holds n v : (v < n)%N -> (v < 2 ^ bit_width n)%N.
Proof.
  unfold bit_width. intros H. destruct (n <=? 1)%N eqn:E.
  - apply N.leb_le in E. cbn. lia.
  - apply N.leb_gt in E. destruct (N.log2_up_spec n E) as [_ U]. lia.
Qed.

Lemma event_width_enough literals idx : (idx <= literals)%N -> (idx < 2 ^ bit_width (literals + 1))%N.
Proof. intros H. apply bit_width_holds. lia. Qed.
Lemma index_width_enough states trans v :
  (v <= N.max states trans)%N -> (v < 2 ^ bit_width (N.max states trans + 1))%N.
Proof. intros H. apply bit_width_holds. lia. Qed.

Lemma declforrange_width_refuted : exists maxValue, ~ (maxValue < 2 ^ bit_width maxValue)%N.
Proof. exists 4%N. vm_compute. discriminate. Qed.
Lemma declforrange_width_repaired maxValue v : (v <= maxValue)%N -> (v < 2 ^ bit_width (maxValue + 1))%N.
Proof. intros H. apply bit_width_holds. lia. Qed.
