(* LegalOracle.v -- the boolean oracle legal_configb (Legal.v), applied by the C02 check to every
   configuration the implementation reports, implies the Prop-level legality LegalCfg of LegalRun.v
   on well-formed core charts; and a non-vacuity example. *)
From V Require Import Base NameMatch Chart Exec Large LargeLemmas Interp Legal SetLemmas LegalAbstract LegalLarge LegalRun WfCore.
Local Open Scope nat_scope.

Section Oracle.
Variable c : fchart.
Hypothesis W : WF c.

Lemma proper_children_all i : proper_children c i = fs_children (st c i).
Proof.
  unfold proper_children. induction (fs_children (st c i)) as [|k r IH]; cbn [filter]; [reflexivity|].
  assert (Hp : proper_type (fs_type (st c k)) = true) by (destruct (wf_types c W k) as [H|[H|[H|H]]]; rewrite H; reflexivity).
  rewrite Hp. now rewrite IH.
Qed.

Lemma filter_len1 {A} (f : A -> bool) (l : list A) : length (filter f l) = 1 ->
  exists k, In k l /\ f k = true.
Proof.
  intros H. destruct (filter f l) as [|k r] eqn:E; [discriminate|].
  assert (In k (filter f l)) by (rewrite E; now left). apply filter_In in H0. exists k. exact H0.
Qed.

Lemma state_ok_parts cfg i : state_ok c cfg i = true ->
  i < nstates c /\
  (forall p, fs_parent (st c i) = Some p -> In p cfg) /\
  (fs_type (st c i) = FCompound -> length (filter (fun ch0 => mem ch0 cfg) (fs_children (st c i))) = 1) /\
  (fs_type (st c i) = FParallel -> forall k, In k (fs_children (st c i)) -> In k cfg).
Proof.
  unfold state_ok. intros H.
  apply andb_true_iff in H as [H H4]. apply andb_true_iff in H as [H H3]. apply andb_true_iff in H as [H1 H2].
  split; [now apply Nat.ltb_lt|]. split; [|split].
  - intros p Hp. rewrite Hp in H3. now apply mem_In.
  - intros Hk. rewrite Hk in H4. apply Nat.eqb_eq in H4. now rewrite proper_children_all in H4.
  - intros Hk k Hin. rewrite Hk in H4. rewrite proper_children_all in H4. rewrite forallb_forall in H4. apply mem_In. now apply H4.
Qed.

Theorem legal_configb_sound cfg : legal_configb c cfg = true -> LegalCfg c cfg.
Proof.
  unfold legal_configb. intros H. apply andb_true_iff in H as [H Hall]. apply andb_true_iff in H as [H0 Hnd].
  rewrite forallb_forall in Hall. apply mem_In in H0.
  assert (Hst : forall i, In i cfg -> _) by (intros i Hi; exact (state_ok_parts cfg i (Hall i Hi))).
  split.
  - constructor.
    + exact H0.
    + intros i p Hi Hp. destruct (Hst i Hi) as (_ & P & _). now apply P.
    + intros i Hi Hk. destruct (Hst i Hi) as (_ & _ & P & _). specialize (P Hk).
      destruct (filter_len1 _ _ P) as (k & Hin & Hm). exists k. split; [exact Hin | now apply mem_In].
    + intros i k1 k2 Hi Hk H1 H2 Hc1 Hc2. destruct (Hst i Hi) as (_ & _ & P & _). specialize (P Hk).
      apply (@filter_le1 c nat (fun ch0 => mem ch0 cfg) (fs_children (st c i)) (wf_children_nodup c W i)); auto; try lia; now apply mem_In.
    + intros i k Hi Hk Hin. destruct (Hst i Hi) as (_ & _ & _ & P). now apply P.
  - intros x Hx. destruct (Hst x Hx) as (P & _). exact P.
Qed.
End Oracle.

(* non-vacuity: a chart with a parallel state, nested compounds, a multi-target transition into two regions,
   target-less and internal transitions satisfies the hypotheses, and its runs reach non-trivial legal
   configurations *)
Local Open Scope N_scope.
Definition ex_tree : tree :=
  let tr_ v ev tg int := {| tt_vid := v; tt_event := ev; tt_cond := None; tt_targets := tg; tt_internal := int; tt_body := [] |} in
  TNode KScxml 0 None [] [] [] []
    [TNode KState 1 None [tr_ 101 (Some [101]) (Some [6; 9]) false] [] [] [] [];
     TNode KParallel 2 None [tr_ 105 (Some [102]) (Some [1]) false] [] [] []
       [TNode KState 3 None [] [] [] []
          [TNode KState 4 None [tr_ 102 (Some [101]) None false] [] [] [] [];
           TNode KState 5 None [tr_ 103 (Some [101]) (Some [10]) true] [] [] []
             [TNode KState 10 None [] [] [] [] []; TNode KState 6 None [] [] [] [] []]];
        TNode KState 7 None [] [] [] []
          [TNode KState 8 None [] [] [] [] []; TNode KState 9 None [tr_ 104 (Some [101]) (Some [8]) false] [] [] [] []]]].

Example ex_tree_wf : wf_coreb (flatten false ex_tree) = true /\ fs_type (st (flatten false ex_tree) 0%nat) = FCompound.
Proof. vm_compute. split; reflexivity. Qed.

Example ex_tree_reaches_parallel :
  l_cfg (fst (run_loop (flatten false ex_tree) lstate (large_step lg_fixed ex_fixed (flatten false ex_tree)) l_cfg 12%nat
                       l_pristine x_init [[101]; [101]])) = [0; 2; 3; 5; 6; 8; 9]%nat.
Proof. vm_compute. reflexivity. Qed.

(* Outside the reach of the theorems: histories.  The engines keep the values of all histories in one
   set of states; a deep history whose parent has a descendant with a history of its own shares bits
   with it.  s6{deep h10 (default s7), s7{shallow h11, <initial> -> s8, s8 --e--> h10}}: on e the
   engine model exits s8 and s7, h11 records s8, h10 (never recorded) finds s8 and restores it
   without s7. *)
Definition kho_tree : tree :=
  let tr_ v ev tg := {| tt_vid := v; tt_event := ev; tt_cond := None; tt_targets := tg; tt_internal := false; tt_body := [] |} in
  TNode KScxml 0 None [] [] [] []
    [TNode KState 6 None [] [] [] []
       [TNode KHistDeep 10 None [tr_ 102 None (Some [7])] [] [] [] [];
        TNode KState 7 None [] [] [] []
          [TNode KHistShallow 11 None [tr_ 103 None (Some [8])] [] [] [] [];
           TNode KInitial 12 None [tr_ 104 None (Some [8])] [] [] [] [];
           TNode KState 8 None [tr_ 504 (Some [101]) (Some [10])] [] [] [] []]]].

Example kho_illegal :
  let c := flatten false kho_tree in
  legal_configb c (l_cfg (fst (run_loop c lstate (large_step lg_fixed ex_fixed c) l_cfg 12%nat l_pristine x_init [[101]]))) = false.
Proof. vm_compute. reflexivity. Qed.
