(* StepCtlLemmas.v -- C08: invariants of the step() control model, for all input sequences. *)
From Coq Require Import List Bool Arith NArith Lia.
Import ListNotations.
From V Require Import StepCtl GenStepCtl.

(* ------------------------------------------------------------------------------------------------ *)
(* the checker on the reversed trace decides the forward-trace proposition *)

Lemma ext_quiescent_r_spec : forall cond rtr,
  ext_quiescent_r cond rtr = true <->
  (forall newer n r older, rtr = newer ++ ADeqExt n r :: older -> cond older n = true).
Proof.
  intros cond rtr. induction rtr as [|a rtr IH]; cbn.
  - split; [|reflexivity]. intros _ newer n r older H. destruct newer; discriminate.
  - rewrite andb_true_iff, IH. split.
    + intros [Ha Hr] newer n r older H. destruct newer as [|b newer]; cbn in H.
      * inversion H; subst. exact Ha.
      * inversion H; subst. eapply Hr. reflexivity.
    + intros H. split.
      * destruct a; try reflexivity. apply (H [] iqlen r rtr). reflexivity.
      * intros newer n r older Heq. apply (H (a :: newer) n r older). rewrite Heq. reflexivity.
Qed.

Lemma ext_quiescent_gen_spec : forall cond tr,
  ext_quiescent_r cond (rev tr) = true <-> ext_quiescent_gen cond tr.
Proof.
  intros cond tr. rewrite ext_quiescent_r_spec. unfold ext_quiescent_gen. split.
  - intros H pre n r post Heq. apply (H (rev post) n r (rev pre)). rewrite Heq.
    rewrite rev_app_distr. cbn. rewrite <- app_assoc. reflexivity.
  - intros H newer n r older Heq. rewrite <- (rev_involutive older). apply (H (rev older) n r (rev newer)).
    rewrite <- (rev_involutive tr), Heq. rewrite rev_app_distr. cbn. rewrite <- app_assoc. reflexivity.
Qed.

Theorem ext_quiescentb_ok : forall tr, ext_quiescentb tr = true <-> ext_quiescent tr.
Proof. intros tr. apply ext_quiescent_gen_spec. Qed.

Theorem ext_strictly_quiescentb_ok : forall tr, ext_strictly_quiescentb tr = true <-> ext_strictly_quiescent tr.
Proof. intros tr. apply ext_quiescent_gen_spec. Qed.

Lemma ext_quiescent_r_app : forall cond a b,
  ext_quiescent_r cond (a ++ b) = true ->  ext_quiescent_r cond b = true.
Proof.
  intros cond a b. induction a as [|x a IH]; cbn; [tauto|].
  rewrite andb_true_iff. intros [_ H]. apply IH. exact H.
Qed.

(* ------------------------------------------------------------------------------------------------ *)
(* the invariant *)

Definition all_nonzero (l : list ev) : Prop := forall x, In x l -> x <> 0%N.

Lemma all_nonzero_app : forall a b, all_nonzero a -> all_nonzero b -> all_nonzero (a ++ b).
Proof. intros a b Ha Hb x Hx. apply in_app_or in Hx. destruct Hx; [apply Ha | apply Hb]; assumption. Qed.

Lemma forallb_nonzero : forall l, forallb (fun x => negb (N.eqb x 0)) l = true -> all_nonzero l.
Proof.
  intros l H x Hx. rewrite forallb_forall in H. specialize (H x Hx).
  intros ->. discriminate.
Qed.

Lemma oracle_nonzero_parts : forall o, oracle_nonzero o = true ->
  all_nonzero (o_raise_sel o) /\ all_nonzero (o_raise_ms o) /\ all_nonzero (o_raise_inv o).
Proof.
  intros o H. unfold oracle_nonzero in H. rewrite !forallb_app, !andb_true_iff in H.
  destruct H as [H1 [H2 H3]]. repeat split; apply forallb_nonzero; assumption.
Qed.

Definition ok_oracle (v : ctl_variant) (o : oracle) : bool := cv_drop_unnamed v || oracle_nonzero o.

Lemma filter_nonzero_all : forall l, all_nonzero (filter (fun x => negb (N.eqb x 0)) l).
Proof.
  intros l x Hx. apply filter_In in Hx. destruct Hx as [_ Hx]. intros ->. discriminate.
Qed.

Lemma enq_int_nonzero : forall v o, ok_oracle v o = true ->
  all_nonzero (enq_int v (o_raise_sel o)) /\ all_nonzero (enq_int v (o_raise_ms o)) /\
  all_nonzero (enq_int v (o_raise_inv o)).
Proof.
  intros v o H. unfold ok_oracle in H. unfold enq_int. destruct (cv_drop_unnamed v); cbn in H.
  - repeat split; apply filter_nonzero_all.
  - apply oracle_nonzero_parts. exact H.
Qed.

Record Inv (v : ctl_variant) (s : cst) (rtr : list act) : Prop := mkInv {
  inv_found : f_found (c_fl s) = false;
  inv_stable : f_stable (c_fl s) = true -> c_invdone s = true /\ f_spont (c_fl s) = false;
  inv_eventless : is_pristine (c_fl s) = false -> f_spont (c_fl s) = false ->
                  last_eventless rtr = Some false;
  inv_strict : cv_recheck v = true -> is_pristine (c_fl s) = false -> f_spont (c_fl s) = false ->
               eventless_since_last_event rtr = true
}.

Lemma Inv_init : forall v, Inv v cinit [].
Proof. intros v. constructor; cbn; intros; try reflexivity; try discriminate. Qed.

Ltac inv_simpl :=
  cbn [c_fl c_iq c_eq c_isinit c_cancelled c_invdone set_flags set_iq set_eq set_invdone
       fl_spont fl_stable fl_topfinal fl_finished fl_found fl_init
       f_spont f_init f_topfinal f_found f_finished f_stable
       rev app last_eventless eventless_since_last_event] in *.

Lemma deq_named_none_nonzero : forall q r q', all_nonzero q -> deq q = (r, q') -> named r = None ->
  q = [] /\ q' = [] /\ r = None.
Proof.
  intros q r q' Hq Hd Hn. destruct q as [|x q]; cbn in Hd; inversion Hd; subst.
  - repeat split.
  - cbn in Hn. destruct (N.eqb x 0) eqn:E; [|discriminate]. apply N.eqb_eq in E.
    exfalso. apply (Hq x); [left; reflexivity | exact E].
Qed.

Lemma deq_nonzero : forall q r q', all_nonzero q -> deq q = (r, q') -> all_nonzero q'.
Proof.
  intros q r q' Hq Hd. destruct q as [|x q]; cbn in Hd; inversion Hd; subst; [exact Hq|].
  intros y Hy. apply Hq. right. exact Hy.
Qed.

Local Arguments quiescent_at : simpl never.
Local Arguments strict_at : simpl never.

(* the proof state carried along a run *)
Record Good (v : ctl_variant) (s : cst) (rtr : list act) : Prop := mkGood {
  g_inv : Inv v s rtr;
  g_nonzero : all_nonzero (c_iq s);
  g_quiescent : ext_quiescent_r quiescent_at rtr = true;
  g_strict : cv_recheck v = true -> ext_quiescent_r strict_at rtr = true
}.

Lemma Good_init : forall v, Good v cinit [].
Proof.
  intros v. constructor; [apply Inv_init | intros x [] | reflexivity | reflexivity].
Qed.

(* ESTABLISH_ENTRYSET ... : reached with SPONTANEOUS set, STABLE and TRANSITION_FOUND clear *)
Lemma microstep_good : forall v s o rtr s' a,
  f_found (c_fl s) = false -> f_stable (c_fl s) = false -> f_spont (c_fl s) = true ->
  all_nonzero (c_iq s) -> ok_oracle v o = true ->
  ext_quiescent_r quiescent_at rtr = true -> (cv_recheck v = true -> ext_quiescent_r strict_at rtr = true) ->
  microstep v s o = (s', a) ->
  Good v s' (rev a ++ rtr).
Proof.
  intros v s o rtr s' a Hf Hst Hsp Hnz Ho Hq Hs H. unfold microstep in H. inversion H; subst; clear H.
  destruct (enq_int_nonzero v o Ho) as [_ [Hms _]].
  constructor.
  - constructor; destruct (o_topfinal o); inv_simpl; try assumption; intros; congruence.
  - destruct (o_topfinal o); inv_simpl; apply all_nonzero_app; assumption.
  - cbn. exact Hq.
  - intros Hr. cbn. apply Hs. exact Hr.
Qed.

(* SELECT_TRANSITIONS: rtr0 is the trace up to the label *)
Lemma select_good : forall v s e o rtr0 s' a,
  f_found (c_fl s) = false ->
  all_nonzero (c_iq s) -> ok_oracle v o = true ->
  ext_quiescent_r quiescent_at rtr0 = true -> (cv_recheck v = true -> ext_quiescent_r strict_at rtr0 = true) ->
  is_pristine (c_fl s) = false ->
  (match e with Some _ => last_eventless rtr0 = Some false | None => True end) ->
  select v s e o = (s', a) ->
  Good v s' (rev a ++ rtr0).
Proof.
  intros v s e o rtr0 s' a Hf Hnz Ho Hq Hs Hp He H. unfold select in H. inv_simpl.
  destruct (enq_int_nonzero v o Ho) as [Hsel [Hms _]].
  destruct (o_enabled o) eqn:En.
  - (* a transition is enabled: micro step *)
    unfold microstep in H. inversion H; subst; clear H. constructor.
    + constructor; destruct (o_topfinal o); inv_simpl; try reflexivity; intros; congruence.
    + destruct (o_topfinal o); inv_simpl; repeat apply all_nonzero_app; assumption.
    + cbn. exact Hq.
    + intros Hr. cbn. apply Hs. exact Hr.
  - inversion H; subst; clear H. constructor.
    + constructor; inv_simpl.
      * reflexivity.
      * intros H; discriminate.
      * intros _ Hsp. destruct e as [x|]; cbn; [exact He | reflexivity].
      * intros Hr _ Hsp. rewrite Hr in Hsp. destruct e as [x|]; cbn in *; [discriminate | reflexivity].
    + inv_simpl. apply all_nonzero_app; assumption.
    + cbn. exact Hq.
    + intros Hr. cbn. apply Hs. exact Hr.
Qed.

Theorem cstep_good : forall v s o rtr s' a,
  Good v s rtr -> ok_oracle v o = true -> cstep v s o = (s', a) -> Good v s' (rev a ++ rtr).
Proof.
  intros v s o rtr s' a [HI Hnz Hq Hs] Ho H. unfold cstep in H.
  destruct (c_isinit s) eqn:Ei; cbn [negb] in H.
  2:{ inversion H; subst; clear H. destruct HI as [I1 I2 I3 I4]. constructor; [constructor|..]; inv_simpl; cbn; assumption. }
  destruct (f_finished (c_fl s)) eqn:Efin.
  { inversion H; subst; clear H. destruct HI as [I1 I2 I3 I4]. constructor; [constructor|..]; inv_simpl; cbn; assumption. }
  destruct (f_topfinal (c_fl s)) eqn:Etf.
  { inversion H; subst; clear H. destruct HI as [I1 I2 I3 I4].
    constructor; [constructor|..]; inv_simpl; cbn; try assumption.
    - intros Hp. apply I3. destruct (c_fl s) as [[] [] [] [] [] []]; cbn in *; congruence.
    - intros Hr Hp. apply I4; [exact Hr|]. destruct (c_fl s) as [[] [] [] [] [] []]; cbn in *; congruence. }
  destruct (is_pristine (c_fl s)) eqn:Ep.
  { (* first micro step *)
    destruct HI as [I1 I2 I3 I4].
    refine (microstep_good v _ o rtr s' a _ _ _ _ Ho Hq Hs H); inv_simpl; try reflexivity; try assumption.
    destruct (c_fl s) as [[] [] [] [] [] []]; cbn in *; congruence. }
  destruct (f_spont (c_fl s)) eqn:Esp.
  { (* event-less selection *)
    destruct HI as [I1 I2 I3 I4]. exact (select_good v s None o rtr s' a I1 Hnz Ho Hq Hs Ep I H). }
  destruct (deq (c_iq s)) as [r iq'] eqn:Ed.
  assert (Hnz' : all_nonzero iq') by (eapply deq_nonzero; eassumption).
  destruct (named r) as [x|] eqn:En.
  { (* an internal event *)
    destruct (select v (set_iq s iq') (Some x) o) as [s2 a2] eqn:Es. inversion H; subst; clear H.
    destruct HI as [I1 I2 I3 I4].
    match goal with |- Good _ _ (rev ?l ++ rtr) =>
      replace (rev l ++ rtr) with (rev a2 ++ (AEvent false x :: ADeqInt r :: rtr))
        by (cbn; rewrite <- ?app_assoc; reflexivity) end.
    refine (select_good v _ (Some x) o _ s' a2 _ _ Ho _ _ _ _ Es); inv_simpl; try assumption.
    all: cbn; try exact Hq; try (apply I3; assumption); try (intros Hr; apply Hs; exact Hr). }
  (* dequeueInternal returned nothing *)
  destruct (deq_named_none_nonzero _ _ _ Hnz Ed En) as [Hiq [Hiq' Hr]]. subst iq' r.
  destruct HI as [I1 I2 I3 I4].
  destruct (c_invdone s) eqn:Einv; inv_simpl.
  - (* nothing to invoke *)
    rewrite Einv in H. inv_simpl.
    destruct (f_stable (c_fl s)) eqn:Est; cbn [negb] in H.
    + (* STABLE already signalled: dequeueExternal *)
      destruct (deq (c_eq s)) as [r2 eq'] eqn:Ed2. inv_simpl.
      assert (Hq0 : quiescent_at (ADeqInt None :: rtr) 0 = true).
      { unfold quiescent_at. cbn. rewrite (I3 Ep Esp). reflexivity. }
      assert (Hs0 : cv_recheck v = true -> strict_at (ADeqInt None :: rtr) 0 = true).
      { intros Hr. unfold strict_at. rewrite Hq0. cbn. apply I4; assumption. }
      destruct (named r2) as [x|] eqn:En2.
      * destruct (select v (set_eq (set_iq s []) eq') (Some x) o) as [s4 a4] eqn:Es. inversion H; subst; clear H.
        match goal with |- Good _ _ (rev ?l ++ rtr) =>
          replace (rev l ++ rtr) with (rev a4 ++ (AEvent true x :: ADeqExt 0 r2 :: ADeqInt None :: rtr))
            by (cbn; rewrite <- ?app_assoc; reflexivity) end.
        refine (select_good v _ (Some x) o _ s' a4 _ _ Ho _ _ _ _ Es); inv_simpl; try assumption.
        all: cbn; try (intros y []); try (apply I3; assumption);
          try (rewrite Hq0, Hq; reflexivity); try (intros Hr; rewrite (Hs0 Hr), (Hs Hr); reflexivity).
      * destruct (c_cancelled s) eqn:Ec; inversion H; subst; clear H.
        -- constructor; [constructor|..]; inv_simpl; cbn.
           ++ exact I1.
           ++ intros _. split; [exact Einv | exact Esp].
           ++ intros _ _. apply I3; assumption.
           ++ intros Hr _ _. apply I4; assumption.
           ++ intros y [].
           ++ rewrite Hq0, Hq. reflexivity.
           ++ intros Hr. rewrite (Hs0 Hr), (Hs Hr). reflexivity.
        -- constructor; [constructor|..]; inv_simpl; cbn.
           ++ exact I1.
           ++ intros _. split; [exact Einv | exact Esp].
           ++ intros _ _. apply I3; assumption.
           ++ intros Hr _ _. apply I4; assumption.
           ++ intros y [].
           ++ rewrite Hq0, Hq. reflexivity.
           ++ intros Hr. rewrite (Hs0 Hr), (Hs Hr). reflexivity.
    + (* signal the stable configuration *)
      inversion H; subst; clear H. constructor; [constructor|..]; inv_simpl; cbn.
      * exact I1.
      * intros _. split; [exact Einv | exact Esp].
      * intros _ _. apply I3; assumption.
      * intros Hr _ _. apply I4; assumption.
      * intros y [].
      * exact Hq.
      * intros Hr. apply Hs. exact Hr.
  - (* invoke handling ran: STABLE cannot be set *)
    rewrite Einv in H. inv_simpl.
    destruct (f_stable (c_fl s)) eqn:Est; cbn [negb] in H.
    + destruct (I2 eq_refl) as [Hc _]. congruence.
    + destruct (enq_int_nonzero v o Ho) as [_ [_ Hinv]].
      inversion H; subst; clear H. constructor; [constructor|..]; inv_simpl; cbn.
      * exact I1.
      * intros _. split; [reflexivity | exact Esp].
      * intros _ _. apply I3; assumption.
      * intros Hr _ _. apply I4; assumption.
      * exact Hinv.
      * exact Hq.
      * intros Hr. apply Hs. exact Hr.
Qed.

Lemma cinput_good : forall v s i rtr s' a,
  Good v s rtr -> (match i with IStep o => ok_oracle v o = true | _ => True end) ->
  cinput v s i = (s', a) -> Good v s' (rev a ++ rtr).
Proof.
  intros v s i rtr s' a G Hi H. destruct i as [o | e |]; cbn in H.
  - eapply cstep_good; eassumption.
  - inversion H; subst; clear H. destruct G as [[I1 I2 I3 I4] Hnz Hq Hs].
    constructor; [constructor|..]; inv_simpl; cbn; assumption.
  - inversion H; subst; clear H. destruct G as [[I1 I2 I3 I4] Hnz Hq Hs].
    constructor; [constructor|..]; inv_simpl; cbn; assumption.
Qed.

Definition inputs_ok_all (v : ctl_variant) (ins : list input) : Prop :=
  forall i, In i ins -> match i with IStep o => ok_oracle v o = true | _ => True end.

Lemma inputs_ok_all_of : forall v ins, inputs_ok v ins = true -> inputs_ok_all v ins.
Proof.
  intros v ins H i Hi. destruct i as [o| |]; try exact I. unfold inputs_ok in H. unfold ok_oracle.
  destruct (cv_drop_unnamed v); [reflexivity|]. cbn in *. unfold inputs_nonzero in H.
  rewrite forallb_forall in H. exact (H _ Hi).
Qed.

Lemma crun_good : forall v ins s rtr, Good v s rtr -> inputs_ok_all v ins ->
  Good v (fst (crun v s rtr ins)) (snd (crun v s rtr ins)).
Proof.
  intros v ins. induction ins as [|i ins IH]; intros s rtr G Hn; [exact G|].
  cbn [crun]. destruct (cinput v s i) as [s' a] eqn:E. apply IH.
  - eapply cinput_good; [exact G | apply Hn; left; reflexivity | exact E].
  - intros j Hj. apply Hn. right. exact Hj.
Qed.

(* PRINCIPAL: for every input sequence (steps with arbitrary oracle answers, arrivals of external events at
   any time, cancel), whenever dequeueExternal is reached: the act just before is a dequeueInternal that
   returned nothing, the internal queue is empty, and the most recent event-less selection found no
   transition.  Hypothesis: no raised internal event has the empty name (see the _refuted lemma). *)
Theorem external_only_when_quiescent_lemma : forall v ins,
  inputs_ok v ins = true -> ext_quiescent (ctrace v ins).
Proof.
  intros v ins Hn. apply ext_quiescentb_ok. unfold ext_quiescentb, ctrace. rewrite rev_involutive.
  apply (g_quiescent _ _ _ (crun_good v ins cinit [] (Good_init v) (inputs_ok_all_of v ins Hn))).
Qed.

(* the repaired control flow additionally guarantees: no event was read since an event-less selection that
   found nothing (the Recommendation's loop structure) *)
Theorem external_strictly_quiescent_repaired : forall ins,
  ext_strictly_quiescent (ctrace cv_repaired ins) /\ ext_quiescent (ctrace cv_repaired ins).
Proof.
  intros ins.
  assert (Hn : inputs_ok_all cv_repaired ins) by (apply inputs_ok_all_of; reflexivity).
  split.
  - apply ext_strictly_quiescentb_ok. unfold ext_strictly_quiescentb, ctrace. rewrite rev_involutive.
    apply (g_strict _ _ _ (crun_good cv_repaired ins cinit [] (Good_init _) Hn)). reflexivity.
  - apply ext_quiescentb_ok. unfold ext_quiescentb, ctrace. rewrite rev_involutive.
    apply (g_quiescent _ _ _ (crun_good cv_repaired ins cinit [] (Good_init _) Hn)).
Qed.

(* ... which the code as written violates: an external event that enables no transition is followed by the
   next external event without an event-less selection in between *)
Definition o_none : oracle := mkO false [] [] [] false.
Definition o_take : oracle := mkO true [] [] [] false.
Definition witness_unmatched : list input :=
  [IStep o_none; IStep o_none; IStep o_none; IStep o_none; IArrive 1%N; IArrive 2%N;
   IStep o_none; IStep o_none; IStep o_none].

Theorem external_strictly_quiescent_refuted :
  exists ins, inputs_nonzero ins = true /\ ~ ext_strictly_quiescent (ctrace cv_as_written ins).
Proof.
  exists witness_unmatched. split; [reflexivity|]. intros H.
  apply ext_strictly_quiescentb_ok in H. vm_compute in H. discriminate.
Qed.

(* an internal event with an empty name is taken for "queue empty": the external queue is read although
   internal events are waiting behind it *)
Definition witness_empty_name : list input :=
  [IStep o_none; IStep (mkO false [] [0%N; 0%N; 7%N] [] false); IStep o_none; IStep o_none;
   IArrive 1%N; IStep o_none; IStep o_none].

Theorem empty_named_internal_event_refuted :
  exists ins, ~ ext_quiescent (ctrace cv_as_written ins).
Proof.
  exists witness_empty_name. intros H. apply ext_quiescentb_ok in H. vm_compute in H. discriminate.
Qed.

(* the hypotheses are satisfiable and the theorem is not vacuous: a run that does read external events *)
Example quiescent_example :
  inputs_nonzero witness_unmatched = true /\
  ext_taken (ctrace cv_as_written witness_unmatched) = [1%N; 2%N] /\
  ext_quiescentb (ctrace cv_as_written witness_unmatched) = true.
Proof. vm_compute. repeat split. Qed.

(* ------------------------------------------------------------------------------------------------ *)
(* queue accounting: both queues are consumed in the order they were filled, nothing twice *)

Lemma flat_map_app' : forall (A B : Type) (f : A -> list B) a b, flat_map f (a ++ b) = flat_map f a ++ flat_map f b.
Proof. intros. apply flat_map_app. Qed.

Definition accounted (s : cst) (tr : list act) : Prop :=
  int_taken tr ++ c_iq s = raised tr /\ ext_taken tr ++ c_eq s = arrived tr.

Lemma deq_split : forall q r q', deq q = (r, q') -> q = (match r with Some x => [x] | None => [] end) ++ q'.
Proof. intros [|x q] r q' H; cbn in H; inversion H; subst; reflexivity. Qed.

Lemma named_some : forall r x, named r = Some x -> r = Some x.
Proof. intros [y|] x H; cbn in H; [|discriminate]. destruct (N.eqb y 0); [discriminate | exact H]. Qed.

Lemma select_acct : forall v s e o s' a, select v s e o = (s', a) ->
  c_eq s' = c_eq s /\ c_iq s' = c_iq s ++ raised a /\ int_taken a = [] /\ ext_taken a = [] /\ arrived a = [].
Proof.
  intros v s e o s' a H. unfold select, microstep in H. inv_simpl.
  destruct (o_enabled o); inversion H; subst; clear H; destruct (o_topfinal o); inv_simpl; cbn;
    rewrite ?app_nil_r, <- ?app_assoc; repeat split; reflexivity.
Qed.

Lemma cstep_acct : forall v s o s' a, cstep v s o = (s', a) ->
  int_taken a ++ c_iq s' = c_iq s ++ raised a /\ ext_taken a ++ c_eq s' = c_eq s /\ arrived a = [].
Proof.
  intros v s o s' a H. unfold cstep in H.
  destruct (c_isinit s); cbn [negb] in H; [|inversion H; subst; cbn; rewrite app_nil_r; repeat split; reflexivity].
  destruct (f_finished (c_fl s)); [inversion H; subst; cbn; rewrite app_nil_r; repeat split; reflexivity|].
  destruct (f_topfinal (c_fl s)); [inversion H; subst; cbn; rewrite app_nil_r; repeat split; reflexivity|].
  destruct (is_pristine (c_fl s)).
  { unfold microstep in H. inversion H; subst; clear H. destruct (o_topfinal o); inv_simpl; cbn;
      rewrite ?app_nil_r; repeat split; reflexivity. }
  destruct (f_spont (c_fl s)).
  { destruct (select_acct _ _ _ _ _ _ H) as [H1 [H2 [H3 [H4 H5]]]]. rewrite H3, H4, H1, H2. repeat split; assumption. }
  destruct (deq (c_iq s)) as [r iq'] eqn:Ed. pose proof (deq_split _ _ _ Ed) as Hq.
  destruct (named r) as [x|] eqn:En.
  { destruct (select v (set_iq s iq') (Some x) o) as [s2 a2] eqn:Es. inversion H; subst; clear H.
    destruct (select_acct _ _ _ _ _ _ Es) as [H1 [H2 [H3 [H4 H5]]]]. inv_simpl.
    unfold int_taken, ext_taken, arrived, raised in *. rewrite ?flat_map_app'. cbn [flat_map app].
    rewrite H3, H4, H5, H1, H2, Hq. rewrite (named_some _ _ En). cbn. rewrite ?app_nil_r.
    repeat split; reflexivity. }
  destruct (c_invdone s) eqn:Einv; inv_simpl; rewrite Einv in H; inv_simpl.
  - destruct (f_stable (c_fl s)); cbn [negb] in H.
    + destruct (deq (c_eq s)) as [r2 eq'] eqn:Ed2. pose proof (deq_split _ _ _ Ed2) as Hq2. inv_simpl.
      destruct (named r2) as [x|] eqn:En2.
      * destruct (select v (set_eq (set_iq s iq') eq') (Some x) o) as [s4 a4] eqn:Es. inversion H; subst; clear H.
        destruct (select_acct _ _ _ _ _ _ Es) as [H1 [H2 [H3 [H4 H5]]]]. inv_simpl.
        unfold int_taken, ext_taken, arrived, raised in *. rewrite ?flat_map_app'. cbn [flat_map app].
        rewrite ?flat_map_app'. cbn [flat_map app]. rewrite H3, H4, H5, H1, H2, Hq, Hq2.
        rewrite (named_some _ _ En2).
        destruct r as [y|]; cbn; rewrite ?app_nil_r; repeat split; reflexivity.
      * destruct (c_cancelled s); inversion H; subst; clear H; inv_simpl;
          unfold int_taken, ext_taken, arrived, raised; rewrite ?flat_map_app'; cbn [flat_map app];
          rewrite Hq, Hq2; destruct r as [y|], r2 as [z|]; cbn; rewrite ?app_nil_r; repeat split; reflexivity.
    + inversion H; subst; clear H; inv_simpl. rewrite Hq. destruct r as [y|]; cbn; rewrite ?app_nil_r; repeat split; reflexivity.
  - destruct (f_stable (c_fl s)); cbn [negb] in H.
    + destruct (deq (c_eq s)) as [r2 eq'] eqn:Ed2. pose proof (deq_split _ _ _ Ed2) as Hq2. inv_simpl.
      destruct (named r2) as [x|] eqn:En2.
      * destruct (select v (set_eq (set_invdone (set_iq (set_iq s iq') (iq' ++ enq_int v (o_raise_inv o))) true) eq') (Some x) o) as [s4 a4] eqn:Es.
        inversion H; subst; clear H.
        destruct (select_acct _ _ _ _ _ _ Es) as [H1 [H2 [H3 [H4 H5]]]]. inv_simpl.
        unfold int_taken, ext_taken, arrived, raised in *. rewrite ?flat_map_app'. cbn [flat_map app].
        rewrite ?flat_map_app'. cbn [flat_map app]. rewrite H3, H4, H5, H1, H2, Hq, Hq2.
        rewrite (named_some _ _ En2).
        destruct r as [y|]; cbn; rewrite ?app_nil_r, <- ?app_assoc; repeat split; reflexivity.
      * destruct (c_cancelled s); inversion H; subst; clear H; inv_simpl;
          unfold int_taken, ext_taken, arrived, raised; rewrite ?flat_map_app'; cbn [flat_map app];
          rewrite Hq, Hq2; destruct r as [y|], r2 as [z|]; cbn; rewrite ?app_nil_r, <- ?app_assoc; repeat split; reflexivity.
    + inversion H; subst; clear H; inv_simpl. rewrite Hq. destruct r as [y|]; cbn; rewrite ?app_nil_r, <- ?app_assoc; repeat split; reflexivity.
Qed.

Lemma cinput_acct : forall v s i s' a, cinput v s i = (s', a) ->
  int_taken a ++ c_iq s' = c_iq s ++ raised a /\ ext_taken a ++ c_eq s' = c_eq s ++ arrived a.
Proof.
  intros v s i s' a H. destruct i as [o | e |]; cbn in H.
  - destruct (cstep_acct _ _ _ _ _ H) as [H1 [H2 H3]]. rewrite H3, app_nil_r. split; assumption.
  - inversion H; subst; cbn. rewrite app_nil_r. split; reflexivity.
  - inversion H; subst; cbn. rewrite app_nil_r. split; reflexivity.
Qed.

Lemma crun_acct : forall v ins s rtr, accounted s (rev rtr) ->
  accounted (fst (crun v s rtr ins)) (rev (snd (crun v s rtr ins))).
Proof.
  intros v ins. induction ins as [|i ins IH]; intros s rtr A; [exact A|].
  cbn [crun]. destruct (cinput v s i) as [s' a] eqn:E. apply IH.
  destruct (cinput_acct _ _ _ _ _ E) as [H1 H2]. destruct A as [A1 A2].
  unfold accounted, int_taken, ext_taken, raised, arrived in *.
  rewrite rev_app_distr, rev_involutive, !flat_map_app'. split.
  - rewrite <- app_assoc, H1, app_assoc, A1. reflexivity.
  - rewrite <- app_assoc, H2, app_assoc, A2. reflexivity.
Qed.

(* internal events are taken from the internal queue in the order they were raised, each at most once;
   external events in the order they arrived at the external queue, each at most once -- for every run *)
Theorem internal_fifo_lemma : forall v ins,
  let s := fst (crun v cinit [] ins) in
  int_taken (ctrace v ins) ++ c_iq s = raised (ctrace v ins).
Proof. intros v ins. apply (crun_acct v ins cinit []). split; reflexivity. Qed.

Theorem external_fifo_lemma : forall v ins,
  let s := fst (crun v cinit [] ins) in
  ext_taken (ctrace v ins) ++ c_eq s = arrived (ctrace v ins).
Proof. intros v ins. apply (crun_acct v ins cinit []). split; reflexivity. Qed.

(* ------------------------------------------------------------------------------------------------ *)
(* the monitor-level oracle accepts every run of the model *)

Lemma pend_after_app : forall a b p,
  pend_after p (a ++ b) = match pend_after p a with Some p' => pend_after p' b | None => None end.
Proof.
  induction a as [|t a IH]; intros b p; [reflexivity|].
  destruct t as [e | e | e]; cbn.
  - destruct p; [apply IH | reflexivity].
  - destruct p as [|x p]; [reflexivity|]. destruct (N.eqb x e); [apply IH | reflexivity].
  - apply IH.
Qed.

Lemma pend_after_raises : forall l p, pend_after p (map TRaise l) = Some (p ++ l).
Proof.
  induction l as [|e l IH]; intros p; cbn; [rewrite app_nil_r; reflexivity|].
  rewrite IH, <- app_assoc. reflexivity.
Qed.

Lemma toks_of_app : forall a b, toks_of (a ++ b) = toks_of a ++ toks_of b.
Proof. intros. apply flat_map_app. Qed.

Lemma select_pend : forall v s e o s' a, select v s e o = (s', a) ->
  pend_after (c_iq s) (toks_of a) = Some (c_iq s').
Proof.
  intros v s e o s' a H. unfold select, microstep in H. inv_simpl.
  destruct (o_enabled o); inversion H; subst; clear H; destruct (o_topfinal o); inv_simpl;
    cbn [toks_of flat_map app]; rewrite ?app_nil_r, ?pend_after_app, ?pend_after_raises; cbn;
    rewrite ?pend_after_raises; reflexivity.
Qed.

Lemma cstep_pend : forall v s o rtr s' a,
  Good v s rtr -> ok_oracle v o = true -> cstep v s o = (s', a) ->
  pend_after (c_iq s) (toks_of a) = Some (c_iq s').
Proof.
  intros v s o rtr s' a [[I1 I2 I3 I4] Hnz Hq Hs] Ho H. unfold cstep in H.
  destruct (c_isinit s); cbn [negb] in H; [|inversion H; subst; reflexivity].
  destruct (f_finished (c_fl s)); [inversion H; subst; reflexivity|].
  destruct (f_topfinal (c_fl s)); [inversion H; subst; reflexivity|].
  destruct (is_pristine (c_fl s)).
  { unfold microstep in H. inversion H; subst; clear H. destruct (o_topfinal o); inv_simpl;
      cbn [toks_of flat_map app]; rewrite ?app_nil_r, pend_after_raises; reflexivity. }
  destruct (f_spont (c_fl s)); [eapply select_pend; exact H|].
  destruct (deq (c_iq s)) as [r iq'] eqn:Ed. pose proof (deq_split _ _ _ Ed) as Hsplit.
  destruct (named r) as [x|] eqn:En.
  { destruct (select v (set_iq s iq') (Some x) o) as [s2 a2] eqn:Es. inversion H; subst; clear H.
    rewrite (named_some _ _ En) in Hsplit. rewrite Hsplit. cbn [toks_of flat_map app].
    cbn. rewrite N.eqb_refl. apply (select_pend _ _ _ _ _ _ Es). }
  destruct (deq_named_none_nonzero _ _ _ Hnz Ed En) as [Hiq [Hiq' Hr]]. subst iq' r. rewrite Hiq.
  destruct (c_invdone s) eqn:Einv; inv_simpl; rewrite Einv in H; inv_simpl.
  - destruct (f_stable (c_fl s)); cbn [negb] in H.
    + destruct (deq (c_eq s)) as [r2 eq'] eqn:Ed2. inv_simpl.
      destruct (named r2) as [x|] eqn:En2.
      * destruct (select v (set_eq (set_iq s []) eq') (Some x) o) as [s4 a4] eqn:Es. inversion H; subst; clear H.
        cbn [toks_of flat_map app]. cbn. apply (select_pend _ _ _ _ _ _ Es).
      * destruct (c_cancelled s); inversion H; subst; reflexivity.
    + inversion H; subst; reflexivity.
  - destruct (f_stable (c_fl s)) eqn:Est; cbn [negb] in H.
    + destruct (I2 eq_refl) as [Hc _]. congruence.
    + inversion H; subst; clear H. inv_simpl. cbn [toks_of flat_map app]. rewrite app_nil_r.
      rewrite pend_after_raises. reflexivity.
Qed.

Lemma cinput_pend : forall v s i rtr s' a,
  Good v s rtr -> (match i with IStep o => ok_oracle v o = true | _ => True end) ->
  cinput v s i = (s', a) -> pend_after (c_iq s) (toks_of a) = Some (c_iq s').
Proof.
  intros v s i rtr s' a G Hi H. destruct i as [o | e |]; cbn in H.
  - eapply cstep_pend; eassumption.
  - inversion H; subst; reflexivity.
  - inversion H; subst; reflexivity.
Qed.

Lemma crun_pend : forall v ins s rtr, Good v s rtr -> inputs_ok_all v ins ->
  pend_after [] (toks_of (rev rtr)) = Some (c_iq s) ->
  pend_after [] (toks_of (rev (snd (crun v s rtr ins)))) = Some (c_iq (fst (crun v s rtr ins))).
Proof.
  intros v ins. induction ins as [|i ins IH]; intros s rtr G Hn Hp; [exact Hp|].
  cbn [crun]. destruct (cinput v s i) as [s' a] eqn:E.
  assert (Hi' : match i with IStep o => ok_oracle v o = true | _ => True end)
    by (apply Hn; left; reflexivity).
  apply IH; [eapply cinput_good; eassumption | intros j Hj; apply Hn; right; exact Hj |].
  rewrite rev_app_distr, rev_involutive, toks_of_app, pend_after_app, Hp.
  eapply cinput_pend; eassumption.
Qed.

Theorem macrostep_tokens_ok_lemma : forall v ins,
  inputs_ok v ins = true -> macrostep_okb (toks_of (ctrace v ins)) = true.
Proof.
  intros v ins Hn. unfold macrostep_okb, ctrace.
  rewrite (crun_pend v ins cinit [] (Good_init v) (inputs_ok_all_of v ins Hn) eq_refl). reflexivity.
Qed.

(* ------------------------------------------------------------------------------------------------ *)
(* the skeleton of step() regenerated from both engines' source is the one the model was written against *)
Lemma engines_same_landmarks :
  stepctl_source_ok = true /\
  exists recheck, large_landmarks = landmarks_for recheck /\ fast_landmarks = landmarks_for recheck.
Proof.
  split; [reflexivity|].
  first [ exists false; split; vm_compute; reflexivity | exists true; split; vm_compute; reflexivity ].
Qed.
