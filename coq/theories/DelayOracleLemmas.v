(* DelayOracleLemmas.v -- C09: the executable oracle [delay_admissibleb] (Delay.v), which judges
   the histories observed on the implementation, accepts every history of the model. *)
From V Require Import Base Delay DelayLemmas.
Local Open Scope N_scope.

Lemma send_of_in tr u s g e d :
  NoDup (sent_uuids tr) -> In (ESend u s g e d) tr -> send_of tr u = Some (s, g, e, d).
Proof.
  induction tr as [|o tr IH]; cbn; [easy|]. intros Hnd [->|Hin].
  - now rewrite N.eqb_refl.
  - destruct o as [u' s' g' e' d'| | |]; cbn in Hnd; auto.
    inversion Hnd as [|? ? Hni Hnd']; subst.
    destruct (u' =? u) eqn:E; [|auto]. apply N.eqb_eq in E; subst u'.
    exfalso. apply Hni. eapply sent_in; eauto.
Qed.

Lemma send_of_some tr u s g e d : send_of tr u = Some (s, g, e, d) -> In (ESend u s g e d) tr.
Proof.
  induction tr as [|o tr IH]; cbn; [discriminate|].
  destruct o as [u' s' g' e' d'| | |]; auto.
  destruct (u' =? u) eqn:E; [|auto]. apply N.eqb_eq in E; subst. intros [= -> -> -> ->]. now left.
Qed.

(* --- never early --- *)
Lemma not_early_b_inv s : Inv1 s -> not_early_b (trace s) = true.
Proof.
  intros HI. unfold not_early_b. apply forallb_forall. intros o Ho.
  destruct o as [| |u t g b|]; auto.
  destruct (i_dlv _ HI _ _ _ _ Ho) as (_ & sid & tgt & enq & d & Hs & Hle).
  rewrite (send_of_in _ _ _ _ _ _ (sent_nodup _ HI) Hs). now apply N.leb_le.
Qed.

(* --- due order --- *)
Lemma due_order_inv s l1 l2 l3 u1 t1 g1 u2 t2 g2 s1 a1 e1 d1 s2 a2 e2 d2 :
  Inv1 s -> InvOrd s ->
  trace s = l1 ++ EDeliver u2 t2 g2 true :: l2 ++ EDeliver u1 t1 g1 true :: l3 ->
  In (ESend u1 s1 a1 e1 d1) (trace s) -> In (ESend u2 s2 a2 e2 d2) (trace s) ->
  e1 + d1 <= e2 + d2.
Proof.
  intros HI HO Heq Hs1 Hs2.
  destruct (o_dlv _ HO _ _ _ _ _ Heq) as [x2 Hx2].
  assert (Heq' : trace s = (l1 ++ EDeliver u2 t2 g2 true :: l2) ++ EDeliver u1 t1 g1 true :: l3).
  { rewrite Heq. now rewrite <- app_assoc. }
  destruct (o_dlv _ HO _ _ _ _ _ Heq') as [x1 Hx1].
  assert (Hle : x1 <= x2).
  { change (l2 ++ EDeliver u1 t1 g1 true :: l3) with (l2 ++ [EDeliver u1 t1 g1 true] ++ l3) in Hx2.
    rewrite app_assoc in Hx2.
    eapply last_expire_sorted; [|exact Hx2|exact Hx1].
    pose proof (o_sorted _ HO) as Hso. rewrite Heq in Hso.
    rewrite expire_dues_app in Hso. apply sorted_ge_app_r in Hso. cbn in Hso.
    change (l2 ++ EDeliver u1 t1 g1 true :: l3) with (l2 ++ [EDeliver u1 t1 g1 true] ++ l3) in Hso.
    now rewrite app_assoc in Hso. }
  assert (Hin1 : In (EExpire u1 x1) (trace s)).
  { rewrite Heq'. apply in_or_app. right. right. now apply last_expire_in. }
  assert (Hin2 : In (EExpire u2 x2) (trace s)).
  { rewrite Heq. apply in_or_app. right. right. now apply last_expire_in. }
  destruct (o_sent _ HO _ _ Hin1) as (a & b & c & e & Hsa & ->).
  destruct (o_sent _ HO _ _ Hin2) as (a' & b' & c' & e' & Hsb & ->).
  destruct (send_unique _ _ _ _ _ _ _ _ _ _ (sent_nodup _ HI) Hs1 Hsa) as (_ & _ & -> & ->).
  destruct (send_unique _ _ _ _ _ _ _ _ _ _ (sent_nodup _ HI) Hs2 Hsb) as (_ & _ & -> & ->).
  exact Hle.
Qed.

Lemma timer_dues_in suf full d' :
  In d' (timer_dues suf full) ->
  exists r1 u t g r2 s a e dl, suf = r1 ++ EDeliver u t g true :: r2 /\
    send_of full u = Some (s, a, e, dl) /\ d' = e + dl.
Proof.
  induction suf as [|o suf IH]; cbn; [easy|].
  assert (Hrec : In d' (timer_dues suf full) ->
    exists r1 u t g r2 s a e dl, o :: suf = r1 ++ EDeliver u t g true :: r2 /\
      send_of full u = Some (s, a, e, dl) /\ d' = e + dl).
  { intros H. destruct (IH H) as (r1 & u & t & g & r2 & s0 & a & e & dl & -> & Hs & ->).
    exists (o :: r1), u, t, g, r2, s0, a, e, dl. auto. }
  destruct o as [| |u t g b|]; auto.
  destruct b; auto.
  destruct (send_of full u) as [[[[s0 a] e] dl]|] eqn:Hs; auto.
  intros [<-|H]; auto.
  exists [], u, t, g, suf, s0, a, e, dl. auto.
Qed.

Lemma due_sorted_b_inv s : Inv1 s -> InvOrd s -> due_sorted_b 0 (timer_dues (trace s) (trace s)) = true.
Proof.
  intros HI HO.
  assert (H : forall suf pre, trace s = pre ++ suf -> due_sorted_b 0 (timer_dues suf (trace s)) = true).
  { induction suf as [|o suf IH]; intros pre Heq; [reflexivity|].
    assert (Hsuf : due_sorted_b 0 (timer_dues suf (trace s)) = true).
    { apply (IH (pre ++ [o])). now rewrite <- app_assoc. }
    cbn. destruct o as [| |u t g b|]; auto. destruct b; auto.
    destruct (send_of (trace s) u) as [[[[s0 a] e] dl]|] eqn:Hs; auto.
    cbn. rewrite Hsuf, andb_true_r. apply forallb_forall. intros d' Hd'.
    destruct (timer_dues_in _ _ _ Hd') as (r1 & u1 & t1 & g1 & r2 & s1 & a1 & e1 & dl1 & -> & Hs1 & ->).
    apply N.leb_le. rewrite N.add_0_r.
    eapply due_order_inv; eauto using send_of_some. }
  apply (H (trace s) []). reflexivity.
Qed.

(* --- cancel before due --- *)
Lemma existsb_eqb_false u l : ~ In u l -> existsb (N.eqb u) l = false.
Proof.
  intros H. destruct (existsb (N.eqb u) l) eqn:E; [|reflexivity].
  apply existsb_exists in E as (x & Hx & Heq). apply N.eqb_eq in Heq; subst. contradiction.
Qed.

Definition cancel_prop (tr : list obs) : Prop :=
  forall l1 sid tc l2 u tgt enq d, tr = l1 ++ ECancelDone sid tc :: l2 ->
    In (ESend u sid tgt enq d) l2 -> tc < enq + d -> ~ In u (delivered tr).

Lemma cancel_ok_aux_ok tr : cancel_prop tr ->
  forall newer older sent dead, tr = newer ++ older ->
    (forall u sid due, In (u, sid, due) sent -> exists tgt enq d, In (ESend u sid tgt enq d) older /\ due = enq + d) ->
    (forall u, In u dead -> exists la sid tc lb tgt enq d,
        older = la ++ ECancelDone sid tc :: lb /\ In (ESend u sid tgt enq d) lb /\ tc < enq + d) ->
    cancel_ok_aux (rev newer) sent dead = true.
Proof.
  intros HP newer. induction newer as [|o newer IH] using rev_ind; intros older sent dead Heq Hsent Hdead.
  - reflexivity.
  - rewrite rev_app_distr. cbn [rev app].
    assert (Heq' : tr = newer ++ o :: older) by (rewrite Heq; now rewrite <- app_assoc).
    assert (Hdead' : forall u, In u dead -> exists la sid tc lb tgt enq d,
        o :: older = la ++ ECancelDone sid tc :: lb /\ In (ESend u sid tgt enq d) lb /\ tc < enq + d).
    { intros u Hu. destruct (Hdead u Hu) as (la & sid & tc & lb & tgt & enq & d & -> & Hs & Hlt).
      exists (o :: la), sid, tc, lb, tgt, enq, d. auto. }
    assert (Hsent' : forall u sid due, In (u, sid, due) sent ->
              exists tgt enq d, In (ESend u sid tgt enq d) (o :: older) /\ due = enq + d).
    { intros u sid due Hu. destruct (Hsent _ _ _ Hu) as (tgt & enq & d & Hs & ->). exists tgt, enq, d. split; [now right | reflexivity]. }
    destruct o as [u sid tgt enq d|u due|u t g b|sid t]; cbn [cancel_ok_aux].
    + apply (IH (ESend u sid tgt enq d :: older)); auto.
      intros u0 sid0 due0 [Heq0|Hin]; [|auto].
      inversion Heq0; subst. exists tgt, enq, d. split; [now left | reflexivity].
    + apply (IH (EExpire u due :: older)); auto.
    + apply andb_true_iff. split; [|apply (IH (EDeliver u t g b :: older)); auto].
      apply negb_true_iff, existsb_eqb_false. intros Hu.
      destruct (Hdead u Hu) as (la & sid & tc & lb & tgt & enq & d & Hol & Hs & Hlt).
      assert (Hd : tr = (newer ++ EDeliver u t g b :: la) ++ ECancelDone sid tc :: lb).
      { rewrite Heq', Hol. rewrite <- app_assoc. reflexivity. }
      apply (HP _ _ _ _ _ _ _ _ Hd Hs Hlt). rewrite Heq'. eapply delivered_in.
      apply in_or_app. right. now left.
    + apply (IH (ECancelDone sid t :: older)); auto.
      intros u Hu. apply in_app_or in Hu as [Hu|Hu]; [|auto].
      apply in_map_iff in Hu as ([[u0 sid0] due0] & Hfst & Hf). cbn in Hfst; subst u0.
      apply filter_In in Hf as [Hin Hc]. cbn in Hc. apply andb_true_iff in Hc as [Hc1 Hc2].
      apply N.eqb_eq in Hc1; subst sid0. apply N.ltb_lt in Hc2.
      destruct (Hsent _ _ _ Hin) as (tgt & enq & d & Hs & ->).
      exists [], sid, t, older, tgt, enq, d. auto.
Qed.

Lemma cancel_ok_b_inv v s : InvCan v s -> cancel_ok_b (trace s) = true.
Proof.
  intros HC. unfold cancel_ok_b.
  apply (cancel_ok_aux_ok (trace s)) with (older := []).
  - intros l1 sid tc l2 u tgt enq d Heq Hs Hlt.
    destruct (c_L _ _ HC _ _ _ _ Heq _ _ _ _ Hs Hlt) as (_ & _ & Hd). exact Hd.
  - now rewrite app_nil_r.
  - intros u sid due [].
  - intros u [].
Qed.

(* every history of the model, for every variant, program and schedule, is accepted *)
Lemma model_history_admissible_lemma v pick p sched :
  pick_sound pick -> wf_prog p = true ->
  delay_admissibleb 0 (trace (run v pick (init p) sched)) = true.
Proof.
  intros Hp Hwf. destruct (Inv_reach v pick Hp p sched Hwf) as (HI & HO & HC).
  unfold delay_admissibleb. rewrite !andb_true_iff. repeat split.
  - apply nodup_N_spec, (i_dlv_nodup _ HI).
  - now apply not_early_b_inv.
  - now apply due_sorted_b_inv.
  - now apply (cancel_ok_b_inv v).
Qed.

(* conversely, what acceptance by the oracle means for the first two clauses *)
Lemma oracle_sound_lemma g tr : delay_admissibleb g tr = true ->
  NoDup (delivered tr) /\
  (forall u t tgt b, In (EDeliver u t tgt b) tr ->
     exists sid tgt' enq d, In (ESend u sid tgt' enq d) tr /\ enq + d <= t).
Proof.
  unfold delay_admissibleb. rewrite !andb_true_iff. intros [[[H1 H2] _] _]. split.
  - now apply nodup_N_spec.
  - intros u t tgt b Hin. unfold not_early_b in H2. rewrite forallb_forall in H2.
    specialize (H2 _ Hin). cbn in H2.
    destruct (send_of tr u) as [[[[s a] e] d]|] eqn:Hs; [|discriminate].
    exists s, a, e, d. split; [now apply send_of_some | now apply N.leb_le].
Qed.
