(* DelayLiveLemmas.v -- C09: an event that was sent and whose sendid the program never cancels is
   delivered (exactly once, with DelayLemmas.fires_at_most_once_lemma): at every moment it is either
   delivered or still in flight (its timer armed, or its callback before the delivery), and in a
   finished run it is delivered.  This holds for every protocol variant in which
   InterpreterImpl::enqueue records the target under _delayMutex before or together with arming the
   timer (dv_enqueue_arms_first = false); with the switch on the event is lost when the timer fires
   between arming and recording (witness in DelayRaceLemmas.v / Properties_C09.v). *)
From V Require Import Base Delay DelayLemmas.
Local Open Scope N_scope.

Section MapIn.
  Context {A : Type}.
  Lemma in_remove (m : list (N * A)) k x : In x (remove k m) -> In x m.
  Proof. unfold remove. intros H. now apply filter_In in H as [H _]. Qed.
  Lemma in_insert (m : list (N * A)) k v x : In x (insert k v m) -> x = (k, v) \/ In x m.
  Proof.
    induction m as [|[a y] m IH]; cbn.
    - intros [H|[]]; auto.
    - destruct (k <? a); cbn; [intros [H|H]; auto|].
      destruct (k =? a); cbn; intros [H|H]; auto. apply IH in H as [H|H]; auto.
  Qed.
  Lemma in_put (m : list (N * A)) k v x : In x (put k v m) -> x = (k, v) \/ In x m.
  Proof. unfold put. intros H. apply in_insert in H as [H|H]; auto. right. eapply in_remove; eauto. Qed.
End MapIn.

Lemma delivered_app a b u : In u (delivered b) -> In u (delivered (a ++ b)).
Proof. induction a as [|o a IH]; cbn; auto. intros H. destruct o; cbn; auto. Qed.

Lemma has_cancel_all_cons o p : has_cancel_all (o :: p) = false -> o <> OCancelAll /\ has_cancel_all p = false.
Proof. unfold has_cancel_all. cbn. destruct o; cbn; intros H; (split; [discriminate || congruence | exact H]) || discriminate. Qed.

Definition flight (s : dstate) (u : N) : Prop :=
  (exists p, lookup (pending s) u = Some p /\ p_armed p = true) \/ tpc_pre (tpc s) = Some u.

(* delivered, or in flight with its target recorded *)
Definition good (s : dstate) (u : N) : Prop :=
  In u (delivered (trace s)) \/
  (flight s u /\ (exists x, lookup (targets s) u = Some x) /\ (tpc s = TCbEnter u -> lookup (pending s) u <> None)).

Section Live.
  Variable v : dvariant.
  Variable pick : list (N * N) -> N -> option N.
  Variable p0 : list iop.                      (* the whole program *)
  Hypothesis Hrec : dv_enqueue_arms_first v = false.

  Record InvLive (s : dstate) : Prop := {
    l_noall : has_cancel_all (prog s) = false /\ ipc s <> IAllLocked;
    l_sids : forall sid, In sid (cancel_sids (prog s)) -> In sid (cancel_sids p0);
    l_todo : forall sid l, cancel_todo (ipc s) = Some (sid, l) ->
               In sid (cancel_sids p0) /\ forall u, In u l -> exists tgt enq d, In (ESend u sid tgt enq d) (trace s);
    l_tin : forall u sid tgt, In (u, (sid, tgt)) (targets s) -> exists enq d, In (ESend u sid tgt enq d) (trace s);
    l_good : forall u sid tgt enq d, In (ESend u sid tgt enq d) (trace s) -> ~ In sid (cancel_sids p0) -> good s u
  }.

  Lemma delivered_mono s s' u : step_rel v pick s s' -> In u (delivered (trace s)) -> In u (delivered (trace s')).
  Proof. intros Hs H. destruct (trace_grows _ _ _ _ Hs) as [l ->]. now apply delivered_app. Qed.

  Lemma send_mono s s' x : step_rel v pick s s' -> In x (trace s) -> In x (trace s').
  Proof. intros Hs H. destruct (trace_grows _ _ _ _ Hs) as [l ->]. apply in_or_app. now right. Qed.

  (* nothing about u changes *)
  Lemma good_frame s s' u :
    step_rel v pick s s' -> lookup (pending s') u = lookup (pending s) u -> tpc s' = tpc s ->
    ((exists x, lookup (targets s) u = Some x) -> exists x, lookup (targets s') u = Some x) ->
    good s u -> good s' u.
  Proof.
    intros Hs Hp Ht Htg [Hd|(Hf & Hx & He)]; [left; eapply delivered_mono; eauto|].
    right. unfold flight. rewrite Hp, Ht. auto.
  Qed.

  (* the timer thread works on another event u' *)
  Lemma good_other s s' u u' :
    step_rel v pick s s' -> lookup (pending s') u = lookup (pending s) u ->
    tpc_on (tpc s) = Some u' \/ tpc s = TIdle -> tpc_pre (tpc s') = None \/ tpc_on (tpc s') = Some u' -> u' <> u ->
    ((exists x, lookup (targets s) u = Some x) -> exists x, lookup (targets s') u = Some x) ->
    good s u -> good s' u.
  Proof.
    intros Hs Hp Ht Ht' Hne Htg [Hd|(Hf & Hx & He)]; [left; eapply delivered_mono; eauto|].
    right. split; [|split]; auto.
    - left. destruct Hf as [Hf|Hf]; [now rewrite Hp|].
      exfalso. apply tpc_pre_on in Hf. destruct Ht as [Ht|Ht]; [congruence|]. rewrite Ht in Hf. discriminate.
    - intros Hc. exfalso. destruct Ht' as [Ht'|Ht']; rewrite Hc in Ht'; cbn in Ht'; congruence.
  Qed.

  Lemma InvLive_step s s' : step_rel v pick s s' -> Inv1 s -> InvLive s -> InvLive s'.
  Proof.
    intros Hs HI HL. pose proof HL as [[Hna Hnl] Hsid Htodo Htin Hgood].
    (* the entry a cancel step removes belongs to a cancelled sendid *)
    assert (Hcancelled : forall sid u0 todo u sid' tgt enq d,
              cancel_todo (ipc s) = Some (sid, u0 :: todo) ->
              In (ESend u sid' tgt enq d) (trace s) -> ~ In sid' (cancel_sids p0) -> u0 <> u).
    { intros sid u0 todo u sid' tgt enq d Hc Hin Hnc ->.
      destruct (Htodo _ _ Hc) as [Hsd Hl]. destruct (Hl u (or_introl eq_refl)) as (tg & e & dl & Hin').
      destruct (send_unique _ _ _ _ _ _ _ _ _ _ (sent_nodup _ HI) Hin Hin') as (-> & _). contradiction. }
    (* sends that are old in s' *)
    assert (Hold : forall (P : N -> Prop),
              (forall u sid tgt enq d, In (ESend u sid tgt enq d) (trace s) -> ~ In sid (cancel_sids p0) -> P u) ->
              (forall u sid tgt enq d, In (ESend u sid tgt enq d) (trace s') -> ~ In sid (cancel_sids p0) ->
                 In (ESend u sid tgt enq d) (trace s) \/
                 (ipc s = IIdle /\ exists rest, prog s = OSend u sid tgt d :: rest /\ enq = now s))).
    { intros P _ u sid tgt enq d Hin _. eapply new_send; eauto. }
    pose proof Hs as Hs0. destruct Hs.
    - (* send 0 *)
      destruct (fresh_uuid _ _ _ _ _ _ HI H0) as [Hf _].
      rewrite H0 in Hna, Hsid. constructor; cbn.
      + split; [apply (has_cancel_all_cons _ _ Hna) | discriminate].
      + intros sid0 Hin. apply Hsid. exact Hin.
      + discriminate.
      + intros u0 sid0 tgt0 Hin. apply in_remove in Hin. destruct (Htin _ _ _ Hin) as (a & b & Hx).
        exists a, b. right. now right.
      + intros u0 sid0 tgt0 enq d [Heq|[Heq|Hin]] Hnc; [discriminate| |].
        * inversion Heq; subst. left. cbn. now left.
        * assert (Hne : u <> u0) by (intros ->; apply Hf; eapply sent_in; eauto).
          eapply (good_frame _ _ _ Hs0); cbn; auto; try (eapply Hgood; eauto).
          intros [x Hx]. exists x. rewrite lookup_remove. apply N.eqb_neq in Hne. now rewrite Hne.
    - (* send *)
      destruct (fresh_uuid _ _ _ _ _ _ HI H0) as [Hf _].
      destruct (cancel_entry_done _ _ _ _ _ H4) as (Hlk & _ & _).
      rewrite H0 in Hna, Hsid. rewrite Hrec in *. constructor; cbn.
      + split; [apply (has_cancel_all_cons _ _ Hna) | discriminate].
      + intros sid0 Hin. apply Hsid. exact Hin.
      + discriminate.
      + intros u0 sid0 tgt0 Hin. apply in_put in Hin as [Heq|Hin].
        * inversion Heq; subst. exists (now s), d. now left.
        * destruct (Htin _ _ _ Hin) as (a & b & Hx). exists a, b. now right.
      + intros u0 sid0 tgt0 enq d0 [Heq|Hin] Hnc.
        * inversion Heq; subst. right. split; [|split].
          -- left. cbn. rewrite lookup_put, N.eqb_refl. eexists; split; [reflexivity | reflexivity].
          -- cbn. rewrite lookup_put, N.eqb_refl. eauto.
          -- cbn. intros Ht. exfalso. eapply fresh_not_cb; eauto. rewrite Ht. reflexivity.
        * assert (Hne : u <> u0) by (intros ->; apply Hf; eapply sent_in; eauto).
          apply N.eqb_neq in Hne.
          eapply (good_frame _ _ _ Hs0); cbn; auto; try (eapply Hgood; eauto).
          -- rewrite lookup_put, Hne, Hlk, Hne. reflexivity.
          -- intros [x Hx]. exists x. now rewrite lookup_put, Hne.
    - (* enqueue returns *)
      constructor; cbn; auto; try discriminate; try (split; [exact Hna | discriminate]).

    - congruence.
    - (* fault *)
      constructor; cbn; auto.

    - (* cancel, nothing to do *)
      rewrite H0 in Hna, Hsid. constructor; cbn.
      + split; [apply (has_cancel_all_cons _ _ Hna) | discriminate].
      + intros sid0 Hin. apply Hsid. cbn. now right.
      + discriminate.
      + intros u0 sid0 tgt0 Hin. destruct (Htin _ _ _ Hin) as (a & b & Hx). exists a, b. now right.
      + intros u0 sid0 tgt0 enq d [Heq|Hin] Hnc; [discriminate|].
        eapply (good_frame _ _ _ Hs0); cbn; auto; try (eapply Hgood; eauto).
    - (* cancel starts *)
      rewrite H0 in Hna, Hsid. constructor; cbn; auto.
      + split; [apply (has_cancel_all_cons _ _ Hna) | discriminate].
      + intros sid0 Hin. apply Hsid. cbn. now right.
      + intros sid0 l [= <- <-]. split; [apply Hsid; cbn; now left|].
        intros u1 Hu1. rewrite <- H2 in Hu1. unfold sid_keys in Hu1.
        apply in_map_iff in Hu1 as ([k [sd tg]] & Hk & Hf). cbn in Hk; subst k.
        apply filter_In in Hf as [Hin Hsd]. cbn in Hsd. apply N.eqb_eq in Hsd; subst sd.
        destruct (Htin _ _ _ Hin) as (a & b & Hx). now exists tg, a, b.
    - (* cancelAll: not in these programs *)
      rewrite H0 in Hna. apply has_cancel_all_cons in Hna as [Hna _]. congruence.
    - congruence.
    - congruence.
    - (* cancelDelayed takes the queue lock *)
      constructor; cbn; auto; try discriminate; try (split; [exact Hna | discriminate]).
      + intros sid0 l [= <- <-]. apply Htodo. now rewrite H.
    - (* last cancel step *)
      destruct (cancel_entry_done _ _ _ _ _ H0) as (Hlk & _ & _).
      constructor; cbn; auto; try discriminate; try (split; [exact Hna | discriminate]).
      + intros u0 sid0 tgt0 Hin. apply in_remove in Hin. destruct (Htin _ _ _ Hin) as (a & b & Hx).
        exists a, b. now right.
      + intros u1 sid0 tgt0 enq d [Heq|Hin] Hnc; [discriminate|].
        assert (Hne : u <> u1) by (eapply Hcancelled; eauto; now rewrite H). apply N.eqb_neq in Hne.
        eapply (good_frame _ _ _ Hs0); cbn; auto; try (eapply Hgood; eauto).
        * now rewrite Hlk, Hne.
        * intros [x Hx]. exists x. now rewrite lookup_remove, Hne.
    - (* cancel step, more to do *)
      destruct (cancel_entry_done _ _ _ _ _ H0) as (Hlk & _ & _).
      constructor; cbn; auto; try discriminate; try (split; [exact Hna | discriminate]).
      + intros sid0 l [= <- <-]. destruct (Htodo sid (u :: u' :: todo')) as [Hsd Hl]; [now rewrite H|].
        split; [exact Hsd|]. intros u1 Hu1. apply Hl. now right.
      + intros u0 sid0 tgt0 Hin. apply in_remove in Hin. now apply Htin.
      + intros u1 sid0 tgt0 enq d Hin Hnc.
        assert (Hne : u <> u1) by (eapply Hcancelled; eauto; now rewrite H). apply N.eqb_neq in Hne.
        eapply (good_frame _ _ _ Hs0); cbn; auto; try (eapply Hgood; eauto).
        * now rewrite Hlk, Hne.
        * intros [x Hx]. exists x. now rewrite lookup_remove, Hne.
    - (* fault *)
      constructor; cbn; auto.

    - (* expire *)
      constructor; cbn; auto.
      + intros sid0 l Hc. destruct (Htodo _ _ Hc) as [Hsd Hl]. split; [exact Hsd|].
        intros u1 Hu1. destruct (Hl _ Hu1) as (a & b & c & Hx). exists a, b, c. now right.
      + intros u0 sid0 tgt0 Hin. destruct (Htin _ _ _ Hin) as (a & b & Hx). exists a, b. now right.
      + intros u1 sid0 tgt0 enq d [Heq|Hin] Hnc; [discriminate|].
        destruct (N.eq_dec u u1) as [->|Hne].
        * destruct (Hgood _ _ _ _ _ Hin Hnc) as [Hd|(Hf & Hx & He)]; [left; cbn; exact Hd|].
          right. split; [|split]; auto.
          -- right. reflexivity.
          -- cbn. intros _. rewrite lookup_upd, N.eqb_refl, H1. discriminate.
        * eapply (good_other _ _ _ u Hs0); cbn; auto; try (eapply Hgood; eauto).
          apply N.eqb_neq in Hne. now rewrite lookup_upd, Hne.
    - (* the callback finds no entry and returns *)
      constructor; cbn; auto. intros u1 sid0 tgt0 enq d Hin Hnc.
      destruct (N.eq_dec u u1) as [->|Hne].
      + destruct (Hgood _ _ _ _ _ Hin Hnc) as [Hd|(Hf & Hx & He)]; [left; exact Hd|].
        exfalso. now apply He.
      + eapply (good_other _ _ _ u Hs0); cbn; auto; try (eapply Hgood; eauto).
        left. now rewrite H.
    - constructor; cbn; auto.

    - constructor; cbn; auto.

    - (* section 1 *)
      constructor; cbn; auto. intros u1 sid0 tgt0 enq d Hin Hnc.
      destruct (N.eq_dec u u1) as [->|Hne].
      + destruct (Hgood _ _ _ _ _ Hin Hnc) as [Hd|(Hf & Hx & He)]; [left; exact Hd|].
        right. split; [right; reflexivity|]. split; [exact Hx | discriminate].
      + eapply (good_other _ _ _ u Hs0); cbn; auto; try (eapply Hgood; eauto).
        * apply N.eqb_neq in Hne. destruct (dv_cb_takes_entry v); [now rewrite lookup_remove, Hne | now rewrite lookup_upd, Hne].
        * left. now rewrite H.
    - (* eventReady takes the lock *)
      constructor; cbn; auto. intros u1 sid0 tgt0 enq d Hin Hnc.
      destruct (N.eq_dec u u1) as [->|Hne].
      + destruct (Hgood _ _ _ _ _ Hin Hnc) as [Hd|(Hf & Hx & He)]; [left; exact Hd|].
        right. split; [right; reflexivity|]. split; [exact Hx | discriminate].
      + eapply (good_other _ _ _ u Hs0); cbn; auto; try (eapply Hgood; eauto).
        left. now rewrite H.
    - (* delivery *)
      assert (Hin_rt : forall x, In x (trace s) -> In x (ready_trace v s u)).
      { intros x Hx. unfold ready_trace. destruct (lookup (targets s) u) as [[a b]|]; [now right|].
        destruct (dv_ready_checks v); [exact Hx | now right]. }
      assert (Hrt_in : forall x, In x (ready_trace v s u) -> (exists t g, x = EDeliver u t g true) \/ In x (trace s)).
      { intros x. unfold ready_trace. destruct (lookup (targets s) u) as [[a b]|].
        - intros [<-|Hx]; [left; eauto | now right].
        - destruct (dv_ready_checks v); [now right|]. intros [<-|Hx]; [left; eauto | now right]. }
      constructor; cbn; auto.
      + intros sid0 l Hc. destruct (Htodo _ _ Hc) as [Hsd Hl]. split; [exact Hsd|].
        intros u1 Hu1. destruct (Hl _ Hu1) as (a & b & c & Hx). exists a, b, c. now apply Hin_rt.
      + intros u0 sid0 tgt0 Hin. apply in_remove in Hin. destruct (Htin _ _ _ Hin) as (a & b & Hx).
        exists a, b. now apply Hin_rt.
      + intros u1 sid0 tgt0 enq d Hin Hnc.
        destruct (Hrt_in _ Hin) as [(t & g & Heq)|Hin']; [discriminate|].
        destruct (N.eq_dec u u1) as [->|Hne].
        * destruct (Hgood _ _ _ _ _ Hin' Hnc) as [Hd|(Hf & [[a b] Hx] & He)].
          -- left. cbn. destruct (trace_grows v pick s _ (ST_ready v pick s u1 H)) as [l Hl]. cbn in Hl. rewrite Hl.
             now apply delivered_app.
          -- left. cbn. unfold ready_trace. rewrite Hx. cbn. now left.
        * eapply (good_other _ _ _ u Hs0); cbn; auto; try (eapply Hgood; eauto).
          -- left. now rewrite H.
          -- intros [x Hx]. exists x. apply N.eqb_neq in Hne. now rewrite lookup_remove, Hne.
    - (* section 3 *)
      constructor; cbn; auto. intros u1 sid0 tgt0 enq d Hin Hnc.
      destruct (N.eq_dec u u1) as [->|Hne].
      + destruct (Hgood _ _ _ _ _ Hin Hnc) as [Hd|(Hf & Hx & He)]; [left; exact Hd|].
        exfalso. destruct Hf as [(p & Hp & Ha)|Hf]; [|rewrite H in Hf; discriminate].
        destruct (i_cb _ HI u1) as (_ & Hun & _); [now rewrite H|]. rewrite (Hun _ Hp) in Ha. discriminate.
      + eapply (good_other _ _ _ u Hs0); cbn; auto; try (eapply Hgood; eauto).
        * apply N.eqb_neq in Hne. destruct (dv_cb_takes_entry v); [reflexivity | now rewrite lookup_remove, Hne].
        * left. now rewrite H.
    - (* clock *)
      constructor; cbn; auto.

  Qed.
End Live.

Section LiveTheorems.
  Variable v : dvariant.
  Variable pick : list (N * N) -> N -> option N.
  Hypothesis Hpick : pick_sound pick.
  Hypothesis Hrec : dv_enqueue_arms_first v = false.

  Lemma InvLive_init p : has_cancel_all p = false -> InvLive p (init p).
  Proof.
    intros H. constructor; cbn; auto; try easy.
  Qed.

  Lemma live_run p0 sched : forall s, Inv v s -> InvLive p0 s ->
    Inv v (run v pick s sched) /\ InvLive p0 (run v pick s sched).
  Proof.
    induction sched as [|t r IH]; cbn; intros s HI HL; [now split|].
    apply IH; [now apply Inv_step|].
    unfold step_or_stay. destruct (dstep v pick s t) eqn:E; [|exact HL].
    apply dstep_rel in E as [_ Hr]. eapply InvLive_step; eauto. apply HI.
  Qed.

  (* at every moment: delivered, or still in flight *)
  Lemma sent_uncancelled_in_flight_lemma p sched u sid tgt enq d :
    wf_prog p = true -> has_cancel_all p = false -> ~ In sid (cancel_sids p) ->
    let s := run v pick (init p) sched in
    In (ESend u sid tgt enq d) (trace s) -> In u (delivered (trace s)) \/ flight s u.
  Proof.
    intros Hwf Hna Hnc s Hin.
    destruct (live_run p sched (init p) (Inv_init v p Hwf) (InvLive_init p Hna)) as [_ HL].
    destruct (l_good _ _ HL _ _ _ _ _ Hin Hnc) as [Hd|(Hf & _)]; auto.
  Qed.

  Lemma finished_no_flight s u : finished s = true -> ~ flight s u.
  Proof.
    unfold finished. destruct (ipc s); try discriminate. destruct (prog s); try discriminate.
    destruct (tpc s) eqn:Ht; try discriminate. destruct (armed_list (pending s)) eqn:Ha; try discriminate.
    intros _ [(p & Hp & Harm)|Hf]; [|rewrite Ht in Hf; discriminate].
    assert (Hin : In (u, p_due p) (armed_list (pending s))).
    { apply armed_list_in. exists p. split; [now apply lookup_In | auto]. }
    rewrite Ha in Hin. exact Hin.
  Qed.

  (* in a finished run: delivered *)
  Lemma sent_uncancelled_is_delivered_lemma p sched u sid tgt enq d :
    wf_prog p = true -> has_cancel_all p = false -> ~ In sid (cancel_sids p) ->
    let s := run v pick (init p) sched in
    finished s = true -> In (ESend u sid tgt enq d) (trace s) -> In u (delivered (trace s)).
  Proof.
    intros Hwf Hna Hnc s Hfin Hin.
    destruct (sent_uncancelled_in_flight_lemma p sched u sid tgt enq d Hwf Hna Hnc Hin) as [Hd|Hf]; [exact Hd|].
    exfalso. eapply finished_no_flight; eauto.
  Qed.

  (* the executable form the check applies to the histories observed on the implementation *)
  Lemma complete_b_finished_lemma p sched :
    wf_prog p = true ->
    let s := run v pick (init p) sched in
    finished s = true -> complete_b p (trace s) = true.
  Proof.
    intros Hwf s Hfin. unfold complete_b. destruct (has_cancel_all p) eqn:Hna; [reflexivity|]. cbn.
    apply forallb_forall. intros o Ho. destruct o as [u sid tgt enq d| | |]; auto.
    destruct (existsb (N.eqb sid) (cancel_sids p)) eqn:Hc; [reflexivity|]. cbn.
    assert (Hnc : ~ In sid (cancel_sids p)).
    { intros Hin. assert (existsb (N.eqb sid) (cancel_sids p) = true); [|congruence].
      apply existsb_exists. exists sid. split; [exact Hin | apply N.eqb_refl]. }
    pose proof (sent_uncancelled_is_delivered_lemma p sched u sid tgt enq d Hwf Hna Hnc Hfin Ho) as Hd.
    apply existsb_exists. exists u. split; [exact Hd | apply N.eqb_refl].
  Qed.
End LiveTheorems.

(* with the switch on: the timer fires between arming and recording, eventReady finds no target,
   takes the event for cancelled and drops it *)
Definition w_lost_prog : list iop := [OSend 1 1 0 1].
Definition w_lost : list tid := [Interp; Clock; Timer; Timer; Timer; Timer; Timer; Interp].
Lemma arms_first_loses_event :
  wf_prog w_lost_prog = true /\ has_cancel_all w_lost_prog = false /\ cancel_sids w_lost_prog = [] /\
  let s := run dv_arms_first pick_min (init w_lost_prog) w_lost in
  finished s = true /\ In (ESend 1 1 0 0 1) (trace s) /\ delivered (trace s) = [] /\
  complete_b w_lost_prog (trace s) = false.
Proof. vm_compute. repeat split; auto. Qed.

(* the same schedule on the code as it is: the timer thread waits for _delayMutex (its step is
   skipped while the interpreter holds it) and delivers after enqueue has returned *)
Example recorded_first_delivers :
  let s := run dv_window pick_min (init w_lost_prog) (w_lost ++ [Timer; Timer; Timer]) in
  finished s = true /\ delivered (trace s) = [1].
Proof. vm_compute. split; reflexivity. Qed.
