(* EngineQueueLemmas.v -- C08 about the engine models: for every flat chart (NO well-formedness hypothesis),
   every run in which steps are interleaved with arbitrary external enqueues and cancel() calls
   (EngineQueue.erun):
   * an external event is only taken when the internal queue is empty, the configuration is stable and an
     event-less selection in the current configuration and datamodel selects nothing;
   * both queues are consumed at the head in filling order and only ever appended at the tail;
   * a step reports (beforeProcessingEvent) exactly the named event it dequeues and hands it to exactly one
     selection; no other step selects for an event.
   Proved once for TraceCompleteStep.outer_step with an arbitrary initial micro-step and selection that
   satisfy EngineQueueSteps.ms0_spec / sel_spec, then instantiated with both engines. *)
From V Require Import Base NameMatch Chart Exec Large Fast Interp Trace TraceLemmas SetLemmas
     TraceComplete TraceCompleteBase TraceCompleteMicro TraceCompleteStep TraceCompleteRun TraceCompleteFast
     EngineQueue EngineQueueSteps.
From Coq Require Import ZifyBool.
Local Open Scope nat_scope.

(* ------------------------------------------------------------------ runs: induction principle *)

Lemma steps_of_step r t : steps_of (LStep r :: t) = r :: steps_of t.
Proof. reflexivity. Qed.
Lemma steps_of_ext e t : steps_of (LExt e :: t) = steps_of t.
Proof. reflexivity. Qed.
Lemma steps_of_cancel t : steps_of (LCancel :: t) = steps_of t.
Proof. reflexivity. Qed.

Section ERunInd.
Variable c : fchart.
Variable step : lstate -> xstate -> lstate * xstate * N.
Variable I : lstate -> xstate -> Prop.
Variable P : erec -> Prop.
Hypothesis Hstep : forall l x, I l x ->
  P {| r_l := l; r_x := x; r_rc := snd (step l x); r_l' := fst (fst (step l x)); r_x' := snd (fst (step l x)) |} /\
  I (fst (fst (step l x))) (after_step c (fst (fst (step l x))) (snd (fst (step l x))) (snd (step l x))).
Hypothesis Hext : forall l x e, I l x -> I l (raise_ext e x).
Hypothesis Hcancel : forall l x, I l x -> I (set_cancelled l) (raise_ext cancel_event x).

Lemma erun_invariant acts : forall l x, I l x ->
  Forall P (steps_of (elog c step acts l x)) /\ I (fst (efinal c step acts l x)) (snd (efinal c step acts l x)).
Proof.
  unfold elog, efinal.
  induction acts as [|a r IH]; intros l x HI; cbn [erun fst snd steps_of flat_map].
  - split; [constructor | exact HI].
  - destruct a as [|e|]; cbn [erun fst snd steps_of flat_map app].
    + destruct (Hstep l x HI) as [HP HI']. destruct (IH _ _ HI') as [H1 H2].
      split; [constructor; [exact HP | exact H1] | exact H2].
    + apply IH. now apply Hext.
    + apply IH. now apply Hcancel.
Qed.

End ERunInd.

(* Interp.run_loop is one of these runs *)
Lemma run_loop_is_erun c step fuel : forall l x evs,
  run_loop c lstate step l_cfg fuel l x evs = efinal c step (loop_acts c step fuel l x evs) l x.
Proof.
  unfold efinal. induction fuel as [|f IH]; intros l x evs; cbn [run_loop loop_acts erun snd]; [reflexivity|].
  destruct (step l x) as [[l1 x1] rc]. cbn [fst snd]. unfold after_step.
  destruct (rc =? RC_FINISHED)%N; [reflexivity|].
  destruct (rc =? RC_IDLE)%N.
  - destruct evs as [|e r]; [reflexivity|]. cbn [erun snd]. apply IH.
  - apply IH.
Qed.

(* every record of a log is a call of step *)
Lemma erun_steps c step acts l x :
  Forall (fun r => step (r_l r) (r_x r) = (r_l' r, r_x' r, r_rc r)) (steps_of (elog c step acts l x)).
Proof.
  apply (erun_invariant c step (fun _ _ => True) (fun r => step (r_l r) (r_x r) = (r_l' r, r_x' r, r_rc r))); auto.
  intros l0 x0 _. split; [|exact I]. cbn [r_l r_x r_l' r_x' r_rc]. now destruct (step l0 x0) as [[? ?] ?].
Qed.

Lemma Forall_and {A} (P Q : A -> Prop) l : Forall P l -> Forall Q l -> Forall (fun a => P a /\ Q a) l.
Proof. intros HP. induction HP; intros HQ; inversion HQ; subst; constructor; auto. Qed.

(* a step that pops the external queue is one whose decision is to take an external event *)
Lemma pop_is_dequeue c step acts l x :
  (forall l x, qeffect c (dequeues l x) x (snd (fst (step l x)))) ->
  Forall (fun r => external_popped r -> takes_external r) (steps_of (elog c step acts l x)).
Proof.
  intros Hq. eapply Forall_impl; [|apply erun_steps]. intros r Hr Hn.
  unfold takes_external, r_deq. specialize (Hq (r_l r) (r_x r)). rewrite Hr in Hq. cbn [fst snd] in Hq.
  destruct (dequeues (r_l r) (r_x r)); auto; exfalso; apply Hn; cbn [qeffect] in Hq.
  - destruct Hq as (ai & ae & _ & H & _). now exists ae.
  - destruct Hq as (_ & ai & ae & _ & H & _). now exists ae.
Qed.

(* ------------------------------------------------------------------ one step, generically *)

Section Generic.
Variable xv : ex_variant.
Variable c : fchart.
Variable ms0 : lstate -> xstate -> lstate * xstate.
Variable sel : lstate -> xstate -> option event -> lstate * xstate * N.
Variable esel : list nat -> xstate -> list nat.
Hypothesis Hms0 : ms0_spec c ms0.
Hypothesis Hsel : sel_spec c esel sel.
Let ok := raise_names_okb c.
Let step := outer_step xv c ms0 sel.

Lemma pristine_flags l : is_pristine l = true ->
  l_spont l = false /\ l_init l = false /\ l_tlf l = false /\ l_fin l = false /\ l_stable l = false.
Proof.
  unfold is_pristine. intros H. apply negb_true_iff in H.
  repeat (apply orb_false_iff in H; destruct H as [H ?]). auto.
Qed.

Lemma not_pristine_init l : l_init l = true -> is_pristine l = false.
Proof. unfold is_pristine. intros ->. now rewrite !orb_true_r. Qed.

(* the decision in front of the queues, per case *)
Ltac deq_simpl :=
  unfold dequeues;
  repeat match goal with
         | H : _ = true |- _ => rewrite H
         | H : _ = false |- _ => rewrite H
         | H : x_iq _ = _ |- _ => rewrite H
         | H : x_eq _ = _ |- _ => rewrite H
         end; cbn [orb negb].

Lemma completion_quiet l y :
  quiet ok y (completion_exec xv c (l_cfg l) (rev (l_cfg l)) y).
Proof. unfold completion_exec. apply quiet_fold. intros z a _. apply onexit_quiet. Qed.

(* what a step reports, with the events, and what it does to the queues *)
Lemma step_effect l x :
  exists sk, reports x (snd (fst (step l x))) sk /\ ev_of sk = deq_names (dequeues l x) /\
             qeffect c (dequeues l x) x (snd (fst (step l x))).
Proof.
  unfold step. destruct (outer_ocase xv c ms0 sel l x)
    as [Efin|Efin Etlf|Efin Etlf Epr|Efin Etlf Epr Esp|e r Efin Etlf Epr Esp Eiq En|e r Efin Etlf Epr Esp Eiq En|
        Efin Etlf Epr Esp Eiq Est|e r Efin Etlf Epr Esp Eiq Est Eeq En|e r Efin Etlf Epr Esp Eiq Est Eeq En Ec|
        e r Efin Etlf Epr Esp Eiq Est Eeq En Ec|Efin Etlf Epr Esp Eiq Est Eeq Ec|Efin Etlf Epr Esp Eiq Est Eeq Ec];
    cbn [fst snd].
  - deq_simpl. exists []. split; [apply reports_refl|]. split; [reflexivity | apply qgrow_refl].
  - deq_simpl. exists [TComplB; TComplE].
    destruct (rep_bracket ok x TComplB TComplE (fun y => completion_exec xv c (l_cfg l) (rev (l_cfg l)) y)
                eq_refl eq_refl (completion_quiet l)) as [H1 H2].
    split; [exact H1|]. split; [reflexivity | exact H2].
  - deq_simpl. destruct (ms0_rep c ms0 Hms0 l x) as (sk & [H1 H2] & H3). exists sk. auto.
  - deq_simpl. destruct (sel_rep c esel sel Hsel l x None) as (sk & [H1 H2] & H3). exists sk. auto.
  - deq_simpl. destruct (ev_name e) as [|b bs] eqn:En'; [congruence|].
    cbn [deq_names qeffect]. rewrite En'.
    destruct (sel_rep c esel sel Hsel l (emit (TEv (b :: bs)) (pop_iq x)) (Some e)) as (sk & [H1 H2] & H3).
    exists (TEv (b :: bs) :: sk). split; [|split].
    + apply (reports_start (pop_iq x)); [reflexivity|].
      change (TEv (b :: bs) :: sk) with ([TEv (b :: bs)] ++ sk).
      eapply reports_trans; [apply reports_tok; reflexivity | exact H1].
    + change (TEv (b :: bs) :: sk) with ([TEv (b :: bs)] ++ sk). rewrite ev_of_app, H3. reflexivity.
    + split; [now rewrite Eiq|]. eapply qgrow_trans; [|exact H2]. now apply qgrow_same.
  - deq_simpl. rewrite En. exists []. split; [apply reports_refl|]. split; [reflexivity | apply qgrow_refl].
  - deq_simpl. exists [TStable]. split; [now apply reports_tok|]. split; [reflexivity | now apply qgrow_same].
  - deq_simpl. destruct (ev_name e) as [|b bs] eqn:En'; [congruence|].
    cbn [deq_names qeffect]. rewrite En'.
    destruct (sel_rep c esel sel Hsel l (emit (TEv (b :: bs)) (pop_eq x)) (Some e)) as (sk & [H1 H2] & H3).
    exists (TEv (b :: bs) :: sk). split; [|split].
    + apply (reports_start (pop_eq x)); [reflexivity|].
      change (TEv (b :: bs) :: sk) with ([TEv (b :: bs)] ++ sk).
      eapply reports_trans; [apply reports_tok; reflexivity | exact H1].
    + change (TEv (b :: bs) :: sk) with ([TEv (b :: bs)] ++ sk). rewrite ev_of_app, H3. reflexivity.
    + split; [now rewrite Eeq|]. split; [exact Eiq|]. eapply qgrow_trans; [|exact H2]. now apply qgrow_same.
  - deq_simpl. rewrite En. exists []. split; [now apply reports_same|]. split; [reflexivity|].
    split; [exact Eiq | apply qgrow_refl].
  - deq_simpl. rewrite En. exists []. split; [now apply reports_same|]. split; [reflexivity|].
    split; [exact Eiq | apply qgrow_refl].
  - deq_simpl. exists []. split; [apply reports_refl|]. split; [reflexivity | apply qgrow_refl].
  - deq_simpl. exists []. split; [apply reports_refl|]. split; [reflexivity | apply qgrow_refl].
Qed.

(* the dequeued event is handed to exactly one selection; a step that dequeues no named event performs no
   selection for an event *)
Lemma step_selection l x :
  match dequeues l x with
  | DeqInt e => step l x = sel l (emit (TEv (ev_name e)) (pop_iq x)) (Some e)
  | DeqExt e => step l x = sel l (emit (TEv (ev_name e)) (pop_eq x)) (Some e)
  | DeqExtEmpty => step l x = (if l_cancelled l then set_tlf_cancelled l else l, pop_eq x,
                               if l_cancelled l then RC_CANCELLED else RC_IDLE)
  | DeqNone =>
      step l x = (l, x, RC_FINISHED) \/
      step l x = (set_completed l, emit TComplE (completion_exec xv c (l_cfg l) (rev (l_cfg l)) (emit TComplB x)), RC_FINISHED) \/
      step l x = (fst (ms0 l x), snd (ms0 l x), RC_MICROSTEPPED) \/
      step l x = sel l x None \/
      step l x = (l, x, RC_IDLE) \/
      step l x = (upd_flags l (l_spont l) true, emit TStable x, RC_MACROSTEPPED) \/
      step l x = (set_tlf_cancelled l, x, RC_CANCELLED)
  end.
Proof.
  unfold step. destruct (outer_ocase xv c ms0 sel l x)
    as [Efin|Efin Etlf|Efin Etlf Epr|Efin Etlf Epr Esp|e r Efin Etlf Epr Esp Eiq En|e r Efin Etlf Epr Esp Eiq En|
        Efin Etlf Epr Esp Eiq Est|e r Efin Etlf Epr Esp Eiq Est Eeq En|e r Efin Etlf Epr Esp Eiq Est Eeq En Ec|
        e r Efin Etlf Epr Esp Eiq Est Eeq En Ec|Efin Etlf Epr Esp Eiq Est Eeq Ec|Efin Etlf Epr Esp Eiq Est Eeq Ec];
    deq_simpl; try rewrite En; try rewrite Ec; auto 10.
  - destruct (ev_name e) as [|b bs] eqn:En'; [congruence|]. now rewrite <- En'.
  - destruct (ev_name e) as [|b bs] eqn:En'; [congruence|]. now rewrite <- En'.
Qed.

(* ------------------------------------------------------------------ the invariant behind quiescence *)

Definition ginv (l : lstate) (x : xstate) : Prop :=
  (l_stable l = true -> l_spont l = false) /\
  (l_init l = false -> is_pristine l = true) /\
  (l_fin l = false -> l_stable l = true -> x_iq x = []) /\
  (l_spont l = false -> l_init l = true -> l_fin l = false -> esel (l_cfg l) x = []).

Lemma ginv_same l x l' x' :
  l_stable l' = l_stable l -> l_spont l' = l_spont l -> l_init l' = l_init l -> l_fin l' = l_fin l ->
  l_tlf l' = l_tlf l -> l_cfg l' = l_cfg l -> x_iq x' = x_iq x -> x_store x' = x_store x ->
  ginv l x -> ginv l' x'.
Proof.
  intros H1 H2 H3 H4 H5 H6 H7 H8 (G1 & G2 & G3 & G4). unfold ginv, is_pristine in *.
  rewrite H1, H2, H3, H4, H5, H6, H7. repeat split; auto.
  intros A B C. rewrite <- (G4 A B C). now apply (esel_store c esel sel Hsel).
Qed.

Lemma ginv_init : ginv l_pristine x_init.
Proof. unfold ginv. cbn. repeat split; auto; discriminate. Qed.

Lemma ginv_ext l x e : ginv l x -> ginv l (raise_ext e x).
Proof. apply ginv_same; reflexivity. Qed.
Lemma ginv_cancel l x : ginv l x -> ginv (set_cancelled l) (raise_ext cancel_event x).
Proof. apply ginv_same; reflexivity. Qed.
Lemma ginv_after l x rc : ginv l x -> ginv l (after_step c l x rc).
Proof. apply ginv_same; reflexivity. Qed.

Lemma ginv_sel l x x0 ev : ginv l x -> is_pristine l = false ->
  ginv (fst (fst (sel l x0 ev))) (snd (fst (sel l x0 ev))).
Proof.
  intros (G1 & G2 & G3 & G4) Hp.
  destruct (sel_flags c esel sel Hsel l x0 ev) as (F1 & F2 & F3 & F4).
  assert (Hi : l_init l = true) by (destruct (l_init l); [reflexivity | rewrite G2 in Hp; [discriminate | reflexivity]]).
  unfold ginv. rewrite F4. repeat split; try discriminate.
  - intros H. rewrite (F3 Hi) in H. discriminate.
  - intros A _ _. now apply (sel_spont_none c esel sel Hsel).
Qed.

Lemma ginv_tlf l x x' : ginv l x -> is_pristine l = false -> x_iq x' = x_iq x -> x_store x' = x_store x ->
  ginv (set_tlf_cancelled l) x'.
Proof.
  intros (G1 & G2 & G3 & G4) Hp H1 H2. unfold ginv, set_tlf_cancelled, is_pristine.
  cbn [l_stable l_spont l_init l_fin l_tlf l_cfg]. rewrite H1. repeat split; auto.
  - intros H. rewrite (G2 H) in Hp. discriminate.
  - intros A B C. rewrite <- (G4 A B C). now apply (esel_store c esel sel Hsel).
Qed.

Lemma ginv_step l x : ginv l x -> ginv (fst (fst (step l x))) (snd (fst (step l x))).
Proof.
  intros HG. pose proof HG as (G1 & G2 & G3 & G4).
  unfold step. destruct (outer_ocase xv c ms0 sel l x)
    as [Efin|Efin Etlf|Efin Etlf Epr|Efin Etlf Epr Esp|e r Efin Etlf Epr Esp Eiq En|e r Efin Etlf Epr Esp Eiq En|
        Efin Etlf Epr Esp Eiq Est|e r Efin Etlf Epr Esp Eiq Est Eeq En|e r Efin Etlf Epr Esp Eiq Est Eeq En Ec|
        e r Efin Etlf Epr Esp Eiq Est Eeq En Ec|Efin Etlf Epr Esp Eiq Est Eeq Ec|Efin Etlf Epr Esp Eiq Est Eeq Ec];
    cbn [fst snd]; try exact HG; try (now apply (ginv_sel l x)).
  - (* completion *)
    unfold ginv, set_completed, is_pristine. cbn [l_stable l_spont l_init l_fin l_tlf l_cfg].
    repeat split; auto; try discriminate.
    intros H. specialize (G2 H). apply pristine_flags in G2. destruct G2 as (_ & _ & G2 & _). congruence.
  - (* initial micro-step *)
    destruct (ms0_flags c ms0 Hms0 l x) as (F1 & F2 & F3 & F4 & F5).
    apply pristine_flags in Epr. destruct Epr as (_ & _ & _ & _ & Est).
    unfold ginv. rewrite F1, F2, F5, Est. repeat split; discriminate.
  - (* stable *)
    unfold ginv, upd_flags, is_pristine. cbn [l_stable l_spont l_init l_fin l_tlf l_cfg]. rewrite Esp.
    repeat split; auto.
    + intros H. specialize (G2 H). congruence.
    + intros _ A B. rewrite <- (G4 Esp A B). now apply (esel_store c esel sel Hsel).
  - (* unnamed external event, cancelled *)
    now apply (ginv_tlf l x).
  - revert HG. apply ginv_same; reflexivity.
  - now apply (ginv_tlf l x).
Qed.

(* ------------------------------------------------------------------ C08: external only when quiescent *)

Lemma takes_external_quiescent l x rc l' x' :
  ginv l x ->
  takes_external {| r_l := l; r_x := x; r_rc := rc; r_l' := l'; r_x' := x' |} ->
  quiescent_at esel {| r_l := l; r_x := x; r_rc := rc; r_l' := l'; r_x' := x' |}.
Proof.
  intros (G1 & G2 & G3 & G4). unfold takes_external, quiescent_at, r_deq, dequeues. cbn [r_l r_x].
  destruct (l_fin l) eqn:Efin; cbn [orb]; [intros []|].
  destruct (l_tlf l) eqn:Etlf; cbn [orb]; [intros []|].
  destruct (is_pristine l) eqn:Epr; cbn [orb]; [intros []|].
  destruct (l_spont l) eqn:Esp; cbn [orb]; [intros []|].
  destruct (x_iq x) as [|e r] eqn:Eiq; [|destruct (ev_name e); intros []].
  destruct (l_stable l) eqn:Est; cbn [negb]; [|intros []].
  intros _. repeat split; auto. apply G4; auto.
  destruct (l_init l); [reflexivity | now specialize (G2 eq_refl)].
Qed.

Theorem generic_external_only_when_quiescent acts :
  Forall (fun r => takes_external r -> quiescent_at esel r) (steps_of (elog c step acts l_pristine x_init)).
Proof.
  apply (erun_invariant c step ginv (fun r => takes_external r -> quiescent_at esel r)).
  - intros l x HG. split.
    + now apply takes_external_quiescent.
    + apply ginv_after. now apply ginv_step.
  - intros l x e. apply ginv_ext.
  - intros l x. apply ginv_cancel.
  - apply ginv_init.
Qed.

(* ------------------------------------------------------------------ C08: the queues are FIFOs *)

Lemma firstn1_tl {A} (l : list A) : firstn 1 l ++ tl l = l.
Proof. destruct l; reflexivity. Qed.

Lemma skipn_app_exact {A} (a b : list A) n : n = length a -> skipn n (a ++ b) = b.
Proof. intros ->. induction a as [|y r IH]; [reflexivity | exact IH]. Qed.

Lemma step_int_fifo l x :
  let r := {| r_l := l; r_x := x; r_rc := snd (step l x); r_l' := fst (fst (step l x)); r_x' := snd (fst (step l x)) |} in
  int_taken r ++ x_iq (r_x' r) = x_iq x ++ int_raised r /\
  ext_taken r ++ x_eq (r_x' r) = x_eq x ++ ext_sent r.
Proof.
  cbn zeta. destruct (step_effect l x) as (sk & _ & _ & Hq).
  unfold int_taken, ext_taken, int_raised, ext_sent, int_taken, ext_taken, r_deq. cbn [r_l r_x r_x'].
  destruct (dequeues l x) as [|e|e|]; cbn [qeffect] in Hq.
  - destruct Hq as (ai & ae & H1 & H2 & _). rewrite H1, H2. cbn [length app].
    rewrite !skipn_app_exact by (cbn [length tl]; lia). split; reflexivity.
  - destruct Hq as (Hh & ai & ae & H1 & H2 & _). unfold pop_iq in H1, H2. cbn [x_iq x_eq] in H1, H2.
    rewrite H1, H2. destruct (x_iq x) as [|e' t]; [discriminate|]. cbn in Hh. injection Hh as ->.
    cbn [length app tl]. rewrite !skipn_app_exact by (cbn [length tl]; lia). split; reflexivity.
  - destruct Hq as (Hh & _ & ai & ae & H1 & H2 & _). unfold pop_eq in H1, H2. cbn [x_iq x_eq] in H1, H2.
    rewrite H1, H2. destruct (x_eq x) as [|e' t]; [discriminate|]. cbn in Hh. injection Hh as ->.
    cbn [length app tl]. rewrite !skipn_app_exact by (cbn [length tl]; lia). split; reflexivity.
  - destruct Hq as (_ & ai & ae & H1 & H2 & _). unfold pop_eq in H1, H2. cbn [x_iq x_eq] in H1, H2.
    rewrite H1, H2. cbn [length app]. rewrite skipn_app_exact by (cbn [length tl]; lia).
    split; [reflexivity|]. rewrite app_assoc, firstn1_tl. f_equal. symmetry. apply skipn_app_exact.
    destruct (x_eq x); cbn; lia.
Qed.

Theorem generic_queues_fifo acts : forall l x,
  all_int_taken (elog c step acts l x) ++ x_iq (snd (efinal c step acts l x)) =
    x_iq x ++ all_int_raised (elog c step acts l x) /\
  all_ext_taken (elog c step acts l x) ++ x_eq (snd (efinal c step acts l x)) =
    x_eq x ++ all_ext_arrived (elog c step acts l x).
Proof.
  unfold elog, efinal, all_int_taken, all_int_raised, all_ext_taken, all_ext_arrived.
  induction acts as [|a r IH]; intros l x; cbn [erun fst snd].
  - cbn. now rewrite !app_nil_r.
  - destruct a as [|e|]; cbn [erun fst snd].
    + destruct (step_int_fifo l x) as [H1 H2]. cbn zeta in H1, H2. cbn [r_x'] in H1, H2.
      set (l1 := fst (fst (step l x))) in *. set (x1 := snd (fst (step l x))) in *. set (rc := snd (step l x)) in *.
      destruct (IH l1 (after_step c l1 x1 rc)) as [I1 I2].
      change (x_iq (after_step c l1 x1 rc)) with (x_iq x1) in I1.
      change (x_eq (after_step c l1 x1 rc)) with (x_eq x1) in I2.
      rewrite steps_of_step. cbn [flat_map]. split.
      * rewrite <- app_assoc, I1, app_assoc, H1, <- app_assoc. reflexivity.
      * rewrite <- app_assoc, I2, app_assoc, H2, <- app_assoc. reflexivity.
    + destruct (IH l (raise_ext e x)) as [I1 I2]. cbn [raise_ext x_iq x_eq] in I1, I2.
      rewrite steps_of_ext. cbn [flat_map].
      split; [exact I1|]. rewrite I2, <- app_assoc. reflexivity.
    + destruct (IH (set_cancelled l) (raise_ext cancel_event x)) as [I1 I2]. cbn [raise_ext x_iq x_eq] in I1, I2.
      rewrite steps_of_cancel. cbn [flat_map].
      split; [exact I1|]. rewrite I2, <- app_assoc. reflexivity.
Qed.

(* ------------------------------------------------------------------ C08: every dequeued event reported once *)

Theorem generic_events_reported acts : forall l x,
  ev_of (rev (x_out (snd (efinal c step acts l x)))) =
  ev_of (rev (x_out x)) ++ flat_map (fun r => deq_names (r_deq r)) (steps_of (elog c step acts l x)).
Proof.
  unfold elog, efinal.
  induction acts as [|a r IH]; intros l x; cbn [erun fst snd].
  - cbn. now rewrite app_nil_r.
  - destruct a as [|e|]; cbn [erun fst snd].
    + destruct (step_effect l x) as (sk & (new & Hnew & Hsk) & Hev & _).
      rewrite steps_of_step. cbn [flat_map].
      rewrite IH. unfold after_step at 1. cbn [emit x_out rev]. unfold emitted in Hnew. rewrite Hnew.
      rewrite rev_app_distr, rev_involutive, !ev_of_app. cbn [ev_of filter_map]. rewrite !app_nil_r.
      rewrite <- (ev_of_skeleton new), Hsk, Hev. unfold r_deq at 1. cbn [r_l r_x]. now rewrite <- app_assoc.
    + rewrite steps_of_ext, IH. reflexivity.
    + rewrite steps_of_cancel, IH. reflexivity.
Qed.

End Generic.
