(* EngineEquivHistParEnter.v -- C03 with <history> directly below <parallel> (wf_histpb): ENTER_STATES of
   FastMicroStep against LargeMicroStep's.  EngineEquivHistEnter.v re-proved from WFHP / HInvP: at most one
   pseudo-state child of an entered state has its default transition in the transition set also when the entered
   state is a <parallel> with history children (invariant hip_parh2); the done events from the guard over the
   tree of proper states.  The definitions (properb, ms_guardb_hist, dflt_fast, dflt_large, ...) and the
   chart-independent lemmas of EngineEquivHistEnter.v are reused.  Proofs only. *)
From V Require Import Base NameMatch Chart Exec Large LargeLemmas Fast Legal SetLemmas LegalAbstract LegalLarge
  LegalRun WfCore LegalOracle LargeCacheLemmas SelectConform SelectConformLemmas MicroConform MicroConformLemmas
  LegalHistBase LegalHistEntry LegalHistStep LegalHistWf
  LegalHistParBase LegalHistParEntry LegalHistParStep LegalHistParWf
  EngineEquivBase EngineEquivDone EngineEquivStep EngineEquivSelect EngineEquivHistEntry EngineEquivHistDone EngineEquivHistEnter
  EngineEquivHistParEntry EngineEquivHistParDone.
Local Open Scope nat_scope.

Section DfltEqP.
Variable c : fchart.
Hypothesis W : WFHP c.
Let n := nstates c.
Let par (i : nat) := fs_parent (st c i).
Let kd (i : nat) := fs_type (st c i).
Notation pseudo := (pseudoS c).

Hypothesis Htrans_nodup : forall s, NoDup (fs_trans (st c s)).

Variable cfg exitset tg : list nat.
Variable ts0 el ts : list nat.
Hypothesis Hplain : plain_transb c ts0 = true.
Hypothesis HL : HInvP c cfg exitset tg ETrue n el.
Hypothesis HT : TsOK c ts0 el ts.

(* a default transition in the transition set is the first transition of a pseudo-state of the entry set *)
Lemma ehp_dflt_origin ti : In ti ts -> is_dflt c ti = true ->
  exists s r, In s el /\ pseudo s = true /\ fs_trans (st c s) = ti :: r /\ ft_source (tr c ti) = s.
Proof.
  intros Hti Hd. destruct (proj2 HT ti Hti) as [H0|(s & r & A & B & C)].
  - exfalso. unfold plain_transb in Hplain. rewrite forallb_forall in Hplain. specialize (Hplain ti H0).
    unfold is_dflt in Hd. rewrite Hd in Hplain. discriminate.
  - exists s, r. repeat split; try assumption. apply (whp_tr_src c W s ti). rewrite C. now left.
Qed.

Lemma ehp_pseudo_child_uniq i s1 s2 : In s1 el -> In s2 el -> pseudo s1 = true -> pseudo s2 = true ->
  par s1 = Some i -> par s2 = Some i -> s1 = s2.
Proof.
  intros E1 E2 P1 P2 H1 H2. destruct (Nat.eq_dec s1 s2) as [E|Hne]; [exact E|]. exfalso.
  destruct (whp_pseudo_parent c W s1 P1) as (q & Hq & Hkq). pose proof (eq_trans (eq_sym H1) Hq) as E. injection E as <-.
  destruct Hkq as [Hkq|[_ Hkq]].
  - destruct (hip_uniq _ _ _ _ _ _ _ HL i s1 s2 Hkq H1 H2 E1 E2 Hne) as [(_ & _ & A)|(_ & _ & A)]; congruence.
  - apply Hne. exact (hip_parh2 _ _ _ _ _ _ _ HL i s1 s2 Hkq H1 H2 P1 P2 E1 E2).
Qed.

(* at most one default transition is executed when a state is entered *)
Lemma ehp_dflt_fast_uniq i x y : In x (dflt_fast c ts i) -> In y (dflt_fast c ts i) -> x = y.
Proof.
  intros Hx Hy. unfold dflt_fast in Hx, Hy. apply filter_In in Hx as [Hx Hcx]. apply filter_In in Hy as [Hy Hcy].
  apply andb_true_iff in Hcx as [Dx Px]. apply andb_true_iff in Hcy as [Dy Py].
  destruct (ehp_dflt_origin x Hx Dx) as (sx & rx & Ex & Psx & Tx & Sx).
  destruct (ehp_dflt_origin y Hy Dy) as (sy & ry & Ey & Psy & Ty & Sy).
  rewrite Sx in Px. rewrite Sy in Py.
  assert (Hpx : par sx = Some i) by (unfold par; destruct (fs_parent (st c sx)); [apply Nat.eqb_eq in Px; now subst | discriminate]).
  assert (Hpy : par sy = Some i) by (unfold par; destruct (fs_parent (st c sy)); [apply Nat.eqb_eq in Py; now subst | discriminate]).
  pose proof (ehp_pseudo_child_uniq i sx sy Ex Ey Psx Psy Hpx Hpy) as E. rewrite E in Tx. rewrite Tx in Ty. now injection Ty.
Qed.

Lemma ehp_dflt_fast_le1 i : length (dflt_fast c ts i) <= 1.
Proof.
  assert (Hnd : NoDup (dflt_fast c ts i)) by (unfold dflt_fast; apply NoDup_filter; exact (ssorted_NoDup _ (proj1 HT))).
  pose proof (ehp_dflt_fast_uniq i) as Hu.
  destruct (dflt_fast c ts i) as [|a [|b r]]; cbn [length]; [lia | lia|]. exfalso.
  assert (a = b) by (apply Hu; cbn; tauto). subst b. inversion Hnd as [|? ? Hn _]. apply Hn. now left.
Qed.

Theorem ehp_dflt_eq i : dflt_fast c ts i = dflt_large c ts i.
Proof.
  apply eh_single_eq.
  - unfold dflt_fast. apply NoDup_filter. exact (ssorted_NoDup _ (proj1 HT)).
  - unfold dflt_large. apply eh_NoDup_flat_map.
    + exact (whp_children_nodup c W i).
    + intros k _. destruct (is_pseudo (fs_type (st c k))); [apply NoDup_filter, Htrans_nodup | constructor].
    + intros a b x _ _ Ha Hb.
      destruct (is_pseudo (fs_type (st c a))); [|destruct Ha]. destruct (is_pseudo (fs_type (st c b))); [|destruct Hb].
      apply filter_In in Ha as [Ha _]. apply filter_In in Hb as [Hb _].
      rewrite <- (whp_tr_src c W a x Ha). exact (whp_tr_src c W b x Hb).
  - exact (ehp_dflt_fast_uniq i).
  - intros x. unfold dflt_fast, dflt_large. rewrite filter_In, in_flat_map. split.
    + intros [Hx Hc]. apply andb_true_iff in Hc as [Dx Px].
      destruct (ehp_dflt_origin x Hx Dx) as (s & r & Es & Ps & Tx & Sx). rewrite Sx in Px.
      assert (Hp : par s = Some i) by (unfold par; destruct (fs_parent (st c s)); [apply Nat.eqb_eq in Px; now subst | discriminate]).
      exists s. split; [now apply (whp_children c W)|]. unfold pseudoS in Ps. rewrite Ps. apply filter_In. split; [rewrite Tx; now left|].
      rewrite Dx. cbn [andb]. now apply mem_In.
    + intros (k & Hk & Hx). destruct (is_pseudo (fs_type (st c k))); [|destruct Hx].
      apply filter_In in Hx as [Hx Hc]. apply andb_true_iff in Hc as [Dx Mx]. apply mem_In in Mx. split; [exact Mx|].
      rewrite Dx. cbn [andb]. rewrite (whp_tr_src c W k x Hx). apply (whp_children c W) in Hk. rewrite Hk. apply Nat.eqb_refl.
Qed.

End DfltEqP.

(* ------------------------------------------------------------------ entering one state *)

Section EnterP.
Variable xv : ex_variant.
Variable c : fchart.
Hypothesis Hwf : wf_histpb c = true.
Let W : WFHP c := wf_histpb_sound c Hwf.
Let n := nstates c.
Let par (i : nat) := fs_parent (st c i).
Let ch (i : nat) := fs_children (st c i).
Let kd (i : nat) := fs_type (st c i).

Variable ts : list nat.

(* "the parent is the <scxml> element", the two ways of asking *)
Lemma ehp_top_eq i :
  match fs_ancestors (st c i) with [0] => true | _ => false end =
  match fs_parent (st c i) with Some 0 => true | _ => false end.
Proof.
  destruct (fs_parent (st c i)) as [p|] eqn:Hp.
  - rewrite (ehpd_anc_app c Hwf i p Hp).
    destruct p as [|p].
    + rewrite (ehpd_anc_nil c Hwf 0 (whp_root_par c W)). reflexivity.
    + destruct (fs_ancestors (st c (S p))) as [|a r]; cbn [app]; [reflexivity|].
      destruct a; [destruct r; reflexivity | reflexivity].
  - rewrite (ehpd_anc_nil c Hwf i Hp). reflexivity.
Qed.

Lemma ehp_tail_eq cfg1 initd_f initd_l tlf x2 i :
  dflt_fast c ts i = dflt_large c ts i ->
  (fs_type (st c i) = FFinal -> forall x, done_fast c cfg1 i x = done_large c cfg1 i x) ->
  initd_eqv c initd_f initd_l ->
  acc_eqv c (tail_f xv c ts cfg1 initd_f tlf x2 i) (tail_l xv c ts cfg1 initd_l tlf x2 i).
Proof.
  intros Hd Hdone Hin. unfold tail_f, tail_l. cbn zeta.
  set (x4 := emit (TEe (fs_sid (st c i))) _).
  pose proof (eh_fast_x5 xv c ts cfg1 i x4) as E5f. pose proof (eh_large_x5 xv c ts cfg1 i x4) as E5l.
  cbn zeta in E5f, E5l. rewrite E5f, E5l, Hd. rewrite ehp_top_eq.
  destruct (fs_type (st c i)) eqn:Ht; unfold acc_eqv; cbn [ea_cfg ea_initd ea_tlf ea_x]; try (repeat split; [exact Hin]).
  split; [reflexivity|]. split; [exact Hin|]. split; [reflexivity|]. apply Hdone. reflexivity.
Qed.

(* entering a proper state that is not active yet *)
Lemma ehp_enter_one_rel af al i :
  acc_eqv c af al -> mem i (ea_cfg al) = false -> properb c i = true ->
  dflt_fast c ts i = dflt_large c ts i ->
  (fs_type (st c i) = FFinal -> forall x, done_fast c (insert_sorted i (ea_cfg al)) i x = done_large c (insert_sorted i (ea_cfg al)) i x) ->
  acc_eqv c (fenter_one xv c ts af i) (enter_one xv c ts al i).
Proof.
  intros (Hc & Hi & Ht & Hx) Hm Hp Hd Hdone. rewrite fenter_one_tail, enter_one_tail.
  unfold properb in Hp. apply negb_true_iff in Hp.
  rewrite Hc, Hm, Hp, Ht, Hx.
  destruct (fs_data (st c i)) as [|d ds] eqn:Hdt.
  - cbn [fold_left]. destruct (mem i (ea_initd af)).
    + now apply ehp_tail_eq.
    + apply ehp_tail_eq; [exact Hd | exact Hdone|]. now apply ee_initd_insert_nodata.
  - rewrite (Hi i) by (rewrite Hdt; discriminate). destruct (mem i (ea_initd al)).
    + now apply ehp_tail_eq.
    + apply ehp_tail_eq; [exact Hd | exact Hdone|]. now apply ee_initd_insert.
Qed.

Lemma ehp_enter_one_cfg al i : properb c i = true -> ea_cfg (enter_one xv c ts al i) = insert_sorted i (ea_cfg al).
Proof.
  intros Hp. unfold properb in Hp. apply negb_true_iff in Hp. rewrite enter_one_tail, Hp.
  match goal with |- context [let '(initd1, x2) := ?e in _] => destruct e as [initd1 x2] end.
  unfold tail_l. cbn zeta. destruct (fs_type (st c i)); reflexivity.
Qed.

Lemma ehp_fenter_one_cfg af i : mem i (ea_cfg af) = false -> properb c i = true ->
  ea_cfg (fenter_one xv c ts af i) = insert_sorted i (ea_cfg af).
Proof.
  intros Hm Hp. unfold properb in Hp. apply negb_true_iff in Hp. rewrite fenter_one_tail, Hm, Hp.
  match goal with |- context [let '(initd1, x2) := ?e in _] => destruct e as [initd1 x2] end.
  unfold tail_f. cbn zeta. destruct (fs_type (st c i)); reflexivity.
Qed.

Lemma ehp_enter_fold_rel : forall E af al,
  acc_eqv c af al -> NoDup E -> (forall i, In i E -> ~ In i (ea_cfg al)) -> (forall i, In i E -> properb c i = true) ->
  (forall i, In i E -> dflt_fast c ts i = dflt_large c ts i) ->
  (forall pre f post, E = pre ++ f :: post -> fs_type (st c f) = FFinal ->
     forall x, done_fast c (insert_sorted f (ins_all pre (ea_cfg al))) f x = done_large c (insert_sorted f (ins_all pre (ea_cfg al))) f x) ->
  acc_eqv c (fold_left (fenter_one xv c ts) E af) (fold_left (enter_one xv c ts) E al).
Proof.
  induction E as [|i r IH]; intros af al Hrel Hnd Hdis Hprop Hdf Hdone; cbn [fold_left]; [exact Hrel|].
  inversion Hnd as [|? ? Hni Hnd']; subst.
  assert (Hm : mem i (ea_cfg al) = false) by (apply mem_false_In; apply Hdis; now left).
  assert (Hp : properb c i = true) by (apply Hprop; now left).
  apply IH.
  - apply ehp_enter_one_rel; [exact Hrel | exact Hm | exact Hp | apply Hdf; now left|]. intros Hf x. exact (Hdone [] i r eq_refl Hf x).
  - exact Hnd'.
  - intros j Hj. rewrite (ehp_enter_one_cfg al i Hp), In_insert_sorted'. intros [->|H]; [contradiction|]. apply (Hdis j); [now right | exact H].
  - intros j Hj. apply Hprop. now right.
  - intros j Hj. apply Hdf. now right.
  - intros pre f post E Hf x. rewrite (ehp_enter_one_cfg al i Hp). apply (Hdone (i :: pre) f post); [now rewrite E | exact Hf].
Qed.

(* the large engine skips pseudo-states *)
Lemma ehp_enter_skip : forall es al,
  fold_left (enter_one xv c ts) es al = fold_left (enter_one xv c ts) (filter (properb c) es) al.
Proof.
  induction es as [|i r IH]; intros al; cbn [fold_left filter]; [reflexivity|].
  unfold properb at 1. destruct (is_pseudo (fs_type (st c i))) eqn:Hp; cbn [negb].
  - replace (enter_one xv c ts al i) with al by (rewrite enter_one_tail, Hp; reflexivity). apply IH.
  - cbn [fold_left]. apply IH.
Qed.

(* the fast engine walks the whole entry set and skips what is active or a pseudo-state *)
Lemma ehp_fenter_skip : forall es af, NoDup es ->
  fold_left (fenter_one xv c ts) es af =
  fold_left (fenter_one xv c ts) (filter (fun i => negb (mem i (ea_cfg af)) && properb c i) es) af.
Proof.
  induction es as [|i r IH]; intros af Hnd; cbn [fold_left filter]; [reflexivity|].
  inversion Hnd as [|? ? Hni Hnd']; subst.
  destruct (mem i (ea_cfg af)) eqn:Hm; cbn [negb andb].
  - replace (fenter_one xv c ts af i) with af by (rewrite fenter_one_tail, Hm; reflexivity). now apply IH.
  - destruct (properb c i) eqn:Hp.
    + cbn [fold_left]. rewrite (IH _ Hnd'). f_equal. apply ee_filter_ext_in. intros j Hj.
      rewrite (ehp_fenter_one_cfg af i Hm Hp), mem_insert_sorted.
      replace (j =? i) with false; [reflexivity|]. symmetry. apply Nat.eqb_neq. intros ->. contradiction.
    + replace (fenter_one xv c ts af i) with af.
      2: { rewrite fenter_one_tail, Hm. unfold properb in Hp. apply negb_false_iff in Hp. now rewrite Hp. }
      now apply IH.
Qed.

End EnterP.

(* ------------------------------------------------------------------ from the guard to the done events *)

Section GuardP.
Variable c : fchart.
Hypothesis Hwf : wf_histpb c = true.
Hypothesis Hleaf : leaf_okb c = true.
Hypothesis Hpar : par_nonemptyb c = true.
Let W : WFHP c := wf_histpb_sound c Hwf.
Let n := nstates c.
Let par (i : nat) := fs_parent (st c i).
Let ch (i : nat) := fs_children (st c i).
Let kd (i : nat) := fs_type (st c i).
Notation Anc := (LegalAbstract.Anc par).

Variable cfg1 E : list nat.
Hypothesis cfg1_sorted : ssorted cfg1.
Hypothesis E_sorted : ssorted E.
Hypothesis cfg1_bound : forall y, In y cfg1 -> y < n.
Hypothesis E_bound : forall y, In y E -> y < n.
Hypothesis Hlegal : LegalH c (fun y => In y (ins_all E cfg1)).
Hypothesis Hproper : forall y, In y (ins_all E cfg1) -> pseudoS c y = false.
Hypothesis Hguard : done_guardb c (ins_all E cfg1) E = true.

Lemma ehp_guard_done pre f post : E = pre ++ f :: post -> fs_type (st c f) = FFinal ->
  forall x, done_fast c (insert_sorted f (ins_all pre cfg1)) f x = done_large c (insert_sorted f (ins_all pre cfg1)) f x.
Proof.
  intros HE Hf x.
  set (L := insert_sorted f (ins_all pre cfg1)). set (after := ins_all E cfg1) in *.
  assert (HfE : In f E) by (rewrite HE; apply in_app_iff; right; now left).
  unfold done_guardb in Hguard. rewrite forallb_forall in Hguard. pose proof (Hguard f HfE) as G.
  unfold is_finalb in G. rewrite Hf in G. cbn [negb orb] in G. apply andb_true_iff in G as [G1 G2].
  unfold no_later_entryb in G1. unfold single_doneb in G2.
  rewrite forallb_forall in G1. apply Nat.leb_le in G2.
  assert (HL : forall y, In y L <-> In y cfg1 \/ In y pre \/ y = f).
  { intros y. unfold L. rewrite In_insert_sorted', ee_In_ins_all. tauto. }
  assert (HA : forall y, In y after <-> In y cfg1 \/ In y pre \/ y = f \/ In y post).
  { intros y. unfold after. rewrite ee_In_ins_all, HE, in_app_iff. cbn [In]. intuition. }
  assert (Hpost : forall y, In y post -> f < y).
  { intros y Hy. rewrite HE in E_sorted. apply ee_ssorted_app_inv in E_sorted as (_ & S2 & _). cbn [ssorted] in S2. now apply S2. }
  assert (Hag : forall a y, Anc a f -> kd a = FParallel -> y = a \/ Anc a y -> (In y L <-> In y after)).
  { intros a y Haf Hk Hrel. rewrite HL, HA. split; [tauto|]. intros [H|[H|[H|H]]]; try tauto. exfalso.
    assert (Ha : In a (fs_ancestors (st c f))) by now apply (whp_anc c W).
    pose proof (G1 a Ha) as Ga. unfold is_parb in Ga. unfold kd in Hk. rewrite Hk in Ga. cbn [negb orb] in Ga.
    apply negb_true_iff in Ga.
    destruct Hrel as [->|Hrel].
    - destruct (hanc_lt_p c W _ _ Haf). specialize (Hpost a H). lia.
    - assert (existsb (fun e => (f <? e) && mem a (fs_ancestors (st c e))) E = true); [|congruence].
      apply existsb_exists. exists y. split; [rewrite HE; apply in_app_iff; right; now right|].
      apply andb_true_iff. split; [apply Nat.ltb_lt; now apply Hpost | apply mem_In; now apply (whp_anc c W)]. }
  apply (ehpd_done_eq c Hwf Hleaf Hpar L (fun y => In y after)).
  - exact Hlegal.
  - exact Hproper.
  - unfold L. apply ssorted_insert. now apply ee_ins_all_sorted.
  - intros y Hy. apply HL in Hy as [H|[H| ->]]; [now apply cfg1_bound | apply E_bound; rewrite HE; apply in_app_iff; now left | now apply E_bound].
  - exact Hag.
  - apply HA. tauto.
  - replace (done_pars c L f) with (done_pars c after f); [exact G2|].
    unfold done_pars. apply ee_filter_ext_in. intros a Ha. destruct (is_parb c a) eqn:Hp; [|reflexivity]. cbn [andb].
    apply (whp_anc c W) in Ha. apply ee_is_parb in Hp. symmetry.
    apply (ehpd_in_final_ext c Hwf). intros y Hy. apply ee_mem_iff. apply (Hag a y Ha Hp). now right.
Qed.

End GuardP.
