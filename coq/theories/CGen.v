(* CGen.v -- the ANSI-C machine emitted by ChartToC (src/uscxml/transform/ChartToC.cpp) as functions.
   Model only, three parts:

   1. Sizing: the macros the generator writes (USCXML_NR_STATES_TYPE / _TRANS_TYPE, USCXML_MAX_NR_STATES_BYTES /
      _TRANS_BYTES from ChartToC::prepare, `ceil((float)n / (float)8)`) and the byte counts uscxml_step()
      computes itself (`((n + 7) & ~7) >> 3` in the emitted index type).
   2. Set level: uscxml_step() (ChartToC::writeFSM) over the flat chart of Chart.v with the ascending lists of
      Fast.v standing for the bit arrays.  The template is FastMicroStep::step with these variant points:
        - `children` are the direct children written by ChartToC::prepare (fast engine: all descendants);
        - a compound's deep completion adds the ancestors of every completion state (since fix f35c407f; before: of the first one only), and only when no
          completion state is a direct child;
        - history completions come from ChartToC::setHistoryCompletion (states claimed by the histories of an
          earlier parent are left out; a deep history with other histories below its parent adds the history
          children of the restored states);
        - a step that finds no transition loops back to DEQUEUE_EVENT instead of returning; there is no
          stable-configuration step; results are USCXML_ERR_OK / _IDLE / _DONE;
        - conditions are evaluated by the is_true callback (null datamodel: In(id), everything else false, no
          error event); executable content is the callback sequence the emitted functions make;
        - a top-level final state is recognised by `ancestors[0] == 0x01`.
      The points where the emitted text is defective are switches of [cg_variant].
   3. Byte level: the same function over byte arrays with every array access checked (outcome [Oob]) and the
      loop counters in the emitted index type (outcome [Diverge]); carries c_indices_in_bounds. *)
From V Require Import Base NameMatch Chart Exec Large Fast GenCGen.
Local Open Scope nat_scope.

(* ------------------------------------------------------------------ 1. sizing *)

Section Sizing.
Local Open Scope N_scope.

(* (float)n: IEEE binary32, round to nearest even, 24 bit significand *)
Definition f32_round (n : N) : N :=
  let sz := N.size n in
  if sz <=? 24 then n
  else
    let e := sz - 24 in
    let q := N.shiftr n e in
    let r := n - N.shiftl q e in
    let half := N.shiftl 1 (e - 1) in
    let q' := if (half <? r) || ((r =? half) && N.odd q) then q + 1 else q in
    N.shiftl q' e.

(* _stateCharArraySize = ceil((float)largest / (float)8): the division by 8 is exact in binary32 *)
Definition char_array_size (n : N) : N := (f32_round n + 7) / 8.

(* USCXML_MAX_NR_STATES_BYTES / _TRANS_BYTES as written by writeMacros *)
Definition max_bytes (n : N) : N := N.max 1 (char_array_size n).

(* bits of USCXML_NR_STATES_TYPE / USCXML_NR_TRANS_TYPE *)
Definition width_for (n : N) : N :=
  if n <? 2 ^ 8 then 8 else if n <? 2 ^ 16 then 16 else if n <? 2 ^ 32 then 32 else 64.

Definition trunc (w x : N) : N := x mod 2 ^ w.

(* `T nr_bytes = ((n + 7) & ~7) >> 3;` with n of the w-bit type T: uint8_t/uint16_t are promoted to int,
   wider types compute modulo 2^w *)
Definition nr_bytes (w n : N) : N :=
  let s := if w <=? 16 then n + 7 else trunc w (n + 7) in
  trunc w (N.shiftr (N.ldiff s 7) 3).

End Sizing.

(* ------------------------------------------------------------------ 2. set level *)

Inductive cover_mode := CoverOuterFirst | CoverInnerFirst | CoverNone.

Record cg_variant := {
  (* ESTABLISH_ENTRY_SET: a history without recorded value takes its default transition only if its parent
     is not active (`&& !BIT_HAS(parent, ctx->config)`); with an active parent nothing is entered *)
  cg_hist_active_parent : bool;
  (* ENTER_STATES: top-level final decided by `ancestors[0] == 0x01`, i.e. from the first 8 states only *)
  cg_tlf_first_byte : bool;
  (* setHistoryCompletion left out the states "covered" by the histories of an earlier parent and walked the
     histories in document order (inPostFixOrder of leaves), so the histories of an outer state claimed the
     states of the histories nested below it.  Repaired in /repo by removing the covering (every history records
     its own states, as the engines do); the other conceivable repair visits inner histories first. *)
  cg_cover : cover_mode
}.
Definition cg_emitted := {| cg_hist_active_parent := true; cg_tlf_first_byte := true; cg_cover := CoverOuterFirst |}.
Definition cg_repaired := {| cg_hist_active_parent := false; cg_tlf_first_byte := false; cg_cover := CoverNone |}.

(* trace of the callbacks of harness/cgen_harness.c *)
Inductive ctok :=
| CEv (name : bytes)        (* dequeue_internal / dequeue_external returned this event *)
| CRaise (name : bytes)     (* exec_content_raise *)
| CSend (name : bytes)      (* exec_content_send *)
| CDone (sid : N)           (* raise_done_event for the state *)
| CRet (rc : N)             (* result of uscxml_step *)
| CCfg (l : list N)         (* ctx->config after the step *)
| CHist (l : list N).       (* ctx->history after the step *)

Definition C_ERR_OK : N := 0%N.
Definition C_ERR_IDLE : N := 1%N.
Definition C_ERR_DONE : N := 2%N.

Record cx := { cx_iq : list bytes; cx_eq : list bytes; cx_out : list ctok }.

Definition cemit (t : ctok) (x : cx) : cx := {| cx_iq := cx_iq x; cx_eq := cx_eq x; cx_out := t :: cx_out x |}.
Definition craise (e : bytes) (x : cx) : cx :=
  {| cx_iq := cx_iq x ++ [e]; cx_eq := cx_eq x; cx_out := CRaise e :: cx_out x |}.
Definition csend (e : bytes) (x : cx) : cx :=
  {| cx_iq := cx_iq x; cx_eq := cx_eq x ++ [e]; cx_out := CSend e :: cx_out x |}.

(* is_true callback, null datamodel *)
Definition c_is_true (inst : N -> bool) (e : bexpr) : bool :=
  match e with BIn s => inst s | _ => false end.

(* the emitted <prefix>_<id>_on_entry_<j> / _on_exit_<j> / _on_trans functions (writeExecContent): every
   callback of the harness returns USCXML_ERR_OK, so no function returns early *)
Section CExec.
Variable inst : N -> bool.

Fixpoint cexec_instr (i : instr) (x : cx) {struct i} : cx :=
  match i with
  | IRaise _ ev => craise ev x
  | ISend _ ev => csend ev x
  | ISendBadType _ _ | ISendBadTarget _ _ | ILog _ _ | IAssign _ _ _ => x     (* outside the fragment *)
  | IIf _ c body =>
      (fix items (l : list ifitem) (blockIsTrue : bool) (x : cx) {struct l} : cx :=
         match l with
         | [] => x
         | FElseif c' :: r => if blockIsTrue then x else items r (c_is_true inst c') x
         | FElse :: r => if blockIsTrue then x else items r true x
         | FInstr j :: r => if blockIsTrue then items r blockIsTrue (cexec_instr j x) else items r blockIsTrue x
         end) body (c_is_true inst c) x
  end.

Definition cexec_block (b : block) (x : cx) : cx := fold_left (fun a i => cexec_instr i a) b x.
Definition cexec_blocks (bs : list block) (x : cx) : cx := fold_left (fun a b => cexec_block b a) bs x.
End CExec.

Section CGen.
Variable cv : cg_variant.
Variable c : fchart.

Definition cn := nstates c.

(* ---- tables written by ChartToC::prepare that differ from the engines' ---- *)

Definition hists : list nat := filter (fun i => is_hist (fs_type (st c i))) (seq 0 cn).

(* setHistoryCompletion: [hs] in processing order; returns (history, completion) *)
Fixpoint cover (hs : list nat) (prev : option nat) (covered perparent : list nat) : list (nat * list nat) :=
  match hs with
  | [] => []
  | h :: r =>
    let p := fs_parent (st c h) in
    let same := match prev, p with Some a, Some b => a =? b | None, None => true | _, _ => false end in
    let covered' := if same then covered else covered ++ perparent in
    let per' := if same then perparent else [] in
    let compl := filter (fun j => negb (mem j covered')) (fs_completion (st c h)) in
    (h, compl) :: cover r p covered' (per' ++ compl)
  end.

Definition hist_table : list (nat * list nat) :=
  match cg_cover cv with
  | CoverOuterFirst => cover hists None [] []
  | CoverInnerFirst => cover (rev hists) None [] []
  | CoverNone => map (fun h => (h, fs_completion (st c h))) hists
  end.

(* completionBools *)
Definition ccompl (i : nat) : list nat :=
  if is_hist (fs_type (st c i)) then
    match find (fun p => fst p =? i) hist_table with Some p => snd p | None => [] end
  else fs_completion (st c i).

(* USCXML_STATE_HAS_HISTORY: a state with a history child; a history with another history below its parent *)
Definition has_history (i : nat) : bool :=
  if is_hist (fs_type (st c i)) then
    match fs_parent (st c i) with
    | Some p => existsb (fun j => negb (j =? i) && is_hist (fs_type (st c j))) (seq (S p) (fs_size (st c p) - 1))
    | None => false
    end
  else existsb (fun j => is_hist (fs_type (st c j))) (fs_children (st c i)).

(* first transition (post-fix order) whose source is i *)
Definition first_trans_from (i : nat) : option nat :=
  find (fun j => ft_source (tr c j) =? i) (seq 0 (ntrans c)).

(* ---- SELECT_TRANSITIONS (one pass over all transitions, no state change) ---- *)
Fixpoint cselect (cfg : list nat) (ev : option bytes) (ts : list nat) (selected : list nat) : list nat :=
  match ts with
  | [] => selected
  | ti :: r =>
    let t := tr c ti in
    if ft_history t || ft_initial t then cselect cfg ev r selected
    else if negb (mem (ft_source t) cfg) then cselect cfg ev r selected
    else if existsb (fun si => fconflicts c (tr c si) t) selected then cselect cfg ev r selected
    else if match ev with
            | Some _ => ft_spontaneous t
            | None => negb (ft_spontaneous t)
            end then cselect cfg ev r selected
    else if match ev with
            | Some e => negb (name_match_impl nm_fixed (ft_event t) e)
            | None => false
            end then cselect cfg ev r selected
    else
      match ft_cond t with
      | None => cselect cfg ev r (selected ++ [ti])
      | Some cnd => if c_is_true (inst_of c cfg) cnd then cselect cfg ev r (selected ++ [ti]) else cselect cfg ev r selected
      end
  end.

Definition cselect_all (cfg : list nat) (ev : option bytes) : list nat := cselect cfg ev (seq 0 (ntrans c)) [].

(* ---- REMEMBER_HISTORY ---- *)
Definition cremember (cfg exitset hist : list nat) : list nat :=
  fold_left
    (fun h i =>
       let s := st c i in
       if is_hist (fs_type s) && match fs_parent s with Some p => mem p exitset | None => false end
       then set_union (set_diff h (ccompl i)) (set_inter (ccompl i) cfg)
       else h)
    (seq 0 cn) hist.

(* ---- ESTABLISH_ENTRY_SET ---- *)
Definition cdescend_one (cfg exitset hist : list nat) (acc : list nat * list nat) (i : nat) : list nat * list nat :=
  let '(es, ts) := acc in
  if negb (mem i es) then acc else
  let s := st c i in
  match fs_type s with
  | FFinal | FAtomic => acc
  | FParallel => (set_union es (ccompl i), ts)
  | FHistShallow | FHistDeep =>
    let parent_active := match fs_parent s with Some p => mem p cfg | None => false end in
    if negb (intersects (ccompl i) hist) && (negb (cg_hist_active_parent cv) || negb parent_active) then
      match first_trans_from i with
      | None => acc
      | Some ti =>
        let t := tr c ti in
        let es1 := set_union es (ft_targets t) in
        let es2 := match fs_type s with
                   | FHistDeep =>
                     if negb (intersects (ft_targets t) (fs_children s))
                     then fold_left (fun a k => set_union a (fs_ancestors (st c k)))
                                    (filter (fun k => i <? k) (ft_targets t)) es1
                     else es1
                   | _ => es1
                   end in
        (es2, insert_sorted ti ts)
      end
    else
      let es1 := set_union es (set_inter (ccompl i) hist) in
      let es2 := match fs_type s with
                 | FHistDeep =>
                   if has_history i then
                     (* a deep history state with nested histories -> more completion *)
                     fold_left (fun e j =>
                                  if mem j (ccompl i) && mem j e && has_history j then
                                    fold_left (fun e' k => if is_hist (fs_type (st c k)) && mem k (fs_children (st c j))
                                                           then insert_sorted k e' else e')
                                              (seq (S j) (cn - S j)) e
                                  else e)
                               (seq (S i) (cn - S i)) es1
                   else es1
                 | _ => es1
                 end in
      (es2, ts)
  | FInitial =>
    fold_left (fun a ti =>
                 let t := tr c ti in
                 if ft_source t =? i then
                   (fold_left (fun e k => if i <? k then set_union e (fs_ancestors (st c k)) else e) (ft_targets t)
                              (set_union (set_remove i (fst a)) (ft_targets t)),
                    insert_sorted ti (snd a))
                 else a)
              (seq 0 (ntrans c)) (es, ts)
  | FCompound =>
    let kids := fs_children s in
    if negb (intersects es kids) && (negb (intersects cfg kids) || intersects exitset kids) then
      let es1 := set_union es (ccompl i) in
      if negb (intersects (ccompl i) kids) then
        (* deep completion: the ancestors of every completion state *)
        (fold_left (fun a j => set_union a (fs_ancestors (st c j))) (filter (fun j => i <? j) (ccompl i)) es1, ts)
      else (es1, ts)
    else acc
  end.

Definition centry_set (cfg exitset hist targets : list nat) (transset : list nat) : list nat * list nat :=
  fold_left (cdescend_one cfg exitset hist) (seq 0 cn) (add_ancestors c targets, transset).

(* ---- EXIT_STATES, TAKE_TRANSITIONS, ENTER_STATES ---- *)
Definition cexit_one (acc : list nat * cx) (i : nat) : list nat * cx :=
  let '(cfg, x) := acc in
  (set_remove i cfg, cexec_blocks (inst_of c cfg) (fs_onexit (st c i)) x).

Definition ctake_one (cfg : list nat) (x : cx) (ti : nat) : cx :=
  let t := tr c ti in
  if ft_history t || ft_initial t then x
  else if ft_has_body t then cexec_block (inst_of c cfg) (ft_body t) x else x.

Definition craise_done (i : nat) (x : cx) : cx :=
  {| cx_iq := cx_iq x ++ [ev_name (done_event c i)]; cx_eq := cx_eq x; cx_out := CDone (fs_sid (st c i)) :: cx_out x |}.

(* `USCXML_GET_STATE(i).ancestors[0] == 0x01` *)
Definition top_level_final (s : fstate) : bool :=
  if cg_tlf_first_byte cv then
    match filter (fun a => a <? 8) (fs_ancestors s) with [0] => true | _ => false end
  else match fs_ancestors s with [0] => true | _ => false end.

Record center_acc := { ca_cfg : list nat; ca_tlf : bool; ca_x : cx }.

Definition center_one (transset : list nat) (a : center_acc) (i : nat) : center_acc :=
  let s := st c i in
  if mem i (ca_cfg a) then a
  else if is_pseudo (fs_type s) then a else
  let cfg1 := insert_sorted i (ca_cfg a) in
  let x3 := cexec_blocks (inst_of c cfg1) (fs_onentry s) (ca_x a) in
  let x5 :=
    fold_left (fun x ti =>
                 let t := tr c ti in
                 if (ft_history t || ft_initial t) &&
                    match fs_parent (st c (ft_source t)) with Some p => p =? i | None => false end then
                   if ft_has_body t then cexec_block (inst_of c cfg1) (ft_body t) x else x
                 else x) transset x3 in
  match fs_type s with
  | FFinal =>
    let top := top_level_final s in
    let x6 := if top then x5
              else match fs_parent s with Some p => craise_done p x5 | None => x5 end in
    let x7 := fold_left (fun x j => match fs_type (st c j) with
                                    | FParallel => if mem j (fs_ancestors s) && fpar_done c cfg1 j then craise_done j x else x
                                    | _ => x
                                    end) (seq 0 cn) x6 in
    {| ca_cfg := cfg1; ca_tlf := ca_tlf a || top; ca_x := x7 |}
  | _ => {| ca_cfg := cfg1; ca_tlf := ca_tlf a; ca_x := x5 |}
  end.

Definition cmicrostep (l : lstate) (x : cx) (targets exitset transset : list nat) (initial_step : bool)
  : lstate * cx :=
  let cfg := l_cfg l in
  let hist := if initial_step then l_hist l else cremember cfg exitset (l_hist l) in
  let '(es, ts) := centry_set cfg exitset hist targets transset in
  let '(cfg1, x1) := fold_left cexit_one (rev exitset) (cfg, x) in
  let x2 := fold_left (ctake_one cfg1) ts x1 in
  let a := fold_left (center_one ts) es {| ca_cfg := cfg1; ca_tlf := l_tlf l; ca_x := x2 |} in
  ({| l_cfg := ca_cfg a; l_hist := hist; l_initd := l_initd l; l_spont := true; l_init := true;
      l_tlf := ca_tlf a; l_fin := l_fin l; l_stable := l_stable l; l_cancelled := l_cancelled l |},
   ca_x a).

(* ---- DEQUEUE_EVENT / SELECT_TRANSITIONS loop: events are consumed until one enables a transition ---- *)
Fixpoint cscan (cfg : list nat) (q : list bytes) (out : list ctok) : option (list nat) * list bytes * list ctok :=
  match q with
  | [] => (None, [], out)
  | e :: r =>
    match cselect_all cfg (Some e) with
    | [] => cscan cfg r (CEv e :: out)
    | sel => (Some sel, r, CEv e :: out)
    end
  end.

Definition with_spont (l : lstate) (b : bool) : lstate :=
  {| l_cfg := l_cfg l; l_hist := l_hist l; l_initd := l_initd l; l_spont := b; l_init := l_init l;
     l_tlf := l_tlf l; l_fin := l_fin l; l_stable := l_stable l; l_cancelled := l_cancelled l |}.

Definition ctargets (sel : list nat) : list nat := fold_left (fun a ti => set_union a (ft_targets (tr c ti))) sel [].
Definition cexitset (cfg sel : list nat) : list nat :=
  fold_left (fun a ti => set_union a (exit_states_of lg_fixed c cfg (tr c ti))) sel [].

Definition cfire (l : lstate) (x : cx) (sel : list nat) : lstate * cx * N :=
  let cfg := l_cfg l in
  let '(l1, x1) := cmicrostep l x (ctargets sel) (cexitset cfg sel) sel false in
  (l1, x1, C_ERR_OK).

Definition cdequeue (l : lstate) (x : cx) : lstate * cx * N :=
  let cfg := l_cfg l in
  match cscan cfg (cx_iq x) (cx_out x) with
  | (Some sel, r, out) => cfire l {| cx_iq := r; cx_eq := cx_eq x; cx_out := out |} sel
  | (None, _, out) =>
    match cscan cfg (cx_eq x) out with
    | (Some sel, r, out') => cfire l {| cx_iq := []; cx_eq := r; cx_out := out' |} sel
    | (None, _, out') => (with_spont l false, {| cx_iq := []; cx_eq := []; cx_out := out' |}, C_ERR_IDLE)
    end
  end.

Definition cgen_step (l : lstate) (x : cx) : lstate * cx * N :=
  if l_fin l then (l, x, C_ERR_DONE)
  else if l_tlf l then
    let x1 := fold_left (fun x i => cexec_blocks (inst_of c (l_cfg l)) (fs_onexit (st c i)) x) (rev (l_cfg l)) x in
    ({| l_cfg := l_cfg l; l_hist := l_hist l; l_initd := l_initd l; l_spont := l_spont l; l_init := l_init l;
        l_tlf := true; l_fin := true; l_stable := l_stable l; l_cancelled := l_cancelled l |}, x1, C_ERR_DONE)
  else if is_pristine l then
    let '(l1, x1) := cmicrostep l x (fs_completion (st c 0)) [] [] true in
    (l1, x1, C_ERR_OK)
  else if l_spont l then
    match cselect_all (l_cfg l) None with
    | [] => cdequeue (with_spont l false) x
    | sel => cfire l x sel
    end
  else cdequeue l x.

(* ---- the variant points of ESTABLISH_ENTRY_SET, as a checked condition ----
   [entry_agree] is true when, state by state, the emitted pass (direct children, first completion state, the
   generator's history completions) adds exactly what the fast engine's pass (all descendants, every completion
   state, the engines' history completions) adds.  CGenLemmas.centry_set_equiv turns it into equality of the
   entry sets; the check evaluates it on every microstep of every run. *)
Fixpoint list_eqb (a b : list nat) : bool :=
  match a, b with
  | [], [] => true
  | x :: a', y :: b' => (x =? y) && list_eqb a' b'
  | _, _ => false
  end.
Definition pair_eqb (p q : list nat * list nat) : bool := list_eqb (fst p) (fst q) && list_eqb (snd p) (snd q).

Definition entry_agree (cfg exitset hist targets transset : list nat) : bool :=
  snd (fold_left (fun (a : (list nat * list nat) * bool) i =>
                    let r := cdescend_one cfg exitset hist (fst a) i in
                    (r, snd a && pair_eqb r (fdescend_one c cfg exitset hist (fst a) i)))
                 (seq 0 cn) ((add_ancestors c targets, transset), true)).

Definition remember_agree (cfg exitset hist : list nat) : bool :=
  list_eqb (cremember cfg exitset hist) (fremember c cfg exitset hist).

(* the microstep the next call of cgen_step performs: (cfg, exit set, targets, transitions, initial?) *)
Definition cnext_microstep (l : lstate) (x : cx) : option (list nat * list nat * list nat * list nat * bool) :=
  if l_fin l || l_tlf l then None
  else if is_pristine l then Some (l_cfg l, [], fs_completion (st c 0), [], true)
  else
    let cfg := l_cfg l in
    let of_sel sel := Some (cfg, cexitset cfg sel, ctargets sel, sel, false) in
    let deq :=
      match cscan cfg (cx_iq x) [] with
      | (Some sel, _, _) => of_sel sel
      | (None, _, _) => match cscan cfg (cx_eq x) [] with (Some sel, _, _) => of_sel sel | (None, _, _) => None end
      end in
    if l_spont l then match cselect_all cfg None with [] => deq | sel => of_sel sel end else deq.

Definition cstep_agree (l : lstate) (x : cx) : bool :=
  match cnext_microstep l x with
  | None => true
  | Some (cfg, exitset, targets, sel, initial) =>
    let hist := if initial then l_hist l else cremember cfg exitset (l_hist l) in
    (initial || remember_agree cfg exitset (l_hist l)) && entry_agree cfg exitset hist targets sel
  end.

(* ---- the driver loop of the harness ---- *)
Definition sids (l : list nat) : list N := map (fun i => fs_sid (st c i)) l.

Fixpoint crun_loop (fuel : nat) (l : lstate) (x : cx) (evs : list bytes) : lstate * cx :=
  match fuel with
  | O => (l, x)
  | S f =>
    let '(l1, x1, rc) := cgen_step l x in
    let x2 := cemit (CHist (sids (l_hist l1))) (cemit (CCfg (sids (l_cfg l1))) (cemit (CRet rc) x1)) in
    if (rc =? C_ERR_DONE)%N then (l1, x2)
    else if (rc =? C_ERR_IDLE)%N then
      match evs with
      | [] => (l1, x2)
      | e :: r => crun_loop f l1 {| cx_iq := cx_iq x2; cx_eq := cx_eq x2 ++ [e]; cx_out := cx_out x2 |} r
      end
    else crun_loop f l1 x2 evs
  end.

(* the same loop, answering whether every microstep passed the checks of [cstep_agree] *)
Fixpoint crun_agree (fuel : nat) (l : lstate) (x : cx) (evs : list bytes) : bool :=
  match fuel with
  | O => true
  | S f =>
    let ok := cstep_agree l x in
    let '(l1, x1, rc) := cgen_step l x in
    if (rc =? C_ERR_DONE)%N then ok
    else if (rc =? C_ERR_IDLE)%N then
      match evs with
      | [] => ok
      | e :: r => ok && crun_agree f l1 {| cx_iq := cx_iq x1; cx_eq := cx_eq x1 ++ [e]; cx_out := cx_out x1 |} r
      end
    else ok && crun_agree f l1 x1 evs
  end.

End CGen.

Definition cx_init : cx := {| cx_iq := []; cx_eq := []; cx_out := [] |}.

Definition run_cgen (cv : cg_variant) (t : tree) (evs : list bytes) (fuel : nat) : list ctok :=
  let c := flatten false t in
  let '(l, x) := crun_loop cv c fuel l_pristine cx_init evs in
  rev (cx_out x).

Definition run_agree (cv : cg_variant) (t : tree) (evs : list bytes) (fuel : nat) : bool :=
  crun_agree cv (flatten false t) fuel l_pristine cx_init evs.

(* ------------------------------------------------------------------ 3. byte level *)

(* Outcome of the emitted code: [Oob site] = an array was accessed outside its declared length at the numbered
   place; [Diverge] = a loop counter of the emitted index type can never reach its bound; [OutOfFuel] = the
   DEQUEUE_EVENT / SELECT_TRANSITIONS loop was cut off by the model's fuel *)
Inductive res (A : Type) : Type := Ok (a : A) | Oob (site : N) | Diverge | OutOfFuel.
Arguments Ok {A} a.
Arguments Oob {A} site.
Arguments Diverge {A}.
Arguments OutOfFuel {A}.

Definition bind {A B} (r : res A) (f : A -> res B) : res B :=
  match r with Ok a => f a | Oob s => Oob s | Diverge => Diverge | OutOfFuel => OutOfFuel end.
Notation "'do' x <- r ; k" := (bind r (fun x => k)) (at level 200, x name, r at level 100, k at level 200, right associativity).

Definition barr := list N.            (* unsigned char[] *)
Definition bmem := list barr.         (* the arrays of uscxml_ctx and the locals of uscxml_step, by number *)

Definition A_CONFIG := 0.
Definition A_HISTORY := 1.
Definition A_INVOC := 2.
Definition A_INITD := 3.
Definition A_CONFL := 4.      (* conflicts  [USCXML_MAX_NR_TRANS_BYTES] *)
Definition A_TRSET := 5.      (* trans_set  [USCXML_MAX_NR_TRANS_BYTES] *)
Definition A_TARGET := 6.     (* target_set [USCXML_MAX_NR_STATES_BYTES] *)
Definition A_EXIT := 7.
Definition A_ENTRY := 8.
Definition A_TMP := 9.

Definition get (m : bmem) (a : nat) : barr := nth a m [].

Fixpoint upd {A} (l : list A) (i : nat) (v : A) : list A :=
  match l, i with
  | [], _ => []
  | _ :: r, O => v :: r
  | x :: r, S k => x :: upd r k v
  end.

Definition rd (site : N) (a : barr) (i : nat) : res N :=
  match nth_error a i with Some b => Ok b | None => Oob site end.

Definition wr (site : N) (m : bmem) (a i : nat) (v : N) : res bmem :=
  if i <? length (get m a) then Ok (upd m a (upd (get m a) i v)) else Oob site.

Definition bitmask (idx : nat) : N := (2 ^ N.of_nat (idx mod 8))%N.

(* BIT_HAS(idx, bitset): bitset[idx >> 3] & (1 << (idx & 7)) *)
Definition bit_has (site : N) (a : barr) (idx : nat) : res bool :=
  do b <- rd site a (idx / 8); Ok (negb (N.land b (bitmask idx) =? 0)%N).
(* BIT_SET_AT / BIT_CLEAR *)
Definition bit_set_at (site : N) (m : bmem) (a idx : nat) : res bmem :=
  do b <- rd site (get m a) (idx / 8); wr site m a (idx / 8) (N.lor b (bitmask idx)).
Definition bit_clear (site : N) (m : bmem) (a idx : nat) : res bmem :=
  do b <- rd site (get m a) (idx / 8); wr site m a (idx / 8) (N.land b (N.lxor (bitmask idx) 255)).

Fixpoint forM {S} (l : list nat) (body : nat -> S -> res S) (s : S) : res S :=
  match l with
  | [] => Ok s
  | i :: r => do s' <- body i s; forM r body s'
  end.

(* loop with `break`: the body answers (true, s) to leave the loop *)
Fixpoint forB {S} (l : list nat) (body : nat -> S -> res (bool * S)) (s : S) : res S :=
  match l with
  | [] => Ok s
  | i :: r => do bs <- body i s; if fst bs then Ok (snd bs) else forB r body (snd bs)
  end.

(* `while (i--)`: byte indices i-1 .. 0 *)
Definition bytes_desc (nb : nat) : list nat := rev (seq 0 nb).

(* dest[k] = f(dest[k], src[k]) for the nb low bytes: bit_or, bit_and, bit_and_not, bit_copy *)
Definition map2_bytes (site : N) (f : N -> N -> N) (m : bmem) (dst : nat) (src : barr) (nb : nat) : res bmem :=
  forM (bytes_desc nb) (fun k m => do d <- rd site (get m dst) k; do s <- rd site src k; wr site m dst k (f d s)) m.
Definition bit_or site := map2_bytes site N.lor.
Definition bit_and site := map2_bytes site N.land.
Definition bit_and_not site := map2_bytes site N.ldiff.
Definition bit_copy site := map2_bytes site (fun _ s => s).
Definition bit_clear_all (site : N) (m : bmem) (dst nb : nat) : res bmem :=
  forM (bytes_desc nb) (fun k m => wr site m dst k 0%N) m.

Fixpoint has_and_loop (site : N) (a b : barr) (ks : list nat) : res bool :=
  match ks with
  | [] => Ok false
  | k :: r => do x <- rd site a k; do y <- rd site b k; if (N.land x y =? 0)%N then has_and_loop site a b r else Ok true
  end.
Definition bit_has_and (site : N) (a b : barr) (nb : nat) : res bool := has_and_loop site a b (bytes_desc nb).
Fixpoint has_any_loop (site : N) (a : barr) (ks : list nat) : res bool :=
  match ks with
  | [] => Ok false
  | k :: r => do x <- rd site a k; if (x =? 0)%N then has_any_loop site a r else Ok true
  end.
Definition bit_has_any (site : N) (a : barr) (nb : nat) : res bool := has_any_loop site a (bytes_desc nb).

(* the emitted tables: uscxml_state / uscxml_transition / uscxml_machine and the macros in force *)
Record bstate := { bs_parent : nat; bs_children : barr; bs_completion : barr; bs_ancestors : barr; bs_type : N }.
Record btrans := { bt_source : nat; bt_target : barr; bt_conflicts : barr; bt_exit : barr; bt_type : N;
                   bt_has_event : bool; bt_has_cond : bool }.
Record bmachine := {
  bm_states : list bstate;      (* <prefix>_states[] *)
  bm_trans : list btrans;       (* <prefix>_transitions[] *)
  bm_ns : nat;                  (* nr_states *)
  bm_nt : nat;                  (* nr_transitions *)
  bm_nsb : nat;                 (* nr_states_bytes as uscxml_step computes it *)
  bm_ntb : nat;                 (* nr_trans_bytes *)
  bm_iw : N                     (* bits of the type of i, j, k *)
}.

Definition st_at (site : N) (bm : bmachine) (i : nat) : res bstate :=
  match nth_error (bm_states bm) i with Some s => Ok s | None => Oob site end.
Definition tr_at (site : N) (bm : bmachine) (i : nat) : res btrans :=
  match nth_error (bm_trans bm) i with Some t => Ok t | None => Oob site end.

Definition kind_of (t : N) : N := N.land t CG_STATE_MASK_BITS.
Definition is_histk (t : N) : bool := (kind_of t =? CG_STATE_HISTORY_SHALLOW)%N || (kind_of t =? CG_STATE_HISTORY_DEEP)%N.
Definition hist_or_init (t : N) : bool := negb (N.land t (N.lor CG_TRANS_HISTORY CG_TRANS_INITIAL) =? 0)%N.
Definition flag_on (flags f : N) : bool := negb (N.land flags f =? 0)%N.

Section BStep.
Variable cv : cg_variant.
(* the callbacks: they see a `const uscxml_ctx*`, so they cannot change the arrays; [E] is everything else
   (queues, current event, output) *)
Variable E : Type.
Variable cb_deq_int : E -> option E.            (* dequeue_internal: None = NULL *)
Variable cb_deq_ext : E -> option E.
Variable cb_matched : E -> nat -> bool.         (* is_matched(ctx, &transitions[i], ctx->event) > 0 *)
Variable cb_enabled : E -> barr -> nat -> bool. (* transitions[i].is_enabled(ctx, ..) > 0; sees ctx->config *)
Variable cb_on_exit : nat -> barr -> E -> E.    (* states[i].on_exit, if any *)
Variable cb_on_trans : nat -> barr -> E -> E.   (* transitions[i].on_transition, if any *)
Variable cb_on_entry : nat -> barr -> E -> E.
Variable cb_done : nat -> E -> E.               (* raise_done_event(ctx, &states[i], ..) *)
Variable bm : bmachine.

Record bst := { b_mem : bmem; b_flags : N; b_env : E }.
Definition with_mem (s : bst) (m : bmem) : bst := {| b_mem := m; b_flags := b_flags s; b_env := b_env s |}.
Definition with_env (s : bst) (e : E) : bst := {| b_mem := b_mem s; b_flags := b_flags s; b_env := e |}.
Definition with_flags (s : bst) (f : N) : bst := {| b_mem := b_mem s; b_flags := f; b_env := b_env s |}.

Let ns := bm_ns bm.
Let nt := bm_nt bm.
Let nsb := bm_nsb bm.
Let ntb := bm_ntb bm.

(* ---- SELECT_TRANSITIONS; [ev] = ctx->event != NULL; answers the memory and USCXML_CTX_TRANSITION_FOUND ---- *)
Definition b_select_one (ev : bool) (e : E) (i : nat) (mf : bmem * bool) : res (bmem * bool) :=
  let m := fst mf in
  do t <- tr_at 101 bm i;
  if hist_or_init (bt_type t) then Ok mf else
  do act <- bit_has 102 (get m A_CONFIG) (bt_source t);
  if negb act then Ok mf else
  do cf <- bit_has 103 (get m A_CONFL) i;
  if cf then Ok mf else
  if negb (Bool.eqb (bt_has_event t) ev) then Ok mf else
  if (negb ev || cb_matched e i) && (negb (bt_has_cond t) || cb_enabled e (get m A_CONFIG) i) then
    do m1 <- bit_or 104 m A_CONFL (bt_conflicts t) ntb;
    do m2 <- bit_or 105 m1 A_TARGET (bt_target t) nsb;
    do m3 <- bit_or 106 m2 A_EXIT (bt_exit t) nsb;
    do m4 <- bit_set_at 107 m3 A_TRSET i;
    Ok (m4, true)
  else Ok mf.

Definition b_select (ev : bool) (e : E) (m : bmem) : res (bmem * bool) :=
  do m1 <- bit_clear_all 108 m A_CONFL ntb;
  do m2 <- bit_clear_all 109 m1 A_EXIT nsb;
  do mf <- forM (seq 0 nt) (b_select_one ev e) (m2, false);
  do m3 <- bit_and 110 (fst mf) A_EXIT (get (fst mf) A_CONFIG) nsb;
  Ok (m3, snd mf).

(* ---- REMEMBER_HISTORY ---- *)
Definition b_remember_one (i : nat) (m : bmem) : res bmem :=
  do s <- st_at 201 bm i;
  if negb (is_histk (bs_type s)) then Ok m else
  do pe <- bit_has 202 (get m A_EXIT) (bs_parent s);
  if negb pe then Ok m else
  do m1 <- bit_copy 203 m A_TMP (bs_completion s) nsb;
  do m2 <- bit_and 204 m1 A_TMP (get m1 A_CONFIG) nsb;
  do m3 <- bit_and_not 205 m2 A_HISTORY (bs_completion s) nsb;
  bit_or 206 m3 A_HISTORY (get m3 A_TMP) nsb.

Definition b_remember (m : bmem) : res bmem := forM (seq 0 ns) b_remember_one m.

(* ---- ESTABLISH_ENTRY_SET ---- *)
Definition b_anc_one (i : nat) (m : bmem) : res bmem :=
  do h <- bit_has 301 (get m A_ENTRY) i;
  if negb h then Ok m else
  do s <- st_at 302 bm i; bit_or 303 m A_ENTRY (bs_ancestors s) nsb.

(* `for (k = i + 1; k < n; k++) if (BIT_HAS(k, set)) { entry_set |= states[k].ancestors; [break;] }` *)
Definition b_add_anc_of (brk : bool) (set : barr) (i : nat) (m : bmem) : res bmem :=
  forB (seq (S i) (ns - S i))
       (fun k m => do b <- bit_has 311 set k;
                   if negb b then Ok (false, m) else
                   do sk <- st_at 312 bm k;
                   do m1 <- bit_or 313 m A_ENTRY (bs_ancestors sk) nsb; Ok (brk, m1)) m.

Definition b_hist_default (i : nat) (s : bstate) (m : bmem) : res bmem :=
  forB (seq 0 nt)
       (fun j m => do t <- tr_at 321 bm j;
                   if negb (bt_source t =? i) then Ok (false, m) else
                   do m1 <- bit_or 322 m A_ENTRY (bt_target t) nsb;
                   do m2 <- (if (kind_of (bs_type s) =? CG_STATE_HISTORY_DEEP)%N then
                               do x <- bit_has_and 323 (bt_target t) (bs_children s) nsb;
                               if x then Ok m1 else b_add_anc_of false (bt_target t) i m1
                             else Ok m1);
                   do m3 <- bit_set_at 324 m2 A_TRSET j; Ok (true, m3)) m.

Definition b_hist_nested (i : nat) (s : bstate) (m : bmem) : res bmem :=
  forM (seq (S i) (ns - S i))
       (fun j m => do a <- bit_has 331 (bs_completion s) j;
                   if negb a then Ok m else
                   do b <- bit_has 332 (get m A_ENTRY) j;
                   if negb b then Ok m else
                   do sj <- st_at 333 bm j;
                   if negb (flag_on (bs_type sj) CG_STATE_HAS_HISTORY) then Ok m else
                   forM (seq (S j) (ns - S j))
                        (fun k m => do sk <- st_at 334 bm k;
                                    if negb (is_histk (bs_type sk)) then Ok m else
                                    do cc <- bit_has 335 (bs_children sj) k;
                                    if cc then bit_set_at 336 m A_ENTRY k else Ok m) m) m.

Definition b_descend_one (i : nat) (m : bmem) : res bmem :=
  do h <- bit_has 341 (get m A_ENTRY) i;
  if negb h then Ok m else
  do s <- st_at 342 bm i;
  let k := kind_of (bs_type s) in
  if (k =? CG_STATE_PARALLEL)%N then bit_or 343 m A_ENTRY (bs_completion s) nsb
  else if is_histk (bs_type s) then
    do hh <- bit_has_and 344 (bs_completion s) (get m A_HISTORY) nsb;
    do pa <- (if hh || negb (cg_hist_active_parent cv) then Ok false else bit_has 345 (get m A_CONFIG) (bs_parent s));
    if negb hh && negb pa then b_hist_default i s m
    else
      do m1 <- bit_copy 346 m A_TMP (bs_completion s) nsb;
      do m2 <- bit_and 347 m1 A_TMP (get m1 A_HISTORY) nsb;
      do m3 <- bit_or 348 m2 A_ENTRY (get m2 A_TMP) nsb;
      if (bs_type s =? N.lor CG_STATE_HAS_HISTORY CG_STATE_HISTORY_DEEP)%N then b_hist_nested i s m3 else Ok m3
  else if (k =? CG_STATE_INITIAL)%N then
    forM (seq 0 nt)
         (fun j m => do t <- tr_at 351 bm j;
                     if negb (bt_source t =? i) then Ok m else
                     do m1 <- bit_set_at 352 m A_TRSET j;
                     do m2 <- bit_clear 353 m1 A_ENTRY i;
                     do m3 <- bit_or 354 m2 A_ENTRY (bt_target t) nsb;
                     b_add_anc_of false (bt_target t) i m3) m
  else if (k =? CG_STATE_COMPOUND)%N then
    do a <- bit_has_and 361 (get m A_ENTRY) (bs_children s) nsb;
    if a then Ok m else
    do b <- bit_has_and 362 (get m A_CONFIG) (bs_children s) nsb;
    do c <- (if b then bit_has_and 363 (get m A_EXIT) (bs_children s) nsb else Ok true);
    if negb c then Ok m else
    do m1 <- bit_or 364 m A_ENTRY (bs_completion s) nsb;
    do d <- bit_has_and 365 (bs_completion s) (bs_children s) nsb;
    if d then Ok m1 else b_add_anc_of false (bs_completion s) i m1
  else Ok m.

Definition b_entry_set (m : bmem) : res bmem :=
  do m1 <- bit_copy 371 m A_ENTRY (get m A_TARGET) nsb;
  do m2 <- forM (seq 0 ns) b_anc_one m1;
  forM (seq 0 ns) b_descend_one m2.

(* ---- EXIT_STATES, TAKE_TRANSITIONS ---- *)
Definition b_exit_one (i : nat) (s : bst) : res bst :=
  let m := b_mem s in
  do x <- bit_has 401 (get m A_EXIT) i;
  if negb x then Ok s else
  do c <- bit_has 402 (get m A_CONFIG) i;
  if negb c then Ok s else
  do st <- st_at 403 bm i;
  let e := cb_on_exit i (get m A_CONFIG) (b_env s) in
  do m1 <- bit_clear 404 m A_CONFIG i;
  Ok (with_env (with_mem s m1) e).

Definition b_take_one (i : nat) (s : bst) : res bst :=
  let m := b_mem s in
  do b <- bit_has 411 (get m A_TRSET) i;
  if negb b then Ok s else
  do t <- tr_at 412 bm i;
  if hist_or_init (bt_type t) then Ok s else Ok (with_env s (cb_on_trans i (get m A_CONFIG) (b_env s))).

(* ---- ENTER_STATES ---- *)
Definition b_pardone_one (i : nat) (st : bstate) (j : nat) (s : bst) : res bst :=
  do sj <- st_at 501 bm j;
  if negb (kind_of (bs_type sj) =? CG_STATE_PARALLEL)%N then Ok s else
  do a <- bit_has 502 (bs_ancestors st) j;
  if negb a then Ok s else
  do m1 <- bit_clear_all 503 (b_mem s) A_TMP nsb;
  do m2 <- forM (seq 0 ns)
                (fun k m => do sk <- st_at 504 bm k;
                            do x <- bit_has 505 (bs_ancestors sk) j;
                            if negb x then Ok m else
                            do y <- bit_has 506 (get m A_CONFIG) k;
                            if negb y then Ok m else
                            if (kind_of (bs_type sk) =? CG_STATE_FINAL)%N then bit_and_not 507 m A_TMP (bs_ancestors sk) nsb
                            else bit_set_at 508 m A_TMP k) m1;
  do any <- bit_has_any 509 (get m2 A_TMP) nsb;
  Ok (if any then with_mem s m2 else with_env (with_mem s m2) (cb_done j (b_env s))).

Definition b_enter_one (i : nat) (s : bst) : res bst :=
  let m := b_mem s in
  do a <- bit_has 511 (get m A_ENTRY) i;
  if negb a then Ok s else
  do b <- bit_has 512 (get m A_CONFIG) i;
  if b then Ok s else
  do st <- st_at 513 bm i;
  if is_histk (bs_type st) || (kind_of (bs_type st) =? CG_STATE_INITIAL)%N then Ok s else
  do m1 <- bit_set_at 514 m A_CONFIG i;
  do d <- bit_has 515 (get m1 A_INITD) i;
  do m2 <- (if d then Ok m1 else bit_set_at 516 m1 A_INITD i);
  let e1 := cb_on_entry i (get m2 A_CONFIG) (b_env s) in
  do s1 <- forM (seq 0 nt)
                (fun j s => do bj <- bit_has 517 (get (b_mem s) A_TRSET) j;
                            if negb bj then Ok s else
                            do t <- tr_at 518 bm j;
                            if negb (hist_or_init (bt_type t)) then Ok s else
                            do ss <- st_at 519 bm (bt_source t);
                            if bs_parent ss =? i then Ok (with_env s (cb_on_trans j (get (b_mem s) A_CONFIG) (b_env s))) else Ok s)
                (with_env (with_mem s m2) e1);
  if negb (kind_of (bs_type st) =? CG_STATE_FINAL)%N then Ok s1 else
  do top <- (if cg_tlf_first_byte cv then do a0 <- rd 520 (bs_ancestors st) 0; Ok (a0 =? 1)%N else Ok (bs_parent st =? 0));
  do s2 <- (if top then Ok (with_flags s1 (N.lor (b_flags s1) CG_CTX_TOP_LEVEL_FINAL))
            else do sp <- st_at 521 bm (bs_parent st); Ok (with_env s1 (cb_done (bs_parent st) (b_env s1))));
  forM (seq 0 ns) (b_pardone_one i st) s2.

(* from REMEMBER_HISTORY (or ESTABLISH_ENTRY_SET) to `return USCXML_ERR_OK` *)
Definition b_microstep (remember : bool) (s : bst) : res (bst * N) :=
  do m1 <- (if remember then b_remember (b_mem s) else Ok (b_mem s));
  do m2 <- b_entry_set m1;
  do s1 <- forM (rev (seq 0 ns)) b_exit_one (with_mem s m2);
  do s2 <- forM (seq 0 nt) b_take_one s1;
  do s3 <- forM (seq 0 ns) b_enter_one s2;
  Ok (s3, CG_ERR_OK).

(* "manage invocations" *)
Definition b_invocations (m : bmem) : res bmem :=
  forM (seq 0 ns)
       (fun i m => do c <- bit_has 601 (get m A_CONFIG) i;
                   do v <- (if c then Ok false else bit_has 602 (get m A_INVOC) i);
                   do m1 <- (if v then do st <- st_at 603 bm i; bit_clear 604 m A_INVOC i else Ok m);
                   do c2 <- bit_has 605 (get m1 A_CONFIG) i;
                   do v2 <- (if c2 then bit_has 606 (get m1 A_INVOC) i else Ok true);
                   if v2 then Ok m1 else do st <- st_at 607 bm i; bit_set_at 608 m1 A_INVOC i) m.

(* DEQUEUE_EVENT ... SELECT_TRANSITIONS, looping while no transition is found *)
Fixpoint b_dequeue (fuel : nat) (s : bst) : res (bst * N) :=
  match fuel with
  | O => OutOfFuel
  | S f =>
    let try (ev : bool) (s : bst) : res (bst * N) :=
      do mf <- b_select ev (b_env s) (b_mem s);
      if snd mf then
        b_microstep true (with_flags (with_mem s (fst mf)) (N.lor (b_flags s) CG_CTX_SPONTANEOUS))
      else b_dequeue f (with_flags (with_mem s (fst mf)) (N.ldiff (b_flags s) CG_CTX_SPONTANEOUS)) in
    if flag_on (b_flags s) CG_CTX_SPONTANEOUS then try false s
    else
      match cb_deq_int (b_env s) with
      | Some e => try true (with_env s e)
      | None =>
        do m1 <- b_invocations (b_mem s);
        match cb_deq_ext (b_env s) with
        | Some e => try true (with_env (with_mem s m1) e)
        | None => Ok (with_mem s m1, CG_ERR_IDLE)
        end
      end
  end.

(* the loop counters i, j, k (one emitted type) can reach both bounds *)
Definition counters_fit : bool := (N.of_nat ns <? 2 ^ bm_iw bm)%N && (N.of_nat nt <? 2 ^ bm_iw bm)%N.

Definition b_step (fuel : nat) (s : bst) : res (bst * N) :=
  if flag_on (b_flags s) CG_CTX_FINISHED then Ok (s, CG_ERR_DONE)
  else if flag_on (b_flags s) CG_CTX_TOP_LEVEL_FINAL then
    (* `i = USCXML_NUMBER_STATES; while (i-- > 0)`: the assignment truncates to the type of i *)
    do s1 <- forM (rev (seq 0 (N.to_nat (trunc (bm_iw bm) (N.of_nat ns)))))
                  (fun i s => do c <- bit_has 701 (get (b_mem s) A_CONFIG) i;
                              do s1 <- (if c then do st <- st_at 702 bm i; Ok (with_env s (cb_on_exit i (get (b_mem s) A_CONFIG) (b_env s))) else Ok s);
                              do v <- bit_has 703 (get (b_mem s1) A_INVOC) i;
                              if v then do st <- st_at 704 bm i; do m1 <- bit_clear 705 (b_mem s1) A_INVOC i; Ok (with_mem s1 m1) else Ok s1) s;
    Ok (with_flags s1 (N.lor (b_flags s1) CG_CTX_FINISHED), CG_ERR_DONE)
  else if negb counters_fit then Diverge
  else
    do m1 <- bit_clear_all 711 (b_mem s) A_TARGET nsb;
    do m2 <- bit_clear_all 712 m1 A_TRSET ntb;
    if (b_flags s =? CG_CTX_PRISTINE)%N then
      do s0 <- st_at 713 bm 0;
      do m3 <- bit_or 714 m2 A_TARGET (bs_completion s0) nsb;
      b_microstep false (with_flags (with_mem s m3) (N.lor (b_flags s) (N.lor CG_CTX_SPONTANEOUS CG_CTX_INITIALIZED)))
    else b_dequeue fuel (with_mem s m2).

End BStep.

(* ---- the machine ChartToC writes for a chart, and the callbacks of the harness, for the correspondence ---- *)

Definition byte_of (set : list nat) (k : nat) : N :=
  fold_left (fun a b => if mem (8 * k + b) set then N.lor a (2 ^ N.of_nat b)%N else a) (seq 0 8) 0%N.
Definition to_bytes (nb : nat) (set : list nat) : barr := map (byte_of set) (seq 0 nb).
Definition of_bytes (n : nat) (a : barr) : list nat :=
  filter (fun i => negb (N.land (nth (i / 8) a 0%N) (bitmask i) =? 0)%N) (seq 0 n).

Definition kind_code (t : ftype) : N :=
  match t with
  | FAtomic => CG_STATE_ATOMIC | FParallel => CG_STATE_PARALLEL | FCompound => CG_STATE_COMPOUND | FFinal => CG_STATE_FINAL
  | FHistDeep => CG_STATE_HISTORY_DEEP | FHistShallow => CG_STATE_HISTORY_SHALLOW | FInitial => CG_STATE_INITIAL
  end.

Section Machine.
Variable cv : cg_variant.
Variable c : fchart.

Let ns := nstates c.
Let nt := ntrans c.
Definition m_maxs : nat := N.to_nat (max_bytes (N.of_nat ns)).
Definition m_maxt : nat := N.to_nat (max_bytes (N.of_nat nt)).
Definition m_ws : N := width_for (N.of_nat ns).
Definition m_wt : N := width_for (N.of_nat nt).

(* Predicates.cpp getExitSet: the proper states below the transition's domain *)
Definition cexit_table (t : ftrans) : list nat :=
  match domain c t with
  | None => []
  | Some d => filter (fun j => negb (is_pseudo (fs_type (st c j)))) (seq (S d) (fs_size (st c d) - 1))
  end.

(* Predicates.cpp getSourceState: the source of the transition of an <initial> element is the state around it.
   (Only the table rows of <initial> transitions depend on it, and those are never candidates of a selection.) *)
Definition eff_source (t : ftrans) : ftrans :=
  if ft_initial t then
    {| ft_vid := ft_vid t;
       ft_source := match fs_parent (st c (ft_source t)) with Some p => p | None => ft_source t end;
       ft_targets := ft_targets t; ft_targetless := ft_targetless t; ft_internal := ft_internal t;
       ft_spontaneous := ft_spontaneous t; ft_history := ft_history t; ft_initial := ft_initial t;
       ft_event := ft_event t; ft_cond := ft_cond t; ft_body := ft_body t; ft_has_body := ft_has_body t |}
  else t.

Definition bstate_of (i : nat) : bstate :=
  let s := st c i in
  {| bs_parent := match fs_parent s with Some p => p | None => 0 end;
     bs_children := to_bytes m_maxs (fs_children s);
     bs_completion := to_bytes m_maxs (ccompl cv c i);
     bs_ancestors := to_bytes m_maxs (fs_ancestors s);
     bs_type := N.lor (kind_code (fs_type s)) (if has_history c i then CG_STATE_HAS_HISTORY else 0%N) |}.

Definition btrans_of (i : nat) : btrans :=
  let t := tr c i in
  {| bt_source := ft_source t;
     bt_target := to_bytes m_maxs (ft_targets t);
     bt_conflicts := to_bytes m_maxt (filter (fun j => fconflicts c (eff_source t) (eff_source (tr c j))) (seq 0 nt));
     bt_exit := to_bytes m_maxs (cexit_table (eff_source t));
     bt_type := N.lor (if ft_targetless t then CG_TRANS_TARGETLESS else 0%N)
               (N.lor (if ft_internal t then CG_TRANS_INTERNAL else 0%N)
               (N.lor (if ft_spontaneous t then CG_TRANS_SPONTANEOUS else 0%N)
               (N.lor (if ft_history t then CG_TRANS_HISTORY else 0%N)
                      (if ft_initial t then CG_TRANS_INITIAL else 0%N))));
     bt_has_event := negb (ft_spontaneous t);
     bt_has_cond := match ft_cond t with Some _ => true | None => false end |}.

Definition bmachine_of : bmachine :=
  {| bm_states := map bstate_of (seq 0 ns);
     bm_trans := map btrans_of (seq 0 nt);
     bm_ns := ns; bm_nt := nt;
     bm_nsb := N.to_nat (nr_bytes m_ws (N.of_nat ns));
     bm_ntb := N.to_nat (nr_bytes m_wt (N.of_nat nt));
     (* `(_states.size() > _transitions.size() ? "USCXML_NR_STATES_TYPE" : "USCXML_NR_TRANS_TYPE") i, j, k;` *)
     bm_iw := if nt <? ns then m_ws else m_wt |}.

(* callbacks of harness/cgen_harness.c *)
Record benv := { be_x : cx; be_ev : bytes }.

Definition inst_bytes (config : barr) (sid : N) : bool :=
  existsb (fun i => (fs_sid (st c i) =? sid)%N) (of_bytes ns config).

Definition h_deq_int (e : benv) : option benv :=
  match cx_iq (be_x e) with
  | ev :: r => Some {| be_x := {| cx_iq := r; cx_eq := cx_eq (be_x e); cx_out := CEv ev :: cx_out (be_x e) |}; be_ev := ev |}
  | [] => None
  end.
Definition h_deq_ext (e : benv) : option benv :=
  match cx_eq (be_x e) with
  | ev :: r => Some {| be_x := {| cx_iq := cx_iq (be_x e); cx_eq := r; cx_out := CEv ev :: cx_out (be_x e) |}; be_ev := ev |}
  | [] => None
  end.
Definition h_matched (e : benv) (i : nat) : bool := name_match_impl nm_fixed (ft_event (tr c i)) (be_ev e).
Definition h_enabled (e : benv) (config : barr) (i : nat) : bool :=
  match ft_cond (tr c i) with Some cnd => c_is_true (inst_bytes config) cnd | None => true end.
Definition h_lift (f : cx -> cx) (e : benv) : benv := {| be_x := f (be_x e); be_ev := be_ev e |}.
Definition h_on_exit (i : nat) (config : barr) : benv -> benv := h_lift (cexec_blocks (inst_bytes config) (fs_onexit (st c i))).
Definition h_on_entry (i : nat) (config : barr) : benv -> benv := h_lift (cexec_blocks (inst_bytes config) (fs_onentry (st c i))).
Definition h_on_trans (i : nat) (config : barr) : benv -> benv :=
  h_lift (fun x => if ft_has_body (tr c i) then cexec_block (inst_bytes config) (ft_body (tr c i)) x else x).
Definition h_done (i : nat) : benv -> benv := h_lift (craise_done c i).

Definition h_step_m (bm : bmachine) (fuel : nat) (s : bst benv) : res (bst benv * N) :=
  b_step cv benv h_deq_int h_deq_ext h_matched h_enabled h_on_exit h_on_trans h_on_entry h_done bm fuel s.
Definition h_step (fuel : nat) (s : bst benv) : res (bst benv * N) := h_step_m bmachine_of fuel s.

(* ctx is memset to 0; the six local arrays of uscxml_step hold whatever the stack holds: here 0xAA *)
Definition mem_init : bmem :=
  repeat (repeat 0%N m_maxs) 4 ++ repeat (repeat 170%N m_maxt) 2 ++ repeat (repeat 170%N m_maxs) 4.

Inductive brun_end := BEnd | BOob (site : N) | BDiverge | BFuel.

(* [bm] is the machine (bmachine_of), built once *)
Fixpoint brun_loop (bm : bmachine) (fuel : nat) (s : bst benv) (evs : list bytes) : list ctok * brun_end :=
  match fuel with
  | O => (rev (cx_out (be_x (b_env benv s))), BEnd)
  | S f =>
    let x := be_x (b_env benv s) in
    match h_step_m bm (2 + length (cx_iq x) + length (cx_eq x)) s with
    | Oob site => (rev (cx_out x), BOob site)
    | Diverge => (rev (cx_out x), BDiverge)
    | OutOfFuel => (rev (cx_out x), BFuel)
    | Ok (s1, rc) =>
      let m := b_mem benv s1 in
      let e1 := b_env benv s1 in
      let x2 := cemit (CHist (sids c (of_bytes ns (get m A_HISTORY))))
                      (cemit (CCfg (sids c (of_bytes ns (get m A_CONFIG)))) (cemit (CRet rc) (be_x e1))) in
      let s2 := with_env benv s1 {| be_x := x2; be_ev := be_ev e1 |} in
      (* locals are dead after the call: the next call finds garbage again *)
      let s3 := with_mem benv s2 (firstn 4 m ++ skipn 4 mem_init) in
      if (rc =? CG_ERR_DONE)%N then (rev (cx_out x2), BEnd)
      else if (rc =? CG_ERR_IDLE)%N then
        match evs with
        | [] => (rev (cx_out x2), BEnd)
        | ev :: r =>
          brun_loop bm f (with_env benv s3 {| be_x := {| cx_iq := cx_iq x2; cx_eq := cx_eq x2 ++ [ev]; cx_out := cx_out x2 |}; be_ev := be_ev e1 |}) r
        end
      else brun_loop bm f s3 evs
    end
  end.

End Machine.

Definition run_bgen (cv : cg_variant) (t : tree) (evs : list bytes) (fuel : nat) : list ctok * brun_end :=
  let c := flatten false t in
  brun_loop cv c (bmachine_of cv c) fuel {| b_mem := mem_init c; b_flags := CG_CTX_PRISTINE; b_env := {| be_x := cx_init; be_ev := [] |} |} evs.
