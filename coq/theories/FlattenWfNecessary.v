(* FlattenWfNecessary.v -- the converse of FlattenWfLemmas.flatten_wf_core_lemma: which clauses of
   FlattenWf.core_treeb are NECESSARY for the flat tables to pass WfCore.wf_coreb with a compound root.
     * ct_kindsb, ct_rootb, ct_no_root_targetb are necessary for every document;
     * ct_initialb is necessary when the ids listed in 'initial' attributes name elements of the document
       (ct_initial_knownb: ids that name nothing are dropped by LargeMicroStep::init);
     * ct_target_setsb is necessary when the ids are unique;
     * ct_uniqueb itself is not necessary (a document with two elements of the same id can pass wf_coreb).
   Hence for documents with unique ids whose 'initial' attributes name existing elements,
   core_treeb t  <->  wf_coreb (flatten late t) /\ the root is compound.   Proofs only. *)
From V Require Import Base Chart Tables TreeLemmas LargeCacheLemmas LegalAbstract LegalLarge WfCore
     FlattenWf FlattenWfTree FlattenWfStruct FlattenWfKinds FlattenWfLemmas.
Local Open Scope nat_scope.

Definition ct_initial_knownb (t : tree) : bool :=
  forallb (fun u => if compound_node u then match t_initattr u with
                                            | Some l => forallb (fun s => memN s (sids t)) l
                                            | None => true end
                    else true) (subtrees t).

(* ------------------------------------------------------------------ resortStates keeps the elements *)

Lemma resort_kids_in k s i tr en ex d kids x :
  In x (map resort kids) -> In x (t_kids (resort (TNode k s i tr en ex d kids))).
Proof.
  intros Hx. cbn [resort t_kids].
  set (kids' := map resort kids) in *.
  set (k1 := rev (filter (fun c => is_hist_kind (t_kind c)) kids') ++ filter (fun c => negb (is_hist_kind (t_kind c))) kids').
  assert (H1 : In x k1).
  { unfold k1. apply in_app_iff. destruct (is_hist_kind (t_kind x)) eqn:E.
    - left. apply in_rev. rewrite rev_involutive. apply filter_In. tauto.
    - right. apply filter_In. rewrite E. tauto. }
  apply in_app_iff. destruct (t_kind x) eqn:E;
    try (right; apply filter_In; rewrite E; tauto).
  left. apply in_rev. rewrite rev_involutive. apply filter_In. rewrite E. tauto.
Qed.

Lemma resort_subtrees : forall t u, In u (subtrees t) -> In (resort u) (subtrees (resort t)).
Proof.
  induction t using tree_ind'. intros u Hu. rewrite subtrees_unfold in Hu. cbn [t_kids] in Hu.
  destruct Hu as [<-|Hu]; [apply subtrees_self|].
  apply in_flat_map in Hu. destruct Hu as (kid & Hkid & Hu). rewrite Forall_forall in H.
  eapply subtrees_kid; [|exact (H kid Hkid u Hu)].
  apply resort_kids_in. now apply in_map.
Qed.

Lemma type_core_kind u : core_type (type_of u) = true -> core_kind (t_kind u) = true.
Proof. unfold type_of. destruct (t_kind u); cbn; try discriminate; reflexivity. Qed.

(* kinds: for EVERY document *)
Lemma kinds_necessary late t : wf_coreb (flatten late t) = true -> ct_kindsb t = true.
Proof.
  intros W. destruct (WfCore.parts _ W) as (_ & _ & _ & _ & _ & _ & T & _).
  unfold wfb_types in T. rewrite flatten_nstates in T. rewrite fseq in T.
  apply ct_kindsb_spec. intros u Hu. rewrite <- (resort_kind u). apply type_core_kind.
  destruct (subtrees_ntree (resort t) _ (resort_subtrees t u Hu)) as (i & Hi & Ei).
  specialize (T i Hi). destruct (st_flatten late t i Hi) as (_ & _ & _ & _ & _ & Et). rewrite Et in T.
  rewrite <- (ntree_nodes (resort t) i Hi), Ei in T. exact T.
Qed.

(* filter over the child trees against filter over the child numbers *)
Lemma filter_child_indices_ge (P : nat -> bool) (Q : tree -> bool) : forall kids s,
  (forall j kid, nth_error kids j = Some kid -> Q kid = true -> P (s + tsize_list (firstn j kids)) = true) ->
  length (filter Q kids) <= length (filter P (child_indices kids s)).
Proof.
  induction kids as [|x r IH]; intros s H; [cbn; lia|]. cbn [child_indices filter].
  assert (Hr : length (filter Q r) <= length (filter P (child_indices r (s + tsize x)))).
  { apply IH. intros j kid Hj Hq. specialize (H (S j) kid Hj Hq). cbn [firstn] in H. rewrite tsize_list_cons in H.
    now rewrite Nat.add_assoc in H. }
  destruct (Q x) eqn:Qx.
  - specialize (H 0 x eq_refl Qx). cbn [firstn tsize_list fold_right] in H. rewrite Nat.add_0_r in H. rewrite H.
    cbn [length]. lia.
  - destruct (P s); cbn [length]; lia.
Qed.

Section Nec.
Variable late : bool.
Variable t : tree.
Hypothesis W : wf_coreb (flatten late t) = true.
Hypothesis R : fs_type (st (flatten late t) 0) = FCompound.
Local Notation c := (flatten late t).
Local Notation n := (tsize t).
Local Notation nodes := (nodes_of t).

Let KK : ct_kindsb t = true := kinds_necessary late t W.

Lemma nec_root : ct_rootb t = true.
Proof.
  destruct (c_st late t KK 0 (tsize_pos t)) as (E & _). rewrite R, ntree_root in E. symmetry in E.
  now apply (type_of_core t KK t (subtrees_self t)) in E.
Qed.

Lemma nec_no_root_target : ct_no_root_targetb t = true.
Proof.
  unfold ct_no_root_targetb. apply forallb_forall. intros w Hw. apply forallb_forall. intros x Hx.
  destruct (tt_targets x) as [l|] eqn:El; [|reflexivity]. apply negb_true_iff.
  destruct (memN (t_sid t) l) eqn:Em; [|reflexivity]. exfalso. apply memN_In in Em.
  destruct (c_tr_complete late t KK w x Hw Hx) as (ti & k & Hti & E).
  assert (Hroot : In (t_sid t) (sids t)) by (unfold sids; apply in_map, subtrees_self).
  destruct (resolve_first t KK _ Hroot) as (g & Eg & Hg & _ & Hfirst).
  assert (g = 0).
  { destruct g as [|g]; [reflexivity|]. exfalso. apply (Hfirst 0 ltac:(lia)). now rewrite ntree_root. }
  subst g.
  assert (Hin : In 0 (ft_targets (tr c ti))).
  { rewrite E. cbn [ft_targets mk_trans]. rewrite El. apply In_filter_map. exists (t_sid t). split; [exact Em | exact Eg]. }
  apply (WfCore.targets_spec c W) in Hin. lia.
Qed.

Lemma nec_initial : ct_initial_knownb t = true -> ct_initialb t = true.
Proof.
  intros IK. unfold ct_initialb. apply forallb_forall. intros u Hu.
  destruct (compound_node u) eqn:Ecn; [|reflexivity].
  unfold ct_initial_knownb in IK. rewrite forallb_forall in IK. specialize (IK u Hu). rewrite Ecn in IK.
  destruct (subtrees_ntree t u Hu) as (i & Hi & Ei).
  destruct (c_st late t KK i Hi) as (Et & Ec & _ & Ecomp). rewrite Ei in Et, Ec, Ecomp.
  assert (Ety : fs_type (st c i) = FCompound) by (rewrite Et; now apply (type_of_core t KK u Hu)).
  destruct (WfCore.compound_spec c W i Ety) as (k & Ck & Hk).
  unfold initial_okb. destruct (t_initattr u) as [l|] eqn:Ei0; [|reflexivity].
  rewrite Ecomp in Ck. unfold completion_of in Ck. rewrite Ei0 in Ck.
  assert (Hset : set_of_list (filter_map (nat_of_sid (fl_ids t)) l) = [k]).
  { unfold compound_node in Ecn. destruct (t_kind u); try discriminate; exact Ck. }
  rewrite Ec in Hk. apply child_indices_spec in Hk. destruct Hk as (j & kid & Hj & Ek).
  rewrite <- Ei in Hj. destruct (ntree_kid t i j kid Hi Hj) as [Hb Hnb]. rewrite Ei in Hj, Hb, Hnb. rewrite <- Ek in Hb, Hnb.
  (* every id of l resolves to k, i.e. is the id of the child numbered k *)
  assert (Hall : forall s, In s l -> s = t_sid kid).
  { intros s Hs. rewrite forallb_forall in IK. specialize (IK s Hs). apply memN_In in IK.
    destruct (resolve_first t KK s IK) as (g & Eg & _ & Hsid & _).
    assert (Hg : In g (set_of_list (filter_map (nat_of_sid (fl_ids t)) l))).
    { apply SetLemmas.In_set_of_list. apply In_filter_map. exists s. split; [exact Hs | exact Eg]. }
    rewrite Hset in Hg. destruct Hg as [<-|[]]. rewrite <- Hsid, Hnb. reflexivity. }
  destruct l as [|s r].
  - cbn in Hset. discriminate.
  - apply andb_true_iff. split.
    + apply forallb_forall. intros s' Hs'. apply N.eqb_eq. rewrite (Hall s (or_introl eq_refl)), (Hall s' (or_intror Hs')). reflexivity.
    + apply memN_In. rewrite (Hall s (or_introl eq_refl)). apply in_map. eapply nth_error_In; eauto.
Qed.

Lemma nec_target_sets : ct_uniqueb t = true -> ct_target_setsb t = true.
Proof.
  intros U. apply nodupNb_NoDup in U.
  destruct (tree_interval_flatten late t) as (_ & _ & Hanc & _). rewrite (core_resort_id t KK) in Hanc.
  unfold ct_target_setsb. apply forallb_forall. intros w Hw. apply forallb_forall. intros x Hx.
  destruct (tt_targets x) as [l|] eqn:El; [|reflexivity].
  unfold target_set_okb. apply forallb_forall. intros v Hv. destruct (compound_node v) eqn:Ecn; [|reflexivity].
  destruct (c_tr_complete late t KK w x Hw Hx) as (ti & k & Hti & E).
  destruct (subtrees_ntree t v Hv) as (i & Hi & Ei).
  destruct (c_st late t KK i Hi) as (Et & Ec & _). rewrite Ei in Et, Ec.
  assert (Ety : fs_type (st c i) = FCompound) by (rewrite Et; now apply (type_of_core t KK v Hv)).
  destruct (WfCore.parts _ W) as (_ & _ & _ & _ & _ & _ & _ & _ & _ & _ & _ & TS).
  unfold wfb_target_sets in TS. rewrite fseq in TS. specialize (TS ti Hti). rewrite fseq in TS.
  specialize (TS i ltac:(rewrite (c_nstates late t KK); exact Hi)). rewrite Ety, Ec in TS.
  apply Nat.leb_le in TS. apply Nat.leb_le. etransitivity; [|exact TS].
  unfold kids_hit. apply filter_child_indices_ge. intros j kid Hj Hq.
  rewrite <- Ei in Hj. destruct (ntree_kid t i j kid Hi Hj) as [Hb Hnb]. rewrite Ei in Hj, Hb, Hnb.
  set (b := S i + tsize_list (firstn j (t_kids v))) in *.
  apply existsb_exists in Hq. destruct Hq as (s & Hs & Hm). apply memN_In in Hm. unfold sids in Hm.
  apply in_map_iff in Hm. destruct Hm as (u' & Es & Hu').
  destruct (subtrees_ntree kid u' Hu') as (k' & Hk' & Ek').
  destruct (ntree_block t b k' Hb ltac:(rewrite Hnb; exact Hk')) as [Hgn Eg]. rewrite Hnb, Ek' in Eg.
  apply existsb_exists. exists (b + k'). split.
  - rewrite E. cbn [ft_targets mk_trans]. rewrite El. apply In_filter_map. exists s. split; [exact Hs|].
    rewrite <- Es, <- Eg. now apply (resolve_unique t KK).
  - unfold on_path. destruct k' as [|k'].
    + rewrite Nat.add_0_r, Nat.eqb_refl. reflexivity.
    + apply orb_true_iff. right. apply (Hanc b (b + S k') Hb Hgn).
      destruct (c_st late t KK b Hb) as (_ & _ & Esz & _). rewrite Esz, Hnb. lia.
Qed.

Theorem core_treeb_necessary_sec : ct_uniqueb t = true -> ct_initial_knownb t = true -> core_treeb t = true.
Proof.
  intros U IK. unfold core_treeb. rewrite KK, nec_root, U, (nec_initial IK), nec_no_root_target, (nec_target_sets U).
  reflexivity.
Qed.

End Nec.

(* necessity, clause by clause *)
Theorem core_clauses_necessary_lemma : forall late t,
  wf_coreb (flatten late t) = true -> fs_type (st (flatten late t) 0) = FCompound ->
  ct_kindsb t = true /\ ct_rootb t = true /\ ct_no_root_targetb t = true /\
  (ct_initial_knownb t = true -> ct_initialb t = true) /\
  (ct_uniqueb t = true -> ct_target_setsb t = true).
Proof.
  intros late t W R. split; [now apply (kinds_necessary late)|]. split; [now apply (nec_root late)|].
  split; [now apply (nec_no_root_target late)|]. split; [now apply (nec_initial late) | now apply (nec_target_sets late)].
Qed.

(* for documents with unique ids whose 'initial' attributes name existing elements, core_treeb is EXACTLY
   "the flat tables pass wf_coreb and the root is compound" *)
Theorem core_treeb_exact_lemma : forall late t, ct_uniqueb t = true -> ct_initial_knownb t = true ->
  (core_treeb t = true <-> wf_coreb (flatten late t) = true /\ fs_type (st (flatten late t) 0) = FCompound).
Proof.
  intros late t U IK. split; [apply flatten_wf_core_lemma|]. intros [W R]. now apply (core_treeb_necessary_sec late).
Qed.

(* the two side conditions of the converse cannot be dropped: documents that pass wf_coreb with a compound
   root but not core_treeb -- two leaves with the same id; initial="1 99" with no element 99 *)
Local Open Scope N_scope.
Definition w_dup_ok : tree :=
  TNode KScxml 0 None [] [] [] [] [TNode KState 1 None [] [] [] [] []; TNode KState 1 None [] [] [] [] []].
Definition w_initial_unknown : tree :=
  TNode KScxml 0 (Some [1; 99]) [] [] [] [] [TNode KState 1 None [] [] [] [] []; TNode KState 2 None [] [] [] [] []].

Lemma core_treeb_necessary_unique_refuted :
  exists t, ct_uniqueb t = false /\ ct_initial_knownb t = true /\ core_treeb t = false /\
            wf_coreb (flatten false t) = true /\ fs_type (st (flatten false t) 0%nat) = FCompound.
Proof. exists w_dup_ok. vm_compute. repeat split; reflexivity. Qed.

Lemma core_treeb_necessary_initial_known_refuted :
  exists t, ct_uniqueb t = true /\ ct_initial_knownb t = false /\ core_treeb t = false /\
            wf_coreb (flatten false t) = true /\ fs_type (st (flatten false t) 0%nat) = FCompound.
Proof. exists w_initial_unknown. vm_compute. repeat split; reflexivity. Qed.
