(* RunConformHistDeep.v -- LargeMicroStep::init (Chart.flatten) gives a deep history the completion "every node below
   the history's parent that is no <history> element": for every document the condition DeepFull of
   RunConformHistRel.v (boolean: deep_cpl_fullb) holds, so it is no hypothesis of the theorems about flatten.
   Proofs only. *)
From V Require Import Base NameMatch Chart Exec Large LargeLemmas SetLemmas LargeCacheLemmas Tables TreeLemmas FlattenWfStruct
  LegalAbstract LegalHistBase LegalHistEntry RunConformInitialFlags RunConformHistRel.
Local Open Scope nat_scope.

Lemma fs_size_flatten late t s : s < nstates (flatten late t) ->
  fs_size (st (flatten late t) s) = tsize (fst (nth s (doc_nodes (resort t) 0 None) (resort t, None))).
Proof.
  unfold nstates, st, flatten. cbn [fc_states]. rewrite map_length, combine_length, seq_length, Nat.min_id.
  intros Hs.
  set (nodes := doc_nodes (resort t) 0 None) in *.
  set (g := fun p : tree * option nat * nat => let '(t0, parent, i) := p in _).
  rewrite (nth_indep _ dummy_state (g ((resort t, None), 0))) by (now rewrite map_length, combine_length, seq_length, Nat.min_id).
  rewrite map_nth, combine_nth by (now rewrite seq_length).
  rewrite seq_nth by exact Hs. cbn [plus].
  destruct (nth s nodes (resort t, None)) as [t1 p1]. reflexivity.
Qed.

Lemma type_of_hist_kind u : is_hist (type_of u) = is_hist_kind (t_kind u).
Proof. unfold type_of. destruct (t_kind u); try reflexivity; destruct (has_proper_child u); reflexivity. Qed.

Lemma type_of_deep u : type_of u = FHistDeep -> t_kind u = KHistDeep.
Proof. unfold type_of. destruct (t_kind u); try discriminate; try reflexivity; destruct (has_proper_child u); discriminate. Qed.

Theorem flatten_deep_full late t0 : WFH (flatten late t0) -> DeepFull (flatten late t0).
Proof.
  intros W H q x Hh Hd Hq Ha Hp.
  assert (Hn : nstates (flatten late t0) = tsize (resort t0)) by apply flatten_nstates.
  assert (Hlen : length (doc_nodes (resort t0) 0 None) = tsize (resort t0)) by apply doc_nodes_length.
  destruct (wh_par_lt _ W _ _ Hq) as [HqH HHn']. destruct (hanc_lt _ W _ _ Ha) as [Hqx Hxn'].
  assert (Hqn' : q < nstates (flatten late t0)) by lia.
  assert (HHn : H < tsize (resort t0)) by (rewrite <- Hn; exact HHn').
  assert (Hxn : x < tsize (resort t0)) by (rewrite <- Hn; exact Hxn').
  rewrite (fl_completion late t0 H HHn). unfold completion_of.
  (* the kind of H and its parent *)
  assert (HkH : t_kind (ntree (nodes_of (resort t0)) H) = KHistDeep).
  { apply type_of_deep. unfold deepS in Hd. pose proof (fs_type_flatten late t0 H HHn') as E.
    rewrite (nth_nodes_ntree t0 H HHn) in E. cbn [fst] in E. rewrite <- E.
    destruct (fs_type (st (flatten late t0) H)); try discriminate; reflexivity. }
  rewrite HkH.
  assert (HpH : npar (nodes_of (resort t0)) H = Some q).
  { pose proof (snd_nodes_parent late t0 H HHn) as E. rewrite Hq in E.
    change (nodes_of (resort t0)) with (doc_nodes (resort t0) 0 None) in E. rewrite (nth_nodes_ntree t0 H HHn) in E. exact E. }
  rewrite HpH. apply filter_In. split.
  - apply in_seq.
    assert (Hsz : fs_size (st (flatten late t0) q) =
                  tsize (fst (nth q (doc_nodes (resort t0) 0 None) (ntree (nodes_of (resort t0)) H, None)))).
    { rewrite (fs_size_flatten late t0 q Hqn'). f_equal. f_equal. apply nth_indep. rewrite Hlen, <- Hn. exact Hqn'. }
    rewrite <- Hsz. apply (wh_interval _ W q x Hqn' Hxn') in Ha. lia.
  - apply negb_true_iff. rewrite (nth_indep (doc_nodes (resort t0) 0 None) _ (resort t0, None)) by (rewrite Hlen; exact Hxn).
    rewrite <- type_of_hist_kind. pose proof (fs_type_flatten late t0 x Hxn') as E.
    rewrite <- E. unfold pseudoS in Hp. destruct (fs_type (st (flatten late t0) x)); try discriminate; reflexivity.
Qed.
