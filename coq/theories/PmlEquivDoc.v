(* PmlEquivDoc.v -- C06 at document level and against the interpreter's DEFAULT engine.
   1. The run theorems of PmlEquivRun.v / PmlEquivHistRun.v (emitted model = FastMicroStep) composed with the engine
      equivalence (EngineEquivMain.v / EngineEquivHistMain.v: fast = large under eq_chartb / eq_chartb_hist and the
      dynamic guard eq_guard_run / eq_guard_run_hist): the emitted model against LargeMicroStep.
   2. The per-chart booleans of PmlEquivHistMicro.chart_ph0 that hold for EVERY document (trans_lists, trans_kindsb,
      ascending root completion) discharged for Chart.flatten, and the headline theorems restated for documents
      that pass FlattenStaticTree.hist_treeb / eq_tree_histb.  What remains per document here: pml_deep_alone,
      conflict_tableb (discharged in PmlEquivDocConflict.v), the content conditions, the event-name set.  Proofs only. *)
From V Require Import Base NameMatch Chart Exec Large LargeLemmas Interp Fast Trie PmlStep PmlStepLemmas WfCore TreeLemmas
                      SerializeCodecLemmas LargeCacheLemmas FlattenWfStruct MicroConformCompose RunConformInitialFlags
                      LegalHistBase LegalHistWf EngineEquivBase EngineEquivStep EngineEquivRun EngineEquivMain
                      EngineEquivHistRun EngineEquivHistMain FlattenStaticTree FlattenStaticHist FlattenStaticMain
                      CGenEquivHist CGenEquivHistRun CGenEquivFlatten
                      PmlEquivBase PmlEquivExit PmlEquivContent PmlEquivStep PmlEquivMicro PmlEquivNames PmlEquivInit PmlEquivRun
                      PmlEquivBehaviour PmlEquivRunEx
                      PmlEquivHistEntry PmlEquivHistMicro PmlEquivHistInit PmlEquivHistRun PmlEquivHistBehaviour PmlEquivHistRunEx.
Local Open Scope nat_scope.

(* what the end of an observation of the emitted model and a state of the default engine have in common *)
Definition final_large (c : fchart) (r : pstatus) (s' : pstate) (l' : lstate) (x' : xstate) : Prop :=
  p_cfg s' = l_cfg l' /\ p_hist s' = l_hist l' /\ Rx c s' x' /\ (r = PTerminated -> l_fin l' = true).

(* ================================================================== 1. against LargeMicroStep *)
Lemma pml_run_equals_default_engine_partial_lemma pv c iq eq (P : bytes -> Prop) :
  pv_in_reads_root pv = false -> pv_cond_bare pv = false -> pv_hist_covered pv = false -> pv_found_stale pv = false ->
  eq_chartb c = true -> content_ok (chart_dom c) c = true -> (forall i, i <> 0 -> fs_data (st c i) = []) ->
  data_okb [] (fs_data (st c 0)) = true ->
  (forall e, P e -> e <> []) -> chart_names P c ->
  (forall j, (is_par (ptype c j) = true \/
              exists i, is_fin (ptype c i) = true /\ fs_parent (st c i) = Some j /\ mem 1 (fs_children (st c j)) = false) ->
             P (done_name c j)) ->
  (forall i name, P name -> i < ntrans c -> ft_spontaneous (tr c i) = false ->
     resolved_match (guard_literals pv c i) name = name_match_impl nm_fixed (ft_event (tr c i)) name) ->
  (forall m, eq_guard_run ex_fixed c m l_pristine x_init [] = true) ->
  forall fuel s' r,
  pml_loop pv c iq eq (S fuel) (p_init c) = (s', r) -> p_full s' = false -> r <> PFull ->
  exists m l' x', run_loop c lstate (large_step lg_fixed ex_fixed c) l_cfg m l_pristine x_init [] = (l', x') /\
                  final_large c r s' l' x'.
Proof.
  intros A1 A2 A3 A4 He A5 A6 A7 A8 A9 A10 A11 Hg fuel s' r Hl Hf Hr.
  destruct (eq_chartb_parts c He) as (H & Hroot & _).
  destruct (PmlEquivRun.pml_run_lemma pv c iq eq P A1 A2 A3 A4 H Hroot A5 A6 A7 A8 A9 A10 A11 fuel s' r Hl Hf Hr)
    as (m & lf & xf & Em & (F1 & F2 & F3 & F4)).
  destruct (fast_large_run_equiv_lemma ex_fixed c m [] He (Hg m)) as [(E1 & E2 & _ & _ & _ & _ & E7 & _) E].
  rewrite Em in E1, E2, E7, E. cbn [fst snd] in *.
  exists m, (fst (run_loop c lstate (large_step lg_fixed ex_fixed c) l_cfg m l_pristine x_init [])),
            (snd (run_loop c lstate (large_step lg_fixed ex_fixed c) l_cfg m l_pristine x_init [])).
  split; [now destruct (run_loop c lstate (large_step lg_fixed ex_fixed c) l_cfg m l_pristine x_init [])|].
  unfold final_large. rewrite <- E, <- E1, <- E2, <- E7. split; [exact F1|]. split; [exact F2|]. split; [exact F3|].
  intros ->. exact F4.
Qed.

Lemma pml_run_equals_default_engine_history_partial_lemma pv c iq eq (P : bytes -> Prop) :
  pv_repaired pv -> eq_chartb_hist c = true -> chart_ph0 c = true ->
  content_ok (chart_dom c) c = true -> (forall i, i <> 0 -> fs_data (st c i) = []) ->
  data_okb [] (fs_data (st c 0)) = true ->
  (forall e, P e -> e <> []) -> chart_names P c ->
  (forall j, (is_par (ptype c j) = true \/
              exists i, is_fin (ptype c i) = true /\ fs_parent (st c i) = Some j /\ mem 1 (fs_children (st c j)) = false) ->
             P (done_name c j)) ->
  (forall i name, P name -> i < ntrans c -> ft_spontaneous (tr c i) = false ->
     resolved_match (guard_literals pv c i) name = name_match_impl nm_fixed (ft_event (tr c i)) name) ->
  (forall m, eq_guard_run_hist ex_fixed c m l_pristine x_init [] = true) ->
  forall fuel s' r,
  pml_loop pv c iq eq (S fuel) (p_init c) = (s', r) -> p_full s' = false -> r <> PFull ->
  exists m l' x', run_loop c lstate (large_step lg_fixed ex_fixed c) l_cfg m l_pristine x_init [] = (l', x') /\
                  final_large c r s' l' x'.
Proof.
  intros A1 He Ach A5 A6 A7 A8 A9 A10 A11 Hg fuel s' r Hl Hf Hr.
  destruct (eq_chartb_hist_parts c He) as (H & Hroot & _).
  destruct (PmlEquivHistRun.pml_run_lemma pv c iq eq P A1 H Hroot Ach A5 A6 A7 A8 A9 A10 A11 fuel s' r Hl Hf Hr)
    as (m & lf & xf & Em & (F1 & F2 & F3 & F4)).
  destruct (fast_large_run_equiv_hist_lemma ex_fixed c m [] He (Hg m)) as [(E1 & E2 & _ & _ & _ & _ & E7 & _) E].
  rewrite Em in E1, E2, E7, E. cbn [fst snd] in *.
  exists m, (fst (run_loop c lstate (large_step lg_fixed ex_fixed c) l_cfg m l_pristine x_init [])),
            (snd (run_loop c lstate (large_step lg_fixed ex_fixed c) l_cfg m l_pristine x_init [])).
  split; [now destruct (run_loop c lstate (large_step lg_fixed ex_fixed c) l_cfg m l_pristine x_init [])|].
  unfold final_large. rewrite <- E, <- E1, <- E2, <- E7. split; [exact F1|]. split; [exact F2|]. split; [exact F3|].
  intros ->. exact F4.
Qed.

(* ================================================================== 2. the chart conditions that hold for every document *)
Lemma sortedb_of_ssorted l : LargeCacheLemmas.ssorted l -> sortedb l = true.
Proof.
  induction l as [|x [|y r] IH]; intros Hs; try reflexivity. cbn [LargeCacheLemmas.ssorted] in Hs. destruct Hs as [H1 H2].
  change (sortedb (x :: y :: r)) with ((x <? y) && sortedb (y :: r)). apply andb_true_iff. split.
  - apply Nat.ltb_lt. apply H1. now left.
  - now apply IH.
Qed.

(* flatten flags exactly the transitions of pseudo-states *)
Lemma trans_kinds_flatten late t : trans_kindsb (flatten late t) = true.
Proof.
  unfold trans_kindsb. apply forallb_forall. intros ti Hti. apply in_seq in Hti. destruct Hti as [_ Hti]. cbn [Nat.add] in Hti.
  apply eqb_true_iff.
  set (root := resort t). set (nodes := doc_nodes root 0 None). set (trs := all_trans nodes root).
  set (d := (0, {| tt_vid := 0%N; tt_event := None; tt_cond := None; tt_targets := None; tt_internal := false; tt_body := [] |}, KState)).
  assert (Hlen : ntrans (flatten late t) = length trs) by (unfold ntrans, flatten; cbn [fc_trans]; now rewrite map_length).
  rewrite Hlen in Hti.
  assert (Hin : In (nth ti trs d) trs) by now apply nth_In.
  unfold trs at 2 in Hin. unfold all_trans in Hin. apply in_flat_map in Hin as (i & Hi & Hin).
  apply in_map_iff in Hin as (y & Hy & _).
  assert (Hin' : i < nstates (flatten late t)).
  { rewrite (TreeLemmas.flatten_nstates late t). fold root. now apply postfix_states_lt. }
  set (ids := map (fun p : tree * option nat * nat => (t_sid (fst (fst p)), snd p)) (combine nodes (seq 0 (length nodes)))).
  assert (Etr : tr (flatten late t) ti = mk_trans ids (fst (fst (nth ti trs d))) (snd (nth ti trs d)) (snd (fst (nth ti trs d)))).
  { unfold tr, flatten. cbn [fc_trans]. fold root. fold nodes. fold trs. fold ids.
    rewrite (nth_indep _ dummy_trans (mk_trans ids (fst (fst d)) (snd d) (snd (fst d)))) by (now rewrite map_length).
    now rewrite (map_nth (fun x0 => mk_trans ids (fst (fst x0)) (snd x0) (snd (fst x0))) trs d ti). }
  rewrite Etr, <- Hy. unfold mk_trans. cbn [ft_history ft_initial ft_source fst snd].
  rewrite (fs_type_flatten late t i Hin'). fold root. fold nodes.
  unfold type_of. destruct (t_kind (fst (nth i nodes (root, None)))); cbn; try reflexivity;
    destruct (has_proper_child _); reflexivity.
Qed.

(* ... so for a document only three conditions remain *)
Definition doc_ph (c : fchart) : bool := pml_deep_alone c && conflict_tableb c.

Lemma chart_ph0_of_document late t :
  fs_type (st (flatten late t) 0) = FCompound -> doc_ph (flatten late t) = true -> chart_ph0 (flatten late t) = true.
Proof.
  intros Hr Hd. unfold doc_ph in Hd. apply andb_true_iff in Hd as [D C].
  unfold chart_ph0, chart_ph.
  rewrite D, C, (trans_lists_flatten late t), (trans_kinds_flatten late t),
          (sortedb_of_ssorted _ (flatten_compound_completion_sorted late t 0 Hr)). reflexivity.
Qed.

(* ================================================================== 3. the headline theorems for documents *)
Section Documents.
Variable t : tree.
Variable iq eq : nat.
Variable P : bytes -> Prop.
Let c := flatten false t.
Hypothesis Hdoc : doc_ph c = true.
Hypothesis Hcontent : content_ok (chart_dom c) c = true.
Hypothesis Hdok : data_okb [] (fs_data (st c 0)) = true.
Hypothesis HPne : forall e, P e -> e <> [].
Hypothesis Hnames : chart_names P c.
Hypothesis Hdone : forall j, (is_par (ptype c j) = true \/
              exists i, is_fin (ptype c i) = true /\ fs_parent (st c i) = Some j /\ mem 1 (fs_children (st c j)) = false) ->
             P (done_name c j).
Hypothesis Hmatch : forall i name, P name -> i < ntrans c -> ft_spontaneous (tr c i) = false ->
     resolved_match (guard_literals pml_repaired c i) name = name_match_impl nm_fixed (ft_event (tr c i)) name.

Theorem document_pml_behaviour_preserved_lemma : hist_treeb t = true -> 0 < ntrans c ->
  forall fp ff, p_full (fst (pml_loop pml_repaired c iq eq fp (p_init c))) = false ->
  behaviour_preserved pml_repaired t iq eq fp ff.
Proof.
  intros Ht Hnt. destruct (flatten_wf_hist_lemma false t Ht) as [W R].
  exact (pml_behaviour_preserved_hist_lemma pml_repaired t iq eq P pml_repaired_is W R (chart_ph0_of_document false t R Hdoc)
           Hcontent Hdok HPne Hnames Hdone Hmatch Hnt).
Qed.

Theorem document_pml_behaviour_prefix_lemma : hist_treeb t = true -> 0 < ntrans c ->
  forall fp ff, behaviour_prefix pml_repaired t iq eq fp ff.
Proof.
  intros Ht Hnt. destruct (flatten_wf_hist_lemma false t Ht) as [W R].
  exact (pml_behaviour_prefix_hist_lemma pml_repaired t iq eq P pml_repaired_is W R (chart_ph0_of_document false t R Hdoc)
           Hcontent Hdok HPne Hnames Hdone Hmatch Hnt).
Qed.

Theorem document_pml_run_equals_default_engine_partial_lemma : eq_tree_histb t = true ->
  (forall m, eq_guard_run_hist ex_fixed c m l_pristine x_init [] = true) ->
  forall fuel s' r,
  pml_loop pml_repaired c iq eq (S fuel) (p_init c) = (s', r) -> p_full s' = false -> r <> PFull ->
  exists m l' x', run_loop c lstate (large_step lg_fixed ex_fixed c) l_cfg m l_pristine x_init [] = (l', x') /\
                  final_large c r s' l' x'.
Proof.
  intros Ht Hg. pose proof (eq_tree_hist_chart false t Ht) as He. fold c in He.
  destruct (eq_chartb_hist_parts c He) as (_ & R & _).
  exact (pml_run_equals_default_engine_history_partial_lemma pml_repaired c iq eq P pml_repaired_is He
           (chart_ph0_of_document false t R Hdoc) Hcontent (flatten_early_data t) Hdok HPne Hnames Hdone Hmatch Hg).
Qed.
End Documents.
