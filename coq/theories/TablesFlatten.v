(* TablesFlatten.v -- C05: the two models of "the structural tables of a document" side by side.

     Tables.Impl_tables  the transpilers' computation (ChartToC::prepare, Predicates.cpp)
     Chart.flatten       the interpreter's computation (LargeMicroStep::init), over which the back-end
                         behaviour models (CGen.bmachine_of, PmlStep, Vhdl) are built

   This file: the vocabulary in which the agreement is stated (bit rows of the flat tables, the
   side conditions, the witnesses).  Definitions only. *)
From V Require Import Base Chart Tables Large Fast CGen.
Local Open Scope nat_scope.

(* a set of state / transition numbers as the bit row the transpilers write (index = number) *)
Definition bits_of_set (n : nat) (l : list nat) : list bool := map (fun j => mem j l) (seq 0 n).

(* the numbers whose bit is set *)
Definition set_of_bits (l : list bool) : list nat := filter (fun j => nth j l false) (seq 0 (length l)).

(* the engines' state type, read off a row of the transpilers' tables: compound = a <state>/<scxml> with
   a child that is a proper state *)
Definition ftype_of_stab (T : tables) (s : stab) : ftype :=
  match sb_kind s with
  | KInitial => FInitial
  | KFinal => FFinal
  | KHistDeep => FHistDeep
  | KHistShallow => FHistShallow
  | KParallel => FParallel
  | KScxml | KState =>
      if existsb (fun p => fst p && is_proper_kind (sb_kind (snd p))) (combine (sb_child s) (tbl_states T))
      then FCompound else FAtomic
  end.

(* the interval (first, second) of LargeMicroStep::getExitSet as a bit row over the proper states:
   first = 0 encodes "no domain" (the test `f1 != 0' of Large.conflicts) *)
Definition exit_bits (c : fchart) (iv : nat * nat) : list bool :=
  map (fun j => negb (fst iv =? 0) && (fst iv <=? j) && (j <=? snd iv) && negb (is_pseudo (fs_type (st c j))))
      (seq 0 (nstates c)).

(* the same without the restriction to proper states (what the interval denotes literally) *)
Definition exit_bits_raw (c : fchart) (iv : nat * nat) : list bool :=
  map (fun j => negb (fst iv =? 0) && (fst iv <=? j) && (j <=? snd iv)) (seq 0 (nstates c)).

(* ------------------------------------------------------------------ side conditions (on the re-sorted tree) *)

Section Cond.
Variable root : tree.
Let nodes := doc_nodes root 0 None.
Let n := length nodes.

(* the ids a node refers to: its initial attribute and the targets of its transitions *)
Definition node_refs (u : tree) : list N :=
  match t_initattr u with Some l => l | None => [] end ++
  flat_map (fun t => match tt_targets t with Some l => l | None => [] end) (t_trans u).

(* no referenced id is the number (t_sid) of an element that has no id attribute (<scxml>, <initial>).
   Chart.flatten resolves ids over ALL elements by t_sid, the transpilers over the elements with an id. *)
Definition tf_refs_ok : bool :=
  forallb (fun i =>
    forallb (fun s =>
      forallb (fun j => has_id (nkind nodes j) || negb (t_sid (ntree nodes j) =? s)%N) (seq 0 n))
      (node_refs (ntree nodes i))) (seq 0 n).

(* the <scxml> element has no <transition> child *)
Definition tf_root_no_trans : bool := match t_trans root with [] => true | _ => false end.
(* the <scxml> element has no <initial> child (the schema gives it the initial attribute only) *)
Definition tf_root_no_initial : bool :=
  negb (existsb (fun k => match t_kind k with KInitial => true | _ => false end) (t_kids root)).
(* the <scxml> element has a child that is a proper state *)
Definition tf_root_compound : bool := has_proper_child root.

Definition tf_doc_ok : bool :=
  wf_doc root && tf_refs_ok && tf_root_no_trans && tf_root_no_initial && tf_root_compound.

End Cond.

(* ------------------------------------------------------------------ witnesses *)

Definition tmk (k : skind) (sid : N) (tr : list ttrans) (kids : list tree) : tree := TNode k sid None tr [] [] [] kids.
Definition tmt (vid : N) (tg : option (list N)) (internal : bool) : ttrans :=
  {| tt_vid := vid; tt_event := Some [101%N]; tt_cond := None; tt_targets := tg; tt_internal := internal; tt_body := [] |}.

(* scxml(0) { s1 -> "s0" ; s2 }: the target id names no element with an id; flatten resolves it to the root *)
Definition w_ref_root : tree :=
  tmk KScxml 0 [] [tmk KState 1 [tmt 101 (Some [0%N]) false] []; tmk KState 2 [] []].

(* scxml(0) initial="s5" { s1 { <initial>(5) -> s2 ; s2 } ; s5 }: the id s5 is the number of an <initial> *)
Definition w_ref_initial : tree :=
  TNode KScxml 0 (Some [5%N]) [] [] [] []
    [tmk KState 1 [] [tmk KInitial 5 [tmt 900 (Some [2%N]) false] []; tmk KState 2 [] []]; tmk KState 5 [] []].

(* scxml { -> s2 ; s1 ; s2 }: a transition of the <scxml> element itself *)
Definition w_root_trans : tree :=
  tmk KScxml 0 [tmt 101 (Some [2%N]) false] [tmk KState 1 [] []; tmk KState 2 [] []].

(* scxml { <initial> -> s2 ; s1 ; s2 } *)
Definition w_root_initial : tree :=
  tmk KScxml 0 [] [tmk KInitial 9 [tmt 900 (Some [2%N]) false] []; tmk KState 1 [] []; tmk KState 2 [] []].

(* scxml { h1 -> h2 ; h2 -> h1 }: no proper state at all *)
Definition w_root_pseudo_only : tree :=
  tmk KScxml 0 [] [tmk KHistShallow 1 [tmt 901 (Some [2%N]) false] []; tmk KHistShallow 2 [tmt 902 (Some [1%N]) false] []].

(* scxml { s1 { <initial> -> s3 ; s2 ; s3 } ; s4 { s5 ; s6 -> s5 } }: a well-formed document *)
Definition w_initial_elem : tree :=
  tmk KScxml 0 [] [tmk KState 1 [] [tmk KInitial 9 [tmt 900 (Some [3%N]) false] []; tmk KState 2 [] []; tmk KState 3 [] []];
                   tmk KState 4 [] [tmk KState 5 [] []; tmk KState 6 [tmt 101 (Some [5%N]) false] []]].

(* scxml { s1 { h(shallow) -> s2 ; s2 } -> s3 ; s3 }: a well-formed document; the exit interval of s1's
   transition contains the <history> *)
Definition w_hist_in_interval : tree :=
  tmk KScxml 0 [] [tmk KState 1 [tmt 101 (Some [4%N]) false]
                     [tmk KHistShallow 2 [tmt 901 (Some [3%N]) false] []; tmk KState 3 [] []];
                   tmk KState 4 [] []].

(* scxml { s1 -e-> (no target) ; s2 } *)
Definition w_targetless : tree :=
  tmk KScxml 0 [] [tmk KState 1 [tmt 101 None false] []; tmk KState 2 [] []].

(* non-vacuity: parallel, deep and shallow history, <initial> element, initial attribute, internal and
   multi-target transitions, a target-less transition, an unknown target id *)
Definition tf_rich : tree :=
  TNode KScxml 0 (Some [1%N]) [] [] [] []
    [tmk KState 1 [tmt 101 (Some [8%N; 11%N]) false; tmt 102 (Some [3%N]) true; tmt 103 None false; tmt 105 (Some [77%N]) false]
       [tmk KState 2 [] []; tmk KInitial 20 [tmt 900 (Some [3%N]) false] []; tmk KState 3 [] [];
        tmk KHistDeep 4 [tmt 901 (Some [2%N]) false] []];
     tmk KParallel 5 [tmt 104 (Some [4%N]) false]
       [tmk KState 6 [] [tmk KState 7 [] []; tmk KState 8 [] []]; tmk KHistShallow 9 [tmt 902 (Some [6%N]) false] [];
        tmk KState 10 [] [tmk KFinal 11 [] []]]].
