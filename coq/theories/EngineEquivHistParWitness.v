(* EngineEquivHistParWitness.v -- C03 with <history> directly below <parallel>: the hypotheses of the engine
   comparison under wf_histpb are satisfiable by the done-family charts with a history child of the <parallel>
   (tools/chart_runs.py done_family(hist='hd'|'hs'), LegalHistParOracle.done_family_tree) and by a chart that
   enters, leaves and re-enters two <parallel>s through their own histories (hpp_tree); and the dynamic guard
   cannot be dropped on these charts either (C03-K4 through the deep history of a <parallel>: a SPURIOUS
   done.state event of the fast engine).  Witness charts, computations by vm_compute. *)
From V Require Import Base NameMatch Chart Exec Large LargeLemmas Fast Interp Legal SetLemmas LegalAbstract LegalLarge
  LegalRun WfCore LegalOracle LargeCacheLemmas SelectConform SelectConformLemmas MicroConform MicroConformLemmas
  LegalHistBase LegalHistEntry LegalHistStep LegalHistRun LegalHistWf LegalHistOracle
  LegalHistParBase LegalHistParWf LegalHistParOracle
  EngineEquivBase EngineEquivDone EngineEquivStep EngineEquivSelect EngineEquivRun EngineEquivMain EngineEquivWitness
  EngineEquivHistEnter EngineEquivHistRun EngineEquivHistMain EngineEquivHistWitness
  EngineEquivHistParRun EngineEquivHistParMain.

Local Open Scope N_scope.
(* the done-family chart with a way out of the <parallel> (e4) and back through its history (e3):
   s2 { <parallel> s3 (done.state.s3 -> s10, e4 -> s10) { history h20 (default dflt);
                                                          s4 { s5 (e1 -> s6), <final> s6 };
                                                          s7 { s8 (e2 -> s9), <final> s9 } };
        s10 (e3 -> h20) } *)
Definition ehp_dfh_tree (hk : skind) (dflt : list N) : tree :=
  hnd KScxml 0 [hnd KState 2 [hnd KParallel 3 [hnd hk 20 [] [htr_ 120 None (Some dflt) false];
      hnd KState 4 [hnd KState 5 [] [htr_ 101 (Some [101]) (Some [6]) false]; hnd KFinal 6 [] []] [];
      hnd KState 7 [hnd KState 8 [] [htr_ 102 (Some [102]) (Some [9]) false]; hnd KFinal 9 [] []] []]
      [htr_ 103 (Some (s_done_state ++ state_name 3)) (Some [10]) false; htr_ 105 (Some [104]) (Some [10]) false];
      hnd KState 10 [] [htr_ 104 (Some [103]) (Some [20]) false]] []] [].
Local Open Scope nat_scope.

(* ------------------------------------------------------------------ non-vacuity *)

(* done_family(hist='hd') and done_family(hist='hs'): the regions reach their <final>s one after the other,
   done.state.s3 is raised once and taken to s10; outside wf_histb *)
Example ehp_done_family_guarded :
  let cd := flatten false (done_family_tree KHistDeep [5; 8]%N) in
  let cs := flatten false (done_family_tree KHistShallow [4; 7]%N) in
  eq_chartb_histp cd = true /\ eq_chartb_hist cd = false /\
  eq_guard_run_hist ex_fixed cd 40 l_pristine x_init [[101%N]; [102%N]] = true /\
  last (cfgs_of (fst (run_large lg_fixed ex_fixed false (done_family_tree KHistDeep [5; 8]%N) [[101%N]; [102%N]] 40))) [] = [0; 2; 10]%N /\
  length (filter (eh_is_ev (s_done_state ++ state_name 3%N)) (fst (run_large lg_fixed ex_fixed false (done_family_tree KHistDeep [5; 8]%N) [[101%N]; [102%N]] 40))) = 1 /\
  eq_chartb_histp cs = true /\ eq_chartb_hist cs = false /\
  eq_guard_run_hist ex_fixed cs 40 l_pristine x_init [[102%N]; [101%N]] = true /\
  last (cfgs_of (fst (run_large lg_fixed ex_fixed false (done_family_tree KHistShallow [4; 7]%N) [[102%N]; [101%N]] 40))) [] = [0; 2; 10]%N.
Proof. cbv zeta. eh_conj_split; vm_compute; reflexivity. Qed.

Example ehp_done_family_engines_agree :
  run_fast ex_fixed false (done_family_tree KHistDeep [5; 8]%N) [[101%N]; [102%N]] 40 =
  run_large lg_fixed ex_fixed false (done_family_tree KHistDeep [5; 8]%N) [[101%N]; [102%N]] 40 /\
  run_fast ex_fixed false (done_family_tree KHistShallow [4; 7]%N) [[102%N]; [101%N]] 40 =
  run_large lg_fixed ex_fixed false (done_family_tree KHistShallow [4; 7]%N) [[102%N]; [101%N]] 40.
Proof. split; apply fast_large_trace_equiv_histp_lemma; vm_compute; reflexivity. Qed.

(* the histories of the <parallel>s are used: hpp_tree (LegalHistParOracle.v) enters s8 through its deep history by
   the default transition (two targets), leaves it (record), re-enters s1 through its shallow history (record of
   the regions) and s8 through the deep history (record restored); the shallow history of the done-family chart:
   default, record, restore *)
Example ehp_hpp_tree_guarded :
  let c := flatten false hpp_tree in
  eq_chartb_histp c = true /\ eq_chartb_hist c = false /\
  eq_guard_run_hist ex_fixed c 60 l_pristine x_init [[102%N]; [101%N]; [102%N]; [101%N]; [101%N]] = true /\
  last (cfgs_of (fst (run_large lg_fixed ex_fixed false hpp_tree [[102%N]; [101%N]; [102%N]; [101%N]; [101%N]] 60))) [] = [0; 8; 9; 11; 12; 13]%N /\
  let cs := flatten false (ehp_dfh_tree KHistShallow [4; 7]%N) in
  eq_chartb_histp cs = true /\
  eq_guard_run_hist ex_fixed cs 60 l_pristine x_init [[101%N]; [104%N]; [103%N]; [102%N]] = true.
Proof. cbv zeta. eh_conj_split; vm_compute; reflexivity. Qed.

Example ehp_hpp_tree_engines_agree :
  run_fast ex_fixed false hpp_tree [[102%N]; [101%N]; [102%N]; [101%N]; [101%N]] 60 =
  run_large lg_fixed ex_fixed false hpp_tree [[102%N]; [101%N]; [102%N]; [101%N]; [101%N]] 60.
Proof. apply fast_large_trace_equiv_histp_lemma; vm_compute; reflexivity. Qed.

(* ------------------------------------------------------------------ the guard cannot be dropped *)

(* C03-K4 through the deep history of a <parallel>: e1 (s5 -> <final> s6), e4 (leave: h20 records s4 s6 s7 s8),
   e3 (back through h20): s3 s4 s6 s7 s8 are entered in one microstep.  When s6 is entered s7 / s8 are not in the
   configuration yet: the scan of the fast engine finds every active state below s3 final or with a final below
   and raises done.state.s3 -- region s7 is NOT final.  The document's transition on done.state.s3 then takes the
   fast engine to s10, the large engine stays in s3 (s4 s6 s7 s8).  The guard is false exactly at that step. *)
Lemma run_equiv_histp_without_guard_refuted_lemma :
  let t := ehp_dfh_tree KHistDeep [5; 8]%N in
  let c := flatten false t in
  let evs := [[101%N]; [104%N]; [103%N]] in
  eq_chartb_histp c = true /\ eq_chartb_hist c = false /\
  eq_guard_run_hist ex_fixed c 40 l_pristine x_init [[101%N]; [104%N]] = true /\
  eq_guard_run_hist ex_fixed c 40 l_pristine x_init evs = false /\
  last (cfgs_of (fst (run_fast ex_fixed false t evs 40))) [] = [0; 2; 10]%N /\
  last (cfgs_of (fst (run_large lg_fixed ex_fixed false t evs 40))) [] = [0; 2; 3; 4; 6; 7; 8]%N /\
  length (filter (eh_is_ev (s_done_state ++ state_name 3%N)) (fst (run_fast ex_fixed false t evs 40))) = 1 /\
  length (filter (eh_is_ev (s_done_state ++ state_name 3%N)) (fst (run_large lg_fixed ex_fixed false t evs 40))) = 0.
Proof. cbv zeta. eh_conj_split; vm_compute; reflexivity. Qed.
