(* PmlEquivHistEntry.v -- C06 beyond the history-free core: ESTABLISH_ENTRY_SET of the emitted step process
   (PmlStep.p_entry_set) against FastMicroStep (Fast.fentry_set) on charts WITH pseudo-states -- <initial> elements,
   deep and multiple initial attributes, shallow and deep <history> (WFH = wf_histb, LegalHistWf.v) -- for the
   repaired template (six switches off) and under two computable conditions on the chart:
     trans_lists      (CGenEquivHist.v; a theorem for every document) the transition list of a state is the list of
                      the transitions whose source it is (the emitted loop `j < TRANS: source == i` against the
                      engine's per-state list);
     pml_deep_alone   a deep history with another history below its parent records no state that has a history
                      child: the emitted model then puts those nested history pseudo-states into the entry set, the
                      engine restores the recorded states directly (witness: PmlEquivExamples).
   The loop invariant is HInv of LegalHistFast.v (preserved by Fast.fdescend_one); here the step-wise equality of the
   two passes is added, as CGenEquivHist.v does for the generated C.  Proofs only. *)
From V Require Import Base NameMatch Chart Exec Large Fast LargeLemmas Legal SetLemmas LegalAbstract LegalLarge
     LegalHistBase LegalHistEntry LegalHistStep LegalHistFast CGen CGenLemmas SerializeCodecLemmas Trie PmlStep
     PmlEquivBase CGenEquivHist PmlEquivPmlTok.
From Coq Require Import Sorted.
Local Open Scope nat_scope.

Definition pml_deep_alone (c : fchart) : bool :=
  forallb (fun i => negb (PmlStep.is_deep (ptype c i) && has_hist c i) ||
                    forallb (fun j => negb (has_hist c j)) (fs_completion (st c i))) (seq 0 (nstates c)).

(* the switches of the template that ESTABLISH_ENTRY_SET depends on *)
Definition entry_repaired (pv : pml_variant) : Prop :=
  pv_initial_break pv = false /\ pv_deep_unnegated pv = false /\ pv_hist_parent_test pv = false /\
  pv_hist_or pv = false /\ pv_hist_covered pv = false /\ pv_completion_guarded pv = false.

Lemma pml_repaired_entry : entry_repaired pml_repaired.
Proof. repeat split. Qed.

Section HEntry.
Variable pv : pml_variant.
Variable c : fchart.
Hypothesis W : WFH c.
Hypothesis Hpv : entry_repaired pv.
Hypothesis Hdeep : pml_deep_alone c = true.
Hypothesis Htl : trans_lists c = true.

Let n := nstates c.
Let par (i : nat) := fs_parent (st c i).
Let kd (i : nat) := fs_type (st c i).
Notation Anc := (Anc par).
Notation pseudo := (pseudoS c).

Lemma pcompl_h i : pcompl pv c i = fs_completion (st c i).
Proof. destruct Hpv as (_ & _ & _ & _ & Hc & _). unfold pcompl. rewrite Hc. now rewrite andb_false_r. Qed.

(* unions of ancestor lists over the members of a bounded list: the bit-array loop and the list loop *)
Lemma anc_unions_eq (L : list nat) i e : ssorted e -> (forall k, In k L -> k < n) ->
  fold_left (fun a k => if mem k L then set_union a (fs_ancestors (st c k)) else a) (seq (S i) (pn c - S i)) e =
  fold_left (fun a k => if i <? k then set_union a (fs_ancestors (st c k)) else a) L e.
Proof.
  intros He Hb. apply ssorted_ext.
  - now apply (fold_cond_union_ssorted (fun k => mem k L)).
  - now apply (fold_cond_union_ssorted (fun k => i <? k)).
  - intros x. rewrite (In_fold_cond_union (fun k => mem k L)), (In_fold_cond_union (fun k => i <? k)). split.
    + intros [Hx|(k & Hk & Mk & Hx)]; [now left|]. right. exists k. apply in_seq in Hk. apply mem_true_In in Mk.
      repeat split; auto. apply Nat.ltb_lt. lia.
    + intros [Hx|(k & Hk & Lk & Hx)]; [now left|]. right. exists k. apply Nat.ltb_lt in Lk. specialize (Hb k Hk).
      split; [apply in_seq; unfold pn; fold n; lia|]. split; [now apply In_mem_true|exact Hx].
Qed.

Lemma anc_unions_all (L : list nat) i e : ssorted e -> (forall k, In k L -> k < n) ->
  fold_left (fun a k => set_union a (fs_ancestors (st c k))) (targets_above c i L) e =
  fold_left (fun a k => set_union a (fs_ancestors (st c k))) (filter (fun k => i <? k) L) e.
Proof.
  intros He Hb. apply ssorted_ext; [now apply fold_union_ssorted | now apply fold_union_ssorted|].
  intros x. rewrite !In_fold_union. unfold targets_above. split.
  - intros [Hx|(k & Hk & Hx)]; [now left|]. right. exists k. apply filter_In in Hk as [Hk Mk]. apply in_seq in Hk. apply mem_true_In in Mk.
    split; [|exact Hx]. apply filter_In. split; [exact Mk|]. apply Nat.ltb_lt. lia.
  - intros [Hx|(k & Hk & Hx)]; [now left|]. right. exists k. apply filter_In in Hk as [Hk Lk]. apply Nat.ltb_lt in Lk.
    specialize (Hb k Hk). split; [|exact Hx]. apply filter_In. split; [apply in_seq; unfold pn; fold n; lia|now apply In_mem_true].
Qed.

Section Loop.
Variable cfg exitset hist tg : list nat.
Hypothesis tg_bound : forall g, In g tg -> 0 < g /\ g < n.
Hypothesis tg_sorted : ssorted tg.
Hypothesis HH : HistOK c hist.
Hypothesis HE0_uniq : forall i k1 k2, kd i = FCompound -> par k1 = Some i -> par k2 = Some i ->
  In k1 (HE0 c tg) -> In k2 (HE0 c tg) -> k1 = k2.
Variable Q : nat -> Prop.
Hypothesis Q0 : forall x, In x (HE0 c tg) -> Q x.
Hypothesis Qpar : forall j x, Q j -> kd j = FParallel -> par x = Some j -> Q x.
Hypothesis Qcomp : forall j x, Q j -> kd j = FCompound -> (forall k, par k = Some j -> ~ surv cfg exitset k) -> Anc j x -> Q x.
Hypothesis Qpseudo : forall j q x, Q j -> pseudo j = true -> par j = Some q -> Anc q x -> Q x.
Hypothesis cfg_bound : forall x, In x cfg -> x < n.
Hypothesis cfg_closed : closedS c (fun x => In x cfg).
Hypothesis exit_sub : forall x, In x exitset -> In x cfg.
Hypothesis exit_dom : forall x, In x exitset ->
  exists d, In d (HE0 c tg) /\ pseudo d = false /\ Anc d x /\ forall y, In y cfg -> Anc d y -> In y exitset.

Notation FInv := (HInv c cfg exitset tg Q).

(* one visit of the loop "iterate for descendants": the sets; the state only gets lines printed *)
Lemma pdescend_h j es ts s : j < n -> FInv j es -> ssorted es ->
  fst (p_descend_one pv c cfg exitset hist (es, ts, s) j) = fdescend_one c cfg exitset hist (es, ts) j.
Proof.
  intros Hj HI Hs. destruct Hpv as (Hib & Hdu & Hpt & Hor & Hcv & Hcg).
  unfold p_descend_one, fdescend_one.
  destruct (mem j es) eqn:M; cbn [negb]; [|reflexivity]. apply mem_true_In in M.
  rewrite (pcompl_h j), Hpt, Hor, Hdu, Hcg. cbn [negb orb]. rewrite andb_true_r.
  destruct (fs_type (st c j)) eqn:Hk; try reflexivity.
  - (* compound *)
    rewrite (compound_tests_h c W cfg exitset tg Q cfg_bound cfg_closed exit_sub exit_dom j es Hj HI).
    destruct (negb (intersects es (desc c j)) && _); [|reflexivity]. cbn [fst]. f_equal.
    apply anc_unions_eq; [now apply set_union_ssorted|].
    intros k Hkc. destruct (wh_compound c W j Hk) as [_ Hall]. now destruct (hanc_lt c W _ _ (Hall k Hkc)).
  - (* shallow history *)
    destruct (negb (intersects (fs_completion (st c j)) hist)).
    + change (find (fun j0 => ft_source (tr c j0) =? j) (seq 0 (pnt c))) with (first_trans_from c j).
      rewrite (first_trans_of c Htl j Hj). destruct (fs_trans (st c j)); reflexivity.
    + cbn [PmlStep.is_deep andb]. rewrite andb_false_r. reflexivity.
  - (* deep history *)
    assert (Hp : pseudo j = true) by (unfold pseudoS; now rewrite Hk).
    destruct (negb (intersects (fs_completion (st c j)) hist)).
    + change (find (fun j0 => ft_source (tr c j0) =? j) (seq 0 (pnt c))) with (first_trans_from c j).
      rewrite (first_trans_of c Htl j Hj). destruct (fs_trans (st c j)) as [|ti r]; cbn [hd_error]; [reflexivity|].
      rewrite (pseudo_children c W j Hp), (targets_not_below_pseudo c W j ti Hj Hp).
      replace (intersects (ft_targets (tr c ti)) []) with false by (symmetry; apply intersects_false; intros x _ []).
      cbn [PmlStep.is_deep negb andb fst]. f_equal.
      apply anc_unions_all; [now apply set_union_ssorted|]. intros k Hkt. now destruct (wh_tr_targets c W ti k Hkt).
    + cbn [PmlStep.is_deep andb]. rewrite andb_true_r.
      pose proof (forallb_seq0 _ _ Hdeep j Hj) as P. cbv beta in P. unfold ptype in P. rewrite Hk in P. cbn [PmlStep.is_deep andb] in P.
      destruct (has_hist c j) eqn:Hh; [|reflexivity]. cbn [negb orb] in P. rewrite forallb_forall in P.
      cbn [fst]. f_equal. generalize (set_union es (set_inter (fs_completion (st c j)) hist)). generalize (seq (S j) (pn c - S j)).
      induction l as [|x r IH]; intros e; cbn [fold_left]; [reflexivity|].
      destruct (mem x (fs_completion (st c j))) eqn:Mx; cbn [andb]; [|apply IH].
      apply mem_true_In in Mx. specialize (P x Mx). apply negb_true_iff in P. rewrite P, andb_false_r. apply IH.
  - (* initial *)
    rewrite (trans_list_of c Htl j Hj). unfold pnt.
    destruct (ntrans c) eqn:Nt; [reflexivity|]. rewrite <- Nt. rewrite Hib.
    assert (G : forall l e tset s', ssorted e ->
              fst (fold_left (fun (a : list nat * list nat * pstate) j0 =>
                     let '(e, tset, s') := a in
                     let t := tr c j0 in
                     if ft_source t =? j then
                       (fold_left (fun b k => if mem k (ft_targets t) then set_union b (fs_ancestors (st c k)) else b)
                                  (seq (S j) (pn c - S j)) (set_union (set_remove j e) (ft_targets t)),
                        insert_sorted j0 tset, out (PAddTrans j0) s')
                     else a) l (e, tset, s')) =
              fold_left (fun (a : list nat * list nat) ti =>
                     (fold_left (fun e k => if j <? k then set_union e (fs_ancestors (st c k)) else e) (ft_targets (tr c ti))
                                (set_union (set_remove j (fst a)) (ft_targets (tr c ti))),
                      insert_sorted ti (snd a))) (filter (fun ti => ft_source (tr c ti) =? j) l) (e, tset)).
    { induction l as [|t0 r IH]; intros e tset s' He; cbn [fold_left filter]; [reflexivity|].
      destruct (ft_source (tr c t0) =? j); [|now apply IH]. cbn [fold_left fst snd].
      assert (Hb : forall k, In k (ft_targets (tr c t0)) -> k < n) by (intros k Hkt; now destruct (wh_tr_targets c W t0 k Hkt)).
      assert (He1 : ssorted (set_union (set_remove j e) (ft_targets (tr c t0)))) by (apply set_union_ssorted; now apply set_remove_ssorted).
      rewrite (anc_unions_eq (ft_targets (tr c t0)) j _ He1 Hb). apply IH.
      now apply (fold_cond_union_ssorted (fun k => j <? k)). }
    apply G. exact Hs.
Qed.

Lemma pdescend_fold_h : forall k j es ts s, j + k = n -> FInv j es -> ssorted es ->
  fst (fold_left (p_descend_one pv c cfg exitset hist) (seq j k) (es, ts, s)) =
  fold_left (fdescend_one c cfg exitset hist) (seq j k) (es, ts).
Proof.
  induction k as [|k IH]; intros j es ts s Hjk HI Hs; cbn [seq fold_left]; [reflexivity|].
  assert (Hj : j < n) by lia.
  pose proof (pdescend_h j es ts s Hj HI Hs) as E.
  pose proof (FInv_step c W cfg exitset hist tg HH Q Qpar Qcomp Qpseudo cfg_bound cfg_closed exit_sub exit_dom j es ts Hj HI) as HI'.
  pose proof (fdescend_sorted c cfg exitset hist j es ts Hs) as Hs'.
  destruct (p_descend_one pv c cfg exitset hist (es, ts, s) j) as [[es1 ts1] s1]. cbn [fst] in E. rewrite <- E in *. cbn [fst] in *.
  apply IH; [lia|exact HI'|exact Hs'].
Qed.

Lemma p_anc_close_h : p_anc_close c tg = add_ancestors c tg.
Proof.
  unfold p_anc_close, pn. fold n.
  set (f := fun es i => if mem i es then set_union es (fs_ancestors (st c i)) else es).
  assert (P : ssorted (fold_left f (seq 0 n) tg) /\
              forall x, In x (fold_left f (seq 0 n) tg) <-> In x tg \/ exists g, In g tg /\ g < 0 + n /\ Anc x g).
  { apply (fold_seq_inv c f (fun j es => ssorted es /\ forall x, In x es <-> In x tg \/ exists g, In g tg /\ g < j /\ Anc x g)).
    - split; [exact tg_sorted|]. intros x. split; [now left|]. intros [Hx|(g & _ & Hg & _)]; [exact Hx|lia].
    - intros j es _ _ [Ss Sm]. unfold f. destruct (mem j es) eqn:M.
      + apply mem_true_In in M.
        assert (Hjt : In j tg).
        { apply Sm in M as [M|(g & _ & Hg & Ha)]; [exact M|]. apply (hanc_lt c W) in Ha. lia. }
        split; [now apply set_union_ssorted|]. intros x. rewrite In_set_union, Sm, (wh_anc c W). split.
        * intros [[Hx|(g & Hg & Hl & Ha)]|Ha]; [now left | right; exists g; repeat split; auto | right; exists j; repeat split; auto].
        * intros [Hx|(g & Hg & Hl & Ha)]; [now left; left|].
          destruct (Nat.eq_dec g j) as [->|Ne]; [now right | left; right; exists g; repeat split; auto; lia].
      + split; [exact Ss|]. intros x. rewrite Sm. split.
        * intros [Hx|(g & Hg & Hl & Ha)]; [now left | right; exists g; repeat split; auto].
        * intros [Hx|(g & Hg & Hl & Ha)]; [now left|].
          destruct (Nat.eq_dec g j) as [->|Ne]; [|right; exists g; repeat split; auto; lia].
          exfalso. assert (Hin : In j es) by (apply Sm; now left). apply In_mem_true in Hin. congruence. }
  destruct P as [P1 P2]. apply ssorted_ext; [exact P1 | unfold add_ancestors; now apply fold_union_ssorted|].
  intros x. rewrite P2. unfold add_ancestors. rewrite In_fold_union. split.
  - intros [Hx|(g & Hg & _ & Ha)]; [now left | right; exists g; split; [exact Hg|now apply (wh_anc c W)]].
  - intros [Hx|(g & Hg & Ha)]; [now left | right; exists g; repeat split; auto; [now destruct (tg_bound g Hg)|now apply (wh_anc c W)]].
Qed.

Theorem pentry_set_h ts s :
  fst (p_entry_set pv c cfg exitset hist tg ts s) = fentry_set c cfg exitset hist tg ts /\
  only_outs s (snd (p_entry_set pv c cfg exitset hist tg ts s)).
Proof.
  split; [|apply entry_set_only_outs].
  unfold p_entry_set, fentry_set, pn, fn. fold n. rewrite p_anc_close_h.
  pose proof (pdescend_fold_h n 0 (add_ancestors c tg) ts s eq_refl
                (HInv_0 c W cfg exitset tg tg_bound HE0_uniq Q Q0)
                ltac:(unfold add_ancestors; now apply fold_union_ssorted)) as E.
  destruct (fold_left (p_descend_one pv c cfg exitset hist) (seq 0 n) (add_ancestors c tg, ts, s)) as [[es1 ts1] s1].
  cbn [fst] in *. exact E.
Qed.

End Loop.
End HEntry.
