(* RunConformWitness.v -- C01, run-level composition: the hypotheses of run_conforms are satisfiable by a
   non-trivial document (a <parallel>, nested compounds, conditions with In(), data, <raise>, <send>, a top-level
   <final> with completion), and none of the new side conditions can be dropped (witnesses by computation). *)
From V Require Import Base NameMatch Chart Exec Large Spec Interp WfCore SelectConform SelectConformRoot MicroConform Serialize
  RunConformBase RunConformStep RunConformLoop.
Local Open Scope N_scope.

Definition rw_tr v ev cond tg int body : ttrans :=
  {| tt_vid := v; tt_event := ev; tt_cond := cond; tt_targets := tg; tt_internal := int; tt_body := body |}.

(* s1 --e--> P = parallel { A { a1 --e/log--> a2 (onentry: send h, Var1 += 1) } , B { b1 --f [Var1 < 5 && In(a2)] / raise g--> b2 } }
   P --g--> F (top-level final); onexit of P and of F log *)
Definition rw_tree : tree :=
  TNode KScxml 0 None [] [] [] [(1, INum 0)]
    [TNode KState 1 None [rw_tr 101 (Some [101]) None (Some [2]) false []] [] [] [] [];
     TNode KParallel 2 None [rw_tr 104 (Some [103]) None (Some [9]) false []] [] [[ILog 203 (INum 2)]] []
       [TNode KState 3 None [] [] [] []
          [TNode KState 4 None [rw_tr 102 (Some [101]) None (Some [5]) false [ILog 201 (INum 1)]] [] [] [] [];
           TNode KState 5 None [] [[ISend 204 [104]; IAssign 205 1 (IAdd (IVar 1) (INum 1))]] [] [] []];
        TNode KState 6 None [] [] [] []
          [TNode KState 7 None [rw_tr 103 (Some [102]) (Some (BAnd (BLt (IVar 1) (INum 5)) (BIn 5))) (Some [8]) false [IRaise 202 [103]]] [] [] [] [];
           TNode KState 8 None [] [] [] [] []]];
     TNode KFinal 9 None [] [[ILog 206 (IVar 1)]] [[ILog 207 (INum 7)]] [] []].

Definition rw_evs : list bytes := [[101]; [101]; [102]].

Definition count_ms (l : list tok) : nat := length (filter (fun t => match t with TMsB => true | _ => false end) l).

(* the hypotheses hold for the whole run: the initial step and four further microsteps (five MS{ brackets), an
   event without transitions (the chart's own <send>), a top-level final, completion, FINISHED within 40 calls *)
Example run_conforms_nonvacuous :
  let c := flatten false rw_tree in
  static_okb c = true /\ run_guardb c rw_evs 40 = true /\ run_completeb c rw_evs 40 = true /\
  count_ms (fst (run_large lg_fixed ex_fixed false rw_tree rw_evs 40)) = 5%nat /\
  snd (run_large lg_fixed ex_fixed false rw_tree rw_evs 40) = [(1, 1%Z)].
Proof. vm_compute. repeat split. Qed.

(* and the theorem applies (no computation of the Spec side) *)
Example run_conforms_example : forall fuel', (40 <= fuel')%nat ->
  spec_view 0 (fst (run_large lg_fixed ex_fixed false rw_tree rw_evs 40)) = spec_view 0 (fst (run_spec false rw_tree rw_evs fuel')) /\
  snd (run_large lg_fixed ex_fixed false rw_tree rw_evs 40) = snd (run_spec false rw_tree rw_evs fuel').
Proof.
  intros fuel' H. destruct run_conforms_nonvacuous as (A & B & C & _).
  exact (run_conforms_lemma false rw_tree A rw_evs 40%nat B C fuel' H).
Qed.

(* ---- outside the hypotheses ---- *)

Definition static_parts_of (c : fchart) :=
  (wf_coreb c, root_compoundb c, par_nonemptyb c, root_unmentionedb c, targets_antichainb c, done_okb c, root_silentb c,
   chart_named c, root_onexit_emptyb c).

Definition views_differ (late : bool) (t : tree) (evs : list bytes) (fuel : nat) : Prop :=
  let c := flatten late t in
  spec_view (fs_sid (st c 0)) (fst (run_large lg_fixed ex_fixed late t evs fuel)) <>
  spec_view (fs_sid (st c 0)) (fst (run_spec late t evs fuel)).

(* <onexit> on the <scxml> element (not valid SCXML, but a document of the model): the engine runs it at
   completion because its configuration contains the root; Appendix D's does not *)
Lemma run_root_onexit_refuted :
  exists late t evs fuel, let c := flatten late t in
    static_parts_of c = (true, true, true, true, true, true, true, true, false) /\
    run_guardb c evs fuel = true /\ run_completeb c evs fuel = true /\ views_differ late t evs fuel.
Proof.
  exists false,
    (TNode KScxml 0 None [] [] [[ILog 201 (INum 1)]] []
       [TNode KState 1 None [rw_tr 101 (Some [101]) None (Some [2]) false []] [] [] [] [];
        TNode KFinal 2 None [] [] [] [] []]), [[101]], 20%nat.
  split; [vm_compute; reflexivity|]. split; [vm_compute; reflexivity|]. split; [vm_compute; reflexivity|].
  unfold views_differ. vm_compute. discriminate.
Qed.

(* <raise event=""/>: the engine never dequeues an internal event without a name (step() returns IDLE for ever),
   Appendix D processes it *)
Lemma run_unnamed_raise_refuted :
  exists late t evs fuel, let c := flatten late t in
    static_parts_of c = (true, true, true, true, true, true, true, false, true) /\
    run_completeb c evs fuel = true /\ views_differ late t evs fuel.
Proof.
  exists false,
    (TNode KScxml 0 None [] [] [] []
       [TNode KState 1 None [rw_tr 101 (Some [101]) None (Some [2]) false [IRaise 201 []]] [] [] [] [];
        TNode KState 2 None [] [] [] [] []]), [[101]], 20%nat.
  split; [vm_compute; reflexivity|]. split; [vm_compute; reflexivity|].
  unfold views_differ. vm_compute. discriminate.
Qed.

(* <send event=""/> to the session itself: the external queue's unnamed event is the engine's cancel marker, it is
   dequeued and dropped; Appendix D processes it.  All static conditions hold; the guard's name test fails *)
Lemma run_unnamed_send_refuted :
  exists late t evs fuel, let c := flatten late t in
    static_okb c = true /\ run_guardb c evs fuel = false /\ run_completeb c evs fuel = true /\ views_differ late t evs fuel.
Proof.
  exists false,
    (TNode KScxml 0 None [] [] [] []
       [TNode KState 1 None [rw_tr 101 (Some [101]) None (Some [2]) false [ISend 201 []]] [] [] [] [];
        TNode KState 2 None [] [] [] [] []]), [[101]], 20%nat.
  split; [vm_compute; reflexivity|]. split; [vm_compute; reflexivity|]. split; [vm_compute; reflexivity|].
  unfold views_differ. vm_compute. discriminate.
Qed.

(* an event without a name handed in from outside *)
Lemma run_unnamed_event_refuted :
  exists late t evs fuel, let c := flatten late t in
    static_okb c = true /\ run_guardb c evs fuel = false /\ run_completeb c evs fuel = true /\ views_differ late t evs fuel.
Proof.
  exists false,
    (TNode KScxml 0 None [] [] [] []
       [TNode KState 1 None [rw_tr 101 (Some [101]) None (Some [2]) false []] [] [] [] [];
        TNode KState 2 None [] [] [] [] []]), [[]; [101]], 20%nat.
  split; [vm_compute; reflexivity|]. split; [vm_compute; reflexivity|]. split; [vm_compute; reflexivity|].
  unfold views_differ. vm_compute. discriminate.
Qed.

(* completion: LargeMicroStep runs the onexit handlers of all active states against the FULL configuration;
   exitInterpreter removes a state once its handlers have run.  A <final> with a child state (reached through a
   transition that targets the child): the final's handler asks In(child) -- true in the engine, false in
   Appendix D.  Only compl_guardb fails *)
Lemma run_completion_in_refuted :
  exists late t evs fuel, let c := flatten late t in
    static_okb c = true /\ run_guardb c evs fuel = false /\ run_completeb c evs fuel = true /\ views_differ late t evs fuel /\
    compl_guardb c (l_cfg (fst (run_loop c lstate (large_step lg_fixed ex_fixed c) l_cfg fuel l_pristine x_init evs))) = false.
Proof.
  exists false,
    (TNode KScxml 0 None [] [] [] []
       [TNode KState 1 None [rw_tr 101 (Some [101]) None (Some [3]) false []] [] [] [] [];
        TNode KFinal 2 None [] [] [[IIf 201 (BIn 3) [FInstr (ILog 202 (INum 1))]]] []
          [TNode KState 3 None [] [] [] [] []]]), [[101]], 20%nat.
  split; [vm_compute; reflexivity|]. split; [vm_compute; reflexivity|]. split; [vm_compute; reflexivity|].
  split; [unfold views_differ; vm_compute; discriminate | vm_compute; reflexivity].
Qed.

(* the dynamic hypotheses of the selection theorem: two enabled transitions with sources in ancestor relation
   (known finding C01-K1) -- the engine takes both, Appendix D the inner one *)
Lemma run_selection_guard_refuted :
  exists late t evs fuel, let c := flatten late t in
    static_okb c = true /\ run_guardb c evs fuel = false /\ run_completeb c evs fuel = true /\ views_differ late t evs fuel.
Proof.
  exists false,
    (TNode KScxml 0 None [] [] [] []
       [TNode KState 1 None [rw_tr 101 (Some [101]) None (Some [2]) true []] [] [] []
          [TNode KState 2 None [] [] [] []
             [TNode KState 3 None [rw_tr 102 (Some [101]) None None false []] [] [] [] []]]]), [[101]], 20%nat.
  split; [vm_compute; reflexivity|]. split; [vm_compute; reflexivity|]. split; [vm_compute; reflexivity|].
  unfold views_differ. vm_compute. discriminate.
Qed.

(* a run cut by the bound on the number of steps is not the whole of Appendix D's run: completeness cannot be
   dropped from run_conforms (run_conforms_prefix is the statement for such runs) *)
Lemma run_incomplete_refuted :
  exists late t evs fuel, let c := flatten late t in
    static_okb c = true /\ run_guardb c evs fuel = true /\ run_completeb c evs fuel = false /\ views_differ late t evs fuel.
Proof.
  exists false, rw_tree, rw_evs, 5%nat.
  split; [vm_compute; reflexivity|]. split; [vm_compute; reflexivity|]. split; [vm_compute; reflexivity|].
  unfold views_differ. vm_compute. discriminate.
Qed.

(* the check projects the Spec's trace with from_impl=False (every configuration token is kept); on the trace of
   Spec.spec_run that is the list spec_view computes (every TCfg of a Spec trace directly follows a TMsE) -- here
   checked on the example run *)
Fixpoint view_all (r : N) (l : list tok) : list tok :=
  match l with
  | [] => []
  | TCfg ids :: rest => TCfg (filter (fun i => negb (i =? r)%N) ids) :: view_all r rest
  | t :: rest => fst (vstep r false t) ++ view_all r rest
  end.

Example spec_side_projection_same :
  view_all 0 (fst (run_spec false rw_tree rw_evs 40)) = spec_view 0 (fst (run_spec false rw_tree rw_evs 40)).
Proof. vm_compute. reflexivity. Qed.
