(* RunConformInitialSelWf.v -- the erased chart (RunConformInitialSelErase.erase) of a chart that passes wf_initb
   passes the boolean check wf_coreb of the history-free core (WfCore.v), and the boolean legality oracle
   accepts on the erased chart what it accepts on the chart.  (The Prop-level counterparts erase_WF and
   erase_LegalCfg are what RunConformInitialSel.v uses; these are for callers that work with the boolean
   statements of the core, e.g. SelectConformLemmas.selection_conforms_lemma.)  Proofs only. *)
From Coq Require Import Morphisms Setoid.
From V Require Import Base NameMatch Chart Exec Large LargeLemmas Spec Legal SetLemmas LegalAbstract LegalLarge LegalRun
  WfCore LegalHistBase LegalHistEntry LegalHistStep LegalHistWf LegalHistOracle SelectConform SelectConformRoot
  RunConformInitialSelLegal RunConformInitialSelErase.
Local Open Scope nat_scope.

#[local] Instance rcisw_forallb_Proper A : Proper (pointwise_relation A eq ==> eq ==> eq) (@forallb A).
Proof. intros f g E l l' <-. induction l as [|a r IH]; cbn; [reflexivity|]. now rewrite E, IH. Qed.
#[local] Instance rcisw_existsb_Proper A : Proper (pointwise_relation A eq ==> eq ==> eq) (@existsb A).
Proof. intros f g E l l' <-. induction l as [|a r IH]; cbn; [reflexivity|]. now rewrite E, IH. Qed.
#[local] Instance rcisw_filter_Proper A : Proper (pointwise_relation A eq ==> eq ==> eq) (@filter A).
Proof. intros f g E l l' <-. induction l as [|a r IH]; cbn; [reflexivity|]. now rewrite E, IH. Qed.

Lemma rcisw_forallb_ext {A} (f g : A -> bool) l : (forall a, f a = g a) -> forallb f l = forallb g l.
Proof. intros E. induction l as [|a r IH]; cbn; [reflexivity|]. now rewrite E, IH. Qed.

Section WfErase.
Variable c : fchart.
Notation c' := (erase c).

Lemma wfb_nonempty_erase : wfb_nonempty c' = wfb_nonempty c.
Proof. unfold wfb_nonempty. now rewrite nstates_erase. Qed.
Lemma wfb_root_erase : wfb_root c' = wfb_root c.
Proof. unfold wfb_root. now rewrite par_erase. Qed.
Lemma wfb_parent_erase : wfb_parent c' = wfb_parent c.
Proof. unfold wfb_parent. rewrite nstates_erase. now setoid_rewrite par_erase. Qed.
Lemma wfb_children_erase : wfb_children c' = wfb_children c.
Proof. unfold wfb_children. rewrite nstates_erase. repeat setoid_rewrite par_erase. now setoid_rewrite ch_erase. Qed.
Lemma wfb_anc_erase : wfb_anc c' = wfb_anc c.
Proof.
  unfold wfb_anc. rewrite nstates_erase. apply rcisw_forallb_ext. intros i. rewrite par_erase, anc_erase.
  destruct (fs_parent (st c i)); [|reflexivity]. now rewrite anc_erase.
Qed.
Lemma wfb_interval_erase : wfb_interval c' = wfb_interval c.
Proof. unfold wfb_interval. rewrite nstates_erase. repeat setoid_rewrite anc_erase. now repeat setoid_rewrite size_erase. Qed.
Lemma wfb_root_type_erase : wfb_root_type c' = wfb_root_type c.
Proof. unfold wfb_root_type. rewrite type_erase. now destruct (fs_type (st c 0)). Qed.
Lemma wfb_src_erase : wfb_src c' = wfb_src c.
Proof. unfold wfb_src. rewrite nstates_erase. now setoid_rewrite trans_erase. Qed.
Lemma wfb_targets_erase : wfb_targets c' = wfb_targets c.
Proof. unfold wfb_targets. now rewrite nstates_erase. Qed.

Lemma on_path_erase k g : on_path c' k g = on_path c k g.
Proof. unfold on_path. now rewrite anc_erase. Qed.

Lemma existsb_on_path_erase k T : existsb (on_path c' k) T = existsb (on_path c k) T.
Proof. induction T as [|g r IH]; cbn [existsb]; [reflexivity|]. now rewrite on_path_erase, IH. Qed.

Lemma wfb_target_sets_erase : wfb_target_sets c' = whb_target_sets c.
Proof.
  unfold wfb_target_sets, whb_target_sets, one_childb. rewrite nstates_erase. apply rcisw_forallb_ext. intros ti.
  apply rcisw_forallb_ext. intros i. rewrite type_erase, ch_erase. setoid_rewrite existsb_on_path_erase.
  now destruct (fs_type (st c i)).
Qed.

Hypothesis Hwf : wf_initb c = true.
Let Hh : wf_histb c = true := wf_initb_histb c Hwf.
Let W : WFH c := wf_histb_sound c Hh.
Let NH : forall i, is_hist (fs_type (st c i)) = false := wf_initb_no_hist c Hwf.

Lemma wfb_types_erase : wfb_types c' = true.
Proof.
  unfold wfb_types. apply forallb_forall. intros i _. rewrite type_erase. specialize (NH i).
  destruct (fs_type (st c i)); cbn in *; try reflexivity; discriminate.
Qed.

Lemma wfb_completion_erase : wfb_completion c' = true.
Proof.
  unfold wfb_completion. rewrite nstates_erase. apply forallb_forall. intros i Hi. apply in_seq in Hi.
  pose proof (hparts c Hh) as (_ & _ & _ & _ & _ & _ & _ & _ & _ & _ & _ & P & _). unfold whb_completion in P.
  rewrite forallb_forall in P. specialize (P i ltac:(apply in_seq; lia)).
  rewrite type_erase, ch_erase, st_erase. cbn [er fs_completion].
  destruct (fs_type (st c i)) eqn:Hk; cbn [er_type]; try reflexivity.
  - pose proof (compound_has_child c W i Hk) as Hne. destruct (fs_children (st c i)) as [|k r]; [congruence|].
    cbn [mem]. now rewrite Nat.eqb_refl.
  - exact P.
Qed.

Theorem wf_coreb_erase : wf_coreb c' = true.
Proof.
  pose proof (hparts c Hh) as (P1 & P2 & P3 & P4 & P5 & P6 & P7 & P8 & P9 & _ & _ & _ & P13 & _).
  unfold wf_coreb.
  rewrite wfb_nonempty_erase, wfb_root_erase, wfb_parent_erase, wfb_children_erase, wfb_anc_erase, wfb_interval_erase,
    wfb_types_erase, wfb_root_type_erase, wfb_completion_erase, wfb_src_erase, wfb_targets_erase, wfb_target_sets_erase.
  now rewrite P1, P2, P3, P4, P5, P6, P7, P8, P9, P13.
Qed.

(* the legality oracle on the erased chart *)
Theorem legal_configb_erase cfg : legal_configb c cfg = true -> legal_configb c' cfg = true.
Proof.
  intros H.
  pose proof (erase_LegalCfg c W cfg (legal_configb_sound_h c W cfg H)) as [HL HB].
  pose proof (erase_WF c W NH) as W'.
  assert (Hnd : NoDup cfg).
  { unfold legal_configb in H. apply andb_true_iff in H as [H _]. apply andb_true_iff in H as [_ H].
    clear -H. induction cfg as [|a r IH]; [constructor|]. cbn [nodupb] in H. apply andb_true_iff in H as [A B].
    constructor; [now apply mem_false_In, negb_true_iff | now apply IH]. }
  unfold legal_configb. apply andb_true_iff. split; [apply andb_true_iff; split|].
  - apply mem_In. exact (lg_root _ _ _ _ HL).
  - now apply rcis_nodupb_NoDup.
  - apply forallb_forall. intros i Hi. unfold state_ok.
    apply andb_true_iff. split; [apply andb_true_iff; split; [apply andb_true_iff; split|]|].
    + apply Nat.ltb_lt. now apply HB.
    + destruct (wf_types c' W' i) as [E|[E|[E|E]]]; rewrite E; reflexivity.
    + destruct (fs_parent (st c' i)) as [p|] eqn:Hp; [|reflexivity]. apply mem_In. exact (lg_parent _ _ _ _ HL i p Hi Hp).
    + assert (Hpc : proper_children c' i = fs_children (st c' i)).
      { unfold proper_children. induction (fs_children (st c' i)) as [|k r IH]; cbn [filter]; [reflexivity|].
        assert (Hp : proper_type (fs_type (st c' k)) = true) by (destruct (wf_types c' W' k) as [E|[E|[E|E]]]; rewrite E; reflexivity).
        rewrite Hp. now rewrite IH. }
      rewrite Hpc. destruct (fs_type (st c' i)) eqn:Ht; try reflexivity.
      * apply Nat.eqb_eq. destruct (lg_compound_ex _ _ _ _ HL i Hi Ht) as (k & Hk & Hck).
        apply (rcis_filter_len_one _ _ k (wf_children_nodup c' W' i) Hk); [now apply mem_In|].
        intros k' Hk' Hm. apply mem_In in Hm. exact (lg_compound_uniq _ _ _ _ HL i k' k Hi Ht Hk' Hk Hm Hck).
      * apply forallb_forall. intros k Hk. apply mem_In. exact (lg_parallel _ _ _ _ HL i k Hi Ht Hk).
Qed.

End WfErase.

Print Assumptions wf_coreb_erase.
Print Assumptions legal_configb_erase.
