(* TraceCompleteStep.v -- C13 completeness, layer 2: the entry set is strictly ascending and in range, and the
   shape of what ONE call of step() reports together with the configuration delta ([step_shape]); proved for
   the modelled LargeMicroStep::step, every engine variant and executor variant. *)
From V Require Import Base NameMatch Chart Exec Large Interp Trace TraceLemmas SetLemmas
     TraceComplete TraceCompleteBase TraceCompleteMicro.
From Coq Require Import ZifyBool.
Local Open Scope nat_scope.

(* ------------------------------------------------------------------ invariants of ESTABLISH_ENTRYSET *)

Section EntryInv.
Variable v : lg_variant.
Variable c : fchart.
Variable P : list nat -> Prop.
Variable Q : nat -> Prop.
Hypothesis P_ins : forall x l, Q x -> P l -> P (insert_sorted x l).
Hypothesis Q_compl : forall i x, In x (fs_completion (st c i)) -> Q x.
Hypothesis Q_anc : forall i x, In x (fs_ancestors (st c i)) -> Q x.
Hypothesis Q_tgt : forall ti x, In x (ft_targets (tr c ti)) -> Q x.

Lemma P_union b : forall a, P a -> (forall x, In x b -> Q x) -> P (set_union a b).
Proof.
  unfold set_union. induction b as [|y r IH]; intros a Ha Hb; cbn [fold_left]; [exact Ha|].
  apply IH; [apply P_ins; [apply Hb; now left | exact Ha] | intros x Hx; apply Hb; now right].
Qed.

Lemma P_fold_anc (l : list nat) : forall a, P a -> P (fold_left (fun a x => set_union a (fs_ancestors (st c x))) l a).
Proof.
  induction l as [|y r IH]; intros a Ha; cbn [fold_left]; [exact Ha|].
  apply IH. apply P_union; [exact Ha | apply Q_anc].
Qed.

Lemma add_ancestors_P es : P es -> P (add_ancestors c es).
Proof. unfold add_ancestors. apply P_fold_anc. Qed.

Lemma descend_one_P cfg ex hist acc i : P (fst acc) -> P (fst (descend_one v c cfg ex hist acc i)).
Proof.
  destruct acc as [es ts]. cbn [fst]. intros Hes. unfold descend_one.
  destruct (negb (mem i es)); [exact Hes|].
  destruct (fs_type (st c i)) eqn:Ety; try exact Hes.
  - (* compound *)
    destruct (existsb _ (fs_children (st c i))); [exact Hes|]. cbn [fst].
    assert (H1 : P (set_union es (fs_completion (st c i)))) by (apply P_union; [exact Hes | apply Q_compl]).
    revert H1. generalize (set_union es (fs_completion (st c i))).
    induction (fs_completion (st c i)) as [|cm r IH]; intros a Ha; cbn [fold_left]; [exact Ha|].
    apply IH. destruct (mem cm (fs_children (st c i))); [exact Ha | apply P_union; [exact Ha | apply Q_anc]].
  - (* parallel *)
    cbn [fst]. apply P_union; [exact Hes | apply Q_compl].
  - (* shallow history *)
    destruct (_ && _).
    + destruct (fs_trans (st c i)) as [|ti rt]; [exact Hes|]. cbn [fst].
      apply P_union; [exact Hes | apply Q_tgt].
    + cbn [fst]. apply P_union; [exact Hes|]. intros x Hx. apply In_set_inter in Hx. eapply Q_compl. apply Hx.
  - (* deep history *)
    destruct (_ && _).
    + destruct (fs_trans (st c i)) as [|ti rt]; [exact Hes|]. cbn [fst].
      assert (H1 : P (set_union es (ft_targets (tr c ti)))) by (apply P_union; [exact Hes | apply Q_tgt]).
      destruct (negb (intersects (ft_targets (tr c ti)) (fs_children (st c i)))); [|exact H1].
      now apply P_fold_anc.
    + cbn [fst]. apply P_union; [exact Hes|]. intros x Hx. apply In_set_inter in Hx. eapply Q_compl. apply Hx.
  - (* initial *)
    assert (Hin : forall tg e, (forall x, In x tg -> Q x) -> P e ->
                   P (fold_left (fun e x => set_union (insert_sorted x e) (fs_ancestors (st c x))) tg e)).
    { induction tg as [|y r IH]; intros e Hq He; cbn [fold_left]; [exact He|].
      apply IH; [intros x Hx; apply Hq; now right|].
      apply P_union; [apply P_ins; [apply Hq; now left | exact He] | apply Q_anc]. }
    assert (Hout : forall l a, P (fst a) ->
       P (fst (fold_left (fun a ti => let t := tr c ti in
                 (fold_left (fun e x => set_union (insert_sorted x e) (fs_ancestors (st c x))) (ft_targets t) (fst a),
                  insert_sorted ti (snd a))) l a))).
    { induction l as [|ti r IH]; intros a Ha; cbn [fold_left]; [exact Ha|].
      apply IH. cbn [fst]. apply Hin; [apply Q_tgt | exact Ha]. }
    apply (Hout (fs_trans (st c i)) (es, ts)). exact Hes.
Qed.

Lemma entry_set_P cfg ex hist targets ts : P targets -> P (fst (entry_set v c cfg ex hist targets ts)).
Proof.
  intros Ht. unfold entry_set.
  assert (H0 : P (fst (add_ancestors c targets, ts))) by (cbn [fst]; now apply add_ancestors_P).
  revert H0. generalize (add_ancestors c targets, ts).
  induction (seq 0 (n_states c)) as [|i r IH]; intros acc Hacc; cbn [fold_left]; [exact Hacc|].
  apply IH. now apply descend_one_P.
Qed.

End EntryInv.

Definition in_range (c : fchart) (l : list nat) : Prop := forall i, In i l -> i < nstates c.

Lemma entry_set_ssorted v c cfg ex hist targets ts :
  ssorted targets -> ssorted (fst (entry_set v c cfg ex hist targets ts)).
Proof.
  apply (entry_set_P v c ssorted (fun _ => True)); auto.
  intros x l _. apply ssorted_insert.
Qed.

Lemma all_lt_spec n l : all_lt n l = true <-> forall i, In i l -> i < n.
Proof.
  unfold all_lt. rewrite forallb_forall. split; intros H i Hi; specialize (H i Hi); [now apply Nat.ltb_lt | now apply Nat.ltb_lt].
Qed.

Section Range.
Variable c : fchart.
Hypothesis Hrange : refs_in_rangeb c = true.

Lemma range_completion i : in_range c (fs_completion (st c i)).
Proof.
  pose proof Hrange as Hr. unfold refs_in_rangeb in Hr. apply andb_true_iff in Hr. destruct Hr as [H _].
  destruct (st_in_or_dummy c i) as [Hin|Hd]; [|rewrite Hd; intros ? []].
  rewrite forallb_forall in H. specialize (H _ Hin). apply andb_true_iff in H. destruct H as [H _].
  unfold in_range. now apply all_lt_spec.
Qed.
Lemma range_ancestors i : in_range c (fs_ancestors (st c i)).
Proof.
  pose proof Hrange as Hr. unfold refs_in_rangeb in Hr. apply andb_true_iff in Hr. destruct Hr as [H _].
  destruct (st_in_or_dummy c i) as [Hin|Hd]; [|rewrite Hd; intros ? []].
  rewrite forallb_forall in H. specialize (H _ Hin). apply andb_true_iff in H. destruct H as [_ H].
  unfold in_range. now apply all_lt_spec.
Qed.
Lemma range_targets ti : in_range c (ft_targets (tr c ti)).
Proof.
  pose proof Hrange as Hr. unfold refs_in_rangeb in Hr. apply andb_true_iff in Hr. destruct Hr as [_ H].
  destruct (tr_in_or_dummy c ti) as [Hin|Hd]; [|rewrite Hd; intros ? []].
  rewrite forallb_forall in H. specialize (H _ Hin).
  unfold in_range. now apply all_lt_spec.
Qed.

Lemma entry_set_range v cfg ex hist targets ts :
  in_range c targets -> in_range c (fst (entry_set v c cfg ex hist targets ts)).
Proof.
  apply (entry_set_P v c (in_range c) (fun i => i < nstates c)).
  - intros x l Hx Hl i Hi. apply In_insert_sorted' in Hi. destruct Hi as [->|Hi]; auto.
  - apply range_completion.
  - apply range_ancestors.
  - apply range_targets.
Qed.
End Range.

(* ------------------------------------------------------------------ projections of skeletons *)

Lemma filter_map_app {A B} (f : A -> option B) (a b : list A) : filter_map f (a ++ b) = filter_map f a ++ filter_map f b.
Proof.
  induction a as [|x r IH]; cbn [app filter_map]; [reflexivity|]. destruct (f x); [cbn; now rewrite IH | exact IH].
Qed.

Lemma filter_map_skeleton {B} (f : tok -> option B) l :
  (forall t, is_content t = true -> f t = None) -> filter_map f (skeleton l) = filter_map f l.
Proof.
  intros Hf. induction l as [|t r IH]; [reflexivity|]. unfold skeleton. cbn [filter filter_map].
  destruct (is_content t) eqn:E; cbn [negb].
  - rewrite (Hf t E). exact IH.
  - cbn [filter_map]. fold (skeleton r). now rewrite IH.
Qed.

Lemma xb_of_skeleton l : xb_of (skeleton l) = xb_of l.
Proof. apply filter_map_skeleton. now intros []. Qed.
Lemma xe_of_skeleton l : xe_of (skeleton l) = xe_of l.
Proof. apply filter_map_skeleton. now intros []. Qed.
Lemma eb_of_skeleton l : eb_of (skeleton l) = eb_of l.
Proof. apply filter_map_skeleton. now intros []. Qed.
Lemma ee_of_skeleton l : ee_of (skeleton l) = ee_of l.
Proof. apply filter_map_skeleton. now intros []. Qed.
Lemma tb_of_skeleton l : tb_of (skeleton l) = tb_of l.
Proof. apply filter_map_skeleton. now intros []. Qed.
Lemma te_of_skeleton l : te_of (skeleton l) = te_of l.
Proof. apply filter_map_skeleton. now intros []. Qed.
Lemma ev_of_skeleton l : ev_of (skeleton l) = ev_of l.
Proof. apply filter_map_skeleton. now intros []. Qed.

Section SkelProj.
Variable c : fchart.

Lemma xb_exit_skel l : xb_of (exit_skel c l) = map (sid_of c) l.
Proof. induction l as [|i r IH]; [reflexivity|]. cbn. now f_equal. Qed.
Lemma xe_exit_skel l : xe_of (exit_skel c l) = map (sid_of c) l.
Proof. induction l as [|i r IH]; [reflexivity|]. cbn. now f_equal. Qed.
Lemma tb_trans_skel l : tb_of (trans_skel c l) = map (vid_of c) l.
Proof. induction l as [|i r IH]; [reflexivity|]. cbn. now f_equal. Qed.
Lemma te_trans_skel l : te_of (trans_skel c l) = map (vid_of c) l.
Proof. induction l as [|i r IH]; [reflexivity|]. cbn. now f_equal. Qed.

Lemma fm_none_flat {A B} (f : tok -> option B) (g : A -> list tok) l :
  (forall a, filter_map f (g a) = []) -> filter_map f (flat_map g l) = [].
Proof. intros H. induction l as [|a r IH]; [reflexivity|]. cbn [flat_map]. now rewrite filter_map_app, H, IH. Qed.

Lemma xb_trans_skel l : xb_of (trans_skel c l) = [].
Proof. apply fm_none_flat. reflexivity. Qed.
Lemma xe_trans_skel l : xe_of (trans_skel c l) = [].
Proof. apply fm_none_flat. reflexivity. Qed.
Lemma eb_trans_skel l : eb_of (trans_skel c l) = [].
Proof. apply fm_none_flat. reflexivity. Qed.
Lemma ee_trans_skel l : ee_of (trans_skel c l) = [].
Proof. apply fm_none_flat. reflexivity. Qed.
Lemma eb_exit_skel l : eb_of (exit_skel c l) = [].
Proof. apply fm_none_flat. reflexivity. Qed.
Lemma ee_exit_skel l : ee_of (exit_skel c l) = [].
Proof. apply fm_none_flat. reflexivity. Qed.
Lemma tb_exit_skel l : tb_of (exit_skel c l) = [].
Proof. apply fm_none_flat. reflexivity. Qed.
Lemma te_exit_skel l : te_of (exit_skel c l) = [].
Proof. apply fm_none_flat. reflexivity. Qed.

Lemma xb_entry_skel pt l : xb_of (entry_skel_with c pt l) = [].
Proof. apply fm_none_flat. intros a. cbn. apply xb_trans_skel. Qed.
Lemma xe_entry_skel pt l : xe_of (entry_skel_with c pt l) = [].
Proof. apply fm_none_flat. intros a. cbn. apply xe_trans_skel. Qed.
Lemma eb_entry_skel pt l : eb_of (entry_skel_with c pt l) = map (sid_of c) l.
Proof.
  induction l as [|i r IH]; [reflexivity|]. cbn [entry_skel_with flat_map]. unfold eb_of in *.
  cbn [app filter_map]. rewrite filter_map_app. fold (entry_skel_with c pt r). rewrite IH.
  change (filter_map _ (trans_skel c (pt i))) with (eb_of (trans_skel c (pt i))).
  rewrite eb_trans_skel. reflexivity.
Qed.
Lemma ee_entry_skel pt l : ee_of (entry_skel_with c pt l) = map (sid_of c) l.
Proof.
  induction l as [|i r IH]; [reflexivity|]. cbn [entry_skel_with flat_map]. unfold ee_of in *.
  cbn [app filter_map]. rewrite filter_map_app. fold (entry_skel_with c pt r). rewrite IH.
  change (filter_map _ (trans_skel c (pt i))) with (ee_of (trans_skel c (pt i))).
  rewrite ee_trans_skel. reflexivity.
Qed.
Lemma tb_entry_skel pt l : tb_of (entry_skel_with c pt l) = map (vid_of c) (flat_map pt l).
Proof.
  induction l as [|i r IH]; [reflexivity|]. cbn [entry_skel_with flat_map]. unfold tb_of in *.
  cbn [app filter_map]. rewrite filter_map_app, map_app. fold (entry_skel_with c pt r). rewrite IH.
  change (filter_map _ (trans_skel c (pt i))) with (tb_of (trans_skel c (pt i))).
  now rewrite tb_trans_skel.
Qed.

Lemma xb_micro_skel pt xs tl en : xb_of (micro_skel_with c pt xs tl en) = map (sid_of c) xs.
Proof.
  unfold micro_skel_with, xb_of. repeat rewrite filter_map_app. fold (xb_of (exit_skel c xs)).
  fold (xb_of (trans_skel c tl)). fold (xb_of (entry_skel_with c pt en)).
  now rewrite xb_exit_skel, xb_trans_skel, xb_entry_skel, app_nil_r.
Qed.
Lemma xe_micro_skel pt xs tl en : xe_of (micro_skel_with c pt xs tl en) = map (sid_of c) xs.
Proof.
  unfold micro_skel_with, xe_of. repeat rewrite filter_map_app. fold (xe_of (exit_skel c xs)).
  fold (xe_of (trans_skel c tl)). fold (xe_of (entry_skel_with c pt en)).
  now rewrite xe_exit_skel, xe_trans_skel, xe_entry_skel, app_nil_r.
Qed.
Lemma eb_micro_skel pt xs tl en : eb_of (micro_skel_with c pt xs tl en) = map (sid_of c) en.
Proof.
  unfold micro_skel_with, eb_of. repeat rewrite filter_map_app. fold (eb_of (exit_skel c xs)).
  fold (eb_of (trans_skel c tl)). fold (eb_of (entry_skel_with c pt en)).
  now rewrite eb_exit_skel, eb_trans_skel, eb_entry_skel.
Qed.
Lemma ee_micro_skel pt xs tl en : ee_of (micro_skel_with c pt xs tl en) = map (sid_of c) en.
Proof.
  unfold micro_skel_with, ee_of. repeat rewrite filter_map_app. fold (ee_of (exit_skel c xs)).
  fold (ee_of (trans_skel c tl)). fold (ee_of (entry_skel_with c pt en)).
  now rewrite ee_exit_skel, ee_trans_skel, ee_entry_skel.
Qed.
Lemma tb_micro_skel pt xs tl en :
  tb_of (micro_skel_with c pt xs tl en) = map (vid_of c) (tl ++ flat_map pt en).
Proof.
  unfold micro_skel_with, tb_of. repeat rewrite filter_map_app. fold (tb_of (exit_skel c xs)).
  fold (tb_of (trans_skel c tl)). fold (tb_of (entry_skel_with c pt en)).
  now rewrite tb_exit_skel, tb_trans_skel, tb_entry_skel, map_app.
Qed.

(* the tokens a micro-step reports between its brackets *)
Definition is_msinner (t : tok) : bool :=
  match t with TXb _ | TXe _ | TTb _ | TTe _ | TEb _ | TEe _ => true | _ => false end.

Lemma forallb_flat_map {A B} (p : B -> bool) (g : A -> list B) l :
  (forall a, forallb p (g a) = true) -> forallb p (flat_map g l) = true.
Proof. intros H. induction l as [|a r IH]; [reflexivity|]. cbn [flat_map]. now rewrite forallb_app, H, IH. Qed.

Lemma trans_skel_inner l : forallb is_msinner (trans_skel c l) = true.
Proof. apply forallb_flat_map. reflexivity. Qed.

Lemma micro_skel_inner pt xs tl en : forallb is_msinner (micro_skel_with c pt xs tl en) = true.
Proof.
  unfold micro_skel_with. repeat rewrite forallb_app. repeat (apply andb_true_iff; split).
  - apply forallb_flat_map. reflexivity.
  - apply trans_skel_inner.
  - apply forallb_flat_map. intros a. cbn. apply trans_skel_inner.
Qed.

End SkelProj.

(* ------------------------------------------------------------------ the shape of one step *)

(* what a step that processed [evt] (no or one event report) reported, [sk], and did to the engine state *)
Inductive step_shape (c : fchart) (l : lstate) (rc : N) (l' : lstate) (evt sk : list tok) : Prop :=
| shape_quiet :
    evt = [] -> sk = [] -> l_cfg l' = l_cfg l -> l_stable l' = l_stable l -> l_spont l' = l_spont l ->
    (rc = RC_FINISHED \/ rc = RC_CANCELLED \/ (rc = RC_IDLE /\ l_stable l = true)) ->
    step_shape c l rc l' evt sk
| shape_completion :
    evt = [] -> sk = [TComplB; TComplE] -> l_cfg l' = l_cfg l -> l_stable l' = l_stable l -> l_spont l' = l_spont l ->
    rc = RC_FINISHED ->
    step_shape c l rc l' evt sk
| shape_stable :
    evt = [] -> sk = [TStable] -> l_cfg l' = l_cfg l -> l_stable l = false -> l_stable l' = true -> l_spont l' = false ->
    rc = RC_MACROSTEPPED ->
    step_shape c l rc l' evt sk
| shape_nothing_enabled :
    sk = evt -> (evt = [] \/ exists n, evt = [TEv n]) ->
    (evt = [] -> l_spont l = true) ->
    l_cfg l' = l_cfg l -> l_stable l' = false ->
    rc = RC_MICROSTEPPED ->
    step_shape c l rc l' evt sk
| shape_microstep pt xs tl en :
    sk = evt ++ TMsB :: micro_skel_with c pt xs tl en ++ [TMsE] ->
    (evt = [] \/ exists n, evt = [TEv n]) ->
    (evt = [] -> l_spont l = true \/ is_pristine l = true) ->
    l_cfg l' = insert_all en (remove_all xs (l_cfg l)) ->
    ssorted (rev xs) -> (forall i, In i xs -> In i (l_cfg l)) ->
    ssorted en -> (forall i, In i en -> ~ In i (remove_all xs (l_cfg l))) -> in_range c en ->
    l_stable l' = false -> l_spont l' = true ->
    rc = RC_MICROSTEPPED ->
    step_shape c l rc l' evt sk.

(* ------------------------------------------------------------------ the control flow around the queues *)

(* LargeMicroStep::step and FastMicroStep::step differ in the initial micro-step [ms0] (after
   beforeMicroStep) and in selection + micro-step [sel] only *)
Section Outer.
Variable xv : ex_variant.
Variable c : fchart.
Variable ms0 : lstate -> xstate -> lstate * xstate.
Variable sel : lstate -> xstate -> option event -> lstate * xstate * N.

Definition outer_step (l : lstate) (x : xstate) : lstate * xstate * N :=
  if l_fin l then (l, x, RC_FINISHED)
  else if l_tlf l then
    let x1 := emit TComplB x in
    let x2 := fold_left (fun x i => exec_blocks xv (inst_of c (l_cfg l)) (fs_onexit (st c i)) x) (rev (l_cfg l)) x1 in
    ({| l_cfg := l_cfg l; l_hist := l_hist l; l_initd := l_initd l; l_spont := l_spont l; l_init := l_init l;
        l_tlf := true; l_fin := true; l_stable := l_stable l; l_cancelled := l_cancelled l |},
     emit TComplE x2, RC_FINISHED)
  else if is_pristine l then
    let '(l1, x1) := ms0 l x in
    (l1, x1, RC_MICROSTEPPED)
  else if l_spont l then sel l x None
  else
    match x_iq x with
    | e :: r =>
      match ev_name e with
      | [] => (l, x, RC_IDLE)
      | _ =>
        let x1 := emit (TEv (ev_name e)) {| x_store := x_store x; x_iq := r; x_eq := x_eq x; x_out := x_out x |} in
        sel l x1 (Some e)
      end
    | [] =>
      if negb (l_stable l) then (upd_flags l (l_spont l) true, emit TStable x, RC_MACROSTEPPED)
      else
        match x_eq x with
        | e :: r =>
          let x0 := {| x_store := x_store x; x_iq := x_iq x; x_eq := r; x_out := x_out x |} in
          match ev_name e with
          | [] =>
            if l_cancelled l then
              ({| l_cfg := l_cfg l; l_hist := l_hist l; l_initd := l_initd l; l_spont := l_spont l; l_init := l_init l;
                  l_tlf := true; l_fin := l_fin l; l_stable := l_stable l; l_cancelled := true |}, x0, RC_CANCELLED)
            else (l, x0, RC_IDLE)
          | _ => sel l (emit (TEv (ev_name e)) x0) (Some e)
          end
        | [] =>
          if l_cancelled l then
            ({| l_cfg := l_cfg l; l_hist := l_hist l; l_initd := l_initd l; l_spont := l_spont l; l_init := l_init l;
                l_tlf := true; l_fin := l_fin l; l_stable := l_stable l; l_cancelled := true |}, x, RC_CANCELLED)
          else (l, x, RC_IDLE)
        end
    end.

Let ok := raise_names_okb c.

Hypothesis ms0_shape : forall l x, ssorted (l_cfg l) -> in_range c (l_cfg l) -> is_pristine l = true ->
  exists sk, rep ok x (snd (ms0 l x)) sk /\ step_shape c l RC_MICROSTEPPED (fst (ms0 l x)) [] sk.
Hypothesis sel_shape : forall l x ev evt, ssorted (l_cfg l) -> in_range c (l_cfg l) ->
  (evt = [] \/ exists n, evt = [TEv n]) -> (evt = [] -> l_spont l = true) ->
  forall x0, rep ok x0 x evt ->
  exists sk, rep ok x0 (snd (fst (sel l x ev))) sk /\ step_shape c l (snd (sel l x ev)) (fst (fst (sel l x ev))) evt sk.

(* the queues: the head named by [dequeues] is taken, everything else is appended (named, if [ok]) *)
Definition qeffect (d : deq) (x x' : xstate) : Prop :=
  match d with
  | DeqNone => qgrow ok x x'
  | DeqInt e => hd_error (x_iq x) = Some e /\ qgrow ok (pop_iq x) x'
  | DeqExt e => hd_error (x_eq x) = Some e /\ x_iq x = [] /\ qgrow ok (pop_eq x) x'
  | DeqExtEmpty => x_iq x = [] /\ qgrow ok (pop_eq x) x'
  end.

Lemma qeffect_named d x x' : qeffect d x x' -> ok = true -> iq_named x -> iq_named x'.
Proof.
  intros H Hk Hn. destruct d; cbn [qeffect] in H.
  - now apply (qgrow_named ok x x').
  - destruct H as [_ H]. apply (qgrow_named ok (pop_iq x) x' H Hk).
    unfold iq_named, pop_iq in *. cbn. destruct (x_iq x); [reflexivity|]. cbn in Hn. now apply andb_true_iff in Hn.
  - destruct H as (_ & _ & H). apply (qgrow_named ok (pop_eq x) x' H Hk). exact Hn.
  - destruct H as (_ & H). apply (qgrow_named ok (pop_eq x) x' H Hk). exact Hn.
Qed.

Lemma qeffect_queue_effect d x x' : qeffect d x x' -> queue_effect d x x'.
Proof.
  assert (G : forall y y', qgrow ok y y' -> grows y y').
  { intros y y' (a & e & H1 & H2 & _). now exists a, e. }
  destruct d; cbn [qeffect queue_effect]; intuition.
Qed.

Lemma reports_start x0 x x' sk : x_out x0 = x_out x -> reports x0 x' sk -> reports x x' sk.
Proof. intros H (new & Hn & Hs). exists new. split; [|exact Hs]. unfold emitted in *. now rewrite <- H. Qed.

Theorem outer_step_shape l x :
  ssorted (l_cfg l) -> in_range c (l_cfg l) ->
  ok = true -> iq_named x ->
  let r := outer_step l x in
  exists sk, reports x (snd (fst r)) sk /\ qeffect (dequeues l x) x (snd (fst r)) /\
             step_shape c l (snd r) (fst (fst r)) (map TEv (deq_names (dequeues l x))) sk.
Proof.
  intros Hcs Hcr Hok Hnamed. cbn zeta. unfold outer_step, dequeues.
  destruct (l_fin l) eqn:Efin.
  { exists []. cbn [orb fst snd qeffect]. split; [apply reports_refl|]. split; [apply qgrow_refl|]. apply shape_quiet; auto. }
  destruct (l_tlf l) eqn:Etlf.
  { cbn [fst snd orb deq_names map qeffect]. exists [TComplB; TComplE].
    assert (Hb : rep ok x (emit TComplE (fold_left (fun x i => exec_blocks xv (inst_of c (l_cfg l)) (fs_onexit (st c i)) x)
                                                   (rev (l_cfg l)) (emit TComplB x))) [TComplB; TComplE]).
    { apply (rep_bracket ok x TComplB TComplE
               (fun y => fold_left (fun x i => exec_blocks xv (inst_of c (l_cfg l)) (fs_onexit (st c i)) x) (rev (l_cfg l)) y));
        try reflexivity.
      intros y. apply quiet_fold. intros z a _. apply onexit_quiet. }
    destruct Hb as [Hb1 Hb2]. split; [exact Hb1|]. split; [exact Hb2|]. now apply shape_completion. }
  destruct (is_pristine l) eqn:Epr.
  { cbn [orb deq_names map qeffect]. destruct (ms0_shape l x Hcs Hcr Epr) as (sk & [H1 H1'] & H2).
    destruct (ms0 l x) as [l1 x1]. cbn [fst snd] in *. now exists sk. }
  destruct (l_spont l) eqn:Esp.
  { cbn [orb deq_names map qeffect].
    destruct (sel_shape l x None [] Hcs Hcr (or_introl eq_refl) (fun _ => Esp) x (rep_refl ok x)) as (sk & [H1 H1'] & H2).
    now exists sk. }
  cbn [orb].
  destruct (x_iq x) as [|e r] eqn:Eiq.
  - destruct (l_stable l) eqn:Est; cbn [negb].
    + destruct (x_eq x) as [|e r] eqn:Eeq.
      * destruct (l_cancelled l); cbn [fst snd deq_names map qeffect];
          (exists []; split; [apply reports_refl|]; split; [apply qgrow_refl|]); apply shape_quiet; auto.
      * destruct (ev_name e) as [|b bs] eqn:En.
        -- assert (Hg : qgrow ok (pop_eq x) {| x_store := x_store x; x_iq := []; x_eq := r; x_out := x_out x |}).
           { apply qgrow_same; unfold pop_eq; cbn; [now rewrite Eiq | now rewrite Eeq]. }
           destruct (l_cancelled l); cbn [fst snd deq_names map qeffect];
             (exists []; split; [now apply reports_same|]; split; [split; [exact Eiq | exact Hg]|]); apply shape_quiet; auto.
        -- cbn [deq_names map qeffect]. rewrite En.
           set (xp := {| x_store := x_store x; x_iq := []; x_eq := r; x_out := x_out x |}).
           assert (Hxp : qgrow ok (pop_eq x) xp).
           { apply qgrow_same; unfold pop_eq, xp; cbn; [now rewrite Eiq | now rewrite Eeq]. }
           destruct (sel_shape l (emit (TEv (b :: bs)) xp) (Some e) [TEv (b :: bs)] Hcs Hcr
                               (or_intror (ex_intro _ (b :: bs) eq_refl)) ltac:(discriminate) xp
                               (rep_tok ok xp (TEv (b :: bs)) eq_refl)) as (sk & [H1 H1'] & H2).
           exists sk. split; [now apply (reports_start xp)|]. split; [|exact H2].
           split; [now rewrite Eeq|]. split; [exact Eiq|]. eapply qgrow_trans; eassumption.
    + cbn [fst snd deq_names map qeffect]. exists [TStable]. split; [now apply reports_tok|].
      split; [now apply qgrow_same|]. apply shape_stable; auto.
  - destruct (ev_name e) as [|b bs] eqn:En.
    + (* an unnamed event at the head of the internal queue: excluded by the invariant *)
      exfalso. unfold iq_named in Hnamed. rewrite Eiq in Hnamed. cbn in Hnamed.
      unfold namedb in Hnamed. rewrite En in Hnamed. discriminate.
    + cbn [deq_names map qeffect]. rewrite En.
      set (xp := {| x_store := x_store x; x_iq := r; x_eq := x_eq x; x_out := x_out x |}).
      assert (Hxp : qgrow ok (pop_iq x) xp).
      { apply qgrow_same; unfold pop_iq, xp; cbn; [now rewrite Eiq | reflexivity]. }
      destruct (sel_shape l (emit (TEv (b :: bs)) xp) (Some e) [TEv (b :: bs)] Hcs Hcr
                          (or_intror (ex_intro _ (b :: bs) eq_refl)) ltac:(discriminate) xp
                          (rep_tok ok xp (TEv (b :: bs)) eq_refl)) as (sk & [H1 H1'] & H2).
      exists sk. split; [now apply (reports_start xp)|]. split; [|exact H2].
      split; [now rewrite Eiq|]. eapply qgrow_trans; eassumption.
Qed.

End Outer.

Section LargeStep.
Variable v : lg_variant.
Variable xv : ex_variant.
Variable c : fchart.
Let ok := raise_names_okb c.
Hypothesis Hrange : refs_in_rangeb c = true.

Lemma pick_trans_quiet cfg ev sel ts : forall x, quiet ok x (snd (pick_trans v c cfg ev sel ts x)).
Proof.
  induction ts as [|t r IH]; intros x; cbn [pick_trans]; [apply quiet_refl|].
  repeat match goal with
         | |- context [if ?b then _ else _] => destruct b; try apply IH
         end.
  destruct (ft_cond (tr c t)) as [cnd|]; [|apply quiet_refl].
  destruct (is_true (inst_of c cfg) cnd x) as [b x'] eqn:E.
  assert (Hs : quiet ok x x') by (replace x' with (snd (is_true (inst_of c cfg) cnd x)) by (now rewrite E); apply quiet_is_true).
  destruct b; [exact Hs | eapply quiet_trans; [exact Hs | apply IH]].
Qed.

Lemma select_loop_quiet cfg ev order : forall skip sel x,
  quiet ok x (snd (select_loop v c cfg ev order skip sel x)).
Proof.
  induction order as [|s r IH]; intros skip sel x; cbn [select_loop]; [apply quiet_refl|].
  destruct (match skip with Some cur => match fs_parent (st c cur) with Some p => (p =? s)%nat | None => false end | None => false end);
    [apply IH|].
  destruct (pick_trans v c cfg ev sel (fs_trans (st c s)) x) as [o x'] eqn:E.
  assert (Hs : quiet ok x x') by (replace x' with (snd (pick_trans v c cfg ev sel (fs_trans (st c s)) x)) by (now rewrite E); apply pick_trans_quiet).
  destruct o; (eapply quiet_trans; [exact Hs | apply IH]).
Qed.

Lemma select_loop_ssorted cfg ev order : forall skip sel x,
  ssorted sel -> ssorted (fst (select_loop v c cfg ev order skip sel x)).
Proof.
  induction order as [|s r IH]; intros skip sel x Hs; cbn [select_loop]; [exact Hs|].
  destruct (match skip with Some cur => match fs_parent (st c cur) with Some p => (p =? s)%nat | None => false end | None => false end);
    [now apply IH|].
  destruct (pick_trans v c cfg ev sel (fs_trans (st c s)) x) as [o x'].
  destruct o; apply IH; [now apply ssorted_insert | exact Hs].
Qed.

Lemma exit_states_of_incl cfg t i : In i (exit_states_of v c cfg t) -> In i cfg.
Proof.
  unfold exit_states_of. destruct (exit_interval v c t) as [f s].
  destruct (_ && _); [intros [] | intros H; now apply filter_In in H].
Qed.

(* the facts about a micro-step that the shape needs, from sortedness of its inputs *)
Lemma microstep_shape lo l x x0 targets exitset transset initial_step evt :
  l_cfg l = l_cfg lo ->
  ssorted (l_cfg l) -> in_range c (l_cfg l) ->
  ssorted targets -> in_range c targets ->
  ssorted exitset -> (forall i, In i exitset -> In i (l_cfg l)) ->
  (evt = [] \/ exists n, evt = [TEv n]) ->
  (evt = [] -> l_spont lo = true \/ is_pristine lo = true) ->
  l_stable l = false ->
  rep ok x0 x evt ->
  let r := microstep v xv c l (emit TMsB x) targets exitset transset initial_step in
  exists sk, rep ok x0 (snd r) sk /\ step_shape c lo RC_MICROSTEPPED (fst r) evt sk.
Proof.
  intros Hlo Hcs Hcr Hts Htr Hxs Hxi Hevt Hev0 Hst Hx0. cbn zeta.
  destruct (microstep_rep v xv c l (emit TMsB x) targets exitset transset initial_step) as (Hc & Hs & Hsp & _ & _ & Hrep).
  cbn zeta in Hrep.
  set (ts := snd (ms_entry v c l targets exitset transset initial_step)) in *.
  set (en := ms_entered v c l targets exitset transset initial_step) in *.
  exists (evt ++ TMsB :: micro_skel c (rev exitset) ts en ++ [TMsE]). split.
  - eapply rep_trans; [exact Hx0|].
    change (TMsB :: micro_skel c (rev exitset) ts en ++ [TMsE]) with ([TMsB] ++ (micro_skel c (rev exitset) ts en ++ [TMsE])).
    eapply rep_trans; [now apply rep_tok | exact Hrep].
  - apply (shape_microstep c lo RC_MICROSTEPPED _ evt _ (pseudo_trans c ts) (rev exitset) (plain_trans c ts) en); auto; try rewrite <- Hlo.
    + exact Hc.
    + now rewrite rev_involutive.
    + intros i Hi. apply Hxi. now apply in_rev.
    + unfold en, ms_entered, entered_of. apply ssorted_filter, ssorted_set_diff.
      now apply entry_set_ssorted.
    + intros i Hi. unfold en, ms_entered, entered_of in Hi. apply filter_In in Hi. destruct Hi as [Hi _].
      apply In_set_diff in Hi. apply Hi.
    + intros i Hi. unfold en, ms_entered, entered_of in Hi. apply filter_In in Hi. destruct Hi as [Hi _].
      apply In_set_diff in Hi. destruct Hi as [Hi _]. revert i Hi. now apply entry_set_range.
    + congruence.
Qed.

Lemma select_and_step_shape l x ev evt :
  ssorted (l_cfg l) -> in_range c (l_cfg l) ->
  (evt = [] \/ exists n, evt = [TEv n]) ->
  (evt = [] -> l_spont l = true) ->
  forall x0, rep ok x0 x evt ->
  let r := select_and_step v xv c l x ev in
  exists sk, rep ok x0 (snd (fst r)) sk /\ step_shape c l (snd r) (fst (fst r)) evt sk.
Proof.
  intros Hcs Hcr Hevt Hev0 x0 Hx0. cbn zeta. unfold select_and_step. cbn zeta.
  set (l0 := upd_flags l (l_spont l) false).
  destruct (select_loop v c (l_cfg l0) ev (cfg_postfix c (l_cfg l0)) None [] x) as [sel x1] eqn:E.
  assert (Hq : quiet ok x x1).
  { replace x1 with (snd (select_loop v c (l_cfg l0) ev (cfg_postfix c (l_cfg l0)) None [] x)) by (now rewrite E).
    apply select_loop_quiet. }
  assert (Hsel : ssorted sel).
  { replace sel with (fst (select_loop v c (l_cfg l0) ev (cfg_postfix c (l_cfg l0)) None [] x)) by (now rewrite E).
    apply select_loop_ssorted. exact I. }
  destruct sel as [|t r].
  - cbn [fst snd]. exists evt. split; [eapply rep_then_quiet; eassumption|].
    apply shape_nothing_enabled; auto.
  - set (targets := fold_left (fun a ti => set_union a (ft_targets (tr c ti))) (t :: r) []).
    set (exitset := fold_left (fun a ti => set_union a (exit_states_of v c (l_cfg l0) (tr c ti))) (t :: r) []).
    assert (H1 : ssorted targets) by (apply (ssorted_fold_union (fun ti => ft_targets (tr c ti))); exact I).
    assert (H2 : in_range c targets).
    { intros i Hi. apply (In_fold_union (fun ti => ft_targets (tr c ti))) in Hi.
      destruct Hi as [[]|(ti & _ & Hi)]. revert i Hi. now apply range_targets. }
    assert (H3 : ssorted exitset) by (apply (ssorted_fold_union (fun ti => exit_states_of v c (l_cfg l0) (tr c ti))); exact I).
    assert (H4 : forall i, In i exitset -> In i (l_cfg l0)).
    { intros i Hi. apply (In_fold_union (fun ti => exit_states_of v c (l_cfg l0) (tr c ti))) in Hi.
      destruct Hi as [[]|(ti & _ & Hi)]. now apply exit_states_of_incl in Hi. }
    assert (H5 : evt = [] -> l_spont l = true \/ is_pristine l = true) by (intros He; left; now apply Hev0).
    assert (H6 : rep ok x0 x1 evt) by (eapply rep_then_quiet; eassumption).
    assert (Hm := microstep_shape l l0 x1 x0 targets exitset (t :: r) false evt eq_refl Hcs Hcr H1 H2 H3 H4 Hevt H5 eq_refl H6).
    cbn zeta in Hm.
    destruct (microstep v xv c l0 (emit TMsB x1) targets exitset (t :: r) false) as [l1 x2].
    cbn [fst snd] in *.
    destruct Hm as (sk & Hrep & Hshape).
    exists sk. split; [exact Hrep | exact Hshape].
Qed.

Lemma large_step_outer l x :
  large_step v xv c l x =
  outer_step xv c (fun l x => microstep v xv c l (emit TMsB x) (fs_completion (st c 0)) [] [] true)
             (select_and_step v xv c) l x.
Proof. reflexivity. Qed.

Theorem large_step_shape l x :
  ssorted (l_cfg l) -> in_range c (l_cfg l) ->
  ascb (fs_completion (st c 0)) = true ->
  ok = true -> iq_named x ->
  let r := large_step v xv c l x in
  exists sk, reports x (snd (fst r)) sk /\ qeffect c (dequeues l x) x (snd (fst r)) /\
             step_shape c l (snd r) (fst (fst r)) (map TEv (deq_names (dequeues l x))) sk.
Proof.
  intros Hcs Hcr Hroot Hok Hnamed. cbn zeta. rewrite large_step_outer.
  apply outer_step_shape; auto.
  - clear l x Hcs Hcr Hnamed. intros l x Hcs Hcr Epr.
    assert (Hst : l_stable l = false).
    { unfold is_pristine in Epr. apply negb_true_iff in Epr. repeat (apply orb_false_iff in Epr; destruct Epr as [Epr ?]). assumption. }
    assert (H1 : ssorted (fs_completion (st c 0))) by (now apply ascb_ssorted).
    assert (H2 : in_range c (fs_completion (st c 0))) by (now apply range_completion).
    assert (H4 : forall i, In i (@nil nat) -> In i (l_cfg l)) by (intros i []).
    exact (microstep_shape l l x x (fs_completion (st c 0)) [] [] true [] eq_refl Hcs Hcr H1 H2 I H4
                           (or_introl eq_refl) (fun _ => or_intror Epr) Hst (rep_refl ok x)).
  - clear l x Hcs Hcr Hnamed. intros l x ev evt Hcs Hcr Hevt Hev0 x0 Hx0.
    exact (select_and_step_shape l x ev evt Hcs Hcr Hevt Hev0 x0 Hx0).
Qed.

End LargeStep.
