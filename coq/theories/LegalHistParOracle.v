(* LegalHistParOracle.v -- C02 with <history> directly below <parallel>: the headline lemmas (every run of the
   large-engine and of the fast-engine model keeps the configuration legal under wf_histpb), the oracle
   legal_configb against the Prop-level legality, non-vacuity examples computed from flatten, and the witness
   that the new target-set clause (hist_par_ok) cannot be dropped -- with what Appendix D (Spec.v) does on it. *)
From V Require Import Base NameMatch Chart Exec Large Fast LargeLemmas Interp Spec Legal SetLemmas LegalAbstract LegalLarge LegalRun
     WfCore LegalOracle LegalHistBase LegalHistEntry LegalHistStep LegalHistRun LegalHistWf LegalHistOracle
     LegalHistParBase LegalHistParEntry LegalHistParStep LegalHistParRun LegalHistParWf LegalHistParFast LegalHistParFastRun.
Local Open Scope nat_scope.

(* ------------------------------------------------------------------ headline lemmas *)

(* large engine: legal configuration of proper states AND a usable history record after every step of every run *)
Theorem run_legal_history_parallel c xv : wf_histpb c = true -> fs_type (st c 0) = FCompound ->
  forall fuel evs, CfgOKH c (fst (run_loop c lstate (large_step lg_fixed xv c) l_cfg fuel l_pristine x_init evs)).
Proof.
  intros H R fuel evs. apply (run_states_legal_h_p c xv (wf_histpb_sound c H) R). apply pristine_ok_h.
Qed.

Theorem step_legal_history_parallel c xv : wf_histpb c = true -> fs_type (st c 0) = FCompound ->
  forall l x, CfgOKH c l -> CfgOKH c (fst (fst (large_step lg_fixed xv c l x))).
Proof. intros H R. exact (large_step_legal_h_p c xv (wf_histpb_sound c H) R). Qed.

(* fast engine *)
Theorem fast_run_legal_history_parallel c xv : wf_histpb c = true -> fs_type (st c 0) = FCompound ->
  forall fuel evs, CfgOKH c (fst (run_loop c lstate (fast_step xv c) l_cfg fuel l_pristine x_init evs)).
Proof.
  intros H R fuel evs. apply (fast_run_states_legal_h_p c xv (wf_histpb_sound c H) R). apply pristine_ok_h.
Qed.

Theorem fast_step_legal_history_parallel c xv : wf_histpb c = true -> fs_type (st c 0) = FCompound ->
  forall l x, CfgOKH c l -> CfgOKH c (fst (fst (fast_step xv c l x))).
Proof. intros H R. exact (fast_step_legal_h_p c xv (wf_histpb_sound c H) R). Qed.

(* ------------------------------------------------------------------ the oracle *)

Section HPOracle.
Variable c : fchart.
Hypothesis W : WFHP c.

Theorem legal_configb_sound_hp cfg : legal_configb c cfg = true -> LegalCfgH c cfg.
Proof.
  unfold legal_configb. intros H. apply andb_true_iff in H as [H Hall]. apply andb_true_iff in H as [H0 Hnd].
  rewrite forallb_forall in Hall. apply mem_In in H0.
  assert (Hst : forall i, In i cfg -> _) by (intros i Hi; exact (state_ok_parts_h c cfg i (Hall i Hi))).
  split.
  - constructor.
    + exact H0.
    + intros i p Hi Hp. destruct (Hst i Hi) as (_ & _ & P & _). apply P. now apply ppar_par.
    + intros i Hi Hk. destruct (Hst i Hi) as (_ & _ & _ & P & _). specialize (P Hk).
      destruct (filter_len1 _ _ P) as (k & Hin & Hm). exists k. split; [exact Hin | now apply mem_In].
    + intros i k1 k2 Hi Hk H1 H2 Hc1 Hc2. destruct (Hst i Hi) as (_ & _ & _ & P & _). specialize (P Hk).
      assert (Hnd' : NoDup (pch c i)) by (apply NoDup_filter; exact (whp_children_nodup c W i)).
      apply (@filter_le1 c nat (fun ch0 => mem ch0 cfg) (pch c i) Hnd'); auto; try (unfold pch; lia); now apply mem_In.
    + intros i k Hi Hk Hin. destruct (Hst i Hi) as (_ & _ & _ & _ & P). now apply P.
  - intros x Hx. destruct (Hst x Hx) as (P & Q & _). tauto.
Qed.
End HPOracle.

(* ------------------------------------------------------------------ non-vacuity *)
Local Open Scope N_scope.

Definition hnd (k : skind) (s : N) (kids : list tree) (trs : list ttrans) : tree := TNode k s None trs [] [] [] kids.

(* a shallow history directly below the parallel state s1 and a deep history (default transition with two targets)
   directly below the parallel state s8; s1 --e--> h21, s8 --e--> h20; s4 --e2--> s5, s10 --e2--> s11 *)
Definition hpp_tree : tree :=
  hnd KScxml 0
    [hnd KParallel 1
       [hnd KState 2 [hnd KState 4 [] [htr_ 102 (Some [102]) (Some [5]) false]; hnd KState 5 [] []] [];
        hnd KHistShallow 20 [] [htr_ 120 None (Some [2; 3]) false];
        hnd KState 3 [hnd KState 6 [] []; hnd KState 7 [] []] []]
       [htr_ 101 (Some [101]) (Some [21]) false];
     hnd KParallel 8
       [hnd KState 9 [hnd KState 10 [] [htr_ 103 (Some [102]) (Some [11]) false]; hnd KState 11 [] []] [];
        hnd KState 12 [hnd KState 14 [] []; hnd KState 13 [] []] [];
        hnd KHistDeep 21 [] [htr_ 121 None (Some [10; 13]) false]]
       [htr_ 104 (Some [101]) (Some [20]) false]] [].

Example hpp_tree_wf :
  wf_histpb (flatten false hpp_tree) = true /\ fs_type (st (flatten false hpp_tree) 0%nat) = FCompound /\
  wf_histb (flatten false hpp_tree) = false.
Proof. vm_compute. repeat split; reflexivity. Qed.

(* e2; e: s1 is left (h20 records the regions), s8 is entered through h21 by its default s10, s13; e2: s10 -> s11;
   e: s8 is left (h21 records s9, s11, s12, s13), s1 is re-entered through h20: the regions, completed by their
   default children; e: s8 is re-entered through h21: s11 and s13 restored.  Both engines, state ids. *)
Example hpp_tree_run :
  let c := flatten false hpp_tree in
  let sids l := map (fun i => fs_sid (st c i)) (l_cfg l) in
  let runL evs := fst (run_loop c lstate (large_step lg_fixed ex_fixed c) l_cfg 30%nat l_pristine x_init evs) in
  let runF evs := fst (run_loop c lstate (fast_step ex_fixed c) l_cfg 30%nat l_pristine x_init evs) in
  sids (runL [[102]; [101]]) = [0; 8; 9; 10; 12; 13] /\
  sids (runL [[102]; [101]; [102]; [101]]) = [0; 1; 2; 4; 3; 6] /\
  sids (runL [[102]; [101]; [102]; [101]; [101]]) = [0; 8; 9; 11; 12; 13] /\
  sids (runF [[102]; [101]; [102]; [101]]) = [0; 1; 2; 4; 3; 6] /\
  sids (runF [[102]; [101]; [102]; [101]; [101]]) = [0; 8; 9; 11; 12; 13] /\
  legal_configb c (l_cfg (runL [[102]; [101]; [102]; [101]; [101]])) = true /\
  legal_configb c (l_cfg (runF [[102]; [101]; [102]; [101]; [101]])) = true.
Proof. vm_compute. repeat split; reflexivity. Qed.

(* the done-family charts with a history of tools/chart_runs.py (done_family(hist='hd' | 'hs'), not nested, with the
   transition on done.state.s3): parallel s3 with history child 20 and regions s4, s7 *)
Definition done_family_tree (hk : skind) (dflt : list N) : tree :=
  hnd KScxml 0 [hnd KState 2 [hnd KParallel 3 [hnd hk 20 [] [htr_ 120 None (Some dflt) false];
      hnd KState 4 [hnd KState 5 [] [htr_ 101 (Some [101]) (Some [6]) false]; hnd KFinal 6 [] []] [];
      hnd KState 7 [hnd KState 8 [] [htr_ 102 (Some [102]) (Some [9]) false]; hnd KFinal 9 [] []] []]
      [htr_ 103 (Some [100;111;110;101;46;115;116;97;116;101;46;115;51]) (Some [10]) false]; hnd KState 10 [] []] []] [].

Example done_family_hist_wf :
  wf_histpb (flatten false (done_family_tree KHistDeep [5; 8])) = true /\
  wf_histpb (flatten false (done_family_tree KHistShallow [4; 7])) = true /\
  wf_histb (flatten false (done_family_tree KHistDeep [5; 8])) = false /\
  wf_histb (flatten false (done_family_tree KHistShallow [4; 7])) = false.
Proof. vm_compute. repeat split; reflexivity. Qed.

(* the legality notion of run_always_legal (LegalRun.LegalCfg: ALL children of an active parallel state are active)
   is false of every configuration in which a parallel state with a history child is active -- the history
   is never active; the theorems above use the notion over proper children (LegalCfgH), which is what the oracle
   legal_configb checks *)
Theorem all_children_shape_refuted :
  exists t fuel,
    let c := flatten false t in
    let cfg := l_cfg (fst (run_loop c lstate (large_step lg_fixed ex_fixed c) l_cfg fuel l_pristine x_init [])) in
    wf_histpb c = true /\ legal_configb c cfg = true /\ ~ LegalCfg c cfg.
Proof.
  exists (done_family_tree KHistDeep [5; 8]), 3%nat. cbv zeta. split; [vm_compute; reflexivity|]. split; [vm_compute; reflexivity|].
  intros [HL _].
  assert (H2 : In 2%nat (l_cfg (fst (run_loop (flatten false (done_family_tree KHistDeep [5; 8])) lstate
                 (large_step lg_fixed ex_fixed (flatten false (done_family_tree KHistDeep [5; 8]))) l_cfg 3 l_pristine x_init []))))
    by (vm_compute; tauto).
  pose proof (lg_parallel _ _ _ _ HL 2%nat 3%nat H2) as P.
  assert (Hk : fs_type (st (flatten false (done_family_tree KHistDeep [5; 8])) 2%nat) = FParallel) by (vm_compute; reflexivity).
  assert (Hc : In 3%nat (fs_children (st (flatten false (done_family_tree KHistDeep [5; 8])) 2%nat))) by (vm_compute; tauto).
  specialize (P Hk Hc). vm_compute in P. intuition discriminate.
Qed.

(* ------------------------------------------------------------------ the new clause cannot be dropped *)

(* parallel s2{deep h20 (default s4, s7), s3{s4, s5}, s6{s7, s8}}, s2 --e--> s9, s4 --e2--> s5,
   s9 --e--> h20, s9 --e3--> {h20, s4}: the last transition names the history of s2 AND a state below a region of
   s2.  After e2, e, e3 the history restores s5 and the transition enters s4: two children of s3 active. *)
Definition hpw_tree : tree :=
  hnd KScxml 0
    [hnd KParallel 2
       [hnd KState 3 [hnd KState 4 [] [htr_ 102 (Some [102]) (Some [5]) false]; hnd KState 5 [] []] [];
        hnd KState 6 [hnd KState 7 [] []; hnd KState 8 [] []] [];
        hnd KHistDeep 20 [] [htr_ 103 None (Some [4; 7]) false]]
       [htr_ 101 (Some [101]) (Some [9]) false];
     hnd KState 9 [] [htr_ 104 (Some [101]) (Some [20]) false; htr_ 105 (Some [103]) (Some [20; 4]) false]] [].

Definition cfgs_of (l : list tok) : list (list N) := filter_map (fun t => match t with TCfg l => Some l | _ => None end) l.

(* every conjunct of wf_histpb but whpb_target_sets holds; both engine models reach an illegal configuration; and the
   Appendix-D algorithm (Spec.v, run_spec) ends in the same set of states s2, s3, s4, s5, s6, s7 (its
   configuration does not list the <scxml> root): the illegal configuration is what the W3C algorithm prescribes
   for this document, a document problem, not a deviation of the engines *)
Theorem history_of_parallel_target_set_needed_refuted :
  exists t evs fuel,
    let c := flatten false t in
    whpb_target_sets c = false /\
    (wfb_nonempty c && wfb_root c && wfb_parent c && wfb_children c && wfb_anc c && wfb_interval c &&
     wfb_root_type c && wfb_src c && wfb_targets c && whpb_pseudo_parent c && whb_pseudo_leaf c && whpb_completion c &&
     whb_initial c && whb_hist_default c && whb_hist_cpl c && whb_hist_disjoint c && whpb_par_hist c)%bool = true /\
    legal_configb c (l_cfg (fst (run_loop c lstate (large_step lg_fixed ex_fixed c) l_cfg fuel l_pristine x_init evs))) = false /\
    legal_configb c (l_cfg (fst (run_loop c lstate (fast_step ex_fixed c) l_cfg fuel l_pristine x_init evs))) = false /\
    last (cfgs_of (fst (run_large lg_fixed ex_fixed false t evs fuel))) [] = [0; 2; 3; 4; 5; 6; 7] /\
    last (cfgs_of (fst (run_fast ex_fixed false t evs fuel))) [] = [0; 2; 3; 4; 5; 6; 7] /\
    last (cfgs_of (fst (run_spec false t evs fuel))) [] = [2; 3; 4; 5; 6; 7].
Proof. exists hpw_tree, [[102]; [101]; [103]], 40%nat. vm_compute. repeat split; reflexivity. Qed.

(* the same document without the offending transition's second target is inside wf_histpb: ordinary use of the
   history of a parallel state *)
Example hpw_tree_ordinary_use :
  let c := flatten false hpw_tree in
  legal_configb c (l_cfg (fst (run_loop c lstate (large_step lg_fixed ex_fixed c) l_cfg 40%nat l_pristine x_init [[102]; [101]; [101]]))) = true /\
  last (cfgs_of (fst (run_large lg_fixed ex_fixed false hpw_tree [[102]; [101]; [101]] 40))) [] = [0; 2; 3; 5; 6; 7].
Proof. vm_compute. split; reflexivity. Qed.
