(* FlattenWfStruct.v -- the clauses of WfCore.wf_coreb that hold for the flat tables of EVERY document
   (any kinds, any ids): wfb_nonempty, wfb_root, wfb_parent, wfb_children, wfb_anc, wfb_interval,
   wfb_src.  Proofs only; built on TreeLemmas.tree_interval_flatten. *)
From V Require Import Base Chart Tables TreeLemmas LargeCacheLemmas WfCore FlattenWf FlattenWfTree.
Local Open Scope nat_scope.

Lemma fseq (f : nat -> bool) m : forallb f (seq 0 m) = true <-> forall i, i < m -> f i = true.
Proof.
  rewrite forallb_forall. split; intros Hf i Hi.
  - apply Hf. apply in_seq. lia.
  - apply in_seq in Hi. apply Hf. lia.
Qed.

Lemma ssorted_ext : forall a b, ssorted a -> ssorted b -> (forall x, In x a <-> In x b) -> a = b.
Proof.
  induction a as [|x a IH]; intros [|y b] Ha Hb He.
  - reflexivity.
  - exfalso. apply (proj2 (He y)). now left.
  - exfalso. apply (proj1 (He x)). now left.
  - cbn [ssorted] in Ha, Hb. destruct Ha as [Ha1 Ha2], Hb as [Hb1 Hb2].
    assert (x = y).
    { destruct (proj1 (He x) (or_introl eq_refl)) as [E|Hx]; [now symmetry|].
      destruct (proj2 (He y) (or_introl eq_refl)) as [E|Hy]; [exact E|].
      specialize (Ha1 y Hy). specialize (Hb1 x Hx). lia. }
    subst y. f_equal. apply IH; [exact Ha2 | exact Hb2|].
    intros z. split; intros Hz.
    + destruct (proj1 (He z) (or_intror Hz)) as [E|Hz']; [|exact Hz']. subst z. specialize (Ha1 x Hz). lia.
    + destruct (proj2 (He z) (or_intror Hz)) as [E|Hz']; [|exact Hz']. subst z. specialize (Hb1 x Hz). lia.
Qed.

Lemma ssorted_seq : forall m s, ssorted (seq s m).
Proof.
  induction m as [|m IH]; intros s; cbn [seq ssorted]; [exact I|]. split; [|apply IH].
  intros y Hy. apply in_seq in Hy. lia.
Qed.

Lemma child_indices_ssorted : forall kids s,
  ssorted (child_indices kids s) /\ forall b, In b (child_indices kids s) -> s <= b.
Proof.
  induction kids as [|x r IH]; intros s; cbn [child_indices ssorted]; [split; [exact I | intros ? []]|].
  destruct (IH (s + tsize x)) as [I1 I2]. pose proof (tsize_pos x). split; [split; [|exact I1]|].
  - intros y Hy. specialize (I2 y Hy). lia.
  - intros b [<-|Hb]; [lia | specialize (I2 b Hb); lia].
Qed.

Lemma index_where_range {A} (f : A -> bool) : forall l b k, In k (index_where f l b) -> b <= k < b + length l.
Proof.
  induction l as [|x r IH]; intros b k Hk; cbn [index_where] in Hk; [destruct Hk|].
  cbn [length]. destruct (f x).
  - destruct Hk as [<-|Hk]; [lia | specialize (IH _ _ Hk); lia].
  - specialize (IH _ _ Hk). lia.
Qed.

Section Any.
Variable late : bool.
Variable t0 : tree.
Let root := resort t0.
Let c := flatten late t0.
Let n := tsize root.
Let nodes := nodes_of root.

Lemma fl_nstates : nstates c = n.
Proof. apply flatten_nstates. Qed.

Lemma fl_nonempty : wfb_nonempty c = true.
Proof. unfold wfb_nonempty. rewrite fl_nstates. apply Nat.ltb_lt. apply tsize_pos. Qed.

Lemma fl_root : wfb_root c = true.
Proof.
  destruct (tree_interval_flatten late t0) as (_ & _ & _ & _ & H & _).
  unfold wfb_root. pose proof (tsize_pos root). fold root c in H. rewrite (proj2 (H 0 ltac:(fold n; unfold n; lia)) eq_refl).
  reflexivity.
Qed.

Lemma fl_parent : wfb_parent c = true.
Proof.
  destruct (tree_interval_flatten late t0) as (_ & _ & _ & Hp & H0 & _). fold root c in Hp, H0.
  unfold wfb_parent. rewrite fl_nstates. apply fseq. intros i Hi.
  destruct (fs_parent (st c i)) as [p|] eqn:E.
  - apply Nat.ltb_lt. now apply (Hp p i Hi E).
  - apply Nat.eqb_eq. now apply (H0 i Hi).
Qed.

Lemma fl_children : wfb_children c = true.
Proof.
  destruct (tree_interval_flatten late t0) as (_ & _ & _ & _ & _ & Hc & _). fold root c in Hc.
  unfold wfb_children. rewrite fl_nstates. apply fseq. intros p Hp. apply list_eqb_eq.
  apply ssorted_ext.
  - destruct (st_flatten late t0 p Hp) as (_ & E & _). fold c in E. rewrite E. apply child_indices_ssorted.
  - apply ssorted_filter, ssorted_seq.
  - intros b. rewrite (Hc p b Hp), filter_In, in_seq. unfold opt_eqb. fold n. split.
    + intros [Hb E]. rewrite E. split; [lia | apply Nat.eqb_refl].
    + intros [Hb E]. split; [lia|]. destruct (fs_parent (st c b)) as [q|]; [|discriminate].
      apply Nat.eqb_eq in E. now subst.
Qed.

Lemma snd_nodes_parent i : i < n -> snd (nth i nodes (root, None)) = fs_parent (st c i).
Proof.
  intros Hi. destruct (st_flatten late t0 i Hi) as (E & _). fold c root in E. rewrite E.
  rewrite <- (npar_nodes root i Hi). unfold npar, nd. fold nodes.
  rewrite (nth_indep nodes (root, None) (dummy_tree, None)); [reflexivity|].
  unfold nodes. rewrite nodes_length. exact Hi.
Qed.

Lemma ancestors_fuel : forall f i, i < f -> ancestors_of f nodes root i = ancestors_of (S f) nodes root i.
Proof.
  destruct (tree_interval_flatten late t0) as (_ & _ & _ & Hp & _). fold root c in Hp.
  induction f as [|f IH]; intros i Hi; [lia|].
  destruct (Nat.lt_ge_cases i n) as [Hin|Hin].
  - change (ancestors_of (S (S f)) nodes root i)
      with (match snd (nth i nodes (root, None)) with
            | Some p => insert_sorted p (ancestors_of (S f) nodes root p) | None => [] end).
    change (ancestors_of (S f) nodes root i)
      with (match snd (nth i nodes (root, None)) with
            | Some p => insert_sorted p (ancestors_of f nodes root p) | None => [] end).
    rewrite (snd_nodes_parent i Hin). destruct (fs_parent (st c i)) as [p|] eqn:E; [|reflexivity].
    pose proof (Hp p i Hin E). rewrite (IH p) by lia. reflexivity.
  - assert (E : snd (nth i nodes (root, None)) = None).
    { rewrite nth_overflow; [reflexivity|]. unfold nodes. rewrite nodes_length. exact Hin. }
    cbn [ancestors_of]. rewrite E. reflexivity.
Qed.

Lemma fl_anc : wfb_anc c = true.
Proof.
  destruct (tree_interval_flatten late t0) as (_ & _ & _ & Hp & _). fold root c in Hp.
  unfold wfb_anc. rewrite fl_nstates. apply fseq. intros i Hi. apply list_eqb_eq.
  destruct (st_flatten late t0 i Hi) as (_ & _ & E & _). fold c root n nodes in E. rewrite E.
  pose proof (tsize_pos root) as Hpos. fold n in Hpos. destruct n as [|m] eqn:En; [lia|].
  change (ancestors_of (S m) nodes root i)
    with (match snd (nth i nodes (root, None)) with
          | Some p => insert_sorted p (ancestors_of m nodes root p) | None => [] end).
  rewrite (snd_nodes_parent i) by (rewrite En; exact Hi).
  destruct (fs_parent (st c i)) as [p|] eqn:Ep; [|reflexivity].
  assert (Hpi : p < i) by (apply (Hp p i); [fold n; rewrite En; exact Hi | exact Ep]).
  destruct (st_flatten late t0 p) as (_ & _ & E2 & _); [fold root n; lia|]. fold c root n nodes in E2.
  rewrite E2, En. rewrite <- (ancestors_fuel m p) by lia. reflexivity.
Qed.

Lemma fl_interval : wfb_interval c = true.
Proof.
  destruct (tree_interval_flatten late t0) as (_ & _ & Ha & _). fold root c in Ha.
  unfold wfb_interval. rewrite fl_nstates. apply fseq. intros a Hna. apply fseq. intros i Hi.
  specialize (Ha a i Hna Hi). apply eqb_true_iff. apply eq_true_iff_eq. rewrite Ha, andb_true_iff, !Nat.ltb_lt.
  reflexivity.
Qed.

(* the flat transition with number ti *)
Definition dtr : nat * ttrans * skind :=
  (0, {| tt_vid := 0%N; tt_event := None; tt_cond := None; tt_targets := None; tt_internal := false; tt_body := [] |}, KState).

Definition trs := all_trans (doc_nodes root 0 None) root.

Lemma fl_ntrans : ntrans c = length trs.
Proof. unfold ntrans, c, flatten. cbn [fc_trans]. now rewrite map_length. Qed.

(* the id table of LargeMicroStep::init: (id, number) in document order *)
Definition fl_ids : list (N * nat) :=
  map (fun p : tree * option nat * nat => (t_sid (fst (fst p)), snd p))
      (combine (doc_nodes root 0 None) (seq 0 (length (doc_nodes root 0 None)))).

Lemma fl_tr ti : ti < length trs ->
  tr c ti = mk_trans fl_ids (fst (fst (nth ti trs dtr))) (snd (nth ti trs dtr)) (snd (fst (nth ti trs dtr))).
Proof.
  intros Hti. unfold tr, c, flatten. cbn [fc_trans]. fold root. fold trs. fold fl_ids.
  rewrite (nth_indep _ dummy_trans ((fun x => mk_trans fl_ids (fst (fst x)) (snd x) (snd (fst x))) dtr)) by (now rewrite map_length).
  exact (map_nth (fun x : nat * ttrans * skind => mk_trans fl_ids (fst (fst x)) (snd x) (snd (fst x))) trs dtr ti).
Qed.

Lemma fl_src : wfb_src c = true.
Proof.
  unfold wfb_src. rewrite fl_nstates. apply fseq. intros s Hs. apply forallb_forall. intros ti Hti.
  unfold c in Hti. rewrite fs_trans_flatten in Hti by (fold c; rewrite fl_nstates; exact Hs). fold root trs in Hti.
  pose proof (index_where_range _ _ _ _ Hti) as Hr.
  destruct (index_where_spec (fun x : nat * ttrans * skind => fst (fst x) =? s) dtr trs 0) as [_ Hsp].
  destruct (Hsp ti Hti) as [_ Hf]. rewrite Nat.sub_0_r in Hf.
  rewrite (fl_tr ti) by lia. cbn [ft_source mk_trans]. exact Hf.
Qed.

Lemma nth_nodes_ntree i : i < n -> nth i (doc_nodes root 0 None) (root, None) = (ntree nodes i, npar nodes i).
Proof.
  intros Hi. unfold ntree, npar, nd, nodes, nodes_of.
  rewrite (nth_indep _ (root, None) (dummy_tree, None)) by (rewrite doc_nodes_length; exact Hi).
  now destruct (nth i (doc_nodes root 0 None) (dummy_tree, None)).
Qed.

Lemma fl_completion i : i < n ->
  fs_completion (st c i) =
  completion_of (doc_nodes root 0 None) fl_ids i (ntree nodes i) (npar nodes i)
                (child_indices (t_kids (ntree nodes i)) (S i)).
Proof.
  intros Hi. unfold st, c, flatten. cbn [fc_states]. fold root. fold fl_ids.
  set (nodes0 := doc_nodes root 0 None) in *.
  assert (Hlen : length nodes0 = n) by apply doc_nodes_length.
  set (g := fun p : tree * option nat * nat => let '(t1, parent, i1) := p in _).
  rewrite (nth_indep _ dummy_state (g ((root, None), 0)))
    by (rewrite map_length, combine_length, seq_length, Nat.min_id, Hlen; exact Hi).
  rewrite map_nth, combine_nth by (now rewrite seq_length).
  rewrite seq_nth by (rewrite Hlen; exact Hi). cbn [plus].
  unfold nodes0. rewrite (nth_nodes_ntree i Hi). reflexivity.
Qed.

Lemma fl_ids_sids : fl_ids = combine (sids root) (seq 0 n).
Proof.
  unfold fl_ids, sids. rewrite <- (doc_nodes_subtrees root 0 None), doc_nodes_length. fold n.
  generalize (seq 0 n). induction (doc_nodes root 0 None) as [|x r IH]; intros [|y l]; cbn; try reflexivity.
  now rewrite IH.
Qed.

Lemma sids_nth i : i < n -> nth i (sids root) 0%N = t_sid (ntree nodes i).
Proof.
  intros Hi. unfold nodes. rewrite (ntree_nth root i Hi). unfold sids.
  change 0%N with (t_sid dummy_tree). now rewrite map_nth.
Qed.

(* every flat transition comes from a <transition> child of the element numbered by its source *)
Lemma trs_in ti : ti < length trs ->
  fst (fst (nth ti trs dtr)) < n /\ In (snd (fst (nth ti trs dtr))) (t_trans (ntree nodes (fst (fst (nth ti trs dtr))))).
Proof.
  intros Hti. pose proof (nth_In trs dtr Hti) as Hin. unfold trs at 2 in Hin. unfold all_trans in Hin.
  apply in_flat_map in Hin. destruct Hin as (i & Hi & Hx). apply postfix_states_lt in Hi. fold n in Hi.
  rewrite (nth_nodes_ntree i Hi) in Hx. cbn [fst] in Hx. apply in_map_iff in Hx. destruct Hx as (x & E & Hx).
  rewrite <- E. cbn [fst snd]. split; [exact Hi | exact Hx].
Qed.

End Any.

(* ------------------------------------------------------------------ the id table: first occurrence *)

Lemma find_combine_seq (s : N) : forall l b,
  match find (fun p : N * nat => (fst p =? s)%N) (combine l (seq b (length l))) with
  | Some p => fst p = s /\ b <= snd p < b + length l /\ nth (snd p - b) l 0%N = s /\
              (forall j, j < snd p - b -> nth j l 0%N <> s)
  | None => ~ In s l
  end.
Proof.
  induction l as [|x r IH]; intros b; cbn [length seq combine find]; [tauto|].
  cbn [fst]. destruct (x =? s)%N eqn:E.
  - apply N.eqb_eq in E. cbn [fst snd length]. rewrite Nat.sub_diag. cbn [nth].
    repeat split; try lia; try exact E.
  - apply N.eqb_neq in E. specialize (IH (S b)).
    destruct (find (fun p : N * nat => (fst p =? s)%N) (combine r (seq (S b) (length r)))) as [p|].
    + destruct IH as (I1 & I2 & I3 & I4). cbn [length].
      replace (snd p - b) with (S (snd p - S b)) by lia. cbn [nth]. repeat split; try lia; try assumption.
      intros [|j] Hj; cbn [nth]; [exact E | apply I4; lia].
    + intros [H|H]; [contradiction | exact (IH H)].
Qed.
