(* ResetRace.v -- C10: InterpreterImpl::reset() racing the timer thread, as a small-step transition
   system.  Model only (no proofs; those are in ResetRaceLemmas.v).

   Code modelled (src/uscxml/interpreter):
     InterpreterImpl::reset            the three calls _delayQueue.reset() / _externalQueue.reset() /
                                       _internalQueue.reset() as sub-steps whose ORDER is a parameter
                                       (regenerated from the source: gen/GenResetOrder.v)
     BasicDelayedEventQueue::reset     = lock _mutex; cancelAllDelayed(); (the inherited FIFO is never used)
     BasicDelayedEventQueue::cancelAllDelayed   event_del + event_free + erase of every entry of _callbackData
     BasicEventQueue::reset            = lock _mutex; _queue.clear()
     BasicDelayedEventQueue::timerCallback     critical section 1 under _mutex: entry still there? take the
                                       event out of _callbackData (erase), release; then eventReady
     InterpreterImpl::eventReady       under _delayMutex: uuid still in _delayedEventTargets? erase it, dispatch:
                                       deliverable -> enqueue into the external queue; undeliverable ->
                                       error event into the INTERNAL queue, then an empty event into the
                                       external queue (to wake a blocked step())
   Threads: the thread that calls reset() (and, after reset() returned, step()), and the timer thread
   (libevent's loop thread).  Time is abstracted: a pending timer may become due at any moment.

   The unit of interleaving is a critical section of one of the mutexes (queue _mutex of each of the
   three queues, _delayMutex); the schedule points of the code that delimit them:
     timer thread     CbIdle                        libevent waits
                      CbEntered u  = delay.callback.enter     (libevent: current_event = the timer of u)
                      CbTaken u    = delay.callback.unlocked  (u is out of _callbackData; a copy is in flight)
                      CbErrQueued u  inside eventReady's catch, holding _delayMutex: the error event is in the
                                   internal queue, the unblock event not yet in the external queue
     resetting thread delay.reset.enter / queue.reset.enter before each sub-step

   What the code does when reset() meets a running callback (decided from the source, confirmed by replay
   on the implementation, see tools/props/c10.py section "reset race"):
     - callback at CbEntered u, u still in the map: cancelAllDelayed holds _mutex and calls event_del, which
       waits for the running callback, which waits for _mutex: nobody moves again ([r_blocked]; this is the
       known finding C09-deadlock, Delay.v has the detailed protocol);
     - callback at CbTaken u (or CbErrQueued): the entry is gone, _delayQueue.reset() has nothing to cancel
       and RETURNS; the callback goes on to eventReady, finds u in _delayedEventTargets (reset() does not
       touch that map) and delivers -- after the queues were emptied if the scheduler wants it so.
       [r_raced] records that this happened.  Variant [rv_locks_targets] is the repair
       (patches/C10-reset-inflight-callback.diff): reset() takes _delayMutex, clears _delayedEventTargets
       and cancels the timers inside that scope. *)
From V Require Import Base GenResetOrder.
Local Open Scope N_scope.

(* what eventReady's dispatch does with the event of a timer: recorded with the uuid in _delayedEventTargets
   as (type, target) *)
Inductive tkind := KDeliver | KError.

Inductive ev :=
| EvOther (n : N)          (* an event received or raised before the reset *)
| EvTimer (u : N)          (* the event of delayed send u *)
| EvError (u : N)          (* error.communication / error.execution for the undeliverable delayed send u *)
| EvUnblock.               (* Event() *)

Inductive cb_t := CbIdle | CbEntered (u : N) | CbTaken (u : N) | CbErrQueued (u : N).

Record rr_variant := { rv_locks_targets : bool }.
Definition rv_code  := {| rv_locks_targets := false |}.   (* the code as it is *)
Definition rv_fixed := {| rv_locks_targets := true |}.
Definition rv_gen   := {| rv_locks_targets := reset_locks_targets |}.   (* what the translator found *)

Record rstate := {
  r_ext : list ev;                 (* _externalQueue *)
  r_int : list ev;                 (* _internalQueue *)
  r_pend : list N;                 (* keys of BasicDelayedEventQueue::_callbackData: armed timers *)
  r_targets : list (N * tkind);    (* InterpreterImpl::_delayedEventTargets *)
  r_cb : cb_t;                     (* the timer thread *)
  r_todo : list reset_part;        (* what reset() still has to do; [] = reset() has returned *)
  r_locked : bool;                 (* reset() holds _delayMutex (repaired variant only) *)
  r_blocked : bool;                (* event_del waits for the callback that waits for _mutex *)
  r_raced : bool;                  (* history: the timers were cancelled while a callback was past its section 1 *)
  r_processed : list ev            (* history: events dequeued by step() after reset() returned, oldest first *)
}.

(* ---- small helpers ---- *)
Definition mem (u : N) (l : list N) : bool := existsb (N.eqb u) l.
Definition remove (u : N) (l : list N) : list N := filter (fun x => negb (x =? u)) l.
Fixpoint lookup (m : list (N * tkind)) (u : N) : option tkind :=
  match m with
  | [] => None
  | (k, v) :: r => if k =? u then Some v else lookup r u
  end.
Definition erase (u : N) (m : list (N * tkind)) : list (N * tkind) := filter (fun kv => negb (fst kv =? u)) m.

Definition part_eqb (a b : reset_part) : bool :=
  match a, b with
  | ResetDelay, ResetDelay | ResetExternal, ResetExternal | ResetInternal, ResetInternal => true
  | _, _ => false
  end.
Definition has_part (p : reset_part) (l : list reset_part) : bool := existsb (part_eqb p) l.

(* the criterion: somewhere in the order the timers are cancelled, and AFTER that both queues are emptied *)
Fixpoint delay_firstb (o : list reset_part) : bool :=
  match o with
  | [] => false
  | p :: r => (part_eqb p ResetDelay && has_part ResetExternal r && has_part ResetInternal r) || delay_firstb r
  end.

(* a callback that has its event in its hands *)
Definition inflight (c : cb_t) : bool :=
  match c with CbTaken _ | CbErrQueued _ => true | _ => false end.

(* ---- setters ---- *)
Definition set_cb (s : rstate) (c : cb_t) : rstate :=
  {| r_ext := r_ext s; r_int := r_int s; r_pend := r_pend s; r_targets := r_targets s; r_cb := c;
     r_todo := r_todo s; r_locked := r_locked s; r_blocked := r_blocked s; r_raced := r_raced s;
     r_processed := r_processed s |}.

(* ---- the actions ---- *)
Inductive act :=
| AFire (u : N)      (* libevent: the timer of u is due, its callback starts *)
| ATimer             (* the timer thread's next critical section *)
| AReset             (* the resetting thread's next sub-step *)
| AStep.             (* after reset() returned: step() dequeues one event, internal queue first *)

(* BasicDelayedEventQueue::reset -> cancelAllDelayed, entered with the queue's _mutex *)
Definition cancel_all (s : rstate) (rest : list reset_part) : rstate :=
  match r_cb s with
  | CbEntered u =>
      if mem u (r_pend s)
      then (* event_del(u) waits for the callback, the callback waits for _mutex *)
           {| r_ext := r_ext s; r_int := r_int s; r_pend := r_pend s; r_targets := r_targets s; r_cb := r_cb s;
              r_todo := r_todo s; r_locked := r_locked s; r_blocked := true; r_raced := r_raced s;
              r_processed := r_processed s |}
      else {| r_ext := r_ext s; r_int := r_int s; r_pend := []; r_targets := r_targets s; r_cb := r_cb s;
              r_todo := rest; r_locked := false; r_blocked := false; r_raced := r_raced s;
              r_processed := r_processed s |}
  | c => {| r_ext := r_ext s; r_int := r_int s; r_pend := []; r_targets := r_targets s; r_cb := c;
            r_todo := rest; r_locked := false; r_blocked := false; r_raced := r_raced s || inflight c;
            r_processed := r_processed s |}
  end.

Definition reset_step (v : rr_variant) (s : rstate) : rstate :=
  match r_todo s with
  | [] => s                                            (* reset() has returned *)
  | ResetDelay :: rest =>
      if rv_locks_targets v && negb (r_locked s) then
        (* std::lock_guard lock(_delayMutex): eventReady holds it from its entry to its return *)
        match r_cb s with
        | CbErrQueued _ => s                           (* wait *)
        | _ => {| r_ext := r_ext s; r_int := r_int s; r_pend := r_pend s; r_targets := []; r_cb := r_cb s;
                  r_todo := r_todo s; r_locked := true; r_blocked := false; r_raced := r_raced s;
                  r_processed := r_processed s |}
        end
      else cancel_all s rest
  | ResetExternal :: rest =>
      {| r_ext := []; r_int := r_int s; r_pend := r_pend s; r_targets := r_targets s; r_cb := r_cb s;
         r_todo := rest; r_locked := r_locked s; r_blocked := false; r_raced := r_raced s;
         r_processed := r_processed s |}
  | ResetInternal :: rest =>
      {| r_ext := r_ext s; r_int := []; r_pend := r_pend s; r_targets := r_targets s; r_cb := r_cb s;
         r_todo := rest; r_locked := r_locked s; r_blocked := false; r_raced := r_raced s;
         r_processed := r_processed s |}
  end.

Definition timer_step (s : rstate) : rstate :=
  match r_cb s with
  | CbIdle => s
  | CbEntered u =>
      (* critical section 1 of timerCallback *)
      if mem u (r_pend s)
      then {| r_ext := r_ext s; r_int := r_int s; r_pend := remove u (r_pend s); r_targets := r_targets s;
              r_cb := CbTaken u; r_todo := r_todo s; r_locked := r_locked s; r_blocked := false;
              r_raced := r_raced s; r_processed := r_processed s |}
      else set_cb s CbIdle                             (* find == end: return *)
  | CbTaken u =>
      (* eventReady: needs _delayMutex *)
      if r_locked s then s
      else match lookup (r_targets s) u with
           | None => set_cb s CbIdle                   (* cancelled in the window: not delivered *)
           | Some KDeliver =>
               {| r_ext := r_ext s ++ [EvTimer u]; r_int := r_int s; r_pend := r_pend s;
                  r_targets := erase u (r_targets s); r_cb := CbIdle; r_todo := r_todo s; r_locked := false;
                  r_blocked := false; r_raced := r_raced s; r_processed := r_processed s |}
           | Some KError =>
               {| r_ext := r_ext s; r_int := r_int s ++ [EvError u]; r_pend := r_pend s;
                  r_targets := erase u (r_targets s); r_cb := CbErrQueued u; r_todo := r_todo s; r_locked := false;
                  r_blocked := false; r_raced := r_raced s; r_processed := r_processed s |}
           end
  | CbErrQueued u =>
      {| r_ext := r_ext s ++ [EvUnblock]; r_int := r_int s; r_pend := r_pend s; r_targets := r_targets s;
         r_cb := CbIdle; r_todo := r_todo s; r_locked := r_locked s; r_blocked := false; r_raced := r_raced s;
         r_processed := r_processed s |}
  end.

Definition fire_step (s : rstate) (u : N) : rstate :=
  match r_cb s with
  | CbIdle => if mem u (r_pend s) then set_cb s (CbEntered u) else s
  | _ => s                                             (* one loop thread: callbacks do not nest *)
  end.

Definition interp_step (s : rstate) : rstate :=
  match r_todo s with
  | _ :: _ => s                                        (* step() is not called while reset() is under way *)
  | [] =>
      match r_int s with
      | e :: r => {| r_ext := r_ext s; r_int := r; r_pend := r_pend s; r_targets := r_targets s; r_cb := r_cb s;
                     r_todo := []; r_locked := r_locked s; r_blocked := r_blocked s; r_raced := r_raced s;
                     r_processed := r_processed s ++ [e] |}
      | [] =>
          match r_ext s with
          | e :: r => {| r_ext := r; r_int := []; r_pend := r_pend s; r_targets := r_targets s; r_cb := r_cb s;
                         r_todo := []; r_locked := r_locked s; r_blocked := r_blocked s; r_raced := r_raced s;
                         r_processed := r_processed s ++ [e] |}
          | [] => s
          end
      end
  end.

(* an action that is not enabled leaves the state as it is (the schedule is any list of actions) *)
Definition rr_step (v : rr_variant) (s : rstate) (a : act) : rstate :=
  if r_blocked s then s
  else match a with
       | AFire u => fire_step s u
       | ATimer => timer_step s
       | AReset => reset_step v s
       | AStep => interp_step s
       end.

Definition rr_run (v : rr_variant) (s : rstate) (sched : list act) : rstate := fold_left (rr_step v) sched s.

(* ---- the state in which reset() is called: anything may be queued, pending, in flight ---- *)
Definition rr_at_call (order : list reset_part) (ext int : list ev) (pend : list N) (targets : list (N * tkind))
           (cb : cb_t) : rstate :=
  {| r_ext := ext; r_int := int; r_pend := pend; r_targets := targets; r_cb := cb; r_todo := order;
     r_locked := false; r_blocked := false; r_raced := false; r_processed := [] |}.

(* a freshly created (and initialised) interpreter, as far as this model sees it *)
Definition rr_fresh : rstate := rr_at_call [] [] [] [] [] CbIdle.

(* what the property looks at *)
Definition returned (s : rstate) : bool := match r_todo s with [] => true | _ => false end.

Definition cb_quietb (s : rstate) : bool :=
  match r_cb s with
  | CbIdle | CbEntered _ => true
  | CbTaken u => match lookup (r_targets s) u with None => true | Some _ => false end
  | CbErrQueued _ => false
  end.

Definition nothing_leftb (s : rstate) : bool :=
  match r_ext s, r_int s, r_pend s with [], [], [] => cb_quietb s | _, _, _ => false end.

(* the observable core: queues, timers, and what was processed *)
Definition rr_core (s : rstate) : list ev * list ev * list N * list ev :=
  (r_ext s, r_int s, r_pend s, r_processed s).

(* outcome classes for the replay (extract/resetrace) *)
Inductive rr_outcome := OClean | OStale | OBlocked | ONotReturned.
Definition rr_classify (s : rstate) : rr_outcome :=
  if r_blocked s then OBlocked
  else if negb (returned s) then ONotReturned
  else match r_ext s, r_int s, r_pend s, r_processed s with
       | [], [], [], [] => if cb_quietb s then OClean else OStale
       | _, _, _, _ => OStale
       end.
