(* Pml.v -- C17: model of PromelaDataModel (src/uscxml/plugins/datamodel/promela/PromelaDataModel.cpp):
   evaluateExpr / evaluateStmnt / evaluateDecl / setVariable / getVariable over the variable store
   `_variables`, and the reference semantics [c_eval] / [c_exec_*] (Promela = C `int` arithmetic, a store
   that reads back what was written).  Model only; lemmas are in PmlLemmas.v.

   C `int` semantics, stated explicitly:
   * `int` is 32-bit two's complement, [int_min, int_max]; `+ - *` and unary minus wrap modulo 2^32
     (signed overflow is undefined in C; the compiled code and spin both wrap);
   * `/` truncates towards zero ([Z.quot]), `%` has the sign of the dividend ([Z.rem]); a zero divisor
     and int_min / -1 (int_min % -1) fault (x86 `idiv` raises SIGFPE);
   * `<<` `>>`: for a count in [0,31] `a << b` is wrap(a * 2^b) and `a >> b` is the arithmetic shift; for
     other counts C leaves the result undefined -- the reference says [CUnspec] (any value, no crash), the
     compiled code masks the count to 5 bits (x86 shl/sar);
   * comparisons and `!` yield 0 or 1; `&&` `||` yield 0 or 1 and do not evaluate the right operand when
     the left one decides (spin's run.c and C alike).

   Outcomes are never totalised: [Ok v | ErrEvent | Crash why] (why = 8: SIGFPE, 11: SIGSEGV,
   1: unbounded allocation until std::bad_alloc). *)
From V Require Import Base PmlParse.
Local Open Scope Z_scope.

Inductive outcome (A : Type) : Type :=
| Ok (a : A)
| ErrEvent               (* uscxml::ErrorEvent error.execution thrown *)
| Crash (why : N).
Arguments Ok {A} a.
Arguments ErrEvent {A}.
Arguments Crash {A} why.

Definition bind {A B : Type} (x : outcome A) (f : A -> outcome B) : outcome B :=
  match x with Ok a => f a | ErrEvent => ErrEvent | Crash w => Crash w end.

Definition crash_fpe : N := 8%N.
Definition crash_segv : N := 11%N.
Definition crash_alloc : N := 1%N.

(* ---- points at which the pinned code deviates; the repaired code has every switch off.  The run-time
   check determines the vector of the implementation from witness inputs. ---- *)
Record pml_variant := {
  pv_handles : binop -> bool;     (* `case PML_x:` present in evaluateExpr (GenPmlEval.v) *)
  pv_uminus_crash : bool;         (* MINUS node with one operand: the second deref of opIter++ reads end() *)
  pv_div_unguarded : bool;        (* `/` `%` executed without looking at the divisor *)
  pv_index_unguarded : bool;      (* only `size <= index` is tested: negative indices and arrays shorter
                                     than their declared size reach Data::operator[](size_t) *)
  pv_no_short_circuit : bool;     (* `&&` `||` evaluate both operands before looking at the first *)
  pv_field_meta_clobber : bool;   (* setVariable(CMPND) stores "type"/"vis" keys among the fields *)
  pv_undeclared_false : bool;     (* getVariable(NAME) of an undeclared name yields "false", no error *)
  pv_ord_rtl : bool               (* f( *it++ ) op f( *it++ ): right call evaluated first (unsequenced) *)
}.

Definition handles_pinned (o : binop) : bool :=
  match o with
  | PML_NE | PML_BITAND | PML_BITOR | PML_BITXOR => false
  | _ => true
  end.
(* the property's operator set: everything but the bit operators *)
Definition in_scope (o : binop) : bool :=
  match o with PML_BITAND | PML_BITOR | PML_BITXOR => false | _ => true end.

Definition pml_pinned : pml_variant :=
  {| pv_handles := handles_pinned; pv_uminus_crash := true; pv_div_unguarded := true;
     pv_index_unguarded := true; pv_no_short_circuit := true; pv_field_meta_clobber := true;
     pv_undeclared_false := true; pv_ord_rtl := false |}.
Definition pml_fixed : pml_variant :=
  {| pv_handles := in_scope; pv_uminus_crash := false; pv_div_unguarded := false;
     pv_index_unguarded := false; pv_no_short_circuit := false; pv_field_meta_clobber := false;
     pv_undeclared_false := false; pv_ord_rtl := false |}.

(* ---- C int ---- *)
Definition int_min : Z := -2147483648.
Definition int_max : Z := 2147483647.
Definition in_int (z : Z) : bool := (int_min <=? z) && (z <=? int_max).
Definition wrap (z : Z) : Z := (z + 2147483648) mod 4294967296 - 2147483648.
Definition b2z (b : bool) : Z := if b then 1 else 0.

(* ---- uscxml::Data as far as the datamodel produces it ---- *)
Inductive atom :=
| AInt (z : Z)      (* INTERPRETED, the decimal numeral of z (Data(int), Data(bool), Data(long)) *)
| AFalse            (* INTERPRETED "false": what an undeclared name evaluates to *)
| AEmptyI           (* INTERPRETED "": Data() *)
| AEmptyV           (* VERBATIM "" *)
| ACompound.        (* VERBATIM "compound" *)

Inductive data := Data (a : atom) (arr : list data) (cmp : list (bytes * data)).

Definition d_atom (d : data) : atom := match d with Data a _ _ => a end.
Definition d_arr (d : data) : list data := match d with Data _ l _ => l end.
Definition d_cmp (d : data) : list (bytes * data) := match d with Data _ _ c => c end.
Definition dint (z : Z) : data := Data (AInt z) [] [].
Definition dempty : data := Data AEmptyI [] [].

Definition atom_eqb (a b : atom) : bool :=
  match a, b with
  | AInt x, AInt y => x =? y
  | AFalse, AFalse | AEmptyI, AEmptyI | AEmptyV, AEmptyV | ACompound, ACompound => true
  | _, _ => false
  end.

(* Data::operator== (atom, array, compound and type all equal; std::map keeps keys sorted, so do we) *)
Fixpoint data_eqb (x y : data) {struct x} : bool :=
  match x, y with
  | Data a1 l1 c1, Data a2 l2 c2 =>
    atom_eqb a1 a2 &&
    (fix leq (l1 l2 : list data) {struct l1} : bool :=
       match l1, l2 with
       | [], [] => true
       | d1 :: r1, d2 :: r2 => data_eqb d1 d2 && leq r1 r2
       | _, _ => false
       end) l1 l2 &&
    (fix ceq (c1 c2 : list (bytes * data)) {struct c1} : bool :=
       match c1, c2 with
       | [], [] => true
       | (k1, d1) :: r1, (k2, d2) :: r2 => beq_bytes k1 k2 && data_eqb d1 d2 && ceq r1 r2
       | _, _ => false
       end) c1 c2
  end.

(* std::string operator< *)
Fixpoint bytes_ltb (a b : bytes) : bool :=
  match a, b with
  | [], [] => false
  | [], _ :: _ => true
  | _ :: _, [] => false
  | x :: a', y :: b' => (x <? y)%N || ((x =? y)%N && bytes_ltb a' b')
  end.

Fixpoint cmp_get (k : bytes) (c : list (bytes * data)) : option data :=
  match c with
  | [] => None
  | (k', d) :: r => if beq_bytes k k' then Some d else cmp_get k r
  end.
Fixpoint cmp_set (k : bytes) (v : data) (c : list (bytes * data)) : list (bytes * data) :=
  match c with
  | [] => [(k, v)]
  | (k', d) :: r => if beq_bytes k k' then (k, v) :: r
                    else if bytes_ltb k k' then (k, v) :: (k', d) :: r
                    else (k', d) :: cmp_set k v r
  end.

(* int PromelaDataModel::dataToInt: strTo<int>(atom) and the round-trip test toStr(value) == atom *)
Definition data_to_int (d : data) : outcome Z :=
  match d_atom d with
  | AInt z => if in_int z then Ok z else ErrEvent
  | _ => ErrEvent
  end.
(* bool PromelaDataModel::dataToBool *)
Definition data_to_bool (d : data) : outcome bool :=
  match d_atom d with
  | AInt z => if in_int z then Ok (negb (z =? 0)) else ErrEvent
  | AFalse | AEmptyI | AEmptyV => Ok false
  | ACompound => Ok true
  end.
(* strTo<long>(std::string(data)) as used by ++ / -- (exact for |z| < 2^63): `T output; in >> output;`
   leaves [output] uninitialised when the string is empty (the stream's sentry fails), and stores 0 when the
   text is not a numeral.  [None] = an uninitialised long is read. *)
Definition data_to_long (d : data) : option Z :=
  match d_atom d with
  | AInt z => Some z
  | AFalse | ACompound => Some 0
  | AEmptyI | AEmptyV => None
  end.

(* ---- the variable store `_variables`: name -> { "size"?, "value" } (vis/type are not read back) ---- *)
Record pvar := { v_size : option Z; v_val : data }.
Definition store := list (bytes * pvar).

Fixpoint st_get (s : store) (x : bytes) : option pvar :=
  match s with
  | [] => None
  | (y, v) :: r => if beq_bytes x y then Some v else st_get r x
  end.
Fixpoint st_set (s : store) (x : bytes) (v : pvar) : store :=
  match s with
  | [] => [(x, v)]
  | (y, w) :: r => if beq_bytes x y then (x, v) :: r else (y, w) :: st_set r x v
  end.

(* getVariable, PML_NAME *)
Definition get_name (v : pml_variant) (s : store) (x : bytes) : outcome data :=
  match st_get s x with
  | None => if pv_undeclared_false v then Ok (Data AFalse [] []) else ErrEvent
  | Some p => Ok (v_val p)
  end.

(* Data& Data::operator[](size_t) applied to the value's array with an `int` index *)
Definition arr_at (v : pml_variant) (arr : list data) (k : Z) : outcome data :=
  if negb (pv_index_unguarded v) && ((k <? 0) || (Z.of_nat (length arr) <=? k)) then ErrEvent
  else if k <? 0 then Crash crash_alloc                     (* (size_t)-1 elements are appended *)
  else match nth_error arr (Z.to_nat k) with
       | Some d => Ok d
       | None => Crash crash_segv                           (* *array.end() *)
       end.

(* getVariable, PML_VAR_ARRAY, after the index has been evaluated *)
Definition get_idx (v : pml_variant) (s : store) (x : bytes) (k : Z) : outcome data :=
  match st_get s x with
  | None => ErrEvent
  | Some p =>
    match v_size p with
    | None => ErrEvent
    | Some n => if n <=? k then ErrEvent else arr_at v (d_arr (v_val p)) k
    end
  end.

Fixpoint get_path (d : data) (path : list bytes) : option data :=
  match path with
  | [] => Some d
  | k :: r => match cmp_get k (d_cmp d) with Some sub => get_path sub r | None => None end
  end.
(* getVariable, PML_CMPND *)
Definition get_fld (s : store) (x : bytes) (path : list bytes) : outcome data :=
  match st_get s x with
  | None => ErrEvent
  | Some p => match get_path (v_val p) path with Some d => Ok d | None => ErrEvent end
  end.

(* ---- machine arithmetic of the compiled evaluator on two ints ---- *)
Definition div_faults (x y : Z) : bool := (y =? 0) || ((x =? int_min) && (y =? -1)).

Definition int_binop (v : pml_variant) (o : binop) (x y : Z) : outcome Z :=
  match o with
  | PML_PLUS => Ok (wrap (x + y))
  | PML_MINUS => Ok (wrap (x - y))
  | PML_TIMES => Ok (wrap (x * y))
  | PML_DIVIDE => if div_faults x y then (if pv_div_unguarded v then Crash crash_fpe else ErrEvent)
                  else Ok (Z.quot x y)
  | PML_MODULO => if div_faults x y then (if pv_div_unguarded v then Crash crash_fpe else ErrEvent)
                  else Ok (Z.rem x y)
  | PML_LSHIFT => Ok (wrap (x * 2 ^ (Z.land y 31)))
  | PML_RSHIFT => Ok (Z.shiftr x (Z.land y 31))
  | PML_LT => Ok (b2z (x <? y))
  | PML_LE => Ok (b2z (x <=? y))
  | PML_GT => Ok (b2z (y <? x))
  | PML_GE => Ok (b2z (y <=? x))
  | _ => ErrEvent      (* not reached: EQ/AND/OR have their own case, the others no case label *)
  end.

Definition is_arith (o : binop) : bool :=
  match o with
  | PML_PLUS | PML_MINUS | PML_TIMES | PML_DIVIDE | PML_MODULO | PML_LSHIFT | PML_RSHIFT
  | PML_LT | PML_LE | PML_GT | PML_GE => true
  | _ => false
  end.

(* Data PromelaDataModel::evaluateExpr(void* ast) *)
Fixpoint eval_impl (v : pml_variant) (s : store) (e : expr) {struct e} : outcome data :=
  match e with
  | EConst n => Ok (dint (Z.min (Z.of_N n) int_max))      (* strTo<int> saturates *)
  | EBoolc b => Ok (dint (b2z b))
  | EVar x => get_name v s x
  | EIdx x i =>
      bind (eval_impl v s i) (fun di => bind (data_to_int di) (fun k => get_idx v s x k))
  | EFld x f fs => get_fld s x (f :: fs)
  | EUn UNeg a =>
      bind (eval_impl v s a) (fun d => bind (data_to_bool d) (fun b => Ok (dint (b2z (negb b)))))
  | EUn UMinus a =>
      (* case PML_MINUS with a single operand *)
      if pv_handles v PML_MINUS then
        bind (eval_impl v s a) (fun d => bind (data_to_int d) (fun k =>
          if pv_uminus_crash v then Crash crash_segv else Ok (dint (wrap (- k)))))
      else ErrEvent
  | EBin o a b =>
      if negb (pv_handles v o) then ErrEvent               (* default: "not implemented" *)
      else match o with
      | PML_AND | PML_OR =>
          let isand := match o with PML_AND => true | _ => false end in
          if pv_no_short_circuit v then
            bind (eval_impl v s a) (fun l => bind (eval_impl v s b) (fun r =>
            bind (data_to_bool l) (fun tl => bind (data_to_bool r) (fun tr =>
              Ok (dint (b2z (if isand then tl && tr else tl || tr)))))))
          else
            bind (eval_impl v s a) (fun l => bind (data_to_bool l) (fun tl =>
              if Bool.eqb tl isand then
                bind (eval_impl v s b) (fun r => bind (data_to_bool r) (fun tr => Ok (dint (b2z tr))))
              else Ok (dint (b2z tl))))
      | PML_EQ | PML_NE =>
          let isne := match o with PML_NE => true | _ => false end in
          bind (eval_impl v s a) (fun l => bind (eval_impl v s b) (fun r =>
            if data_eqb l r then Ok (dint (b2z (negb isne)))
            else bind (data_to_int l) (fun x => bind (data_to_int r) (fun y =>
                   Ok (dint (b2z (xorb isne (x =? y))))))))
      | _ =>
          if is_arith o then
            bind (eval_impl v s a) (fun l => bind (data_to_int l) (fun x =>
            bind (eval_impl v s b) (fun r => bind (data_to_int r) (fun y =>
              bind (if pv_ord_rtl v then int_binop v o y x else int_binop v o x y)
                   (fun z => Ok (dint z))))))
          else ErrEvent
      end
  end.

(* ---- statements and declarations ---- *)
Inductive lval :=
| LVar (x : bytes)
| LIdx (x : bytes) (i : expr)
| LFld (x : bytes) (f : bytes) (fs : list bytes).

Inductive stmt :=
| SAsgn (l : lval) (e : expr)        (* varref = expr *)
| SIncr (l : lval)                   (* varref ++ *)
| SDecr (l : lval).                  (* varref -- *)

Inductive decl :=
| DVar (x : bytes)                   (* int x *)
| DInit (x : bytes) (e : expr)       (* int x = expr *)
| DArr (x : bytes) (n : N).          (* int x[n] *)

Definition atom_nonempty (a : atom) : bool :=
  match a with AEmptyI | AEmptyV => false | _ => true end.

Fixpoint set_path (path : list bytes) (val : data) (d : data) : data :=
  match path with
  | [] => val
  | k :: r =>
    match d with
    | Data a l c =>
      let sub := match cmp_get k c with Some s => s | None => dempty end in
      Data a l (cmp_set k (set_path r val sub) c)
    end
  end.

Fixpoint list_set {A : Type} (l : list A) (n : nat) (x : A) : list A :=
  match l, n with
  | [], _ => []
  | _ :: r, O => x :: r
  | y :: r, S k => y :: list_set r k x
  end.

Definition k_type : bytes := [116; 121; 112; 101]%N.   (* "type" *)
Definition k_vis : bytes := [118; 105; 115]%N.         (* "vis" *)

(* setVariable *)
Definition set_lval (v : pml_variant) (s : store) (l : lval) (val : data) : store * outcome unit :=
  match l with
  | LVar x =>
    match st_get s x with
    | None => (s, ErrEvent)
    | Some p =>
      match v_size p with
      | Some n =>
        if (match d_cmp val with [] => false | _ => true end) || atom_nonempty (d_atom val) then (s, ErrEvent)
        else if n <? Z.of_nat (length (d_arr val)) then (s, ErrEvent)
        else (st_set s x {| v_size := v_size p; v_val := val |}, Ok tt)
      | None => (st_set s x {| v_size := None; v_val := val |}, Ok tt)
      end
    end
  | LIdx x i =>
    match st_get s x with
    | None => (s, ErrEvent)
    | Some p =>
      match v_size p with
      | None => (s, ErrEvent)
      | Some n =>
        match bind (eval_impl v s i) data_to_int with
        | ErrEvent => (s, ErrEvent)
        | Crash w => (s, Crash w)
        | Ok k =>
          if n <=? k then (s, ErrEvent)
          else match arr_at v (d_arr (v_val p)) k with
               | ErrEvent => (s, ErrEvent)
               | Crash w => (s, Crash w)
               | Ok _ =>
                 match v_val p with
                 | Data a arr c =>
                   (st_set s x {| v_size := v_size p;
                                  v_val := Data a (list_set arr (Z.to_nat k) val) c |}, Ok tt)
                 end
               end
        end
      end
    end
  | LFld x f fs =>
    match st_get s x with
    | None => (s, ErrEvent)
    | Some p =>
      match v_size p with
      | Some _ => (s, ErrEvent)
      | None =>
        let d0 := v_val p in
        let d1 := if pv_field_meta_clobber v
                  then match d0 with
                       | Data a l c => Data a l (cmp_set k_vis (Data AEmptyV [] [])
                                                   (cmp_set k_type (Data ACompound [] []) c))
                       end
                  else d0 in
        (st_set s x {| v_size := None; v_val := set_path (f :: fs) val d1 |}, Ok tt)
      end
    end
  end.

(* getVariable on an l-value node *)
Definition get_lval (v : pml_variant) (s : store) (l : lval) : outcome data :=
  match l with
  | LVar x => get_name v s x
  | LIdx x i => bind (eval_impl v s i) (fun di => bind (data_to_int di) (fun k => get_idx v s x k))
  | LFld x f fs => get_fld s x (f :: fs)
  end.

Definition crash_uninit : N := 2%N.     (* an uninitialised value is read and stored: undefined behaviour *)

(* PML_INCR / PML_DECR: setVariable(name, Data(strTo<long>(getVariable(name)) + 1)), computed in `long`
   (no wrap).  Whether setVariable raises does not depend on the integer stored, so for the uninitialised
   read the error paths are still determined. *)
Definition exec_incr (v : pml_variant) (s : store) (l : lval) (delta : Z) : store * outcome unit :=
  match get_lval v s l with
  | Ok cur =>
    match data_to_long cur with
    | Some z => set_lval v s l (dint (z + delta))
    | None => match set_lval v s l (dint 0) with
              | (_, Ok _) => (s, Crash crash_uninit)
              | r => r
              end
    end
  | ErrEvent => (s, ErrEvent)
  | Crash w => (s, Crash w)
  end.

(* void PromelaDataModel::evaluateStmnt(void* ast) *)
Definition exec_stmt (v : pml_variant) (s : store) (st : stmt) : store * outcome unit :=
  match st with
  | SAsgn l e =>
    match eval_impl v s e with
    | Ok val => set_lval v s l val
    | ErrEvent => (s, ErrEvent)
    | Crash w => (s, Crash w)
    end
  | SIncr l => exec_incr v s l 1
  | SDecr l => exec_incr v s l (-1)
  end.

(* void PromelaDataModel::evaluateDecl(void* ast), one declarator of type int *)
Definition exec_decl (v : pml_variant) (s : store) (d : decl) : store * outcome unit :=
  match d with
  | DVar x => (st_set s x {| v_size := None; v_val := dint 0 |}, Ok tt)
  | DInit x e =>
    match eval_impl v s e with
    | Ok val => (st_set s x {| v_size := None; v_val := val |}, Ok tt)
    | ErrEvent => (st_set s x {| v_size := None; v_val := dempty |}, ErrEvent)   (* "declare and throw" *)
    | Crash w => (s, Crash w)
    end
  | DArr x n =>
    (st_set s x {| v_size := Some (Z.of_N n);
                   v_val := Data AEmptyI (repeat (dint 0) (N.to_nat n)) [] |}, Ok tt)
  end.

(* how each expression position of a statement is read back by a parser with table T from the text
   printed with minimal (resp. full) parenthesisation *)
Definition reparse (T : ptable) (full : bool) (e : expr) : presult :=
  parse T (if full then print_full e else print_min e).

(* ---- reference semantics: Promela / C ---- *)
Inductive cres := CVal (z : Z) | CFault | CIll | CUnspec.

Inductive cvar :=
| CScalar (z : Z)
| CArray (zs : list Z)
| CStruct (fs : list (list bytes * Z)).     (* leaf fields by path *)
Definition cstate := list (bytes * cvar).

Fixpoint cs_get (cs : cstate) (x : bytes) : option cvar :=
  match cs with
  | [] => None
  | (y, v) :: r => if beq_bytes x y then Some v else cs_get r x
  end.
Fixpoint cs_set (cs : cstate) (x : bytes) (v : cvar) : cstate :=
  match cs with
  | [] => [(x, v)]
  | (y, w) :: r => if beq_bytes x y then (x, v) :: r else (y, w) :: cs_set r x v
  end.

Fixpoint path_eqb (p q : list bytes) : bool :=
  match p, q with
  | [], [] => true
  | a :: p', b :: q' => beq_bytes a b && path_eqb p' q'
  | _, _ => false
  end.
Fixpoint path_prefix (p q : list bytes) : bool :=      (* p is a prefix of q *)
  match p, q with
  | [], _ => true
  | a :: p', b :: q' => beq_bytes a b && path_prefix p' q'
  | _ :: _, [] => false
  end.
Fixpoint fs_get (fs : list (list bytes * Z)) (p : list bytes) : option Z :=
  match fs with
  | [] => None
  | (q, z) :: r => if path_eqb p q then Some z else fs_get r p
  end.

Definition c_binop (o : binop) (x y : Z) : cres :=
  match o with
  | PML_PLUS => CVal (wrap (x + y))
  | PML_MINUS => CVal (wrap (x - y))
  | PML_TIMES => CVal (wrap (x * y))
  | PML_DIVIDE => if div_faults x y then CFault else CVal (Z.quot x y)
  | PML_MODULO => if div_faults x y then CFault else CVal (Z.rem x y)
  | PML_LSHIFT => if (0 <=? y) && (y <? 32) then CVal (wrap (x * 2 ^ y)) else CUnspec
  | PML_RSHIFT => if (0 <=? y) && (y <? 32) then CVal (Z.shiftr x y) else CUnspec
  | PML_LT => CVal (b2z (x <? y))
  | PML_LE => CVal (b2z (x <=? y))
  | PML_GT => CVal (b2z (y <? x))
  | PML_GE => CVal (b2z (y <=? x))
  | PML_EQ => CVal (b2z (x =? y))
  | PML_NE => CVal (b2z (negb (x =? y)))
  | PML_AND => CVal (b2z (negb (x =? 0) && negb (y =? 0)))
  | PML_OR => CVal (b2z (negb (x =? 0) || negb (y =? 0)))
  | PML_BITAND | PML_BITOR | PML_BITXOR => CUnspec      (* outside the property's operator set *)
  end.

(* an ill-formed operand makes the expression ill-formed; otherwise left-to-right *)
Definition cseq (ra rb : cres) (f : Z -> Z -> cres) : cres :=
  match ra, rb with
  | CIll, _ | _, CIll => CIll
  | CVal x, CVal y => f x y
  | CVal _, r => r
  | r, _ => r
  end.

Fixpoint c_eval (cs : cstate) (e : expr) {struct e} : cres :=
  match e with
  | EConst n => if Z.of_N n <=? int_max then CVal (Z.of_N n) else CUnspec   (* spin itself overflows *)
  | EBoolc b => CVal (b2z b)
  | EVar x =>
      match cs_get cs x with
      | Some (CScalar z) => CVal z
      | Some _ => CUnspec                 (* a whole array / struct as a value: no Promela counterpart *)
      | None => CIll
      end
  | EIdx x i =>
      match cs_get cs x, c_eval cs i with
      | None, _ => CIll
      | _, CIll => CIll
      | Some (CArray zs), CVal k =>
          if (0 <=? k) && (k <? Z.of_nat (length zs)) then CVal (nth (Z.to_nat k) zs 0) else CFault
      | Some (CArray _), r => r
      | Some _, _ => CIll
      end
  | EFld x f fs =>
      match cs_get cs x with
      | Some (CStruct l) =>
          match fs_get l (f :: fs) with
          | Some z => CVal z
          | None => if existsb (fun qz => path_prefix (f :: fs) (fst qz) || path_prefix (fst qz) (f :: fs)) l
                    then CUnspec else CIll
          end
      | Some (CScalar _) => CIll
      | Some (CArray _) => CIll
      | None => CIll
      end
  | EUn UNeg a => match c_eval cs a with CVal x => CVal (b2z (x =? 0)) | r => r end
  | EUn UMinus a => match c_eval cs a with CVal x => CVal (wrap (- x)) | r => r end
  | EBin PML_AND a b =>      (* the right operand is not looked at when the left one decides *)
      match c_eval cs a with
      | CVal x => if x =? 0 then CVal 0
                  else match c_eval cs b with CVal y => CVal (b2z (negb (y =? 0))) | r => r end
      | r => r
      end
  | EBin PML_OR a b =>
      match c_eval cs a with
      | CVal x => if x =? 0
                  then match c_eval cs b with CVal y => CVal (b2z (negb (y =? 0))) | r => r end
                  else CVal 1
      | r => r
      end
  | EBin o a b => cseq (c_eval cs a) (c_eval cs b) (c_binop o)
  end.

Inductive cstat := COk | CSFault | CSIll | CSUnspec.
Definition cstat_of (r : cres) : cstat :=
  match r with CVal _ => COk | CFault => CSFault | CIll => CSIll | CUnspec => CSUnspec end.

Definition fs_set (fs : list (list bytes * Z)) (p : list bytes) (z : Z) : list (list bytes * Z) :=
  (p, z) :: filter (fun qz => negb (path_prefix p (fst qz) || path_prefix (fst qz) p)) fs.

(* assignment of the int z to an l-value *)
Definition c_assign (cs : cstate) (l : lval) (z : Z) : cstate * cstat :=
  match l with
  | LVar x =>
    match cs_get cs x with
    | Some (CScalar _) => (cs_set cs x (CScalar z), COk)
    | Some (CStruct _) => (cs, CSUnspec)
    | Some (CArray _) => (cs, CSIll)
    | None => (cs, CSIll)
    end
  | LIdx x i =>
    match cs_get cs x, c_eval cs i with
    | None, _ => (cs, CSIll)
    | _, CIll => (cs, CSIll)
    | Some (CArray zs), CVal k =>
        if (0 <=? k) && (k <? Z.of_nat (length zs))
        then (cs_set cs x (CArray (list_set zs (Z.to_nat k) z)), COk) else (cs, CSFault)
    | Some (CArray _), r => (cs, cstat_of r)
    | Some _, _ => (cs, CSIll)
    end
  | LFld x f fs =>
    match cs_get cs x with
    | Some (CScalar _) => (cs_set cs x (CStruct [(f :: fs, z)]), COk)
    | Some (CStruct l) => (cs_set cs x (CStruct (fs_set l (f :: fs) z)), COk)
    | Some (CArray _) => (cs, CSIll)
    | None => (cs, CSIll)
    end
  end.

Definition c_lval_expr (l : lval) : expr :=
  match l with LVar x => EVar x | LIdx x i => EIdx x i | LFld x f fs => EFld x f fs end.

Definition c_exec_stmt (cs : cstate) (st : stmt) : cstate * cstat :=
  match st with
  | SAsgn l e =>
    match c_eval cs e with
    | CVal z => c_assign cs l z
    | CUnspec => (cs, CSUnspec)
    | r => (cs, match c_assign cs l 0 with (_, CSIll) => CSIll | _ => cstat_of r end)
    end
  | SIncr l =>
    match c_eval cs (c_lval_expr l) with
    | CVal z => c_assign cs l (wrap (z + 1))
    | r => (cs, cstat_of r)
    end
  | SDecr l =>
    match c_eval cs (c_lval_expr l) with
    | CVal z => c_assign cs l (wrap (z - 1))
    | r => (cs, cstat_of r)
    end
  end.

Definition c_exec_decl (cs : cstate) (d : decl) : cstate * cstat :=
  match d with
  | DVar x => match cs_get cs x with
              | None => (cs_set cs x (CScalar 0), COk)
              | Some _ => (cs, CSUnspec)                 (* redeclaration *)
              end
  | DInit x e =>
    match cs_get cs x with
    | Some _ => (cs, CSUnspec)
    | None => match c_eval cs e with
              | CVal z => (cs_set cs x (CScalar z), COk)
              | r => (cs, cstat_of r)
              end
    end
  | DArr x n =>
    match cs_get cs x with
    | Some _ => (cs, CSUnspec)
    | None => if (n =? 0)%N then (cs, CSUnspec)
              else (cs_set cs x (CArray (repeat 0 (N.to_nat n))), COk)
    end
  end.

(* static well-typedness relative to the declared variables (the hypothesis of [eval_correct]) *)
Fixpoint wt (cs : cstate) (e : expr) {struct e} : bool :=
  match e with
  | EConst n => Z.of_N n <=? int_max
  | EBoolc _ => true
  | EVar x => match cs_get cs x with Some (CScalar _) => true | _ => false end
  | EIdx x i => match cs_get cs x with Some (CArray _) => wt cs i | _ => false end
  | EFld x f fs => match cs_get cs x with
                   | Some (CStruct l) => match fs_get l (f :: fs) with Some _ => true | None => false end
                   | _ => false
                   end
  | EUn _ a => wt cs a
  | EBin o a b => in_scope o && wt cs a && wt cs b
  end.

(* ---- AST nodes of statements and declarations (for the pml-ast correspondence) ---- *)
Definition lval_node (l : lval) : pnode := to_node (c_lval_expr l).
Definition stmt_node (st : stmt) : pnode :=
  match st with
  | SAsgn l e => PNode NASGN NVnone [lval_node l; to_node e]
  | SIncr l => PNode NINCR NVnone [lval_node l]
  | SDecr l => PNode NDECR NVnone [lval_node l]
  end.
Definition t_int : bytes := [105; 110; 116]%N.
Definition decl_node (d : decl) : pnode :=
  PNode NDECL NVnone
    [PNode NSHOW NVnone []; PNode NTYPE (NVtxt t_int) [];
     PNode NVARLIST NVnone
       [match d with
        | DVar x => name_node x
        | DInit x e => PNode NASGN NVnone [name_node x; to_node e]
        | DArr x n => PNode NVAR_ARRAY NVnone [name_node x; PNode NCONST (NVnum n) []]
        end]].
