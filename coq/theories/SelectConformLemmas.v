(* SelectConformLemmas.v -- C01, the positive half: outside the recorded deviations (two enabled
   transitions whose sources are in ancestor-or-equal relation, Spec.diag flags 1 and 2)
   LargeMicroStep's SELECT_TRANSITIONS selects exactly the transitions that Appendix D's
   selectTransitions + removeConflictingTransitions select, in the same order, and both leave the
   execution state alone.  Proofs only; definitions are in SelectConform.v. *)
From V Require Import Base NameMatch NameMatchLemmas Chart Exec Large LargeLemmas Spec Legal SetLemmas
  LegalAbstract LegalLarge LegalRun WfCore LegalOracle LargeCacheLemmas SelectConform.
Local Open Scope nat_scope.

(* ------------------------------------------------------------------ lists *)

Lemma sc_insert_sorted_last p l : (forall a, In a l -> a < p) -> insert_sorted p l = l ++ [p].
Proof.
  induction l as [|y r IH]; intros H; [reflexivity|]. cbn [insert_sorted app].
  pose proof (H y (or_introl eq_refl)) as Hy.
  replace (p <? y) with false by (symmetry; apply Nat.ltb_ge; lia).
  replace (p =? y) with false by (symmetry; apply Nat.eqb_neq; lia).
  f_equal. apply IH. intros a Ha. apply H. right. exact Ha.
Qed.

Lemma ssorted_app_last l p : ssorted l -> (forall a, In a l -> a < p) -> ssorted (l ++ [p]).
Proof.
  induction l as [|y r IH]; cbn [app ssorted]; intros Hs Hlt.
  - split; [intros ? [] | exact I].
  - destruct Hs as [H1 H2]. split.
    + intros z Hz. apply in_app_iff in Hz as [Hz|[<-|[]]]; [now apply H1 | apply Hlt; now left].
    + apply IH; [exact H2 | intros a Ha; apply Hlt; now right].
Qed.

Lemma ssorted_ext l1 : forall l2, ssorted l1 -> ssorted l2 -> (forall z, In z l1 <-> In z l2) -> l1 = l2.
Proof.
  induction l1 as [|a r IH]; intros [|b r2] H1 H2 Heq.
  - reflexivity.
  - exfalso. apply (proj2 (Heq b)). now left.
  - exfalso. apply (proj1 (Heq a)). now left.
  - cbn [ssorted] in H1, H2. destruct H1 as [A1 A2], H2 as [B1 B2].
    assert (a = b).
    { destruct (proj1 (Heq a) (or_introl eq_refl)) as [->|Ha]; [reflexivity|].
      destruct (proj2 (Heq b) (or_introl eq_refl)) as [->|Hb]; [reflexivity|].
      specialize (A1 b Hb). specialize (B1 a Ha). lia. }
    subst b. f_equal. apply IH; [exact A2 | exact B2|].
    intros z. split; intros Hz.
    + destruct (proj1 (Heq z) (or_intror Hz)) as [<-|H]; [|exact H]. specialize (A1 a Hz). lia.
    + destruct (proj2 (Heq z) (or_intror Hz)) as [<-|H]; [|exact H]. specialize (B1 a Hz). lia.
Qed.

Lemma ascb_ssorted l : ascb l = true -> ssorted l.
Proof.
  induction l as [|a r IH]; intros H; cbn [ssorted]; [exact I|].
  destruct r as [|b r'].
  - split; [intros ? [] | exact I].
  - cbn [ascb] in H. apply andb_true_iff in H as [Hab Hr]. apply Nat.ltb_lt in Hab.
    specialize (IH Hr). split; [|exact IH].
    intros y [<-|Hy]; [exact Hab|]. cbn [ssorted] in IH. destruct IH as [Hb _]. specialize (Hb y Hy). lia.
Qed.

Lemma greedy_ins_app conf l : forall sel, ssorted l -> (forall a b, In a sel -> In b l -> a < b) ->
  greedy_ins conf l sel = greedy conf l sel.
Proof.
  induction l as [|t r IH]; intros sel Hs Hlt; cbn [greedy_ins greedy]; [reflexivity|].
  cbn [ssorted] in Hs. destruct Hs as [Ht Hr].
  destruct (existsb (conf t) sel).
  - apply IH; [exact Hr | intros a b Ha Hb; apply Hlt; [exact Ha | now right]].
  - rewrite sc_insert_sorted_last by (intros a Ha; apply Hlt; [exact Ha | now left]).
    apply IH; [exact Hr|]. intros a b Ha Hb. apply in_app_iff in Ha as [Ha|[<-|[]]].
    + apply Hlt; [exact Ha | now right].
    + now apply Ht.
Qed.

Lemma existsb_ext_in {A} (f g : A -> bool) l : (forall a, In a l -> f a = g a) -> existsb f l = existsb g l.
Proof.
  induction l as [|a r IH]; intros H; cbn [existsb]; [reflexivity|].
  rewrite (H a (or_introl eq_refl)), IH; [reflexivity|]. intros b Hb. apply H. now right.
Qed.

Lemma greedy_ext conf1 conf2 (P : nat -> Prop) l : forall sel,
  (forall a b, P a -> P b -> conf1 a b = conf2 a b) ->
  (forall a, In a sel -> P a) -> (forall a, In a l -> P a) ->
  greedy conf1 l sel = greedy conf2 l sel.
Proof.
  induction l as [|t r IH]; intros sel Hc Hsel Hl; cbn [greedy]; [reflexivity|].
  assert (Ht : P t) by (apply Hl; now left).
  rewrite (existsb_ext_in (conf1 t) (conf2 t) sel) by (intros a Ha; apply Hc; [exact Ht | now apply Hsel]).
  apply IH; [exact Hc | | intros a Ha; apply Hl; now right].
  destruct (existsb (conf2 t) sel); [exact Hsel|].
  intros a Ha. apply in_app_iff in Ha as [Ha|[<-|[]]]; [now apply Hsel | exact Ht].
Qed.

Lemma find_and_unique (p q : nat -> bool) l :
  (forall a b, In a l -> In b l -> p a = true -> p b = true -> a = b) ->
  find (fun t => p t && q t) l =
  match find p l with Some t => if q t then Some t else None | None => None end.
Proof.
  induction l as [|a r IH]; intros Hu; cbn [find]; [reflexivity|].
  destruct (p a) eqn:Hpa; cbn [andb].
  - destruct (q a) eqn:Hqa; [reflexivity|].
    destruct (find (fun t => p t && q t) r) as [b|] eqn:Hf; [|reflexivity].
    apply find_some in Hf as [Hb Hpq]. apply andb_true_iff in Hpq as [Hpb Hqb].
    assert (a = b) by (apply Hu; [now left | now right | exact Hpa | exact Hpb]). subst b. congruence.
  - apply IH. intros x y Hx Hy. apply Hu; now right.
Qed.

Lemma filter_all {A} (f : A -> bool) l : (forall a, In a l -> f a = true) -> filter f l = l.
Proof.
  induction l as [|a r IH]; intros H; cbn [filter]; [reflexivity|].
  rewrite (H a (or_introl eq_refl)). f_equal. apply IH. intros b Hb. apply H. now right.
Qed.

Lemma firstsome_some {A B} (f : A -> option B) l t : firstsome f l = Some t -> exists s, In s l /\ f s = Some t.
Proof.
  induction l as [|a r IH]; cbn [firstsome]; [discriminate|].
  destruct (f a) as [u|] eqn:E.
  - intros [= <-]. exists a. split; [now left | exact E].
  - intros H. destruct (IH H) as (s & Hs & Hf). exists s. split; [now right | exact Hf].
Qed.

Lemma firstsome_none {A B} (f : A -> option B) l : firstsome f l = None -> forall s, In s l -> f s = None.
Proof.
  induction l as [|a r IH]; cbn [firstsome]; [intros _ s []|].
  destruct (f a) as [u|] eqn:E; [discriminate|]. intros H s [<-|Hs]; [exact E | now apply IH].
Qed.

Lemma In_filter_map {A B} (f : A -> option B) l y : In y (filter_map f l) <-> exists a, In a l /\ f a = Some y.
Proof.
  induction l as [|a r IH]; cbn [filter_map].
  - split; [intros [] | intros (a & [] & _)].
  - destruct (f a) as [u|] eqn:E; cbn [In]; rewrite IH; split.
    + intros [<-|(b & Hb & Hf)]; [exists a; split; [now left | exact E] | exists b; split; [now right | exact Hf]].
    + intros (b & [<-|Hb] & Hf); [left; congruence | right; exists b; tauto].
    + intros (b & Hb & Hf). exists b. split; [now right | exact Hf].
    + intros (b & [<-|Hb] & Hf); [congruence | exists b; tauto].
Qed.

Lemma addn_in t l : In t l -> addn t l = l.
Proof.
  intros H. unfold addn, add.
  replace (existsb (Nat.eqb t) l) with true; [reflexivity|]. symmetry. apply existsb_exists. exists t. split; [exact H | apply Nat.eqb_refl].
Qed.

Lemma addn_notin t l : ~ In t l -> addn t l = l ++ [t].
Proof.
  intros H. unfold addn, add. destruct (existsb (Nat.eqb t) l) eqn:E; [|reflexivity].
  apply existsb_exists in E as (z & Hz & Hzt). apply Nat.eqb_eq in Hzt. subst z. contradiction.
Qed.

(* ------------------------------------------------------------------ insert_by keeps the key order *)

Fixpoint ksorted (key : nat -> nat) (l : list nat) : Prop :=
  match l with
  | [] => True
  | a :: r => (forall b, In b r -> key a <= key b) /\ ksorted key r
  end.

Lemma sc_In_insert_by key x a l : In a (insert_by key x l) <-> a = x \/ In a l.
Proof.
  induction l as [|y r IH]; cbn [insert_by]; [cbn; intuition|].
  destruct (key x <? key y); cbn [In]; [intuition|]. rewrite IH. intuition.
Qed.

Lemma insert_by_ksorted key x l : ksorted key l -> ksorted key (insert_by key x l).
Proof.
  induction l as [|y r IH]; cbn [insert_by ksorted]; [intros _; split; [intros ? [] | exact I]|].
  intros [H1 H2]. destruct (key x <? key y) eqn:E.
  - apply Nat.ltb_lt in E. cbn [ksorted]. repeat split; auto.
    intros b [<-|Hb]; [lia|]. specialize (H1 b Hb). lia.
  - apply Nat.ltb_ge in E. cbn [ksorted]. split; [|now apply IH].
    intros b Hb. apply sc_In_insert_by in Hb as [->|Hb]; [exact E | now apply H1].
Qed.

Lemma fold_insert_by key l : forall acc,
  ksorted key acc ->
  ksorted key (fold_left (fun a s => insert_by key s a) l acc) /\
  (forall z, In z (fold_left (fun a s => insert_by key s a) l acc) <-> In z acc \/ In z l).
Proof.
  induction l as [|s r IH]; intros acc Hk; cbn [fold_left].
  - split; [exact Hk | intros z; cbn; tauto].
  - destruct (IH (insert_by key s acc) (insert_by_ksorted key s acc Hk)) as [A B]. split; [exact A|].
    intros z. rewrite B, sc_In_insert_by. cbn [In]. intuition.
Qed.

(* ------------------------------------------------------------------ the development *)

Section Conform.
Variable c : fchart.
Hypothesis W : WF c.
Hypothesis root_compound : fs_type (st c 0) = FCompound.
Variable cfg : list nat.
Variable ev : option event.
Variable x : xstate.
Variable h : hv.

Notation Anc := (LegalAbstract.Anc (fun i => fs_parent (st c i))).
Notation en := (enabledb c cfg ev x).
Notation eno := (en_of c cfg ev x).
Notation confL := (fun a b => conflicts lg_fixed c (tr c a) (tr c b)).
Notation XS := (fun t => compute_exit_set c cfg h [tr c t]).
Notation confS := (fun a b => has_intersection (XS a) (XS b)).

Hypothesis HL : LegalCfg c cfg.
Hypothesis Hasc : ssorted cfg.

(* (H1) *)
Hypothesis H1a : forall s t1 t2, In s cfg -> In t1 (fs_trans (st c s)) -> In t2 (fs_trans (st c s)) ->
  en t1 = true -> en t2 = true -> t1 = t2.
Hypothesis H1b : forall s1 s2 t1 t2, In s1 cfg -> In s2 cfg -> Anc s1 s2 ->
  In t1 (fs_trans (st c s1)) -> In t2 (fs_trans (st c s2)) -> en t1 = true -> en t2 = true -> False.
(* (H2) *)
Hypothesis H2 : forall s ti cnd, In s cfg -> In ti (fs_trans (st c s)) -> ft_cond (tr c ti) = Some cnd ->
  snd (is_true (inst_of c cfg) cnd x) = x.
(* (H3), in the form in which it is used *)
Hypothesis H3 : forall s ti e, In s cfg -> In ti (fs_trans (st c s)) -> ev = Some e ->
  ft_spontaneous (tr c ti) = false ->
  name_match_impl nm_fixed (ft_event (tr c ti)) (ev_name e) = name_match_spec (ft_event (tr c ti)) (ev_name e).
(* numbering of transitions; <parallel>s have children *)
Hypothesis ORD : forall s1 s2 t1 t2, s1 < nstates c -> s2 < nstates c -> s1 + fs_size (st c s1) <= s2 ->
  In t1 (fs_trans (st c s1)) -> In t2 (fs_trans (st c s2)) -> t1 < t2.
Hypothesis PAR : forall s, In s cfg -> fs_type (st c s) = FParallel -> fs_children (st c s) <> [].
(* PREMISE TO BE DISCHARGED FROM ExitSetLemmas.v (exit_set_agrees): the engine's exit interval, cut with
   the configuration, is Appendix D's exit set -- for the transitions of active states *)
Hypothesis exit_set_agrees : forall s ti, In s cfg -> In ti (fs_trans (st c s)) ->
  forall z, In z (exit_states_of lg_fixed c cfg (tr c ti)) <-> In z (compute_exit_set c cfg h [tr c ti]).

(* ---- (1) one state's transition list: the engine's tests and Appendix D's tests ---- *)

Definition okT (ti : nat) : Prop :=
  (forall cnd, ft_cond (tr c ti) = Some cnd -> snd (is_true (inst_of c cfg) cnd x) = x) /\
  (forall e, ev = Some e -> ft_spontaneous (tr c ti) = false ->
     name_match_impl nm_fixed (ft_event (tr c ti)) (ev_name e) = name_match_spec (ft_event (tr c ti)) (ev_name e)).

Lemma okT_state s ti : In s cfg -> In ti (fs_trans (st c s)) -> okT ti.
Proof. intros Hs Hti. split; [intros cnd; now apply (H2 s) | intros e; now apply (H3 s)]. Qed.

Lemma pick_trans_spec sel ts : (forall ti, In ti ts -> okT ti) ->
  pick_trans lg_fixed c cfg ev sel ts x =
  (find (fun ti => en ti && negb (existsb (confL ti) sel)) ts, x).
Proof.
  induction ts as [|ti r IH]; intros Hok; cbn [pick_trans find]; [reflexivity|].
  specialize (IH (fun t Ht => Hok t (or_intror Ht))). destruct (Hok ti (or_introl eq_refl)) as [Hp Hm].
  unfold enabledb at 1, ev_ok, cond_val.
  destruct (ft_history (tr c ti) || ft_initial (tr c ti)) eqn:Hhi; cbn [negb].
  { rewrite andb_false_r. cbn [andb]. exact IH. }
  rewrite andb_true_r.
  destruct ev as [e|] eqn:Hev.
  - destruct (ft_spontaneous (tr c ti)) eqn:Hsp; cbn [negb andb]; [exact IH|].
    destruct (existsb (fun si => conflicts lg_fixed c (tr c ti) (tr c si)) sel) eqn:Hc; cbn [negb].
    { rewrite andb_false_r. exact IH. }
    rewrite andb_true_r. rewrite (Hm e eq_refl eq_refl).
    destruct (name_match_spec (ft_event (tr c ti)) (ev_name e)); cbn [negb andb]; [|exact IH].
    destruct (ft_cond (tr c ti)) as [cnd|] eqn:Hcnd; [|reflexivity].
    specialize (Hp cnd eq_refl). destruct (is_true (inst_of c cfg) cnd x) as [b x'] eqn:E. cbn [fst snd] in *. subst x'.
    destruct b; [reflexivity | exact IH].
  - destruct (ft_spontaneous (tr c ti)) eqn:Hsp; cbn [negb andb]; [|exact IH].
    destruct (existsb (fun si => conflicts lg_fixed c (tr c ti) (tr c si)) sel) eqn:Hc; cbn [negb].
    { rewrite andb_false_r. exact IH. }
    rewrite andb_true_r.
    destruct (ft_cond (tr c ti)) as [cnd|] eqn:Hcnd; [|reflexivity].
    specialize (Hp cnd eq_refl). destruct (is_true (inst_of c cfg) cnd x) as [b x'] eqn:E. cbn [fst snd] in *. subst x'.
    destruct b; [reflexivity | exact IH].
Qed.

Definition cache_ok (cc : cond_cache) : Prop :=
  forall p, In p cc -> snd p = cond_val c cfg x (tr c (fst p)).

Lemma cond_match_spec ti cc : cache_ok cc -> okT ti ->
  exists cc', cond_match c cfg ti cc x = (cond_val c cfg x (tr c ti), cc', x) /\ cache_ok cc'.
Proof.
  intros Hcc [Hp _]. unfold cond_match, cond_val.
  destruct (ft_cond (tr c ti)) as [cnd|] eqn:Hcnd; [|exists cc; split; [reflexivity | exact Hcc]].
  destruct (find (fun p => fst p =? ti) cc) as [p|] eqn:Hf.
  - apply find_some in Hf as [Hin Hpt]. apply Nat.eqb_eq in Hpt. exists cc. split; [|exact Hcc].
    rewrite (Hcc p Hin), Hpt. unfold cond_val. rewrite Hcnd. reflexivity.
  - specialize (Hp cnd eq_refl). destruct (is_true (inst_of c cfg) cnd x) as [b x'] eqn:E. cbn [fst snd] in *. subst x'.
    exists ((ti, b) :: cc). split; [reflexivity|].
    intros p [<-|Hin]; [|now apply Hcc]. cbn [fst snd]. unfold cond_val. rewrite Hcnd, E. reflexivity.
Qed.

Lemma first_enabled_spec ts : forall cc, cache_ok cc -> (forall ti, In ti ts -> okT ti) ->
  exists cc', first_enabled c cfg ev ts cc x = (find en ts, cc', x) /\ cache_ok cc'.
Proof.
  induction ts as [|ti r IH]; intros cc Hcc Hok; cbn [first_enabled find]; [exists cc; split; [reflexivity | exact Hcc]|].
  assert (Hr : forall t, In t r -> okT t) by (intros t Ht; apply Hok; now right).
  change (match ev with
          | Some e => negb (ft_spontaneous (tr c ti)) && name_match_spec (ft_event (tr c ti)) (ev_name e)
          | None => ft_spontaneous (tr c ti)
          end) with (ev_ok ev (tr c ti)).
  unfold enabledb at 1.
  destruct (ev_ok ev (tr c ti) && negb (ft_history (tr c ti) || ft_initial (tr c ti))) eqn:Hg; cbn [andb].
  - destruct (cond_match_spec ti cc Hcc (Hok ti (or_introl eq_refl))) as (cc1 & E & Hcc1). rewrite E.
    destruct (cond_val c cfg x (tr c ti)).
    + exists cc1. split; [reflexivity | exact Hcc1].
    + apply IH; assumption.
  - apply IH; assumption.
Qed.

Lemma first_in_chain_spec chain : forall cc, cache_ok cc -> (forall s, In s chain -> In s cfg) ->
  exists cc', first_in_chain c cfg ev chain cc x = (firstsome eno chain, cc', x) /\ cache_ok cc'.
Proof.
  induction chain as [|s r IH]; intros cc Hcc Hin; cbn [first_in_chain firstsome]; [exists cc; split; [reflexivity | exact Hcc]|].
  destruct (first_enabled_spec (fs_trans (st c s)) cc Hcc) as (cc1 & E & Hcc1).
  { intros ti Hti. apply (okT_state s); [apply Hin; now left | exact Hti]. }
  rewrite E. unfold en_of at 1.
  destruct (find en (fs_trans (st c s))) as [ti|].
  - exists cc1. split; [reflexivity | exact Hcc1].
  - apply IH; [exact Hcc1 | intros z Hz; apply Hin; now right].
Qed.

(* ---- tree and configuration facts ---- *)

Lemma cfg_lt s : In s cfg -> s < nstates c.
Proof. destruct HL as [_ Hb]. apply Hb. Qed.

Lemma anc_active a s : Anc a s -> In s cfg -> In a cfg.
Proof.
  destruct HL as [Hleg _]. induction 1 as [i p Hp|i p a Hp Ha IH]; intros Hi.
  - exact (lg_parent _ _ _ _ Hleg i p Hi Hp).
  - apply IH. exact (lg_parent _ _ _ _ Hleg i p Hi Hp).
Qed.

Lemma anc_block a s : Anc a s -> a < s /\ s < a + fs_size (st c a).
Proof.
  intros H. pose proof (anc_lt c W a s H) as [Hlo Hhi]. apply (wf_interval c W a s); [lia | lia | exact H].
Qed.

Lemma unrelated_block s s' : s < nstates c -> s' < nstates c -> s < s' -> ~ Anc s s' -> s + fs_size (st c s) <= s'.
Proof.
  intros Hs Hs' Hlt Hn. destruct (Nat.le_gt_cases (s + fs_size (st c s)) s') as [|Hgt]; [assumption|].
  exfalso. apply Hn. apply (wf_interval c W s s' Hs Hs'). lia.
Qed.

Lemma eno_in s ti : eno s = Some ti -> In ti (fs_trans (st c s)) /\ en ti = true.
Proof. unfold en_of. intros H. apply find_some in H. exact H. Qed.

(* under H1 a state and one of its proper ancestors do not both have an enabled transition *)
Lemma eno_unrelated s1 s2 t1 t2 : In s1 cfg -> In s2 cfg -> eno s1 = Some t1 -> eno s2 = Some t2 -> ~ Anc s1 s2.
Proof.
  intros Hs1 Hs2 E1 E2 Ha. apply eno_in in E1 as [A1 B1]. apply eno_in in E2 as [A2 B2].
  exact (H1b s1 s2 t1 t2 Hs1 Hs2 Ha A1 A2 B1 B2).
Qed.

Lemma pick_state sel s : In s cfg ->
  pick_trans lg_fixed c cfg ev sel (fs_trans (st c s)) x =
  (match eno s with Some ti => if existsb (confL ti) sel then None else Some ti | None => None end, x).
Proof.
  intros Hs. rewrite pick_trans_spec by (intros ti Hti; now apply (okT_state s)).
  rewrite (find_and_unique en (fun ti => negb (existsb (confL ti) sel))).
  - unfold en_of. destruct (find en (fs_trans (st c s))) as [ti|]; [|reflexivity].
    destruct (existsb (confL ti) sel); reflexivity.
  - intros a b Ha Hb. now apply (H1a s).
Qed.

(* ---- (2) SELECT_TRANSITIONS is a greedy filter over the enabled transitions of the candidate states ---- *)

Definition skip_inv (skip : option nat) : Prop :=
  match skip with
  | Some cur => exists d, In d cfg /\ (d = cur \/ Anc cur d) /\ eno d <> None
  | None => True
  end.

Lemma select_loop_spec order : forall skip sel,
  (forall s, In s order -> In s cfg) -> skip_inv skip ->
  select_loop lg_fixed c cfg ev order skip sel x = (greedy_ins confL (filter_map eno order) sel, x).
Proof.
  induction order as [|s r IH]; intros skip sel Hord Hskip; cbn [select_loop filter_map greedy_ins]; [reflexivity|].
  assert (Hs : In s cfg) by (apply Hord; now left).
  assert (Hr : forall z, In z r -> In z cfg) by (intros z Hz; apply Hord; now right).
  destruct (match skip with
            | Some cur => match fs_parent (st c cur) with Some p => p =? s | None => false end
            | None => false end) eqn:Hsk.
  - destruct skip as [cur|]; [|discriminate].
    destruct (fs_parent (st c cur)) as [p|] eqn:Hp; [|discriminate]. apply Nat.eqb_eq in Hsk. subst p.
    destruct Hskip as (d & Hd & Hrel & Hen).
    assert (Ha : Anc s d).
    { destruct Hrel as [->|Hrel]; [now apply anc_parent|]. eapply anc_trans; [apply anc_parent; exact Hp | exact Hrel]. }
    destruct (eno s) as [ti|] eqn:Es.
    + exfalso. destruct (eno d) as [td|] eqn:Ed; [|congruence].
      exact (eno_unrelated s d ti td Hs Hd Es Ed Ha).
    + apply IH; [exact Hr|]. exists d. split; [exact Hd|]. split; [now right | exact Hen].
  - rewrite (pick_state sel s Hs). destruct (eno s) as [ti|] eqn:Es.
    + cbn [greedy_ins]. destruct (existsb (confL ti) sel).
      * apply IH; [exact Hr | exact I].
      * apply IH; [exact Hr|]. exists s. split; [exact Hs|]. split; [now left | congruence].
    + apply IH; [exact Hr | exact I].
Qed.

(* ---- (3) the candidate order lists the enabled transitions by ascending index ---- *)

Lemma In_cfg_postfix s : In s (cfg_postfix c cfg) <-> In s cfg /\ fs_trans (st c s) <> [].
Proof.
  unfold cfg_postfix.
  destruct (fold_insert_by (first_trans c) (filter (fun s0 => match fs_trans (st c s0) with [] => false | _ :: _ => true end) cfg) [] I) as [_ B].
  rewrite B, filter_In. cbn [In]. destruct (fs_trans (st c s)); split; intros H.
  - destruct H as [[]|[_ H]]. discriminate.
  - destruct H as [_ H]. congruence.
  - destruct H as [[]|[H _]]. split; [exact H | discriminate].
  - right. split; [tauto | reflexivity].
Qed.

Lemma cfg_postfix_ksorted : ksorted (first_trans c) (cfg_postfix c cfg).
Proof. unfold cfg_postfix. apply fold_insert_by. exact I. Qed.

Lemma first_trans_in s : fs_trans (st c s) <> [] -> In (first_trans c s) (fs_trans (st c s)).
Proof. unfold first_trans. destruct (fs_trans (st c s)); [congruence | intros _; now left]. Qed.

Lemma candidates_sorted order : ksorted (first_trans c) order -> NoDup order -> (forall s, In s order -> In s cfg) ->
  ssorted (filter_map eno order).
Proof.
  induction order as [|s r IH]; intros Hk Hnd Hin; cbn [filter_map]; [exact I|].
  cbn [ksorted] in Hk. destruct Hk as [Hk1 Hk2]. inversion Hnd as [|? ? Hnot Hnd']; subst.
  assert (IHr : ssorted (filter_map eno r)) by (apply IH; [exact Hk2 | exact Hnd' | intros z Hz; apply Hin; now right]).
  destruct (eno s) as [ti|] eqn:Es; [|exact IHr].
  cbn [ssorted]. split; [|exact IHr].
  intros tj Htj. apply In_filter_map in Htj as (s' & Hs' & Es').
  assert (Hs : In s cfg) by (apply Hin; now left).
  assert (Hs'c : In s' cfg) by (apply Hin; now right).
  pose proof (eno_in _ _ Es) as [Hti _]. pose proof (eno_in _ _ Es') as [Htj _].
  pose proof (cfg_lt s Hs) as Hsn. pose proof (cfg_lt s' Hs'c) as Hs'n.
  assert (Hne : s <> s') by (intros ->; contradiction).
  destruct (Nat.lt_ge_cases s s') as [Hlt|Hge].
  - apply (ORD s s' ti tj Hsn Hs'n); [|exact Hti | exact Htj].
    apply unrelated_block; [exact Hsn | exact Hs'n | exact Hlt | exact (eno_unrelated s s' ti tj Hs Hs'c Es Es')].
  - exfalso. assert (Hlt : s' < s) by lia.
    assert (Hb : s' + fs_size (st c s') <= s).
    { apply unrelated_block; [exact Hs'n | exact Hsn | exact Hlt | exact (eno_unrelated s' s tj ti Hs'c Hs Es' Es)]. }
    assert (Hf : first_trans c s' < first_trans c s).
    { apply (ORD s' s _ _ Hs'n Hsn Hb); apply first_trans_in; intros E; [rewrite E in Htj | rewrite E in Hti]; contradiction. }
    specialize (Hk1 s' Hs'). lia.
Qed.

Definition EL : list nat := filter_map eno (cfg_postfix c cfg).

Lemma EL_sorted : ssorted EL.
Proof.
  apply candidates_sorted; [exact cfg_postfix_ksorted | apply cfg_postfix_NoDup; now apply ssorted_NoDup|].
  intros s Hs. now apply In_cfg_postfix in Hs.
Qed.

Definition Enab (t : nat) : Prop := exists s, In s cfg /\ eno s = Some t.

Lemma In_EL t : In t EL <-> Enab t.
Proof.
  unfold EL, Enab. rewrite In_filter_map. split; intros (s & Hs & E); exists s; (split; [|exact E]).
  - now apply In_cfg_postfix in Hs.
  - apply In_cfg_postfix. split; [exact Hs|]. apply eno_in in E as [Hin _]. intros E0. rewrite E0 in Hin. contradiction.
Qed.

Lemma select_loop_greedy :
  select_loop lg_fixed c cfg ev (cfg_postfix c cfg) None [] x = (greedy confL EL [], x).
Proof.
  rewrite select_loop_spec; [|intros s Hs; now apply In_cfg_postfix in Hs | exact I].
  fold EL. rewrite greedy_ins_app; [reflexivity | exact EL_sorted | intros a b []].
Qed.

(* ---- (4) Appendix D: the chain walk from every active atomic state ---- *)

Lemma ancs_sound fuel : forall i a, In a (proper_ancestors c fuel i None) -> Anc a i.
Proof.
  induction fuel as [|f IH]; intros i a; cbn [proper_ancestors]; [intros []|].
  destruct (fs_parent (st c i)) as [p|] eqn:Hp; [|intros []].
  intros [<-|Hin]; [now apply anc_parent|]. eapply anc_step; [exact Hp | now apply IH].
Qed.

Lemma ancs_complete fuel : forall i a, i < fuel -> Anc a i -> In a (proper_ancestors c fuel i None).
Proof.
  induction fuel as [|f IH]; intros i a Hi Ha; [lia|]. cbn [proper_ancestors].
  inversion Ha as [? p Hp|? p ? Hp Hap]; subst; rewrite Hp.
  - now left.
  - right. apply IH; [|exact Hap]. destruct (wf_par_lt c W _ _ Hp). lia.
Qed.

Lemma In_chain a s : In a cfg -> (In s (a :: ancs c a None) <-> s = a \/ Anc s a).
Proof.
  intros Ha. cbn [In]. unfold ancs, Spec.n. split.
  - intros [<-|H]; [now left | right; eapply ancs_sound; exact H].
  - intros [->|H]; [now left | right; apply ancs_complete; [now apply cfg_lt | exact H]].
Qed.

Lemma chain_active a : In a cfg -> forall s, In s (a :: ancs c a None) -> In s cfg.
Proof. intros Ha s Hs. apply (In_chain a s Ha) in Hs as [->|Hs]; [exact Ha | now apply (anc_active s a)]. Qed.

Lemma is_descendant_anc s a : is_descendant c s a = true -> Anc a s.
Proof. unfold is_descendant. intros H. apply mem_In in H. eapply ancs_sound. exact H. Qed.

(* every active state has an active atomic state at or below it *)
Lemma atomic_below : forall k s, nstates c - s <= k -> In s cfg ->
  exists a, In a cfg /\ is_atomic_state c a = true /\ (s = a \/ Anc s a).
Proof.
  destruct HL as [Hleg _].
  induction k as [|k IH]; intros s Hk Hs; pose proof (cfg_lt s Hs) as Hsn; [lia|].
  assert (Hchild : forall j, In j (fs_children (st c s)) -> In j cfg ->
            exists a, In a cfg /\ is_atomic_state c a = true /\ (s = a \/ Anc s a)).
  { intros j Hj Hjc. apply (wf_children c W) in Hj. destruct (wf_par_lt c W _ _ Hj) as [Hlt _].
    destruct (IH j ltac:(lia) Hjc) as (a & Ha & Hat & Hrel). exists a. split; [exact Ha|]. split; [exact Hat|]. right.
    destruct Hrel as [<-|Hrel]; [now apply anc_parent | eapply anc_trans; [apply anc_parent; exact Hj | exact Hrel]]. }
  destruct (wf_types c W s) as [Ht|[Ht|[Ht|Ht]]].
  - exists s. split; [exact Hs|]. split; [unfold is_atomic_state, sty; now rewrite Ht | now left].
  - destruct (lg_compound_ex _ _ _ _ Hleg s Hs Ht) as (j & Hj & Hjc). exact (Hchild j Hj Hjc).
  - pose proof (PAR s Hs Ht) as Hne. destruct (fs_children (st c s)) as [|j r] eqn:Hch; [congruence|].
    assert (Hj : In j (fs_children (st c s))) by (rewrite Hch; now left).
    apply (Hchild j); [rewrite <- Hch; exact Hj|]. exact (lg_parallel _ _ _ _ Hleg s j Hs Ht Hj).
  - exists s. split; [exact Hs|]. split; [unfold is_atomic_state, sty; now rewrite Ht | now left].
Qed.

Definition chain_en (a : nat) : option nat := firstsome eno (a :: ancs c a None).

Lemma chain_en_some a t : In a cfg -> chain_en a = Some t ->
  exists s, (s = a \/ Anc s a) /\ In s cfg /\ eno s = Some t.
Proof.
  intros Ha H. apply firstsome_some in H as (s & Hs & E). exists s.
  split; [now apply (In_chain a s Ha) | split; [now apply (chain_active a Ha) | exact E]].
Qed.

Lemma chain_en_complete a s t : In a cfg -> (s = a \/ Anc s a) -> In s cfg -> eno s = Some t -> chain_en a = Some t.
Proof.
  intros Ha Hrel Hs E. destruct (chain_en a) as [t'|] eqn:Hc.
  - destruct (chain_en_some a t' Ha Hc) as (s' & Hrel' & Hs' & E').
    assert (s' = s).
    { destruct Hrel as [->|Hrel], Hrel' as [->|Hrel']; [reflexivity | | |].
      - exfalso. exact (eno_unrelated s' a t' t Hs' Ha E' E Hrel').
      - exfalso. exact (eno_unrelated s a t t' Hs Ha E E' Hrel).
      - destruct (anc_chain c s s' a Hrel Hrel') as [->|[H|H]]; [reflexivity | exfalso | exfalso].
        + exact (eno_unrelated s s' t t' Hs Hs' E E' H).
        + exact (eno_unrelated s' s t' t Hs' Hs E' E H). }
    subst s'. congruence.
  - exfalso. pose proof (firstsome_none _ _ Hc s (proj2 (In_chain a s Ha) Hrel)) as Hn. congruence.
Qed.

Definition enfold (L : list nat) (en0 : list nat) : list nat :=
  fold_left (fun e a => match chain_en a with Some ti => addn ti e | None => e end) L en0.

Lemma spec_fold L : forall en0 cc0, cache_ok cc0 -> (forall a, In a L -> In a cfg) ->
  exists cc',
    fold_left (fun (acc : list nat * cond_cache * xstate) s =>
                 let '(e, cc, x0) := acc in
                 let '(o, cc', x') := first_in_chain c cfg ev (s :: ancs c s None) cc x0 in
                 match o with Some ti => (addn ti e, cc', x') | None => (e, cc', x') end)
              L (en0, cc0, x) = (enfold L en0, cc', x).
Proof.
  induction L as [|a r IH]; intros en0 cc0 Hcc Hin; cbn [fold_left enfold]; [now exists cc0|].
  destruct (first_in_chain_spec (a :: ancs c a None) cc0 Hcc (chain_active a (Hin a (or_introl eq_refl)))) as (cc1 & E & Hcc1).
  rewrite E. fold (chain_en a).
  destruct (chain_en a) as [ti|].
  - destruct (IH (addn ti en0) cc1 Hcc1 (fun z Hz => Hin z (or_intror Hz))) as (cc2 & E2). exists cc2. exact E2.
  - destruct (IH en0 cc1 Hcc1 (fun z Hz => Hin z (or_intror Hz))) as (cc2 & E2). exists cc2. exact E2.
Qed.

(* the list of enabled transitions Appendix D builds is ascending, too *)
Lemma enfold_spec L : forall en0, ssorted L -> (forall a, In a L -> In a cfg) -> ssorted en0 ->
  (forall tj, In tj en0 -> exists a' s', (forall a, In a L -> a' < a) /\ In a' cfg /\ (s' = a' \/ Anc s' a') /\
                                         In s' cfg /\ eno s' = Some tj) ->
  ssorted (enfold L en0) /\
  (forall t, In t (enfold L en0) <-> In t en0 \/ exists a, In a L /\ chain_en a = Some t).
Proof.
  induction L as [|a r IH]; intros en0 HsL Hin Hs0 Hw; cbn [enfold fold_left].
  - split; [exact Hs0|]. intros t. split; [tauto | intros [H|(a & [] & _)]; exact H].
  - cbn [ssorted] in HsL. destruct HsL as [Har Hsr].
    assert (Ha : In a cfg) by (apply Hin; now left).
    assert (Hinr : forall z, In z r -> In z cfg) by (intros z Hz; apply Hin; now right).
    assert (Hw' : forall tj, In tj en0 -> exists a' s', (forall a0, In a0 r -> a' < a0) /\ In a' cfg /\ (s' = a' \/ Anc s' a') /\
                                                        In s' cfg /\ eno s' = Some tj).
    { intros tj Htj. destruct (Hw tj Htj) as (a' & s' & P1 & P2). exists a', s'. split; [intros a0 H0; apply P1; now right | exact P2]. }
    destruct (chain_en a) as [ti|] eqn:Hc.
    + destruct (in_dec Nat.eq_dec ti en0) as [Hi|Hni].
      * rewrite (addn_in ti en0 Hi). destruct (IH en0 Hsr Hinr Hs0 Hw') as [A B]. split; [exact A|].
        intros t. rewrite B. split.
        -- intros [H|(a0 & H0 & E0)]; [now left | right; exists a0; split; [now right | exact E0]].
        -- intros [H|(a0 & [<-|H0] & E0)]; [now left | left; congruence | right; exists a0; tauto].
      * rewrite (addn_notin ti en0 Hni).
        destruct (chain_en_some a ti Ha Hc) as (s & Hrel & Hs & Es).
        assert (Hlt : forall tj, In tj en0 -> tj < ti).
        { intros tj Htj. destruct (Hw tj Htj) as (a' & s' & P1 & Ha' & Hrel' & Hs' & Es').
          assert (Haa : a' < a) by (apply P1; now left).
          pose proof (cfg_lt s Hs) as Hsn. pose proof (cfg_lt s' Hs') as Hs'n.
          assert (Hne : s' <> s) by (intros ->; rewrite Es in Es'; injection Es' as ->; contradiction).
          pose proof (eno_in _ _ Es) as [Hti _]. pose proof (eno_in _ _ Es') as [Htj' _].
          apply (ORD s' s tj ti Hs'n Hsn); [|exact Htj' | exact Hti].
          destruct (Nat.lt_ge_cases s' s) as [Hl|Hg].
          - apply unrelated_block; [exact Hs'n | exact Hsn | exact Hl | exact (eno_unrelated s' s tj ti Hs' Hs Es' Es)].
          - exfalso. assert (Hl : s < s') by lia.
            assert (Hb : s + fs_size (st c s) <= s').
            { apply unrelated_block; [exact Hsn | exact Hs'n | exact Hl | exact (eno_unrelated s s' ti tj Hs Hs' Es Es')]. }
            assert (Hs'a' : s' <= a') by (destruct Hrel' as [->|Hr']; [lia | apply anc_block in Hr'; lia]).
            destruct Hrel as [->|Hrel]; [lia | apply anc_block in Hrel; lia]. }
        destruct (IH (en0 ++ [ti]) Hsr Hinr (ssorted_app_last en0 ti Hs0 Hlt)) as [A B].
        { intros tj Htj. apply in_app_iff in Htj as [Htj|[<-|[]]]; [now apply Hw'|].
          exists a, s. split; [exact Har|]. split; [exact Ha|]. split; [exact Hrel|]. split; [exact Hs | exact Es]. }
        split; [exact A|]. intros t. rewrite B, in_app_iff. cbn [In]. split.
        -- intros [[H|[<-|[]]]|(a0 & H0 & E0)];
             [left; exact H | right; exists a; split; [now left | exact Hc] | right; exists a0; split; [now right | exact E0]].
        -- intros [H|(a0 & [<-|H0] & E0)]; [left; now left | left; right; left; congruence | right; exists a0; tauto].
    + destruct (IH en0 Hsr Hinr Hs0 Hw') as [A B]. split; [exact A|].
      intros t. rewrite B. split.
      * intros [H|(a0 & H0 & E0)]; [now left | right; exists a0; split; [now right | exact E0]].
      * intros [H|(a0 & [<-|H0] & E0)]; [now left | congruence | right; exists a0; tauto].
Qed.

Definition atomics : list nat := filter (is_atomic_state c) cfg.
Definition ES : list nat := enfold atomics [].

Lemma ES_spec : ssorted ES /\ forall t, In t ES <-> Enab t.
Proof.
  destruct (enfold_spec atomics []) as [A B].
  - apply ssorted_filter. exact Hasc.
  - intros a Ha. apply filter_In in Ha. tauto.
  - exact I.
  - intros tj [].
  - split; [exact A|]. intros t. unfold ES. rewrite B. split.
    + intros [[]|(a & Ha & Hc)]. apply filter_In in Ha as [Ha _].
      destruct (chain_en_some a t Ha Hc) as (s & _ & Hs & E). exists s. tauto.
    + intros (s & Hs & E). right.
      destruct (atomic_below (nstates c - s) s (le_n _) Hs) as (a & Ha & Hat & Hrel).
      exists a. split; [apply filter_In; tauto|].
      apply (chain_en_complete a s t Ha); [destruct Hrel as [->|Hr]; [now left | now right] | exact Hs | exact E].
Qed.

(* ---- (1)+(2)+(3): both sides work on the same list of enabled transitions ---- *)
Lemma ES_EL : ES = EL.
Proof.
  destruct ES_spec as [A B]. apply ssorted_ext; [exact A | exact EL_sorted|].
  intros t. rewrite B, In_EL. tauto.
Qed.

Lemma spec_enabled :
  exists cc',
    fold_left (fun (acc : list nat * cond_cache * xstate) s =>
                 let '(e, cc, x0) := acc in
                 let '(o, cc', x') := first_in_chain c cfg ev (s :: ancs c s None) cc x0 in
                 match o with Some ti => (addn ti e, cc', x') | None => (e, cc', x') end)
              (filter (is_atomic_state c) cfg) ([], [], x) = (EL, cc', x).
Proof.
  destruct (spec_fold atomics [] []) as (cc' & E).
  - intros p [].
  - intros a Ha. apply filter_In in Ha. tauto.
  - exists cc'. rewrite <- ES_EL. exact E.
Qed.

(* ---- (4) the conflict filters ---- *)

Lemma remove_conflicting_greedy (P : nat -> Prop) :
  (forall t1 t2, P t1 -> P t2 -> is_descendant c (ft_source (tr c t1)) (ft_source (tr c t2)) = false) ->
  forall l filtered, (forall t, In t l -> P t) -> (forall t, In t filtered -> P t) ->
  fold_left
    (fun filtered t1 =>
       let x1 := compute_exit_set c cfg h [tr c t1] in
       let '(preempted, to_remove) :=
         fold_left (fun (acc : bool * list nat) t2 =>
                      let '(pre, rem) := acc in
                      if pre then acc
                      else if has_intersection x1 (compute_exit_set c cfg h [tr c t2]) then
                        if is_descendant c (ft_source (tr c t1)) (ft_source (tr c t2)) then (false, rem ++ [t2])
                        else (true, rem)
                      else acc) filtered (false, []) in
       if preempted then filtered
       else filter (fun t => negb (mem t to_remove)) filtered ++ [t1])
    l filtered = greedy confS l filtered.
Proof.
  intros Hnd. induction l as [|t1 r IH]; intros filtered Hl Hf; cbn [fold_left greedy]; [reflexivity|].
  assert (Ht1 : P t1) by (apply Hl; now left).
  assert (Hinner : forall fl pre, (forall t, In t fl -> P t) ->
            fold_left (fun (acc : bool * list nat) t2 =>
                      let '(pre, rem) := acc in
                      if pre then acc
                      else if has_intersection (compute_exit_set c cfg h [tr c t1]) (compute_exit_set c cfg h [tr c t2]) then
                        if is_descendant c (ft_source (tr c t1)) (ft_source (tr c t2)) then (false, rem ++ [t2])
                        else (true, rem)
                      else acc) fl (pre, []) = (pre || existsb (confS t1) fl, [])).
  { induction fl as [|t2 fl IHf]; intros pre Hfl; cbn [fold_left existsb]; [now rewrite orb_false_r|].
    assert (Hfl' : forall t, In t fl -> P t) by (intros t Ht; apply Hfl; now right).
    destruct pre; cbn [orb].
    - rewrite (IHf true Hfl'). reflexivity.
    - rewrite (Hnd t1 t2 Ht1 (Hfl t2 (or_introl eq_refl))).
      destruct (has_intersection (compute_exit_set c cfg h [tr c t1]) (compute_exit_set c cfg h [tr c t2])); cbn [orb].
      + rewrite (IHf true Hfl'). reflexivity.
      + rewrite (IHf false Hfl'). reflexivity. }
  rewrite (Hinner filtered false Hf). cbn [orb].
  destruct (existsb (confS t1) filtered).
  - apply IH; [intros t Ht; apply Hl; now right | exact Hf].
  - rewrite filter_all by (intros; reflexivity).
    apply IH; [intros t Ht; apply Hl; now right|].
    intros t Ht. apply in_app_iff in Ht as [Ht|[<-|[]]]; [now apply Hf | exact Ht1].
Qed.

Lemma exit_interval_fixed t :
  exit_interval lg_fixed c t = match domain c t with None => (0, 0) | Some d => (S d, d + fs_size (st c d) - 1) end.
Proof. unfold exit_interval. destruct (domain c t); reflexivity. Qed.

Lemma has_intersection_spec a b : has_intersection a b = true <-> exists z, In z a /\ In z b.
Proof.
  unfold has_intersection. rewrite existsb_exists. split; intros (z & Hz1 & Hz2); exists z; (split; [exact Hz1|]); now apply mem_In.
Qed.

(* an active state below the domain of a transition of an active state *)
Lemma dom_witness s ti d : In s cfg -> In ti (fs_trans (st c s)) -> domain c (tr c ti) = Some d ->
  d < nstates c /\ exists w, In w cfg /\ Anc d w.
Proof.
  intros Hs Hti Hd. pose proof (wf_tr_src c W s ti Hti) as Hsrc. pose proof (cfg_lt s Hs) as Hsn.
  destruct (domain_spec c W ti d) as (_ & Hk & _ & Hrel); [rewrite Hsrc; exact Hsn | exact Hd|].
  rewrite Hsrc in Hrel. destruct Hrel as [->|Hrel].
  - split; [exact Hsn|]. assert (Hc : fs_type (st c s) = FCompound) by (destruct Hk as [Hk| ->]; [exact Hk | exact root_compound]).
    destruct HL as [Hleg _]. destruct (lg_compound_ex _ _ _ _ Hleg s Hs Hc) as (k & Hk1 & Hk2).
    exists k. split; [exact Hk2|]. apply anc_parent. now apply (wf_children c W).
  - split; [pose proof (anc_lt c W d s Hrel); lia|]. exists s. split; [exact Hs | exact Hrel].
Qed.

Lemma In_exitL ti z : In z (exit_states_of lg_fixed c cfg (tr c ti)) <->
  exists d, domain c (tr c ti) = Some d /\ In z cfg /\ d < z /\ z < d + fs_size (st c d).
Proof.
  unfold exit_states_of. rewrite exit_interval_fixed. destruct (domain c (tr c ti)) as [d|].
  - cbn [Nat.eqb andb]. rewrite filter_In, andb_true_iff, !Nat.leb_le. split.
    + intros (Hz & A & B). exists d. repeat split; [exact Hz | lia | lia].
    + intros (d' & [= <-] & Hz & A & B). repeat split; [exact Hz | lia | lia].
  - cbn. split; [intros [] | intros (d & Hd & _); discriminate].
Qed.

Lemma conf_agree s1 s2 t1 t2 : In s1 cfg -> In t1 (fs_trans (st c s1)) -> In s2 cfg -> In t2 (fs_trans (st c s2)) ->
  confL t1 t2 = confS t1 t2.
Proof.
  intros Hs1 Ht1 Hs2 Ht2. apply Bool.eq_iff_eq_true.
  rewrite has_intersection_spec.
  assert (Hx : (exists z, In z (XS t1) /\ In z (XS t2)) <->
               (exists z, In z (exit_states_of lg_fixed c cfg (tr c t1)) /\ In z (exit_states_of lg_fixed c cfg (tr c t2)))).
  { split; intros (z & A & B); exists z; (split; [now apply (exit_set_agrees s1 t1 Hs1 Ht1) | now apply (exit_set_agrees s2 t2 Hs2 Ht2)]). }
  rewrite Hx. unfold conflicts. rewrite !exit_interval_fixed.
  destruct (domain c (tr c t1)) as [d1|] eqn:Hd1; destruct (domain c (tr c t2)) as [d2|] eqn:Hd2.
  2,3,4: (cbn; split; [discriminate|]; intros (z & A & B); apply In_exitL in A as (d & Hd & _);
          apply In_exitL in B as (d' & Hd' & _); congruence).
  cbn [Nat.eqb negb andb]. rewrite orb_true_iff, !andb_true_iff, !Nat.leb_le.
  destruct (dom_witness s1 t1 d1 Hs1 Ht1 Hd1) as (Hd1n & w1 & Hw1 & Ha1).
  destruct (dom_witness s2 t2 d2 Hs2 Ht2 Hd2) as (Hd2n & w2 & Hw2 & Ha2).
  pose proof (anc_block _ _ Ha1) as B1. pose proof (anc_block _ _ Ha2) as B2.
  split.
  - intros [[A B]|[A B]].
    + exists w2. split; apply In_exitL; [exists d1 | exists d2]; (split; [assumption|]); (split; [exact Hw2|]); [|exact B2].
      destruct (Nat.eq_dec d1 d2) as [->|Hne]; [exact B2|].
      apply anc_block. eapply anc_trans; [|exact Ha2]. apply (wf_interval c W d1 d2 Hd1n Hd2n). lia.
    + exists w1. split; apply In_exitL; [exists d1 | exists d2]; (split; [assumption|]); (split; [exact Hw1|]); [exact B1|].
      destruct (Nat.eq_dec d1 d2) as [->|Hne]; [exact B1|].
      apply anc_block. eapply anc_trans; [|exact Ha1]. apply (wf_interval c W d2 d1 Hd2n Hd1n). lia.
  - intros (z & A & B). apply In_exitL in A as (e1 & E1 & _ & A1 & A2). apply In_exitL in B as (e2 & E2 & _ & A3 & A4).
    rewrite Hd1 in E1. rewrite Hd2 in E2. injection E1 as <-. injection E2 as <-. lia.
Qed.

(* ---- the theorems ---- *)

(* the list of enabled transitions (Appendix D: enabledTransitions before removeConflictingTransitions;
   engine: the first enabled transition of each candidate state) is the same list, and computing it
   leaves the execution state alone *)
Theorem enabled_transitions_conform_sec :
  (exists cc',
    fold_left (fun (acc : list nat * cond_cache * xstate) s =>
                 let '(e, cc, x0) := acc in
                 let '(o, cc', x') := first_in_chain c cfg ev (s :: ancs c s None) cc x0 in
                 match o with Some ti => (addn ti e, cc', x') | None => (e, cc', x') end)
              (filter (is_atomic_state c) cfg) ([], [], x) = (filter_map eno (cfg_postfix c cfg), cc', x)) /\
  select_loop lg_fixed c cfg ev (cfg_postfix c cfg) None [] x =
    (greedy confL (filter_map eno (cfg_postfix c cfg)) [], x) /\
  ssorted (filter_map eno (cfg_postfix c cfg)) /\
  (forall t, In t (filter_map eno (cfg_postfix c cfg)) <-> exists s, In s cfg /\ eno s = Some t).
Proof.
  split; [exact spec_enabled|]. split; [exact select_loop_greedy|]. split; [exact EL_sorted | exact In_EL].
Qed.

Theorem selection_conforms_sec :
  select_loop lg_fixed c cfg ev (cfg_postfix c cfg) None [] x = select_transitions c cfg h ev x.
Proof.
  rewrite select_loop_greedy. unfold select_transitions. cbn zeta.
  destruct spec_enabled as (cc' & E). rewrite E.
  unfold remove_conflicting.
  rewrite (remove_conflicting_greedy Enab).
  - f_equal. apply (greedy_ext _ _ Enab).
    + intros a b (s1 & Hs1 & E1) (s2 & Hs2 & E2). apply eno_in in E1 as [A1 _]. apply eno_in in E2 as [A2 _].
      exact (conf_agree s1 s2 a b Hs1 A1 Hs2 A2).
    + intros a [].
    + intros a Ha. now apply In_EL.
  - intros t1 t2 (s1 & Hs1 & E1) (s2 & Hs2 & E2).
    destruct (is_descendant c (ft_source (tr c t1)) (ft_source (tr c t2))) eqn:Hd; [|reflexivity].
    exfalso. apply is_descendant_anc in Hd.
    pose proof (eno_in _ _ E1) as [A1 _]. pose proof (eno_in _ _ E2) as [A2 _].
    rewrite (wf_tr_src c W s1 t1 A1), (wf_tr_src c W s2 t2 A2) in Hd.
    exact (eno_unrelated s2 s1 t2 t1 Hs2 Hs1 E2 E1 Hd).
  - intros t Ht. now apply In_EL.
  - intros t [].
Qed.

End Conform.

(* ------------------------------------------------------------------ the boolean hypotheses *)

Lemma forallb_seq_lt (f : nat -> bool) m : forallb f (seq 0 m) = true -> forall i, i < m -> f i = true.
Proof. intros H i Hi. rewrite forallb_forall in H. apply H. apply in_seq. lia. Qed.

Lemma unrelated_enabledb_sound c cfg ev x : WF c -> unrelated_enabledb c cfg ev x = true ->
  (forall s t1 t2, In s cfg -> In t1 (fs_trans (st c s)) -> In t2 (fs_trans (st c s)) ->
     enabledb c cfg ev x t1 = true -> enabledb c cfg ev x t2 = true -> t1 = t2) /\
  (forall s1 s2 t1 t2, In s1 cfg -> In s2 cfg -> LegalAbstract.Anc (fun i => fs_parent (st c i)) s1 s2 ->
     In t1 (fs_trans (st c s1)) -> In t2 (fs_trans (st c s2)) ->
     enabledb c cfg ev x t1 = true -> enabledb c cfg ev x t2 = true -> False).
Proof.
  intros W H. unfold unrelated_enabledb in H. rewrite forallb_forall in H.
  assert (Hk : forall s1 s2 t1 t2, In s1 cfg -> In s2 cfg ->
            (s1 =? s2) || mem s1 (fs_ancestors (st c s2)) = true ->
            In t1 (fs_trans (st c s1)) -> In t2 (fs_trans (st c s2)) ->
            enabledb c cfg ev x t1 = true -> enabledb c cfg ev x t2 = true -> s1 = s2 /\ t1 = t2).
  { intros s1 s2 t1 t2 Hs1 Hs2 Hrel Ht1 Ht2 E1 E2. specialize (H s1 Hs1). rewrite forallb_forall in H. specialize (H s2 Hs2).
    rewrite Hrel in H. rewrite forallb_forall in H. specialize (H t1 Ht1). rewrite forallb_forall in H. specialize (H t2 Ht2).
    rewrite E1, E2 in H. cbn [andb negb orb] in H. apply andb_true_iff in H as [A B].
    apply Nat.eqb_eq in A, B. tauto. }
  split.
  - intros s t1 t2 Hs Ht1 Ht2 E1 E2. apply (Hk s s t1 t2 Hs Hs); try assumption. now rewrite Nat.eqb_refl.
  - intros s1 s2 t1 t2 Hs1 Hs2 Ha Ht1 Ht2 E1 E2.
    destruct (Hk s1 s2 t1 t2 Hs1 Hs2) as [-> _]; try assumption.
    + apply orb_true_iff. right. apply mem_In. now apply (wf_anc c W).
    + exact (anc_irrefl c W s2 Ha).
Qed.

Lemma conds_pureb_sound c cfg x : conds_pureb c cfg x = true ->
  forall s ti cnd, In s cfg -> In ti (fs_trans (st c s)) -> ft_cond (tr c ti) = Some cnd ->
  snd (is_true (inst_of c cfg) cnd x) = x.
Proof.
  intros H s ti cnd Hs Hti Hc. unfold conds_pureb in H. rewrite forallb_forall in H. specialize (H s Hs).
  rewrite forallb_forall in H. specialize (H ti Hti). rewrite Hc in H. unfold is_true.
  destruct (beval (inst_of c cfg) (x_store x) cnd); [reflexivity | discriminate].
Qed.

Lemma descs_okb_sound c cfg ev : descs_okb c cfg ev = true ->
  forall s ti e, In s cfg -> In ti (fs_trans (st c s)) -> ev = Some e -> ft_spontaneous (tr c ti) = false ->
  name_match_impl nm_fixed (ft_event (tr c ti)) (ev_name e) = name_match_spec (ft_event (tr c ti)) (ev_name e).
Proof.
  intros H s ti e Hs Hti -> Hsp. unfold descs_okb in H. apply andb_true_iff in H as [Hns H].
  rewrite forallb_forall in H. specialize (H s Hs). rewrite forallb_forall in H. specialize (H ti Hti).
  rewrite Hsp in H. cbn [orb] in H. now apply name_match_correct_lemma.
Qed.

Lemma trans_orderb_sound c : trans_orderb c = true ->
  forall s1 s2 t1 t2, s1 < nstates c -> s2 < nstates c -> s1 + fs_size (st c s1) <= s2 ->
  In t1 (fs_trans (st c s1)) -> In t2 (fs_trans (st c s2)) -> t1 < t2.
Proof.
  intros H s1 s2 t1 t2 Hs1 Hs2 Hb Ht1 Ht2. unfold trans_orderb in H.
  pose proof (forallb_seq_lt _ _ (forallb_seq_lt _ _ H s1 Hs1) s2 Hs2) as H'. cbn beta in H'.
  replace (s1 + fs_size (st c s1) <=? s2) with true in H' by (symmetry; now apply Nat.leb_le).
  rewrite forallb_forall in H'. specialize (H' t1 Ht1). rewrite forallb_forall in H'. specialize (H' t2 Ht2).
  now apply Nat.ltb_lt.
Qed.

Lemma par_nonemptyb_sound c : par_nonemptyb c = true ->
  forall s, s < nstates c -> fs_type (st c s) = FParallel -> fs_children (st c s) <> [].
Proof.
  intros H s Hs Ht. pose proof (forallb_seq_lt _ _ H s Hs) as H'. cbn beta in H'. rewrite Ht in H'.
  destruct (fs_children (st c s)); [discriminate | discriminate].
Qed.

(* ------------------------------------------------------------------ the theorems on boolean hypotheses *)

Section Main.
Variable c : fchart.
Variable cfg : list nat.
Variable ev : option event.
Variable x : xstate.
Variable h : hv.
Hypothesis Hwf : wf_coreb c = true.
Hypothesis Hroot : fs_type (st c 0) = FCompound.
Hypothesis Hord : trans_orderb c = true.
Hypothesis Hpar : par_nonemptyb c = true.
Hypothesis Hlegal : legal_configb c cfg = true.
Hypothesis Hasc : ascb cfg = true.
Hypothesis H1 : unrelated_enabledb c cfg ev x = true.
Hypothesis H2 : conds_pureb c cfg x = true.
Hypothesis H3 : descs_okb c cfg ev = true.

Let W : WF c := wf_coreb_sound c Hwf.
Let HL : LegalCfg c cfg := LegalOracle.legal_configb_sound c W cfg Hlegal.

Lemma enabled_transitions_conform_lemma :
  (exists cc',
    fold_left (fun (acc : list nat * cond_cache * xstate) s =>
                 let '(e, cc, x0) := acc in
                 let '(o, cc', x') := first_in_chain c cfg ev (s :: ancs c s None) cc x0 in
                 match o with Some ti => (addn ti e, cc', x') | None => (e, cc', x') end)
              (filter (is_atomic_state c) cfg) ([], [], x) = (filter_map (en_of c cfg ev x) (cfg_postfix c cfg), cc', x)) /\
  select_loop lg_fixed c cfg ev (cfg_postfix c cfg) None [] x =
    (greedy (fun a b => conflicts lg_fixed c (tr c a) (tr c b)) (filter_map (en_of c cfg ev x) (cfg_postfix c cfg)) [], x) /\
  ssorted (filter_map (en_of c cfg ev x) (cfg_postfix c cfg)) /\
  (forall t, In t (filter_map (en_of c cfg ev x) (cfg_postfix c cfg)) <-> exists s, In s cfg /\ en_of c cfg ev x s = Some t).
Proof.
  destruct (unrelated_enabledb_sound c cfg ev x W H1) as [H1a H1b].
  apply (enabled_transitions_conform_sec c W cfg ev x HL (ascb_ssorted cfg Hasc) H1a H1b
           (conds_pureb_sound c cfg x H2) (descs_okb_sound c cfg ev H3) (trans_orderb_sound c Hord)).
  intros s Hs. apply (par_nonemptyb_sound c Hpar). destruct HL as [_ Hb]. now apply Hb.
Qed.

(* PREMISE (ExitSetLemmas.exit_set_agrees): discharged for flatten in SelectConformFlatten.v *)
Hypothesis exit_set_agrees : forall s ti, In s cfg -> In ti (fs_trans (st c s)) ->
  forall z, In z (exit_states_of lg_fixed c cfg (tr c ti)) <-> In z (compute_exit_set c cfg h [tr c ti]).

Lemma selection_conforms_lemma :
  select_loop lg_fixed c cfg ev (cfg_postfix c cfg) None [] x = select_transitions c cfg h ev x.
Proof.
  destruct (unrelated_enabledb_sound c cfg ev x W H1) as [H1a H1b].
  apply (selection_conforms_sec c W Hroot cfg ev x h HL (ascb_ssorted cfg Hasc) H1a H1b
           (conds_pureb_sound c cfg x H2) (descs_okb_sound c cfg ev H3) (trans_orderb_sound c Hord)); [|exact exit_set_agrees].
  intros s Hs. apply (par_nonemptyb_sound c Hpar). destruct HL as [_ Hb]. now apply Hb.
Qed.

End Main.
