(* FlattenWfKinds.v -- the rows of the flat tables of a document WITHOUT pseudo-states (FlattenWf.ct_kindsb):
   resortStates is the identity, so state number i is the i-th element in document order; types, children,
   completion, the id table (an id resolves to the FIRST element carrying it), and the transition table
   against the <transition> children of the elements.  Proofs only; used by FlattenWfLemmas.v (sufficiency of
   core_treeb) and FlattenWfNecessary.v (necessity). *)
From V Require Import Base Chart Tables TreeLemmas LargeCacheLemmas WfCore FlattenWf FlattenWfTree FlattenWfStruct.
Local Open Scope nat_scope.

Lemma find_none {A} (f : A -> bool) l : (forall x, In x l -> f x = false) -> find f l = None.
Proof.
  induction l as [|x r IH]; intros Hf; [reflexivity|]. cbn [find]. rewrite (Hf x (or_introl eq_refl)).
  apply IH. intros y Hy. apply Hf. now right.
Qed.

Lemma In_filter_map {A B} (f : A -> option B) l y : In y (filter_map f l) <-> exists x, In x l /\ f x = Some y.
Proof.
  induction l as [|x r IH]; cbn [filter_map]; [split; [intros [] | intros (? & [] & _)]|].
  destruct (f x) as [z|] eqn:E; cbn [In]; rewrite ?IH; split.
  - intros [<-|(x' & Hx & Hf)]; [exists x; auto | exists x'; auto].
  - intros (x' & [<-|Hx] & Hf); [left; congruence | right; eauto].
  - intros (x' & Hx & Hf). exists x'. auto.
  - intros (x' & [<-|Hx] & Hf); [congruence | eauto].
Qed.

Section Kinds.
Variable late : bool.
Variable t : tree.
Hypothesis HK : ct_kindsb t = true.
Let c := flatten late t.
Let n := tsize t.
Let nodes := nodes_of t.

Lemma core_resort_id : resort t = t. Proof. apply resort_id, HK. Qed.

Lemma c_nstates : nstates c = n.
Proof. unfold c, n. rewrite flatten_nstates, core_resort_id. reflexivity. Qed.

Lemma kinds_in u : In u (subtrees t) -> core_kind (t_kind u) = true.
Proof. apply ct_kindsb_spec, HK. Qed.

Lemma node_kind i : i < n -> core_kind (t_kind (ntree nodes i)) = true.
Proof. intros Hi. apply kinds_in. now apply ntree_in. Qed.

Lemma proper_child_kids u : In u (subtrees t) -> has_proper_child u = has_kids u.
Proof.
  intros Hu. unfold has_proper_child, has_kids. destruct (t_kids u) as [|x r] eqn:E; [reflexivity|].
  cbn [existsb]. assert (Hx : core_kind (t_kind x) = true).
  { apply kinds_in. eapply subtrees_trans; [exact Hu|]. eapply subtrees_kid; [rewrite E; now left | apply subtrees_self]. }
  unfold is_proper_kind. destruct (t_kind x); try discriminate; reflexivity.
Qed.

Lemma type_of_core u : In u (subtrees t) ->
  core_type (type_of u) = true /\ (type_of u = FCompound <-> compound_node u = true) /\
  (type_of u = FParallel <-> t_kind u = KParallel).
Proof.
  intros Hu. pose proof (kinds_in u Hu) as K. unfold type_of, compound_node. rewrite (proper_child_kids u Hu).
  destruct (t_kind u); try discriminate; destruct (has_kids u); cbn; repeat split; try congruence; try discriminate.
Qed.

(* the rows of the state table *)
Lemma c_st i : i < n ->
  fs_type (st c i) = type_of (ntree nodes i) /\
  fs_children (st c i) = child_indices (t_kids (ntree nodes i)) (S i) /\
  fs_size (st c i) = tsize (ntree nodes i) /\
  fs_completion (st c i) =
    completion_of (doc_nodes t 0 None) (fl_ids t) i (ntree nodes i) (npar nodes i)
                  (child_indices (t_kids (ntree nodes i)) (S i)).
Proof.
  intros Hi. assert (Hi' : i < tsize (resort t)) by (rewrite core_resort_id; exact Hi).
  destruct (st_flatten late t i Hi') as (_ & E2 & _ & E4 & _ & E6). fold c in E2, E4, E6.
  pose proof (fl_completion late t i Hi') as E7. fold c in E7. rewrite core_resort_id in E2, E4, E6, E7.
  rewrite <- (ntree_nodes t i Hi) in E2, E4, E6. fold nodes in E2, E4, E6, E7. repeat split; assumption.
Qed.

Lemma fl_types : wfb_types c = true.
Proof.
  unfold wfb_types. rewrite c_nstates. apply fseq. intros i Hi. destruct (c_st i Hi) as (E & _). rewrite E.
  apply type_of_core. now apply ntree_in.
Qed.

(* ---------------------------------------------------------------- ids *)
Lemma ids_eq : fl_ids t = combine (sids t) (seq 0 n).
Proof. pose proof (fl_ids_sids t) as E. rewrite core_resort_id in E. exact E. Qed.

Lemma sids_length : length (sids t) = n.
Proof. unfold sids. now rewrite map_length, subtrees_length. Qed.

Lemma sid_nth i : i < n -> nth i (sids t) 0%N = t_sid (ntree nodes i).
Proof.
  intros Hi. unfold nodes. rewrite (ntree_nth t i Hi). unfold sids.
  change 0%N with (t_sid dummy_tree). now rewrite map_nth.
Qed.

(* resolution of an id: a number whose element carries the id *)
Lemma resolve_some s g : nat_of_sid (fl_ids t) s = Some g -> g < n /\ t_sid (ntree nodes g) = s.
Proof.
  unfold nat_of_sid. rewrite ids_eq, <- sids_length. pose proof (find_combine_seq s (sids t) 0) as F.
  destruct (find _ _) as [p|]; [|discriminate]. intros E. inversion E; subst g.
  destruct F as (_ & F2 & F3 & _). rewrite Nat.sub_0_r in F3. split; [lia|].
  rewrite <- sid_nth by (rewrite <- sids_length; lia). exact F3.
Qed.

(* with unique ids: the number of the element that carries the id *)
Lemma kid_kind u x : In u (subtrees t) -> In x (t_kids u) -> core_kind (t_kind x) = true.
Proof.
  intros Hu Hx. apply kinds_in. eapply subtrees_trans; [exact Hu|]. eapply subtrees_kid; [exact Hx | apply subtrees_self].
Qed.

Lemma filter_map_proper_all u s : In u (subtrees t) ->
  filter_map (fun p : tree * nat => if is_proper_kind (t_kind (fst p)) then Some (snd p) else None)
             (combine (t_kids u) (child_indices (t_kids u) s)) = child_indices (t_kids u) s.
Proof.
  intros Hu. pose proof (fun x => kid_kind u x Hu) as K. revert s K. induction (t_kids u) as [|x r IH]; intros s K; [reflexivity|].
  cbn [child_indices combine filter_map fst snd].
  assert (Hx : is_proper_kind (t_kind x) = true).
  { specialize (K x (or_introl eq_refl)). unfold is_proper_kind. destruct (t_kind x); try discriminate; reflexivity. }
  rewrite Hx. f_equal. apply IH. intros y Hy. apply K. now right.
Qed.
(* ---------------------------------------------------------------- transitions *)

Lemma c_ntrans : ntrans c = length (trs t).
Proof. unfold c. apply fl_ntrans. Qed.

Lemma c_tr ti : ti < ntrans c ->
  exists w x k, In w (subtrees t) /\ In x (t_trans w) /\
    ft_targets (tr c ti) = match tt_targets x with Some l => filter_map (nat_of_sid (fl_ids t)) l | None => [] end /\
    tr c ti = mk_trans (fl_ids t) k (t_kind w) x.
Proof.
  intros Hti. rewrite c_ntrans in Hti. pose proof (fl_tr late t ti Hti) as E. fold c in E.
  destruct (trs_in t ti Hti) as [Hs Hx]. rewrite core_resort_id in Hs, Hx. fold n nodes in Hs, Hx.
  set (src := fst (fst (nth ti (trs t) dtr))) in *. set (x := snd (fst (nth ti (trs t) dtr))) in *.
  exists (ntree nodes src), x, src. split; [now apply ntree_in|]. split; [exact Hx|].
  assert (Hkind : snd (nth ti (trs t) dtr) = t_kind (ntree nodes src)).
  { pose proof (nth_In (trs t) dtr Hti) as Hin. unfold trs at 2 in Hin. unfold all_trans in Hin.
    apply in_flat_map in Hin. destruct Hin as (i & Hi & Hy). apply postfix_states_lt in Hi.
    rewrite (nth_nodes_ntree t i Hi) in Hy. cbn [fst] in Hy. apply in_map_iff in Hy. destruct Hy as (y & Ey & _).
    unfold src. rewrite <- Ey. cbn [fst snd]. rewrite core_resort_id. reflexivity. }
  rewrite E, Hkind. split; reflexivity.
Qed.

(* an id carried by some element resolves to the FIRST element carrying it *)
Lemma resolve_first s : In s (sids t) ->
  exists g, nat_of_sid (fl_ids t) s = Some g /\ g < n /\ t_sid (ntree nodes g) = s /\
            forall j, j < g -> t_sid (ntree nodes j) <> s.
Proof.
  intros Hs. unfold nat_of_sid. rewrite ids_eq. pose proof (find_combine_seq s (sids t) 0) as F.
  rewrite sids_length in F. fold n in F.
  destruct (find _ _) as [p|]; [|contradiction].
  destruct F as (_ & F2 & F3 & F4). rewrite Nat.sub_0_r in F3, F4.
  exists (snd p). split; [reflexivity|]. split; [lia|]. split.
  - rewrite <- sid_nth by lia. exact F3.
  - intros j Hj. rewrite <- sid_nth by lia. now apply F4.
Qed.

(* with unique ids: to the element carrying it *)
Lemma resolve_unique i : NoDup (sids t) -> i < n -> nat_of_sid (fl_ids t) (t_sid (ntree nodes i)) = Some i.
Proof.
  intros U Hi.
  assert (Hin : In (t_sid (ntree nodes i)) (sids t)).
  { rewrite <- (sid_nth i Hi). apply nth_In. rewrite sids_length. exact Hi. }
  destruct (resolve_first _ Hin) as (g & E & Hg & Hsid & _). rewrite E. f_equal.
  rewrite <- (sid_nth i Hi), <- (sid_nth g Hg) in Hsid.
  apply (proj1 (NoDup_nth (sids t) 0%N) U); [rewrite sids_length; exact Hg | rewrite sids_length; exact Hi | exact Hsid].
Qed.

(* every state number occurs in the post-fix listing *)
Lemma postfix_all i : i < n -> In i (postfix_states t 0).
Proof.
  intros Hi. pose proof (pidx_pth t i Hi) as Hp.
  assert (Hin : In (pth_of t i) (paths_post t)).
  { apply In_paths_post_iff. apply (proj1 (In_paths_iff t _)). now apply pth_in. }
  assert (Hs : In (Some i) (map Some (postfix_states t 0))).
  { rewrite <- paths_post_idx. rewrite <- Hp. now apply in_map. }
  apply in_map_iff in Hs. destruct Hs as (j & E & Hj). now inversion E; subst.
Qed.

(* every <transition> child of every element has a row in the transition table *)
Lemma c_tr_complete w x : In w (subtrees t) -> In x (t_trans w) ->
  exists ti k, ti < ntrans c /\ tr c ti = mk_trans (fl_ids t) k (t_kind w) x.
Proof.
  intros Hw Hx. destruct (subtrees_ntree t w Hw) as (i & Hi & Ei). fold nodes in Ei.
  assert (Hin : In (i, x, t_kind w) (trs t)).
  { unfold trs, all_trans. rewrite core_resort_id. apply in_flat_map. exists i. split; [now apply postfix_all|].
    pose proof (nth_nodes_ntree t i) as E. rewrite core_resort_id in E. rewrite E by exact Hi. cbn [fst].
    fold nodes. rewrite Ei. apply in_map_iff. exists x. split; [reflexivity | exact Hx]. }
  destruct (In_nth _ _ dtr Hin) as (ti & Hti & En). exists ti, i. rewrite c_ntrans. split; [exact Hti|].
  pose proof (fl_tr late t ti Hti) as E. fold c in E. rewrite E, En. reflexivity.
Qed.

End Kinds.
