(* SelectConformFlatten.v -- C01, positive half, for the charts LargeMicroStep::init builds
   (c = flatten late t0): the premise `exit_set_agrees` of SelectConformLemmas.selection_conforms_lemma is
   discharged by ExitSetLemmas.exit_set_agrees_t, the numbering hypothesis by
   SelectConformOrder.trans_order_flatten; a corner outside the hypotheses is exhibited; the hypotheses
   are satisfiable.  Proofs only. *)
From V Require Import Base NameMatch NameMatchLemmas Chart Exec Large LargeLemmas Spec Legal SetLemmas
  LegalAbstract LegalLarge LegalRun WfCore Interp LegalOracle LargeCacheLemmas ExitSetLemmas SelectConform SelectConformLemmas
  SelectConformOrder SelectConformRoot.
Local Open Scope nat_scope.

(* a chart of the history-free core has no history targets *)
Lemma wf_targets_plain c t : WF c -> targets_plain_t c t = true.
Proof.
  intros W. unfold targets_plain_t. apply forallb_forall. intros s _.
  unfold Spec.is_history_state, Spec.sty. destruct (wf_types c W s) as [H|[H|[H|H]]]; rewrite H; reflexivity.
Qed.

Lemma selection_conforms_flatten_lemma late t0 cfg ev x h :
  let c := flatten late t0 in
  wf_coreb c = true -> fs_type (st c 0) = FCompound -> par_nonemptyb c = true ->
  legal_configb c cfg = true -> ascb cfg = true ->
  unrelated_enabledb c cfg ev x = true -> conds_pureb c cfg x = true -> descs_okb c cfg ev = true ->
  select_loop lg_fixed c cfg ev (cfg_postfix c cfg) None [] x = select_transitions c cfg h ev x.
Proof.
  intros c Hwf Hroot Hpar Hleg Hasc H1 H2 H3.
  apply (selection_conforms_lemma c cfg ev x h Hwf Hroot (trans_order_flatten late t0) Hpar Hleg Hasc H1 H2 H3).
  intros s ti _ _. apply exit_set_agrees_t.
  - apply wf_targets_plain. now apply wf_coreb_sound.
  - pose proof (LegalOracle.legal_configb_sound c (wf_coreb_sound c Hwf) cfg Hleg) as [_ Hb]. exact Hb.
Qed.

(* Appendix D's own configuration does not contain the <scxml> element (index 0), the engine's does:
   the engine on 0 :: cfg' selects what Appendix D selects on cfg' *)
Lemma selection_conforms_spec_cfg_lemma late t0 cfg' ev x h :
  let c := flatten late t0 in
  let cfg := 0 :: cfg' in
  wf_coreb c = true -> fs_type (st c 0) = FCompound -> par_nonemptyb c = true -> root_unmentionedb c = true ->
  legal_configb c cfg = true -> ascb cfg = true ->
  unrelated_enabledb c cfg ev x = true -> conds_pureb c cfg x = true -> descs_okb c cfg ev = true ->
  select_loop lg_fixed c cfg ev (cfg_postfix c cfg) None [] x = select_transitions c cfg' h ev x.
Proof.
  intros c cfg Hwf Hroot Hpar Hun Hleg Hasc H1 H2 H3.
  rewrite <- (select_transitions_root c cfg').
  - now apply selection_conforms_flatten_lemma.
  - exact (wf_root_par c (wf_coreb_sound c Hwf)).
  - unfold is_atomic_state, sty. now rewrite Hroot.
  - exact Hun.
Qed.

(* ---- outside the hypotheses: a <parallel> without children.  Appendix D finds transitions only on the
   way up from active atomic states, so the transition of the child-less <parallel> s1 is never
   considered; the engine looks at every active state.  All other hypotheses hold. ---- *)
Local Open Scope N_scope.
Definition sc_tr (v : N) (e : N) (tg : list N) (int : bool) : ttrans :=
  {| tt_vid := v; tt_event := Some [e]; tt_cond := None; tt_targets := Some tg; tt_internal := int; tt_body := [] |}.
Definition sc_ev (e : N) : option event := Some {| ev_name := [e]; ev_kind := EvExternal |}.

Definition childless_parallel_tree : tree :=
  TNode KScxml 0 None [] [] [] []
    [TNode KParallel 1 None [sc_tr 101 101 [2] false] [] [] [] [];
     TNode KState 2 None [] [] [] [] []].
Local Open Scope nat_scope.

Lemma selection_childless_parallel_refuted :
  exists late t0 cfg ev x h,
    let c := flatten late t0 in
    wf_coreb c = true /\ fs_type (st c 0) = FCompound /\ par_nonemptyb c = false /\
    legal_configb c cfg = true /\ ascb cfg = true /\
    unrelated_enabledb c cfg ev x = true /\ conds_pureb c cfg x = true /\ descs_okb c cfg ev = true /\
    select_loop lg_fixed c cfg ev (cfg_postfix c cfg) None [] x <> select_transitions c cfg h ev x.
Proof.
  exists false, childless_parallel_tree, [0; 1], (sc_ev 101%N), x_init, [].
  vm_compute. repeat split; discriminate.
Qed.

(* ---- the hypotheses are satisfiable: LegalOracle.ex_tree in the configuration {s2,s3,s5,s10,s7,s9}, event
   "e" (byte 101): transition 103 (internal, in region s3) and transition 104 (in region s7) are enabled
   and both selected ---- *)
Example selection_conforms_nonvacuous :
  let c := flatten false ex_tree in
  let cfg := [0; 2; 3; 5; 6; 8; 10] in
  let ev := sc_ev 101%N in
  wf_coreb c = true /\ fs_type (st c 0) = FCompound /\ par_nonemptyb c = true /\
  legal_configb c cfg = true /\ ascb cfg = true /\
  unrelated_enabledb c cfg ev x_init = true /\ conds_pureb c cfg x_init = true /\ descs_okb c cfg ev = true /\
  root_unmentionedb c = true /\
  select_transitions c cfg [] ev x_init = ([2; 3], x_init) /\
  select_transitions c (tl cfg) [] ev x_init = ([2; 3], x_init) /\
  map (fun ti => ft_vid (tr c ti)) [2; 3] = [103%N; 104%N].
Proof. vm_compute. repeat split; reflexivity. Qed.

(* ... and with a conflict that removeConflictingTransitions resolves: in the parallel state s1 the
   transition of s3 (region s2) leaves the parallel state, the one of s5 (region s4) stays inside; both
   are enabled by "e", their exit sets intersect, the first in document order wins; the condition
   In(s5) of the first one is evaluated *)
Local Open Scope N_scope.
Definition conflict_tree : tree :=
  TNode KScxml 0 None [] [] [] []
    [TNode KParallel 1 None [] [] [] []
       [TNode KState 2 None [] [] [] []
          [TNode KState 3 None
             [{| tt_vid := 101; tt_event := Some [101; 32; 102; 46; 42]; tt_cond := Some (BIn 5);
                 tt_targets := Some [7]; tt_internal := false; tt_body := [] |}] [] [] [] []];
        TNode KState 4 None [] [] [] []
          [TNode KState 5 None [sc_tr 102 101 [6] false] [] [] [] [];
           TNode KState 6 None [] [] [] [] []]];
     TNode KState 7 None [] [] [] [] []].
Local Open Scope nat_scope.

Example selection_conforms_nonvacuous_conflict :
  let c := flatten false conflict_tree in
  let cfg := [0; 1; 2; 3; 4; 5] in
  let ev := sc_ev 101%N in
  wf_coreb c = true /\ fs_type (st c 0) = FCompound /\ par_nonemptyb c = true /\
  legal_configb c cfg = true /\ ascb cfg = true /\
  unrelated_enabledb c cfg ev x_init = true /\ conds_pureb c cfg x_init = true /\ descs_okb c cfg ev = true /\
  root_unmentionedb c = true /\
  filter_map (en_of c cfg ev x_init) (cfg_postfix c cfg) = [0; 1] /\
  select_transitions c cfg [] ev x_init = ([0], x_init).
Proof. vm_compute. repeat split; reflexivity. Qed.
