(* RunConformHistCompose.v -- C01 on charts with <history> (wf_histb): one microstep of LargeMicroStep
   (Large.microstep as select_and_step calls it) against Appendix D's microstep (Spec.spec_microstep), for any flat
   chart with the structural well-formedness WFH.  Corresponding states now also have RELATED HISTORIES
   (RunConformHistRel.hv_rel between l_hist and s_hv); the microstep keeps them related (both record at exit time,
   before the entry set is computed).  The chart-specific premises (Appendix D's transition domain is the engine's under
   the history value before and after the exit, the exit sets agree) are hypotheses here and are discharged for
   flatten in RunConformHistFlat.v.  Proofs only. *)
From V Require Import Base NameMatch Chart Exec Large LargeLemmas Spec Legal SetLemmas LegalAbstract LegalLarge
  Interp LegalRun LargeCacheLemmas SelectConform SelectConformLemmas SelectConformRoot MicroConform MicroConformLemmas MicroConformCompose
  LegalHistBase LegalHistEntry LegalHistStep LegalHistRun ExitSetLemmas SelectConformOrder SelectConformFlatten MicroConformEntry MicroConformFlatten RunConformMicro
  RunConformInitialBase RunConformInitialSpec RunConformInitialEngine RunConformInitialMicro
  RunConformHistRel RunConformHistSpec RunConformHistEngine RunConformHistEntry RunConformHistMicro.
Local Open Scope nat_scope.

Lemma NoDup_app_intro {A} (a b : list A) : NoDup a -> NoDup b -> (forall x, In x a -> ~ In x b) -> NoDup (a ++ b).
Proof.
  induction a as [|x r IH]; intros Ha Hb Hd; cbn [app]; [exact Hb|].
  inversion Ha as [|? ? Hx Hr]; subst. constructor.
  - rewrite in_app_iff. intros [H|H]; [contradiction | exact (Hd x (or_introl eq_refl) H)].
  - apply IH; [exact Hr | exact Hb | intros y Hy; apply Hd; now right].
Qed.

Lemma NoDup_map_flat_map {A B K} (key : B -> K) (f : A -> list B) l : NoDup l ->
  (forall x, In x l -> NoDup (map key (f x))) ->
  (forall x1 x2 b1 b2, In x1 l -> In x2 l -> In b1 (f x1) -> In b2 (f x2) -> key b1 = key b2 -> x1 = x2) ->
  NoDup (map key (flat_map f l)).
Proof.
  induction l as [|x r IH]; intros Hnd Hin Hcross; cbn [flat_map map]; [constructor|].
  inversion Hnd as [|? ? Hx Hr]; subst. rewrite map_app. apply NoDup_app_intro.
  - apply Hin. now left.
  - apply IH; [exact Hr | intros y Hy; apply Hin; now right|].
    intros x1 x2 b1 b2 H1 H2. apply Hcross; now right.
  - intros k Hk Hk'. apply in_map_iff in Hk as (b1 & E1 & Hb1). apply in_map_iff in Hk' as (b2 & E2 & Hb2).
    apply in_flat_map in Hb2 as (x2 & Hx2 & Hb2).
    assert (x = x2) by (apply (Hcross x x2 b1 b2); [now left | now right | exact Hb1 | exact Hb2 | congruence]).
    subst x2. contradiction.
Qed.

Lemma flat_map_filter {A B} (f : A -> list B) (keep : A -> bool) l : (forall x, keep x = false -> f x = []) ->
  flat_map f l = flat_map f (filter keep l).
Proof.
  intros Hk. induction l as [|x r IH]; cbn [flat_map filter]; [reflexivity|].
  destruct (keep x) eqn:E; cbn [flat_map]; [now rewrite IH | now rewrite (Hk x E), IH].
Qed.

Section ComposeHH.
Variable c : fchart.
Hypothesis W : WFH c.
Hypothesis HcplOK : CplOK c.
Hypothesis HcplAnti : CplAnti c.
Hypothesis HtgAnti : TgAnti c.
Hypothesis HtgNoInit : forall ti g, In g (ft_targets (tr c ti)) -> fs_type (st c g) <> FInitial.
Hypothesis root_compound : fs_type (st c 0) = FCompound.
Hypothesis HDF : DeepFull c.
Hypothesis Hleaf : forall x k, is_atomic_state c x = true -> fs_parent (st c k) <> Some x.
Hypothesis Htrn : forall s, NoDup (fs_trans (st c s)).
Notation Anc := (LegalAbstract.Anc (fun i => fs_parent (st c i))).
Notation pseudo := (pseudoS c).

Variable sel : list nat.
Variable l : lstate.
Variable s : sstate.
Variable x0 : xstate.
Let cfg := l_cfg l.

Hypothesis Hcorr : corr c l s.
Hypothesis Hlegal : LegalCfgH c cfg.
Hypothesis HH : HistOK c (l_hist l).
Hypothesis HD : HistDown c (l_hist l).
Hypothesis HR : hv_rel c (l_hist l) (s_hv s).
Hypothesis Hsel_src : forall ti, In ti sel -> In (ft_source (tr c ti)) cfg.
Hypothesis Hsel_ok : pairwise_ok lg_fixed c sel.
Hypothesis Hsel_np : forall ti, In ti sel -> ft_history (tr c ti) || ft_initial (tr c ti) = false.
Hypothesis Hbody : forall ti, ft_has_body (tr c ti) = false -> ft_body (tr c ti) = [].
Hypothesis Hsilent : root_silentb c = true.
Hypothesis Hdata : fc_late c = false -> forall i, i <> 0 -> fs_data (st c i) = [].
Hypothesis HPAR : forall s, s < nstates c -> fs_type (st c s) = FParallel -> fs_children (st c s) <> [].
Hypothesis Hfin_par : forall i p, fs_type (st c i) = FFinal -> fs_parent (st c i) = Some p -> fs_type (st c p) <> FParallel.
Hypothesis Hfin_up : forall i p a, fs_type (st c i) = FFinal -> fs_parent (st c i) = Some p -> Anc a p ->
  fs_parent (st c p) = Some a \/ fs_type (st c a) <> FParallel.
Hypothesis Hflags : forall x ti, is_pseudo (fs_type (st c x)) = true -> In ti (fs_trans (st c x)) ->
  ft_history (tr c ti) || ft_initial (tr c ti) = true.
(* PREMISES discharged for flatten (RunConformHistFlat.v): the domains under any related history value, the exit set *)
Hypothesis Hdom : forall hist h, HistOK c hist -> HistDown c hist -> hv_rel c hist h ->
  forall ti, In ti sel -> transition_domain c h (tr c ti) = domain c (tr c ti).
Hypothesis Hexit : forall z, In z (compute_exit_set c (s_cfg s) (s_hv s) (map (tr c) sel)) <-> In z (sel_exitset c cfg sel).

Theorem body_conforms_hist_sec :
  let r := microstep lg_fixed ex_fixed c l x0 (sel_targets c sel) (sel_exitset c cfg sel) sel false in
  let q := spec_body c sel s x0 in
  corr c (fst r) (fst q) /\ snd q = emit (spec_cfg_tok c (fst q)) (snd r) /\
  HistOK c (l_hist (fst r)) /\ HistDown c (l_hist (fst r)) /\ hv_rel c (l_hist (fst r)) (s_hv (fst q)).
Proof.
  destruct Hcorr as (Hc & Ht & Hd). destruct Hlegal as [Hleg Hbp]. fold cfg in Hc.
  assert (Hbound : forall y, In y cfg -> y < nstates c) by (intros y Hy; exact (proj1 (Hbp y Hy))).
  assert (Hprop : forall y, In y cfg -> pseudo y = false) by (intros y Hy; exact (proj2 (Hbp y Hy))).
  destruct (root_silent_parts c Hsilent) as (Sen & Sex & Sbody).
  set (X := sel_exitset c cfg sel).
  assert (HXs : ssorted X) by (unfold X, sel_exitset; apply ssorted_fold_union; exact I).
  assert (HXeq : sort_doc (compute_exit_set c (s_cfg s) (s_hv s) (map (tr c) sel)) = X).
  { apply ssorted_ext; [apply ssorted_set_of_list | exact HXs|]. intros z. unfold sort_doc. rewrite In_set_of_list. apply Hexit. }
  assert (HXin : forall z, In z X <-> In z cfg /\ exists d, HDm c sel d /\ Anc d z).
  { intros z. exact (hIn_exitset c W cfg sel Hleg Hbound Hprop Hsel_src z). }
  assert (H0X : ~ In 0 (rev X)).
  { intros H. apply in_rev in H. apply HXin in H as [_ (d & _ & Ha)]. exact (no_anc_root _ (wh_root_par c W) _ Ha). }
  cbn zeta. unfold microstep, spec_body. cbn zeta. fold cfg. fold X.
  set (hist := remember_history c cfg X (l_hist l)).
  assert (HXsub : forall z, In z X -> In z cfg) by (intros z Hz; now apply HXin in Hz).
  assert (HHr : HistOK c hist) by (apply (remember_HistOK c W cfg X Hleg Hprop HXsub); exact HH).
  (* exit: Appendix D records the history of the states it exits *)
  rewrite (exit_states_hv c sel s x0). cbn zeta. rewrite HXeq.
  set (hv1 := record_hv c (s_cfg s) (rev X) (s_hv s)).
  assert (Hcfg0 : cfg = 0 :: s_cfg s) by exact Hc.
  assert (HRr : hv_rel c hist hv1).
  { unfold hist, hv1. rewrite Hcfg0.
    apply (record_hv_rel c W (s_cfg s) X); try (rewrite <- Hcfg0); try assumption.
    intros z. symmetry. apply in_rev. }
  assert (HDr : HistDown c hist).
  { unfold hist. rewrite Hcfg0. apply (record_HistDown c W (s_cfg s) X); try (rewrite <- Hcfg0); assumption. }
  pose proof (Hdom hist hv1 HHr HDr HRr) as Hdom1.
  assert (Hleaf' : forall x k, is_atomic_state c x = true -> (fun i => fs_parent (st c i)) k <> Some x) by exact Hleaf.
  destruct (entry_set_sets c cfg X hist Hflags (sel_targets c sel) sel) as [Hes Hts].
  { unfold sel_targets. apply ssorted_fold_union. exact I. }
  pose proof (entry_set_conforms_hist_sec c W HcplOK HcplAnti HtgAnti HtgNoInit root_compound HPAR Hleaf cfg sel hv1 hist
                Hleg Hbound Hprop Hsel_src Hsel_ok HHr HDr HRr Hdom1) as Hset.
  pose proof (trans_set_initial_hist_sec c W HcplOK HcplAnti HtgAnti HtgNoInit root_compound HPAR Hleaf cfg sel hv1 hist
                Hleg Hbound Hprop Hsel_src Hsel_ok HHr HDr HRr Hdom1) as Htset.
  pose proof (trans_set_history_hist_sec c W HcplOK HcplAnti HtgAnti HtgNoInit root_compound HPAR Hleaf cfg sel hv1 hist
                Hleg Hbound Hprop Hsel_src Hsel_ok HHr HDr HRr) as Hhset.
  pose proof (spec_hc_in c W HcplOK HcplAnti HtgAnti HtgNoInit root_compound HPAR Hleaf cfg sel hv1 hist
                Hleg Hbound Hprop Hsel_src Hsel_ok HHr HDr HRr Hdom1) as Hhc.
  pose proof (spec_hc_nodup c W HcplOK HcplAnti HtgAnti HtgNoInit root_compound HPAR Hleaf cfg sel hv1 hist
                Hleg Hbound Hprop Hsel_src Hsel_ok HHr HDr HRr Hdom1) as HLnd0.
  pose proof (spec_default_h c W HcplOK HcplAnti HtgAnti HtgNoInit root_compound HPAR Hleaf cfg sel hv1 hist
                Hleg Hbound Hprop Hsel_src Hsel_ok HHr HDr HRr Hdom1) as Hdf.
  pose proof (spec_set_h c W HcplOK HcplAnti HtgAnti HtgNoInit root_compound HPAR Hleaf cfg sel hv1 hist
                Hleg Hbound Hprop Hsel_src Hsel_ok HHr HDr HRr Hdom1) as Hss.
  pose proof (default_no_hist_target c W HcplOK HcplAnti HtgAnti HtgNoInit root_compound HPAR Hleaf cfg sel hv1 hist
                Hleg Hbound Hprop Hsel_src Hsel_ok HHr HDr HRr Hdom1) as Hnodef.
  pose proof (hc_of_spec c sel hv1) as Hhcs.
  unfold EfinH, TfinH, SurvH in Hset, Htset, Hhset.
  change (LegalLarge.exitset c cfg sel) with X in Hset, Htset, Hhset. change (LegalLarge.targets c sel) with (sel_targets c sel) in Hset, Htset, Hhset, Hnodef.
  destruct (entry_set lg_fixed c cfg X hist (sel_targets c sel) sel) as [es ts] eqn:Ees. cbn [fst snd] in Hts, Hes, Hset, Htset, Hhset.
  rewrite Hc, (exit_fold_conforms c (rev X) (s_cfg s) x0 Sex H0X).
  set (rx := fold_left (spec_exit_one c) (rev X) (s_cfg s, x0)).
  (* transitions *)
  rewrite (take_fold_filter c (0 :: fst rx) ts), Hts, <- (take_fold_filter c (0 :: fst rx) sel).
  rewrite (take_fold_conforms c (fst rx) sel (snd rx) Sbody Hsel_np (fun ti _ => Hbody ti)).
  cbn [s_cfg].
  set (x2 := fold_left (fun x0 ti => exec_trans_content c (fst rx) ti x0) sel (snd rx)).
  (* entry set *)
  unfold enter_states. cbn [s_hv]. rewrite enter_states_e_fold.
  set (e := compute_entry_set c hv1 sel) in *.
  assert (Hcfg1 : forall y, In y (0 :: fst rx) <-> In y cfg /\ ~ In y X).
  { intros y. pose proof (exit_fold_cfg c ex_fixed (rev X) cfg x0 y) as H.
    rewrite Hc, (exit_fold_conforms c (rev X) (s_cfg s) x0 Sex H0X) in H. cbn [fst] in H. fold rx in H.
    rewrite <- Hc in H. rewrite H, <- in_rev. tauto. }
  rewrite enter_fold_proper.
  assert (Hes1 : filter (fun i => negb (is_pseudo (fs_type (st c i)))) (set_diff es (0 :: fst rx)) = sort_doc (e_enter e)).
  { apply ssorted_ext; [apply ssorted_filter; unfold set_diff; now apply ssorted_filter | apply ssorted_set_of_list|].
    intros z. unfold sort_doc. rewrite filter_In, In_set_diff, In_set_of_list, Hset, Hcfg1. unfold pseudoS.
    rewrite negb_true_iff. tauto. }
  rewrite Hes1.
  (* entering *)
  assert (Hb : forall i, In i (sort_doc (e_enter e)) -> 0 < i /\ i < nstates c).
  { intros i Hi. unfold sort_doc in Hi. rewrite In_set_of_list in Hi. apply Hss in Hi as (r0 & G0 & HDi).
    pose proof (D_below c _ r0 G0 i HDi) as Ha. destruct (hanc_lt c W _ _ Ha). split; lia. }
  set (CF := fun y => (In y cfg /\ ~ In y X) \/ (In y es /\ pseudo y = false)).
  pose proof (microstep_sets_legal_h c W cfg sel Hleg Hbound Hprop Hsel_src Hsel_ok hist HHr) as HCF.
  unfold HEfs, HEfin in HCF. change (LegalLarge.exitset c cfg sel) with X in HCF.
  change (LegalLarge.targets c sel) with (sel_targets c sel) in HCF. rewrite Ees in HCF. cbn [fst] in HCF. fold CF in HCF.
  assert (HCFp : forall y, CF y -> pseudo y = false) by (intros y [[Hy _]|[_ Hy]]; [now apply Hprop | exact Hy]).
  assert (Huniq : forall q k1 k2, fs_type (st c q) = FCompound -> In k1 (fs_children (st c q)) -> In k2 (fs_children (st c q)) ->
                  CF k1 -> CF k2 -> k1 = k2).
  { intros q k1 k2 Hq Hk1 Hk2 C1 C2. apply (wh_children c W) in Hk1, Hk2.
    pose proof (par_ppar c k1 q (HCFp k1 C1) Hk1) as P1. pose proof (par_ppar c k2 q (HCFp k2 C2) Hk2) as P2.
    apply (lg_compound_uniq _ _ _ _ HCF q k1 k2); try assumption.
    - exact (lg_parent _ _ _ _ HCF k1 q C1 P1).
    - now apply (pch_spec c W).
    - now apply (pch_spec c W). }
  (* defaultHistoryContent: one entry per parent *)
  fold e in Hhc, HLnd0.
  assert (HLnd : NoDup (map fst (rev (e_histcontent e)))) by (rewrite map_rev; now apply NoDup_rev).
  assert (HinL : forall i ti, In (i, ti) (rev (e_histcontent e)) <-> In (i, ti) (hc_of c hv1 sel)).
  { intros i ti. rewrite <- in_rev. apply Hhc. }
  pose proof (enter_fold_conforms_hh c W HcplOK ts e CF (fun i => In i (e_enter e)) Sen Sbody Hbody Hdata HPAR Hfin_par Hfin_up
                Huniq HCFp Hflags Htrn (fun i Hi => proj1 (proj1 (Hdf i) Hi))) as HE.
  specialize (HE (fun i x ti Hi Hp Hk Hti => Htset i x ti Hi Hp Hk Hti)).
  assert (HE' : forall es0 a sx, erel_h c CF a sx ->
            (forall i, In i es0 -> 0 < i /\ i < nstates c /\ CF i /\ In i (e_enter e)) ->
            erel_h c CF (fold_left (enter_one ex_fixed c ts) es0 a) (fold_left (spec_enter_one c e) es0 sx)).
  { apply HE.
    - (* the default transitions of histories *)
      intros i H ti Hi HpH HhH Hti. rewrite HinL. rewrite (Hhset H ti HhH Hti), Hhcs. split.
      + intros (HT & Hv & r & Htr). apply (hIn_targets c sel) in HT as (tj & Htj & HT). exists tj, H. eauto 10.
      + intros (tj & z & Htj & Hz & A1 & A2 & A3 & r & A4).
        assert (z = H).
        { rewrite <- (wh_tr_src c W z ti) by (rewrite A4; now left). exact (wh_tr_src c W H ti Hti). }
        subst z. split; [apply (hIn_targets c sel); eauto|]. split; [exact A2 | eauto].
    - intros i Hi. apply filter_key_one. exact HLnd.
    - intros i ti Hid. rewrite HinL, Hhcs. intros (tj & z & Htj & Hz & A1 & A2 & A3 & _).
      apply (Hnodef i z Hid); [apply (hIn_targets c sel); eauto | exact A1 | exact A3].
    - intros i ti. rewrite HinL, Hhcs. intros (tj & z & Htj & Hz & A1 & A2 & A3 & r & A4). exists z, r. auto. }
  specialize (HE' (sort_doc (e_enter e))
                {| ea_cfg := 0 :: fst rx; ea_initd := l_initd l; ea_tlf := l_tlf l; ea_x := x2 |}
                ({| s_cfg := fst rx; s_hv := hv1; s_running := s_running s; s_entered := s_entered s |}, x2)).
  destruct HE' as [(E1 & E2 & E3 & E4) _].
  { split; [unfold erel; cbn [fst snd ea_cfg ea_tlf ea_initd ea_x s_cfg s_running s_entered]; auto|].
    cbn [fst s_cfg]. intros y Hy. left. apply Hcfg1. now right. }
  { intros i Hi. destruct (Hb i Hi) as [A B']. split; [exact A|]. split; [exact B'|].
    unfold sort_doc in Hi. rewrite In_set_of_list in Hi. split; [|exact Hi]. right. apply Hset in Hi. tauto. }
  set (a := fold_left (enter_one ex_fixed c ts) (sort_doc (e_enter e)) _) in *.
  set (sx := fold_left (spec_enter_one c e) (sort_doc (e_enter e)) _) in *.
  destruct sx as [s2 x3] eqn:Esx. cbn [fst snd] in *.
  assert (Hhv : forall es0 sx0, s_hv (fst (fold_left (spec_enter_one c e) es0 sx0)) = s_hv (fst sx0)).
  { induction es0 as [|i r IH]; intros [s0 y0]; cbn [fold_left]; [reflexivity|]. rewrite IH.
    rewrite spec_enter_one_staged. destruct (fc_late c && negb (mem i (s_entered s0))); unfold s_tail; cbn zeta;
      (destruct (is_final_state c i); [destruct (fs_parent (st c i)) as [[|p]|]|]); reflexivity. }
  specialize (Hhv (sort_doc (e_enter e)) ({| s_cfg := fst rx; s_hv := hv1; s_running := s_running s; s_entered := s_entered s |}, x2)).
  fold sx in Hhv. rewrite Esx in Hhv. cbn [fst s_hv] in Hhv.
  split; [unfold corr; cbn [l_cfg l_tlf l_initd]; auto|]. split; [rewrite E4; reflexivity|].
  cbn [l_hist]. split; [exact HHr|]. split; [exact HDr|]. rewrite Hhv. exact HRr.
Qed.

End ComposeHH.
