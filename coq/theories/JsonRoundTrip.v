(* JsonRoundTrip.v -- round trip, part 3: fromJSON (toJSON d) = d for every value of the property's
   class, through trim, the retry loop of token budgets, the tokenizer and the builder. *)
From V Require Import Base Jsmn Json JsmnLemmas JsonLemmas JsonEventLemmas JsonBuildLemmas JsonRtTokenize JsonRtBuild.
From Coq Require Import Lia ZArith.
Local Open Scope N_scope.

(* ---------------------------------------------------------------------------------------- *)
(* sizes *)

Lemma nodes_le_ntok d : (nodes d <= ntok d)%nat.
Proof.
  induction d as [vb a l m Hl Hm] using data_ind'.
  assert (El : (nodes_elems l <= ntok_elems l)%nat).
  { clear Hm. induction Hl as [|x r Hx Hr IH]; cbn [nodes_elems ntok_elems fold_right]; [lia|].
    fold (nodes_elems r) (ntok_elems r). lia. }
  assert (Em : (nodes_entries m <= ntok_entries m)%nat).
  { clear Hl El. induction Hm as [|x r Hx Hr IH]; cbn [nodes_entries ntok_entries fold_right]; [lia|].
    fold (nodes_entries r) (ntok_entries r). lia. }
  cbn [nodes ntok]. destruct m as [|kv m]; [destruct l as [|x l]|].
  - lia.
  - fold (nodes_elems (x :: l)) (ntok_elems (x :: l)). lia.
  - fold (nodes_entries (kv :: m)) (ntok_entries (kv :: m)). lia.
Qed.

Section Sizes.
Variable v : js_variant.

Lemma ntok_le_len d : forall ind, (ntok d <= length (core v ind d))%nat.
Proof.
  induction d as [vb a l m Hl Hm] using data_ind'. intros ind.
  assert (El : forall first, (ntok_elems l <= length (json_elems (to_json v (S ind)) first l))%nat).
  { clear Hm. induction Hl as [|x r Hx Hr IH]; intros first; cbn [ntok_elems fold_right json_elems]; [cbn; lia|].
    fold (ntok_elems r). rewrite !app_length, to_json_lead_core, app_length. specialize (Hx (S ind)). specialize (IH false). lia. }
  assert (Em : forall longest first, (ntok_entries m <= length (json_entries v (to_json v (S ind)) ind longest first m))%nat).
  { clear Hl El. intros longest. induction Hm as [|[k x] r Hx Hr IH]; intros first; cbn [ntok_entries fold_right json_entries snd]; [cbn; lia|].
    fold (ntok_entries r). cbn [snd] in Hx. repeat (rewrite app_length || cbn [length]).
    rewrite to_json_lead_core, app_length. specialize (Hx (S ind)). specialize (IH false). lia. }
  cbn [ntok core]. destruct m as [|kv m]; [destruct l as [|x l]|].
  - unfold leaf_json, s_null. destruct a, vb; repeat (rewrite app_length || cbn [length]); lia.
  - fold (ntok_elems (x :: l)). specialize (El true). rewrite !app_length. cbn [length]. lia.
  - fold (ntok_entries (kv :: m)). specialize (Em (longest_key (kv :: m)) true).
    repeat (rewrite app_length || cbn [length]). lia.
Qed.

(* no NUL byte in the text *)
Definition nz (s : bytes) : bool := forallb (fun c => negb (c =? 0)) s.

Lemma nz_app a b : nz (a ++ b) = nz a && nz b.
Proof. apply forallb_app. Qed.

Lemma nz_escape s : nz s = true -> nz (json_escape v s) = true.
Proof.
  unfold json_escape. induction s as [|c r IH]; [reflexivity|]. cbn [nz forallb json_escape_with]. intros H.
  apply andb_true_iff in H as [H1 H2]. fold (nz r) in H2. fold (nz (escape_byte (escape_table v) c ++ json_escape_with (escape_table v) r)).
  rewrite nz_app, (IH H2), andb_true_r.
  unfold escape_byte, escape_table, escape_table_pinned, escape_table_fixed.
  destruct (jv_escape_vtab v); cbn [esc_lookup];
    repeat match goal with
           | |- context [N.eqb c ?k] => destruct (N.eqb_spec c k); [reflexivity|]
           end; cbn [nz forallb]; now rewrite H1.
Qed.

Lemma nz_spaces n : nz (spaces n) = true.
Proof. induction n; [reflexivity|exact IHn]. Qed.

Lemma to_json_nz d : nul_free d = true -> forall ind, nz (to_json v ind d) = true.
Proof.
  induction d as [vb a l m Hl Hm] using data_ind'. intros F ind.
  cbn [nul_free] in F. apply andb_true_iff in F as [F Fm]. apply andb_true_iff in F as [Fa Fl].
  assert (El : forall first, nz (json_elems (to_json v (S ind)) first l) = true).
  { clear Hm Fm. induction Hl as [|x r Hx Hr IH]; intros first; cbn [json_elems]; [reflexivity|].
    cbn [forallb] in Fl. apply andb_true_iff in Fl as [F1 F2].
    rewrite !nz_app, (Hx F1), (IH F2). destruct first; reflexivity. }
  assert (Em : forall longest first, nz (json_entries v (to_json v (S ind)) ind longest first m) = true).
  { clear Hl Fl El. intros longest. induction Hm as [|[k x] r Hx Hr IH]; intros first; cbn [json_entries]; [reflexivity|].
    cbn [forallb fst snd] in Fm, Hx. apply andb_true_iff in Fm as [F1 F2]. apply andb_true_iff in F1 as [Fk Fx].
    repeat rewrite nz_app. rewrite (Hx Fx), (IH F2), (nz_escape _ Fk), nz_spaces.
    unfold indent_of. rewrite nz_spaces. destruct first; reflexivity. }
  cbn [to_json]. destruct m as [|kv m]; [destruct l as [|x l]|].
  - destruct a as [|c a], vb; try reflexivity.
    + rewrite !nz_app, (nz_escape _ Fa). reflexivity.
    + exact Fa.
  - repeat rewrite nz_app. rewrite (El true). unfold indent_of. rewrite nz_spaces. reflexivity.
  - repeat rewrite nz_app. rewrite (Em _ true). unfold indent_of. rewrite nz_spaces. reflexivity.
Qed.
End Sizes.

Lemma cstr_nz s : nz s = true -> cstr s = s.
Proof.
  induction s as [|c r IH]; [reflexivity|]. cbn [nz forallb cstr]. intros H. apply andb_true_iff in H as [H1 H2].
  apply negb_true_iff in H1. rewrite H1. now rewrite (IH H2).
Qed.

(* ---------------------------------------------------------------------------------------- *)
(* trim *)

Lemma dropwhile_app_space a b c :
  forallb isspace a = true -> isspace c = false -> dropwhile isspace (a ++ c :: b) = c :: b.
Proof.
  induction a as [|x a IH]; cbn [app dropwhile forallb]; intros H Hc; [now rewrite Hc|].
  apply andb_true_iff in H as [H1 H2]. rewrite H1. now apply IH.
Qed.

Lemma trim_core ws c0 X c1 :
  forallb isspace ws = true -> isspace c0 = false -> isspace c1 = false ->
  trim (ws ++ c0 :: X ++ [c1]) = c0 :: X ++ [c1].
Proof.
  intros Hw H0 H1. unfold trim. rewrite dropwhile_app_space by assumption.
  assert (E : rev (c0 :: X ++ [c1]) = c1 :: rev (c0 :: X)).
  { change (c0 :: X ++ [c1]) with ((c0 :: X) ++ [c1]). now rewrite rev_app_distr. }
  rewrite E. cbn [dropwhile]. rewrite H1, <- E. apply rev_involutive.
Qed.

Lemma spaces_isspace n : forallb isspace (spaces n) = true.
Proof. induction n; [reflexivity|exact IHn]. Qed.

Lemma lead_isspace ind d : forallb isspace (lead ind d) = true.
Proof.
  destruct d as [vb a l m]. cbn [lead]. destruct m; [|reflexivity]. destruct l; [reflexivity|].
  cbn [nl app forallb]. apply spaces_isspace.
Qed.

Lemma core_brackets v ind d :
  top_container d = true ->
  exists c0 X c1, core v ind d = c0 :: X ++ [c1] /\ isspace c0 = false /\ isspace c1 = false /\
                  ((c0 =? c_lbrace) || (c0 =? c_lbrack)) = true.
Proof.
  destruct d as [vb a l m]. cbn [top_container core]. intros H.
  destruct m as [|kv m].
  - destruct l as [|x l]; [discriminate|]. eexists c_lbrack, _, c_rbrack. repeat split.
  - eexists c_lbrace, _, c_rbrace. split; [|repeat split].
    cbn [app]. f_equal. now rewrite !app_assoc.
Qed.

(* ---------------------------------------------------------------------------------------- *)
(* the retry loop finds a sufficient budget *)

Lemma tok_retry_result s b0 toks :
  jsmn_parse b0 s = JOk toks -> (length toks <= length s)%nat ->
  exists n, tok_retry retry_fuel 16 s = Some (JOk toks, n) /\ (length toks <= n)%nat.
Proof.
  intros P L.
  assert (R : forall n, (length toks <= n)%nat -> jsmn_parse n s = JOk toks)
    by (intros n; apply (jsmn_parse_budget b0 n s toks P)).
  assert (Q : forall n, (n < length toks)%nat -> jsmn_parse n s = JErr JNOMEM)
    by (intros n; apply (jsmn_parse_budget b0 n s toks P)).
  unfold retry_fuel. cbn [tok_retry].
  change (Nat.div 16 2) with 8%nat. change (Nat.div 8 2) with 4%nat. change (Nat.div 4 2) with 2%nat.
  change (Nat.div 2 2) with 1%nat. change (1 <? 8)%nat with true. change (1 <? 4)%nat with true.
  change (1 <? 2)%nat with true. change (1 <? 1)%nat with false.
  destruct (Nat.leb_spec (length toks) (Nat.div (length s) 8)) as [H8|H8];
    [rewrite (R _ H8); eexists; split; [reflexivity|exact H8]|rewrite (Q _ H8)].
  destruct (Nat.leb_spec (length toks) (Nat.div (length s) 4)) as [H4|H4];
    [rewrite (R _ H4); eexists; split; [reflexivity|exact H4]|rewrite (Q _ H4)].
  destruct (Nat.leb_spec (length toks) (Nat.div (length s) 2)) as [H2|H2];
    [rewrite (R _ H2); eexists; split; [reflexivity|exact H2]|rewrite (Q _ H2)].
  rewrite Nat.div_1_r. rewrite (R _ L). eexists; split; [reflexivity|exact L].
Qed.

(* ---------------------------------------------------------------------------------------- *)

Lemma any_open_closed l : Forall tclosed l -> any_open l = false.
Proof.
  induction 1 as [|x r Hx Hr IH]; [reflexivity|]. cbn [any_open existsb]. unfold tclosed in Hx. rewrite Hx. exact IH.
Qed.

Lemma jsmn_parse_core v d :
  jv_escape_vtab v = false -> canonical true d = true -> nul_free d = true ->
  jsmn_parse (ntok d) (core v 1 d) = JOk (toks_core v 1 0 d).
Proof.
  intros Hv C F. unfold jsmn_parse.
  assert (Z : nz (core v 1 d) = true).
  { pose proof (to_json_nz v d F 1) as Hz. rewrite to_json_lead_core, nz_app in Hz. now apply andb_true_iff in Hz as [_ Hz]. }
  rewrite (cstr_nz _ Z).
  destruct (tokenize_core v Hv d C 1 (ntok d) 0%nat [] pstate0 I (tok_inv0 _)) as (st' & E & R & _); [cbn; lia|].
  rewrite app_nil_r in E. rewrite E. cbn [jsmn_run]. rewrite R, app_nil_r.
  rewrite any_open_closed by (apply Forall_rev, (toks_core_shape v d)).
  now rewrite R, app_nil_r, rev_involutive.
Qed.

Lemma canonical_weaken d : canonical false d = true -> canonical true d = true.
Proof.
  induction d as [vb a l m Hl Hm] using data_ind'. intros C.
  destruct (canonical_children _ _ _ _ _ C) as (Cl & Cm).
  assert (Cl' : forallb (canonical true) l = true).
  { rewrite forallb_forall in *. rewrite Forall_forall in Hl. intros x Hx. apply Hl; auto. }
  assert (Cm' : forallb (fun kv => canonical true (snd kv)) m = true).
  { rewrite forallb_forall in *. rewrite Forall_forall in Hm. intros x Hx. apply Hm; auto. }
  cbn [canonical] in *. destruct m as [|kv m], l as [|x l], a as [|c a]; try discriminate; try exact C.
  - rewrite orb_true_r. reflexivity.
  - apply andb_true_iff in C as [C _]. now rewrite C, Cl'.
  - apply andb_true_iff in C as [C _]. now rewrite C, Cm'.
Qed.

Lemma build_fuel_mono v js t r : forall f k cur ds ts,
  build v js t f cur ds ts = Ok r -> build v js t (f + k) cur ds ts = Ok r.
Proof.
  induction f as [|f IH]; intros k cur ds ts H; [discriminate|].
  cbn [Nat.add]. cbn [build] in *.
  destruct (negb (jv_container_key v) && ds_is_empty ds); [exact H|].
  destruct (tok_at t cur); [|exact H].
  destruct (bswitch v js t0 cur ds ts) as [[[c1 d1] t1]| | |]; try exact H.
  unfold bmid in *. destruct (tok_at t c1); [|exact H].
  destruct ((tend t2 =? 0)%Z || match t1 with [] => true | _ :: _ => false end); [exact H|].
  destruct (pop_loop v (tend t2) t1 d1) as [[t3 d3]| | |]; try exact H.
  destruct t3 as [|back t3]; [exact H|].
  destruct (bkey v js t back t2 c1 d3) as [[[[] c4] d4]| | |]; try exact H.
  destruct (ttype back =? T_ARRAY); [destruct (ds_push_elem d4); [|exact H]|]; now apply IH.
Qed.

Theorem from_to_json_lemma v d :
  jv_escape_vtab v = false ->
  canonical (negb (jv_null_atom v)) d = true -> nul_free d = true -> top_container d = true ->
  from_json v (data_to_json v d) = Ok d.
Proof.
  intros Hv C F T.
  assert (C1 : canonical true d = true) by (destruct (jv_null_atom v); [now apply canonical_weaken|exact C]).
  unfold from_json, from_json_fuel, data_to_json.
  destruct (core_brackets v 1 d T) as (c0 & X & c1 & Ec & H0 & H1 & Hb).
  rewrite to_json_lead_core, Ec, (trim_core _ _ _ _ (lead_isspace 1 d) H0 H1).
  cbv zeta. cbv iota. rewrite Hb. cbn [negb]. rewrite <- Ec.
  pose proof (jsmn_parse_core v d Hv C1 F) as P.
  destruct (tok_retry_result (core v 1 d) (ntok d) _ P) as (n & -> & Ln).
  { rewrite (proj2 (toks_core_shape v d 1%nat 0%nat)). apply ntok_le_len. }
  rewrite (proj2 (toks_core_shape v d 1%nat 0%nat)) in *.
  replace (n + 1 - ntok d)%nat with (S (n - ntok d)) by lia.
  destruct (first_tok v 1%nat 0%nat d) as (K0 & kr & EK0 & _).
  set (t := toks_core v 1%nat 0%nat d ++ repeat zero_token (S (n - ntok d))).
  assert (Et0 : nth_error t 0 = Some K0) by (unfold t; rewrite EK0; reflexivity).
  rewrite Et0.
  assert (EK0' : tend K0 = Z.of_nat (length (core v 1 d))).
  { clear - EK0 T. destruct d as [vb a l m]. cbn [top_container] in T. cbn [toks_core] in EK0.
    destruct m as [|kv m]; [destruct l as [|x l]; [discriminate|]|]; inversion EK0; reflexivity. }
  rewrite EK0', Z.eqb_refl. cbn [negb].
  (* the builder *)
  assert (Hb2 : build v (core v 1 d) t (nodes d + 0) 0 (DS empty_data []) [] = Ok d).
  { rewrite (build_core v Hv (negb (jv_null_atom v)) (fun H => proj1 (negb_true_iff _) H) (core v 1 d) t d C 1
               0%nat 0%nat 0%nat [] [] zero_token).
    - unfold bmid. cbn [Nat.add].
      assert (En : tok_at t (ntok d) = Some zero_token).
      { unfold tok_at, t. rewrite nth_error_app2 by (rewrite (proj2 (toks_core_shape v d 1%nat 0%nat)); lia).
        rewrite (proj2 (toks_core_shape v d 1%nat 0%nat)), Nat.sub_diag. reflexivity. }
      rewrite En. reflexivity.
    - unfold sub_at. cbn [skipn]. apply firstn_all.
    - unfold sub_at, t. cbn [skipn]. rewrite firstn_app, Nat.sub_diag, firstn_all. cbn [firstn]. now rewrite app_nil_r.
    - unfold tok_at, t. cbn [Nat.add]. rewrite nth_error_app2 by (rewrite (proj2 (toks_core_shape v d 1%nat 0%nat)); lia).
      rewrite (proj2 (toks_core_shape v d 1%nat 0%nat)), Nat.sub_diag. reflexivity.
    - now left.
    - now right. }
  (* the fuel from_json supplies is at least that *)
  rewrite Nat.add_0_r in Hb2.
  assert (Hf : exists k, build_fuel (length t) = (nodes d + k)%nat).
  { exists (build_fuel (length t) - nodes d)%nat. unfold build_fuel, t. rewrite app_length, (proj2 (toks_core_shape v d 1%nat 0%nat)).
    pose proof (nodes_le_ntok d). lia. }
  destruct Hf as (k & ->).
  now apply build_fuel_mono.
Qed.

(* ---------------------------------------------------------------------------------------- *)
(* the pinned code outside its defect classes: jsonEscape's "\v" arm is the only use of the escape
   switch, and fromJSON does not depend on it *)

Definition no_vtab_variant (v : js_variant) : js_variant :=
  {| jv_escape_vtab := false; jv_key_overread := jv_key_overread v; jv_container_key := jv_container_key v;
     jv_null_atom := jv_null_atom v; jv_event_data_self := jv_event_data_self v |}.

Lemma escape_no_vtab v s : no_vtab s = true -> json_escape v s = json_escape (no_vtab_variant v) s.
Proof.
  unfold json_escape, escape_table. cbn [no_vtab_variant jv_escape_vtab]. destruct (jv_escape_vtab v); [|reflexivity].
  induction s as [|c r IH]; [reflexivity|]. cbn [no_vtab forallb json_escape_with]. intros H.
  apply andb_true_iff in H as [H1 H2]. apply negb_true_iff in H1. rewrite (IH H2). f_equal.
  unfold escape_byte, escape_table_pinned, escape_table_fixed. cbn [esc_lookup]. rewrite H1. reflexivity.
Qed.

Lemma to_json_no_vtab v d : vtab_free d = true -> forall ind, to_json v ind d = to_json (no_vtab_variant v) ind d.
Proof.
  induction d as [vb a l m Hl Hm] using data_ind'. intros F ind.
  cbn [vtab_free] in F. apply andb_true_iff in F as [F Fm]. apply andb_true_iff in F as [Fa Fl].
  assert (El : forall first, json_elems (to_json v (S ind)) first l = json_elems (to_json (no_vtab_variant v) (S ind)) first l).
  { clear Hm Fm. induction Hl as [|x r Hx Hr IH]; intros first; cbn [json_elems]; [reflexivity|].
    cbn [forallb] in Fl. apply andb_true_iff in Fl as [F1 F2]. now rewrite (Hx F1), (IH F2). }
  assert (Em : forall longest first, json_entries v (to_json v (S ind)) ind longest first m =
                                     json_entries (no_vtab_variant v) (to_json (no_vtab_variant v) (S ind)) ind longest first m).
  { clear Hl Fl El. intros longest. induction Hm as [|[k x] r Hx Hr IH]; intros first; cbn [json_entries]; [reflexivity|].
    cbn [forallb fst snd] in Fm, Hx. apply andb_true_iff in Fm as [F1 F2]. apply andb_true_iff in F1 as [Fk Fx].
    now rewrite (Hx Fx), (IH F2), (escape_no_vtab _ _ Fk). }
  cbn [to_json]. destruct m as [|kv m]; [destruct l as [|x l]|].
  - destruct a as [|c a], vb; try reflexivity. now rewrite (escape_no_vtab _ _ Fa).
  - now rewrite (El true).
  - now rewrite (Em _ true).
Qed.

(* [build] reads the variant only through the three parser switches, which [no_vtab_variant] keeps *)
Lemma build_no_vtab v js t : forall f cur ds ts,
  build v js t f cur ds ts = build (no_vtab_variant v) js t f cur ds ts.
Proof. reflexivity. Qed.

Lemma from_json_no_vtab v s : from_json v s = from_json (no_vtab_variant v) s.
Proof. reflexivity. Qed.

Theorem from_to_json_vtab_free_lemma v d :
  canonical (negb (jv_null_atom v)) d = true -> nul_free d = true -> vtab_free d = true -> top_container d = true ->
  from_json v (data_to_json v d) = Ok d.
Proof.
  intros C F Vt T. unfold data_to_json. rewrite (to_json_no_vtab v d Vt), from_json_no_vtab.
  apply (from_to_json_lemma (no_vtab_variant v) d); auto.
Qed.

(* the hypotheses are satisfiable by a value with every kind of node, nested *)
Definition ex_data : data :=
  D false [] []
    [([97], D false [] [num_data [49]; str_data []; D false [] [num_data [45; 50; 46; 53]] []; empty_data] []);
     ([98; 34; 92], str_data [120; 10; 9; 34; 92; 200]);
     ([99], D false [] [] [([], num_data [48])])].
Example ex_data_in_class :
  canonical true ex_data = true /\ nul_free ex_data = true /\ vtab_free ex_data = true /\ top_container ex_data = true.
Proof. repeat split. Qed.
Example ex_data_roundtrip : from_json js_fixed (data_to_json js_fixed ex_data) = Ok ex_data.
Proof. vm_compute. reflexivity. Qed.
