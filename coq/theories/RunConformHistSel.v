(* RunConformHistSel.v -- C01, the selection comparison for charts WITH <history> (wf_histb): LargeMicroStep's
   SELECT_TRANSITIONS selects exactly what Appendix D's selectTransitions + removeConflictingTransitions select, under
   the boolean guards of the history-free core and hist_target_localb (no transition targets a deep history whose
   parent properly encloses its source: otherwise Appendix D's exit sets, hence its conflicts, differ -- C01-K5).
   Route as in RunConformInitialSel.v: both sides agree with themselves on the erased chart
   (RunConformHistSelErase / RunConformHistSelCong), a chart of the core.  Proofs only. *)
From V Require Import Base NameMatch NameMatchLemmas Chart Exec Large LargeLemmas Spec Legal SetLemmas
  LegalAbstract LegalLarge LegalRun WfCore Interp LegalOracle LargeCacheLemmas TreeLemmas ExitSetLemmas SelectConform SelectConformLemmas
  SelectConformOrder SelectConformRoot MicroConform EngineEquivDone LegalHistBase LegalHistEntry LegalHistStep LegalHistWf LegalHistOracle
  RunConformInitialBase RunConformInitialWf RunConformInitialSelLegal RunConformInitialSel
  RunConformHistRel RunConformHistDom RunConformHistWf RunConformHistSelErase RunConformHistSelCong.
From Coq Require Import Sorted.
Local Open Scope nat_scope.

Section MainH.
Variable late : bool.
Variable t0 : tree.
Notation c := (flatten late t0).
Notation c' := (eraseh (flatten late t0)).
Variable cfg : list nat.
Variable ev : option event.
Variable x : xstate.
Hypothesis Hwf : wf_histb c = true.
Hypothesis Hanti : targets_antichainb c = true.
Hypothesis Hleafb : leaf_okb c = true.
Hypothesis Hlocb : hist_target_localb c = true.
Variable hist : list nat.
Variable h : hv.
Hypothesis HH : HistOK c hist.
Hypothesis HD : HistDown c hist.
Hypothesis HR : hv_rel c hist h.
Hypothesis Hroot : fs_type (st c 0) = FCompound.
Hypothesis Hpar : par_nonemptyb c = true.
Hypothesis Hlegal : legal_configb c cfg = true.
Hypothesis Hasc : ascb cfg = true.
Hypothesis H1 : unrelated_enabledb c cfg ev x = true.
Hypothesis H2 : conds_pureb c cfg x = true.
Hypothesis H3 : descs_okb c cfg ev = true.

Let W : WFH c := wf_histb_sound c Hwf.
Let W' : WF c' := eraseh_WF c W.
Let HLH : LegalCfgH c cfg := legal_configb_sound_h c W cfg Hlegal.
Let HL' : LegalCfg c' cfg := eraseh_LegalCfg c W cfg HLH.

Lemma e_root : fs_type (st c' 0) = FCompound.
Proof. rewrite type_eraseh, Hroot. reflexivity. Qed.

Lemma e_H1a : forall s t1 t2, In s cfg -> In t1 (fs_trans (st c' s)) -> In t2 (fs_trans (st c' s)) ->
  enabledb c' cfg ev x t1 = true -> enabledb c' cfg ev x t2 = true -> t1 = t2.
Proof.
  intros s t1 t2. rewrite trans_eraseh, !enabledb_eraseh.
  exact (proj1 (unrelated_enabledb_sound_h c cfg ev x W H1) s t1 t2).
Qed.

Lemma e_H1b : forall s1 s2 t1 t2, In s1 cfg -> In s2 cfg -> LegalAbstract.Anc (fun i => fs_parent (st c' i)) s1 s2 ->
  In t1 (fs_trans (st c' s1)) -> In t2 (fs_trans (st c' s2)) ->
  enabledb c' cfg ev x t1 = true -> enabledb c' cfg ev x t2 = true -> False.
Proof.
  intros s1 s2 t1 t2. rewrite Anc_eraseh, !trans_eraseh, !enabledb_eraseh.
  exact (proj2 (unrelated_enabledb_sound_h c cfg ev x W H1) s1 s2 t1 t2).
Qed.

Lemma e_H2 : forall s ti cnd, In s cfg -> In ti (fs_trans (st c' s)) -> ft_cond (tr c' ti) = Some cnd ->
  snd (is_true (inst_of c' cfg) cnd x) = x.
Proof.
  intros s ti cnd. rewrite trans_eraseh, tr_eraseh, is_true_eraseh. exact (conds_pureb_sound c cfg x H2 s ti cnd).
Qed.

Lemma e_H3 : forall s ti e, In s cfg -> In ti (fs_trans (st c' s)) -> ev = Some e -> ft_spontaneous (tr c' ti) = false ->
  name_match_impl nm_fixed (ft_event (tr c' ti)) (ev_name e) = name_match_spec (ft_event (tr c' ti)) (ev_name e).
Proof. intros s ti e. rewrite trans_eraseh, tr_eraseh. exact (descs_okb_sound c cfg ev H3 s ti e). Qed.

Lemma e_ORD : forall s1 s2 t1 t2, s1 < nstates c' -> s2 < nstates c' -> s1 + fs_size (st c' s1) <= s2 ->
  In t1 (fs_trans (st c' s1)) -> In t2 (fs_trans (st c' s2)) -> t1 < t2.
Proof.
  intros s1 s2 t1 t2. rewrite nstates_eraseh, size_eraseh, !trans_eraseh.
  exact (trans_orderb_sound c (trans_order_flatten late t0) s1 s2 t1 t2).
Qed.

Lemma e_PAR : forall s, In s cfg -> fs_type (st c' s) = FParallel -> fs_children (st c' s) <> [].
Proof.
  intros s Hs. rewrite type_eraseh, ch_eraseh. intros Hk. apply erh_type_parallel in Hk.
  apply (par_nonemptyb_sound c Hpar s); [|exact Hk]. pose proof HLH as [_ Hb]. now apply Hb.
Qed.

Lemma Hbound_h : forall s, In s cfg -> s < nstates c.
Proof. intros s Hs. pose proof HLH as [_ Hb]. now apply Hb. Qed.

(* the erased chart gives every transition the domain the chart gives it: on the erased chart all targets are plain,
   Appendix D's domain is the engine's; on the chart itself RunConformHistDom.domain_agrees_hist *)
Lemma plain_domain_eraseh t : transition_domain c' h t = domain c t.
Proof.
  unfold transition_domain, domain.
  assert (Hn : 0 < nstates c) by (rewrite flatten_nstates; apply tsize_pos).
  assert (Heff : forall z, In z (eff_targets c' (Spec.n c') h (ft_targets t)) <-> In z (ft_targets t)).
  { intros z. unfold Spec.n. rewrite nstates_eraseh. destruct (nstates c) as [|m]; [lia|]. cbn [eff_targets].
    assert (Hg : forall l acc, In z (fold_left (fun acc0 s => if is_history_state c' s
                                     then match hv_get h s with
                                          | Some v => unionn acc0 v
                                          | None => match pseudo_trans c' s with
                                                    | Some t1 => unionn acc0 (eff_targets c' m h (ft_targets t1))
                                                    | None => acc0
                                                    end
                                          end
                                     else addn s acc0) l acc) <-> In z acc \/ In z l).
    { induction l as [|y l IH]; intros acc; cbn [fold_left]; [cbn; tauto|].
      rewrite is_history_state_eraseh, IH, MicroConformEntry.me_In_addn. cbn [In]. intuition. }
    rewrite Hg. cbn [In]. tauto. }
  set (ts := eff_targets c' (Spec.n c') h (ft_targets t)) in *.
  assert (Hall : forall a, forallb (fun z => mem a (fs_ancestors (st c z))) (ft_targets t) =
                           forallb (fun s => is_descendant c' s a) ts).
  { intros a. apply forallb_ext_set; [intros z; symmetry; apply Heff|]. intros z. rewrite is_descendant_eraseh. symmetry. apply is_descendant_mem. }
  destruct (ft_targets t) as [|z tg] eqn:Htg; destruct ts as [|y ts'] eqn:Hts.
  - reflexivity.
  - exfalso. apply (proj1 (Heff y)). left. reflexivity.
  - exfalso. apply (proj2 (Heff z)). left. reflexivity.
  - rewrite is_compound_state_eraseh. change (is_comp (fs_type (st c (ft_source t)))) with (is_compound_state c (ft_source t)).
    rewrite (Hall (ft_source t)).
    destruct (ft_internal t && is_compound_state c (ft_source t) &&
              forallb (fun s => is_descendant c' s (ft_source t)) (y :: ts')); [reflexivity|].
    rewrite find_lcca_eraseh. unfold find_lcca. rewrite <- ancs_rev_ancestors. symmetry.
    apply find_fallback_zero; [apply ancs_sorted|].
    intros a Ha. rewrite (Hall a).
    change (is_comp (fs_type (st c a))) with (is_compound_state c a).
    replace (a =? 0) with false by (symmetry; apply Nat.eqb_neq; exact Ha). rewrite orb_false_r.
    f_equal. apply forallb_ext_set; [tauto|]. intros s. now rewrite is_descendant_eraseh.
Qed.

Lemma Htd_h : forall ti, transition_domain c' h (tr c ti) = transition_domain c h (tr c ti).
Proof.
  intros ti. rewrite plain_domain_eraseh.
  apply (domain_agrees_hist late t0 W (targets_antichainb_sound_h c W Hanti) (par_nonemptyb_sound c Hpar) (leaf_okb_sound c W Hleafb)
           cfg (proj1 HLH) Hbound_h hist h HH HD HR (tr c ti) (hist_target_localb_sound c W Hlocb ti)).
Qed.

Lemma e_exit : forall s ti, In s cfg -> In ti (fs_trans (st c' s)) ->
  forall z, In z (exit_states_of lg_fixed c' cfg (tr c' ti)) <-> In z (compute_exit_set c' cfg h [tr c' ti]).
Proof.
  intros s ti _ _. rewrite tr_eraseh, exit_states_of_eraseh, (compute_exit_set_eraseh c h Htd_h).
  apply (exit_set_agrees_hist late t0 W (targets_antichainb_sound_h c W Hanti) (par_nonemptyb_sound c Hpar) (leaf_okb_sound c W Hleafb)
           cfg (proj1 HLH) Hbound_h hist h HH HD HR (tr c ti) (hist_target_localb_sound c W Hlocb ti)).
  exact Hbound_h.
Qed.

Lemma cfg_proper : forall s, In s cfg -> is_pseudo (fs_type (st c s)) = false.
Proof. intros s Hs. pose proof HLH as [_ Hb]. exact (proj2 (Hb s Hs)). Qed.

Lemma selection_conforms_hist_sec :
  select_loop lg_fixed c cfg ev (cfg_postfix c cfg) None [] x = select_transitions c cfg h ev x.
Proof.
  rewrite <- (select_transitions_eraseh c h Htd_h cfg ev x cfg_proper), <- select_loop_eraseh, <- cfg_postfix_eraseh.
  exact (selection_conforms_sec c' W' e_root cfg ev x h HL' (ascb_ssorted cfg Hasc) e_H1a e_H1b e_H2 e_H3 e_ORD e_PAR e_exit).
Qed.

Lemma selection_pure_hist_sec :
  snd (select_loop lg_fixed c cfg ev (cfg_postfix c cfg) None [] x) = x.
Proof.
  rewrite <- select_loop_eraseh, <- cfg_postfix_eraseh.
  destruct (enabled_transitions_conform_sec c' W' cfg ev x HL' (ascb_ssorted cfg Hasc) e_H1a e_H1b e_H2 e_H3 e_ORD e_PAR)
    as (_ & E & _).
  rewrite E. reflexivity.
Qed.

End MainH.


(* ------------------------------------------------------------------ the theorems *)

Theorem selection_conforms_hist_lemma : forall late t0 cfg ev x hist h,
  let c := flatten late t0 in
  wf_histb c = true -> fs_type (st c 0) = FCompound -> par_nonemptyb c = true ->
  targets_antichainb c = true -> leaf_okb c = true -> hist_target_localb c = true ->
  legal_configb c cfg = true -> ascb cfg = true ->
  HistOK c hist -> HistDown c hist -> hv_rel c hist h ->
  unrelated_enabledb c cfg ev x = true -> conds_pureb c cfg x = true -> descs_okb c cfg ev = true ->
  select_loop lg_fixed c cfg ev (cfg_postfix c cfg) None [] x = Spec.select_transitions c cfg h ev x.
Proof.
  intros late t0 cfg ev x hist h c Hwf Hroot Hpar Hanti Hleaf Hloc Hleg Hasc HH HD HR H1 H2 H3.
  exact (selection_conforms_hist_sec late t0 cfg ev x Hwf Hanti Hleaf Hloc hist h HH HD HR Hroot Hpar Hleg Hasc H1 H2 H3).
Qed.

(* ... with the engine's configuration 0 :: cfg' against Appendix D's cfg', and the selection leaves the execution state alone *)
Theorem selection_conforms_spec_cfg_hist_lemma : forall late t0 cfg' ev x hist h,
  let c := flatten late t0 in let cfg := 0 :: cfg' in
  wf_histb c = true -> fs_type (st c 0) = FCompound -> par_nonemptyb c = true -> root_unmentionedb c = true ->
  targets_antichainb c = true -> leaf_okb c = true -> hist_target_localb c = true ->
  legal_configb c cfg = true -> ascb cfg = true ->
  HistOK c hist -> HistDown c hist -> hv_rel c hist h ->
  unrelated_enabledb c cfg ev x = true -> conds_pureb c cfg x = true -> descs_okb c cfg ev = true ->
  select_loop lg_fixed c cfg ev (cfg_postfix c cfg) None [] x = Spec.select_transitions c cfg' h ev x
  /\ snd (select_loop lg_fixed c cfg ev (cfg_postfix c cfg) None [] x) = x.
Proof.
  intros late t0 cfg' ev x hist h c cfg Hwf Hroot Hpar Hun Hanti Hleaf Hloc Hleg Hasc HH HD HR H1 H2 H3. split.
  - rewrite <- (select_transitions_root c cfg').
    + exact (selection_conforms_hist_sec late t0 cfg ev x Hwf Hanti Hleaf Hloc hist h HH HD HR Hroot Hpar Hleg Hasc H1 H2 H3).
    + exact (wh_root_par c (wf_histb_sound c Hwf)).
    + unfold is_atomic_state, sty. now rewrite Hroot.
    + exact Hun.
  - exact (selection_pure_hist_sec late t0 cfg ev x Hwf Hpar Hleg Hasc H1 H2 H3).
Qed.
