(* PmlEquivExamples.v -- C06: the hypotheses of PmlEquivMicro.pml_microstep_lemma are satisfiable by a non-trivial
   chart and state: PmlStepLemmas.w_exit_interval (a <parallel> with two compound regions, a nested compound, two
   transitions, <raise> and <log> content) in the configuration after its initial step, for the event "go":
   the transition of s3 is selected, s3 is exited, s4 and s5 are entered.  Proofs only. *)
From V Require Import Base NameMatch Chart Exec Large Interp Fast Trie PmlStep PmlStepLemmas WfCore
                      SerializeCodecLemmas PmlEquivBase PmlEquivExit PmlEquivCore PmlEquivEntry PmlEquivContent PmlEquivStep PmlEquivMicro.
Local Open Scope nat_scope.

Definition ex_chart : fchart := flatten false w_exit_interval.
Definition ex_pstate : pstate := fst (pml_iter pml_repaired ex_chart 7 13 (p_init ex_chart)).
Definition ex_lstate : lstate := fst (fst (fast_step ex_fixed ex_chart l_pristine x_init)).
Definition ex_xstate : xstate := snd (fst (fast_step ex_fixed ex_chart l_pristine x_init)).
Definition ex_event : event := {| ev_name := [103%N; 111%N]; ev_kind := EvInternal |}.

Lemma ex_wf : wf_coreb ex_chart = true.
Proof. vm_compute. reflexivity. Qed.
Lemma ex_content : content_ok [] ex_chart = true.
Proof. vm_compute. reflexivity. Qed.
Lemma ex_data : forall i, i <> 0 -> fs_data (st ex_chart i) = [].
Proof.
  intros i Hi. destruct (Nat.lt_ge_cases i (nstates ex_chart)) as [L|L].
  - change (nstates ex_chart) with 10 in L.
    do 10 (destruct i as [|i]; [try congruence; vm_compute; reflexivity|]). lia.
  - rewrite (st_out ex_chart i L). reflexivity.
Qed.
Lemma ex_corr : corr ex_chart [] ex_pstate ex_lstate ex_xstate.
Proof.
  constructor; try (vm_compute; reflexivity).
  - repeat split; vm_compute; reflexivity.
  - intros v Hv. discriminate Hv.
Qed.
Lemma ex_cfg : cfg_ok ex_chart (l_cfg ex_lstate).
Proof. apply cfg_okb_sound; [exact ex_wf|]. vm_compute. reflexivity. Qed.
Lemma ex_match : forall i e, i < ntrans ex_chart -> Some ex_event = Some e -> ft_spontaneous (tr ex_chart i) = false ->
  resolved_match (guard_literals pml_repaired ex_chart i) (ev_name e) = name_match_impl nm_fixed (ft_event (tr ex_chart i)) (ev_name e).
Proof.
  intros i e Hi [= <-] _. change (ntrans ex_chart) with 2 in Hi.
  destruct i as [|[|i]]; [vm_compute; reflexivity | vm_compute; reflexivity | lia].
Qed.

(* the premises hold, the emitted model's queues do not overflow, a transition is selected, and both sides end in
   the configuration {scxml, p, s2, s4, s5, s7, s8} *)
Lemma microstep_hypotheses_satisfiable :
  let s' := fst (pml_dstep pml_repaired ex_chart 7 13 (option_map ev_name (Some ex_event)) ex_pstate) in
  let r := fselect_and_step ex_fixed ex_chart ex_lstate ex_xstate (Some ex_event) in
  p_full s' = false /\
  nonempty (k_trans (selected pml_repaired ex_chart (l_cfg ex_lstate) (Some (ev_name ex_event)) (x_store ex_xstate))) = true /\
  p_cfg s' = [0; 1; 2; 4; 5; 7; 8] /\ l_cfg (fst (fst r)) = [0; 1; 2; 4; 5; 7; 8].
Proof. vm_compute. repeat split; reflexivity. Qed.

(* ------------------------------------------------------------------ the side conditions cannot be dropped *)
(* content_ok: an unsupported <send type> is sent by the emitted model, the interpreter raises error.execution *)
Lemma content_unsupported_send_refuted :
  exists pv c iq eq i s x,
    pv_in_reads_root pv = false /\ Rx c s x /\ guard_ok s /\ p_full (pexec_instr pv c iq eq i s) = false /\
    ~ Rx c (pexec_instr pv c iq eq i s) (snd (exec_instr ex_fixed (inst_of c (p_cfg s)) i x)).
Proof.
  exists pml_repaired, ex_chart, 7, 13, (ISendBadType 1%N [101%N]), (p_init ex_chart), x_init.
  split; [reflexivity|]. split; [repeat split; reflexivity|]. split; [reflexivity|]. split; [reflexivity|].
  intros (_ & R2 & _). vm_compute in R2. discriminate R2.
Qed.

(* ... an undeclared variable reads as 0 in the emitted model, the interpreter raises error.execution and logs nothing *)
Lemma content_undeclared_variable_refuted :
  exists pv c iq eq i s x,
    pv_in_reads_root pv = false /\ Rx c s x /\ guard_ok s /\ p_full (pexec_instr pv c iq eq i s) = false /\
    ~ Rx c (pexec_instr pv c iq eq i s) (snd (exec_instr ex_fixed (inst_of c (p_cfg s)) i x)).
Proof.
  exists pml_repaired, ex_chart, 7, 13, (ILog 1%N (IVar 5%N)), (p_init ex_chart), x_init.
  split; [reflexivity|]. split; [repeat split; reflexivity|]. split; [reflexivity|]. split; [reflexivity|].
  intros (_ & R2 & _). vm_compute in R2. discriminate R2.
Qed.

(* p_full: a <raise> into the full internal queue is lost by the emitted model (spin reports the blocked d_step) *)
Lemma queue_full_refuted :
  exists pv c eq i s x,
    pv_in_reads_root pv = false /\ instr_ok [] i = true /\ Rx c s x /\ guard_ok s /\
    ~ Rx c (pexec_instr pv c 0 eq i s) (snd (exec_instr ex_fixed (inst_of c (p_cfg s)) i x)).
Proof.
  exists pml_repaired, ex_chart, 13, (IRaise 1%N [101%N]), (p_init ex_chart), x_init.
  split; [reflexivity|]. split; [reflexivity|]. split; [repeat split; reflexivity|]. split; [reflexivity|].
  intros (_ & R2 & _). vm_compute in R2. discriminate R2.
Qed.

(* outside the history-free core the entry sets differ even for the repaired template: a <history> (state 5) below
   the parent of a <history type="deep"> (state 3) that restores a recorded value is put into the entry set by
   the emitted model ("a deep history state with nested histories -> more completion"); in FastMicroStep that branch
   is dead, because USCXML_STATE_HAS_HISTORY is never set (getHistoryCompletion stores another state in the user
   data than the one init() compares it with).  Both are pseudo-states: no state is entered differently. *)
Lemma entry_set_nested_history_refuted :
  exists c cfg exitset hist targets s,
    fst (fst (p_entry_set pml_repaired c cfg exitset hist targets [] s)) <> fst (fentry_set c cfg exitset hist targets []).
Proof.
  exists (flatten false w_history_below_deep_history), [0; 9], [9], [4; 6], [3], (p_init (flatten false w_history_below_deep_history)).
  vm_compute. discriminate.
Qed.

(* the whole-run statement PmlStepLemmas.behaviour_preserved is false also of the repaired template: in a document
   without any transition SELECT_TRANSITIONS prints no "Establishing optimal transition set for event" line, so a
   consumed event (here raised by <onentry>) does not show in the emitted model's trace; states, content and
   configurations agree *)
Definition w_raise_no_trans : tree :=
  TNode KScxml 0%N None [] [] [] [] [TNode KState 1%N None [] [[IRaise 101%N [101%N]]] [] [] []].
Lemma repaired_no_transition_event_refuted : exists t fp ff, ~ behaviour_preserved pml_repaired t 7 13 fp ff.
Proof.
  exists w_raise_no_trans, 20, 40. unfold behaviour_preserved. vm_compute.
  intros Hb. specialize (Hb eq_refl eq_refl). discriminate Hb.
Qed.

Lemma microstep_nonvacuous :
  wf_coreb ex_chart = true /\ content_ok [] ex_chart = true /\ (forall i, i <> 0 -> fs_data (st ex_chart i) = []) /\
  corr ex_chart [] ex_pstate ex_lstate ex_xstate /\ cfg_ok ex_chart (l_cfg ex_lstate) /\
  (forall i e, i < ntrans ex_chart -> Some ex_event = Some e -> ft_spontaneous (tr ex_chart i) = false ->
     resolved_match (guard_literals pml_repaired ex_chart i) (ev_name e) = name_match_impl nm_fixed (ft_event (tr ex_chart i)) (ev_name e)) /\
  p_full (fst (pml_dstep pml_repaired ex_chart 7 13 (option_map ev_name (Some ex_event)) ex_pstate)) = false /\
  nonempty (k_trans (selected pml_repaired ex_chart (l_cfg ex_lstate) (Some (ev_name ex_event)) (x_store ex_xstate))) = true.
Proof.
  split; [exact ex_wf|]. split; [exact ex_content|]. split; [exact ex_data|]. split; [exact ex_corr|].
  split; [exact ex_cfg|]. split; [exact ex_match|].
  pose proof microstep_hypotheses_satisfiable as M. cbv zeta in M. destruct M as (M1 & M2 & _).
  split; [exact M1|exact M2].
Qed.
