(* ResetRaceDestroyLemmas.v -- C10/C09: proofs about ResetRaceDestroy.v (destruction racing the timer thread).
   All statements: every schedule (any list of actions), any number of pending timers, any state of the timer
   thread at the moment the destructor starts, any order of the members where not said otherwise. *)
From V Require Import Base GenResetOrder GenDestroyOrder ResetRace ResetRaceDestroy.
Local Open Scope N_scope.
Arguments mem : simpl never.
Arguments lookup : simpl never.

(* the remaining program joins the timer thread before it finishes the body or destroys anything *)
Fixpoint joins_first (todo : list dstep) (q al : bool) : bool :=
  match todo with
  | [] => false
  | DCancel :: r | DLockClear :: r | DCancelUnlock :: r => joins_first r q al
  | DRelAl :: r => if al && negb q then true else joins_first r q false
  | DRelQueue :: r => if q && negb al then true else joins_first r false al
  | _ => false
  end.

Definition dinv (s : dstate) : Prop :=
  d_fault s = false /\ d_after_done s = false /\
  (d_joined s = true \/
   (d_joined s = false /\ d_ioprocs s = true /\ d_queues s = true /\ d_delaym s = true /\ d_obj s = true
    /\ d_body_done s = false /\ joins_first (d_todo s) (d_q_held s) (d_al_held s) = true)).

Ltac split_all := repeat match goal with |- _ /\ _ => split end.

(* once the timer thread is joined nothing of what the property looks at changes *)
Lemma joined_step : forall s a, d_joined s = true ->
  d_joined (d_step s a) = true /\ d_fault (d_step s a) = d_fault s /\ d_after_done (d_step s a) = d_after_done s.
Proof.
  intros s a Hj. destruct s as [pend tg cb todo lk bl qh ah jn io qs dm ob bd ft ad]. cbn in Hj. subst jn.
  unfold d_step. cbn [d_blocked d_joined]. destruct bl; [cbn; auto|].
  destruct a as [u| |]; [cbn; auto|cbn; auto|].
  unfold ddestroy_step. cbn [d_todo]. destruct todo as [|[] rest]; cbn; auto.
  - unfold dcancel. cbn. destruct cb as [|u|u|u]; cbn; auto. destruct (mem u pend); cbn; auto.
  - destruct cb; cbn; auto.
  - unfold dcancel. cbn. destruct cb as [|u|u|u]; cbn; auto. destruct (mem u pend); cbn; auto.
  - unfold release. cbn. destruct ah; cbn; auto. destruct qh; cbn; auto. destruct cb; cbn; auto.
  - unfold release. cbn. destruct qh; cbn; auto. destruct ah; cbn; auto. destruct cb; cbn; auto.
Qed.

Lemma dinv_step : forall s a, dinv s -> dinv (d_step s a).
Proof.
  intros s a (Hf & Ha & [Hj|(Hj & Hio & Hqs & Hdm & Hob & Hbd & Hjf)]).
  { destruct (joined_step s a Hj) as (J & F & A). unfold dinv. rewrite F, A, J. auto. }
  destruct s as [pend tg cb todo lk bl qh ah jn io qs dm ob bd ft ad]. cbn in *. subst jn io qs dm ob bd ft ad.
  unfold dinv, d_step. cbn [d_blocked d_joined]. destruct bl.
  { cbn. split_all; auto. right. split_all; auto. }
  destruct a as [u| |].
  - (* fire *)
    unfold dfire_step. cbn [d_cb d_pend]. destruct cb; try (cbn; split_all; auto; right; split_all; auto).
    destruct (mem u pend); cbn; split_all; auto; right; split_all; auto.
  - (* timer *)
    unfold dtimer_step. cbn [d_cb d_pend d_obj d_delaym d_locked d_targets andb negb].
    destruct cb as [|u|u|u].
    + cbn. split_all; auto. right. split_all; auto.
    + destruct (mem u pend); cbn; split_all; auto; right; split_all; auto.
    + destruct lk; [cbn; split_all; auto; right; split_all; auto|].
      destruct (lookup tg u) as [[|]|]; cbn; split_all; auto; right; split_all; auto.
    + cbn. split_all; auto. right. split_all; auto.
  - (* the destructor *)
    unfold ddestroy_step. cbn [d_todo]. destruct todo as [|[] rest]; cbn in Hjf; try discriminate Hjf.
    + unfold dcancel. cbn [d_cb d_pend]. destruct cb as [|u|u|u]; try (cbn; split_all; auto; right; split_all; auto).
      destruct (mem u pend); cbn; split_all; auto; right; split_all; auto.
    + destruct cb; cbn; split_all; auto; right; split_all; auto.
    + unfold dcancel. cbn [d_cb d_pend]. destruct cb as [|u|u|u]; try (cbn; split_all; auto; right; split_all; auto).
      destruct (mem u pend); cbn; split_all; auto; right; split_all; auto.
    + unfold release. cbn [d_al_held d_q_held d_cb]. destruct ah; cbn in Hjf |- *.
      * destruct qh; cbn in Hjf |- *.
        -- split_all; auto. right. split_all; auto.
        -- destruct cb; cbn; split_all; auto; right; split_all; auto.
      * split_all; auto. right. split_all; auto.
    + unfold release. cbn [d_al_held d_q_held d_cb]. destruct qh; cbn in Hjf |- *.
      * destruct ah; cbn in Hjf |- *.
        -- split_all; auto. right. split_all; auto.
        -- destruct cb; cbn; split_all; auto; right; split_all; auto.
      * split_all; auto. right. split_all; auto.
Qed.

Lemma dinv_run : forall sched s, dinv s -> dinv (d_run s sched).
Proof.
  induction sched as [|a r IH]; intros s H; [exact H|].
  change (d_run s (a :: r)) with (d_run (d_step s a) r). apply IH. apply dinv_step. exact H.
Qed.

Lemma joins_first_prog : forall v members alref,
  destroy_safeb v alref = true -> joins_first (destroy_prog v members) true alref = true.
Proof.
  intros [l d j] members alref H. unfold destroy_safeb in H. cbn in H.
  destruct j; [|discriminate H]. unfold destroy_prog. cbn [dv_locks_targets dv_drops_al dv_joins_in_body].
  destruct l, d, alref; try discriminate H; reflexivity.
Qed.

(* U.  the repaired shape (the body gives up the last handle), any order of the members, any number of pending
   timers, the timer thread anywhere at the start, every schedule: no step of a callback uses a destroyed
   member, and no callback works inside the object after the destructor's body has finished *)
Theorem destroy_no_use_after_free_lemma :
  forall v members pend targets cb alref sched,
    destroy_safeb v alref = true ->
    let s := d_run (d_at_call (destroy_prog v members) pend targets cb alref) sched in
    d_fault s = false /\ d_after_done s = false.
Proof.
  intros v members pend targets cb alref sched H s.
  assert (I : dinv s).
  { apply dinv_run. unfold dinv. cbn. split_all; auto. right. split_all; auto.
    apply joins_first_prog. exact H. }
  destruct I as (F & A & _). split; assumption.
Qed.

(* ------------------------------------------------------------------ the other safe shape: by member order *)

(* after the cancellation under the lock: nothing is armed, no target is left, so a callback that is under way
   only takes _delayMutex and looks into the (empty) map; these two must outlive the join *)
Fixpoint rel_first (todo : list dstep) : bool :=
  match todo with
  | [] => false
  | DRelQueue :: _ => true
  | DKillDelayM :: _ | DFree :: _ | DRelAl :: _ | DCancel :: _ | DLockClear :: _ | DCancelUnlock :: _ => false
  | _ :: r => rel_first r
  end.

(* phases of the program [DLockClear; DCancelUnlock] ++ [DRelAl]? ++ [DBodyDone] ++ kills ++ [DFree] *)
Definition oinv (s : dstate) : Prop :=
  d_fault s = false /\
  (d_joined s = true \/
   (d_joined s = false /\ d_delaym s = true /\ d_obj s = true /\ d_q_held s = true /\
    ( (* before the lock: everything alive *)
      (d_ioprocs s = true /\ d_queues s = true /\ d_locked s = false /\
       exists rest, d_todo s = DLockClear :: DCancelUnlock :: rest /\
         ((d_al_held s = false /\ rel_first rest = true) \/ (exists rest', rest = DRelAl :: rest' /\ rel_first rest' = true)))
      \/ (* under the lock *)
      (d_ioprocs s = true /\ d_queues s = true /\ d_locked s = true /\ d_targets s = [] /\ (forall u, d_cb s <> CbErrQueued u) /\
       exists rest, d_todo s = DCancelUnlock :: rest /\
         ((d_al_held s = false /\ rel_first rest = true) \/ (exists rest', rest = DRelAl :: rest' /\ rel_first rest' = true)))
      \/ (* cancelled: quiet *)
      (d_pend s = [] /\ d_targets s = [] /\ d_locked s = false /\ (forall u, d_cb s <> CbErrQueued u) /\
       ((d_al_held s = false /\ rel_first (d_todo s) = true)
        \/ (d_ioprocs s = true /\ d_queues s = true /\ exists rest', d_todo s = DRelAl :: rest' /\ rel_first rest' = true)))))).

Lemma ojoined_step : forall s a, d_joined s = true ->
  d_joined (d_step s a) = true /\ d_fault (d_step s a) = d_fault s.
Proof. intros s a H. destruct (joined_step s a H) as (J & F & _). split; assumption. Qed.

Lemma oinv_step : forall s a, oinv s -> oinv (d_step s a).
Proof.
  intros s a (Hf & [Hj|(Hj & Hdm & Hob & Hqh & Hph)]).
  { destruct (ojoined_step s a Hj) as (J & F). unfold oinv. rewrite F, J. auto. }
  destruct s as [pend tg cb todo lk bl qh ah jn io qs dm ob bd ft ad]. cbn in *. subst jn dm ob qh ft.
  unfold oinv, d_step. cbn [d_blocked d_joined]. destruct bl.
  { cbn. split; auto. right. split_all; auto. }
  destruct Hph as [(Hio & Hqs & Hlk & rest & Ht & Hr)|[(Hio & Hqs & Hlk & Htg & Hcb & rest & Ht & Hr)|(Hp & Htg & Hlk & Hcb & Hr)]].
  - (* before the lock *)
    subst io qs lk todo. destruct a as [u| |].
    + unfold dfire_step. cbn [d_cb d_pend]. destruct cb; try (cbn; split; auto; right; split_all; auto; left; split_all; eauto).
      destruct (mem u pend); cbn; split; auto; right; split_all; auto; left; split_all; eauto.
    + unfold dtimer_step. cbn [d_cb d_pend d_obj d_delaym d_locked d_targets andb negb].
      destruct cb as [|u|u|u].
      * cbn. split; auto. right. split_all; auto. left. split_all; eauto.
      * destruct (mem u pend); cbn; split; auto; right; split_all; auto; left; split_all; eauto.
      * destruct (lookup tg u) as [[|]|]; cbn; split; auto; right; split_all; auto; left; split_all; eauto.
      * cbn. split; auto. right. split_all; auto. left. split_all; eauto.
    + unfold ddestroy_step. cbn [d_todo d_cb].
      destruct cb as [|u|u|u]; cbn; split; auto; right; split_all; auto;
        try (right; left; split_all; eauto; intros u' Hc; discriminate Hc).
      left. split_all; eauto.
  - (* under the lock *)
    subst io qs lk tg todo. destruct a as [u| |].
    + unfold dfire_step. cbn [d_cb d_pend]. destruct cb as [| | |u0]; try (cbn; split; auto; right; split_all; auto; right; left; split_all; eauto).
      destruct (mem u pend); cbn; split; auto; right; split_all; auto; right; left; split_all; eauto.
      intros u' Hc; discriminate Hc.
    + unfold dtimer_step. cbn [d_cb d_pend d_obj d_delaym d_locked d_targets andb negb].
      destruct cb as [|u|u|u].
      * cbn. split; auto. right. split_all; auto. right. left. split_all; eauto.
      * destruct (mem u pend); cbn; split; auto; right; split_all; auto; right; left; split_all; eauto;
          intros u' Hc; discriminate Hc.
      * cbn. split; auto. right. split_all; auto. right. left. split_all; eauto.
      * exfalso. apply (Hcb u). reflexivity.
    + unfold ddestroy_step. cbn [d_todo]. unfold dcancel. cbn [d_cb d_pend].
      destruct cb as [|u|u|u].
      * cbn. split; auto. right. split_all; auto. right. right. split_all; auto.
        destruct Hr as [(Hah & Hr)|(rest' & Hr & Hr')]; [left; auto|right; split_all; auto; eauto].
      * destruct (mem u pend).
        -- cbn. split; auto. right. split_all; auto. right. left. split_all; eauto.
        -- cbn. split; auto. right. split_all; auto. right. right. split_all; auto.
           destruct Hr as [(Hah & Hr)|(rest' & Hr & Hr')]; [left; auto|right; split_all; auto; eauto].
      * cbn. split; auto. right. split_all; auto. right. right. split_all; auto.
        destruct Hr as [(Hah & Hr)|(rest' & Hr & Hr')]; [left; auto|right; split_all; auto; eauto].
      * exfalso. apply (Hcb u). reflexivity.
  - (* cancelled *)
    subst pend tg lk. destruct a as [u| |].
    + unfold dfire_step. cbn [d_cb d_pend]. destruct cb; cbn; split; auto; right; split_all; auto; right; right; split_all; auto.
    + unfold dtimer_step. cbn [d_cb d_pend d_obj d_delaym d_locked d_targets andb negb mem existsb lookup].
      destruct cb as [|u|u|u].
      * cbn. split; auto. right. split_all; auto. right. right. split_all; auto.
      * change (mem u []) with false. cbn. split; auto. right. split_all; auto. right. right. split_all; auto. intros u' Hc; discriminate Hc.
      * change (lookup [] u) with (@None tkind). cbn. split; auto. right. split_all; auto. right. right. split_all; auto. intros u' Hc; discriminate Hc.
      * exfalso. apply (Hcb u). reflexivity.
    + unfold ddestroy_step. cbn [d_todo].
      destruct Hr as [(Hah & Hr)|(Hio & Hqs & rest' & Ht & Hr')].
      * subst ah. destruct todo as [|[] rest]; cbn in Hr; try discriminate Hr.
        -- (* DRelQueue: the last handle: join *)
           unfold release. cbn [d_al_held d_q_held d_cb negb]. destruct cb as [|u|u|u].
           ++ cbn. split; auto.
           ++ cbn. split; auto. right. split_all; auto. right. right. split_all; auto.
           ++ cbn. split; auto. right. split_all; auto. right. right. split_all; auto.
           ++ exfalso. apply (Hcb u). reflexivity.
        -- cbn. split; auto. right. split_all; auto. right. right. split_all; auto.
        -- cbn. split; auto. right. split_all; auto. right. right. split_all; auto.
        -- cbn. split; auto. right. split_all; auto. right. right. split_all; auto.
      * subst todo io qs. unfold release. cbn [d_al_held d_q_held d_cb negb].
        destruct ah; cbn; split; auto; right; split_all; auto; right; right; split_all; auto.
Qed.

Lemma oinv_run : forall sched s, oinv s -> oinv (d_run s sched).
Proof.
  induction sched as [|a r IH]; intros s H; [exact H|].
  change (d_run s (a :: r)) with (d_run (d_step s a) r). apply IH. apply oinv_step. exact H.
Qed.

Lemma rel_first_of_order : forall kills, queue_dies_firstb kills = true -> rel_first (DBodyDone :: kills ++ [DFree]) = true.
Proof.
  intros kills H. cbn [rel_first]. induction kills as [|k r IH]; [discriminate H|].
  destruct k; cbn in H |- *; try discriminate H; try reflexivity; apply IH; exact H.
Qed.

(* U.  the other shape: lock + clear + cancel, _al's handle given up in the body (or never taken), NO join in the
   body; members in an order in which _delayQueue dies before _delayMutex / _delayedEventTargets: every schedule,
   any number of pending timers, no callback step uses a destroyed member.  (A callback may still run inside the
   object after the body has finished: d_after_done is not claimed.) *)
Theorem destroy_safe_by_member_order_lemma :
  forall v members pend targets cb alref sched,
    dv_joins_in_body v = false ->
    destroy_safe_by_orderb v alref members = true ->
    d_fault (d_run (d_at_call (destroy_prog v members) pend targets cb alref) sched) = false.
Proof.
  intros [l d j] members pend targets cb alref sched Hj H. cbn in Hj. subst j.
  unfold destroy_safe_by_orderb in H. cbn [dv_locks_targets dv_drops_al] in H.
  apply andb_true_iff in H. destruct H as [H Hq]. apply andb_true_iff in H. destruct H as [Hl Hd]. subst l.
  pose proof (rel_first_of_order _ Hq) as Hr.
  assert (I : oinv (d_run (d_at_call (destroy_prog {| dv_locks_targets := true; dv_drops_al := d; dv_joins_in_body := false |} members)
                                     pend targets cb alref) sched)).
  { apply oinv_run. unfold oinv, destroy_prog. cbn [dv_locks_targets dv_drops_al dv_joins_in_body].
    cbn [d_at_call d_fault d_joined d_delaym d_obj d_q_held d_ioprocs d_queues d_locked d_todo d_al_held].
    split; auto. right. split_all; auto. left. split_all; auto.
    destruct d.
    - eexists. split; [reflexivity|]. right. eexists. split; [reflexivity|]. exact Hr.
    - cbn in Hd. destruct alref; [discriminate Hd|]. eexists. split; [reflexivity|]. left. split; [reflexivity|exact Hr]. }
  destruct I as (F & _). exact F.
Qed.

(* ------------------------------------------------------------------ what cannot be dropped *)

Definition members_found := [MAl; MTargets; MDelayMutex; MInternalQueue; MExternalQueue; MDelayQueue; MIoProcs].

(* the code as found: one delayed send, its callback past its critical section (CbTaken) when the destructor
   starts: cancelAllDelayed finds nothing, the body finishes, _ioProcs is destroyed, the member's handle is the last
   one and joins -- it waits for the callback, which now runs eventReady and dispatches through the dead _ioProcs *)
Lemma destroy_no_use_after_free_refuted_lemma :
  exists sched,
    let s := d_run (d_at_call (destroy_prog dv_found members_found) [] [(7, KDeliver)] (CbTaken 7) false) sched in
    d_fault s = true /\ d_after_done s = true /\ d_ioprocs s = false /\ d_delaym s = true.
Proof. exists [DaDestroy; DaDestroy; DaDestroy; DaDestroy; DaTimer]. vm_compute. repeat split; reflexivity. Qed.

(* the same from a quiescent start: the timer fires, its callback passes its critical section, then the destructor *)
Lemma destroy_found_quiescent_refuted_lemma :
  exists sched,
    let s := d_run (d_at_call (destroy_prog dv_found members_found) [7] [(7, KDeliver)] CbIdle false) sched in
    d_fault s = true.
Proof. exists [DaFire 7; DaTimer; DaDestroy; DaDestroy; DaDestroy; DaDestroy; DaTimer]. vm_compute. reflexivity. Qed.

(* lock + clear + join in the body, but _al's handle kept while getActionLanguage() had been called: the member's
   handle is not the last one, nobody joins until _al dies -- after _delayMutex: the callback locks a dead mutex *)
Lemma destroy_al_handle_refuted_lemma :
  exists sched,
    let v := {| dv_locks_targets := true; dv_drops_al := false; dv_joins_in_body := true |} in
    let s := d_run (d_at_call (destroy_prog v members_found) [] [(7, KDeliver)] (CbTaken 7) true) sched in
    d_fault s = true /\ d_delaym s = false.
Proof.
  exists [DaDestroy; DaDestroy; DaDestroy; DaDestroy; DaDestroy; DaDestroy; DaDestroy; DaDestroy; DaDestroy; DaTimer].
  vm_compute. split; reflexivity.
Qed.

(* the other shape needs the member order: with _delayQueue declared BEFORE _delayMutex the join comes too late *)
Lemma destroy_member_order_refuted_lemma :
  exists sched,
    let v := {| dv_locks_targets := true; dv_drops_al := true; dv_joins_in_body := false |} in
    let members := [MAl; MDelayQueue; MTargets; MDelayMutex; MInternalQueue; MExternalQueue; MIoProcs] in
    let s := d_run (d_at_call (destroy_prog v members) [] [(7, KDeliver)] (CbTaken 7) false) sched in
    queue_dies_firstb (map kill_of (rev members)) = false /\ d_fault s = true.
Proof.
  exists [DaDestroy; DaDestroy; DaDestroy; DaDestroy; DaDestroy; DaDestroy; DaDestroy; DaDestroy; DaDestroy; DaTimer].
  vm_compute. split; reflexivity.
Qed.

(* non-vacuity: two pending timers, one fires and is under way while the repaired destructor runs; it is waited
   for in the body, everything is destroyed afterwards, no fault *)
Example destroy_nonvacuous :
  let s0 := d_at_call (destroy_prog dv_fixed members_found) [7; 8] [(7, KError); (8, KDeliver)] CbIdle true in
  destroy_safeb dv_fixed true = true
  /\ (let s := d_run s0 [DaFire 7; DaTimer; DaDestroy; DaDestroy; DaDestroy; DaDestroy; DaDestroy] in
      d_cb s = CbTaken 7 /\ d_joined s = false /\ d_body_done s = false)          (* the join waits *)
  /\ (let s := d_run s0 ([DaFire 7; DaTimer; DaDestroy; DaDestroy; DaDestroy; DaDestroy; DaTimer] ++ repeat DaDestroy 12) in
      d_todo s = [] /\ d_joined s = true /\ d_obj s = false /\ d_fault s = false /\ d_after_done s = false).
Proof. vm_compute. repeat split; reflexivity. Qed.

(* ------------------------------------------------------------------ the regenerated facts *)
Lemma destroy_verdict : forall (ok j d : bool), ok && j && d = true -> ok = true /\ j = true /\ d = true.
Proof. intros ok j d H. destruct ok, j, d; try discriminate H. auto. Qed.
