(* EngineEquivHistParMicro.v -- C03 with <history> directly below <parallel> (wf_histpb): Fast.fmicrostep against
   Large.microstep, composed from EngineEquivHistParEntry.v, EngineEquivHistParEnter.v and
   EngineEquivHistParDone.v, for a microstep after a selection and for the initial microstep.  The legality of
   the configuration after the microstep is the one over proper states (LegalH).  Proofs only. *)
From V Require Import Base NameMatch Chart Exec Large LargeLemmas Fast Legal SetLemmas LegalAbstract LegalLarge
  LegalRun WfCore LegalOracle LargeCacheLemmas SelectConform SelectConformLemmas MicroConform MicroConformLemmas
  LegalHistBase LegalHistEntry LegalHistStep LegalHistRun LegalHistWf LegalHistFast LegalHistFastRun
  LegalHistParBase LegalHistParEntry LegalHistParStep LegalHistParRun LegalHistParWf LegalHistParFast LegalHistParFastRun
  EngineEquivBase EngineEquivDone EngineEquivStep EngineEquivSelect
  EngineEquivHistEntry EngineEquivHistDone EngineEquivHistEnter EngineEquivHistMicro
  EngineEquivHistParEntry EngineEquivHistParDone EngineEquivHistParEnter.
Local Open Scope nat_scope.

Section MicroP.
Variable xv : ex_variant.
Variable c : fchart.
Hypothesis Hwf : wf_histpb c = true.
Hypothesis Hleaf : leaf_okb c = true.
Hypothesis Hpar : par_nonemptyb c = true.
Hypothesis Htab : trans_tableb c = true.
Let W : WFHP c := wf_histpb_sound c Hwf.
Let n := nstates c.
Let par (i : nat) := fs_parent (st c i).
Let ch (i : nat) := fs_children (st c i).
Let kd (i : nat) := fs_type (st c i).

Variable lf ll : lstate.
Variable x : xstate.
Variable targets exitset transset : list nat.
Variable ini : bool.
Let cfg := l_cfg ll.
Let hist := if ini then l_hist ll else remember_history c cfg exitset (l_hist ll).
Let es := fst (entry_set lg_fixed c cfg exitset hist targets transset).
Let ts := snd (entry_set lg_fixed c cfg exitset hist targets transset).
Let cfg1 := set_diff cfg exitset.
Let E := filter (properb c) (set_diff es cfg1).

Hypothesis Hrel : lstate_eqv c lf ll.
Hypothesis Hplain : plain_transb c transset = true.
Hypothesis Hhist_sorted : ssorted (l_hist ll).
Hypothesis Hentry : fentry_set c cfg exitset hist targets transset = (no_initial c es, ts).
Hypothesis HLinv : HInvP c cfg exitset targets ETrue n es.
Hypothesis HTs : TsOK c transset es ts.
Hypothesis cfg_sorted : ssorted cfg.
Hypothesis cfg_bound : forall y, In y cfg -> y < n.
Hypothesis es_sorted : ssorted es.
Hypothesis Hlegal : LegalH c (fun y => In y (ins_all E cfg1)).
Hypothesis Hproper : forall y, In y (ins_all E cfg1) -> pseudoS c y = false.
Hypothesis Hguard : ms_guardb_hist c ll targets exitset transset ini = true.

Theorem ehp_microstep_rel :
  lstate_eqv c (fst (fmicrostep xv c lf x targets exitset transset ini))
               (fst (microstep lg_fixed xv c ll x targets exitset transset ini)) /\
  snd (fmicrostep xv c lf x targets exitset transset ini) = snd (microstep lg_fixed xv c ll x targets exitset transset ini).
Proof.
  destruct Hrel as (Rc & Rh & Ri & Rs & Rin & Rt & Rf & Rst & Rca).
  assert (Hg : done_guardb c (ins_all E cfg1) E = true) by exact Hguard.
  assert (Hhf : (if ini then l_hist lf else fremember c (l_cfg lf) exitset (l_hist lf)) = hist).
  { unfold hist. rewrite Rc, Rh. destruct ini; [reflexivity|]. exact (proj1 (eh_remember_eq c (l_cfg ll) exitset (l_hist ll) Hhist_sorted)). }
  unfold fmicrostep, microstep. cbn zeta. rewrite Hhf. rewrite Rc. fold cfg. fold hist.
  rewrite Hentry.
  assert (Ees : entry_set lg_fixed c cfg exitset hist targets transset = (es, ts)) by apply surjective_pairing.
  rewrite Ees.
  pose proof (ee_exit_fold_set xv c exitset cfg x) as Hc1.
  destruct (fold_left (exit_one xv c) (rev exitset) (cfg, x)) as [cfg1' x1]. cbn [fst] in Hc1. fold cfg1 in Hc1. subst cfg1'.
  set (x2 := fold_left (take_one xv c cfg1) ts x1).
  set (af := {| ea_cfg := cfg1; ea_initd := l_initd lf; ea_tlf := l_tlf lf; ea_x := x2 |}).
  set (al := {| ea_cfg := cfg1; ea_initd := l_initd ll; ea_tlf := l_tlf ll; ea_x := x2 |}).
  assert (Hacc : acc_eqv c af al) by (unfold acc_eqv, af, al; cbn [ea_cfg ea_initd ea_tlf ea_x]; auto).
  assert (Hc1s : ssorted cfg1) by (unfold cfg1, set_diff; now apply ssorted_filter).
  assert (HEs : ssorted E) by (unfold E, set_diff; apply ssorted_filter; now apply ssorted_filter).
  assert (Hnoini : NoDup (no_initial c es)) by (apply ssorted_NoDup; unfold no_initial; now apply ssorted_filter).
  rewrite (ehp_fenter_skip xv c ts (no_initial c es) af Hnoini).
  rewrite (ehp_enter_skip xv c ts (set_diff es cfg1) al).
  assert (EE : filter (fun i => negb (mem i (ea_cfg af)) && properb c i) (no_initial c es) = E).
  { unfold no_initial, E, set_diff. rewrite !eh_filter_filter. apply ee_filter_ext_in. intros i _. cbn [ea_cfg af].
    destruct (properb c i) eqn:Hp; [rewrite (eh_proper_not_initial c i Hp); reflexivity | now rewrite !andb_false_r]. }
  rewrite EE. fold E.
  assert (HbE : forall z, In z E -> z < n).
  { intros z Hz. unfold E in Hz. apply filter_In in Hz as [Hz _]. apply In_set_diff in Hz. exact (hip_bound _ _ _ _ _ _ _ HLinv z (proj1 Hz)). }
  assert (HR : acc_eqv c (fold_left (fenter_one xv c ts) E af) (fold_left (enter_one xv c ts) E al)).
  { apply (ehp_enter_fold_rel xv c Hwf ts E af al Hacc (ssorted_NoDup _ HEs)).
    - intros i Hi. unfold E in Hi. apply filter_In in Hi as [Hi _]. apply In_set_diff in Hi. exact (proj2 Hi).
    - intros i Hi. unfold E in Hi. apply filter_In in Hi. exact (proj2 Hi).
    - intros i _. exact (ehp_dflt_eq c W (eh_trans_nodup c Htab) cfg exitset targets transset es ts Hplain HLinv HTs i).
    - intros pre f post HE Hf y. cbn [ea_cfg al].
      assert (Hb1 : forall z, In z cfg1 -> z < n) by (intros z Hz; unfold cfg1 in Hz; apply In_set_diff in Hz; apply cfg_bound; tauto).
      exact (ehp_guard_done c Hwf Hleaf Hpar cfg1 E Hc1s HEs Hb1 HbE Hlegal Hproper Hg pre f post HE Hf y). }
  destruct HR as (A1 & A2 & A3 & A4). cbn [fst snd]. split.
  - unfold lstate_eqv. cbn [l_cfg l_hist l_initd l_spont l_init l_tlf l_fin l_stable l_cancelled]. repeat split; assumption.
  - now rewrite A4.
Qed.

End MicroP.

(* ------------------------------------------------------------------ after a selection *)

Section AfterSelectionP.
Variable xv : ex_variant.
Variable c : fchart.
Hypothesis Hwf : wf_histpb c = true.
Hypothesis Hleaf : leaf_okb c = true.
Hypothesis Hpar : par_nonemptyb c = true.
Hypothesis Htab : trans_tableb c = true.
Let W : WFHP c := wf_histpb_sound c Hwf.

Variable lf ll : lstate.
Variable x : xstate.
Variable sel : list nat.
Hypothesis Hrel : lstate_eqv c lf ll.
Hypothesis Hlegal : LegalCfgH c (l_cfg ll).
Hypothesis Hhist : HistOK c (l_hist ll).
Hypothesis Hsorted : ssorted (l_cfg ll).
Hypothesis Hhist_sorted : ssorted (l_hist ll).
Hypothesis Hsel_src : forall ti, In ti sel -> In (ft_source (tr c ti)) (l_cfg ll).
Hypothesis Hsel_ok : pairwise_ok lg_fixed c sel.
Hypothesis Hsel_sorted : ssorted sel.
Hypothesis Hplain : plain_transb c sel = true.
Hypothesis Hguard : ms_guardb_hist c ll (sel_targets c sel) (sel_exitset c (l_cfg ll) sel) sel false = true.

Theorem ehp_microstep_sel :
  lstate_eqv c (fst (fmicrostep xv c lf x (sel_targets c sel) (sel_exitset c (l_cfg ll) sel) sel false))
               (fst (microstep lg_fixed xv c ll x (sel_targets c sel) (sel_exitset c (l_cfg ll) sel) sel false)) /\
  snd (fmicrostep xv c lf x (sel_targets c sel) (sel_exitset c (l_cfg ll) sel) sel false) =
  snd (microstep lg_fixed xv c ll x (sel_targets c sel) (sel_exitset c (l_cfg ll) sel) sel false).
Proof.
  pose proof Hlegal as [HL HB].
  set (cfg := l_cfg ll) in *.
  assert (HBn : forall y, In y cfg -> y < nstates c) by (intros y Hy; now destruct (HB y Hy)).
  assert (HBp : forall y, In y cfg -> pseudoS c y = false) by (intros y Hy; now destruct (HB y Hy)).
  change (sel_targets c sel) with (LegalLarge.targets c sel) in *.
  change (sel_exitset c cfg sel) with (LegalLarge.exitset c cfg sel) in *.
  set (X := LegalLarge.exitset c cfg sel) in *. set (T := LegalLarge.targets c sel) in *.
  set (hist := remember_history c cfg X (l_hist ll)).
  assert (Hex : forall y, In y X -> In y cfg) by (intros y Hy; exact (ehp_sel_exit_sub c W cfg sel Hlegal Hsel_src y Hy)).
  assert (HH' : HistOK c hist) by exact (remember_HistOK_p c W cfg X HL HBp Hex (l_hist ll) Hhist).
  destruct (ehp_entry_rel_sel c W cfg sel Hlegal Hsel_src Hsel_ok hist HH' sel Hsel_sorted) as (_ & HLi & _ & (_ & SL & _) & HTs).
  fold X in HLi, SL, HTs. fold T in HLi, SL, HTs. unfold ELP in HLi, SL, HTs.
  pose proof (microstep_sets_legal_h_p c W cfg sel HL HBn HBp Hsel_src Hsel_ok hist HH') as HR.
  fold X in HR. unfold HEfs_p, HEfin in HR. fold X in HR. fold T in HR.
  set (es := fst (entry_set lg_fixed c cfg X hist T sel)) in *.
  assert (HCH : LegalCfgH c (ins_all (filter (properb c) (set_diff es (set_diff cfg X))) (set_diff cfg X))).
  { split.
    - apply (legal_ext c _ _ (eh_after_mem c cfg X es)). exact HR.
    - intros y Hy. apply eh_after_mem in Hy as [[Hy _]|[Hy Hp]]; [now apply HB|]. split; [|exact Hp].
      exact (hip_bound _ _ _ _ _ _ _ HLi y Hy). }
  apply (ehp_microstep_rel xv c Hwf Hleaf Hpar Htab); try assumption.
  - exact (ehp_entry_set_sel c W cfg sel Hlegal Hsel_src Hsel_ok hist HH' sel Hsel_sorted).
  - exact (proj1 HCH).
  - intros y Hy. exact (proj2 (proj2 HCH y Hy)).
Qed.

End AfterSelectionP.

(* ------------------------------------------------------------------ the initial microstep *)

Section InitialStepP.
Variable xv : ex_variant.
Variable c : fchart.
Hypothesis Hwf : wf_histpb c = true.
Hypothesis Hleaf : leaf_okb c = true.
Hypothesis Hpar : par_nonemptyb c = true.
Hypothesis Htab : trans_tableb c = true.
Hypothesis root_compound : fs_type (st c 0) = FCompound.
Hypothesis root_sorted : ssorted (fs_completion (st c 0)).
Let W : WFHP c := wf_histpb_sound c Hwf.

Variable lf ll : lstate.
Variable x : xstate.
Hypothesis Hrel : lstate_eqv c lf ll.
Hypothesis Hnil : l_cfg ll = [].
Hypothesis Hhist : HistOK c (l_hist ll).
Hypothesis Hhist_sorted : ssorted (l_hist ll).
Hypothesis Hguard : ms_guardb_hist c ll (fs_completion (st c 0)) [] [] true = true.

Theorem ehp_microstep_init :
  lstate_eqv c (fst (fmicrostep xv c lf x (fs_completion (st c 0)) [] [] true))
               (fst (microstep lg_fixed xv c ll x (fs_completion (st c 0)) [] [] true)) /\
  snd (fmicrostep xv c lf x (fs_completion (st c 0)) [] [] true) =
  snd (microstep lg_fixed xv c ll x (fs_completion (st c 0)) [] [] true).
Proof.
  set (hist := l_hist ll) in *. set (T := fs_completion (st c 0)) in *.
  destruct (ehp_entry_rel_init c W hist Hhist root_compound root_sorted) as (_ & HLi & _ & (_ & SL & _) & HTs).
  fold T in HLi, SL, HTs. unfold ELP in HLi, SL, HTs.
  pose proof (initial_sets_legal_h_p c W hist Hhist root_compound) as HR. unfold HEinit_p, HEfin in HR. fold T in HR.
  set (es := fst (entry_set lg_fixed c [] [] hist T [])) in *.
  assert (HCH : LegalCfgH c (ins_all (filter (properb c) (set_diff es (set_diff [] []))) (set_diff [] []))).
  { split.
    - apply (legal_ext c _ _ (eh_after_mem_nil c es)).
      exact HR.
    - intros y Hy. apply eh_after_mem in Hy as [[[] _]|[Hy Hp]]. split; [|exact Hp]. exact (hip_bound _ _ _ _ _ _ _ HLi y Hy). }
  apply (ehp_microstep_rel xv c Hwf Hleaf Hpar Htab); try assumption; rewrite ?Hnil; try assumption.
  - reflexivity.
  - exact (ehp_entry_set_init c W hist Hhist root_compound root_sorted).
  - exact I.
  - intros y [].
  - exact (proj1 HCH).
  - intros y Hy. exact (proj2 (proj2 HCH y Hy)).
Qed.

End InitialStepP.
