(* PmlEquivMicro.v -- C06: one iteration of the d_step of the emitted step process (PmlStep.pml_dstep:
   SELECT_TRANSITIONS ... ENTER_STATES) against one Fast.fselect_and_step, on corresponding states, for every chart
   of the history-free core, every ancestor-closed configuration, every event and every datamodel state.
   Composition of PmlStepLemmas.pml_select_equiv_lemma (selection), PmlEquivExit (exit set, target set, conflict
   table, history), PmlEquivEntry (entry set) and PmlEquivStep (exit / take / enter).  Proofs only. *)
From V Require Import Base NameMatch Chart Exec Large Legal SetLemmas LegalAbstract LegalLarge WfCore Fast Trie PmlStep
                      TraceLemmas PmlStepLemmas SerializeCodecLemmas
                      PmlEquivBase PmlEquivExit PmlEquivCore PmlEquivEntry PmlEquivContent PmlEquivStep.
From Coq Require Import Sorted.
Local Open Scope nat_scope.

(* the configuration as far as the step needs it: a flat_set of state indices that contains the root and, with a
   state, its ancestors (every legal configuration is one) *)
Record cfg_ok (c : fchart) (cfg : list nat) : Prop := {
  ck_sorted : ssorted cfg;
  ck_bounded : bounded (nstates c) cfg;
  ck_root : In 0 cfg;
  ck_closed : forall x a, In x cfg -> LegalAbstract.Anc (fun i => fs_parent (st c i)) a x -> In a cfg
}.

(* corresponding states of the emitted model and the engine *)
Record corr (c : fchart) (dom : list N) (s : pstate) (l : lstate) (x : xstate) : Prop := {
  co_cfg : p_cfg s = l_cfg l;
  co_hist : p_hist s = l_hist l;
  co_rx : Rx c s x;
  co_store : store_has dom (x_store x);
  co_tlf : p_tlf s = l_tlf l;
  co_fin : p_fin s = l_tlf l
}.

Lemma pml_dstep_unfold pv c iq eq ev s :
  pml_dstep pv c iq eq ev s =
  let a := fst (p_select pv c ev s) in
  let s2 := snd (p_select pv c ev s) in
  let s2' := set_flags (p_spont s2) (p_tlf s2) (k_found a) (p_fin s2) s2 in
  let initial := negb (nonempty (p_cfg s2')) in
  let target := if initial then fs_completion (st c 0) else k_target a in
  let s3 := if initial then out PInitialEntry (set_flags true (p_tlf s2') true (p_fin s2') s2')
            else if p_found s2' then set_flags true (p_tlf s2') (p_found s2') (p_fin s2') (out PFound s2')
            else out PNotFound (set_flags false (p_tlf s2') (p_found s2') (p_fin s2') s2') in
  let s4 := if p_found s3 then p_microstep pv c iq eq target (k_exit a) (k_trans a) s3 else s3 in
  (s4, if p_full s4 then PFull else PRunning).
Proof.
  unfold pml_dstep. destruct (p_select pv c ev s) as [a s2]. cbn [fst snd]. cbv zeta.
  destruct (negb (nonempty (p_cfg (set_flags (p_spont s2) (p_tlf s2) (k_found a) (p_fin s2) s2)))); [reflexivity|].
  destruct (p_found (set_flags (p_spont s2) (p_tlf s2) (k_found a) (p_fin s2) s2)); reflexivity.
Qed.

Section Micro.
Variable pv : pml_variant.
Variable c : fchart.
Variable iq eq : nat.
Variable dom : list N.
Hypothesis Hin : pv_in_reads_root pv = false.
Hypothesis Hbare : pv_cond_bare pv = false.
Hypothesis Hcov : pv_hist_covered pv = false.
Hypothesis Hstale : pv_found_stale pv = false.
Hypothesis H : wf_coreb c = true.
Hypothesis Hcontent : content_ok dom c = true.
Hypothesis Hdata : forall i, i <> 0 -> fs_data (st c i) = [].
Let W : WF c := wf_coreb_sound c H.
Notation n := (nstates c).
Notation Anc := (LegalAbstract.Anc (fun i => fs_parent (st c i))).

(* ---- the static exit set of a transition: the states below its domain ---- *)
Lemma In_exit_static ti x : x < n ->
  (In x (exit_static c (tr c ti)) <-> exists d, domain c (tr c ti) = Some d /\ Anc d x).
Proof.
  intros Hx. rewrite (exit_static_core c H). unfold exit_interval. cbn [lg_exit_overreach lg_fixed andb].
  destruct (domain c (tr c ti)) as [d|] eqn:D.
  - cbn [Nat.eqb]. rewrite in_seq.
    destruct (domain_has_target c H ti d D) as (g & _ & Hg). pose proof (anc_below c H _ _ Hg) as [L1 L2].
    pose proof (wf_interval c W d x ltac:(lia) Hx) as Wx.
    pose proof (proj1 (wf_interval c W d g ltac:(lia) ltac:(lia)) Hg) as Wg. split.
    + intros Hi. exists d. split; [reflexivity|]. apply Wx. lia.
    + intros (d' & [= <-] & Hi). apply Wx in Hi. lia.
  - cbn. split; [tauto|]. intros (d & Hd & _). discriminate.
Qed.

Lemma cfg_proper_core cfg : cfg_proper c cfg = true.
Proof. unfold cfg_proper. apply forallb_forall. intros i _. now rewrite (core_proper c H). Qed.

Lemma exit_cfg_fold l : forall cfg x,
  fst (fold_left (exit_one ex_fixed c) l (cfg, x)) = fold_left (fun g i => set_remove i g) l cfg.
Proof. induction l as [|i r IH]; intros cfg x; cbn [fold_left]; [reflexivity|]. unfold exit_one at 2. apply IH. Qed.

Lemma In_remove_fold l : forall cfg y, In y (fold_left (fun g i => set_remove i g) l cfg) <-> In y cfg /\ ~ In y l.
Proof.
  induction l as [|i r IH]; intros cfg y; cbn [fold_left]; [cbn; tauto|].
  rewrite IH, In_set_remove. cbn [In]. split.
  - intros ((A & B) & C). split; [exact A|]. intros [D|D]; [now apply B | now apply C].
  - intros (A & B). repeat split; auto.
Qed.

Lemma remove_fold_sorted l : forall cfg, ssorted cfg -> ssorted (fold_left (fun g i => set_remove i g) l cfg).
Proof. induction l as [|i r IH]; intros cfg Hs; cbn [fold_left]; [exact Hs|]. apply IH. now apply set_remove_ssorted. Qed.

(* the configuration FastMicroStep ends a microstep in: entered states added *)
Lemma In_enter_fold ts es : forall a y,
  In y (ea_cfg (fold_left (fenter_one ex_fixed c ts) es a)) <-> In y (ea_cfg a) \/ In y es.
Proof.
  induction es as [|i r IH]; intros a y; cbn [fold_left]; [cbn; tauto|].
  rewrite IH. cbn [In].
  assert (E : In y (ea_cfg (fenter_one ex_fixed c ts a i)) <-> In y (ea_cfg a) \/ i = y).
  { unfold fenter_one. destruct (mem i (ea_cfg a)) eqn:M.
    - apply mem_true_In in M. split; [tauto|]. intros [A|<-]; assumption.
    - rewrite (core_proper c H i).
      destruct (mem i (ea_initd a)); destruct (fs_type (st c i)); cbn [ea_cfg]; rewrite insert_sorted_In; split; intros [A|A]; auto. }
  rewrite E. tauto.
Qed.

(* ---- one microstep ---- *)
Variable s : pstate.
Variable l : lstate.
Variable x : xstate.
Variable evf : option event.
Hypothesis Hcorr : corr c dom s l x.
Hypothesis Hcfg : cfg_ok c (l_cfg l).
Hypothesis Hmatch : forall i e, i < ntrans c -> evf = Some e -> ft_spontaneous (tr c i) = false ->
  resolved_match (guard_literals pv c i) (ev_name e) = name_match_impl nm_fixed (ft_event (tr c i)) (ev_name e).

Let cfg := l_cfg l.
Let evp := option_map ev_name evf.
Let A := selected pv c cfg evp (x_store x).
Let ex := set_inter (k_exit A) cfg.

Lemma cfg_nonempty : nonempty cfg = true.
Proof. destruct Hcfg as [_ _ H0 _]. unfold cfg. destruct (l_cfg l); [destruct H0|reflexivity]. Qed.

Lemma selection : fselect c cfg evf (seq 0 (ntrans c)) [] x = (k_trans A, x) /\ k_found A = nonempty (k_trans A).
Proof.
  apply (pml_select_equiv_lemma pv c cfg evf x Hin Hbare).
  - intros i j _ _. apply (conflict_static_core c H).
  - exact Hmatch.
  - intros i cnd _ Hc. destruct (trans_content_ok c dom Hcontent i) as (_ & _ & Hok).
    rewrite (beval_total dom _ _ _ (co_store _ _ _ _ _ Hcorr) (Hok cnd Hc)). discriminate.
Qed.

(* nothing selected: the engine only updates its flags *)
Lemma notfound_step : k_trans A = [] ->
  fselect_and_step ex_fixed c l x evf =
  (upd_flags (upd_flags l (l_spont l) false) (match evf with Some _ => true | None => false end) false, x, RC_MICROSTEPPED).
Proof.
  intros E. unfold fselect_and_step. cbn [upd_flags l_cfg]. fold cfg. destruct selection as [Sel _]. rewrite Sel, E. reflexivity.
Qed.

Lemma p_select_form :
  fst (p_select pv c evp s) =
    {| k_found := k_found A; k_conf := k_conf A; k_target := k_target A; k_exit := ex; k_trans := k_trans A |} /\
  pcore (snd (p_select pv c evp s)) = pcore s /\ p_hist (snd (p_select pv c evp s)) = p_hist s /\
  pobs_list c (p_out (snd (p_select pv c evp s))) = pobs_list c (p_out s).
Proof.
  destruct Hcorr as [Ec _ (Es & _) _ _ _].
  unfold p_select, ex, A, selected, pnt. rewrite Ec, Es. fold cfg.
  destruct (ntrans c) eqn:Nt.
  - cbn [seq fold_left psel0 k_found k_conf k_target k_exit k_trans fst snd]. rewrite Hstale. cbn. repeat split; reflexivity.
  - cbn [fst snd]. repeat split; reflexivity.
Qed.

Lemma ex_facts :
  ssorted ex /\ bounded n ex /\ (forall i, In i ex -> In i cfg) /\ mem 0 ex = false /\
  ex = fold_left (fun acc ti => set_union acc (exit_states_of lg_fixed c cfg (tr c ti))) (k_trans A) [] /\
  k_target A = fold_left (fun acc ti => set_union acc (ft_targets (tr c ti))) (k_trans A) [].
Proof.
  destruct (selected_sets pv c cfg evp (x_store x)) as [E1 E2 E3 E4 E5 E6]. fold A in E1, E2, E3, E4, E5, E6.
  destruct Hcfg as [Cs Cb C0 Cc].
  assert (Hsub : forall i, In i ex -> In i cfg) by (intros i Hi; apply In_set_inter in Hi; tauto).
  destruct (pml_exit_set_lemma pv c cfg evp (x_store x) (cfg_proper_core cfg)) as [X1 X2].
  repeat split; auto.
  - now apply set_inter_ssorted.
  - apply bounded_intro. intros i Hi. apply (bounded_In n cfg); auto.
  - apply mem_false_In. intros H0. apply In_set_inter in H0 as [H0 _]. apply E4 in H0 as (ti & _ & H0).
    apply In_mem_true in H0. rewrite exit_static_no_root in H0. discriminate.
Qed.

Lemma targets_bound g : In g (k_target A) -> g < n.
Proof.
  intros Hg. destruct (selected_sets pv c cfg evp (x_store x)) as [_ _ _ _ E5 _]. fold A in E5.
  apply E5 in Hg as (ti & _ & Hg). now destruct (wf_tr_targets c W ti g Hg).
Qed.

(* an exited state lies below the domain of a selected transition, which is in the ancestor closure of the targets,
   and every active state below that domain is exited *)
Lemma exit_below_domain y : In y ex ->
  In y cfg /\ exists d, In d (add_ancestors c (k_target A)) /\ Anc d y /\ forall z, In z cfg -> Anc d z -> In z ex.
Proof.
  intros Hy. destruct (selected_sets pv c cfg evp (x_store x)) as [_ _ _ E4 E5 _]. fold A in E4, E5.
  destruct Hcfg as [Cs Cb C0 Cc].
  apply In_set_inter in Hy as [Hy Hyc]. split; [exact Hyc|].
  apply E4 in Hy as (ti & Hti & Hy).
  apply In_exit_static in Hy as (d & Hd & Hdy); [|now apply (bounded_In n cfg)].
  exists d. split; [|split; [exact Hdy|]].
  - destruct (domain_has_target c H ti d Hd) as (g & Hg & Hdg).
    apply (In_add_ancestors c H). right. exists g. split; [|exact Hdg]. apply E5. now exists ti.
  - intros z Hz Hdz. apply In_set_inter. split; [|exact Hz]. apply E4. exists ti. split; [exact Hti|].
    apply In_exit_static; [now apply (bounded_In n cfg)|]. now exists d.
Qed.

(* the state of the emitted model when it enters REMEMBER_HISTORY, and what the engine has then *)
Record at_microstep (s3 : pstate) (x0 : xstate) : Prop := {
  am_cfg : p_cfg s3 = cfg;
  am_hist : p_hist s3 = l_hist l;
  am_rx : Rx c s3 x0;
  am_store : store_has dom (x_store x0);
  am_tlf : p_tlf s3 = l_tlf l;
  am_fin : p_fin s3 = l_tlf l;
  am_spont : p_spont s3 = true
}.

Lemma microstep_sim s3 x0 initd : at_microstep s3 x0 ->
  let s' := p_microstep pv c iq eq (k_target A) ex (k_trans A) s3 in
  let l0 := {| l_cfg := cfg; l_hist := l_hist l; l_initd := initd; l_spont := l_spont l; l_init := l_init l;
               l_tlf := l_tlf l; l_fin := l_fin l; l_stable := false; l_cancelled := l_cancelled l |} in
  let r := fmicrostep ex_fixed c l0 x0 (k_target A) ex (k_trans A) false in
  p_full s' = false ->
  corr c dom s' (fst r) (snd r) /\ cfg_ok c (l_cfg (fst r)) /\ p_spont s' = true /\ l_spont (fst r) = true.
Proof.
  intros [Mc Mh Mr Ms Mt Mf Msp]. cbv zeta.
  destruct ex_facts as (Xs & Xb & Xsub & X0 & _ & _).
  destruct (selected_sets pv c cfg evp (x_store x)) as [_ T2 T3 _ _ _]. fold A in T2, T3.
  destruct Hcfg as [Cs Cb C0 Cc]. fold cfg in Cs, Cb, C0, Cc.
  unfold p_microstep, fmicrostep. cbn [l_cfg l_hist l_initd l_tlf l_fin l_stable l_cancelled].
  (* REMEMBER_HISTORY *)
  destruct (pml_history_lemma pv c Hcov ex X0 s3) as (Hh & Hcore & Hobs). cbv zeta in Hh, Hcore, Hobs.
  set (s1 := p_remember pv c ex s3) in *.
  rewrite Mc, cfg_nonempty, Mh in Hh.
  assert (Hc1 : p_cfg s1 = cfg) by (unfold pcore in Hcore; congruence).
  set (hist := fremember c cfg ex (l_hist l)) in *.
  rewrite Hc1, Hh.
  (* ESTABLISH_ENTRY_SET *)
  destruct (pml_entry_set_lemma pv c H cfg ex hist (k_target A) T2 targets_bound
              (fun y Hy => bounded_In n cfg y Cb Hy) Cc exit_below_domain (k_trans A) s1) as [Ee Ei].
  rewrite Ee.
  pose proof (fentry_set_ts c H cfg ex hist (k_target A) (k_trans A)) as Ets.
  destruct (fentry_set c cfg ex hist (k_target A) (k_trans A)) as [es ts'] eqn:Efs. cbn [fst snd] in *. subst ts'.
  destruct Ei as [Es Eb Ec E0].
  set (s2 := out (PEntrySet es) s1) in *.
  assert (R2 : Rx c s2 x0).
  { apply Rx_out_none; [reflexivity|]. destruct Mr as (R1 & R2 & R3 & R4). unfold pcore in Hcore.
    unfold PmlEquivContent.Rx. repeat split; congruence. }
  assert (C2 : p_cfg s2 = cfg) by exact Hc1.
  assert (P2 : prest s2 = (hist, (true, l_tlf l, p_found s3, l_tlf l))).
  { unfold prest, s2. cbn [out p_hist p_spont p_tlf p_found p_fin]. unfold pcore in Hcore. rewrite Hh.
    injection Hcore as Q1 Q2 Q3 Q4 Q5 Q6 Q7 Q8 Q9. rewrite Q6, Q7, Q8, Q9, Msp, Mt, Mf. reflexivity. }
  assert (G2 : guard_ok s2).
  { unfold PmlEquivContent.guard_ok, s2. cbn [out p_fin p_tlf]. injection Hcore as _ _ _ _ _ _ Q7 _ Q9. rewrite Q7, Q9, Mt, Mf. now destruct (l_tlf l). }
  (* EXIT_STATES, TAKE_TRANSITIONS, ENTER_STATES *)
  set (s3' := fold_left (p_exit_one pv c iq eq ex) (rev (seq 0 (pn c))) s2).
  set (s4' := fold_left (p_take_one pv c iq eq (k_trans A)) (seq 0 (pnt c)) s3').
  intros Hfull.
  pose proof (not_full_before _ s4' (mono_enter_phase pv c iq eq es (k_trans A)) Hfull) as Hf4.
  pose proof (not_full_before _ s3' (mono_take_phase pv c iq eq (k_trans A)) Hf4) as Hf3.
  assert (Xsub2 : forall i, In i ex -> In i (p_cfg s2)) by (intros i Hi; rewrite C2; now apply Xsub).
  destruct (exit_phase pv c iq eq dom Hin Hcontent ex s2 x0 Xs Xb Xsub2 R2 Ms G2 Hf3) as (C3 & R3 & S3 & P3).
  fold s3' in C3, R3, S3, P3. rewrite C2 in C3, R3, S3.
  destruct (fold_left (exit_one ex_fixed c) (rev ex) (cfg, x0)) as [cfg1 x1] eqn:Eex. cbn [fst snd] in *.
  assert (Ecfg1 : cfg1 = fold_left (fun g i => set_remove i g) (rev ex) cfg).
  { pose proof (exit_cfg_fold (rev ex) cfg x0) as E. rewrite Eex in E. exact E. }
  assert (T3b : bounded (ntrans c) (k_trans A)).
  { apply bounded_intro. intros ti Hti. now apply (selected_bound pv c cfg evp (x_store x)). }
  destruct (take_phase pv c iq eq dom Hin Hcontent (k_trans A) s3' x1 T3 T3b R3 S3 (guard_ok_rest _ _ P3 G2) Hf4) as (R4 & S4 & F4).
  fold s4' in R4, S4, F4. rewrite C3 in R4, S4. apply pframe_split in F4 as [C4 P4].
  set (x2 := fold_left (take_one ex_fixed c cfg1) (k_trans A) x1) in *.
  assert (P4' : prest s4' = (hist, (true, l_tlf l, p_found s3, l_tlf l))) by congruence.
  assert (Hin1 : forall y, In y cfg1 <-> In y cfg /\ ~ In y ex).
  { intros y. rewrite Ecfg1, In_remove_fold, <- in_rev. tauto. }
  assert (E4 : ecorr c dom s4' {| ea_cfg := cfg1; ea_initd := initd; ea_tlf := l_tlf l; ea_x := x2 |}).
  { unfold prest in P4'. constructor; cbn [ea_cfg ea_x ea_tlf].
    - congruence.
    - exact R4.
    - exact S4.
    - congruence.
    - congruence.
    - rewrite Ecfg1. now apply remove_fold_sorted.
    - apply bounded_intro. intros y Hy. apply Hin1 in Hy as [Hy _]. now apply (bounded_In n cfg).
    - apply Hin1. split; [exact C0|]. intros H0. apply In_mem_true in H0. congruence. }
  assert (Ebd : bounded n es) by (apply bounded_intro; exact Eb).
  destruct (enter_phase pv c iq eq dom Hin H Hcontent Hdata es (k_trans A) s4' _ Es Ebd T3 T3b E4 Hfull) as (E5 & Hh5 & Hsp5).
  set (s5 := fold_left (p_enter_one pv c iq eq es (k_trans A)) (seq 0 (pn c)) s4') in *.
  set (a5 := fold_left (fenter_one ex_fixed c (k_trans A)) es _) in *.
  destruct E5 as [F1 F2 F3 F4' F5 F6 F7 F8]. unfold prest in P4'.
  cbn [fst snd l_cfg l_spont].
  split; [|split; [|split; [congruence|reflexivity]]].
  - constructor; cbn [l_cfg l_hist l_tlf]; try congruence.
    + apply Rx_emit_none; [reflexivity|exact F2].
    + exact F3.
  - constructor; auto.
    (* the new configuration is closed under ancestors *)
    intros y a Hy Ha. unfold a5 in *. rewrite In_enter_fold in *. cbn [ea_cfg] in *.
    destruct Hy as [Hy|Hy]; [|right; now apply (Ec y)].
    apply Hin1 in Hy as [Hy Hny]. left. apply Hin1. split; [now apply (Cc y)|].
    intros Hae. destruct (exit_below_domain a Hae) as (_ & d & _ & Hda & Hall).
    apply Hny, Hall; [exact Hy|]. eapply anc_trans; eauto.
Qed.

(* ---- the d_step against fselect_and_step ---- *)
Theorem pml_microstep_lemma :
  let s' := fst (pml_dstep pv c iq eq evp s) in
  let r := fselect_and_step ex_fixed c l x evf in
  p_full s' = false ->
  corr c dom s' (fst (fst r)) (snd (fst r)) /\ cfg_ok c (l_cfg (fst (fst r))) /\
  (if nonempty (k_trans A) then p_spont s' = true /\ l_spont (fst (fst r)) = true
   else p_spont s' = false /\ l_spont (fst (fst r)) = match evf with Some _ => true | None => false end).
Proof.
  cbv zeta. rewrite pml_dstep_unfold. cbv zeta.
  destruct p_select_form as (Ea & Pc & Ph & Po). rewrite Ea. cbn [k_found k_target k_exit k_trans].
  set (s2 := snd (p_select pv c evp s)) in *.
  destruct Hcorr as [Cc Ch Cr Cs Ct Cf].
  assert (C2 : p_cfg s2 = cfg) by (unfold pcore in Pc; unfold cfg; congruence).
  cbn [set_flags p_cfg p_found p_tlf p_fin]. rewrite C2, cfg_nonempty. cbn [negb].
  destruct selection as [Sel Fnd]. rewrite Fnd.
  unfold fselect_and_step. cbn [upd_flags l_cfg l_spont]. fold cfg. rewrite Sel.
  assert (R2 : Rx c s2 x).
  { destruct Cr as (R1 & R2 & R3 & R4). unfold pcore in Pc. unfold PmlEquivContent.Rx. repeat split; congruence. }
  destruct (k_trans A) as [|t0 tr0] eqn:Ek; cbn [nonempty].
  - (* nothing selected *)
    cbn [fst snd out set_flags p_found p_full p_spont upd_flags l_cfg l_spont]. intros _.
    split; [|split; [exact Hcfg|split; reflexivity]].
    unfold pcore in Pc. constructor; cbn [out set_flags p_cfg p_hist p_tlf p_fin upd_flags l_cfg l_hist l_tlf]; try congruence; try exact Cs.
    apply Rx_out_none; [reflexivity|]. apply Rx_set_flags. exact R2.
  - (* a microstep *)
    rewrite <- Ek. cbn [p_found set_flags out].
    destruct ex_facts as (_ & _ & _ & _ & Xe & Xt).
    rewrite <- Xe, <- Xt.
    set (s3 := {| p_cfg := p_cfg s2; p_hist := p_hist s2; p_spont := true; p_tlf := p_tlf s2; p_found := true; p_fin := p_fin s2;
                 p_store := p_store s2; p_iq := p_iq s2; p_eq := p_eq s2; p_full := p_full s2; p_out := PFound :: p_out s2 |}).
    assert (M : at_microstep s3 (emit TMsB x)).
    { unfold pcore in Pc. constructor; unfold s3; cbn [p_cfg p_hist p_tlf p_fin p_spont]; try congruence.
      - apply Rx_emit_none; [reflexivity|]. apply (Rx_out_none c PFound s2 x eq_refl) in R2. exact R2.
      - exact Cs. }
    pose proof (microstep_sim s3 (emit TMsB x) (l_initd l) M) as MS. cbv zeta in MS.
    intros Hfull. cbn [fst snd] in Hfull |- *.
    destruct (fmicrostep ex_fixed c _ (emit TMsB x) (k_target A) ex (k_trans A) false) as [l1 x2] eqn:Efm.
    cbn [fst snd] in *. destruct (MS Hfull) as (K1 & K2 & K3 & K4).
    split; [exact K1|]. split; [exact K2|]. split; assumption.
Qed.

End Micro.

(* ---- a boolean form of cfg_ok (for concrete configurations) ---- *)
Definition cfg_okb (c : fchart) (cfg : list nat) : bool :=
  list_eqb cfg (filter (fun i => mem i cfg) (seq 0 (nstates c))) && mem 0 cfg &&
  forallb (fun x => forallb (fun a => mem a cfg) (fs_ancestors (st c x))) cfg.

Lemma cfg_okb_sound c cfg : wf_coreb c = true -> cfg_okb c cfg = true -> cfg_ok c cfg.
Proof.
  intros H Hb. unfold cfg_okb in Hb. apply andb_true_iff in Hb as [Hb Hcl]. apply andb_true_iff in Hb as [Heq H0].
  apply list_eqb_eq in Heq.
  constructor.
  - rewrite Heq. apply filter_ssorted, ssorted_seq.
  - apply bounded_intro. intros x Hx. rewrite Heq in Hx. apply filter_In in Hx as [Hx _]. apply in_seq in Hx. lia.
  - now apply mem_true_In.
  - intros x a Hx Ha. rewrite forallb_forall in Hcl. specialize (Hcl x Hx). rewrite forallb_forall in Hcl.
    apply mem_true_In, Hcl. now apply (In_anc c H).
Qed.
