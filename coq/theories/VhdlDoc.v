(* VhdlDoc.v -- C18 at the level of the DOCUMENT: the fragment ChartToVHDL handles, as a boolean predicate on the
   document trees of Chart.v (vh_treeb), the flat-table conditions it yields beyond WfCore.wf_coreb (vh_extrab),
   charts with the condition inputs frozen to constants (set_conds: the tie between "conditions are input ports"
   of Vhdl.v and "conditions are datamodel expressions" of Fast.v / Large.v), and runs of the emitted register
   (vh_run).  Definitions only; proofs in VhdlDocFlat.v, VhdlDocLemmas.v, VhdlDocEngine.v, VhdlDocLegal.v.

   The clauses of vh_treeb, in the words of the Recommendation / of ChartToVHDL.cpp:
     ct_kindsb           only <scxml>/<state>, <parallel>, <final> elements (no <history>, no <initial>: the
                         property's quantifier; the datamodel plays no role: conditions are input ports, <data> and
                         executable content are not looked at by the next-state logic);
     ct_rootb            the root is an <scxml> (or <state>) element with at least one child state;
     ct_uniqueb          ids are pairwise different;
     ct_initialb         an 'initial' attribute names ONE CHILD (writeCompleteEntrySet compares the attribute with
                         the id of the child);
     ct_no_root_targetb  no transition targets the root (there is no in_complete_entry_set_up_0 signal);
     vt_final_leafb      a <final> has no child states (in_complete_entry_set_up_<final> has no child terms);
     vt_root_plainb      the root element has no <transition> children;
     vt_descsb           every event descriptor of a transition is "*", name, name"." or name".*" with a name
                         free of '.', '*' and white space (Vhdl.simple_desc: one token of the event trie);
     vt_contentb         every event name in <raise>/<send> is, after findEvents' stripping of a trailing "*" and
                         ".", empty or such a name (these names become words of the trie as well).
   NOT demanded here: ct_target_setsb (needed for legality of the next configuration only, see vh_tree_runb). *)
From V Require Import Base NameMatch Chart Exec Large Legal Fast Vhdl WfCore FlattenWf.
Local Open Scope nat_scope.

(* ------------------------------------------------------------------ the document fragment *)

Definition vt_final_leafb (t : tree) : bool :=
  forallb (fun u => match t_kind u with KFinal => negb (has_kids u) | _ => true end) (subtrees t).

Definition vt_root_plainb (t : tree) : bool := match t_trans t with [] => true | _ => false end.

Definition vt_descsb (t : tree) : bool :=
  forallb (fun u => forallb (fun x => match tt_event x with
                                      | Some e => forallb simple_desc (tokens e)
                                      | None => true
                                      end) (t_trans u)) (subtrees t).

(* what findEvents makes of a token is no word at all, or a one-token word *)
Definition ev_tok_ok (d : bytes) : bool := negb (nonempty (ev_strip d)) || simple_name (ev_strip d).
Definition attr_ok (a : bytes) : bool := forallb ev_tok_ok (tokens a).
Definition block_ok (b : block) : bool := forallb attr_ok (flat_map instr_event_attrs b).

Definition vt_contentb (t : tree) : bool :=
  forallb (fun u => forallb block_ok (t_onentry u ++ t_onexit u) &&
                    forallb (fun x => block_ok (tt_body x)) (t_trans u)) (subtrees t).

Definition vh_treeb (t : tree) : bool :=
  ct_kindsb t && ct_rootb t && ct_uniqueb t && ct_initialb t && ct_no_root_targetb t &&
  vt_final_leafb t && vt_root_plainb t && vt_descsb t && vt_contentb t.

(* ... and with the targets of every transition forming a legal state specification: the documents on which the
   next configuration is legal again, so that the hardware step can be iterated *)
Definition vh_tree_runb (t : tree) : bool := vh_treeb t && ct_target_setsb t.

(* ------------------------------------------------------------------ flat level *)

(* wf_coreb without its last clause (the targets of a transition never lie in two children of one compound state):
   wf_coreb c = wf_core0b c && wfb_target_sets c *)
Definition wf_core0b (c : fchart) : bool :=
  wfb_nonempty c && wfb_root c && wfb_parent c && wfb_children c && wfb_anc c && wfb_interval c && wfb_types c &&
  wfb_root_type c && wfb_completion c && wfb_src c && wfb_targets c.

(* what vh_wfb demands beyond wf_core0b *)
Definition vh_leafb (c : fchart) : bool :=
  forallb (fun i => match fs_type (st c i) with
                    | FAtomic | FFinal => match fs_children (st c i) with [] => true | _ => false end
                    | _ => true
                    end) (seq 0 (nstates c)).
Definition vh_sizesb (c : fchart) : bool :=
  forallb (fun i => (i + fs_size (st c i) <=? nstates c) && (1 <=? fs_size (st c i))) (seq 0 (nstates c)).
Definition vh_trans_extrab (c : fchart) : bool :=
  forallb (fun ti => let t := tr c ti in
                     (1 <=? ft_source t) && (ft_source t <? nstates c) &&
                     negb (ft_history t) && negb (ft_initial t) &&
                     (ft_spontaneous t || forallb simple_desc (tokens (ft_event t)))) (seq 0 (ntrans c)).
Definition vh_extrab (c : fchart) : bool :=
  vh_leafb c && vh_sizesb c && vh_trans_extrab c && forallb simple_name (doc_events c).

(* ------------------------------------------------------------------ conditions frozen to constants *)

(* the chart whose every condition is the constant the valuation gives it *)
Definition const_cond (b : bool) : bexpr := if b then BTrue else BFalse.
Definition set_cond (val : nat -> bool) (ti : nat) (t : ftrans) : ftrans :=
  {| ft_vid := ft_vid t; ft_source := ft_source t; ft_targets := ft_targets t; ft_targetless := ft_targetless t;
     ft_internal := ft_internal t; ft_spontaneous := ft_spontaneous t; ft_history := ft_history t;
     ft_initial := ft_initial t; ft_event := ft_event t;
     ft_cond := match ft_cond t with Some _ => Some (const_cond (val ti)) | None => None end;
     ft_body := ft_body t; ft_has_body := ft_has_body t |}.
Fixpoint set_conds_from (val : nat -> bool) (k : nat) (l : list ftrans) : list ftrans :=
  match l with [] => [] | t :: r => set_cond val k t :: set_conds_from val (S k) r end.
Definition set_conds (val : nat -> bool) (c : fchart) : fchart :=
  {| fc_states := fc_states c; fc_trans := set_conds_from val 0 (fc_trans c); fc_late := fc_late c |}.

(* the valuation a datamodel state gives to the condition inputs: InterpreterImpl::isTrue of the condition
   in configuration cfg and store s (an evaluation error counts as false) *)
Definition val_of (c : fchart) (cfg : list nat) (s : store) (ti : nat) : bool :=
  match ft_cond (tr c ti) with
  | Some cnd => match Exec.beval (inst_of c cfg) s cnd with Some b => b | None => false end
  | None => true
  end.

(* ------------------------------------------------------------------ runs of the register *)

(* one clock edge: pending event (None = the spontaneous step) and the values of the condition ports *)
Definition vh_input : Type := option bytes * (nat -> bool).

(* the reference: iterate next_config *)
Fixpoint ref_run (c : fchart) (cfg : list nat) (ins : list vh_input) : list nat :=
  match ins with
  | [] => cfg
  | (ev, val) :: r => ref_run c (next_config c cfg ev val) r
  end.

(* the emitted design: the register state_active_* takes state_next_* at every edge; None = some state_next_* is
   undefined (the net did not settle).  When completed_sig is '1' (a top-level <final> is active) the design is
   stopped: the run ends there *)
Fixpoint vh_run (c : fchart) (eqs : list (signal * vexpr)) (cfg : list nat) (ins : list vh_input) : option (list nat) :=
  match ins with
  | [] => Some cfg
  | (ev, val) :: r =>
    if vh_running c cfg then
      match eval_eqs c eqs cfg ev val with
      | Some cfg' => vh_run c eqs cfg' r
      | None => None
      end
    else Some cfg
  end.
Fixpoint ref_run_stop (c : fchart) (cfg : list nat) (ins : list vh_input) : list nat :=
  match ins with
  | [] => cfg
  | (ev, val) :: r => if vh_running c cfg then ref_run_stop c (next_config c cfg ev val) r else cfg
  end.

Definition inputs_okb (c : fchart) (ins : list vh_input) : bool := forallb (fun p => vh_event_ok c (fst p)) ins.
